import ZapVerif.Model.Derive
import ZapVerif.Model.Slices
import ZapVerif.Proofs.Core
/-! helper lemmas for C07: With commutes with Check, lazy = With of the snapshot, once-cells are stable, slices -/
namespace ZapVerif.Cores

mutual
/-- checking a core derived by `With(fs)` is checking the original with `fs` pending in front -/
theorem check_pushF (σ : Store) (sn : Snap) (l : Level) : ∀ (c : Core) (fs pend : List FldP) (ce : List Item),
    check σ sn l (pushF sn c fs) pend ce = check σ sn l c (fs ++ pend) ce
  | .leaf i en io ctx, fs, pend, ce => by simp [pushF, check, List.append_assoc]
  | .nop, fs, pend, ce => by simp [pushF, check]
  | .tee cs, fs, pend, ce => by simp only [pushF, check]; exact checkAll_pushF σ sn l cs fs pend ce
  | .incr c en, fs, pend, ce => by
      simp only [pushF, check]; split
      · exact check_pushF σ sn l c fs pend ce
      · rfl
  | .hooked c h, fs, pend, ce => by
      simp only [pushF, check]; rw [check_pushF σ sn l c fs pend ce]
  | .sampler c s p, fs, pend, ce => by
      simp only [pushF, check]; rw [enabled_pushF, check_pushF σ sn l c fs pend ce]
  | .lazy cell c pfs, fs, pend, ce => by
      simp only [pushF, check]
      rw [check_pushF σ sn l c _ pend ce]
      by_cases he : enabled σ c l = true
      · simp [he, List.append_assoc]
      · have he' : enabled σ c l = false := by simpa using he
        simp [he', check_disabled σ sn l c _ ce he']
theorem checkAll_pushF (σ : Store) (sn : Snap) (l : Level) : ∀ (cs : List Core) (fs pend : List FldP) (ce : List Item),
    checkAll σ sn l (pushFAll sn cs fs) pend ce = checkAll σ sn l cs (fs ++ pend) ce
  | [], fs, pend, ce => by simp [pushFAll, checkAll]
  | c :: cs, fs, pend, ce => by
      simp only [pushFAll, checkAll]
      rw [check_pushF σ sn l c fs pend ce, checkAll_pushF σ sn l cs fs pend _]
end

/-- a lazy core checks like its wrapped core with the (snapshotted) pending fields in front -/
theorem check_lazy (σ : Store) (sn : Snap) (l : Level) (cell : Nat) (c : Core) (pfs : List Fld) (pend : List FldP)
    (ce : List Item) :
    check σ sn l (.lazy cell c pfs) pend ce = check σ sn l c (cellPairs sn cell pfs ++ pend) ce := by
  simp only [check]
  by_cases he : enabled σ c l = true
  · simp [he]
  · have he' : enabled σ c l = false := by simpa using he
    simp [he', check_disabled σ sn l c _ ce he']

/-! ### once-cells: a forced cell never changes -/

def Keeps (w w' : W) : Prop := ∀ cell r, w.snap cell = some r → w'.snap cell = some r

theorem Keeps.refl (w : W) : Keeps w w := fun _ _ h => h
theorem Keeps.trans {a b c : W} (h1 : Keeps a b) (h2 : Keeps b c) : Keeps a c := fun cell r h => h2 cell r (h1 cell r h)
theorem Keeps.emit (w : W) (es : List Ev) : Keeps w (w.emit es) := fun _ _ h => by simpa [W.emit] using h

theorem Keeps.setNone (w : W) (cell : Nat) (r : List Fld) (hn : w.snap cell = none) :
    Keeps w { w with snap := w.snap.set cell r } := by
  intro c2 r2 h
  simp only [Snap.set]
  by_cases hc : c2 = cell
  · subst hc; rw [hn] at h; cases h
  · simp [hc, h]

mutual
theorem withEv_keeps (μ : Val) : ∀ (c : Core) (fs : List Fld) (w : W), Keeps w (withEv μ c fs w)
  | .leaf id en io ctx, fs, w => by simp only [withEv]; split; exact Keeps.emit w _; exact Keeps.refl w
  | .nop, fs, w => by simp only [withEv]; exact Keeps.refl w
  | .tee cs, fs, w => by simp only [withEv]; exact withEvAll_keeps μ cs fs w
  | .incr c en, fs, w => by simp only [withEv]; exact withEv_keeps μ c fs w
  | .hooked c h, fs, w => by simp only [withEv]; exact withEv_keeps μ c fs w
  | .sampler c s p, fs, w => by simp only [withEv]; exact withEv_keeps μ c fs w
  | .lazy cell c pfs, fs, w => by
      simp only [withEv]
      cases hs : w.snap cell with
      | some r => simp only []; exact withEv_keeps μ c fs w
      | none =>
        simp only []
        refine Keeps.trans ?_ (withEv_keeps μ c fs _)
        intro c2 r2 h
        have h1 := withEv_keeps μ c (pfs.map (Fld.resolve μ)) w c2 r2 h
        simp only [Snap.set]
        by_cases hc : c2 = cell
        · subst hc; rw [hs] at h; cases h
        · simp [hc, h1]
theorem withEvAll_keeps (μ : Val) : ∀ (cs : List Core) (fs : List Fld) (w : W), Keeps w (withEvAll μ cs fs w)
  | [], fs, w => by simp only [withEvAll]; exact Keeps.refl w
  | c :: cs, fs, w => by simp only [withEvAll]; exact (withEv_keeps μ c fs w).trans (withEvAll_keeps μ cs fs _)
end

theorem forceCell_keeps (μ : Val) (cell : Nat) (c : Core) (pfs : List Fld) (w : W) : Keeps w (forceCell μ cell c pfs w) := by
  unfold forceCell
  cases hs : w.snap cell with
  | some r => exact Keeps.refl w
  | none =>
    intro c2 r2 h
    have h1 := withEv_keeps μ c (pfs.map (Fld.resolve μ)) w c2 r2 h
    simp only [Snap.set]
    by_cases hc : c2 = cell
    · subst hc; rw [hs] at h; cases h
    · simp [hc, h1]

mutual
theorem checkEv_keeps (σ : Store) (μ : Val) (l : Level) : ∀ (c : Core) (w : W), Keeps w (checkEv σ μ l c w)
  | .leaf id en io ctx, w => by simp only [checkEv]; exact Keeps.refl w
  | .nop, w => by simp only [checkEv]; exact Keeps.refl w
  | .tee cs, w => by simp only [checkEv]; exact checkEvAll_keeps σ μ l cs w
  | .incr c en, w => by
      simp only [checkEv]; split
      · exact checkEv_keeps σ μ l c w
      · exact Keeps.refl w
  | .hooked c h, w => by simp only [checkEv]; exact checkEv_keeps σ μ l c w
  | .sampler c s p, w => by
      simp only [checkEv]; split
      · exact Keeps.refl w
      · split
        · split
          · exact (Keeps.emit w _).trans (checkEv_keeps σ μ l c _)
          · exact Keeps.emit w _
        · exact checkEv_keeps σ μ l c w
  | .lazy cell c pfs, w => by
      simp only [checkEv]; split
      · exact Keeps.refl w
      · exact (forceCell_keeps μ cell c pfs w).trans (checkEv_keeps σ μ l c _)
theorem checkEvAll_keeps (σ : Store) (μ : Val) (l : Level) : ∀ (cs : List Core) (w : W), Keeps w (checkEvAll σ μ l cs w)
  | [], w => by simp only [checkEvAll]; exact Keeps.refl w
  | c :: cs, w => by simp only [checkEvAll]; exact (checkEv_keeps σ μ l c w).trans (checkEvAll_keeps σ μ l cs _)
end

theorem log_keeps (σ : Store) (μ : Val) (lg : Logger) (l : Level) (fs : List Fld) (w : W) : Keeps w (lg.log σ μ l fs w) := by
  rw [log_eq_checked]
  split
  · exact Keeps.refl w
  · unfold Logger.checked
    exact (checkEv_keeps σ μ l lg.core w).trans (Keeps.emit _ _)

/-! ### every once-cell that `check` / `pushF` reads has been initialised by `checkEv` / `withEv`
      (the `none` arm of `cellPairs` is unreachable) -/

mutual
/-- the cells `check σ sn l c` reads are initialised in `sn` -/
def readsOk (σ : Store) (sn : Snap) (l : Level) : Core → Bool
  | .leaf _ _ _ _ => true
  | .nop => true
  | .tee cs => readsOkAll σ sn l cs
  | .incr c en => if en.on σ l then readsOk σ sn l c else true
  | .hooked c _ => readsOk σ sn l c
  | .sampler c _ pass => if !enabled σ c l then true else if inRange l && !pass then true else readsOk σ sn l c
  | .lazy cell c _ => if !enabled σ c l then true else (sn cell).isSome && readsOk σ sn l c
def readsOkAll (σ : Store) (sn : Snap) (l : Level) : List Core → Bool
  | [] => true
  | c :: cs => readsOk σ sn l c && readsOkAll σ sn l cs
end

mutual
/-- every cell of the tree is initialised (what `pushF`, i.e. `With`, reads) -/
def allForced (sn : Snap) : Core → Bool
  | .leaf _ _ _ _ => true
  | .nop => true
  | .tee cs => allForcedAll sn cs
  | .incr c _ => allForced sn c
  | .hooked c _ => allForced sn c
  | .sampler c _ _ => allForced sn c
  | .lazy cell c _ => (sn cell).isSome && allForced sn c
def allForcedAll (sn : Snap) : List Core → Bool
  | [] => true
  | c :: cs => allForced sn c && allForcedAll sn cs
end

theorem isSome_keeps {w w' : W} (hk : Keeps w w') (cell : Nat) (h : (w.snap cell).isSome = true) :
    (w'.snap cell).isSome = true := by
  cases hs : w.snap cell with
  | none => simp [hs] at h
  | some r => simp [hk cell r hs]

mutual
theorem readsOk_keeps (σ : Store) (l : Level) {w w' : W} (hk : Keeps w w') : ∀ (c : Core),
    readsOk σ w.snap l c = true → readsOk σ w'.snap l c = true
  | .leaf _ _ _ _, _ => by simp [readsOk]
  | .nop, _ => by simp [readsOk]
  | .tee cs, h => by simp only [readsOk] at h ⊢; exact readsOkAll_keeps σ l hk cs h
  | .incr c en, h => by
      simp only [readsOk] at h ⊢; split
      · rename_i he; simp only [he, if_true] at h; exact readsOk_keeps σ l hk c h
      · rfl
  | .hooked c _, h => by simp only [readsOk] at h ⊢; exact readsOk_keeps σ l hk c h
  | .sampler c _ p, h => by
      simp only [readsOk] at h ⊢
      cases he : enabled σ c l with
      | false => simp
      | true =>
        cases hp : (inRange l && !p) with
        | true => simp
        | false =>
          simp only [he, hp, Bool.not_true, Bool.false_eq_true, if_false] at h ⊢
          exact readsOk_keeps σ l hk c h
  | .lazy cell c _, h => by
      simp only [readsOk] at h ⊢
      cases he : enabled σ c l with
      | false => simp
      | true =>
        simp only [he, Bool.not_true, Bool.false_eq_true, if_false, Bool.and_eq_true] at h ⊢
        exact ⟨isSome_keeps hk cell h.1, readsOk_keeps σ l hk c h.2⟩
theorem readsOkAll_keeps (σ : Store) (l : Level) {w w' : W} (hk : Keeps w w') : ∀ (cs : List Core),
    readsOkAll σ w.snap l cs = true → readsOkAll σ w'.snap l cs = true
  | [], _ => by simp [readsOkAll]
  | c :: cs, h => by
      simp only [readsOkAll, Bool.and_eq_true] at h ⊢
      exact ⟨readsOk_keeps σ l hk c h.1, readsOkAll_keeps σ l hk cs h.2⟩
end

mutual
theorem allForced_keeps {w w' : W} (hk : Keeps w w') : ∀ (c : Core), allForced w.snap c = true → allForced w'.snap c = true
  | .leaf _ _ _ _, _ => by simp [allForced]
  | .nop, _ => by simp [allForced]
  | .tee cs, h => by simp only [allForced] at h ⊢; exact allForcedAll_keeps hk cs h
  | .incr c _, h => by simp only [allForced] at h ⊢; exact allForced_keeps hk c h
  | .hooked c _, h => by simp only [allForced] at h ⊢; exact allForced_keeps hk c h
  | .sampler c _ _, h => by simp only [allForced] at h ⊢; exact allForced_keeps hk c h
  | .lazy cell c _, h => by
      simp only [allForced, Bool.and_eq_true] at h ⊢
      exact ⟨isSome_keeps hk cell h.1, allForced_keeps hk c h.2⟩
theorem allForcedAll_keeps {w w' : W} (hk : Keeps w w') : ∀ (cs : List Core),
    allForcedAll w.snap cs = true → allForcedAll w'.snap cs = true
  | [], _ => by simp [allForcedAll]
  | c :: cs, h => by
      simp only [allForcedAll, Bool.and_eq_true] at h ⊢
      exact ⟨allForced_keeps hk c h.1, allForcedAll_keeps hk cs h.2⟩
end

mutual
/-- `With` initialises every cell of the tree it is applied to -/
theorem withEv_forces (μ : Val) : ∀ (c : Core) (fs : List Fld) (w : W), allForced (withEv μ c fs w).snap c = true
  | .leaf _ _ _ _, fs, w => by simp [allForced]
  | .nop, fs, w => by simp [allForced]
  | .tee cs, fs, w => by simp only [withEv, allForced]; exact withEvAll_forces μ cs fs w
  | .incr c _, fs, w => by simp only [withEv, allForced]; exact withEv_forces μ c fs w
  | .hooked c _, fs, w => by simp only [withEv, allForced]; exact withEv_forces μ c fs w
  | .sampler c _ _, fs, w => by simp only [withEv, allForced]; exact withEv_forces μ c fs w
  | .lazy cell c pfs, fs, w => by
      simp only [withEv, allForced, Bool.and_eq_true]
      cases hs : w.snap cell with
      | some r =>
        simp only []
        exact ⟨isSome_keeps (withEv_keeps μ c fs w) cell (by simp [hs]), withEv_forces μ c fs w⟩
      | none =>
        simp only []
        refine ⟨isSome_keeps (withEv_keeps μ c fs _) cell (by simp [Snap.set]), withEv_forces μ c fs _⟩
theorem withEvAll_forces (μ : Val) : ∀ (cs : List Core) (fs : List Fld) (w : W),
    allForcedAll (withEvAll μ cs fs w).snap cs = true
  | [], fs, w => by simp [allForcedAll]
  | c :: cs, fs, w => by
      simp only [withEvAll, allForcedAll, Bool.and_eq_true]
      exact ⟨allForced_keeps (withEvAll_keeps μ cs fs _) c (withEv_forces μ c fs w), withEvAll_forces μ cs fs _⟩
end

theorem forceCell_some (μ : Val) (cell : Nat) (c : Core) (pfs : List Fld) (w : W) :
    ((forceCell μ cell c pfs w).snap cell).isSome = true := by
  unfold forceCell
  cases hs : w.snap cell with
  | some r => simp [hs]
  | none => simp [Snap.set]

mutual
/-- `Check` initialises every cell whose fields the accepting leaves will emit -/
theorem checkEv_reads (σ : Store) (μ : Val) (l : Level) : ∀ (c : Core) (w : W),
    readsOk σ (checkEv σ μ l c w).snap l c = true
  | .leaf _ _ _ _, w => by simp [readsOk]
  | .nop, w => by simp [readsOk]
  | .tee cs, w => by simp only [checkEv, readsOk]; exact checkEvAll_reads σ μ l cs w
  | .incr c en, w => by
      simp only [checkEv, readsOk]
      split
      · exact checkEv_reads σ μ l c w
      · rfl
  | .hooked c _, w => by simp only [checkEv, readsOk]; exact checkEv_reads σ μ l c w
  | .sampler c s p, w => by
      simp only [checkEv, readsOk]
      split
      · rfl
      · rename_i h1
        by_cases hr : inRange l = true
        · cases p with
          | true => simp only [hr, if_true, Bool.not_true, Bool.and_false, Bool.false_eq_true, if_false]
                    exact checkEv_reads σ μ l c _
          | false => simp [hr]
        · have hr' : inRange l = false := by simpa using hr
          simp only [hr', Bool.false_eq_true, if_false, Bool.false_and]
          exact checkEv_reads σ μ l c w
  | .lazy cell c pfs, w => by
      simp only [checkEv, readsOk]
      split
      · rfl
      · simp only [Bool.and_eq_true]
        exact ⟨isSome_keeps (checkEv_keeps σ μ l c _) cell (forceCell_some μ cell c pfs w), checkEv_reads σ μ l c _⟩
theorem checkEvAll_reads (σ : Store) (μ : Val) (l : Level) : ∀ (cs : List Core) (w : W),
    readsOkAll σ (checkEvAll σ μ l cs w).snap l cs = true
  | [], w => by simp [readsOkAll]
  | c :: cs, w => by
      simp only [checkEvAll, readsOkAll, Bool.and_eq_true]
      exact ⟨readsOk_keeps σ l (checkEvAll_keeps σ μ l cs _) c (checkEv_reads σ μ l c w), checkEvAll_reads σ μ l cs _⟩
end

/-! ### names -/

def joinDots : List (List UInt8) → List UInt8
  | [] => []
  | [a] => a
  | a :: b :: r => a ++ [46] ++ joinDots (b :: r)

theorem joinDots_snoc : ∀ (xs : List (List UInt8)) (s : List UInt8), xs ≠ [] →
    joinDots (xs ++ [s]) = joinDots xs ++ [46] ++ s
  | [], _, h => absurd rfl h
  | [a], s, _ => by simp [joinDots]
  | a :: b :: r, s, _ => by
      have := joinDots_snoc (b :: r) s (by simp)
      simp only [List.cons_append, joinDots] at this ⊢
      rw [this]; simp [List.append_assoc]

theorem joinDots_eq_nil : ∀ (xs : List (List UInt8)), (∀ x ∈ xs, x ≠ []) → joinDots xs = [] → xs = []
  | [], _, _ => rfl
  | [a], h, he => by simp [joinDots] at he; exact absurd he (h a (by simp))
  | a :: b :: r, h, he => by simp [joinDots] at he

theorem foldl_named (segs : List (List UInt8)) : ∀ (xs : List (List UInt8)), (∀ x ∈ xs, x ≠ []) →
    segs.foldl named (joinDots xs) = joinDots (xs ++ segs.filter (· ≠ [])) := by
  induction segs with
  | nil => intro xs _; simp
  | cons s r ih =>
    intro xs hx
    simp only [List.foldl_cons]
    by_cases hs : s = []
    · subst hs
      have : named (joinDots xs) [] = joinDots xs := by simp [named]
      rw [this, ih xs hx]; simp
    · have hf : (s :: r).filter (· ≠ []) = s :: r.filter (· ≠ []) := by simp [hs]
      rw [hf]
      by_cases hxs : xs = []
      · subst hxs
        have : named (joinDots []) s = joinDots [s] := by simp [named, joinDots, hs]
        rw [this, ih [s] (by simpa using hs)]; simp
      · have hne : joinDots xs ≠ [] := fun h => hxs (joinDots_eq_nil xs hx h)
        have : named (joinDots xs) s = joinDots (xs ++ [s]) := by
          rw [joinDots_snoc xs s hxs]; simp [named, hs, hne]
        rw [this, ih (xs ++ [s]) (by
          intro x hxm
          rcases List.mem_append.mp hxm with h | h
          · exact hx x h
          · simp at h; subst h; exact hs)]
        simp [List.append_assoc]

end ZapVerif.Cores

namespace ZapVerif.Slices

/-- an append to one array never changes a view of another live array -/
theorem append_other (h : Heap) (s t : Slice) (xs : List Nat) (ht : Live h t) (hne : t.id ≠ s.id) :
    view (append h s xs).1 t = view h t := by
  unfold append
  split
  · simp [view, setArr, hne]
  · have : t.id ≠ h.next := by unfold Live at ht; omega
    simp [view, setArr, this]

/-- an append through a capped header changes no existing view, whatever other headers exist -/
theorem capped_append_no_alias (h : Heap) (s t : Slice) (xs : List Nat) (ht : Live h t) :
    view (append h (capped s) xs).1 t = view h t := by
  unfold append capped
  by_cases hx : xs.length = 0
  · have : xs = [] := List.length_eq_zero_iff.mp hx
    subst this
    simp only [List.length_nil, Nat.add_zero, Nat.le_refl, if_true, List.append_nil, view, setArr]
    by_cases hi : t.id = s.id
    · simp [hi]
    · simp [hi]
  · have : ¬ (s.len + xs.length ≤ s.len) := by omega
    simp only [this, if_false, view, setArr]
    have hne : t.id ≠ h.next := by unfold Live at ht; omega
    simp [hne]

theorem capped_append_view (h : Heap) (s : Slice) (xs : List Nat) (hx : xs ≠ []) :
    view (append h (capped s) xs).1 (append h (capped s) xs).2 = view h s ++ xs := by
  unfold append capped
  have hl : xs.length ≠ 0 := fun h0 => hx (List.length_eq_zero_iff.mp h0)
  have : ¬ (s.len + xs.length ≤ s.len) := by omega
  simp only [this, if_false, view, setArr, if_true]
  apply List.take_of_length_le
  simp

end ZapVerif.Slices
