import ZapVerif.Proofs.Sync
/-! Generic data-race-freedom theorems over M10, one per synchronisation discipline. -/
namespace ZapVerif.Sync

theorem evAt_append_lt {tr : List Ev} {k : Nat} (post : List Ev) (h : k < tr.length) :
    evAt (post ++ tr) k = evAt tr k := by
  induction post with
  | nil => simp
  | cons e post ih =>
    have : k < (post ++ tr).length := by simp; omega
    rw [List.cons_append, evAt_cons_lt e this, ih]

theorem evAt_of_eq {tr A B : List Ev} {e : Ev} (h : tr = A ++ e :: B) : evAt tr B.length = some e := by
  subst h; exact evAt_append_self A e B

theorem conflict_parts {x : Var} {a b : Ev} (h : conflict x a b = true) :
    a.touches x = true ∧ b.touches x = true ∧ (a.isWrite = true ∨ b.isWrite = true) ∧
    ¬(a.isAtomic = true ∧ b.isAtomic = true) ∧ a.tid ≠ b.tid := by
  simp [conflict] at h
  obtain ⟨⟨⟨⟨h1, h2⟩, h3⟩, h4⟩, h5⟩ := h
  exact ⟨h1, h2, h3, by intro ⟨p, q⟩; rcases h4 with h | h <;> simp_all, h5⟩

/-- a race, unpacked into a split of the trace: `tr = post ++ b :: mid ++ a :: pre` -/
theorem race_split {tr : List Ev} {i j : Nat} {a b : Ev} (hij : i < j)
    (ha : evAt tr i = some a) (hb : evAt tr j = some b) :
    ∃ post mid pre, tr = post ++ b :: (mid ++ a :: pre) ∧ pre.length = i ∧ (mid ++ a :: pre).length = j := by
  obtain ⟨post, sb, ht, hl⟩ := evAt_split hb
  subst ht
  have ha' : evAt sb i = some a := by
    have h1 : i < (b :: sb).length := by simp; omega
    rw [evAt_append_lt post h1, evAt_cons_lt b (by omega)] at ha
    exact ha
  obtain ⟨mid, pre, hs, hl2⟩ := evAt_split ha'
  subst hs
  exact ⟨post, mid, pre, rfl, hl2, hl⟩

/-! ### 1. lockset (one mutex) -/

/-- **lockset_drf**: in a well-formed trace, if every access to x is made inside a critical section
    of one mutex m, there is no data race on x.  (`lockset_ordered` + `know_sound`.) -/
theorem lockset_drf (x : Var) (m : Lock) (tr : List Ev) (hwf : WF tr) (hg : Guarded x m tr) :
    DRF tr x := by
  rintro ⟨i, j, a, b, hij, ha, hb, hc, hn⟩
  obtain ⟨hax, hbx, _, _, _⟩ := conflict_parts hc
  obtain ⟨post, sb, ht, hl⟩ := evAt_split hb
  subst ht
  have hwf' := WF_suffix post _ hwf
  have hg' := Guarded_suffix x m post _ hg
  have ha' : evAt sb i = some a := by
    have h1 : i < (b :: sb).length := by simp; omega
    rw [evAt_append_lt post h1, evAt_cons_lt b (by omega)] at ha
    exact ha
  have hk := lockset_ordered x m b sb hwf' hg' hbx i a ha' hax
  have hhb := know_sound b sb i hk
  rw [hl] at hhb
  exact hn (HB_append post hhb)

/-! ### 2. read/write lockset (RWMutex) -/

theorem holder_readers (m : Lock) (s : Tid) : ∀ tr, WF tr → holder m tr = some s → readers m tr = []
  | [], _, h => by simp [holder] at h
  | e :: tr, hwf, h => by
    have ih := holder_readers m s tr hwf.1
    have hok := hwf.2
    cases e with
    | acq t m' =>
      by_cases hm : m' = m
      · subst hm; simp [okStep] at hok; simpa [readers] using hok.2
      · simp [holder, hm] at h; simpa [readers] using ih h
    | rel t m' =>
      by_cases hm : m' = m
      · subst hm; simp [holder] at h
      · simp [holder, hm] at h; simpa [readers] using ih h
    | racq t m' =>
      by_cases hm : m' = m
      · subst hm; simp [okStep] at hok; simp [holder, hok] at h
      · simp [holder] at h; simpa [readers, hm] using ih h
    | rrel t m' =>
      by_cases hm : m' = m
      · subst hm; simp [okStep] at hok; simp [holder] at h; simp [ih h] at hok
      · simp [holder] at h; simpa [readers, hm] using ih h
    | rd _ _ => simp [holder] at h; simpa [readers] using ih h
    | wr _ _ => simp [holder] at h; simpa [readers] using ih h
    | ard _ _ => simp [holder] at h; simpa [readers] using ih h
    | awr _ _ => simp [holder] at h; simpa [readers] using ih h
    | onceBegin _ _ => simp [holder] at h; simpa [readers] using ih h
    | onceEnd _ _ => simp [holder] at h; simpa [readers] using ih h
    | onceRet _ _ => simp [holder] at h; simpa [readers] using ih h
    | fork _ _ => simp [holder] at h; simpa [readers] using ih h

/-- if s holds m after `tr` and no longer after `mid ++ tr`, then s released m in `mid` -/
theorem rel_between (m : Lock) (s : Tid) (tr : List Ev) : ∀ mid, WF (mid ++ tr) →
    holder m tr = some s → holder m (mid ++ tr) ≠ some s → ∃ mid2 mid1, mid = mid2 ++ Ev.rel s m :: mid1
  | [], _, h, hn => absurd h (by simpa using hn)
  | e :: mid, hwf, h, hn => by
    by_cases hh : holder m (mid ++ tr) = some s
    · have hok := hwf.2
      cases e with
      | rel t m' =>
        by_cases hm : m' = m
        · subst hm; simp [okStep, hh] at hok; subst hok; exact ⟨[], mid, rfl⟩
        · exact absurd hh (by simpa [holder, hm] using hn)
      | acq t m' =>
        by_cases hm : m' = m
        · subst hm; simp [okStep, hh] at hok
        · exact absurd hh (by simpa [holder, hm] using hn)
      | _ => exact absurd hh (by simpa [holder] using hn)
    · obtain ⟨m2, m1, hs⟩ := rel_between m s tr mid hwf.1 h hh
      exact ⟨e :: m2, m1, by simp [hs]⟩

/-- if s read-holds m after `tr` and no longer after `mid ++ tr`, then s read-released m in `mid` -/
theorem rrel_between (m : Lock) (s : Tid) (tr : List Ev) : ∀ mid,
    s ∈ readers m tr → s ∉ readers m (mid ++ tr) → ∃ mid2 mid1, mid = mid2 ++ Ev.rrel s m :: mid1
  | [], h, hn => absurd h (by simpa using hn)
  | e :: mid, h, hn => by
    by_cases hh : s ∈ readers m (mid ++ tr)
    · cases e with
      | rrel t m' =>
        by_cases hm : m' = m
        · subst hm
          by_cases hts : s = t
          · subst hts; exact ⟨[], mid, rfl⟩
          · exact absurd ((List.mem_erase_of_ne hts).mpr hh) (by simpa [readers] using hn)
        · exact absurd hh (by simpa [readers, hm] using hn)
      | racq t m' =>
        by_cases hm : m' = m
        · subst hm; exact absurd (List.mem_cons_of_mem _ hh) (by simpa [readers] using hn)
        · exact absurd hh (by simpa [readers, hm] using hn)
      | _ => exact absurd hh (by simpa [readers] using hn)
    · obtain ⟨m2, m1, hs⟩ := rrel_between m s tr mid h hh
      exact ⟨e :: m2, m1, by simp [hs]⟩

/-- if t does not hold m after `tr` but does after `mid ++ tr`, then t acquired m in `mid` -/
theorem acq_between (m : Lock) (t : Tid) (tr : List Ev) : ∀ mid,
    holder m tr ≠ some t → holder m (mid ++ tr) = some t → ∃ mid2 mid1, mid = mid2 ++ Ev.acq t m :: mid1
  | [], hn, h => absurd (by simpa using h) hn
  | e :: mid, hn, h => by
    by_cases hh : holder m (mid ++ tr) = some t
    · obtain ⟨m2, m1, hs⟩ := acq_between m t tr mid hn hh
      exact ⟨e :: m2, m1, by simp [hs]⟩
    · cases e with
      | acq t' m' =>
        by_cases hm : m' = m
        · subst hm; simp [holder] at h; subst h; exact ⟨[], mid, rfl⟩
        · exact absurd (by simpa [holder, hm] using h) hh
      | rel t' m' =>
        by_cases hm : m' = m
        · subst hm; simp [holder] at h
        · exact absurd (by simpa [holder, hm] using h) hh
      | _ => exact absurd (by simpa [holder] using h) hh

/-- if t does not read-hold m after `tr` but does after `mid ++ tr`, then t read-acquired m in `mid` -/
theorem racq_between (m : Lock) (t : Tid) (tr : List Ev) : ∀ mid,
    t ∉ readers m tr → t ∈ readers m (mid ++ tr) → ∃ mid2 mid1, mid = mid2 ++ Ev.racq t m :: mid1
  | [], hn, h => absurd (by simpa using h) hn
  | e :: mid, hn, h => by
    by_cases hh : t ∈ readers m (mid ++ tr)
    · obtain ⟨m2, m1, hs⟩ := racq_between m t tr mid hn hh
      exact ⟨e :: m2, m1, by simp [hs]⟩
    · cases e with
      | racq t' m' =>
        by_cases hm : m' = m
        · subst hm
          simp [readers] at h
          rcases h with h | h
          · subst h; exact ⟨[], mid, rfl⟩
          · exact absurd h hh
        · exact absurd (by simpa [readers, hm] using h) hh
      | rrel t' m' =>
        by_cases hm : m' = m
        · subst hm; simp [readers] at h; exact absurd (List.mem_of_mem_erase h) hh
        · exact absurd (by simpa [readers, hm] using h) hh
      | _ => exact absurd (by simpa [readers] using h) hh

theorem RWGuarded_suffix (x : Var) (m : Lock) (post tr : List Ev) (h : RWGuarded x m (post ++ tr)) :
    RWGuarded x m tr := by
  induction post with
  | nil => simpa using h
  | cons e post ih => exact ih h.1

/-- the happens-before chain  a —po→ r —sw→ g —po→ b  read off a split of the trace -/
theorem chain_of_split {tr post mid4 mid3 mid1 pre : List Ev} {a r g b : Ev}
    (ht : tr = post ++ b :: (mid4 ++ g :: (mid3 ++ r :: (mid1 ++ a :: pre))))
    (har : a.tid = r.tid) (hsw : sw r g = true) (hgb : g.tid = b.tid) :
    HB tr pre.length (mid4 ++ g :: (mid3 ++ r :: (mid1 ++ a :: pre))).length := by
  have ea : evAt tr pre.length = some a :=
    evAt_of_eq (A := post ++ b :: (mid4 ++ g :: (mid3 ++ r :: mid1))) (by simp [ht])
  have er : evAt tr (mid1 ++ a :: pre).length = some r :=
    evAt_of_eq (A := post ++ b :: (mid4 ++ g :: mid3)) (by simp [ht])
  have eg : evAt tr (mid3 ++ r :: (mid1 ++ a :: pre)).length = some g :=
    evAt_of_eq (A := post ++ b :: mid4) (by simp [ht])
  have eb : evAt tr (mid4 ++ g :: (mid3 ++ r :: (mid1 ++ a :: pre))).length = some b :=
    evAt_of_eq (A := post) ht
  have h1 : HB tr pre.length (mid1 ++ a :: pre).length := .po (by simp; omega) ea er har
  have h2 : HB tr (mid1 ++ a :: pre).length (mid3 ++ r :: (mid1 ++ a :: pre)).length :=
    .sw (by simp; omega) er eg hsw
  have h3 : HB tr (mid3 ++ r :: (mid1 ++ a :: pre)).length
      (mid4 ++ g :: (mid3 ++ r :: (mid1 ++ a :: pre))).length := .po (by simp; omega) eg eb hgb
  exact .trans h1 (.trans h2 h3)

/-- a's goroutine holds m exclusively at `a`; b's goroutine (another one) holds m in some mode at `b`:
    then a —po→ Unlock —sw→ (R)Lock —po→ b -/
theorem cs_chain (m : Lock) (post mid pre : List Ev) (a b : Ev)
    (hha : holder m (a :: pre) = holder m pre)
    (hwfm : WF (mid ++ a :: pre)) (hxa : holder m pre = some a.tid) (hne : a.tid ≠ b.tid)
    (hb : holder m (mid ++ a :: pre) = some b.tid ∨ b.tid ∈ readers m (mid ++ a :: pre)) :
    HB (post ++ b :: (mid ++ a :: pre)) pre.length (mid ++ a :: pre).length := by
  have hnb : holder m (mid ++ a :: pre) ≠ some a.tid := by
    intro hcon
    rcases hb with hb | hb
    · rw [hcon] at hb; exact hne (by simpa using hb)
    · have := holder_readers m a.tid _ hwfm hcon; simp [this] at hb
  obtain ⟨m2, m1, hs⟩ := rel_between m a.tid (a :: pre) mid hwfm (by rw [hha]; exact hxa) hnb
  subst hs
  have hwf2 : WF (Ev.rel a.tid m :: (m1 ++ a :: pre)) := WF_suffix m2 _ (by simpa using hwfm)
  have hfree : holder m (Ev.rel a.tid m :: (m1 ++ a :: pre)) = none := by simp [holder]
  have hrel : holder m (m1 ++ a :: pre) = some a.tid := by
    have := hwf2.2; simpa [okStep] using this
  have hnor : readers m (Ev.rel a.tid m :: (m1 ++ a :: pre)) = [] := by
    simpa [readers] using holder_readers m a.tid _ hwf2.1 hrel
  simp only [List.append_assoc, List.cons_append] at hb
  have hacq : (∃ m4 m3, m2 = m4 ++ Ev.acq b.tid m :: m3) ∨ (∃ m4 m3, m2 = m4 ++ Ev.racq b.tid m :: m3) := by
    rcases hb with hb | hb
    · exact Or.inl (acq_between m b.tid _ m2 (by rw [hfree]; simp) hb)
    · exact Or.inr (racq_between m b.tid _ m2 (by rw [hnor]; simp) hb)
  rcases hacq with ⟨m4, m3, hs⟩ | ⟨m4, m3, hs⟩
  · subst hs
    have := chain_of_split (tr := post ++ b :: ((m4 ++ Ev.acq b.tid m :: m3) ++ Ev.rel a.tid m :: m1 ++ a :: pre))
      (post := post) (mid4 := m4) (mid3 := m3) (mid1 := m1) (pre := pre) (a := a) (r := Ev.rel a.tid m)
      (g := Ev.acq b.tid m) (b := b) (by simp) rfl (by simp [sw]) rfl
    simpa using this
  · subst hs
    have := chain_of_split (tr := post ++ b :: ((m4 ++ Ev.racq b.tid m :: m3) ++ Ev.rel a.tid m :: m1 ++ a :: pre))
      (post := post) (mid4 := m4) (mid3 := m3) (mid1 := m1) (pre := pre) (a := a) (r := Ev.rel a.tid m)
      (g := Ev.racq b.tid m) (b := b) (by simp) rfl (by simp [sw]) rfl
    simpa using this

theorem holder_access {x : Var} {a : Ev} (m : Lock) (pre : List Ev) (hax : a.touches x = true) :
    holder m (a :: pre) = holder m pre := by
  cases a <;> simp [Ev.touches] at hax <;> simp [holder]

theorem readers_access {x : Var} {a : Ev} (m : Lock) (pre : List Ev) (hax : a.touches x = true) :
    readers m (a :: pre) = readers m pre := by
  cases a <;> simp [Ev.touches] at hax <;> simp [readers]

/-- **rw_lockset_drf**: writes to x inside exclusive critical sections of an RWMutex m, reads inside
    exclusive or read critical sections of m ⇒ no data race on x. -/
theorem rw_lockset_drf (x : Var) (m : Lock) (tr : List Ev) (hwf : WF tr) (hg : RWGuarded x m tr) :
    DRF tr x := by
  rintro ⟨i, j, a, b, hij, ha, hb, hc, hn⟩
  obtain ⟨hax, hbx, hw, _, hne⟩ := conflict_parts hc
  obtain ⟨post, mid, pre, ht, hli, hlj⟩ := race_split hij ha hb
  subst ht
  have hwfb : WF (b :: (mid ++ a :: pre)) := WF_suffix post _ hwf
  have hgb : RWGuarded x m (b :: (mid ++ a :: pre)) := RWGuarded_suffix x m post _ hg
  have hwfm : WF (mid ++ a :: pre) := hwfb.1
  have hga : RWGuarded x m (a :: pre) := RWGuarded_suffix x m mid _ hgb.1
  have gb := hgb.2 hbx
  have ga := hga.2 hax
  have hha := holder_access m pre hax
  have hra := readers_access m pre hax
  have hbholds : holder m (mid ++ a :: pre) = some b.tid ∨ b.tid ∈ readers m (mid ++ a :: pre) := by
    by_cases hbw : b.isWrite = true
    · simp [hbw] at gb; exact Or.inl gb
    · simp [hbw] at gb; exact gb
  have caseX : holder m pre = some a.tid → False := by
    intro hxa
    apply hn
    rw [← hli, ← hlj]
    exact cs_chain m post mid pre a b hha hwfm hxa hne hbholds
  by_cases haw : a.isWrite = true
  · simp [haw] at ga; exact caseX ga
  · simp [haw] at ga
    rcases ga with ga | ga
    · exact caseX ga
    · -- a is a read under the read lock, so b is a write under the exclusive lock
      have hbw : b.isWrite = true := by
        rcases hw with h | h
        · exact absurd h haw
        · exact h
      simp [hbw] at gb
      have hnor := holder_readers m b.tid _ hwfm gb
      obtain ⟨m2, m1, hs⟩ := rrel_between m a.tid (a :: pre) mid (by rw [hra]; exact ga) (by rw [hnor]; simp)
      subst hs
      have hwf2 : WF (Ev.rrel a.tid m :: (m1 ++ a :: pre)) := WF_suffix m2 _ (by simpa using hwfm)
      have hin : a.tid ∈ readers m (m1 ++ a :: pre) := by
        have := hwf2.2; simpa [okStep] using this
      have hnoh : holder m (Ev.rrel a.tid m :: (m1 ++ a :: pre)) ≠ some b.tid := by
        intro hcon
        simp [holder] at hcon
        have := holder_readers m b.tid _ hwf2.1 hcon
        simp [this] at hin
      simp only [List.append_assoc, List.cons_append] at gb
      obtain ⟨m4, m3, hs⟩ := acq_between m b.tid _ m2 hnoh gb
      subst hs
      have := chain_of_split (tr := post ++ b :: ((m4 ++ Ev.acq b.tid m :: m3) ++ Ev.rrel a.tid m :: m1 ++ a :: pre))
        (post := post) (mid4 := m4) (mid3 := m3) (mid1 := m1) (pre := pre) (a := a) (r := Ev.rrel a.tid m)
        (g := Ev.acq b.tid m) (b := b) (by simp) rfl (by simp [sw]) rfl
      apply hn
      rw [← hli, ← hlj]
      simpa using this

end ZapVerif.Sync
