import ZapVerif.Model.Enc
import ZapVerif.Proofs.Json
/-! The crux of C01/C02/C10/C16: the streaming encoder that decides separators from the LAST BYTE of its buffer
    equals the compositional output function, for every nested call tree, in compact and spaced mode. -/
namespace ZapVerif.Enc
open ZapVerif ZapVerif.Esc ZapVerif.Json

/-- classification of a buffer by what `addElementSeparator` will do next:
    `first = true`: nothing is added (empty buffer, or last byte one of `{ [ : , space`) -/
def St (buf : Bytes) (first : Bool) : Prop :=
  (buf = [] ∧ first = true) ∨ (buf.getLast?.map skip) = some first

theorem sep_of_state {sp : Bool} {buf : Bytes} {first : Bool} (h : St buf first) :
    sep sp buf = buf ++ comma sp first := by
  rcases h with ⟨rfl, rfl⟩ | h
  · simp [sep, comma]
  · unfold sep comma
    cases hl : buf.getLast? with
    | none => simp [hl] at h
    | some c => cases first <;> cases sp <;> simp_all

theorem st_app (buf t : Bytes) (first : Bool) (h : (t.getLast?.map skip) = some first) : St (buf ++ t) first := by
  right
  rw [List.getLast?_append]
  cases ht : t.getLast? with
  | none => simp [ht] at h
  | some c => simpa [ht] using h

theorem st_snoc (t : Bytes) (c : UInt8) : St (t ++ [c]) (skip c) := by
  right; simp

theorem last_cons (c : UInt8) (t : Bytes) (b : Bool) (h : (t.getLast?.map skip) = some b) :
    ((c :: t).getLast?.map skip) = some b := by
  cases t with
  | nil => simp at h
  | cons x r => simpa [List.getLast?_cons_cons] using h

theorem last_app (a t : Bytes) (b : Bool) (h : (t.getLast?.map skip) = some b) :
    ((a ++ t).getLast?.map skip) = some b := by
  rw [List.getLast?_append]
  cases ht : t.getLast? with
  | none => simp [ht] at h
  | some c => simpa [ht] using h

theorem last_close (n : Nat) : ((125 :: List.replicate n 125 : Bytes).getLast?.map skip) = some false := by
  have : (125 :: List.replicate n 125 : Bytes) = List.replicate (n + 1) 125 := by simp [List.replicate_succ]
  rw [this, List.getLast?_replicate]; simp; decide

/-- a rendered well-formed value is non-empty and never ends in a byte that suppresses the next separator -/
theorem render_last (v : J) (h : WFj v) : ((render v).getLast?.map skip) = some false := by
  cases v with
  | str b =>
    have : render (J.str b) = (34 :: b) ++ [34] := by simp [render]
    rw [this, List.getLast?_append]; simp; decide
  | atom t =>
    obtain ⟨hne, hall⟩ := (by simpa [WFj] using h : atomOK t)
    simp only [render]
    cases hl : t.getLast? with
    | none => simp [List.getLast?_eq_none_iff] at hl; exact absurd hl hne
    | some c =>
      have hc : tokenChar c = true := hall c (List.mem_of_getLast? hl)
      simp only [Option.map_some]
      congr 1
      revert hc; revert c
      intro c _
      have : ∀ c : UInt8, tokenChar c = true → skip c = false := by
        apply all256; decide +kernel
      exact this c
  | arr xs =>
    have : render (J.arr xs) = (91 :: renderElems xs) ++ [93] := by simp [render]
    rw [this, List.getLast?_append]; simp; decide
  | obj kvs =>
    have : render (J.obj kvs) = (123 :: renderMembers kvs) ++ [125] := by simp [render]
    rw [this, List.getLast?_append]; simp; decide

theorem colon_last (sp : Bool) : ((colon sp).getLast?.map skip) = some true := by
  cases sp <;> simp [colon] <;> decide

theorem addKey_of_state {sp : Bool} {buf k : Bytes} {first : Bool} (h : St buf first) :
    addKey sp buf k = buf ++ (comma sp first ++ keyOut sp k) := by
  unfold addKey keyOut; rw [sep_of_state h]; simp

theorem st_key (sp : Bool) (pre k : Bytes) : St (pre ++ keyOut sp k) true := by
  apply st_app
  unfold keyOut
  apply last_cons; apply last_app; apply last_cons; exact colon_last sp

mutual
theorem runO_eq (sp : Bool) : ∀ (calls : List OC) (buf : Bytes) (n : Nat) (first : Bool),
    St buf first → WFo calls →
    runO sp ⟨buf, n⟩ calls = ⟨buf ++ (outO sp first calls).1, n + (outO sp first calls).2⟩
  | [], buf, n, first, _, _ => by simp [runO, outO]
  | OC.prim k v :: r, buf, n, first, hs, hok => by
      obtain ⟨hv, hr⟩ := (by simpa [WFo] using hok : WFj v ∧ WFo r)
      have hk := addKey_of_state (sp := sp) (k := k) hs
      have hs2 : St (buf ++ (comma sp first ++ keyOut sp k)) true := by
        rw [← List.append_assoc]; exact st_key sp _ k
      have hs3 : St (buf ++ (comma sp first ++ keyOut sp k) ++ comma sp true ++ render v) false :=
        st_app _ _ false (render_last v hv)
      simp only [runO, outO, hk, sep_of_state hs2]
      rw [runO_eq sp r _ n false hs3 hr]
      simp [comma, List.append_assoc]
  | OC.ns k :: r, buf, n, first, hs, hok => by
      have hr : WFo r := by simpa [WFo] using hok
      have hk := addKey_of_state (sp := sp) (k := k) hs
      have hs3 : St (buf ++ (comma sp first ++ keyOut sp k) ++ [123]) true := st_snoc _ 123
      simp only [runO, outO, hk]
      rw [runO_eq sp r _ (n+1) true hs3 hr]
      simp [List.append_assoc]; omega
  | OC.obj k body :: r, buf, n, first, hs, hok => by
      obtain ⟨hb, hr⟩ := (by simpa [WFo] using hok : WFo body ∧ WFo r)
      have hk := addKey_of_state (sp := sp) (k := k) hs
      have hs2 : St (buf ++ (comma sp first ++ keyOut sp k)) true := by
        rw [← List.append_assoc]; exact st_key sp _ k
      have hs3 : St (buf ++ (comma sp first ++ keyOut sp k) ++ comma sp true ++ [123]) true := st_snoc _ 123
      simp only [runO, outO, hk, sep_of_state hs2]
      rw [runO_eq sp body _ 0 true hs3 hb]
      simp only []
      rw [runO_eq sp r _ n false (st_app _ _ false (last_close _)) hr]
      simp [comma, List.append_assoc]
  | OC.arr k body :: r, buf, n, first, hs, hok => by
      obtain ⟨hb, hr⟩ := (by simpa [WFo] using hok : WFa body ∧ WFo r)
      have hk := addKey_of_state (sp := sp) (k := k) hs
      have hs2 : St (buf ++ (comma sp first ++ keyOut sp k)) true := by
        rw [← List.append_assoc]; exact st_key sp _ k
      have hs3 : St (buf ++ (comma sp first ++ keyOut sp k) ++ comma sp true ++ [91]) true := st_snoc _ 91
      simp only [runO, outO, hk, sep_of_state hs2]
      rw [runA_eq sp body _ true hs3 hb]
      rw [runO_eq sp r _ n false (st_snoc _ 93) hr]
      simp [comma, List.append_assoc]
theorem runA_eq (sp : Bool) : ∀ (calls : List AC) (buf : Bytes) (first : Bool),
    St buf first → WFa calls →
    runA sp buf calls = buf ++ outA sp first calls
  | [], buf, first, _, _ => by simp [runA, outA]
  | AC.prim v :: r, buf, first, hs, hok => by
      obtain ⟨hv, hr⟩ := (by simpa [WFa] using hok : WFj v ∧ WFa r)
      simp only [runA, outA, sep_of_state hs]
      rw [runA_eq sp r _ false (st_app _ _ false (render_last v hv)) hr]
      simp [List.append_assoc]
  | AC.obj body :: r, buf, first, hs, hok => by
      obtain ⟨hb, hr⟩ := (by simpa [WFa] using hok : WFo body ∧ WFa r)
      simp only [runA, outA, sep_of_state hs]
      rw [runO_eq sp body _ 0 true (st_snoc _ 123) hb]
      simp only []
      rw [runA_eq sp r _ false (st_app _ _ false (last_close _)) hr]
      simp [List.append_assoc]
  | AC.arr body :: r, buf, first, hs, hok => by
      obtain ⟨hb, hr⟩ := (by simpa [WFa] using hok : WFa body ∧ WFa r)
      simp only [runA, outA, sep_of_state hs]
      rw [runA_eq sp body _ true (st_snoc _ 91) hb]
      rw [runA_eq sp r _ false (st_snoc _ 93) hr]
      simp [List.append_assoc]
end

end ZapVerif.Enc
