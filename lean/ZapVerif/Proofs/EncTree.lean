import ZapVerif.Proofs.Enc
/-! From the compositional output to the JSON tree: `outO` (compact) is the rendering of the denotation `denO`,
    and `encodeEntry` is the rendering of one object. -/
namespace ZapVerif.Enc
open ZapVerif ZapVerif.Esc ZapVerif.Json

/-- members with an explicit leading-separator flag -/
def memOut (first : Bool) : List (Bytes × J) → Bytes
  | [] => []
  | (k, v) :: r => comma false first ++ 34 :: (k ++ 34 :: 58 :: (render v ++ memOut false r))

def elemOut (first : Bool) : List J → Bytes
  | [] => []
  | v :: r => comma false first ++ render v ++ elemOut false r

theorem memOut_false_cons (k : Bytes) (v : J) (r : List (Bytes × J)) :
    memOut false ((k, v) :: r) = 44 :: memOut true ((k, v) :: r) := by
  simp [memOut, comma]

theorem renderMembers_eq : ∀ ms : List (Bytes × J), renderMembers ms = memOut true ms
  | [] => by simp [renderMembers, memOut]
  | [(k, v)] => by simp [renderMembers, memOut, comma]
  | (k, v) :: y :: r => by
      have ih := renderMembers_eq (y :: r)
      obtain ⟨k2, v2⟩ := y
      rw [renderMembers, ih]
      simp only [memOut, comma]
      simp

theorem elemOut_false_cons (v : J) (r : List J) : elemOut false (v :: r) = 44 :: elemOut true (v :: r) := by
  simp [elemOut, comma]

theorem renderElems_eq : ∀ xs : List J, renderElems xs = elemOut true xs
  | [] => by simp [renderElems, elemOut]
  | [x] => by simp [renderElems, elemOut, comma]
  | x :: y :: r => by
      have ih := renderElems_eq (y :: r)
      rw [renderElems, ih]
      simp only [elemOut, comma]
      simp

theorem memOut_append (first : Bool) (a b : List (Bytes × J)) :
    memOut first (a ++ b) = memOut first a ++ memOut (first && a.isEmpty) b := by
  induction a generalizing first with
  | nil => simp [memOut]
  | cons x r ih =>
    obtain ⟨k, v⟩ := x
    simp only [List.cons_append, memOut, ih]
    simp [List.append_assoc]

theorem rep_comm (n : Nat) (x : Bytes) :
    (125 :: (List.replicate n 125 ++ x) : Bytes) = List.replicate n 125 ++ 125 :: x := by
  induction n with
  | zero => simp
  | succ m ih => simp only [List.replicate_succ, List.cons_append]; rw [ih]

theorem keyOut_compact (k : Bytes) : keyOut false k = 34 :: (esc k ++ [34, 58]) := by
  simp [keyOut, colon]

mutual
/-- compact output plus the closing braces it still owes = the members of the denoted object -/
theorem outO_den : ∀ (calls : List OC) (first : Bool),
    (outO false first calls).1 ++ List.replicate (outO false first calls).2 125 = memOut first (denO calls)
  | [], first => by simp [outO, denO, memOut]
  | OC.prim k v :: r, first => by
      have ih := outO_den r false
      simp only [outO, denO, memOut, keyOut_compact]
      simp only [List.append_assoc, List.cons_append, List.nil_append]
      rw [ih]
  | OC.ns k :: r, first => by
      have ih := outO_den r true
      simp only [outO, denO, memOut, keyOut_compact, render, renderMembers_eq]
      rw [← ih]
      simp [List.replicate_succ', List.append_assoc]
  | OC.obj k body :: r, first => by
      have ihb := outO_den body true
      have ih := outO_den r false
      simp only [outO, denO, memOut, keyOut_compact, render, renderMembers_eq]
      rw [← ihb]
      simp only [List.append_assoc, List.cons_append, List.nil_append]
      rw [ih]
      simp [List.append_assoc, rep_comm]
  | OC.arr k body :: r, first => by
      have ihb := outA_den body true
      have ih := outO_den r false
      simp only [outO, denO, memOut, keyOut_compact, render, renderElems_eq]
      rw [← ihb]
      simp only [List.append_assoc, List.cons_append, List.nil_append]
      rw [ih]
theorem outA_den : ∀ (calls : List AC) (first : Bool), outA false first calls = elemOut first (denA calls)
  | [], first => by simp [outA, denA, elemOut]
  | AC.prim v :: r, first => by
      simp only [outA, denA, elemOut, outA_den r false]
  | AC.obj body :: r, first => by
      have ihb := outO_den body true
      simp only [outA, denA, elemOut, render, renderMembers_eq, outA_den r false]
      rw [← ihb]
      simp [List.append_assoc, rep_comm]
  | AC.arr body :: r, first => by
      simp only [outA, denA, elemOut, render, renderElems_eq, outA_den body true, outA_den r false]
      simp [List.append_assoc]
end

/-! well-formedness carries over to the denotation -/

theorem esc_ok (k : Bytes) : runD 0 (esc k) = some 0 := escape_ok k.length k

mutual
theorem den_wf : ∀ (calls : List OC), WFo calls → WFm (denO calls)
  | [], _ => by simp [denO, WFm]
  | OC.prim k v :: r, h => by
      obtain ⟨hv, hr⟩ := (by simpa [WFo] using h : WFj v ∧ WFo r)
      simp only [denO, WFm]; exact ⟨esc_ok k, hv, den_wf r hr⟩
  | OC.ns k :: r, h => by
      have hr : WFo r := by simpa [WFo] using h
      simp only [denO, WFm, WFj]; exact ⟨esc_ok k, den_wf r hr, trivial⟩
  | OC.obj k body :: r, h => by
      obtain ⟨hb, hr⟩ := (by simpa [WFo] using h : WFo body ∧ WFo r)
      simp only [denO, WFm, WFj]; exact ⟨esc_ok k, den_wf body hb, den_wf r hr⟩
  | OC.arr k body :: r, h => by
      obtain ⟨hb, hr⟩ := (by simpa [WFo] using h : WFa body ∧ WFo r)
      simp only [denO, WFm, WFj]; exact ⟨esc_ok k, denA_wf body hb, den_wf r hr⟩
theorem denA_wf : ∀ (calls : List AC), WFa calls → WFl (denA calls)
  | [], _ => by simp [denA, WFl]
  | AC.prim v :: r, h => by
      obtain ⟨hv, hr⟩ := (by simpa [WFa] using h : WFj v ∧ WFa r)
      simp only [denA, WFl]; exact ⟨hv, denA_wf r hr⟩
  | AC.obj body :: r, h => by
      obtain ⟨hb, hr⟩ := (by simpa [WFa] using h : WFo body ∧ WFa r)
      simp only [denA, WFl, WFj]; exact ⟨den_wf body hb, denA_wf r hr⟩
  | AC.arr body :: r, h => by
      obtain ⟨hb, hr⟩ := (by simpa [WFa] using h : WFa body ∧ WFa r)
      simp only [denA, WFl, WFj]; exact ⟨denA_wf body hb, denA_wf r hr⟩
end

theorem WFo_append : ∀ (a b : List OC), WFo a → WFo b → WFo (a ++ b)
  | [], b, _, hb => by simpa using hb
  | OC.prim k v :: r, b, ha, hb => by
      obtain ⟨hv, hr⟩ := (by simpa [WFo] using ha : WFj v ∧ WFo r)
      simp only [List.cons_append, WFo]; exact ⟨hv, WFo_append r b hr hb⟩
  | OC.ns k :: r, b, ha, hb => by
      have hr : WFo r := by simpa [WFo] using ha
      simp only [List.cons_append, WFo]; exact WFo_append r b hr hb
  | OC.obj k body :: r, b, ha, hb => by
      obtain ⟨hbd, hr⟩ := (by simpa [WFo] using ha : WFo body ∧ WFo r)
      simp only [List.cons_append, WFo]; exact ⟨hbd, WFo_append r b hr hb⟩
  | OC.arr k body :: r, b, ha, hb => by
      obtain ⟨hbd, hr⟩ := (by simpa [WFo] using ha : WFa body ∧ WFo r)
      simp only [List.cons_append, WFo]; exact ⟨hbd, WFo_append r b hr hb⟩

/-- the state of a buffer after a non-empty member list: a separator is needed next -/
theorem memOut_last (first : Bool) : ∀ (ms : List (Bytes × J)), WFm ms → ms ≠ [] →
    ((memOut first ms).getLast?.map skip) = some false
  | [], _, hne => absurd rfl hne
  | [(k, v)], h, _ => by
      have hv : WFj v := by simpa [WFm] using (by simpa [WFm] using h : runD 0 k = some 0 ∧ WFj v ∧ True).2.1
      simp only [memOut, List.append_nil]
      apply last_app; apply last_cons; apply last_app; apply last_cons; apply last_cons
      exact render_last v hv
  | (k, v) :: y :: r, h, _ => by
      have hr : WFm (y :: r) := (by simpa [WFm] using h : runD 0 k = some 0 ∧ WFj v ∧ WFm (y :: r)).2.2
      have ih := memOut_last false (y :: r) hr (by simp)
      rw [memOut]
      apply last_app; apply last_cons; apply last_app; apply last_cons; apply last_cons; apply last_app
      exact ih

/-! ### the machine as a whole -/

theorem runO_append (sp : Bool) : ∀ (a b : List OC) (e : Enc), runO sp e (a ++ b) = runO sp (runO sp e a) b
  | [], b, e => by simp [runO]
  | OC.prim k v :: r, b, e => by simp only [List.cons_append, runO]; exact runO_append sp r b _
  | OC.ns k :: r, b, e => by simp only [List.cons_append, runO]; exact runO_append sp r b _
  | OC.obj k body :: r, b, e => by simp only [List.cons_append, runO]; exact runO_append sp r b _
  | OC.arr k body :: r, b, e => by simp only [List.cons_append, runO]; exact runO_append sp r b _

/-- every call emits something, preceded by exactly the separator its position requires -/
theorem outO_first (sp : Bool) : ∀ (calls : List OC) (first : Bool), calls ≠ [] →
    (outO sp first calls).1 = comma sp first ++ (outO sp true calls).1 ∧
    (outO sp first calls).2 = (outO sp true calls).2 ∧ (outO sp true calls).1 ≠ []
  | [], _, h => absurd rfl h
  | OC.prim k v :: r, first, _ => by simp [outO, comma, keyOut]
  | OC.ns k :: r, first, _ => by simp [outO, comma, keyOut]
  | OC.obj k body :: r, first, _ => by simp [outO, comma, keyOut]
  | OC.arr k body :: r, first, _ => by simp [outO, comma, keyOut]

/-- the context mechanism: replaying the context calls on the entry's buffer is the same as appending the
    logger's pre-rendered context bytes after a separator (and inheriting its open namespaces) -/
theorem ctx_replay (sp : Bool) (ctxCalls : List OC) (buf : Bytes) (n : Nat) (first : Bool)
    (hs : St buf first) (hw : WFo ctxCalls) :
    let ctx := ctxOf sp ctxCalls
    runO sp ⟨buf, n⟩ ctxCalls =
      (if ctx.buf.isEmpty then ⟨buf, n + ctx.openNs⟩ else ⟨sep sp buf ++ ctx.buf, n + ctx.openNs⟩) := by
  intro ctx
  have hctx : ctx = ⟨(outO sp true ctxCalls).1, (outO sp true ctxCalls).2⟩ := by
    have := runO_eq sp ctxCalls [] 0 true (Or.inl ⟨rfl, rfl⟩) hw
    show ctxOf sp ctxCalls = _
    simpa [ctxOf] using this
  rw [runO_eq sp ctxCalls buf n first hs hw]
  by_cases hc : ctxCalls = []
  · subst hc; simp [hctx, outO]
  · obtain ⟨h1, h2, h3⟩ := outO_first sp ctxCalls first hc
    have hne : ctx.buf.isEmpty = false := by simp [hctx, h3]
    simp only [hne]
    rw [sep_of_state hs, h1, h2, hctx]
    simp [List.append_assoc]

end ZapVerif.Enc
