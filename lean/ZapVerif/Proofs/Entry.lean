import ZapVerif.Proofs.EncTree
import ZapVerif.Model.Entry
/-! `encodeEntry` renders exactly one JSON object: metadata, context, call-site fields (namespaces nest the
    rest), then the stack member at top level. -/
namespace ZapVerif.Enc
open ZapVerif ZapVerif.Esc ZapVerif.Json

theorem st_exists (b : Bytes) : ∃ f, St b f := by
  cases h : b.getLast? with
  | none => exact ⟨true, Or.inl ⟨by simpa [List.getLast?_eq_none_iff] using h, rfl⟩⟩
  | some c => exact ⟨skip c, Or.inr (by simp [h])⟩

/-- the entry's encoder after metadata, context bytes and call-site fields = one run over all the calls -/
theorem entry_run (sp : Bool) (metaCalls ctxCalls fields : List OC)
    (hm : WFo metaCalls) (hc : WFo ctxCalls) (hf : WFo fields) :
    let ctx := ctxOf sp ctxCalls
    let e1 := runO sp ⟨[123], ctx.openNs⟩ metaCalls
    let e2 : Enc := if ctx.buf.isEmpty then e1 else ⟨sep sp e1.buf ++ ctx.buf, e1.openNs⟩
    runO sp e2 fields = runO sp ⟨[123], 0⟩ (metaCalls ++ ctxCalls ++ fields) := by
  intro ctx e1 e2
  have h123 : St [123] true := Or.inr (by decide)
  have he1 : e1 = ⟨[123] ++ (outO sp true metaCalls).1, ctx.openNs + (outO sp true metaCalls).2⟩ :=
    runO_eq sp metaCalls [123] ctx.openNs true h123 hm
  have he1' : runO sp ⟨[123], 0⟩ metaCalls = ⟨[123] ++ (outO sp true metaCalls).1, 0 + (outO sp true metaCalls).2⟩ :=
    runO_eq sp metaCalls [123] 0 true h123 hm
  obtain ⟨f, hfst⟩ := st_exists ([123] ++ (outO sp true metaCalls).1)
  have hrep := ctx_replay sp ctxCalls ([123] ++ (outO sp true metaCalls).1) (0 + (outO sp true metaCalls).2) f hfst hc
  simp only [] at hrep
  have he2 : e2 = runO sp (runO sp ⟨[123], 0⟩ metaCalls) ctxCalls := by
    rw [he1', hrep]
    show (if ctx.buf.isEmpty then e1 else ⟨sep sp e1.buf ++ ctx.buf, e1.openNs⟩) = _
    rw [he1]
    by_cases hb : ctx.buf.isEmpty <;> simp [hb, ctx, Nat.add_comm]
  rw [he2, List.append_assoc, runO_append, runO_append]

/-- stack-trace calls: plain members only -/
def NoNs (calls : List OC) : Prop := ∀ sp f, (outO sp f calls).2 = 0

/-- C01/C02 master theorem (JSON encoder): for every metadata/context/field call tree with well-formed leaves,
    the emitted line is the rendering of ONE object — metadata, then context, then call-site fields, each namespace
    nesting everything after it, the stack trace last at top level — followed by the line ending. -/
theorem encodeEntry_eq_render (metaCalls ctxCalls fields stack : List OC) (ending : Bytes)
    (hm : WFo metaCalls) (hc : WFo ctxCalls) (hf : WFo fields) (hs : WFo stack) (hns : NoNs stack) :
    encodeEntry false metaCalls (ctxOf false ctxCalls) fields stack ending =
      render (J.obj (denO (metaCalls ++ ctxCalls ++ fields) ++ denO stack)) ++ ending := by
  have hrun := entry_run false metaCalls ctxCalls fields hm hc hf
  simp only [] at hrun
  unfold encodeEntry
  simp only []
  rw [hrun]
  have hall : WFo (metaCalls ++ ctxCalls ++ fields) := WFo_append _ _ (WFo_append _ _ hm hc) hf
  have h123 : St [123] true := Or.inr (by decide)
  rw [runO_eq false _ [123] 0 true h123 hall]
  simp only [Nat.zero_add, List.append_assoc]
  have hden := outO_den (metaCalls ++ (ctxCalls ++ fields)) true
  have hb4 : [123] ++ ((outO false true (metaCalls ++ (ctxCalls ++ fields))).1 ++
      List.replicate (outO false true (metaCalls ++ (ctxCalls ++ fields))).2 125) =
      [123] ++ memOut true (denO (metaCalls ++ (ctxCalls ++ fields))) := by rw [hden]
  rw [hb4]
  have hwm : WFm (denO (metaCalls ++ (ctxCalls ++ fields))) := den_wf _ (by simpa [List.append_assoc] using hall)
  have hst : St ([123] ++ memOut true (denO (metaCalls ++ (ctxCalls ++ fields))))
      (denO (metaCalls ++ (ctxCalls ++ fields))).isEmpty := by
    cases hd : denO (metaCalls ++ (ctxCalls ++ fields)) with
    | nil => simp [memOut]; exact h123
    | cons x r =>
      rw [← hd]
      have := memOut_last true _ hwm (by rw [hd]; simp)
      rw [hd]; simp only [List.isEmpty_cons]; rw [← hd]
      exact st_app _ _ false this
  rw [runO_eq false stack _ 0 _ hst hs]
  have hsd := outO_den stack (denO (metaCalls ++ (ctxCalls ++ fields))).isEmpty
  rw [hns false _] at hsd
  simp only [List.replicate_zero, List.append_nil] at hsd
  simp only [render, renderMembers_eq, memOut_append, Bool.true_and, hsd]
  simp [List.append_assoc]

end ZapVerif.Enc
