import ZapVerif.Proofs.Entry
/-! Leaf assumptions (`…OK`) and the glue from fields / metadata to well-formed call trees. -/
namespace ZapVerif.Entry
open ZapVerif ZapVerif.Esc ZapVerif.Json ZapVerif.Enc

/-! ### no raw control bytes -/

theorem stepD_ge : ∀ (s : Nat) (b : UInt8), (stepD s b).isSome = true → b ≥ 32
  | 0 => by apply all256; decide +kernel
  | 1 => by apply all256; decide +kernel
  | 2 => by apply all256; decide +kernel
  | 3 => by apply all256; decide +kernel
  | 4 => by apply all256; decide +kernel
  | 5 => by apply all256; decide +kernel
  | _ + 6 => by intro b h; simp [stepD] at h

theorem runD_ge (s : Nat) (body : Bytes) (h : (runD s body).isSome = true) : ∀ b ∈ body, b ≥ 32 := by
  induction body generalizing s with
  | nil => simp
  | cons x r ih =>
    simp only [runD] at h
    cases hs : stepD s x with
    | none => simp [hs] at h
    | some s' =>
      simp only [hs] at h
      intro b hb
      rcases List.mem_cons.mp hb with rfl | hb
      · exact stepD_ge s b (by simp [hs])
      · exact ih s' h b hb

mutual
/-- scalar tokens contain no byte below 0x20 -/
def NoCtlJ : J → Prop
  | .str _ => True
  | .atom t => ∀ c ∈ t, c ≥ 32
  | .arr xs => NoCtlL xs
  | .obj kvs => NoCtlM kvs
def NoCtlL : List J → Prop
  | [] => True
  | x :: r => NoCtlJ x ∧ NoCtlL r
def NoCtlM : List (Bytes × J) → Prop
  | [] => True
  | (_, v) :: r => NoCtlJ v ∧ NoCtlM r
end

theorem comma_ge (first : Bool) : ∀ b ∈ comma false first, b ≥ 32 := by
  cases first <;> simp [comma] <;> decide

mutual
theorem render_ge : ∀ (j : J), WFj j → NoCtlJ j → ∀ b ∈ render j, b ≥ 32
  | .str body, hw, _ => by
      intro b hb
      simp only [render, List.mem_cons, List.mem_append, List.mem_singleton, List.not_mem_nil, or_false] at hb
      rcases hb with rfl | hb | rfl
      · decide
      · have hr : runD 0 body = some 0 := by simpa [WFj] using hw
        exact runD_ge 0 body (by rw [hr]; rfl) b hb
      · decide
  | .atom t, _, hn => by simpa [render, NoCtlJ] using hn
  | .arr xs, hw, hn => by
      intro b hb
      simp only [render, renderElems_eq, List.mem_cons, List.mem_append, List.mem_singleton, List.not_mem_nil, or_false] at hb
      rcases hb with rfl | hb | rfl
      · decide
      · exact elems_ge xs true (by simpa [WFj] using hw) (by simpa [NoCtlJ] using hn) b hb
      · decide
  | .obj kvs, hw, hn => by
      intro b hb
      simp only [render, renderMembers_eq, List.mem_cons, List.mem_append, List.mem_singleton, List.not_mem_nil, or_false] at hb
      rcases hb with rfl | hb | rfl
      · decide
      · exact mems_ge kvs true (by simpa [WFj] using hw) (by simpa [NoCtlJ] using hn) b hb
      · decide
theorem elems_ge : ∀ (xs : List J) (first : Bool), WFl xs → NoCtlL xs → ∀ b ∈ elemOut first xs, b ≥ 32
  | [], _, _, _ => by simp [elemOut]
  | x :: r, first, hw, hn => by
      obtain ⟨hx, hr⟩ := (by simpa [WFl] using hw : WFj x ∧ WFl r)
      obtain ⟨nx, nr⟩ := (by simpa [NoCtlL] using hn : NoCtlJ x ∧ NoCtlL r)
      intro b hb
      simp only [elemOut, List.mem_append] at hb
      rcases hb with (hb | hb) | hb
      · exact comma_ge first b hb
      · exact render_ge x hx nx b hb
      · exact elems_ge r false hr nr b hb
theorem mems_ge : ∀ (ms : List (Bytes × J)) (first : Bool), WFm ms → NoCtlM ms → ∀ b ∈ memOut first ms, b ≥ 32
  | [], _, _, _ => by simp [memOut]
  | (k, v) :: r, first, hw, hn => by
      obtain ⟨hk, hv, hr⟩ := (by simpa [WFm] using hw : runD 0 k = some 0 ∧ WFj v ∧ WFm r)
      obtain ⟨nv, nr⟩ := (by simpa [NoCtlM] using hn : NoCtlJ v ∧ NoCtlM r)
      intro b hb
      simp only [memOut, List.mem_append, List.mem_cons] at hb
      rcases hb with hb | rfl | hb | rfl | rfl | hb | hb
      · exact comma_ge first b hb
      · decide
      · exact runD_ge 0 k (by rw [hk]; rfl) b hb
      · decide
      · decide
      · exact render_ge v hv nv b hb
      · exact mems_ge r false hr nr b hb
end

/-! ### leaves -/

/-- a JSON number token as strconv emits it -/
def numChar (c : UInt8) : Bool := (48 ≤ c && c ≤ 57) || c == 45 || c == 43 || c == 46 || c == 101 || c == 69
def NumTok (t : Bytes) : Prop := t ≠ [] ∧ ∀ c ∈ t, numChar c = true

theorem numChar_tok : ∀ c : UInt8, numChar c = true → tokenChar c = true ∧ c ≥ 32 := by
  apply all256; decide +kernel

theorem numTok_atom (t : Bytes) (h : NumTok t) : atomOK t ∧ ∀ c ∈ t, c ≥ 32 :=
  ⟨⟨h.1, fun c hc => (numChar_tok c (h.2 c hc)).1⟩, fun c hc => (numChar_tok c (h.2 c hc)).2⟩

theorem digit_num : ∀ d ∈ List.range 10, numChar (UInt8.ofNat (48 + d)) = true := by decide

theorem digits_num (f n : Nat) : ∀ c ∈ digits f n, numChar c = true := by
  induction f generalizing n with
  | zero => simp [digits]
  | succ f ih =>
    intro c hc
    simp only [digits] at hc
    split at hc
    · rename_i hlt
      simp only [List.mem_singleton] at hc; subst hc
      exact digit_num n (List.mem_range.mpr hlt)
    · rcases List.mem_append.mp hc with hc | hc
      · exact ih _ c hc
      · simp only [List.mem_singleton] at hc; subst hc
        exact digit_num (n % 10) (List.mem_range.mpr (Nat.mod_lt _ (by decide)))

theorem digits_ne (f n : Nat) : digits (f + 1) n ≠ [] := by
  simp only [digits]; split <;> simp

theorem fmtNat_num (n : Nat) : NumTok (fmtNat n) := ⟨digits_ne n n, digits_num (n + 1) n⟩

theorem fmtInt_num (i : Int) : NumTok (fmtInt i) := by
  unfold fmtInt
  split
  · refine ⟨by simp, ?_⟩
    intro c hc
    rcases List.mem_cons.mp hc with rfl | hc
    · decide
    · exact (fmtNat_num _).2 c hc
  · exact fmtNat_num _

/-- assumptions on the opaque, stdlib-formatted leaves -/
def ScalarOK : Scalar → Prop
  | .float nan inf txt => (nan = false ∧ inf = 0) → NumTok txt     -- strconv.AppendFloat of a finite value
  | .complex re im plus => runD 0 (re ++ (if plus then [43] else []) ++ im ++ [105]) = some 0
  | _ => True

def SubOK : SubRes → Prop
  | .val s => ScalarOK s
  | _ => True

def PrimOK : Prim → Prop
  | .scalar s => ScalarOK s
  | .time t => SubOK t.res
  | .dur d => SubOK d.res
  | .json j => WFj j ∧ NoCtlJ j       -- encoding/json emitted one compact, control-free value

theorem scalarJ_ok (s : Scalar) (h : ScalarOK s) : WFj (scalarJ s) ∧ NoCtlJ (scalarJ s) := by
  cases s with
  | str s => simp [scalarJ, WFj, NoCtlJ, esc_ok]
  | int i => exact ⟨by simpa [scalarJ, WFj] using (numTok_atom _ (fmtInt_num i)).1,
                    by simpa [scalarJ, NoCtlJ] using (numTok_atom _ (fmtInt_num i)).2⟩
  | uint n => exact ⟨by simpa [scalarJ, WFj] using (numTok_atom _ (fmtNat_num n)).1,
                     by simpa [scalarJ, NoCtlJ] using (numTok_atom _ (fmtNat_num n)).2⟩
  | bool b => cases b <;> simp [scalarJ, WFj, NoCtlJ, atomOK] <;> decide
  | float nan inf txt =>
    simp only [scalarJ]
    split
    · simp [WFj, NoCtlJ]; decide
    · split
      · simp [WFj, NoCtlJ]; decide
      · split
        · simp [WFj, NoCtlJ]; decide
        · rename_i h1 h2 h3
          have hz : inf = 0 := by omega
          have := numTok_atom txt (h ⟨by simpa using h1, hz⟩)
          exact ⟨by simpa [WFj] using this.1, by simpa [NoCtlJ] using this.2⟩
  | complex re im plus => simpa [scalarJ, WFj, NoCtlJ, ScalarOK] using h

theorem subOrNanos_ok (r : SubRes) (n : Int) (h : SubOK r) : WFj (subOrNanos r n) ∧ NoCtlJ (subOrNanos r n) := by
  cases r with
  | val s => exact scalarJ_ok s h
  | nilEnc => exact ⟨by simpa [subOrNanos, WFj] using (numTok_atom _ (fmtInt_num n)).1,
                     by simpa [subOrNanos, NoCtlJ] using (numTok_atom _ (fmtInt_num n)).2⟩
  | noop => exact ⟨by simpa [subOrNanos, WFj] using (numTok_atom _ (fmtInt_num n)).1,
                   by simpa [subOrNanos, NoCtlJ] using (numTok_atom _ (fmtInt_num n)).2⟩

theorem subOrStr_ok (r : SubRes) (s : Bytes) (h : SubOK r) : WFj (subOrStr r s) ∧ NoCtlJ (subOrStr r s) := by
  cases r with
  | val v => exact scalarJ_ok v h
  | nilEnc => simp [subOrStr, WFj, NoCtlJ, esc_ok]
  | noop => simp [subOrStr, WFj, NoCtlJ, esc_ok]

theorem primJ_ok (p : Prim) (h : PrimOK p) : WFj (primJ p) ∧ NoCtlJ (primJ p) := by
  cases p with
  | scalar s => exact scalarJ_ok s h
  | time t => exact subOrNanos_ok _ _ h
  | dur d => exact subOrNanos_ok _ _ h
  | json j => exact h

/-! ### call trees with control-free leaves -/

mutual
def NoCtlO : List OC → Prop
  | [] => True
  | OC.prim _ v :: r => NoCtlJ v ∧ NoCtlO r
  | OC.ns _ :: r => NoCtlO r
  | OC.obj _ b :: r => NoCtlO b ∧ NoCtlO r
  | OC.arr _ b :: r => NoCtlA b ∧ NoCtlO r
def NoCtlA : List AC → Prop
  | [] => True
  | AC.prim v :: r => NoCtlJ v ∧ NoCtlA r
  | AC.obj b :: r => NoCtlO b ∧ NoCtlA r
  | AC.arr b :: r => NoCtlA b ∧ NoCtlA r
end

mutual
theorem den_noctl : ∀ (calls : List OC), NoCtlO calls → NoCtlM (denO calls)
  | [], _ => by simp [denO, NoCtlM]
  | OC.prim k v :: r, h => by
      obtain ⟨hv, hr⟩ := (by simpa [NoCtlO] using h : NoCtlJ v ∧ NoCtlO r)
      simp only [denO, NoCtlM]; exact ⟨hv, den_noctl r hr⟩
  | OC.ns k :: r, h => by
      have hr : NoCtlO r := by simpa [NoCtlO] using h
      simp only [denO, NoCtlM, NoCtlJ]; exact ⟨den_noctl r hr, trivial⟩
  | OC.obj k body :: r, h => by
      obtain ⟨hb, hr⟩ := (by simpa [NoCtlO] using h : NoCtlO body ∧ NoCtlO r)
      simp only [denO, NoCtlM, NoCtlJ]; exact ⟨den_noctl body hb, den_noctl r hr⟩
  | OC.arr k body :: r, h => by
      obtain ⟨hb, hr⟩ := (by simpa [NoCtlO] using h : NoCtlA body ∧ NoCtlO r)
      simp only [denO, NoCtlM, NoCtlJ]; exact ⟨denA_noctl body hb, den_noctl r hr⟩
theorem denA_noctl : ∀ (calls : List AC), NoCtlA calls → NoCtlL (denA calls)
  | [], _ => by simp [denA, NoCtlL]
  | AC.prim v :: r, h => by
      obtain ⟨hv, hr⟩ := (by simpa [NoCtlA] using h : NoCtlJ v ∧ NoCtlA r)
      simp only [denA, NoCtlL]; exact ⟨hv, denA_noctl r hr⟩
  | AC.obj body :: r, h => by
      obtain ⟨hb, hr⟩ := (by simpa [NoCtlA] using h : NoCtlO body ∧ NoCtlA r)
      simp only [denA, NoCtlL, NoCtlJ]; exact ⟨den_noctl body hb, denA_noctl r hr⟩
  | AC.arr body :: r, h => by
      obtain ⟨hb, hr⟩ := (by simpa [NoCtlA] using h : NoCtlA body ∧ NoCtlA r)
      simp only [denA, NoCtlL, NoCtlJ]; exact ⟨denA_noctl body hb, denA_noctl r hr⟩
end

theorem NoCtlO_append : ∀ (a b : List OC), NoCtlO a → NoCtlO b → NoCtlO (a ++ b)
  | [], b, _, hb => by simpa using hb
  | OC.prim k v :: r, b, ha, hb => by
      obtain ⟨hv, hr⟩ := (by simpa [NoCtlO] using ha : NoCtlJ v ∧ NoCtlO r)
      simp only [List.cons_append, NoCtlO]; exact ⟨hv, NoCtlO_append r b hr hb⟩
  | OC.ns k :: r, b, ha, hb => by
      have hr : NoCtlO r := by simpa [NoCtlO] using ha
      simp only [List.cons_append, NoCtlO]; exact NoCtlO_append r b hr hb
  | OC.obj k body :: r, b, ha, hb => by
      obtain ⟨hbd, hr⟩ := (by simpa [NoCtlO] using ha : NoCtlO body ∧ NoCtlO r)
      simp only [List.cons_append, NoCtlO]; exact ⟨hbd, NoCtlO_append r b hr hb⟩
  | OC.arr k body :: r, b, ha, hb => by
      obtain ⟨hbd, hr⟩ := (by simpa [NoCtlO] using ha : NoCtlA body ∧ NoCtlO r)
      simp only [List.cons_append, NoCtlO]; exact ⟨hbd, NoCtlO_append r b hr hb⟩

/-- "good" call list: well-formed and control-free leaves -/
def GoodO (calls : List OC) : Prop := WFo calls ∧ NoCtlO calls
def GoodA (calls : List AC) : Prop := WFa calls ∧ NoCtlA calls

theorem good_nil : GoodO [] := ⟨by simp [WFo], by simp [NoCtlO]⟩
theorem good_append {a b : List OC} (ha : GoodO a) (hb : GoodO b) : GoodO (a ++ b) :=
  ⟨WFo_append a b ha.1 hb.1, NoCtlO_append a b ha.2 hb.2⟩
theorem good_prim (k : Bytes) (v : J) (h : WFj v ∧ NoCtlJ v) : GoodO [OC.prim k v] :=
  ⟨by simpa [WFo] using h.1, by simpa [NoCtlO] using h.2⟩
theorem good_str (k s : Bytes) : GoodO [strPrim k s] :=
  good_prim k _ ⟨by simp [WFj, esc_ok], by simp [NoCtlJ]⟩
theorem good_cons_str (k s : Bytes) {r : List OC} (hr : GoodO r) : GoodO (strPrim k s :: r) :=
  good_append (good_str k s) hr

theorem good_errCall (k : Bytes) (e : Option Bytes) : GoodO (errCall k e) := by
  cases e with
  | none => exact good_nil
  | some m => exact good_str _ m

mutual
theorem encErr_good : ∀ (k : Bytes) (e : ErrV), GoodO (encErr k e).1
  | k, .mk o verbose isGroup causes => by
      cases o with
      | panic m => simpa [encErr] using good_nil
      | nilRecv => simpa [encErr] using good_str k nilText
      | ok basic =>
        simp only [encErr]
        split
        · have hc := encCauses_good causes
          refine good_cons_str k basic ⟨?_, ?_⟩
          · simpa [WFo] using hc.1
          · simpa [NoCtlO] using hc.2
        · split
          · split
            · exact good_str k basic
            · exact good_cons_str k basic (good_str _ _)
          · exact good_str k basic
theorem encCauses_good : ∀ (cs : List ErrV), GoodA (encCauses cs).1
  | [] => ⟨by simp [encCauses, WFa], by simp [encCauses, NoCtlA]⟩
  | c :: r => by
      have hc := encErr_good (litStr "error") c
      have hr := encCauses_good r
      simp only [encCauses]
      split
      · exact ⟨by simpa [WFa] using hc.1, by simpa [NoCtlA] using hc.2⟩
      · exact ⟨by simpa [WFa] using ⟨hc.1, hr.1⟩, by simpa [NoCtlA] using ⟨hc.2, hr.2⟩⟩
end

/-- assumptions a field must meet: opaque leaves are OK, marshaler call trees have good leaves -/
def FieldOK : Field → Prop
  | .prim _ p => PrimOK p
  | .obj _ body _ => GoodO body
  | .arr _ body _ => GoodA body
  | .inline _ body _ => GoodO body
  | .refl _ (some j) _ => WFj j ∧ NoCtlJ j
  | _ => True

theorem addTo_good (f : Field) (h : FieldOK f) : GoodO (addTo f) := by
  cases f with
  | prim k p => exact good_prim k _ (primJ_ok p h)
  | obj k body err =>
    have hb : GoodO body := h
    have : GoodO [OC.obj k body] := ⟨by simpa [WFo] using hb.1, by simpa [NoCtlO] using hb.2⟩
    exact good_append this (good_errCall k err)
  | arr k body err =>
    have hb : GoodA body := h
    have : GoodO [OC.arr k body] := ⟨by simpa [WFo] using hb.1, by simpa [NoCtlO] using hb.2⟩
    exact good_append this (good_errCall k err)
  | inline k body err => exact good_append h (good_errCall k err)
  | refl k r err =>
    cases r with
    | some j => exact good_prim k j h
    | none => exact good_errCall k (some err)
  | stringer k o =>
    cases o with
    | ok s => exact good_str k s
    | nilRecv => exact good_str k nilText
    | panic m => exact good_errCall k (some (panicText m))
  | error k e => exact good_append (encErr_good k e) (good_errCall k _)
  | ns k => exact ⟨by simp [addTo, WFo], by simp [addTo, NoCtlO]⟩
  | skip => exact good_nil

theorem addFields_good (fs : List Field) (h : ∀ f ∈ fs, FieldOK f) : GoodO (addFields fs) := by
  induction fs with
  | nil => exact good_nil
  | cons f r ih =>
    simp only [addFields, List.flatMap_cons]
    exact good_append (addTo_good f (h f (by simp))) (ih (fun g hg => h g (by simp [hg])))

theorem ctx_good (ctx : List (List Field)) (h : ∀ fs ∈ ctx, ∀ f ∈ fs, FieldOK f) : GoodO (ctx.flatMap addFields) := by
  induction ctx with
  | nil => exact good_nil
  | cons fs r ih =>
    simp only [List.flatMap_cons]
    exact good_append (addFields_good fs (h fs (by simp))) (ih (fun g hg => h g (by simp [hg])))

def EntOK (e : Ent) : Prop :=
  SubOK e.lvlRes ∧ (∀ t, e.time = some t → SubOK t.res) ∧ SubOK e.nameRes ∧ SubOK e.callerRes

theorem good_ite (c : Bool) {a : List OC} (ha : GoodO a) : GoodO (if c then a else []) := by
  cases c <;> simp [ha, good_nil]

theorem metaCalls_good (c : Cfg) (e : Ent) (h : EntOK e) : GoodO (metaCalls c e) := by
  obtain ⟨hl, ht, hn, hc⟩ := h
  unfold metaCalls
  refine good_append (good_append (good_append (good_append ?_ ?_) ?_) ?_) ?_
  · exact good_ite _ (good_prim _ _ (subOrStr_ok _ _ hl))
  · cases htm : e.time with
    | none => exact good_nil
    | some t => exact good_ite _ (good_prim _ _ (subOrNanos_ok _ _ (ht t htm)))
  · exact good_ite _ (good_prim _ _ (subOrStr_ok _ _ hn))
  · cases e.callerDefined with
    | false => exact good_nil
    | true =>
      simp only [if_true]
      exact good_append (good_ite _ (good_prim _ _ (subOrStr_ok _ _ hc))) (good_ite _ (good_str _ _))
  · exact good_ite _ (good_str _ _)

theorem stackCalls_good (c : Cfg) (e : Ent) : GoodO (stackCalls c e) ∧ NoNs (stackCalls c e) := by
  unfold stackCalls
  split
  · exact ⟨good_str _ _, by intro sp f; simp [strPrim, outO]⟩
  · exact ⟨good_nil, by intro sp f; simp [outO]⟩

theorem WFm_append (a b : List (Bytes × J)) (ha : WFm a) (hb : WFm b) : WFm (a ++ b) := by
  induction a with
  | nil => simpa using hb
  | cons x r ih =>
    obtain ⟨k, v⟩ := x
    obtain ⟨hk, hv, hr⟩ := (by simpa [WFm] using ha : runD 0 k = some 0 ∧ WFj v ∧ WFm r)
    simp only [List.cons_append, WFm]; exact ⟨hk, hv, ih hr⟩

theorem NoCtlM_append (a b : List (Bytes × J)) (ha : NoCtlM a) (hb : NoCtlM b) : NoCtlM (a ++ b) := by
  induction a with
  | nil => simpa using hb
  | cons x r ih =>
    obtain ⟨k, v⟩ := x
    obtain ⟨hv, hr⟩ := (by simpa [NoCtlM] using ha : NoCtlJ v ∧ NoCtlM r)
    simp only [List.cons_append, NoCtlM]; exact ⟨hv, ih hr⟩

/-- the members an entry denotes: metadata (level, time, name, caller, function, message — each under the
    omission rules spelled out in `metaCalls`), then context fields, then call-site fields, in the order added,
    a namespace nesting everything after it; the stack trace last, at top level (after open namespaces closed) -/
def entryMembers (c : Cfg) (e : Ent) (ctx : List (List Field)) (fields : List Field) : List (Bytes × J) :=
  denO (metaCalls c e ++ ctx.flatMap addFields ++ addFields fields) ++ denO (stackCalls c e)

theorem entryMembers_ok (c : Cfg) (e : Ent) (ctx : List (List Field)) (fields : List Field)
    (he : EntOK e) (hc : ∀ fs ∈ ctx, ∀ f ∈ fs, FieldOK f) (hf : ∀ f ∈ fields, FieldOK f) :
    WFj (J.obj (entryMembers c e ctx fields)) ∧ NoCtlJ (J.obj (entryMembers c e ctx fields)) := by
  have gall := good_append (good_append (metaCalls_good c e he) (ctx_good ctx hc)) (addFields_good fields hf)
  have gs := (stackCalls_good c e).1
  have h1 : WFm (entryMembers c e ctx fields) := WFm_append _ _ (den_wf _ gall.1) (den_wf _ gs.1)
  have h2 : NoCtlM (entryMembers c e ctx fields) := NoCtlM_append _ _ (den_noctl _ gall.2) (den_noctl _ gs.2)
  exact ⟨by simpa only [WFj] using h1, by simpa only [NoCtlJ] using h2⟩

theorem jsonLine_eq_render (c : Cfg) (e : Ent) (ctx : List (List Field)) (fields : List Field)
    (he : EntOK e) (hc : ∀ fs ∈ ctx, ∀ f ∈ fs, FieldOK f) (hf : ∀ f ∈ fields, FieldOK f) :
    jsonLine c e ctx fields = render (J.obj (entryMembers c e ctx fields)) ++ c.ending := by
  have gs := stackCalls_good c e
  exact Enc.encodeEntry_eq_render _ _ _ _ _ (metaCalls_good c e he).1 (ctx_good ctx hc).1
    (addFields_good fields hf).1 gs.1.1 gs.2

end ZapVerif.Entry
