import ZapVerif.Model.Field
import ZapVerif.Gen.Fields
import ZapVerif.Gen.AddTo
import ZapVerif.Gen.Any
import ZapVerif.Gen.Equals
/-! Specification predicates of C03, stated over the regenerated definitions (`Gen.addTo`, `Gen.ctors`, `Gen.equalsArm`,
`Gen.anySwitch`) — what "the encoder receives exactly the value the constructor was given" means per signature kind —
and the small lemmas/tactics the proofs in `Props/C03.lean` use.  Core-only. -/
namespace ZapVerif.Field
open ZapVerif

/-- what the encoder receives from `f.AddTo(enc)` when no encoder method returns an error -/
def delivered (f : Fld) : Except String (List Call) := Gen.addTo f none

/-! ### per-kind obligations -/

/-- the value arrives through a method of its own type, unchanged, under the same key, and nothing else is added -/
def NumOk (t : GoT) (g : Bytes → Int → Fld) : Prop :=
  ∀ key v, t.inRange v → ∃ m ∈ t.accepts, delivered (g key v) = .ok [⟨m, key, .int v⟩]

def BoolOk (g : Bytes → Bool → Fld) : Prop :=
  ∀ key v, delivered (g key v) = .ok [⟨.AddBool, key, .bool v⟩]

def StrOk (g : Bytes → Bytes → Fld) : Prop :=
  ∀ key v, delivered (g key v) = .ok [⟨.AddString, key, .str v⟩]

/-- same instant, same location — for every instant, on both sides of the int64-nanosecond range -/
def TimeOk (g : Bytes → Time → Fld) : Prop :=
  ∀ key t, delivered (g key t) = .ok [⟨.AddTime, key, .time t⟩]

/-- `q` is the value `p`, possibly under a named slice type (`dictObject(val)`): same identity, text, elements -/
def SameValue : Payload → Payload → Prop
  | .box a, .box b => a.id = b.id ∧ a.tok = b.tok ∧ a.text = b.text ∧ a.elems = b.elems ∧ a.refl = b.refl
  | p, q => q = p

@[simp] theorem sameValue_refl (p : Payload) : SameValue p p := by
  cases p <;> simp [SameValue]

/-- how an opaque value must arrive: as itself (`false`) or as its `String()`/`Error()` text (`true`) -/
def BoxVal (astext : Bool) (p : Payload) (cv : CVal) : Prop :=
  if astext then cv = .str (textOf p) else ∃ q, cv = .pay q ∧ SameValue p q

def boxSpec' : String → Option (List Meth × Bool)
  | "[]Field" => some ([.AddObject], false)
  | "...Field" => some ([.AddObject], false)
  | t => boxSpec t

/-- an opaque value of static type `ptype` (non-nil) arrives as itself through a method for that type -/
def BoxOk (ptype : String) (g : Bytes → Payload → Fld) : Prop :=
  match boxSpec' ptype with
  | none => False        -- a parameter type the specification does not know (extend `boxSpec`)
  | some (ms, astext) =>
    ∀ key p, p.hasType ptype → ∃ m ∈ ms, ∃ cv, delivered (g key p) = .ok [⟨m, key, cv⟩] ∧ BoxVal astext p cv

def ValOk (ptype : String) : (k : VK) → (Bytes → k.T → Fld) → Prop
  | .num t, g => NumOk t g
  | .bool, g => BoolOk g
  | .str, g => StrOk g
  | .time, g => TimeOk g
  | .box, g => BoxOk ptype g

/-- constructors without a key parameter (`Inline`, `Error`): same, under the field's own (fixed) key -/
def V1Ok (ptype : String) : (k : VK) → (k.T → Fld) → Prop
  | .box, g =>
    match boxSpec' ptype with
    | none => False
    | some (ms, astext) =>
      (∀ p, p.hasType ptype → ∃ m ∈ ms, ∃ cv, delivered (g p) = .ok [⟨m, (g p).key, cv⟩] ∧ BoxVal astext p cv) ∧
      (∀ p q, p.hasType ptype → q.hasType ptype → (g p).key = (g q).key)
  | _, _ => False

/-- a nil pointer is an explicit null: `AddReflected(key, nil)` -/
def NilOk (g : Bytes → Fld) : Prop :=
  ∀ key, delivered (g key) = .ok [⟨.AddReflected, key, .pay .nil⟩]

def NamespaceOk (g : Bytes → Fld) : Prop :=
  ∀ key, delivered (g key) = .ok [⟨.OpenNamespace, key, .none⟩]

/-- element methods for opaque element types: (methods, delivered as text, nil elements skipped) -/
def boxSpecA' : String → Option (List AM × Bool × Bool)
  | "error" => some ([.AppendObject], false, true)
  | t => (boxSpecA t).map fun (ms, tx) => (ms, tx, false)

/-- the marshaler emits exactly one call per element, in order, each carrying the element unchanged -/
def ElemsOk (etype : String) : (k : VK) → List k.T → List ACall → Prop
  | .num t, xs, cs => ∃ m ∈ t.acceptsA, cs = xs.map fun x => ⟨m, .int x⟩
  | .bool, xs, cs => cs = xs.map fun x => ⟨.AppendBool, .bool x⟩
  | .str, xs, cs => cs = xs.map fun x => ⟨.AppendString, .str x⟩
  | .time, xs, cs => cs = xs.map fun x => ⟨.AppendTime, .time x⟩
  | .box, xs, cs =>
    match boxSpecA' etype with
    | none => False
    | some (ms, astext, skipNil) =>
      ∃ m ∈ ms, cs = ((if skipNil then xs.filter (fun x => x != Payload.nil) else xs).map fun x =>
        ⟨m, if astext then .str (textOf x) else .tok x.id⟩)

/-- a slice constructor delivers one `AddArray(key, m)` whose marshaler emits the elements -/
def SliceOk (etype : String) (k : VK) (g : Bytes → List k.T → Fld) : Prop :=
  ∀ key xs, ∃ b, delivered (g key xs) = .ok [⟨.AddArray, key, .pay (.box b)⟩] ∧ ElemsOk etype k xs b.elems

/-- the obligation of one row of `Gen.ctors` -/
def Ctor.Ok (c : Ctor) : Prop :=
  match c.fn with
  | .k0 f => delivered f = .ok []
  | .k1 g => NamespaceOk g ∨ NilOk g
  | .v1 k g => V1Ok c.ptype k g
  | .kv k g => ValOk c.ptype k g
  | .kp k g => NilOk (fun key => g key none) ∧ ValOk c.etype k (fun key v => g key (some v))
  | .ks k g => SliceOk c.etype k g
  | .opaque => c.name = "Stack" ∨ c.name = "StackSkip"

/-- a nil value of an interface-typed parameter never makes `AddTo` panic (nil errors: nothing is added at all) -/
def Ctor.NilSafe (c : Ctor) : Prop :=
  if c.ptype ∈ ifaceTypes ∨ c.ptype = "any" then
    match c.fn with
    | .kv .box g => ∀ key, ∃ cs, delivered (g key .nil) = .ok cs ∧ (c.ptype = "error" → cs = [])
    | .v1 .box g => ∃ cs, delivered (g .nil) = .ok cs ∧ (c.ptype = "error" → cs = [])
    | _ => True
  else True

/-! ### Equals -/

def equals (f g : Fld) : EqR := equalsWith Gen.equalsArm f g

/-- the dynamic type of the payload supports `==` -/
def Payload.comparable : Payload → Prop
  | .box b => b.cmp = true
  | _ => True

/-- the builtin comparable payload types (`complex128`, `complex64`) are comparable -/
def Payload.wf : Payload → Prop
  | .box b => (b.dyn = "complex128" ∨ b.dyn = "complex64") → b.cmp = true
  | _ => True

/-- the discipline a field must obey for `Equals` not to panic: what `==` sees is comparable, what `bytes.Equal` sees is
a `[]byte` -/
def EqSafe (f : Fld) : Prop :=
  (Gen.equalsArm f.ty = .structEq → f.iface.comparable) ∧
  (Gen.equalsArm f.ty = .bytesEqual → f.iface.hasType "[]byte")

/-- a well-typed argument of static type `ptype`: a value of that type, or nil when `ptype` is an interface type -/
def argOK (ptype : String) (p : Payload) : Prop :=
  p.hasType ptype ∨ (p = .nil ∧ (ptype ∈ ifaceTypes ∨ ptype = "any"))

/-- every field a constructor can return (from well-typed, well-formed arguments) is `EqSafe` -/
def Ctor.EqSafe (c : Ctor) : Prop :=
  match c.fn with
  | .k0 f => Field.EqSafe f
  | .k1 g => ∀ key, Field.EqSafe (g key)
  | .v1 .box g => ∀ p, p.wf → argOK c.ptype p → Field.EqSafe (g p)
  | .kv .box g => ∀ key p, p.wf → argOK c.ptype p → Field.EqSafe (g key p)
  | .kp .box g => ∀ key p, (∀ q, p = some q → q.wf ∧ q.hasType c.etype) → Field.EqSafe (g key p)
  | .ks .box g => ∀ key xs, Field.EqSafe (g key xs)
  | .v1 _ g => ∀ v, Field.EqSafe (g v)
  | .kv _ g => ∀ key v, Field.EqSafe (g key v)
  | .kp _ g => ∀ key v, Field.EqSafe (g key v)
  | .ks _ g => ∀ key xs, Field.EqSafe (g key xs)
  | .opaque => True

/-- two payloads agree on whether their (common) dynamic type is comparable -/
def Coherent : Payload → Payload → Prop
  | .box a, .box b => a.dyn = b.dyn → a.cmp = b.cmp
  | _, _ => True

/-- the payload equals itself under `==` and `reflect.DeepEqual` (no NaN, no func inside) -/
def Payload.reflexive : Payload → Prop
  | .box b => b.refl = true
  | _ => True

/-! ### Any -/

/-- parameter type of the function `name` of package zap -/
def ctorParam (name : String) : Option String :=
  (Gen.ctors.find? fun c => c.pkg == "zap" && c.name == name).map (·.ptype)

/-- the constructors of package zap taking `(key string, val T)` for a given `T` (what `Any` could dispatch `T` to) -/
def candidates (t : String) : List String :=
  (Gen.ctors.filter fun c => c.pkg == "zap" && c.ptype == t && (match c.fn with | .kv .. | .kp .. | .ks .. => true | _ => false)).map (·.name)

/-- where two constructors share a parameter type, the one `Any` must pick (`[]byte` is binary data, not a UTF-8 string) -/
def anyTieBreak : List (String × String) := [("[]byte", "Binary")]

/-- parameter types of exported constructors that `Any` is not expected to list: `[]uint8` *is* `[]byte`; `[][]byte`,
generic element types and variadic parameters cannot be (or are deliberately not) dispatched on; `any` is the default -/
def anyExempt : List String :=
  ["[]uint8", "[][]byte", "...Field", "any", "[]T:zapcore.ObjectMarshaler", "[]T:any", "[]T:fmt.Stringer"]

/-- concrete case types that implement `fmt.Stringer` (so the `fmt.Stringer` case must come after them) -/
def stringerImpls : List String := ["time.Time", "*time.Time", "time.Duration", "*time.Duration"]

def caseIndex (t : String) : Option Nat := (Gen.anySwitch.map (·.1)).findIdx? (· == t)

/-- both types are cases of `Any`, and `a`'s case comes first -/
def caseBefore (a b : String) : Bool :=
  match caseIndex a, caseIndex b with
  | some i, some j => decide (i < j)
  | _, _ => false

end ZapVerif.Field

/-! ### proof automation shared by the table-quantified theorems of `Props/C03.lean` -/
namespace ZapVerif.Field
set_option linter.unusedSimpArgs false

theorem all_nil {α : Type} (P : α → Prop) : ∀ c ∈ ([] : List α), P c := by intro c h; cases h

theorem all_cons {α : Type} (P : α → Prop) {a : α} {l : List α} (h : P a) (t : ∀ c ∈ l, P c) : ∀ c ∈ a :: l, P c := by
  intro c hc
  rcases List.mem_cons.mp hc with rfl | h'
  · exact h
  · exact t c h'

/-- split `∀ c ∈ [r₁, …, rₙ], P c` into one goal `P rᵢ` per row of the (regenerated) table -/
macro "per_row" : tactic => `(tactic| repeat' (first | exact all_nil _ | refine all_cons _ ?_ ?_))

/-- round trip of one value-carrying constructor: unfold the regenerated `pack_*` / `addTo`, then linear arithmetic over
the wrap-around conversions -/
macro "val_tac" : tactic => `(tactic| first
  | (unfold NumOk; intro key v h; simp [GoT.inRange] at h;
     simp [delivered, GoT.accepts, wrapS, wrapU, float32bits, float64bits, float32frombits, float64frombits] <;> omega)
  | (unfold BoolOk; intro key v; cases v <;> simp [delivered])
  | (unfold StrOk; intro key v; simp [delivered])
  | (unfold TimeOk; intro key t; obtain ⟨ns, loc⟩ := t; simp only [delivered]; simp only [Gen.pack_Time, Gen.pack_Timep]; split
     · simp [assertTime]
     · rename_i h; simp [timeBefore, timeAfter] at h
       simp [unixNano, location, timeIn, timeUnix0, assertT, tyLocation, wrapS]; omega)
  | (simp only [BoxOk, boxSpec', boxSpec]; intro key p hp
     cases p <;> simp_all [Payload.hasType, delivered, assertT, BoxVal, tyLocation, tyTime, convNamed, Box.isA, ifaceTypes,
       encodeStringer, encodeError, textOf, SameValue]))

macro "nil_tac" : tactic => `(tactic| (unfold NilOk; intro key; simp [delivered]))

macro "row_tac" : tactic => `(tactic| (simp only [Ctor.Ok, ValOk]; first
  | val_tac
  | (refine ⟨?_, ?_⟩ <;> first | nil_tac | val_tac)
  | (simp [delivered]; done)
  | (first | (left; intro key; simp [NamespaceOk, delivered]; done) | (right; nil_tac))
  | (intro key xs; simp [delivered, assertT, Box.isA, ifaceTypes, ElemsOk, GoT.acceptsA, boxSpecA', boxSpecA]; done)
  | (simp only [V1Ok, boxSpec', boxSpec]; constructor
     · intro p hp
       cases p <;> simp_all [Payload.hasType, delivered, assertT, BoxVal, tyLocation, tyTime, convNamed, Box.isA, ifaceTypes,
         encodeStringer, encodeError, textOf, SameValue]
     · intro p q hp hq
       cases p <;> cases q <;> simp_all [Payload.hasType, delivered, assertT, BoxVal, tyLocation, tyTime, convNamed, Box.isA,
         ifaceTypes, encodeStringer, encodeError, textOf])))

/-! ### lemmas -/

theorem ofBool_ne_panic (b : Bool) : EqR.ofBool b ≠ .panic := by cases b <;> simp [EqR.ofBool]

theorem ifaceEq_ne_panic (p q : Payload) (h : p.comparable) : ifaceEq p q ≠ .panic := by
  cases p <;> cases q <;> simp [ifaceEq, ofBool_ne_panic]
  rename_i a b
  simp [Payload.comparable] at h
  by_cases hd : a.dyn = b.dyn <;> simp [hd, h, ofBool_ne_panic]

theorem bytesEq_ne_panic (p q : Payload) (hp : p.hasType "[]byte") (hq : q.hasType "[]byte") : bytesEq p q ≠ .panic := by
  cases p <;> cases q <;> simp_all [Payload.hasType, bytesEq, assertT, tyLocation, tyTime, ofBool_ne_panic]

theorem arm_err (ty : FT) (key : Bytes) (i : Int) (s : Bytes) (p : Payload) (e : Bytes) :
    match Gen.addToArm key i s p none ty with
    | .ok (cs, none) => Gen.addToArm key i s p (some e) ty = .ok (cs, none) ∨ Gen.addToArm key i s p (some e) ty = .ok (cs, some e)
    | .ok (cs, some e') => Gen.addToArm key i s p (some e) ty = .ok (cs, some e')
    | .error _ => True := by
  cases ty <;> simp only [Gen.addToArm, bindE, encodeStringer, encodeError] <;> (repeat' split) <;> simp_all

theorem addTo_def (f : Fld) (r : Option Bytes) : Gen.addTo f r =
    bindE (Gen.addToArm f.key f.integer f.str f.iface r f.ty) (fun ce => .ok (ce.1 ++ Gen.errTail f.key ce.2)) := rfl


theorem same_comm (a b : Box) : a.same b = b.same a := by
  simp only [Box.same]
  rw [BEq.comm (a := a.dyn), BEq.comm (a := a.tok), BEq.comm (a := a.elems)]

theorem and3_comm (x y z : Bool) : (x && y && z) = (x && z && y) := by cases x <;> cases y <;> cases z <;> rfl

theorem deepEq_comm (p q : Payload) : deepEq p q = deepEq q p := by
  cases p <;> cases q <;> simp only [deepEq]
  · rename_i a b; rw [same_comm, and3_comm]
  · rename_i a b; exact BEq.comm
  · rename_i a b; exact BEq.comm

theorem bytesEq_comm (p q : Payload) : bytesEq p q = bytesEq q p := by
  cases p <;> cases q <;> simp [bytesEq, assertT, tyLocation, tyTime]
  all_goals try (rename_i a b; by_cases h1 : a.isA "[]byte" = true <;> by_cases h2 : b.isA "[]byte" = true <;> simp [h1, h2, BEq.comm (a := a.tok)])
  all_goals try (rename_i a; by_cases h1 : a.isA "[]byte" = true <;> simp [h1])

theorem ifaceEq_comm (p q : Payload) (hc : Coherent p q) : ifaceEq p q = ifaceEq q p := by
  cases p <;> cases q <;> simp only [ifaceEq]
  · rename_i a b
    by_cases hd : a.dyn = b.dyn
    · have hcm : a.cmp = b.cmp := hc hd
      have hd' : b.dyn = a.dyn := hd.symm
      simp only [hd, ne_eq, not_true_eq_false, if_false, hcm, same_comm a b, and3_comm]
    · have hd' : ¬ b.dyn = a.dyn := fun h => hd h.symm
      simp [hd, hd']
  · rename_i a b; rw [BEq.comm]
  · rename_i a b; rw [BEq.comm]

theorem same_self (a : Box) : a.same a = true := by simp [Box.same]

macro "eqsafe_simp" : tactic => `(tactic| simp_all [EqSafe, Gen.equalsArm, Payload.comparable, Payload.hasType, argOK, ifaceTypes,
  Box.isA, Payload.wf, tyTime, tyLocation, convNamed, location])

macro "eqsafe_row" : tactic => `(tactic| (simp only [Ctor.EqSafe] <;> first
  | (eqsafe_simp; done)
  | (intro key p hw ha; cases p <;> eqsafe_simp; done)
  | (intro key p hq; cases p with
     | none => eqsafe_simp
     | some q => obtain ⟨hw, ht⟩ := hq q rfl; cases q <;> eqsafe_simp)
  | (intro p hw ha; cases p <;> eqsafe_simp; done)
  | (intro key v; first
     | (eqsafe_simp; done)
     | (cases v <;> eqsafe_simp; done)
     | (simp only [Gen.pack_Time]; split <;> eqsafe_simp; done)
     | (cases v
        · eqsafe_simp
        · simp only [Gen.pack_Timep, Gen.pack_Time]; split <;> eqsafe_simp))
  | (intros; eqsafe_simp; done)))


end ZapVerif.Field
