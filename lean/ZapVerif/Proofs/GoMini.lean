import ZapVerif.Model.GoMini
/-! Symbolic-execution kit for GoMini (`Model/GoMini.lean`) and the generic lemmas: fuel monotonicity,
    counted loops as folds, `for range` as a fold.

The interpreter is written with plain `match`es.  Unfolding it with `simp` on a term whose next scrutinee is not yet a
constructor lets `simp` run ahead into every arm; the combinators below (`Res.out`, `Out.andThen`, `condK`, …)
restate each equation so that — through their `@[congr]` lemmas — `simp` evaluates strictly in program order. -/
namespace ZapVerif.GoMini
open ZapVerif

/-! NOTE on `:= id rfl`: a theorem whose proof is literally `rfl` is used by `simp` *definitionally* (no proof step is
    recorded) and the kernel re-establishes the equation by its own conversion check, which on interpreter terms may
    unfold `evalE` (structural recursion over a nested inductive) and overflow the kernel's stack ("deep recursion").
    `id rfl` keeps the same one-line proofs but makes `simp` record ordinary rewrite steps. -/

/-! ## integer widths -/

theorem wrap_int_id (v : Int) (h1 : -9223372036854775808 ≤ v) (h2 : v < 9223372036854775808) : wrap .int v = v := by
  simp only [wrap]; omega
theorem wrap_i64_id (v : Int) (h1 : -9223372036854775808 ≤ v) (h2 : v < 9223372036854775808) : wrap .i64 v = v := by
  simp only [wrap]; omega
theorem wrap_u64_id (v : Int) (h1 : 0 ≤ v) (h2 : v < 18446744073709551616) : wrap .u64 v = v := by
  simp only [wrap]; omega
theorem wrap_u32_id (v : Int) (h1 : 0 ≤ v) (h2 : v < 4294967296) : wrap .u32 v = v := by
  simp only [wrap]; omega
theorem wrap_u8_id (v : Int) (h1 : 0 ≤ v) (h2 : v < 256) : wrap .u8 v = v := by
  simp only [wrap]; omega

/-! ## environments -/

@[simp] theorem Env.get_set_same (x : String) (v : Val) (e : Env) : Env.get x (Env.set x v e) = some v := by
  induction e with
  | nil => simp [Env.get, Env.set]
  | cons p r ih =>
    obtain ⟨y, w⟩ := p
    by_cases h : x = y <;> simp [Env.get, Env.set, h, ih]

@[simp] theorem Env.set_set_same (x : String) (v w : Val) (e : Env) : Env.set x w (Env.set x v e) = Env.set x w e := by
  induction e with
  | nil => simp [Env.set]
  | cons p r ih =>
    obtain ⟨y, u⟩ := p
    by_cases h : x = y <;> simp [Env.set, h, ih]

theorem Env.get_set_other (x y : String) (v : Val) (e : Env) (h : x ≠ y) : Env.get x (Env.set y v e) = Env.get x e := by
  induction e with
  | nil => simp [Env.get, Env.set, h]
  | cons p r ih =>
    obtain ⟨z, w⟩ := p
    by_cases hz : y = z
    · subst hz; simp [Env.get, Env.set, h]
    · by_cases hx : x = z <;> simp [Env.get, Env.set, hz, hx, ih]

/-! ## combinators (proof side only) -/

def Res.out {α} (r : Res α) (k : α → Out) : Out :=
  match r with
  | .ok a => k a
  | .panic p => .panic p
  | .stuck w => .stuck w

@[simp] theorem Res.out_ok {α} (a : α) (k : α → Out) : (Res.ok a).out k = k a := id rfl
@[simp] theorem Res.out_panic {α} (p : Panic) (k : α → Out) : (Res.panic p : Res α).out k = .panic p := id rfl
@[simp] theorem Res.out_stuck {α} (w : String) (k : α → Out) : (Res.stuck w : Res α).out k = .stuck w := id rfl
@[congr] theorem Res.out_congr {α} {r r' : Res α} (k : α → Out) (h : r = r') : r.out k = r'.out k := by rw [h]
theorem Res.out_ite {α} (c : Prop) [Decidable c] (a b : Res α) (k : α → Out) :
    (if c then a else b).out k = if c then a.out k else b.out k := by split <;> rfl

@[simp] theorem Res.bind_ok {α β} (a : α) (k : α → Res β) : (Res.ok a).bind k = k a := id rfl
@[simp] theorem Res.bind_panic {α β} (p : Panic) (k : α → Res β) : (Res.panic p : Res α).bind k = .panic p := id rfl
@[simp] theorem Res.bind_stuck {α β} (w : String) (k : α → Res β) : (Res.stuck w : Res α).bind k = .stuck w := id rfl
@[congr] theorem Res.bind_congr {α β} {r r' : Res α} (k : α → Res β) (h : r = r') : r.bind k = r'.bind k := by rw [h]
theorem Res.bind_ite {α β} (c : Prop) [Decidable c] (a b : Res α) (k : α → Res β) :
    (if c then a else b).bind k = if c then a.bind k else b.bind k := by split <;> rfl

/-- continue after a normal outcome -/
def Out.andThen (o : Out) (k : State → Out) : Out :=
  match o with
  | .normal σ => k σ
  | o => o

@[simp] theorem Out.andThen_normal (σ : State) (k : State → Out) : (Out.normal σ).andThen k = k σ := id rfl
@[simp] theorem Out.andThen_brk (σ : State) (k : State → Out) : (Out.brk σ).andThen k = .brk σ := id rfl
@[simp] theorem Out.andThen_cont (σ : State) (k : State → Out) : (Out.cont σ).andThen k = .cont σ := id rfl
@[simp] theorem Out.andThen_ret (vs : List Val) (σ : State) (k : State → Out) : (Out.ret vs σ).andThen k = .ret vs σ := id rfl
@[simp] theorem Out.andThen_panic (p : Panic) (k : State → Out) : (Out.panic p).andThen k = .panic p := id rfl
@[simp] theorem Out.andThen_stuck (w : String) (k : State → Out) : (Out.stuck w).andThen k = .stuck w := id rfl
@[simp] theorem Out.andThen_oof (k : State → Out) : Out.oof.andThen k = .oof := id rfl
@[congr] theorem Out.andThen_congr {o o' : Out} (k : State → Out) (h : o = o') : o.andThen k = o'.andThen k := by rw [h]
theorem Out.andThen_ite (c : Prop) [Decidable c] (a b : Out) (k : State → Out) :
    (if c then a else b).andThen k = if c then a.andThen k else b.andThen k := by split <;> rfl

/-- branch on an evaluated condition -/
def condK (v : Val) (t e : Out) : Out :=
  match v with
  | .bool true => t
  | .bool false => e
  | _ => .stuck "condition"

@[simp] theorem condK_bool (b : Bool) (t e : Out) : condK (.bool b) t e = if b then t else e := by cases b <;> rfl
@[congr] theorem condK_congr {v v' : Val} (t e : Out) (h : v = v') : condK v t e = condK v' t e := by rw [h]

/-- `break` leaves a switch -/
def Out.catchBrk : Out → Out
  | .brk σ => .normal σ
  | o => o

@[simp] theorem Out.catchBrk_normal (σ : State) : (Out.normal σ).catchBrk = .normal σ := id rfl
@[simp] theorem Out.catchBrk_brk (σ : State) : (Out.brk σ).catchBrk = .normal σ := id rfl
@[simp] theorem Out.catchBrk_cont (σ : State) : (Out.cont σ).catchBrk = .cont σ := id rfl
@[simp] theorem Out.catchBrk_ret (vs : List Val) (σ : State) : (Out.ret vs σ).catchBrk = .ret vs σ := id rfl
@[simp] theorem Out.catchBrk_panic (p : Panic) : (Out.panic p).catchBrk = .panic p := id rfl
@[simp] theorem Out.catchBrk_stuck (w : String) : (Out.stuck w).catchBrk = .stuck w := id rfl
@[simp] theorem Out.catchBrk_oof : Out.oof.catchBrk = .oof := id rfl
theorem Out.catchBrk_ite (c : Prop) [Decidable c] (a b : Out) :
    (if c then a else b).catchBrk = if c then a.catchBrk else b.catchBrk := by split <;> rfl

/-- after the body of a loop iteration -/
def Out.loopBody (o : Out) (k : State → Out) : Out :=
  match o with
  | .normal σ | .cont σ => k σ
  | .brk σ => .normal σ
  | o => o

@[simp] theorem Out.loopBody_normal (σ : State) (k : State → Out) : (Out.normal σ).loopBody k = k σ := id rfl
@[simp] theorem Out.loopBody_cont (σ : State) (k : State → Out) : (Out.cont σ).loopBody k = k σ := id rfl
@[simp] theorem Out.loopBody_brk (σ : State) (k : State → Out) : (Out.brk σ).loopBody k = .normal σ := id rfl
@[simp] theorem Out.loopBody_ret (vs : List Val) (σ : State) (k : State → Out) : (Out.ret vs σ).loopBody k = .ret vs σ := id rfl
@[simp] theorem Out.loopBody_panic (p : Panic) (k : State → Out) : (Out.panic p).loopBody k = .panic p := id rfl
@[simp] theorem Out.loopBody_stuck (w : String) (k : State → Out) : (Out.stuck w).loopBody k = .stuck w := id rfl
@[simp] theorem Out.loopBody_oof (k : State → Out) : Out.oof.loopBody k = .oof := id rfl
@[congr] theorem Out.loopBody_congr {o o' : Out} (k : State → Out) (h : o = o') : o.loopBody k = o'.loopBody k := by rw [h]
theorem Out.loopBody_ite (c : Prop) [Decidable c] (a b : Out) (k : State → Out) :
    (if c then a else b).loopBody k = if c then a.loopBody k else b.loopBody k := by split <;> rfl

/-- after the post statement of a loop iteration -/
def Out.loopPost (o : Out) (k : State → Out) : Out :=
  match o with
  | .normal σ => k σ
  | .brk _ => .stuck "break in post statement"
  | .cont _ => .stuck "continue in post statement"
  | o => o

@[simp] theorem Out.loopPost_normal (σ : State) (k : State → Out) : (Out.normal σ).loopPost k = k σ := id rfl
@[congr] theorem Out.loopPost_congr {o o' : Out} (k : State → Out) (h : o = o') : o.loopPost k = o'.loopPost k := by rw [h]

/-- finish an assignment -/
def assignK (σ : State) (lhs : List LV) (msg : String) (vs : List Val) : Out :=
  match σ.assign lhs vs with
  | some σ' => .normal σ'
  | none => .stuck msg

/-- what a call of a translated function makes of the callee's outcome -/
def retK (σ : State) (lhs : List LV) (f : String) : Out → Out
  | .ret rs σ' => assignK { σ with fld := σ'.fld } lhs (msg "result arity of" f) rs
  | .normal σ' => if lhs.isEmpty then .normal { σ with fld := σ'.fld } else .stuck (msg "missing return in" f)
  | .brk _ => .stuck "break outside loop"
  | .cont _ => .stuck "continue outside loop"
  | o => o

@[simp] theorem retK_ret (σ : State) (lhs : List LV) (f : String) (rs : List Val) (σ' : State) :
    retK σ lhs f (.ret rs σ') = assignK { σ with fld := σ'.fld } lhs (msg "result arity of" f) rs := id rfl
@[simp] theorem retK_normal (σ : State) (lhs : List LV) (f : String) (σ' : State) :
    retK σ lhs f (.normal σ') = if lhs.isEmpty then .normal { σ with fld := σ'.fld } else .stuck (msg "missing return in" f) := id rfl
@[simp] theorem retK_panic (σ : State) (lhs : List LV) (f : String) (p : Panic) : retK σ lhs f (.panic p) = .panic p := id rfl
@[congr] theorem retK_congr (σ : State) (lhs : List LV) (f : String) {o o' : Out} (h : o = o') :
    retK σ lhs f o = retK σ lhs f o' := by rw [h]
theorem retK_ite (σ : State) (lhs : List LV) (f : String) (c : Prop) [Decidable c] (a b : Out) :
    retK σ lhs f (if c then a else b) = if c then retK σ lhs f a else retK σ lhs f b := by split <;> rfl

/-- how a function body ended: results and receiver fields (`none`: panic, stuck, out of fuel, stray break) -/
def Out.fin : Out → Option (List Val × Env)
  | .ret rs σ => some (rs, σ.fld)
  | .normal σ => some ([], σ.fld)
  | _ => none

@[simp] theorem Out.fin_ret (rs : List Val) (σ : State) : (Out.ret rs σ).fin = some (rs, σ.fld) := id rfl
@[simp] theorem Out.fin_normal (σ : State) : (Out.normal σ).fin = some ([], σ.fld) := id rfl
theorem Out.fin_ite (c : Prop) [Decidable c] (a b : Out) : (if c then a else b).fin = if c then a.fin else b.fin := by
  split <;> rfl

/-- a call without results of a callee that ends in `fl` -/
theorem retK_of_fin0 (σ : State) (f : String) (o : Out) (fl : Env) (h : o.fin = some ([], fl)) :
    retK σ [] f o = .normal { σ with fld := fl } := by
  cases o <;> simp_all [Out.fin, retK, assignK, State.assign]

/-- a call with one result -/
theorem retK_of_fin1 (σ : State) (l : LV) (f : String) (o : Out) (v : Val) (fl : Env) (h : o.fin = some ([v], fl)) :
    retK σ [l] f o = .normal (({ σ with fld := fl } : State).assign1 l v) := by
  cases o <;> simp_all [Out.fin, retK, assignK, State.assign]

/-- a call with two results -/
theorem retK_of_fin2 (σ : State) (l1 l2 : LV) (f : String) (o : Out) (v1 v2 : Val) (fl : Env)
    (h : o.fin = some ([v1, v2], fl)) :
    retK σ [l1, l2] f o = assignK { σ with fld := fl } [l1, l2] (msg "result arity of" f) [v1, v2] := by
  cases o <;> simp_all [Out.fin, retK]

/-- a call with at least one result -/
theorem retK_of_fin (σ : State) (lhs : List LV) (f : String) (o : Out) (v : Val) (vs : List Val) (fl : Env)
    (h : o.fin = some (v :: vs, fl)) :
    retK σ lhs f o = assignK { σ with fld := fl } lhs (msg "result arity of" f) (v :: vs) := by
  cases o <;> simp_all [Out.fin, retK]

/-- running a function from outside -/
theorem run_of_fin (X : Ctx) (fuel : Nat) (f : String) (fn : Fun) (args : List Val) (fld : Env) (rs : List Val) (fl : Env)
    (hf : X.funs f = some fn) (ha : fn.params.length = args.length)
    (h : (exec X fuel fn.body { loc := fn.params.zip args ++ fn.named, fld := fld }).fin = some (rs, fl)) :
    run X fuel f args fld = .done rs fl := by
  simp only [run, hf, ha, if_true]
  cases ho : exec X fuel fn.body { loc := fn.params.zip args ++ fn.named, fld := fld } <;> simp_all [Out.fin]

/-! ## the interpreter, restated -/

section
variable (X : Ctx) (rec : Stmt → State → Out) (σ : State)

/-- not a simp lemma: unfold one level explicitly (`rw [exec_succ]`), so that calls and loop continuations stay folded -/
theorem exec_succ (fuel : Nat) (s : Stmt) : exec X (fuel + 1) s σ = execS X (exec X fuel) s σ := id rfl
@[simp] theorem exec_zero (s : Stmt) : exec X 0 s σ = .oof := id rfl

@[simp] theorem execS_skip : execS X rec .skip σ = .normal σ := by simp [execS]
@[simp] theorem execS_brk : execS X rec .brk σ = .brk σ := by simp [execS]
@[simp] theorem execS_cont : execS X rec .cont σ = .cont σ := by simp [execS]

@[simp] theorem execS_seq (a b : Stmt) : execS X rec (.seq a b) σ = (execS X rec a σ).andThen (execS X rec b) := by
  simp only [execS, Out.andThen]; cases execS X rec a σ <;> rfl

@[simp] theorem execS_assign (lhs : List LV) (rhs : List Expr) :
    execS X rec (.assign lhs rhs) σ = (evalEs X σ rhs).out (assignK σ lhs "assignment arity") := by
  simp only [execS, Res.out, assignK]; cases evalEs X σ rhs <;> rfl

@[simp] theorem execS_ret (es : List Expr) : execS X rec (.ret es) σ = (evalEs X σ es).out fun vs => .ret vs σ := by
  simp only [execS, Res.out]; cases evalEs X σ es <;> rfl

@[simp] theorem execS_callX (lhs : List LV) (f : String) (args : List Expr) :
    execS X rec (.callX lhs f args) σ = (evalEs X σ args).out fun vs =>
      match X.ext f vs with
      | some rs => assignK σ lhs (msg "result arity of" f) rs
      | none => .stuck (msg "intrinsic" f) := by
  simp only [execS, Res.out, assignK]; cases evalEs X σ args <;> rfl

@[simp] theorem execS_call (lhs : List LV) (f : String) (args : List Expr) :
    execS X rec (.call lhs f args) σ = (evalEs X σ args).out fun vs =>
      match X.funs f with
      | some fn =>
        if fn.params.length = vs.length then
          retK σ lhs f (rec fn.body { loc := fn.params.zip vs ++ fn.named, fld := σ.fld })
        else .stuck (msg "argument arity of" f)
      | none => .stuck (msg "unknown function" f) := by
  simp only [execS, Res.out]
  cases evalEs X σ args <;> rfl

@[simp] theorem execS_ite (c : Expr) (t e : Stmt) :
    execS X rec (.ite c t e) σ = (evalE X σ c).out fun v => condK v (execS X rec t σ) (execS X rec e σ) := by
  simp only [execS, Res.out, condK]
  cases evalE X σ c <;> try rfl
  rename_i v; cases v <;> try rfl
  rename_i b; cases b <;> rfl

@[simp] theorem execS_switch (tag : Expr) (cs : Cases) :
    execS X rec (.switch tag cs) σ = (evalE X σ tag).out fun v => (execC X rec v cs σ).catchBrk := by
  simp only [execS, Res.out, Out.catchBrk]
  cases evalE X σ tag <;> rfl

@[simp] theorem execC_default (tag : Val) (body : Stmt) : execC X rec tag (.default body) σ = execS X rec body σ := by
  simp [execC]

@[simp] theorem execC_case (tag : Val) (vals : List Expr) (body : Stmt) (rest : Cases) :
    execC X rec tag (.case vals body rest) σ =
      (matchCase X σ tag vals).out fun b => if b then execS X rec body σ else execC X rec tag rest σ := by
  simp only [execC, Res.out]
  cases matchCase X σ tag vals <;> try rfl
  rename_i b; cases b <;> rfl

theorem execS_loop (c : Expr) (post body : Stmt) :
    execS X rec (.loop c post body) σ = (evalE X σ c).out fun v =>
      condK v ((execS X rec body σ).loopBody fun σ' => (execS X rec post σ').loopPost (rec (.loop c post body)))
        (.normal σ) := by
  simp only [execS, Res.out, condK]
  cases evalE X σ c <;> try rfl
  rename_i v; cases v <;> try rfl
  rename_i b; cases b <;> rfl

@[simp] theorem execS_range (k v : LV) (xs : Expr) (body : Stmt) :
    execS X rec (.range k v xs body) σ = (evalE X σ xs).out fun
      | .list vs => rangeRun (execS X rec body) k v vs 0 σ
      | .bytes bs => rangeRun (execS X rec body) k v (bs.map fun b => .int b.toNat) 0 σ
      | _ => .stuck "range operand" := by
  simp only [execS, Res.out]
  cases evalE X σ xs <;> try rfl
  rename_i v; cases v <;> rfl

end

/-! ## expressions -/

attribute [simp] Env.get Env.set State.assign State.assign1

/-- the right operand of `&&` / `||` must be a boolean -/
def boolK : Val → Res Val
  | .bool r => .ok (.bool r)
  | _ => .stuck "operand"

@[simp] theorem boolK_bool (b : Bool) : boolK (.bool b) = .ok (.bool b) := id rfl

/-- `a && b` after `a` has been evaluated -/
def andK (rb : Res Val) : Val → Res Val
  | .bool true => rb.bind boolK
  | .bool false => .ok (.bool false)
  | _ => .stuck "operand"

def orK (rb : Res Val) : Val → Res Val
  | .bool false => rb.bind boolK
  | .bool true => .ok (.bool true)
  | _ => .stuck "operand"

@[simp] theorem andK_bool (rb : Res Val) (b : Bool) : andK rb (.bool b) = if b then rb.bind boolK else .ok (.bool false) := by
  cases b <;> rfl
@[simp] theorem orK_bool (rb : Res Val) (b : Bool) : orK rb (.bool b) = if b then .ok (.bool true) else rb.bind boolK := by
  cases b <;> rfl

section
variable (X : Ctx) (σ : State)
/- The equation lemmas Lean generates for `evalEs` / `evalOpt` hold by `rfl` and `simp` would use them
   definitionally; the kernel then re-checks them by unfolding the structural recursion over the nested inductive
   `Expr`, which overflows its stack on larger terms.  These restatements are ordinary (propositional) rewrites. -/
@[simp] theorem evalOpt_none (d : Val) : evalOpt X σ none d = .ok d := by rw [evalOpt]
@[simp] theorem evalOpt_some (e : Expr) (d : Val) : evalOpt X σ (some e) d = evalE X σ e := by rw [evalOpt]
@[simp] theorem evalEs_nil : evalEs X σ [] = .ok [] := by rw [evalEs]
@[simp] theorem evalEs_cons (e : Expr) (es : List Expr) :
    evalEs X σ (e :: es) = (evalE X σ e).bind fun v => (evalEs X σ es).bind fun vs => .ok (v :: vs) := by rw [evalEs]
@[simp] theorem evalE_lit (v : Val) : evalE X σ (.lit v) = .ok v := by simp [evalE]
@[simp] theorem evalE_loc (x : String) :
    evalE X σ (.loc x) = match σ.loc.get x with | some v => .ok v | none => .stuck (msg "unset local" x) := by
  simp only [evalE]; cases Env.get x σ.loc <;> rfl
@[simp] theorem evalE_fld (x : String) :
    evalE X σ (.fld x) = match σ.fld.get x with | some v => .ok v | none => .stuck (msg "unset field" x) := by
  simp only [evalE]; cases Env.get x σ.fld <;> rfl
@[simp] theorem evalE_un (op : UnOp) (e : Expr) : evalE X σ (.un op e) = (evalE X σ e).bind (evalUn op) := by simp [evalE]
@[simp] theorem evalE_bin (op : BinOp) (a b : Expr) :
    evalE X σ (.bin op a b) = (evalE X σ a).bind fun va => (evalE X σ b).bind fun vb => evalBin op va vb := by simp [evalE]
theorem andK_ok_bool (a b : Bool) : andK (.ok (.bool b)) (.bool a) = .ok (.bool (a && b)) := by
  cases a <;> cases b <;> rfl
theorem orK_ok_bool (a b : Bool) : orK (.ok (.bool b)) (.bool a) = .ok (.bool (a || b)) := by
  cases a <;> cases b <;> rfl
@[simp] theorem evalE_and (a b : Expr) : evalE X σ (.and a b) = (evalE X σ a).bind (andK (evalE X σ b)) := by
  simp only [evalE]; congr
@[simp] theorem evalE_or (a b : Expr) : evalE X σ (.or a b) = (evalE X σ a).bind (orK (evalE X σ b)) := by
  simp only [evalE]; congr
@[simp] theorem evalE_conv (t : Ty) (e : Expr) :
    evalE X σ (.conv t e) = (evalE X σ e).bind fun v => (asInt v).bind fun i => .ok (.int (wrap t i)) := by simp [evalE]
@[simp] theorem evalE_len (e : Expr) : evalE X σ (.len e) = (evalE X σ e).bind lenVal := by simp [evalE]
@[simp] theorem evalE_index (a i : Expr) :
    evalE X σ (.index a i) = (evalE X σ a).bind fun va => (evalE X σ i).bind fun vi => indexVal va vi := by simp [evalE]
@[simp] theorem evalE_slice (a : Expr) (lo hi : Option Expr) :
    evalE X σ (.slice a lo hi) = (evalE X σ a).bind fun va =>
      (evalOpt X σ lo (.int 0)).bind fun vlo => (lenVal va).bind fun n => (evalOpt X σ hi n).bind fun vhi =>
      (asInt vlo).bind fun l => (asInt vhi).bind fun h => sliceVal va l h := by simp [evalE]
@[simp] theorem evalE_call (f : String) (args : List Expr) :
    evalE X σ (.call f args) = (evalEs X σ args).bind (callVal X f) := by simp [evalE]
end

@[simp] theorem evalUn_not (b : Bool) : evalUn .not (.bool b) = .ok (.bool (!b)) := id rfl
@[simp] theorem evalUn_neg (t : Ty) (v : Int) : evalUn (.neg t) (.int v) = .ok (.int (wrap t (-v))) := id rfl

@[simp] theorem evalBin_add (t : Ty) (a b : Int) : evalBin (.add t) (.int a) (.int b) = .ok (.int (wrap t (a + b))) := id rfl
@[simp] theorem evalBin_sub (t : Ty) (a b : Int) : evalBin (.sub t) (.int a) (.int b) = .ok (.int (wrap t (a - b))) := id rfl
@[simp] theorem evalBin_mul (t : Ty) (a b : Int) : evalBin (.mul t) (.int a) (.int b) = .ok (.int (wrap t (a * b))) := id rfl
@[simp] theorem evalBin_div (t : Ty) (a b : Int) :
    evalBin (.div t) (.int a) (.int b) = if b = 0 then .panic .divide else .ok (.int (wrap t (Int.tdiv a b))) := id rfl
@[simp] theorem evalBin_rem (t : Ty) (a b : Int) :
    evalBin (.rem t) (.int a) (.int b) = if b = 0 then .panic .divide else .ok (.int (wrap t (Int.tmod a b))) := id rfl
@[simp] theorem evalBin_band (a b : Int) : evalBin .band (.int a) (.int b) = .ok (.int (a.toNat &&& b.toNat : Nat)) := id rfl
@[simp] theorem evalBin_bor (a b : Int) : evalBin .bor (.int a) (.int b) = .ok (.int (a.toNat ||| b.toNat : Nat)) := id rfl
@[simp] theorem evalBin_bxor (a b : Int) : evalBin .bxor (.int a) (.int b) = .ok (.int (a.toNat ^^^ b.toNat : Nat)) := id rfl
@[simp] theorem evalBin_shr (a b : Int) : evalBin .shr (.int a) (.int b) = .ok (.int (a.toNat >>> b.toNat : Nat)) := id rfl
@[simp] theorem evalBin_shl (t : Ty) (a b : Int) :
    evalBin (.shl t) (.int a) (.int b) = .ok (.int (wrap t (a.toNat <<< b.toNat : Nat))) := id rfl
@[simp] theorem evalBin_eq (a b : Int) : evalBin .eq (.int a) (.int b) = .ok (.bool (decide (a = b))) := id rfl
@[simp] theorem evalBin_ne (a b : Int) : evalBin .ne (.int a) (.int b) = .ok (.bool (decide (a ≠ b))) := id rfl
@[simp] theorem evalBin_lt (a b : Int) : evalBin .lt (.int a) (.int b) = .ok (.bool (decide (a < b))) := id rfl
@[simp] theorem evalBin_le (a b : Int) : evalBin .le (.int a) (.int b) = .ok (.bool (decide (a ≤ b))) := id rfl
@[simp] theorem evalBin_gt (a b : Int) : evalBin .gt (.int a) (.int b) = .ok (.bool (decide (a > b))) := id rfl
@[simp] theorem evalBin_ge (a b : Int) : evalBin .ge (.int a) (.int b) = .ok (.bool (decide (a ≥ b))) := id rfl
@[simp] theorem evalBin_eqb (a b : Bool) : evalBin .eq (.bool a) (.bool b) = .ok (.bool (a == b)) := id rfl
@[simp] theorem evalBin_neb (a b : Bool) : evalBin .ne (.bool a) (.bool b) = .ok (.bool (a != b)) := id rfl
@[simp] theorem evalBin_eqs (a b : Bytes) : evalBin .eq (.bytes a) (.bytes b) = .ok (.bool (a == b)) := id rfl
@[simp] theorem evalBin_nes (a b : Bytes) : evalBin .ne (.bytes a) (.bytes b) = .ok (.bool (a != b)) := id rfl

@[simp] theorem evalBin_eql (a b : List Val) : evalBin .eq (.list a) (.list b) = .ok (.bool (Val.beqs a b)) := id rfl
@[simp] theorem evalBin_nel (a b : List Val) : evalBin .ne (.list a) (.list b) = .ok (.bool (!Val.beqs a b)) := id rfl
@[simp] theorem beqs_nil_nil : Val.beqs [] [] = true := by simp [Val.beqs]
@[simp] theorem beqs_nil_cons (b : Val) (bs : List Val) : Val.beqs [] (b :: bs) = false := by simp [Val.beqs]
@[simp] theorem beqs_cons_nil (a : Val) (as : List Val) : Val.beqs (a :: as) [] = false := by simp [Val.beqs]
@[simp] theorem beqs_cons_cons (a b : Val) (as bs : List Val) :
    Val.beqs (a :: as) (b :: bs) = (Val.beq a b && Val.beqs as bs) := by simp [Val.beqs]
@[simp] theorem beq_int (a b : Int) : Val.beq (.int a) (.int b) = (a == b) := by simp [Val.beq]
@[simp] theorem lenVal_bytes (s : Bytes) : lenVal (.bytes s) = .ok (.int s.length) := id rfl
@[simp] theorem lenVal_list (s : List Val) : lenVal (.list s) = .ok (.int s.length) := id rfl
@[simp] theorem asInt_int (v : Int) : asInt (.int v) = .ok v := id rfl

theorem indexVal_bytes (s : Bytes) (i : Nat) (h : i < s.length) :
    indexVal (.bytes s) (.int i) = .ok (.int s[i].toNat) := by
  simp [indexVal, h]
theorem indexVal_list (s : List Val) (i : Nat) (h : i < s.length) : indexVal (.list s) (.int i) = .ok s[i] := by
  simp [indexVal, h]
/-- fields of a record value (`x.f` on a struct is an index with a literal position) -/
@[simp] theorem indexVal_rec0 (a : Val) (r : List Val) : indexVal (.list (a :: r)) (.int 0) = .ok a := id rfl
@[simp] theorem indexVal_rec1 (a b : Val) (r : List Val) : indexVal (.list (a :: b :: r)) (.int 1) = .ok b := id rfl
@[simp] theorem indexVal_rec2 (a b c : Val) (r : List Val) : indexVal (.list (a :: b :: c :: r)) (.int 2) = .ok c := id rfl
@[simp] theorem indexVal_rec3 (a b c d : Val) (r : List Val) :
    indexVal (.list (a :: b :: c :: d :: r)) (.int 3) = .ok d := id rfl
@[simp] theorem indexVal_rec4 (a b c d e : Val) (r : List Val) :
    indexVal (.list (a :: b :: c :: d :: e :: r)) (.int 4) = .ok e := id rfl
@[simp] theorem indexVal_rec5 (a b c d e f : Val) (r : List Val) :
    indexVal (.list (a :: b :: c :: d :: e :: f :: r)) (.int 5) = .ok f := id rfl

theorem indexVal_bytes_oob (s : Bytes) (i : Int) (h : i < 0 ∨ (s.length : Int) ≤ i) :
    indexVal (.bytes s) (.int i) = .panic .index := by
  simp only [indexVal]
  split
  · rfl
  · have : s[i.toNat]? = none := by simp; omega
    rw [this]

/-- the last byte -/
theorem indexVal_concat (l : Bytes) (b : UInt8) : indexVal (.bytes (l ++ [b])) (.int l.length) = .ok (.int b.toNat) := by
  have := indexVal_bytes (l ++ [b]) l.length (by simp)
  simpa using this

/-- comparing a byte value with a literal -/
theorem byte_eq_lit (b : UInt8) (k : Nat) (hk : k < 256) : ((b.toNat : Int) = (k : Int)) ↔ b = UInt8.ofNat k := by
  constructor
  · intro h
    have h' : b.toNat = k := by omega
    exact UInt8.toNat_inj.mp (by simp [h', Nat.mod_eq_of_lt hk])
  · intro h; subst h; simp [Nat.mod_eq_of_lt hk]

@[simp] theorem sliceVal_bytes (s : Bytes) (lo hi : Int) :
    sliceVal (.bytes s) lo hi =
      if 0 ≤ lo ∧ lo ≤ hi ∧ hi ≤ s.length then .ok (.bytes ((s.take hi.toNat).drop lo.toNat)) else .panic .slice := id rfl
@[simp] theorem sliceVal_list (s : List Val) (lo hi : Int) :
    sliceVal (.list s) lo hi =
      if 0 ≤ lo ∧ lo ≤ hi ∧ hi ≤ s.length then .ok (.list ((s.take hi.toNat).drop lo.toNat)) else .panic .slice := id rfl

@[simp] theorem valEq_int (a b : Int) : valEq (.int a) (.int b) = some (decide (a = b)) := id rfl
@[simp] theorem valEq_bool (a b : Bool) : valEq (.bool a) (.bool b) = some (a == b) := id rfl
@[simp] theorem valEq_bytes (a b : Bytes) : valEq (.bytes a) (.bytes b) = some (a == b) := id rfl

@[simp] theorem matchCase_nil (X : Ctx) (σ : State) (tag : Val) : matchCase X σ tag [] = .ok false := id rfl
/-- a case of a TAGLESS switch (`switch { case cond: … }`, a switch on `true`): the condition decides -/
theorem matchCase_true1 (X : Ctx) (σ : State) (e : Expr) (b : Bool) (h : evalE X σ e = .ok (.bool b)) :
    matchCase X σ (.bool true) [e] = .ok b := by
  simp only [matchCase, h, Res.bind, valEq]
  cases b <;> rfl

/-- a case value that is an integer literal (the only kind the whitelisted switches use) -/
@[simp] theorem matchCase_lit_int (X : Ctx) (σ : State) (a b : Int) (es : List Expr) :
    matchCase X σ (.int a) (.lit (.int b) :: es) = if a = b then .ok true else matchCase X σ (.int a) es := by
  simp only [matchCase, evalE, Res.bind, valEq]
  by_cases h : a = b <;> simp [h]

/-- a case value that is a string literal (`switch path { case "stdout": … }`) -/
@[simp] theorem matchCase_lit_bytes (X : Ctx) (σ : State) (a b : Bytes) (es : List Expr) :
    matchCase X σ (.bytes a) (.lit (.bytes b) :: es) = if a = b then .ok true else matchCase X σ (.bytes a) es := by
  simp only [matchCase, evalE, Res.bind, valEq]
  by_cases h : a = b
  · simp [h]
  · have hb : (a == b) = false := by simpa using h
    simp [h, hb]

@[simp] theorem callVal_def (X : Ctx) (f : String) (args : List Val) :
    callVal X f args = match builtin f args with
      | some v => .ok v
      | none => match X.ext f args with
        | some [v] => .ok v
        | _ => .stuck (msg "call" f) := id rfl

@[simp] theorem builtin_append_byte (s : Bytes) (c : Int) :
    builtin "append" [.bytes s, .int c] = some (.bytes (s ++ [UInt8.ofNat c.toNat])) := id rfl
@[simp] theorem builtin_append_val (s : List Val) (v : Val) : builtin "append" [.list s, v] = some (.list (s ++ [v])) := by
  cases v <;> rfl
@[simp] theorem builtin_appends_bytes (s t : Bytes) : builtin "append..." [.bytes s, .bytes t] = some (.bytes (s ++ t)) := id rfl
@[simp] theorem builtin_appends_list (s t : List Val) : builtin "append..." [.list s, .list t] = some (.list (s ++ t)) := id rfl
@[simp] theorem builtin_min (a b : Int) : builtin "min" [.int a, .int b] = some (.int (min a b)) := id rfl
@[simp] theorem builtin_max (a b : Int) : builtin "max" [.int a, .int b] = some (.int (max a b)) := id rfl
@[simp] theorem builtin_indexByte (s : Bytes) (c : Int) :
    builtin "bytes.IndexByte" [.bytes s, .int c] = some (.int (indexByte s (UInt8.ofNat c.toNat))) := id rfl
@[simp] theorem builtin_lastIndexByte (s : Bytes) (c : Int) :
    builtin "strings.LastIndexByte" [.bytes s, .int c] = some (.int (lastIndexByte s (UInt8.ofNat c.toNat))) := id rfl
@[simp] theorem builtin_tuple (args : List Val) : builtin "tuple" args = some (.list args) := id rfl
/-- a name that is not a builtin (the hypothesis is closed by `by decide`) -/
theorem builtin_none (f : String) (args : List Val)
    (h : ¬ (f = "min" ∨ f = "max" ∨ f = "bytes.IndexByte" ∨ f = "strings.IndexByte" ∨ f = "strings.LastIndexByte" ∨
      f = "append" ∨ f = "append..." ∨ f = "tuple")) : builtin f args = none := by
  simp only [not_or] at h
  simp [builtin, h]

@[simp] theorem assignK_def (σ : State) (lhs : List LV) (msg : String) (vs : List Val) :
    assignK σ lhs msg vs = match σ.assign lhs vs with
      | some σ' => .normal σ'
      | none => .stuck msg := id rfl

/-! ## `for range` is a fold -/

/-- if every iteration of the body ends normally in the state the step function predicts, the range loop is a
    left fold.  The slice is `ys.map enc` (so the lemma can speak about well-shaped elements only); `abs` maps the
    abstract loop state to the concrete state *before* the loop variables are bound. -/
theorem rangeRun_fold {α β : Type} (body : State → Out) (k v : LV) (abs : α → State) (enc : β → Val)
    (step : α → Nat → β → α)
    (h : ∀ (a : α) (i : Nat) (y : β), body (((abs a).assign1 k (.int i)).assign1 v (enc y)) = .normal (abs (step a i y))) :
    ∀ (ys : List β) (i : Nat) (a : α),
      rangeRun body k v (ys.map enc) i (abs a) = .normal (abs ((ys.zipIdx i).foldl (fun a p => step a p.2 p.1) a))
  | [], _, _ => rfl
  | y :: ys, i, a => by
    simp only [List.map_cons, rangeRun, h, List.zipIdx_cons, List.foldl_cons]
    exact rangeRun_fold body k v abs enc step h ys (i + 1) (step a i y)

/-- `rangeRun_fold` for bodies that read the ranged slice through its index (`for i := range xs { … xs[i] … }`): the
    step hypothesis may use that `y` IS the element at position `i` of the whole slice `all`. -/
theorem rangeRun_fold_at {α β : Type} (body : State → Out) (k v : LV) (abs : α → State) (enc : β → Val)
    (step : α → Nat → β → α) (all : List β)
    (h : ∀ (a : α) (i : Nat) (y : β), all[i]? = some y →
      body (((abs a).assign1 k (.int i)).assign1 v (enc y)) = .normal (abs (step a i y))) :
    ∀ (ys : List β) (i : Nat) (a : α), all.drop i = ys →
      rangeRun body k v (ys.map enc) i (abs a) = .normal (abs ((ys.zipIdx i).foldl (fun a p => step a p.2 p.1) a))
  | [], _, _, _ => rfl
  | y :: ys, i, a, hd => by
    have hy : all[i]? = some y := by
      have := congrArg (fun l => l[0]?) hd
      simpa using this
    have hd' : all.drop (i + 1) = ys := by
      have := congrArg (List.drop 1) hd
      simpa [List.drop_drop, Nat.add_comm] using this
    simp only [List.map_cons, rangeRun, h a i y hy, List.zipIdx_cons, List.foldl_cons]
    exact rangeRun_fold_at body k v abs enc step all h ys (i + 1) (step a i y) hd'

theorem zipIdx_map_fst {β γ : Type} (f : β → γ) : ∀ (l : List β) (k : Nat), (l.zipIdx k).map (fun q => f q.1) = l.map f
  | [], _ => rfl
  | b :: l, k => by simp [List.zipIdx_cons, zipIdx_map_fst f l (k + 1)]

theorem zipIdx_flatMap_fst {β γ : Type} (f : β → List γ) :
    ∀ (l : List β) (k : Nat), (l.zipIdx k).flatMap (fun q => f q.1) = l.flatMap f
  | [], _ => rfl
  | b :: l, k => by simp [List.zipIdx_cons, zipIdx_flatMap_fst f l (k + 1)]

theorem indexVal_list_map {β : Type} (enc : β → Val) (all : List β) (i : Nat) (y : β) (h : all[i]? = some y) :
    indexVal (.list (all.map enc)) (.int i) = .ok (enc y) := by
  have hlt : i < all.length := by
    rcases Nat.lt_or_ge i all.length with hl | hl
    · exact hl
    · rw [List.getElem?_eq_none hl] at h; cases h
  rw [indexVal_list _ i (by simpa using hlt)]
  simp [List.getElem?_eq_getElem hlt] at h
  simp [h]

/-! ## counted / conditional loops under an invariant -/

/-- A loop whose iterations neither break nor return.  `abs` maps an abstract loop state to the concrete state at
    the loop head; `inv` is an invariant.  If, from every abstract state `a` satisfying `inv` in which the condition
    holds, one iteration (body, then post) continues the loop in `abs (next a)` and the measure decreases, then the
    loop ends normally in `abs (last a)`, where `last` is any function satisfying the two recursion equations.
    `g` is the fuel the body itself needs (for calls and inner loops).  `execS_loop` is deliberately not a simp
    lemma: symbolic execution stops at a loop, and an instance of this lemma takes it from there. -/
theorem loop_fold {α : Type} (X : Ctx) (c : Expr) (post body : Stmt) (g : Nat)
    (abs : α → State) (inv : α → Prop) (cnd : α → Bool) (next last : α → α) (m : α → Nat)
    (hc : ∀ a, inv a → evalE X (abs a) c = .ok (.bool (cnd a)))
    (hb : ∀ a fuel, inv a → cnd a = true →
      (execS X (exec X (fuel + g)) body (abs a)).loopBody (fun σ' => (execS X (exec X (fuel + g)) post σ').loopPost
        (exec X (fuel + g) (.loop c post body))) = exec X (fuel + g) (.loop c post body) (abs (next a)))
    (hi : ∀ a, inv a → cnd a = true → inv (next a))
    (hm : ∀ a, inv a → cnd a = true → m (next a) < m a)
    (hl0 : ∀ a, inv a → cnd a = false → last a = a)
    (hl1 : ∀ a, inv a → cnd a = true → last a = last (next a)) :
    ∀ (n : Nat) (a : α) (fuel : Nat), inv a → m a ≤ n →
      execS X (exec X (fuel + n + g)) (.loop c post body) (abs a) = .normal (abs (last a))
  | 0, a, fuel, ha, hn => by
    have hca : cnd a = false := by
      cases hca : cnd a
      · rfl
      · have := hm a ha hca; omega
    simp [execS_loop, hc a ha, hca, hl0 a ha]
  | n + 1, a, fuel, ha, hn => by
    cases hca : cnd a
    · simp [execS_loop, hc a ha, hca, hl0 a ha]
    · have ih := loop_fold X c post body g abs inv cnd next last m hc hb hi hm hl0 hl1 n (next a) fuel (hi a ha hca)
        (by have := hm a ha hca; omega)
      rw [execS_loop]
      simp only [hc a ha, Res.out_ok, condK_bool, hca, if_true]
      rw [hb a (fuel + (n + 1)) ha hca, show fuel + (n + 1) + g = fuel + n + g + 1 by omega, exec_succ, ih, hl1 a ha hca]

/-- the parts of a loop statement (so that lemmas about one iteration can be stated without repeating the term) -/
def Stmt.lcond : Stmt → Expr
  | .loop c _ _ => c
  | _ => .lit (.bool false)
def Stmt.lpost : Stmt → Stmt
  | .loop _ p _ => p
  | _ => .skip
def Stmt.lbody : Stmt → Stmt
  | .loop _ _ b => b
  | _ => .skip

/-- the first statement of a sequence / the rest: `s.tl.tl.hd` is the third top-level statement of a generated body -/
def Stmt.hd : Stmt → Stmt
  | .seq a _ => a
  | s => s
def Stmt.tl : Stmt → Stmt
  | .seq _ b => b
  | _ => .skip

def Stmt.rbody : Stmt → Stmt
  | .range _ _ _ b => b
  | _ => .skip

/-- The relational form of `loop_fold`, for loops whose final state is best described by an invariant: the loop
    ends normally in some abstract state that satisfies the invariant and falsifies the condition. -/
theorem loop_inv {α : Type} (X : Ctx) (c : Expr) (post body : Stmt) (g : Nat)
    (abs : α → State) (inv : α → Prop) (cnd : α → Bool) (next : α → α) (m : α → Nat)
    (hc : ∀ a, inv a → evalE X (abs a) c = .ok (.bool (cnd a)))
    (hb : ∀ a fuel, inv a → cnd a = true →
      (execS X (exec X (fuel + g)) body (abs a)).loopBody (fun σ' => (execS X (exec X (fuel + g)) post σ').loopPost
        (exec X (fuel + g) (.loop c post body))) = exec X (fuel + g) (.loop c post body) (abs (next a)))
    (hi : ∀ a, inv a → cnd a = true → inv (next a))
    (hm : ∀ a, inv a → cnd a = true → m (next a) < m a) :
    ∀ (n : Nat) (a : α) (fuel : Nat), inv a → m a ≤ n →
      ∃ a', execS X (exec X (fuel + n + g)) (.loop c post body) (abs a) = .normal (abs a') ∧ inv a' ∧ cnd a' = false
  | 0, a, fuel, ha, hn => by
    have hca : cnd a = false := by
      cases hca : cnd a
      · rfl
      · have := hm a ha hca; omega
    exact ⟨a, by simp [execS_loop, hc a ha, hca], ha, hca⟩
  | n + 1, a, fuel, ha, hn => by
    cases hca : cnd a
    · exact ⟨a, by simp [execS_loop, hc a ha, hca], ha, hca⟩
    · obtain ⟨a', h1, h2, h3⟩ := loop_inv X c post body g abs inv cnd next m hc hb hi hm n (next a) fuel (hi a ha hca)
        (by have := hm a ha hca; omega)
      refine ⟨a', ?_, h2, h3⟩
      rw [execS_loop]
      simp only [hc a ha, Res.out_ok, condK_bool, hca, if_true]
      rw [hb a (fuel + (n + 1)) ha hca, show fuel + (n + 1) + g = fuel + n + g + 1 by omega, exec_succ, h1]

end ZapVerif.GoMini
