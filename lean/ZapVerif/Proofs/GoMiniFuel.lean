import ZapVerif.Proofs.GoMini
/-! Fuel monotonicity of the GoMini interpreter: an execution that does not run out of fuel is unchanged by more
    fuel.  (The `…_matches_source` theorems are stated for `fuel + k`, i.e. for every amount of fuel from a bound on;
    this is the generic fact behind that shape, and it makes `Out.oof` the only fuel-dependent outcome.) -/
namespace ZapVerif.GoMini

/-- `r'` agrees with `r` wherever `r` does not run out of fuel -/
def RecLe (r r' : Stmt → State → Out) : Prop := ∀ s σ, r s σ ≠ .oof → r' s σ = r s σ

theorem rangeRun_mono (b b' : State → Out) (k v : LV) (hb : ∀ σ, b σ ≠ .oof → b' σ = b σ) :
    ∀ (xs : List Val) (i : Nat) (σ : State), rangeRun b k v xs i σ ≠ .oof → rangeRun b' k v xs i σ = rangeRun b k v xs i σ
  | [], _, _, _ => rfl
  | x :: xs, i, σ, hne => by
    simp only [rangeRun] at hne ⊢
    cases hbo : b ((σ.assign1 k (.int i)).assign1 v x) with
    | oof => rw [hbo] at hne; exact absurd rfl hne
    | normal σ' => rw [hbo] at hne; rw [hb _ (by rw [hbo]; simp), hbo]; exact rangeRun_mono b b' k v hb xs (i + 1) σ' hne
    | cont σ' => rw [hbo] at hne; rw [hb _ (by rw [hbo]; simp), hbo]; exact rangeRun_mono b b' k v hb xs (i + 1) σ' hne
    | brk σ' => rw [hb _ (by rw [hbo]; simp), hbo]
    | ret vs σ' => rw [hb _ (by rw [hbo]; simp), hbo]
    | panic p => rw [hb _ (by rw [hbo]; simp), hbo]
    | stuck w => rw [hb _ (by rw [hbo]; simp), hbo]

mutual
theorem execS_mono (X : Ctx) (r r' : Stmt → State → Out) (h : RecLe r r') :
    ∀ (s : Stmt) (σ : State), execS X r s σ ≠ .oof → execS X r' s σ = execS X r s σ
  | .skip, σ, _ => by simp
  | .brk, σ, _ => by simp
  | .cont, σ, _ => by simp
  | .assign lhs rhs, σ, _ => by simp only [execS_assign]
  | .callX lhs f args, σ, _ => by simp only [execS_callX]
  | .ret es, σ, _ => by simp only [execS_ret]
  | .seq a b, σ, hne => by
    rw [execS_seq] at hne ⊢
    rw [execS_seq]
    have ha := execS_mono X r r' h a σ
    cases hao : execS X r a σ with
    | oof => rw [hao] at hne; exact absurd rfl hne
    | normal σ' =>
      rw [hao] at hne ha
      rw [ha (by simp)]
      simp only [Out.andThen_normal] at hne ⊢
      exact execS_mono X r r' h b σ' hne
    | brk σ' => rw [hao] at ha; rw [ha (by simp)]; rfl
    | cont σ' => rw [hao] at ha; rw [ha (by simp)]; rfl
    | ret vs σ' => rw [hao] at ha; rw [ha (by simp)]; rfl
    | panic p => rw [hao] at ha; rw [ha (by simp)]; rfl
    | stuck w => rw [hao] at ha; rw [ha (by simp)]; rfl
  | .ite c t e, σ, hne => by
    rw [execS_ite] at hne ⊢
    rw [execS_ite]
    cases hc : evalE X σ c with
    | panic p => simp
    | stuck w => simp
    | ok v =>
      rw [hc] at hne
      simp only [Res.out_ok] at hne ⊢
      cases v with
      | bool b =>
        cases b
        · simp only [condK_bool, Bool.false_eq_true, if_false] at hne ⊢
          exact execS_mono X r r' h e σ hne
        · simp only [condK_bool, if_true] at hne ⊢
          exact execS_mono X r r' h t σ hne
      | int _ => rfl
      | bytes _ => rfl
      | list _ => rfl
  | .switch tag cs, σ, hne => by
    rw [execS_switch] at hne ⊢
    rw [execS_switch]
    cases hc : evalE X σ tag with
    | panic p => simp
    | stuck w => simp
    | ok v =>
      rw [hc] at hne
      simp only [Res.out_ok] at hne ⊢
      have hcs := execC_mono X r r' h v cs σ
      cases hco : execC X r v cs σ with
      | oof => rw [hco] at hne; exact absurd rfl hne
      | normal σ' => rw [hco] at hcs; rw [hcs (by simp)]
      | brk σ' => rw [hco] at hcs; rw [hcs (by simp)]
      | cont σ' => rw [hco] at hcs; rw [hcs (by simp)]
      | ret vs σ' => rw [hco] at hcs; rw [hcs (by simp)]
      | panic p => rw [hco] at hcs; rw [hcs (by simp)]
      | stuck w => rw [hco] at hcs; rw [hcs (by simp)]
  | .call lhs f args, σ, hne => by
    rw [execS_call] at hne ⊢
    rw [execS_call]
    cases hc : evalEs X σ args with
    | panic p => simp
    | stuck w => simp
    | ok vs =>
      rw [hc] at hne
      simp only [Res.out_ok] at hne ⊢
      cases hf : X.funs f with
      | none => rfl
      | some fn =>
        rw [hf] at hne
        simp only at hne ⊢
        by_cases hl : fn.params.length = vs.length
        · simp only [hl, if_true] at hne ⊢
          have hr := h fn.body { loc := fn.params.zip vs ++ fn.named, fld := σ.fld }
          cases hro : r fn.body { loc := fn.params.zip vs ++ fn.named, fld := σ.fld } with
          | oof => rw [hro] at hne; exact absurd rfl hne
          | normal σ' => rw [hro] at hr; rw [hr (by simp)]
          | brk σ' => rw [hro] at hr; rw [hr (by simp)]
          | cont σ' => rw [hro] at hr; rw [hr (by simp)]
          | ret vs σ' => rw [hro] at hr; rw [hr (by simp)]
          | panic p => rw [hro] at hr; rw [hr (by simp)]
          | stuck w => rw [hro] at hr; rw [hr (by simp)]
        · simp only [hl, if_false]
  | .loop c post body, σ, hne => by
    rw [execS_loop] at hne ⊢
    rw [execS_loop]
    cases hc : evalE X σ c with
    | panic p => simp
    | stuck w => simp
    | ok v =>
      rw [hc] at hne
      simp only [Res.out_ok] at hne ⊢
      cases v with
      | int _ => rfl
      | bytes _ => rfl
      | list _ => rfl
      | bool b =>
        cases b
        · simp
        · simp only [condK_bool, if_true] at hne ⊢
          have hb := execS_mono X r r' h body σ
          cases hbo : execS X r body σ with
          | oof => rw [hbo] at hne; exact absurd rfl hne
          | brk σ' => rw [hbo] at hb; rw [hb (by simp)]; rfl
          | ret vs σ' => rw [hbo] at hb; rw [hb (by simp)]; rfl
          | panic p => rw [hbo] at hb; rw [hb (by simp)]; rfl
          | stuck w => rw [hbo] at hb; rw [hb (by simp)]; rfl
          | normal σ' =>
            rw [hbo] at hb hne
            rw [hb (by simp)]
            simp only [Out.loopBody_normal] at hne ⊢
            have hp := execS_mono X r r' h post σ'
            cases hpo : execS X r post σ' with
            | oof => rw [hpo] at hne; exact absurd rfl hne
            | normal σ'' =>
              rw [hpo] at hp hne
              rw [hp (by simp)]
              simp only [Out.loopPost_normal] at hne ⊢
              exact h _ _ hne
            | brk σ'' => rw [hpo] at hp; rw [hp (by simp)]; rfl
            | cont σ'' => rw [hpo] at hp; rw [hp (by simp)]; rfl
            | ret vs σ'' => rw [hpo] at hp; rw [hp (by simp)]; rfl
            | panic p => rw [hpo] at hp; rw [hp (by simp)]; rfl
            | stuck w => rw [hpo] at hp; rw [hp (by simp)]; rfl
          | cont σ' =>
            rw [hbo] at hb hne
            rw [hb (by simp)]
            simp only [Out.loopBody_cont] at hne ⊢
            have hp := execS_mono X r r' h post σ'
            cases hpo : execS X r post σ' with
            | oof => rw [hpo] at hne; exact absurd rfl hne
            | normal σ'' =>
              rw [hpo] at hp hne
              rw [hp (by simp)]
              simp only [Out.loopPost_normal] at hne ⊢
              exact h _ _ hne
            | brk σ'' => rw [hpo] at hp; rw [hp (by simp)]; rfl
            | cont σ'' => rw [hpo] at hp; rw [hp (by simp)]; rfl
            | ret vs σ'' => rw [hpo] at hp; rw [hp (by simp)]; rfl
            | panic p => rw [hpo] at hp; rw [hp (by simp)]; rfl
            | stuck w => rw [hpo] at hp; rw [hp (by simp)]; rfl
  | .range k v xs body, σ, hne => by
    rw [execS_range] at hne ⊢
    rw [execS_range]
    cases hc : evalE X σ xs with
    | panic p => simp
    | stuck w => simp
    | ok val =>
      rw [hc] at hne
      simp only [Res.out_ok] at hne ⊢
      cases val with
      | int _ => rfl
      | bool _ => rfl
      | list vs => exact rangeRun_mono _ _ k v (fun σ' => execS_mono X r r' h body σ') vs 0 σ hne
      | bytes bs => exact rangeRun_mono _ _ k v (fun σ' => execS_mono X r r' h body σ') _ 0 σ hne
theorem execC_mono (X : Ctx) (r r' : Stmt → State → Out) (h : RecLe r r') (tag : Val) :
    ∀ (cs : Cases) (σ : State), execC X r tag cs σ ≠ .oof → execC X r' tag cs σ = execC X r tag cs σ
  | .default body, σ, hne => by
    rw [execC_default] at hne ⊢
    rw [execC_default]
    exact execS_mono X r r' h body σ hne
  | .case vals body rest, σ, hne => by
    rw [execC_case] at hne ⊢
    rw [execC_case]
    cases hm : matchCase X σ tag vals with
    | panic p => simp
    | stuck w => simp
    | ok b =>
      rw [hm] at hne
      simp only [Res.out_ok] at hne ⊢
      cases b
      · simp only [Bool.false_eq_true, if_false] at hne ⊢
        exact execC_mono X r r' h tag rest σ hne
      · simp only [if_true] at hne ⊢
        exact execS_mono X r r' h body σ hne
end

/-- one more unit of fuel changes nothing but an out-of-fuel outcome -/
theorem exec_succ_mono (X : Ctx) : ∀ fuel, RecLe (exec X fuel) (exec X (fuel + 1))
  | 0 => fun s σ hne => absurd rfl hne
  | fuel + 1 => fun s σ hne => execS_mono X _ _ (exec_succ_mono X fuel) s σ hne

/-- fuel monotonicity -/
theorem exec_mono (X : Ctx) (fuel extra : Nat) (s : Stmt) (σ : State) (h : exec X fuel s σ ≠ .oof) :
    exec X (fuel + extra) s σ = exec X fuel s σ := by
  induction extra with
  | zero => rfl
  | succ n ih =>
    rw [← Nat.add_assoc, exec_succ_mono X (fuel + n) s σ (by rw [ih]; exact h), ih]

end ZapVerif.GoMini
