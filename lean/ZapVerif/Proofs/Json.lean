import ZapVerif.Model.Json
/-! `parse_render`: decode ∘ encode = id on well-formed emitted trees. -/
namespace ZapVerif.Json
open ZapVerif ZapVerif.Esc

theorem sep44 (r : Bytes) : sepNext (44 :: r) := Or.inr ⟨44, r, rfl, by decide⟩
theorem sep93 (r : Bytes) : sepNext (93 :: r) := Or.inr ⟨93, r, rfl, by decide⟩
theorem sep125 (r : Bytes) : sepNext (125 :: r) := Or.inr ⟨125, r, rfl, by decide⟩

theorem size_pos : ∀ j : J, 1 ≤ size j
  | .str _ => by simp [size]
  | .atom _ => by simp [size]
  | .arr _ => by simp [size]; omega
  | .obj _ => by simp [size]; omega

/-- first byte of a rendered well-formed value: never `]` or `}` -/
theorem skipSp_cons (c : UInt8) (r : Bytes) (h : c ≠ 32) : skipSp (c :: r) = c :: r := by
  unfold skipSp
  split
  · rename_i heq; injection heq with h1 _; exact absurd h1 h
  · rfl

theorem render_head (j : J) (h : WFj j) : ∃ c r, render j = c :: r ∧ c ≠ 93 ∧ c ≠ 125 ∧ c ≠ 32 := by
  cases j with
  | str b => exact ⟨34, b ++ [34], by simp [render], by decide, by decide, by decide⟩
  | atom t =>
    obtain ⟨hne, hall⟩ := (by simpa [WFj] using h : atomOK t)
    cases t with
    | nil => exact absurd rfl hne
    | cons c r =>
      have hc := hall c (by simp)
      refine ⟨c, r, by simp [render], ?_, ?_, ?_⟩ <;> (rintro rfl; simp [tokenChar] at hc)
  | arr xs => exact ⟨91, renderElems xs ++ [93], by simp [render], by decide, by decide, by decide⟩
  | obj kvs => exact ⟨123, renderMembers kvs ++ [125], by simp [render], by decide, by decide, by decide⟩

theorem skipSp_render (v : J) (hw : WFj v) (rest : Bytes) : skipSp (render v ++ rest) = render v ++ rest := by
  obtain ⟨c, r, hr, _, _, h32⟩ := render_head v hw
  rw [hr, List.cons_append]; exact skipSp_cons c _ h32

theorem skipSp_elems (y : J) (r : List J) (hw : WFj y) (rest : Bytes) :
    skipSp (renderElems (y :: r) ++ rest) = renderElems (y :: r) ++ rest := by
  obtain ⟨c, tl, hr, _, _, h32⟩ := render_head y hw
  cases r with
  | nil => simp only [renderElems, hr, List.cons_append]; exact skipSp_cons c _ h32
  | cons z r' => simp only [renderElems, hr, List.cons_append]; exact skipSp_cons c _ h32

theorem skipSp_members (y : Bytes × J) (r : List (Bytes × J)) (rest : Bytes) :
    skipSp (renderMembers (y :: r) ++ rest) = renderMembers (y :: r) ++ rest := by
  obtain ⟨k, v⟩ := y
  cases r with
  | nil => simp only [renderMembers, List.cons_append]; exact skipSp_cons 34 _ (by decide)
  | cons z r' => simp only [renderMembers, List.cons_append]; exact skipSp_cons 34 _ (by decide)

mutual
theorem parseV_render : ∀ (j : J) (fuel : Nat) (rest : Bytes),
    WFj j → sepNext rest → size j ≤ fuel → parseV fuel (render j ++ rest) = some (j, rest)
  | .str b, fuel, rest, hw, _, hf => by
      cases fuel with
      | zero => simp [size] at hf
      | succ f =>
        simp only [render, List.cons_append, parseV, if_true]
        have := scanStr_body 0 [] b rest (by simpa [WFj] using hw)
        simp only [List.append_assoc, List.cons_append, List.nil_append] at this ⊢
        rw [this]; simp
  | .atom t, fuel, rest, hw, hs, hf => by
      obtain ⟨hne, hall⟩ := (by simpa [WFj] using hw : atomOK t)
      cases fuel with
      | zero => simp [size] at hf
      | succ f =>
        cases t with
        | nil => exact absurd rfl hne
        | cons c r =>
          have hc := hall c (by simp)
          have h34 : c ≠ 34 := by rintro rfl; simp [tokenChar] at hc
          have h91 : c ≠ 91 := by rintro rfl; simp [tokenChar] at hc
          have h123 : c ≠ 123 := by rintro rfl; simp [tokenChar] at hc
          simp only [render, List.cons_append, parseV, h34, h91, h123, if_false, hc, if_true]
          have := spanTok_atom [] (c :: r) rest hall hs
          simp only [List.cons_append, List.nil_append] at this
          rw [this]
  | .arr xs, fuel, rest, hw, _, hf => by
      cases fuel with
      | zero => simp [size] at hf
      | succ f =>
        have hwl : WFl xs := by simpa [WFj] using hw
        cases xs with
        | nil => simp [render, renderElems, parseV]
        | cons x r =>
          have hx : WFj x := by simp [WFl] at hwl; exact hwl.1
          obtain ⟨c, tl, hr, hc93, _⟩ := render_head x hx
          have hhead : ∃ c' tl', renderElems (x :: r) ++ 93 :: rest = c' :: tl' ∧ c' ≠ 93 := by
            cases r with
            | nil => exact ⟨c, tl ++ 93 :: rest, by simp [renderElems, hr], hc93⟩
            | cons y r' => exact ⟨c, tl ++ 44 :: (renderElems (y :: r') ++ 93 :: rest), by simp [renderElems, hr], hc93⟩
          obtain ⟨c', tl', hre, hc'⟩ := hhead
          have hsz : sizeL (x :: r) ≤ f := by simp [size] at hf; omega
          have key := parseElems_render (x :: r) (by simp) f [] rest hwl hsz
          simp only [render, List.cons_append, List.append_assoc, List.nil_append, parseV]
          simp only [show (91 : UInt8) ≠ 34 by decide, if_false, if_true]
          rw [hre] at key ⊢
          simp only [List.nil_append] at key
          split
          · rename_i r' heq; injection heq with h1 _; exact absurd h1 hc'
          · exact key
  | .obj kvs, fuel, rest, hw, _, hf => by
      cases fuel with
      | zero => simp [size] at hf
      | succ f =>
        have hwm : WFm kvs := by simpa [WFj] using hw
        cases kvs with
        | nil => simp [render, renderMembers, parseV]
        | cons kv r =>
          obtain ⟨k, v⟩ := kv
          have hhead : ∃ tl', renderMembers ((k, v) :: r) ++ 125 :: rest = 34 :: tl' := by
            cases r with
            | nil => exact ⟨_, by simp [renderMembers]; rfl⟩
            | cons y r' => exact ⟨_, by simp [renderMembers]; rfl⟩
          obtain ⟨tl', hre⟩ := hhead
          have hsz : sizeM ((k, v) :: r) ≤ f := by simp [size] at hf; omega
          have key := parseMembers_render ((k, v) :: r) (by simp) f [] rest hwm hsz
          simp only [render, List.cons_append, List.append_assoc, List.nil_append, parseV]
          simp only [show (123 : UInt8) ≠ 34 by decide, show (123 : UInt8) ≠ 91 by decide, if_false, if_true]
          rw [hre] at key ⊢
          simp only [List.nil_append] at key
          split
          · rename_i r' heq; injection heq with h1 _; exact absurd h1 (by decide)
          · exact key
theorem parseElems_render : ∀ (xs : List J) (_ : xs ≠ []) (fuel : Nat) (acc : List J) (rest : Bytes),
    WFl xs → sizeL xs ≤ fuel →
    parseElems fuel acc (renderElems xs ++ 93 :: rest) = some (.arr (acc ++ xs), rest)
  | [], hne, _, _, _, _, _ => absurd rfl hne
  | [x], _, fuel, acc, rest, hw, hf => by
      cases fuel with
      | zero => simp [sizeL] at hf
      | succ f =>
        have hx : WFj x := by simp [WFl] at hw; exact hw
        have hsz : size x ≤ f := by simp [sizeL] at hf; omega
        simp only [renderElems, parseElems]
        rw [parseV_render x f (93 :: rest) hx (sep93 rest) hsz]
        simp
  | x :: y :: r, _, fuel, acc, rest, hw, hf => by
      cases fuel with
      | zero => simp [sizeL] at hf
      | succ f =>
        have hw' : WFj x ∧ WFl (y :: r) := by simpa [WFl] using hw
        have h1 : size x ≤ f := by simp [sizeL] at hf ⊢; omega
        have h2 : sizeL (y :: r) ≤ f := by simp [sizeL] at hf ⊢; omega
        simp only [renderElems, parseElems, List.append_assoc, List.cons_append]
        rw [parseV_render x f _ hw'.1 (sep44 _) h1]
        simp only []
        rw [skipSp_elems y r (by simpa [WFl] using hw'.2.1) _]
        rw [parseElems_render (y :: r) (by simp) f (acc ++ [x]) rest hw'.2 h2]
        simp
theorem parseMembers_render : ∀ (kvs : List (Bytes × J)) (_ : kvs ≠ []) (fuel : Nat)
    (acc : List (Bytes × J)) (rest : Bytes),
    WFm kvs → sizeM kvs ≤ fuel →
    parseMembers fuel acc (renderMembers kvs ++ 125 :: rest) = some (.obj (acc ++ kvs), rest)
  | [], hne, _, _, _, _, _ => absurd rfl hne
  | [(k, v)], _, fuel, acc, rest, hw, hf => by
      cases fuel with
      | zero => simp [sizeM] at hf
      | succ f =>
        have hw' : runD 0 k = some 0 ∧ WFj v := by simpa [WFm] using hw
        have hsz : size v ≤ f := by simp [sizeM] at hf; omega
        simp only [renderMembers, parseMembers, List.append_assoc, List.cons_append]
        rw [scanStr_body 0 [] k _ hw'.1]
        simp only [List.nil_append]
        rw [skipSp_render v hw'.2]
        rw [parseV_render v f (125 :: rest) hw'.2 (sep125 rest) hsz]
        simp
  | (k, v) :: y :: r, _, fuel, acc, rest, hw, hf => by
      cases fuel with
      | zero => simp [sizeM] at hf
      | succ f =>
        have hw' : runD 0 k = some 0 ∧ WFj v ∧ WFm (y :: r) := by simpa [WFm] using hw
        have h1 : size v ≤ f := by simp [sizeM] at hf ⊢; omega
        have h2 : sizeM (y :: r) ≤ f := by simp [sizeM] at hf ⊢; omega
        simp only [renderMembers, parseMembers, List.append_assoc, List.cons_append]
        rw [scanStr_body 0 [] k _ hw'.1]
        simp only [List.nil_append]
        rw [skipSp_render v hw'.2.1]
        rw [parseV_render v f _ hw'.2.1 (sep44 _) h1]
        simp only []
        rw [skipSp_members y r _]
        rw [parseMembers_render (y :: r) (by simp) f (acc ++ [(k, v)]) rest hw'.2.2 h2]
        simp
end

/-- C02 core: decoding what was rendered yields exactly the tree, in order, at the right nesting,
    duplicates preserved -/
theorem parse_render (j : J) (h : WFj j) : parseV (size j) (render j) = some (j, []) := by
  have := parseV_render j (size j) [] h (Or.inl rfl) (Nat.le_refl _)
  simpa using this

end ZapVerif.Json
