import ZapVerif.Model.MapEnc
import ZapVerif.Proofs.Spaced
/-! the map encoder's nesting is the last-wins map of the tree the JSON encoder denotes -/
namespace ZapVerif.MapEnc
open ZapVerif ZapVerif.Json ZapVerif.Enc ZapVerif.Entry

mutual
/-- last-wins map of a (marked) JSON tree: structure made by encoder calls is followed, leaves are opaque -/
def toMapV : T → MV
  | .leaf _ => MV.leaf
  | .arr xs => MV.arr (toMapL xs)
  | .obj kvs => MV.obj (toMapM [] kvs)
def toMapL : List T → List MV
  | [] => []
  | x :: r => toMapV x :: toMapL r
def toMapM (acc : List (Bytes × MV)) : List (Bytes × T) → List (Bytes × MV)
  | [] => acc
  | (k, v) :: r => toMapM (put k (toMapV v) acc) r
end

mutual
theorem mapFrom_eq : ∀ (calls : List OC) (acc : List (Bytes × MV)),
    mapFrom esc acc calls = toMapM acc (denTO calls)
  | [], acc => by simp [mapFrom, denTO, toMapM]
  | OC.prim k v :: r, acc => by
      simp only [mapFrom, denTO, toMapM, toMapV]; exact mapFrom_eq r _
  | OC.obj k body :: r, acc => by
      simp only [mapFrom, denTO, toMapM, toMapV, mapFrom_eq body []]; exact mapFrom_eq r _
  | OC.arr k body :: r, acc => by
      simp only [mapFrom, denTO, toMapM, toMapV, mapArr_eq body]; exact mapFrom_eq r _
  | OC.ns k :: r, acc => by
      simp only [mapFrom, denTO, toMapM, toMapV, mapFrom_eq r []]
theorem mapArr_eq : ∀ (calls : List AC), mapArr esc calls = toMapL (denTA calls)
  | [] => by simp [mapArr, denTA, toMapL]
  | AC.prim v :: r => by simp only [mapArr, denTA, toMapL, toMapV, mapArr_eq r]
  | AC.obj body :: r => by simp only [mapArr, denTA, toMapL, toMapV, mapFrom_eq body [], mapArr_eq r]
  | AC.arr body :: r => by simp only [mapArr, denTA, toMapL, toMapV, mapArr_eq body, mapArr_eq r]
end

end ZapVerif.MapEnc
