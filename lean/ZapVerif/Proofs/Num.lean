import ZapVerif.Model.Entry
/-! integers over the full range are recoverable from their decimal text -/
namespace ZapVerif.Entry
open ZapVerif

def natOf (bs : Bytes) : Nat := bs.foldl (fun acc c => acc * 10 + (c.toNat - 48)) 0

def intOf : Bytes → Int
  | 45 :: r => - (natOf r : Int)
  | bs => (natOf bs : Int)

theorem natOf_snoc (a : Bytes) (c : UInt8) : natOf (a ++ [c]) = natOf a * 10 + (c.toNat - 48) := by
  simp [natOf, List.foldl_append]

theorem digit_val : ∀ d ∈ List.range 10, (UInt8.ofNat (48 + d)).toNat - 48 = d := by decide

theorem digit_ne_minus : ∀ d ∈ List.range 10, UInt8.ofNat (48 + d) ≠ 45 := by decide

theorem natOf_digits (f n : Nat) (h : n < 10 ^ f) : natOf (digits f n) = n := by
  induction f generalizing n with
  | zero => simp at h; subst h; simp [digits, natOf]
  | succ f ih =>
    simp only [digits]
    split
    · rename_i hlt
      have := digit_val n (List.mem_range.mpr hlt)
      simp only [natOf, List.foldl_cons, List.foldl_nil, Nat.zero_mul, Nat.zero_add]
      exact this
    · rename_i hge
      rw [natOf_snoc, digit_val (n % 10) (List.mem_range.mpr (Nat.mod_lt _ (by decide)))]
      have hdiv : n / 10 < 10 ^ f := by
        rw [Nat.pow_succ] at h
        exact Nat.div_lt_of_lt_mul (by rw [Nat.mul_comm]; exact h)
      rw [ih _ hdiv]
      omega

theorem natOf_fmtNat (n : Nat) : natOf (fmtNat n) = n := by
  apply natOf_digits
  calc n < 10 ^ n := Nat.lt_pow_self (by decide)
    _ ≤ 10 ^ (n + 1) := Nat.pow_le_pow_right (by decide) (Nat.le_succ n)

theorem fmtNat_head (n : Nat) : ∀ c r, fmtNat n = c :: r → c ≠ 45 := by
  intro c r h
  have := digits_head (n + 1) n c r (by simpa [fmtNat] using h)
  exact this
where
  digits_head : ∀ (f n : Nat) (c : UInt8) (r : Bytes), digits f n = c :: r → c ≠ 45
    | 0, _, _, _, h => by simp [digits] at h
    | f + 1, n, c, r, h => by
      simp only [digits] at h
      split at h
      · rename_i hlt
        injection h with h1 _
        rw [← h1]; exact digit_ne_minus n (List.mem_range.mpr hlt)
      · cases hd : digits f (n / 10) with
        | nil =>
          rw [hd] at h
          simp only [List.nil_append] at h
          injection h with h1 _
          rw [← h1]; exact digit_ne_minus (n % 10) (List.mem_range.mpr (Nat.mod_lt _ (by decide)))
        | cons x t =>
          rw [hd] at h
          simp only [List.cons_append] at h
          injection h with h1 _
          rw [← h1]; exact digits_head f (n / 10) x t hd

/-- C02, integers: every Int (so in particular the whole signed and unsigned 64-bit range) is recovered exactly
    from the text the encoder writes -/
theorem intOf_fmtInt (i : Int) : intOf (fmtInt i) = i := by
  unfold fmtInt
  split
  · rename_i hneg
    simp only [intOf, natOf_fmtNat]
    omega
  · rename_i hpos
    cases hf : fmtNat i.natAbs with
    | nil => exact absurd hf (by simp [fmtNat, digits]; split <;> simp)
    | cons c r =>
      have hc := fmtNat_head i.natAbs c r hf
      have : intOf (c :: r) = (natOf (c :: r) : Int) := by
        unfold intOf
        split
        · rename_i heq; injection heq with h1 _; exact absurd h1 hc
        · rfl
      rw [this, ← hf, natOf_fmtNat]
      omega

theorem natOf_fmtNat' (n : Nat) : natOf (fmtNat n) = n := natOf_fmtNat n

end ZapVerif.Entry
