import ZapVerif.Model.OpenBuild
/-! helper lemmas for C19 -/
namespace ZapVerif.OpenBuild
open ZapVerif

theorem openedIdx_all (i : Nat) (outs : List Bool) (h : outs.all id = true) :
    openedIdx i outs = List.range' i outs.length := by
  induction outs generalizing i with
  | nil => simp [openedIdx]
  | cons b r ih =>
    simp only [List.all_cons, Bool.and_eq_true, id] at h
    obtain ⟨hb, hr⟩ := h
    subst hb
    simp [openedIdx, ih (i + 1) hr, List.range'_succ]

theorem openedIdx_nodup (i : Nat) (outs : List Bool) : (openedIdx i outs).Nodup ∧ ∀ j ∈ openedIdx i outs, i ≤ j := by
  induction outs generalizing i with
  | nil => simp [openedIdx]
  | cons b r ih =>
    obtain ⟨h1, h2⟩ := ih (i + 1)
    cases b
    · simp only [openedIdx]
      exact ⟨h1, fun j hj => Nat.le_of_succ_le (h2 j hj)⟩
    · simp only [openedIdx, List.nodup_cons, List.mem_cons]
      refine ⟨⟨fun hm => ?_, h1⟩, ?_⟩
      · have := h2 i hm; omega
      · rintro j (rfl | hj)
        · exact Nat.le_refl _
        · exact Nat.le_of_succ_le (h2 j hj)

/-- position `j` opened iff `outs[j] = true` -/
theorem mem_openedIdx (i : Nat) (outs : List Bool) (j : Nat) :
    j ∈ openedIdx i outs ↔ i ≤ j ∧ outs[j - i]? = some true := by
  induction outs generalizing i with
  | nil => simp [openedIdx]
  | cons b r ih =>
    cases b
    · simp only [openedIdx, ih (i + 1)]
      constructor
      · rintro ⟨h1, h2⟩
        refine ⟨by omega, ?_⟩
        have : j - i = (j - (i + 1)) + 1 := by omega
        rw [this]; simpa using h2
      · rintro ⟨h1, h2⟩
        by_cases hji : j = i
        · subst hji; simp at h2
        · refine ⟨by omega, ?_⟩
          have : j - i = (j - (i + 1)) + 1 := by omega
          rw [this] at h2; simpa using h2
    · simp only [openedIdx, List.mem_cons, ih (i + 1)]
      constructor
      · rintro (rfl | ⟨h1, h2⟩)
        · simp
        · refine ⟨by omega, ?_⟩
          have : j - i = (j - (i + 1)) + 1 := by omega
          rw [this]; simpa using h2
      · rintro ⟨h1, h2⟩
        by_cases hji : j = i
        · exact Or.inl hji
        · right
          refine ⟨by omega, ?_⟩
          have : j - i = (j - (i + 1)) + 1 := by omega
          rw [this] at h2; simpa using h2

theorem all256 (P : UInt8 → Prop) (h : ∀ n : Fin 256, P (UInt8.ofNat n)) : ∀ b, P b := by
  intro b
  have := h ⟨b.toNat, b.toNat_lt⟩
  simpa using this

theorem asciiLower_idem : ∀ c : UInt8, asciiLower (asciiLower c) = asciiLower c := by
  apply all256; decide +kernel

theorem lowerBytes_idem (s : Bytes) : lowerBytes (lowerBytes s) = lowerBytes s := by
  have h := asciiLower_idem
  simp [lowerBytes, List.map_map, Function.comp_def, h]

theorem lookup_append_none {α β} [BEq α] (l : List (α × β)) (k a : α) (b : β) (h : l.lookup k = none) :
    (l ++ [(a, b)]).lookup k = if k == a then some b else none := by
  induction l with
  | nil => simp [List.lookup]; split <;> simp_all
  | cons p r ih =>
    obtain ⟨x, y⟩ := p
    simp only [List.lookup, List.cons_append] at h ⊢
    cases hx : k == x
    · simp only [hx] at h; exact ih h
    · simp [hx] at h

theorem lookup_append_some {α β} [BEq α] (l : List (α × β)) (k a : α) (b v : β) (h : l.lookup k = some v) :
    (l ++ [(a, b)]).lookup k = some v := by
  induction l with
  | nil => simp [List.lookup] at h
  | cons p r ih =>
    obtain ⟨x, y⟩ := p
    simp only [List.lookup, List.cons_append] at h ⊢
    cases hx : k == x
    · simp only [hx] at h; exact ih h
    · simpa [hx] using h

theorem lower_invariants :
    (∀ c : UInt8, isLetter (asciiLower c) = isLetter c) ∧ (∀ c : UInt8, schemeRest (asciiLower c) = schemeRest c) := by
  constructor <;> (apply all256; decide +kernel)

theorem normalize_lower (s : Bytes) : normalizeScheme (lowerBytes s) = normalizeScheme s := by
  cases s with
  | nil => rfl
  | cons c r =>
    have h := lowerBytes_idem (c :: r)
    simp only [lowerBytes, List.map_cons] at h ⊢
    simp only [normalizeScheme, lower_invariants.1, List.all_map, Function.comp_def, lower_invariants.2]
    simp only [lowerBytes, List.map_cons, h]

end ZapVerif.OpenBuild
