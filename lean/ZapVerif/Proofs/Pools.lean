import ZapVerif.Model.Pools
import ZapVerif.Proofs.Enc
/-! Helper lemmas for C08: the heap-level JSON encoder driven through a pooled object refines the pure encoder
    model (`Enc.runO`) whenever the object satisfies the put-invariant and the buffer pool is well-formed, and it
    touches no buffer it does not own (frame). -/
namespace ZapVerif.Pools
open ZapVerif ZapVerif.Json ZapVerif.Enc ZapVerif.Entry

theorem upd_same (m : Nat → Bytes) (i : Nat) (v : Bytes) : upd m i v i = v := by simp [upd]
theorem upd_other (m : Nat → Bytes) (i j : Nat) (v : Bytes) (h : j ≠ i) : upd m i v j = m j := by simp [upd, h]

theorem trimNl_snoc (x : Bytes) : trimNl (x ++ [10]) = x := by
  simp [trimNl]

/-- after a key the separator rule adds nothing: `addKey` ends in `:` or `: ` -/
theorem sep_addKey (sp : Bool) (b k : Bytes) : sep sp (addKey sp b k) = addKey sp b k := by
  have hs : St (addKey sp b k) true := by
    unfold addKey
    apply st_app
    apply last_cons; apply last_app; apply last_cons; exact colon_last sp
  rw [sep_of_state hs]; simp [comma]

/-! ### sync.Pool.Get returns `New()` or a pooled object, and removes it -/

theorem takeAt_fst {α} (fresh : α) (p : List α) (o : Option Nat) :
    (takeAt fresh p o).1 = fresh ∨ (takeAt fresh p o).1 ∈ p := by
  unfold takeAt
  cases o with
  | none => simp
  | some i =>
    cases hi : p[i]? with
    | none => simp [hi]
    | some x => simp only [hi]; right; exact List.mem_of_getElem? hi

theorem takeAt_snd {α} (fresh : α) (p : List α) (o : Option Nat) : ∀ x ∈ (takeAt fresh p o).2, x ∈ p := by
  unfold takeAt
  cases o with
  | none => simp
  | some i =>
    cases hi : p[i]? with
    | none => simp [hi]
    | some x => simp only [hi]; intro y hy; exact List.mem_of_mem_eraseIdx hy

theorem keepIdx_sublist {α} (k : Nat → Bool) : ∀ (i : Nat) (xs : List α), (keepIdx k i xs).Sublist xs
  | _, [] => by simp [keepIdx]
  | i, x :: r => by
    simp only [keepIdx]
    split
    · exact (keepIdx_sublist k (i + 1) r).cons_cons x
    · exact (keepIdx_sublist k (i + 1) r).cons x

/-! ### buffer pool -/

/-- pooled buffer ids are distinct and allocated -/
def PoolOK (h : H) : Prop := h.bufPool.Nodup ∧ ∀ x ∈ h.bufPool, x < h.next

/-- everything except the buffers (`mem`, `next`, `bufPool`), `tick` and `fault` -/
def SameRest (h h' : H) : Prop :=
  h'.jsonPool = h.jsonPool ∧ h'.slicePool = h.slicePool ∧ h'.ceh = h.ceh ∧ h'.errPoolCore = h.errPoolCore ∧
  h'.errPoolZap = h.errPoolZap ∧ h'.stackPool = h.stackPool ∧ h'.inflight = h.inflight ∧ h'.live = h.live ∧ h'.out = h.out ∧
  h'.liveMeta = h.liveMeta

theorem SameRest.rfl' (h : H) : SameRest h h := ⟨rfl, rfl, rfl, rfl, rfl, rfl, rfl, rfl, rfl, rfl⟩

theorem SameRest.trans {a b c : H} (h1 : SameRest a b) (h2 : SameRest b c) : SameRest a c := by
  obtain ⟨a1, a2, a3, a4, a5, a6, a7, a8, a9, a10⟩ := h1
  obtain ⟨b1, b2, b3, b4, b5, b6, b7, b8, b9, b10⟩ := h2
  exact ⟨b1.trans a1, b2.trans a2, b3.trans a3, b4.trans a4, b5.trans a5, b6.trans a6, b7.trans a7, b8.trans a8, b9.trans a9,
    b10.trans a10⟩

structure BufGot (h : H) (b : Nat) (h' : H) : Prop where
  src : b ∈ h.bufPool ∨ b = h.next
  notPooled : b ∉ h'.bufPool
  alloc : b < h'.next
  next_le : h.next ≤ h'.next
  empty : h'.mem b = []
  sub : ∀ x ∈ h'.bufPool, x ∈ h.bufPool
  ok : PoolOK h'
  frame : ∀ i, i ≠ b → h'.mem i = h.mem i
  rest : SameRest h h'
  fault : h'.fault = h.fault
  tick : h'.tick = h.tick + 1

theorem bufGet_spec (orc : Orc) (h : H) (hp : PoolOK h) : BufGot h (bufGet orc h).1 (bufGet orc h).2 := by
  have fresh : BufGot h h.next { h with next := h.next + 1, mem := upd h.mem h.next [], tick := h.tick + 1 } := by
    refine ⟨Or.inr rfl, ?_, by simp, by simp, by simp [upd], by simp, ⟨hp.1, ?_⟩, ?_, SameRest.rfl' _, rfl, rfl⟩
    · intro hm; have := hp.2 _ hm; omega
    · intro x hx; have := hp.2 _ hx; simp; omega
    · intro i hi; simp [upd, hi]
  unfold bufGet
  cases ho : orc h.tick with
  | none => simpa [ho] using fresh
  | some i =>
    cases hi : h.bufPool[i]? with
    | none => simpa [ho, hi] using fresh
    | some b =>
      have hb : b ∈ h.bufPool := List.mem_of_getElem? hi
      simp only [hi]
      refine ⟨Or.inl hb, ?_, hp.2 _ hb, Nat.le_refl _, by simp [upd], ?_, ⟨hp.1.erase b, ?_⟩, ?_, SameRest.rfl' _, rfl, rfl⟩
      · simp [hp.1.mem_erase_iff]
      · intro x hx; exact (List.erase_sublist).subset hx
      · intro x hx; exact hp.2 _ ((List.erase_sublist).subset hx)
      · intro j hj; simp [upd, hj]

/-! ### an encoder object in the middle of an encode -/

/-- `b` is the buffer the object writes to; it and the object's reflection buffer are owned (allocated, not
    pooled, distinct), and the reflection encoder writes to the reflection buffer -/
structure Sep (s : ES) (b : Nat) : Prop where
  buf : s.o.buf = some b
  alloc : b < s.h.next
  notPooled : b ∉ s.h.bufPool
  refl : ∀ rb, s.o.reflectBuf = some rb → s.o.reflectEnc = some rb ∧ rb ≠ b ∧ rb < s.h.next ∧ rb ∉ s.h.bufPool
  ok : PoolOK s.h
  nofault : s.h.fault = false

/-- `s'` is reachable from `s` by encoder steps on buffer `b`: still separated, and nothing outside `b`, the
    reflection buffer, the pool and fresh memory was touched -/
structure Ext (b : Nat) (s s' : ES) : Prop where
  sep' : Sep s' b
  spaced : s'.o.spaced = s.o.spaced
  cfg : s'.o.cfg = s.o.cfg
  next_le : s.h.next ≤ s'.h.next
  pool_sub : ∀ x ∈ s'.h.bufPool, x ∈ s.h.bufPool
  refl_src : ∀ rb, s'.o.reflectBuf = some rb → s.o.reflectBuf = some rb ∨ rb ∈ s.h.bufPool ∨ s.h.next ≤ rb
  refl_keep : ∀ rb, s.o.reflectBuf = some rb → s'.o.reflectBuf = some rb
  frame : ∀ i, i < s.h.next → i ∉ s.h.bufPool → i ≠ b → s.o.reflectBuf ≠ some i → s'.h.mem i = s.h.mem i
  rest : SameRest s.h s'.h

theorem Ext.refl' {b : Nat} {s : ES} (hs : Sep s b) : Ext b s s :=
  ⟨hs, rfl, rfl, Nat.le_refl _, fun _ h => h, fun _ h => Or.inl h, fun _ h => h, fun _ _ _ _ _ => rfl, SameRest.rfl' _⟩

theorem Ext.trans {b : Nat} {s1 s2 s3 : ES} (h12 : Ext b s1 s2) (h23 : Ext b s2 s3) : Ext b s1 s3 := by
  refine ⟨h23.sep', h23.spaced.trans h12.spaced, h23.cfg.trans h12.cfg, Nat.le_trans h12.next_le h23.next_le,
    fun x hx => h12.pool_sub x (h23.pool_sub x hx), ?_, fun rb h => h23.refl_keep rb (h12.refl_keep rb h), ?_,
    h12.rest.trans h23.rest⟩
  · intro rb h
    rcases h23.refl_src rb h with h | h | h
    · exact h12.refl_src rb h
    · exact Or.inr (Or.inl (h12.pool_sub rb h))
    · exact Or.inr (Or.inr (Nat.le_trans h12.next_le h))
  · intro i h1 h2 h3 h4
    have e12 := h12.frame i h1 h2 h3 h4
    have : s2.o.reflectBuf ≠ some i := by
      intro hc
      rcases h12.refl_src i hc with h | h | h
      · exact h4 h
      · exact h2 h
      · omega
    rw [h23.frame i (Nat.lt_of_lt_of_le h1 h12.next_le) (fun hc => h2 (h12.pool_sub i hc)) h3 this, e12]

theorem wr_spec {b : Nat} {s : ES} (hs : Sep s b) (f : Bytes → Bytes) :
    Ext b s (wr s f) ∧ (wr s f).h.mem b = f (s.h.mem b) ∧ (wr s f).o = s.o := by
  have hw : wr s f = { s with h := { s.h with mem := upd s.h.mem b (f (s.h.mem b)) } } := by
    simp [wr, hs.buf]
  rw [hw]
  refine ⟨⟨⟨hs.buf, hs.alloc, hs.notPooled, hs.refl, hs.ok, hs.nofault⟩, rfl, rfl, Nat.le_refl _, fun _ h => h,
    fun _ h => Or.inl h, fun _ h => h, ?_, SameRest.rfl' _⟩, by simp [upd], rfl⟩
  intro i _ _ h3 _
  simp [upd, h3]

theorem setNs_spec {b : Nat} {s : ES} (hs : Sep s b) (n : Nat) :
    Ext b s (setNs s n) ∧ (setNs s n).h = s.h ∧ (setNs s n).o.openNs = n := by
  refine ⟨⟨⟨hs.buf, hs.alloc, hs.notPooled, hs.refl, hs.ok, hs.nofault⟩, rfl, rfl, Nat.le_refl _, fun _ h => h,
    fun _ h => Or.inl h, fun _ h => h, fun _ _ _ _ _ => rfl, SameRest.rfl' _⟩, rfl, rfl⟩


theorem resetReflect_spec (orc : Orc) {b : Nat} {s : ES} (hs : Sep s b) :
    Ext b s (resetReflect orc s) ∧ (resetReflect orc s).h.mem b = s.h.mem b ∧
    (resetReflect orc s).o.openNs = s.o.openNs ∧
    ∃ rb, (resetReflect orc s).o.reflectBuf = some rb ∧ (resetReflect orc s).h.mem rb = [] := by
  unfold resetReflect
  cases hr : s.o.reflectBuf with
  | none =>
    have g := bufGet_spec orc s.h hs.ok
    simp only []
    generalize (bufGet orc s.h).1 = nb at g
    generalize (bufGet orc s.h).2 = h' at g
    have hne : nb ≠ b := by
      intro e; subst e
      rcases g.src with h | h
      · exact hs.notPooled h
      · have := hs.alloc; omega
    refine ⟨⟨⟨hs.buf, Nat.lt_of_lt_of_le hs.alloc g.next_le, fun hc => hs.notPooled (g.sub _ hc), ?_, g.ok,
      g.fault.trans hs.nofault⟩, rfl, rfl, g.next_le, g.sub, ?_, ?_, ?_, g.rest⟩, g.frame b (Ne.symm hne), trivial, nb, rfl, g.empty⟩
    · intro rb h
      have : rb = nb := by simpa using h.symm
      subst this
      exact ⟨rfl, hne, g.alloc, g.notPooled⟩
    · intro rb h
      have : rb = nb := by simpa using h.symm
      subst this
      rcases g.src with h | h
      · exact Or.inr (Or.inl h)
      · exact Or.inr (Or.inr (by omega))
    · intro rb h; rw [hr] at h; cases h
    · intro i h1 h2 _ _
      apply g.frame
      intro e; subst e
      rcases g.src with h | h
      · exact h2 h
      · omega
  | some rb =>
    obtain ⟨h1, h2, h3, h4⟩ := hs.refl rb hr
    refine ⟨⟨⟨hs.buf, hs.alloc, hs.notPooled, hs.refl, hs.ok, hs.nofault⟩, rfl, rfl, Nat.le_refl _, fun _ h => h,
      fun _ h => Or.inl h, fun _ h => h, ?_, SameRest.rfl' _⟩, ?_, rfl, rb, hr, by simp [upd]⟩
    · intro i _ _ _ h5
      have : i ≠ rb := fun e => h5 (by rw [hr, e])
      simp [upd, this]
    · simp [upd, Ne.symm h2]

theorem reflectVal_spec (orc : Orc) {b : Nat} {s : ES} (hs : Sep s b) (txt : Bytes) :
    Ext b s (reflectVal orc s txt).1 ∧ (reflectVal orc s txt).2 = txt ∧
    (reflectVal orc s txt).1.h.mem b = s.h.mem b ∧ (reflectVal orc s txt).1.o.openNs = s.o.openNs := by
  obtain ⟨e1, m1, n1, rb, hrb, hempty⟩ := resetReflect_spec orc hs
  unfold reflectVal
  generalize resetReflect orc s = s1 at e1 m1 n1 hrb hempty
  obtain ⟨henc, hne, halloc, hnp⟩ := e1.sep'.refl rb hrb
  simp only [henc, hrb]
  refine ⟨e1.trans ⟨⟨e1.sep'.buf, e1.sep'.alloc, e1.sep'.notPooled, e1.sep'.refl, e1.sep'.ok, e1.sep'.nofault⟩, rfl, rfl,
    Nat.le_refl _, fun _ h => h, fun _ h => Or.inl h, fun _ h => h, ?_, SameRest.rfl' _⟩, ?_, ?_, n1⟩
  · intro i _ _ _ h5
    have : i ≠ rb := fun e => h5 (by rw [hrb, e])
    simp [upd, this]
  · simp [upd, hempty, trimNl_snoc]
  · simp [upd, Ne.symm hne, m1]


/-- what the heap-level run must establish with respect to the pure run from the same contents -/
def RunOK (b : Nat) (s s' : ES) (e : Enc.Enc) : Prop :=
  Ext b s s' ∧ s'.h.mem b = e.buf ∧ s'.o.openNs = e.openNs

theorem wr_facts {b : Nat} {s : ES} (hs : Sep s b) (f : Bytes → Bytes) :
    Sep (wr s f) b ∧ Ext b s (wr s f) ∧ (wr s f).o.spaced = s.o.spaced ∧ (wr s f).h.mem b = f (s.h.mem b) ∧
    (wr s f).o.openNs = s.o.openNs := by
  obtain ⟨e, m, o⟩ := wr_spec hs f
  exact ⟨e.sep', e, by rw [o], m, by rw [o]⟩

theorem setNs_facts {b : Nat} {s : ES} (hs : Sep s b) (n : Nat) :
    Sep (setNs s n) b ∧ Ext b s (setNs s n) ∧ (setNs s n).o.spaced = s.o.spaced ∧ (setNs s n).h.mem b = s.h.mem b ∧
    (setNs s n).o.openNs = n := by
  obtain ⟨e, h, o⟩ := setNs_spec hs n
  exact ⟨e.sep', e, e.spaced, by rw [h], o⟩

theorem reflect_facts (orc : Orc) {b : Nat} {s : ES} (hs : Sep s b) (txt : Bytes) :
    Sep (reflectVal orc s txt).1 b ∧ Ext b s (reflectVal orc s txt).1 ∧ (reflectVal orc s txt).1.o.spaced = s.o.spaced ∧
    (reflectVal orc s txt).1.h.mem b = s.h.mem b ∧ (reflectVal orc s txt).1.o.openNs = s.o.openNs ∧
    (reflectVal orc s txt).2 = txt := by
  obtain ⟨e, v, m, n⟩ := reflectVal_spec orc hs txt
  exact ⟨e.sep', e, e.spaced, m, n, v⟩

theorem reset_facts (orc : Orc) {b : Nat} {s : ES} (hs : Sep s b) :
    Sep (resetReflect orc s) b ∧ Ext b s (resetReflect orc s) ∧ (resetReflect orc s).o.spaced = s.o.spaced ∧
    (resetReflect orc s).h.mem b = s.h.mem b ∧ (resetReflect orc s).o.openNs = s.o.openNs := by
  obtain ⟨e, m, n, _⟩ := resetReflect_spec orc hs
  exact ⟨e.sep', e, e.spaced, m, n⟩

mutual
theorem runOH_spec (orc : Orc) : ∀ (calls : List RO) (b : Nat) (s : ES) (sp : Bool) (buf : Bytes) (n : Nat),
    Sep s b → s.o.spaced = sp → s.h.mem b = buf → s.o.openNs = n →
    RunOK b s (runOH orc s calls) (runO sp ⟨buf, n⟩ (eraseO calls))
  | [], b, s, sp, buf, n, hs, hsp, hb, hn => by
    simp only [runOH, eraseO, runO]; exact ⟨Ext.refl' hs, hb, hn⟩
  | RO.prim k v :: r, b, s, sp, buf, n, hs, hsp, hb, hn => by
    subst hsp hb hn
    obtain ⟨q1, e1, p1, m1, n1⟩ := wr_facts hs (fun x => sep s.o.spaced (addKey s.o.spaced x k) ++ render v)
    obtain ⟨e2, m2, n2⟩ := runOH_spec orc r b _ s.o.spaced _ s.o.openNs q1 p1 m1 n1
    simp only [runOH, eraseO, runO]
    exact ⟨e1.trans e2, m2, n2⟩
  | RO.refl k v :: r, b, s, sp, buf, n, hs, hsp, hb, hn => by
    subst hsp hb hn
    obtain ⟨q0, e0, p0, m0, n0, v0⟩ := reflect_facts orc hs (render v)
    obtain ⟨q1, e1, p1, m1, n1⟩ := wr_facts q0 (fun x => addKey s.o.spaced x k ++ (reflectVal orc s (render v)).2)
    obtain ⟨e2, m2, n2⟩ := runOH_spec orc r b _ s.o.spaced (sep s.o.spaced (addKey s.o.spaced (s.h.mem b) k) ++ render v)
      s.o.openNs q1 (p1.trans p0) (by rw [m1, m0, v0, sep_addKey]) (n1.trans n0)
    simp only [runOH, eraseO, runO]
    exact ⟨(e0.trans e1).trans e2, m2, n2⟩
  | RO.reflFail k :: r, b, s, sp, buf, n, hs, hsp, hb, hn => by
    subst hsp hb hn
    obtain ⟨q0, e0, p0, m0, n0⟩ := reset_facts orc hs
    obtain ⟨e2, m2, n2⟩ := runOH_spec orc r b _ s.o.spaced _ s.o.openNs q0 p0 m0 n0
    simp only [runOH, eraseO]
    exact ⟨e0.trans e2, m2, n2⟩
  | RO.ns k :: r, b, s, sp, buf, n, hs, hsp, hb, hn => by
    subst hsp hb hn
    obtain ⟨q1, e1, p1, m1, n1⟩ := wr_facts hs (fun x => addKey s.o.spaced x k ++ [123])
    obtain ⟨q2, e2', p2, m2', n2'⟩ := setNs_facts q1 (s.o.openNs + 1)
    obtain ⟨e2, m2, n2⟩ := runOH_spec orc r b _ s.o.spaced _ (s.o.openNs + 1) q2 (p2.trans p1) (m2'.trans m1) n2'
    simp only [runOH, eraseO, runO]
    exact ⟨(e1.trans e2').trans e2, m2, n2⟩
  | RO.obj k body :: r, b, s, sp, buf, n, hs, hsp, hb, hn => by
    subst hsp hb hn
    obtain ⟨q0, e0, p0, m0, n0⟩ := setNs_facts hs 0
    obtain ⟨q1, e1, p1, m1, n1⟩ := wr_facts q0 (fun x => sep s.o.spaced (addKey s.o.spaced x k) ++ [123])
    obtain ⟨e2, m2, n2⟩ := runOH_spec orc body b _ s.o.spaced (sep s.o.spaced (addKey s.o.spaced (s.h.mem b) k) ++ [123]) 0
      q1 (p1.trans p0) (by rw [m1, m0]) (n1.trans n0)
    generalize hs1 : runOH orc (wr (setNs s 0) fun x => sep s.o.spaced (addKey s.o.spaced x k) ++ [123]) body = s1 at e2 m2 n2
    have p2 : s1.o.spaced = s.o.spaced := e2.spaced.trans (p1.trans p0)
    obtain ⟨q3, e3, p3, m3, n3⟩ := wr_facts e2.sep' (fun x => x ++ 125 :: List.replicate s1.o.openNs 125)
    obtain ⟨q4, e4, p4, m4, n4⟩ := setNs_facts q3 s.o.openNs
    obtain ⟨e5, m5, n5⟩ := runOH_spec orc r b _ s.o.spaced _ s.o.openNs q4 (p4.trans (p3.trans p2))
      (by rw [m4, m3, m2, n2]) n4
    simp only [runOH, eraseO, runO, hs1]
    exact ⟨(((e0.trans e1).trans e2).trans (e3.trans e4)).trans e5, m5, n5⟩
  | RO.arr k body :: r, b, s, sp, buf, n, hs, hsp, hb, hn => by
    subst hsp hb hn
    obtain ⟨q1, e1, p1, m1, n1⟩ := wr_facts hs (fun x => sep s.o.spaced (addKey s.o.spaced x k) ++ [91])
    obtain ⟨e2, m2, n2⟩ := runAH_spec orc body b _ s.o.spaced _ q1 p1 m1
    generalize hs1 : runAH orc (wr s fun x => sep s.o.spaced (addKey s.o.spaced x k) ++ [91]) body = s1 at e2 m2 n2
    obtain ⟨q3, e3, p3, m3, n3⟩ := wr_facts e2.sep' (fun x => x ++ [93])
    obtain ⟨e5, m5, n5⟩ := runOH_spec orc r b _ s.o.spaced _ s.o.openNs q3 (p3.trans (e2.spaced.trans p1))
      (by rw [m3, m2]) (n3.trans (n2.trans n1))
    simp only [runOH, eraseO, runO, hs1]
    exact ⟨((e1.trans e2).trans e3).trans e5, m5, n5⟩
theorem runAH_spec (orc : Orc) : ∀ (calls : List RA) (b : Nat) (s : ES) (sp : Bool) (buf : Bytes),
    Sep s b → s.o.spaced = sp → s.h.mem b = buf →
    Ext b s (runAH orc s calls) ∧
    (runAH orc s calls).h.mem b = runA sp buf (eraseA calls) ∧
    (runAH orc s calls).o.openNs = s.o.openNs
  | [], b, s, sp, buf, hs, hsp, hb => by simp only [runAH, eraseA, runA]; exact ⟨Ext.refl' hs, hb, trivial⟩
  | RA.prim v :: r, b, s, sp, buf, hs, hsp, hb => by
    subst hsp hb
    obtain ⟨q1, e1, p1, m1, n1⟩ := wr_facts hs (fun x => sep s.o.spaced x ++ render v)
    obtain ⟨e2, m2, n2⟩ := runAH_spec orc r b _ s.o.spaced _ q1 p1 m1
    simp only [runAH, eraseA, runA]
    exact ⟨e1.trans e2, m2, n2.trans n1⟩
  | RA.refl v :: r, b, s, sp, buf, hs, hsp, hb => by
    subst hsp hb
    obtain ⟨q0, e0, p0, m0, n0, v0⟩ := reflect_facts orc hs (render v)
    obtain ⟨q1, e1, p1, m1, n1⟩ := wr_facts q0 (fun x => sep s.o.spaced x ++ (reflectVal orc s (render v)).2)
    obtain ⟨e2, m2, n2⟩ := runAH_spec orc r b _ s.o.spaced (sep s.o.spaced (s.h.mem b) ++ render v) q1 (p1.trans p0)
      (by rw [m1, m0, v0])
    simp only [runAH, eraseA, runA]
    exact ⟨(e0.trans e1).trans e2, m2, n2.trans (n1.trans n0)⟩
  | RA.reflFail :: r, b, s, sp, buf, hs, hsp, hb => by
    subst hsp hb
    obtain ⟨q0, e0, p0, m0, n0⟩ := reset_facts orc hs
    obtain ⟨e2, m2, n2⟩ := runAH_spec orc r b _ s.o.spaced _ q0 p0 m0
    simp only [runAH, eraseA]
    exact ⟨e0.trans e2, m2, n2.trans n0⟩
  | RA.obj body :: r, b, s, sp, buf, hs, hsp, hb => by
    subst hsp hb
    obtain ⟨q0, e0, p0, m0, n0⟩ := setNs_facts hs 0
    obtain ⟨q1, e1, p1, m1, n1⟩ := wr_facts q0 (fun x => sep s.o.spaced x ++ [123])
    obtain ⟨e2, m2, n2⟩ := runOH_spec orc body b _ s.o.spaced (sep s.o.spaced (s.h.mem b) ++ [123]) 0
      q1 (p1.trans p0) (by rw [m1, m0]) (n1.trans n0)
    generalize hs1 : runOH orc (wr (setNs s 0) fun x => sep s.o.spaced x ++ [123]) body = s1 at e2 m2 n2
    have p2 : s1.o.spaced = s.o.spaced := e2.spaced.trans (p1.trans p0)
    obtain ⟨q3, e3, p3, m3, n3⟩ := wr_facts e2.sep' (fun x => x ++ 125 :: List.replicate s1.o.openNs 125)
    obtain ⟨q4, e4, p4, m4, n4⟩ := setNs_facts q3 s.o.openNs
    obtain ⟨e5, m5, n5⟩ := runAH_spec orc r b _ s.o.spaced _ q4 (p4.trans (p3.trans p2)) (by rw [m4, m3, m2, n2])
    simp only [runAH, eraseA, runA, hs1]
    exact ⟨(((e0.trans e1).trans e2).trans (e3.trans e4)).trans e5, m5, n5.trans n4⟩
  | RA.arr body :: r, b, s, sp, buf, hs, hsp, hb => by
    subst hsp hb
    obtain ⟨q1, e1, p1, m1, n1⟩ := wr_facts hs (fun x => sep s.o.spaced x ++ [91])
    obtain ⟨e2, m2, n2⟩ := runAH_spec orc body b _ s.o.spaced _ q1 p1 m1
    generalize hs1 : runAH orc (wr s fun x => sep s.o.spaced x ++ [91]) body = s1 at e2 m2 n2
    obtain ⟨q3, e3, p3, m3, n3⟩ := wr_facts e2.sep' (fun x => x ++ [93])
    obtain ⟨e5, m5, n5⟩ := runAH_spec orc r b _ s.o.spaced _ q3 (p3.trans (e2.spaced.trans p1)) (by rw [m3, m2])
    simp only [runAH, eraseA, runA, hs1]
    exact ⟨((e1.trans e2).trans e3).trans e5, m5, n5.trans (n3.trans (n2.trans n1))⟩
end

end ZapVerif.Pools
