import ZapVerif.Proofs.Pools
/-! C08 helper lemmas, part 2: ownership of buffers across whole operations, the bodies of `EncodeEntry` /
    `Clone` / `writeContext` against their pure counterparts. -/
namespace ZapVerif.Pools
open ZapVerif ZapVerif.Json ZapVerif.Enc ZapVerif.Entry

theorem Owns.poolOK {h : H} {owned : List Nat} (o : Owns h owned) : PoolOK h := by
  obtain ⟨h1, h2⟩ := o
  simp only [List.nodup_append, List.mem_append] at h1 h2
  exact ⟨h1.1, fun x hx => h2 x (Or.inl hx)⟩

/-- everything except the buffers, the jsonEncoder pool, `tick` and `fault` -/
def SameObj (h h' : H) : Prop :=
  h'.slicePool = h.slicePool ∧ h'.ceh = h.ceh ∧ h'.errPoolCore = h.errPoolCore ∧
  h'.errPoolZap = h.errPoolZap ∧ h'.stackPool = h.stackPool ∧ h'.inflight = h.inflight ∧ h'.live = h.live ∧ h'.out = h.out ∧
  h'.liveMeta = h.liveMeta

theorem SameRest.obj {h h' : H} (r : SameRest h h') : SameObj h h' := r.2

theorem SameObj.rfl' (h : H) : SameObj h h := ⟨rfl, rfl, rfl, rfl, rfl, rfl, rfl, rfl, rfl⟩

theorem SameObj.trans {a b c : H} (h1 : SameObj a b) (h2 : SameObj b c) : SameObj a c := by
  obtain ⟨a2, a3, a4, a5, a6, a7, a8, a9, a10⟩ := h1
  obtain ⟨b2, b3, b4, b5, b6, b7, b8, b9, b10⟩ := h2
  exact ⟨b2.trans a2, b3.trans a3, b4.trans a4, b5.trans a5, b6.trans a6, b7.trans a7, b8.trans a8, b9.trans a9, b10.trans a10⟩

theorem owns_bufGet (orc : Orc) (h : H) (owned : List Nat) (ho : Owns h owned) :
    Owns (bufGet orc h).2 ((bufGet orc h).1 :: owned) ∧ (∀ i ∈ owned, (bufGet orc h).2.mem i = h.mem i) ∧
    (bufGet orc h).2.mem (bufGet orc h).1 = [] ∧ SameRest h (bufGet orc h).2 ∧ (bufGet orc h).2.fault = h.fault := by
  have g := bufGet_spec orc h ho.poolOK
  generalize (bufGet orc h).1 = b at g
  generalize (bufGet orc h).2 = h' at g
  obtain ⟨n1, n2⟩ := ho
  have hbo : b ∉ owned := by
    intro hb
    rcases g.src with hs | hs
    · simp only [List.nodup_append] at n1; exact n1.2.2 b hs b hb rfl
    · have := n2 b (by simp [hb]); omega
  refine ⟨⟨?_, ?_⟩, ?_, g.empty, g.rest, g.fault⟩
  · have := g.ok.1; have := g.notPooled; have := g.sub
    simp only [List.nodup_append, List.nodup_cons, List.mem_cons] at *
    grind
  · intro x hx
    simp only [List.mem_append, List.mem_cons] at hx
    rcases hx with hx | hx | hx
    · exact g.ok.2 x hx
    · subst hx; exact g.alloc
    · have := n2 x (by simp [hx]); have := g.next_le; omega
  · intro i hi; apply g.frame; intro e; subst e; exact hbo hi

theorem owns_bufFree (h : H) (b : Nat) (l1 l2 : List Nat) (ho : Owns h (l1 ++ b :: l2)) : Owns (bufFree h b) (l1 ++ l2) := by
  obtain ⟨n1, n2⟩ := ho
  refine ⟨?_, ?_⟩
  · simp only [bufFree, List.nodup_append, List.nodup_cons, List.mem_cons, List.mem_append, List.cons_append] at *
    grind
  · intro x hx
    apply n2
    simp only [bufFree, List.mem_append, List.mem_cons] at *
    grind

theorem owns_perm {h : H} {l1 l2 : List Nat} (ho : Owns h l1) (hp : ∀ x, x ∈ l2 ↔ x ∈ l1) (hn : l2.Nodup) : Owns h l2 := by
  obtain ⟨n1, n2⟩ := ho
  refine ⟨?_, ?_⟩
  · simp only [List.nodup_append] at *
    refine ⟨n1.1, hn, ?_⟩
    intro a ha b hb
    exact n1.2.2 a ha b ((hp b).1 hb)
  · intro x hx
    apply n2
    simp only [List.mem_append] at *
    rcases hx with hx | hx
    · exact Or.inl hx
    · exact Or.inr ((hp x).1 hx)

/-! ### clone -/

theorem cloneFrom_facts (orc : Orc) (h : H) (g : JsonObj) (p : Parent) (owned : List Nat) (ho : Owns h owned)
    (hinv : g.PutInv) (hf : h.fault = false) :
    ∃ b, Sep (cfgCheck (cloneFrom Code.real orc h g p) p) b ∧
      (cfgCheck (cloneFrom Code.real orc h g p) p).o.spaced = p.spaced ∧
      (cfgCheck (cloneFrom Code.real orc h g p) p).o.openNs = p.openNs ∧
      (cfgCheck (cloneFrom Code.real orc h g p) p).h.mem b = [] ∧
      (cfgCheck (cloneFrom Code.real orc h g p) p).o.reflectBuf = none ∧
      Owns (cfgCheck (cloneFrom Code.real orc h g p) p).h (b :: owned) ∧
      (∀ i ∈ owned, (cfgCheck (cloneFrom Code.real orc h g p) p).h.mem i = h.mem i) ∧
      SameRest h (cfgCheck (cloneFrom Code.real orc h g p) p).h := by
  obtain ⟨o2, fr, em, rest, fl⟩ := owns_bufGet orc h owned ho
  have hc : cloneFrom Code.real orc h g p = ⟨(bufGet orc h).2,
      { g with cfg := some p.cfg, spaced := p.spaced, openNs := p.openNs, buf := some (bufGet orc h).1 }⟩ := by
    simp [cloneFrom, Code.real]
  have hcc : cfgCheck (cloneFrom Code.real orc h g p) p = cloneFrom Code.real orc h g p := by
    rw [hc]; simp [cfgCheck]
  rw [hcc, hc]
  generalize (bufGet orc h).1 = b at *
  generalize (bufGet orc h).2 = h2 at *
  have ok2 := o2.poolOK
  obtain ⟨n1, n2⟩ := o2
  refine ⟨b, ⟨rfl, n2 b (by simp), ?_, ?_, ok2, fl.trans hf⟩, rfl, rfl, em, hinv.2, ⟨n1, n2⟩, fr, rest⟩
  · simp only [List.nodup_append, List.nodup_cons, List.mem_cons] at n1
    intro hb; exact n1.2.2 b hb b (Or.inl rfl) rfl
  · intro rb hrb; simp [hinv.2] at hrb

theorem clone_facts (orc : Orc) (h : H) (p : Parent) (owned : List Nat) (ho : Owns h owned)
    (hj : ∀ o ∈ h.jsonPool, o.PutInv) (hf : h.fault = false) :
    ∃ b, Sep (cfgCheck (clone Code.real orc h p) p) b ∧
      (cfgCheck (clone Code.real orc h p) p).o.spaced = p.spaced ∧
      (cfgCheck (clone Code.real orc h p) p).o.openNs = p.openNs ∧
      (cfgCheck (clone Code.real orc h p) p).h.mem b = [] ∧
      (cfgCheck (clone Code.real orc h p) p).o.reflectBuf = none ∧
      Owns (cfgCheck (clone Code.real orc h p) p).h (b :: owned) ∧
      (∀ i ∈ owned, (cfgCheck (clone Code.real orc h p) p).h.mem i = h.mem i) ∧
      (∀ o ∈ (cfgCheck (clone Code.real orc h p) p).h.jsonPool, o ∈ h.jsonPool) ∧
      SameObj h (cfgCheck (clone Code.real orc h p) p).h := by
  have hg := takeAt_fst JsonObj.fresh h.jsonPool (orc h.tick)
  have hg2 := takeAt_snd JsonObj.fresh h.jsonPool (orc h.tick)
  unfold clone
  simp only []
  generalize takeAt JsonObj.fresh h.jsonPool (orc h.tick) = g at hg hg2
  have hinv : g.1.PutInv := by
    rcases hg with e | e
    · rw [e]; exact ⟨rfl, rfl⟩
    · exact hj _ e
  obtain ⟨b, a1, a2, a3, a4, a5, a6, a7, a8⟩ :=
    cloneFrom_facts orc { h with jsonPool := g.2, tick := h.tick + 1 } g.1 p owned ho hinv hf
  refine ⟨b, a1, a2, a3, a4, a5, a6, a7, ?_, a8.obj⟩
  intro o ho'; rw [a8.1] at ho'; exact hg2 o ho'

/-- after any encoder run from a freshly cloned object the owned buffers are untouched, and the buffers the object
    holds (`b`, possibly a reflection buffer) are owned too -/
theorem ext_owned {b : Nat} {s0 s : ES} {owned : List Nat} (hs0 : Sep s0 b) (ho : Owns s0.h (b :: owned))
    (hr : s0.o.reflectBuf = none) (e : Ext b s0 s) :
    Owns s.h (s.o.reflectBuf.toList ++ b :: owned) ∧ ∀ i ∈ owned, s.h.mem i = s0.h.mem i := by
  obtain ⟨n1, n2⟩ := ho
  have hbo : ∀ i ∈ owned, i < s0.h.next ∧ i ∉ s0.h.bufPool ∧ i ≠ b := by
    intro i hi
    refine ⟨n2 i (by simp [hi]), ?_, ?_⟩
    · simp only [List.nodup_append, List.mem_cons] at n1
      intro hc; exact n1.2.2 i hc i (Or.inr hi) rfl
    · simp only [List.nodup_append, List.nodup_cons] at n1
      intro e; subst e; exact n1.2.1.1 hi
  refine ⟨⟨?_, ?_⟩, ?_⟩
  · have p1 := e.sep'.ok.1
    have p2 := e.sep'.notPooled
    have p3 := e.pool_sub
    cases hrb : s.o.reflectBuf with
    | none =>
      simp only [Option.toList, List.nil_append, List.nodup_append, List.nodup_cons, List.mem_cons] at *
      grind
    | some rb =>
      obtain ⟨_, q2, q3, q4⟩ := e.sep'.refl rb hrb
      have q5 : rb ∉ owned := by
        intro hi
        obtain ⟨a1, a2, a3⟩ := hbo rb hi
        rcases e.refl_src rb hrb with h | h | h
        · rw [hr] at h; cases h
        · exact a2 h
        · omega
      simp only [Option.toList, List.cons_append, List.nil_append, List.nodup_append, List.nodup_cons, List.mem_cons] at *
      grind
  · intro x hx
    have hle := e.next_le
    simp only [List.mem_append, List.mem_cons] at hx
    rcases hx with hx | hx | hx | hx
    · exact e.sep'.ok.2 x hx
    · cases hrb : s.o.reflectBuf with
      | none => simp [hrb] at hx
      | some rb =>
        simp [hrb] at hx; subst hx
        exact (e.sep'.refl x hrb).2.2.1
    · subst hx; exact e.sep'.alloc
    · have := (hbo x hx).1; omega
  · intro i hi
    obtain ⟨a1, a2, a3⟩ := hbo i hi
    exact e.frame i a1 a2 a3 (by rw [hr]; simp)

theorem owns_putJson (h : H) (o : JsonObj) (owned : List Nat) (ho : Owns h (o.reflectBuf.toList ++ owned)) :
    Owns (putJson Code.real h o) owned ∧ (putJson Code.real h o).mem = h.mem ∧
    (putJson Code.real h o).jsonPool = JsonObj.fresh :: h.jsonPool ∧ SameObj h (putJson Code.real h o) ∧
    (putJson Code.real h o).fault = h.fault := by
  have key : Owns (putJson Code.real h o) owned := by
    cases hrb : o.reflectBuf with
    | none =>
      rw [hrb] at ho
      have : Owns h owned := by simpa using ho
      simpa [putJson, hrb, Owns] using this
    | some rb =>
      rw [hrb] at ho
      have := owns_bufFree h rb [] owned (by simpa using ho)
      simpa [putJson, hrb, Owns, bufFree] using this
  refine ⟨key, ?_, ?_, ?_, ?_⟩ <;> cases hrb : o.reflectBuf <;>
    simp [putJson, hrb, Code.real, JsonObj.fresh, bufFree, SameObj]

/-! ### the bodies against the pure encoder -/

theorem closeNs_facts {b : Nat} {s : ES} (hs : Sep s b) :
    Sep (closeNs s) b ∧ Ext b s (closeNs s) ∧ (closeNs s).o.spaced = s.o.spaced ∧
    (closeNs s).h.mem b = s.h.mem b ++ List.replicate s.o.openNs 125 ∧ (closeNs s).o.openNs = 0 := by
  unfold closeNs
  obtain ⟨q1, e1, p1, m1, n1⟩ := wr_facts hs (fun x => x ++ List.replicate s.o.openNs 125)
  obtain ⟨q2, e2, p2, m2, n2⟩ := setNs_facts q1 0
  exact ⟨q2, e1.trans e2, p2.trans p1, m2.trans m1, n2⟩

theorem encodeBody_spec (orc : Orc) {b : Nat} {s0 : ES} (p : Parent) (j : Job) (hs : Sep s0 b)
    (hsp : s0.o.spaced = p.spaced) (hn : s0.o.openNs = p.openNs) (hm : s0.h.mem b = []) :
    Ext b s0 (encodeBody orc s0 p j) ∧ (encodeBody orc s0 p j).h.mem b = pureJson p j := by
  unfold encodeBody pureJson encodeEntry
  simp only []
  obtain ⟨q1, e1, p1, m1, n1⟩ := wr_facts hs (· ++ [123])
  obtain ⟨e2, m2, n2⟩ := runOH_spec orc j.metaCalls b _ p.spaced [123] p.openNs q1 (p1.trans hsp) (by rw [m1, hm]; rfl) (n1.trans hn)
  generalize runOH orc (wr s0 (· ++ [123])) j.metaCalls = s2 at e2 m2 n2
  have p2 : s2.o.spaced = p.spaced := e2.spaced.trans (p1.trans hsp)
  generalize hE1 : runO p.spaced ⟨[123], p.openNs⟩ (eraseO j.metaCalls) = E1 at m2 n2
  -- context bytes
  have h3 : ∃ s3, s3 = (if p.ctx.isEmpty then s2 else wr s2 fun x => sep s2.o.spaced x ++ p.ctx) ∧ Sep s3 b ∧ Ext b s2 s3 ∧
      s3.o.spaced = p.spaced ∧
      s3.h.mem b = (if p.ctx.isEmpty then E1 else ⟨sep p.spaced E1.buf ++ p.ctx, E1.openNs⟩ : Enc.Enc).buf ∧
      s3.o.openNs = (if p.ctx.isEmpty then E1 else ⟨sep p.spaced E1.buf ++ p.ctx, E1.openNs⟩ : Enc.Enc).openNs := by
    by_cases hc : p.ctx.isEmpty
    · exact ⟨s2, by simp [hc], e2.sep', Ext.refl' e2.sep', p2, by simp [hc, m2], by simp [hc, n2]⟩
    · obtain ⟨q3, e3, p3, m3, n3⟩ := wr_facts e2.sep' (fun x => sep s2.o.spaced x ++ p.ctx)
      exact ⟨_, by simp [hc], q3, e3, p3.trans p2, by simp only [hc]; rw [m3, m2, p2]; rfl, by simp [hc, n3, n2]⟩
  obtain ⟨s3, hs3, q3, e3, p3, m3, n3⟩ := h3
  rw [← hs3]
  generalize (if p.ctx.isEmpty then E1 else ⟨sep p.spaced E1.buf ++ p.ctx, E1.openNs⟩ : Enc.Enc) = E2 at m3 n3
  obtain ⟨e4, m4, n4⟩ := runOH_spec orc j.fields b _ p.spaced E2.buf E2.openNs q3 p3 m3 n3
  generalize runOH orc s3 j.fields = s4 at e4 m4 n4
  have p4 : s4.o.spaced = p.spaced := e4.spaced.trans p3
  obtain ⟨q5, e5, p5, m5, n5⟩ := closeNs_facts e4.sep'
  obtain ⟨e6, m6, n6⟩ := runOH_spec orc j.stack b _ p.spaced _ 0 q5 (p5.trans p4) (by rw [m5, m4, n4]) n5
  generalize runOH orc (closeNs s4) j.stack = s6 at e6 m6 n6
  obtain ⟨q7, e7, p7, m7, n7⟩ := wr_facts e6.sep' (· ++ 125 :: j.ending)
  refine ⟨(((e1.trans e2).trans e3).trans (e4.trans e5)).trans (e6.trans e7), ?_⟩
  rw [m7, m6]

theorem cloneBody_spec (orc : Orc) {b : Nat} {s0 : ES} (p : Parent) (fields : List RO) (hs : Sep s0 b)
    (hsp : s0.o.spaced = p.spaced) (hn : s0.o.openNs = p.openNs) (hm : s0.h.mem b = []) :
    Ext b s0 (cloneBody orc s0 p fields) ∧ (cloneBody orc s0 p fields).h.mem b = (pureCtx p fields).buf ∧
    (cloneBody orc s0 p fields).o.openNs = (pureCtx p fields).openNs := by
  unfold cloneBody pureCtx
  obtain ⟨q1, e1, p1, m1, n1⟩ := wr_facts hs (· ++ p.ctx)
  obtain ⟨e2, m2, n2⟩ := runOH_spec orc fields b _ p.spaced p.ctx p.openNs q1 (p1.trans hsp) (by rw [m1, hm]; rfl) (n1.trans hn)
  exact ⟨e1.trans e2, m2, n2⟩

end ZapVerif.Pools
