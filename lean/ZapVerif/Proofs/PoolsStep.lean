import ZapVerif.Proofs.PoolsHist
/-! C08 helper lemmas, part 3: every operation of a history preserves the invariant and agrees with the
    pool-free run. -/
namespace ZapVerif.Pools
open ZapVerif ZapVerif.Json ZapVerif.Enc ZapVerif.Entry

theorem owns_congr {h h' : H} {owned : List Nat} (hb : h'.bufPool = h.bufPool) (hn : h'.next = h.next)
    (ho : Owns h owned) : Owns h' owned := by
  unfold Owns at *; rw [hb, hn]; exact ho

theorem owns_drop {h : H} {l1 l2 : List Nat} (ho : Owns h (l1 ++ l2)) : Owns h l2 := by
  obtain ⟨n1, n2⟩ := ho
  refine ⟨?_, fun x hx => n2 x ?_⟩
  · simp only [List.nodup_append, List.mem_append] at *
    grind
  · simp only [List.mem_append] at *; grind

theorem owns_sub {h h' : H} {owned : List Nat} (hs : h'.bufPool.Sublist h.bufPool) (hn : h'.next = h.next)
    (ho : Owns h owned) : Owns h' owned := by
  obtain ⟨n1, n2⟩ := ho
  refine ⟨List.Nodup.sublist (hs.append (List.Sublist.refl owned)) n1, ?_⟩
  intro x hx
  rw [hn]
  apply n2
  simp only [List.mem_append] at *
  rcases hx with hx | hx
  · exact Or.inl (hs.subset hx)
  · exact Or.inr hx

theorem split_at {α} : ∀ (l : List α) (i : Nat) (b : α), l[i]? = some b →
    ∃ l1 l2, l = l1 ++ b :: l2 ∧ l.eraseIdx i = l1 ++ l2
  | [], i, b, h => by simp at h
  | x :: r, 0, b, h => by
    simp at h; subst h; exact ⟨[], r, rfl, rfl⟩
  | x :: r, i + 1, b, h => by
    obtain ⟨l1, l2, e1, e2⟩ := split_at r i b (by simpa using h)
    exact ⟨x :: l1, l2, by simp [e1], by simp [e2]⟩

theorem map_eraseIdx' {α β} (f : α → β) : ∀ (l : List α) (i : Nat), (l.eraseIdx i).map f = (l.map f).eraseIdx i
  | [], _ => by simp
  | _ :: _, 0 => by simp
  | x :: r, i + 1 => by simp [map_eraseIdx' f r i]

/-! ### Capture -/

theorem growLen_spec : ∀ (fuel len a : Nat), 1 ≤ len → a < len + fuel →
    ∃ L, growLen (fuel + 1) len a = some L ∧ a < L
  | 0, len, a, _, h => ⟨len, by simp [growLen]; omega, by omega⟩
  | fuel + 1, len, a, h1, h => by
    by_cases hc : a < len
    · exact ⟨len, by simp [growLen, hc], hc⟩
    · obtain ⟨L, e, hl⟩ := growLen_spec fuel (2 * len) a (by omega) (by omega)
      exact ⟨L, by rw [growLen]; simp [hc, e], hl⟩

theorem take_min_one (avail : List Nat) : avail.take (min avail.length 1) = avail.take 1 := by
  cases avail with
  | nil => simp
  | cons x r => simp

theorem captureFrom_spec (g : StackObj) (avail : List Nat) (full : Bool) (hg : g.PutInv) :
    (captureFrom g avail full).2 = false ∧
    (captureFrom g avail full).1.frames = some (if full then avail else avail.take 1) ∧
    1 ≤ (captureFrom g avail full).1.storage.length := by
  unfold StackObj.PutInv at hg
  unfold captureFrom
  have h0 : ¬ g.storage.length = 0 := by omega
  simp only [h0, if_false]
  cases full with
  | false =>
    simp only [callers, Bool.false_eq_true, if_false]
    have hl : (g.storage.take 1).length = 1 := by simp; omega
    refine ⟨trivial, ?_, ?_⟩
    · simp only [hl]
      rw [List.take_append_of_le_length (by simp)]
      cases avail <;> simp
    · simp; omega
  | true =>
    simp only [callers, if_true]
    by_cases hc : min avail.length g.storage.length = g.storage.length
    · simp only [hc, if_true]
      obtain ⟨L, e, hl⟩ := growLen_spec avail.length (2 * g.storage.length) avail.length (by omega) (by omega)
      simp only [e]
      have hm : min avail.length (List.replicate L 0).length = avail.length := by simp; omega
      refine ⟨trivial, ?_, ?_⟩
      · simp only [hm]
        rw [List.take_append_of_le_length (by simp)]
        simp
      · simp; omega
    · simp only [hc, if_false]
      have hm : min avail.length g.storage.length = avail.length := by omega
      refine ⟨trivial, ?_, ?_⟩
      · simp only [hm]
        rw [List.take_append_of_le_length (by simp)]
        simp
      · simp; omega

/-! ### clone … body: what every user of a pooled jsonEncoder gets -/

theorem clone_run (orc : Orc) (h : H) (p : Parent) (owned : List Nat) (ho : Owns h owned)
    (hj : ∀ o ∈ h.jsonPool, o.PutInv) (hf : h.fault = false) :
    ∃ b, Sep (cfgCheck (clone Code.real orc h p) p) b ∧
      (cfgCheck (clone Code.real orc h p) p).o.spaced = p.spaced ∧
      (cfgCheck (clone Code.real orc h p) p).o.openNs = p.openNs ∧
      (cfgCheck (clone Code.real orc h p) p).h.mem b = [] ∧
      ∀ s, Ext b (cfgCheck (clone Code.real orc h p) p) s →
        s.o.buf = some b ∧ Owns s.h (s.o.reflectBuf.toList ++ b :: owned) ∧ (∀ i ∈ owned, s.h.mem i = h.mem i) ∧
        (∀ o ∈ s.h.jsonPool, o.PutInv) ∧ SameObj h s.h ∧ s.h.fault = false := by
  obtain ⟨b, hs0, sp0, n0, m0, r0, o0, fr0, js0, so0⟩ := clone_facts orc h p owned ho hj hf
  refine ⟨b, hs0, sp0, n0, m0, ?_⟩
  intro s e
  obtain ⟨o7, fr7⟩ := ext_owned hs0 o0 r0 e
  refine ⟨e.sep'.buf, o7, fun i hi => (fr7 i hi).trans (fr0 i hi), ?_, so0.trans e.rest.obj, e.sep'.nofault⟩
  intro o ho'
  rw [e.rest.1] at ho'
  exact hj o (js0 o ho')


/-! ### one operation -/

theorem real_free : Code.real.freeAfterSink = true := rfl

def StepOK (orc : Orc) (h : H) (ps : PS) (op : Op) : Prop :=
  Inv (step Code.real orc h op) ∧ Rel (step Code.real orc h op) (pstep ps op)

/-- the CheckedEntry part of `Inv` -/
def CEOK (e : CEHeap) : Prop := (e.pool ++ e.inHook).Nodup ∧ ∀ x ∈ e.pool ++ e.inHook, x < e.next

/-- what the running hooks will read -/
def ceView (e : CEHeap) : List (Nat × Option Nat) := e.inHook.map fun id => ((e.mem id).ent, (e.mem id).after)

theorem ce_congr {e e' : CEHeap} (he : e' = e) (hi : CEOK e) : CEOK e' := he ▸ hi
theorem view_congr {e e' : CEHeap} {v : List (Nat × Option Nat)} (he : e' = e) (hv : ceView e = v) : ceView e' = v := he ▸ hv

theorem map_frame {h h' : H} {l : List Nat} (hf : ∀ i ∈ l, h'.mem i = h.mem i) : l.map h'.mem = l.map h.mem :=
  List.map_congr_left hf

theorem step_encJson (orc : Orc) (h : H) (ps : PS) (p : Parent) (j : Job) (hi : Inv h) (hr : Rel h ps) :
    Inv (stepEncJson Code.real orc h p j) ∧
    Rel (stepEncJson Code.real orc h p j) { ps with inflight := pureJson p j :: ps.inflight } := by
  obtain ⟨b, hs0, sp0, n0, m0, run⟩ := clone_run orc h p (h.inflight ++ h.live) hi.owns hi.json hi.nofault
  obtain ⟨e, mb⟩ := encodeBody_spec orc p j hs0 sp0 n0 m0
  obtain ⟨hb, o7, fr, js, so, nf⟩ := run _ e
  obtain ⟨o8, mem8, jp8, so8, f8⟩ := owns_putJson _ _ (b :: (h.inflight ++ h.live)) o7
  obtain ⟨s1, s2, s3, s4, s5, s6, s7, s8, s9⟩ := so.trans so8
  simp only [stepEncJson, encodeJson, real_free, if_true]
  generalize encodeBody orc (cfgCheck (clone Code.real orc h p) p) p j = sF at *
  simp only [hb, Option.getD_some]
  generalize putJson Code.real sF.h sF.o = h8 at *
  constructor
  · refine ⟨?_, by rw [s1]; exact hi.slice, by rw [s5]; exact hi.stack, ce_congr s2 hi.ce, fun _ _ => trivial,
      fun _ _ => trivial, ?_, f8.trans nf⟩
    · intro o ho; simp only [jp8, List.mem_cons] at ho
      rcases ho with rfl | ho
      · exact ⟨rfl, rfl⟩
      · exact js o ho
    · simp only [s6, s7]
      exact owns_congr rfl rfl o8
  · obtain ⟨r1, r2, r3, r4, r5⟩ := hr
    have frI : ∀ i ∈ h.inflight, h8.mem i = h.mem i := fun i hi' => by rw [mem8]; exact fr i (by simp [hi'])
    have frL : ∀ i ∈ h.live, h8.mem i = h.mem i := fun i hi' => by rw [mem8]; exact fr i (by simp [hi'])
    refine ⟨?_, ?_, by simp only [s8]; exact r3, view_congr s2 r4, s9.trans r5⟩
    · show List.map h8.mem (b :: h8.inflight) = _
      rw [s6, List.map_cons, map_frame frI, r1, mem8, mb]
    · show List.map h8.mem h8.live = _
      rw [s7, map_frame frL, r2]


theorem step_withClone (orc : Orc) (h : H) (ps : PS) (p : Parent) (fields : List RO) (hi : Inv h) (hr : Rel h ps) :
    Inv (stepWith Code.real orc h p fields) ∧ Rel (stepWith Code.real orc h p fields) (pstepWith ps p fields) := by
  obtain ⟨b, hs0, sp0, n0, m0, run⟩ := clone_run orc h p (h.inflight ++ h.live) hi.owns hi.json hi.nofault
  obtain ⟨e, mb, nb⟩ := cloneBody_spec orc p fields hs0 sp0 n0 m0
  obtain ⟨hb, o7, fr, js, so, nf⟩ := run _ e
  obtain ⟨s1, s2, s3, s4, s5, s6, s7, s8, s9⟩ := so
  simp only [stepWith, pstepWith]
  generalize cloneBody orc (cfgCheck (clone Code.real orc h p) p) p fields = sF at *
  simp only [hb, Option.getD_some]
  obtain ⟨r1, r2, r3, r4, r5⟩ := hr
  constructor
  · refine ⟨js, by rw [s1]; exact hi.slice, by rw [s5]; exact hi.stack, ce_congr s2 hi.ce, fun _ _ => trivial,
      fun _ _ => trivial, ?_, nf⟩
    have o8 : Owns sF.h (b :: (h.inflight ++ h.live)) := owns_drop o7
    refine owns_perm (owns_congr rfl rfl o8) ?_ ?_
    · intro x; simp only [s6, List.mem_append, List.mem_cons]; grind
    · have := o8.1
      simp only [s6, List.nodup_append, List.nodup_cons, List.mem_cons, List.mem_append] at *
      grind
  · have frI : ∀ i ∈ h.inflight, sF.h.mem i = h.mem i := fun i hi' => fr i (by simp [hi'])
    have frL : ∀ i ∈ h.live, sF.h.mem i = h.mem i := fun i hi' => fr i (by simp [hi'])
    refine ⟨?_, ?_, ?_, view_congr s2 r4, ?_⟩
    · show List.map sF.h.mem sF.h.inflight = _
      rw [s6, map_frame frI, r1]
    · show List.map sF.h.mem (b :: sF.h.live) = _
      rw [s7, List.map_cons, map_frame frL, r2, mb]
    · show Out.ctx (sF.h.mem b) sF.o.openNs :: sF.h.out = _
      rw [mb, nb, s8, r3]
    · show (⟨p.cfg, p.spaced, sF.o.openNs⟩ : LiveMeta) :: sF.h.liveMeta = _
      rw [nb, s9, r5]

theorem step_deliver (orc : Orc) (h : H) (ps : PS) (i : Nat) (hi : Inv h) (hr : Rel h ps) :
    StepOK orc h ps (.deliver i) := by
  obtain ⟨r1, r2, r3, r4, r5⟩ := hr
  unfold StepOK
  simp only [step, pstep, real_free, if_true]
  have hmap : ps.inflight[i]? = (h.inflight[i]?).map h.mem := by rw [← r1]; simp
  cases hb : h.inflight[i]? with
  | none => simp only [hmap, hb, Option.map_none]; exact ⟨hi, r1, r2, r3, r4, r5⟩
  | some b =>
    simp only [hmap, hb, Option.map_some]
    obtain ⟨l1, l2, e1, e2⟩ := split_at h.inflight i b hb
    constructor
    · refine ⟨hi.json, hi.slice, hi.stack, hi.ce, fun _ _ => trivial, fun _ _ => trivial, ?_, hi.nofault⟩
      have o := hi.owns
      rw [e1] at o
      have := owns_bufFree h b l1 (l2 ++ h.live) (by simpa using o)
      simp only [bufFree, e2]
      simpa [Owns, bufFree] using this
    · refine ⟨?_, r2, by simp [bufFree, r3], r4, r5⟩
      show List.map h.mem (h.inflight.eraseIdx i) = ps.inflight.eraseIdx i
      rw [← r1, map_eraseIdx']

theorem step_peek (orc : Orc) (h : H) (ps : PS) (i : Nat) (hi : Inv h) (hr : Rel h ps) :
    StepOK orc h ps (.peek i) := by
  obtain ⟨r1, r2, r3, r4, r5⟩ := hr
  unfold StepOK
  simp only [step, pstep]
  have hmap : ps.live[i]? = (h.live[i]?).map h.mem := by rw [← r2]; simp
  cases hb : h.live[i]? with
  | none => simp only [hmap, hb, Option.map_none]; exact ⟨hi, r1, r2, r3, r4, r5⟩
  | some b =>
    simp only [hmap, hb, Option.map_some]
    exact ⟨⟨hi.json, hi.slice, hi.stack, hi.ce, hi.errCore, hi.errZap, hi.owns, hi.nofault⟩, r1, r2, by simp [r3], r4, r5⟩


theorem updCE_same (m : Nat → CEObj) (i : Nat) (v : CEObj) : updCE m i v i = v := by simp [updCE]
theorem updCE_other (m : Nat → CEObj) (i j : Nat) (v : CEObj) (h : j ≠ i) : updCE m i v j = m j := by simp [updCE, h]

theorem cePick_spec (pick : Option Nat) (e : CEHeap) (hk : CEOK e) :
    (cePick pick e).1 ∉ (cePick pick e).2.pool ∧ (cePick pick e).1 ∉ e.inHook ∧ (cePick pick e).1 < (cePick pick e).2.next ∧
    (cePick pick e).2.inHook = e.inHook ∧ CEOK (cePick pick e).2 ∧
    (∀ x, x ≠ (cePick pick e).1 → (cePick pick e).2.mem x = e.mem x) := by
  obtain ⟨n1, n2⟩ := hk
  have fresh : ∀ r : Nat × CEHeap, r = (e.next, { e with next := e.next + 1, mem := updCE e.mem e.next CEObj.fresh }) →
      r.1 ∉ r.2.pool ∧ r.1 ∉ e.inHook ∧ r.1 < r.2.next ∧ r.2.inHook = e.inHook ∧ CEOK r.2 ∧
      (∀ x, x ≠ r.1 → r.2.mem x = e.mem x) := by
    intro r hr; subst hr
    refine ⟨?_, ?_, by simp, rfl, ⟨n1, ?_⟩, fun x hx => updCE_other _ _ _ _ hx⟩
    · intro hc; have := n2 _ (List.mem_append.mpr (Or.inl hc)); omega
    · intro hc; have := n2 _ (List.mem_append.mpr (Or.inr hc)); omega
    · intro x hx; have := n2 x hx; simp; omega
  unfold cePick
  cases pick with
  | none => exact fresh _ rfl
  | some i =>
    cases hi : e.pool[i]? with
    | none => simp only [hi]; simpa using fresh _ rfl
    | some id =>
      simp only [hi]
      have hid : id ∈ e.pool := List.mem_of_getElem? hi
      have np : e.pool.Nodup := (List.nodup_append.mp n1).1
      refine ⟨by simp [np.mem_erase_iff], ?_, n2 _ (List.mem_append.mpr (Or.inl hid)), trivial, ⟨?_, ?_⟩, fun _ _ => trivial⟩
      · intro hc; exact (List.nodup_append.mp n1).2.2 id hid id hc rfl
      · exact List.Nodup.sublist ((List.erase_sublist).append (List.Sublist.refl _)) n1
      · intro x hx
        apply n2
        simp only [List.mem_append] at *
        rcases hx with hx | hx
        · exact Or.inl ((List.erase_sublist).subset hx)
        · exact Or.inr hx

/-- `getCheckedEntry` hands out an entry that no running hook holds, with every field erased -/
theorem ceTake_spec (pick : Option Nat) (e : CEHeap) (hk : CEOK e) :
    (ceTake Code.real pick e).1 ∉ (ceTake Code.real pick e).2.pool ∧
    (ceTake Code.real pick e).1 ∉ e.inHook ∧
    (ceTake Code.real pick e).1 < (ceTake Code.real pick e).2.next ∧
    (ceTake Code.real pick e).2.inHook = e.inHook ∧
    CEOK (ceTake Code.real pick e).2 ∧
    (∀ x, x ≠ (ceTake Code.real pick e).1 → (ceTake Code.real pick e).2.mem x = e.mem x) ∧
    (ceTake Code.real pick e).2.mem (ceTake Code.real pick e).1 = ⟨0, none, false, none, []⟩ := by
  obtain ⟨a1, a2, a3, a4, a5, a6⟩ := cePick_spec pick e hk
  unfold ceTake ceResetAt
  generalize cePick pick e = r at *
  exact ⟨a1, a2, a3, a4, a5, fun x hx => by simp only []; rw [updCE_other _ _ _ _ hx]; exact a6 x hx,
    by simp [updCE, ceReset, Code.real]⟩

theorem view_frame {e e' : CEHeap} (hin : e'.inHook = e.inHook) (hm : ∀ x ∈ e.inHook, e'.mem x = e.mem x) :
    ceView e' = ceView e := by
  unfold ceView; rw [hin]
  exact List.map_congr_left fun x hx => by rw [hm x hx]

theorem ceCheck_spec (pick : Option Nat) (e : CEHeap) (ent : Nat) (cores : List Nat) (after errOut : Option Nat) (write : Bool)
    (hk : CEOK e) :
    CEOK (ceCheck Code.real pick e ent cores after errOut write).1 ∧
    (ceCheck Code.real pick e ent cores after errOut write).2 =
      (if write then some (Out.ce ent (cores.map some) after errOut false) else none) ∧
    ceView (ceCheck Code.real pick e ent cores after errOut write).1 =
      (match write, after with
       | true, some a => (ent, some a) :: ceView e
       | _, _ => ceView e) := by
  obtain ⟨t1, t2, t3, t4, t5, t6, t7⟩ := ceTake_spec pick e hk
  unfold ceCheck
  simp only []
  generalize ceTake Code.real pick e = g at *
  have frame : ∀ v : CEObj, ∀ x ∈ e.inHook, updCE g.2.mem g.1 v x = e.mem x := by
    intro v x hx
    have hne : x ≠ g.1 := fun hc => t2 (hc ▸ hx)
    rw [updCE_other _ _ _ _ hne]; exact t6 x hne
  obtain ⟨n1, n2⟩ := t5
  cases write with
  | false =>
    simp only [Bool.false_eq_true, if_false]
    refine ⟨⟨n1, n2⟩, trivial, ?_⟩
    cases after <;> exact view_frame t4 (frame _)
  | true =>
    simp only [if_true, t7]
    cases after with
    | none =>
      simp only []
      refine ⟨⟨?_, ?_⟩, by cases errOut <;> simp, view_frame t4 (frame _)⟩
      · simp only [List.cons_append, List.nodup_cons, List.mem_append]
        rw [t4] at n1 ⊢
        exact ⟨fun hc => hc.elim t1 t2, n1⟩
      · intro x hx
        simp only [List.cons_append, List.mem_cons] at hx
        rcases hx with rfl | hx
        · exact t3
        · exact n2 x hx
    | some a =>
      simp only [Code.real, if_true]
      refine ⟨⟨?_, ?_⟩, by cases errOut <;> simp, ?_⟩
      · rw [t4] at n1 ⊢
        simp only [List.nodup_append, List.nodup_cons, List.mem_cons] at n1 ⊢
        refine ⟨n1.1, ⟨t2, n1.2.1⟩, ?_⟩
        intro x hx y hy
        rcases hy with rfl | hy
        · intro hc; exact t1 (hc ▸ hx)
        · exact n1.2.2 x hx y hy
      · intro x hx
        simp only [List.mem_append, List.mem_cons] at hx
        rcases hx with hx | rfl | hx
        · exact n2 x (List.mem_append.mpr (Or.inl hx))
        · exact t3
        · exact n2 x (List.mem_append.mpr (Or.inr hx))
      · unfold ceView
        simp only [List.map_cons, updCE_same, t4]
        refine congrArg _ ?_
        exact List.map_congr_left fun x hx => by rw [frame _ x hx]

theorem ceHookReturn_spec (e : CEHeap) (i : Nat) (hk : CEOK e) :
    CEOK (ceHookReturn Code.real e i).1 ∧
    (ceHookReturn Code.real e i).2 = ((ceView e)[i]?).map (fun v => Out.hook v.1 v.2) ∧
    ceView (ceHookReturn Code.real e i).1 = (ceView e).eraseIdx i := by
  unfold ceHookReturn
  have hv : (ceView e)[i]? = (e.inHook[i]?).map fun id => ((e.mem id).ent, (e.mem id).after) := by simp [ceView]
  cases hb : e.inHook[i]? with
  | none => simp only [hv, hb, Option.map_none]; refine ⟨hk, trivial, ?_⟩; rw [List.eraseIdx_of_length_le]; simp [ceView]; exact (List.getElem?_eq_none_iff.mp hb)
  | some id =>
    simp only [hv, hb, Option.map_some, Code.real, if_true]
    obtain ⟨l1, l2, e1, e2⟩ := split_at e.inHook i id hb
    obtain ⟨n1, n2⟩ := hk
    refine ⟨⟨?_, ?_⟩, trivial, ?_⟩
    · simp only [e2]
      rw [e1] at n1
      simp only [List.cons_append, List.nodup_append, List.nodup_cons, List.mem_cons, List.mem_append] at n1 ⊢
      grind
    · intro x hx
      apply n2
      simp only [e2, List.cons_append, List.mem_cons, List.mem_append] at hx
      rw [e1]
      simp only [List.mem_append, List.mem_cons]
      grind
    · simp only [ceView]; rw [map_eraseIdx']

theorem step_check (orc : Orc) (h : H) (ps : PS) (ent : Nat) (cores : List Nat) (after errOut : Option Nat) (write : Bool)
    (hi : Inv h) (hr : Rel h ps) : StepOK orc h ps (.check ent cores after errOut write) := by
  obtain ⟨r1, r2, r3, r4, r5⟩ := hr
  obtain ⟨c1, c2, c3⟩ := ceCheck_spec (orc h.tick) h.ceh ent cores after errOut write hi.ce
  unfold StepOK
  simp only [step, pstep, checkWrite]
  generalize ceCheck Code.real (orc h.tick) h.ceh ent cores after errOut write = r at *
  refine ⟨⟨hi.json, hi.slice, hi.stack, c1, hi.errCore, hi.errZap, hi.owns, hi.nofault⟩, ?_⟩
  have r4' : ceView h.ceh = ps.inHook := r4
  cases write with
  | false => exact ⟨r1, r2, by simp [c2, pushOut, r3], by show ceView r.1 = _; rw [c3]; cases after <;> exact r4', r5⟩
  | true =>
    cases after with
    | none => exact ⟨r1, r2, by simp [c2, pushOut, r3], by show ceView r.1 = _; rw [c3]; exact r4', r5⟩
    | some a => exact ⟨r1, r2, by simp [c2, pushOut, r3], by show ceView r.1 = _; rw [c3, r4']; simp, r5⟩

theorem step_hookReturn (orc : Orc) (h : H) (ps : PS) (i : Nat) (hi : Inv h) (hr : Rel h ps) :
    StepOK orc h ps (.hookReturn i) := by
  obtain ⟨r1, r2, r3, r4, r5⟩ := hr
  obtain ⟨c1, c2, c3⟩ := ceHookReturn_spec h.ceh i hi.ce
  have r4' : ceView h.ceh = ps.inHook := r4
  unfold StepOK
  simp only [step, pstep, hookReturn]
  generalize ceHookReturn Code.real h.ceh i = r at *
  refine ⟨⟨hi.json, hi.slice, hi.stack, c1, hi.errCore, hi.errZap, hi.owns, hi.nofault⟩, ?_⟩
  rw [r4'] at c2 c3
  cases hv : ps.inHook[i]? with
  | none =>
    rw [hv] at c2
    refine ⟨r1, r2, by simp [c2, pushOut, r3], ?_, r5⟩
    show ceView r.1 = _
    rw [c3, List.eraseIdx_of_length_le (List.getElem?_eq_none_iff.mp hv)]
  | some v =>
    rw [hv] at c2
    exact ⟨r1, r2, by simp [c2, pushOut, r3], by show ceView r.1 = _; rw [c3], r5⟩

theorem step_errElem (orc : Orc) (h : H) (ps : PS) (z : Bool) (e : Nat) (hi : Inv h) (hr : Rel h ps) :
    StepOK orc h ps (.errElem z e) := by
  obtain ⟨r1, r2, r3, r4, r5⟩ := hr
  unfold StepOK
  simp only [step, pstep, errElem]
  cases z with
  | false =>
    simp only [Bool.false_eq_true, if_false]
    exact ⟨⟨hi.json, hi.slice, hi.stack, hi.ce, fun _ _ => trivial, hi.errZap, hi.owns, hi.nofault⟩, r1, r2, by simp [r3], r4, r5⟩
  | true =>
    simp only [if_true]
    exact ⟨⟨hi.json, hi.slice, hi.stack, hi.ce, hi.errCore, fun _ _ => trivial, hi.owns, hi.nofault⟩, r1, r2, by simp [r3], r4, r5⟩

theorem step_capture (orc : Orc) (h : H) (ps : PS) (avail : List Nat) (full : Bool) (hi : Inv h) (hr : Rel h ps) :
    StepOK orc h ps (.capture avail full) := by
  obtain ⟨r1, r2, r3, r4, r5⟩ := hr
  have hg := takeAt_fst StackObj.fresh h.stackPool (orc h.tick)
  have hg2 := takeAt_snd StackObj.fresh h.stackPool (orc h.tick)
  have hinv : (takeAt StackObj.fresh h.stackPool (orc h.tick)).1.PutInv := by
    rcases hg with e | e
    · rw [e]; simp [StackObj.PutInv, StackObj.fresh]
    · exact hi.stack _ e
  obtain ⟨c1, c2, c3⟩ := captureFrom_spec _ avail full hinv
  unfold StepOK
  simp only [step, pstep, capture]
  generalize takeAt StackObj.fresh h.stackPool (orc h.tick) = g at *
  generalize captureFrom g.1 avail full = r at *
  refine ⟨⟨hi.json, hi.slice, ?_, hi.ce, hi.errCore, hi.errZap, hi.owns, by simp [hi.nofault, c1]⟩, r1, r2, by simp [c2, r3], r4, r5⟩
  intro st hst
  simp only [List.mem_cons] at hst
  rcases hst with rfl | hst
  · exact c3
  · exact hi.stack _ (hg2 _ hst)

theorem step_scratch (orc : Orc) (h : H) (ps : PS) (s : Bytes) (hi : Inv h) (hr : Rel h ps) :
    StepOK orc h ps (.scratch s) := by
  obtain ⟨r1, r2, r3, r4, r5⟩ := hr
  obtain ⟨o1, fr, em, rest, fl⟩ := owns_bufGet orc h (h.inflight ++ h.live) hi.owns
  obtain ⟨j0, s1, s2, s3, s4, s5, s6, s7, s8, s9⟩ := rest
  unfold StepOK
  simp only [step, pstep, setMem]
  generalize (bufGet orc h).1 = b at *
  generalize (bufGet orc h).2 = h1 at *
  have hbo : b ∉ h.inflight ++ h.live := by
    have := o1.1
    simp only [List.nodup_append, List.nodup_cons] at this
    exact this.2.1.1
  have frame : ∀ i ∈ h.inflight ++ h.live, upd h1.mem b (h1.mem b ++ s) i = h.mem i := by
    intro i hi'
    have : i ≠ b := fun e => hbo (e ▸ hi')
    rw [upd_other _ _ _ _ this]; exact fr i hi'
  constructor
  · refine ⟨by simp only [bufFree]; rw [j0]; exact hi.json, by simp only [bufFree]; rw [s1]; exact hi.slice,
      by simp only [bufFree]; rw [s5]; exact hi.stack, ce_congr s2 hi.ce, fun _ _ => trivial, fun _ _ => trivial, ?_,
      by simp only [bufFree]; exact fl.trans hi.nofault⟩
    have := owns_bufFree h1 b [] (h.inflight ++ h.live) (by simpa using o1)
    simp only [bufFree, s6, s7]
    simpa [Owns, bufFree] using this
  · refine ⟨?_, ?_, ?_, view_congr s2 r4, s9.trans r5⟩
    · simp only [bufFree, s6]
      rw [← r1]; exact List.map_congr_left fun i hi' => frame i (by simp [hi'])
    · simp only [bufFree, s7]
      rw [← r2]; exact List.map_congr_left fun i hi' => frame i (by simp [hi'])
    · simp only [bufFree, upd_same, em, s8, r3, List.nil_append]

theorem step_gc (orc : Orc) (h : H) (ps : PS) (k : Nat → Bool) (hi : Inv h) (hr : Rel h ps) :
    StepOK orc h ps (.gc k) := by
  unfold StepOK
  simp only [step, pstep]
  refine ⟨⟨fun o ho => hi.json o ((keepIdx_sublist k 0 _).subset ho), fun o ho => hi.slice o ((keepIdx_sublist k 0 _).subset ho),
    fun o ho => hi.stack o ((keepIdx_sublist k 0 _).subset ho), ?_, fun _ _ => trivial, fun _ _ => trivial,
    owns_sub (keepIdx_sublist k 0 _) rfl hi.owns, hi.nofault⟩, hr.1, hr.2.1, hr.2.2.1, hr.2.2.2.1, hr.2.2.2.2⟩
  obtain ⟨n1, n2⟩ := hi.ce
  refine ⟨List.Nodup.sublist ((keepIdx_sublist k 0 _).append (List.Sublist.refl _)) n1, ?_⟩
  intro x hx
  apply n2
  simp only [List.mem_append] at *
  rcases hx with hx | hx
  · exact Or.inl ((keepIdx_sublist k 0 _).subset hx)
  · exact Or.inr hx


/-! ### console encoder -/

/-- the line after the columns and the message -/
def headLine (j : CJob) : Bytes :=
  match j.msg with
  | some m => Console.sepIf j.sepc (Console.joinSep j.sepc j.cols) ++ m
  | none => Console.joinSep j.sepc j.cols

theorem consoleHead_spec (orc : Orc) (h : H) (j : CJob) (owned : List Nat) (ho : Owns h owned)
    (hs : ∀ a ∈ h.slicePool, a.PutInv) :
    Owns (consoleHead Code.real orc h j).2 ((consoleHead Code.real orc h j).1 :: owned) ∧
    (consoleHead Code.real orc h j).2.mem (consoleHead Code.real orc h j).1 = headLine j ∧
    (∀ i ∈ owned, (consoleHead Code.real orc h j).2.mem i = h.mem i) ∧
    (consoleHead Code.real orc h j).2.jsonPool = h.jsonPool ∧
    (∀ a ∈ (consoleHead Code.real orc h j).2.slicePool, a.PutInv) ∧
    (consoleHead Code.real orc h j).2.ceh = h.ceh ∧
    (consoleHead Code.real orc h j).2.errPoolCore = h.errPoolCore ∧
    (consoleHead Code.real orc h j).2.errPoolZap = h.errPoolZap ∧
    (consoleHead Code.real orc h j).2.stackPool = h.stackPool ∧
    (consoleHead Code.real orc h j).2.inflight = h.inflight ∧
    (consoleHead Code.real orc h j).2.live = h.live ∧
    (consoleHead Code.real orc h j).2.out = h.out ∧
    (consoleHead Code.real orc h j).2.fault = h.fault ∧
    (consoleHead Code.real orc h j).2.liveMeta = h.liveMeta := by
  obtain ⟨o1, fr, em, rest, fl⟩ := owns_bufGet orc h owned ho
  obtain ⟨j0, s1, s2, s3, s4, s5, s6, s7, s8, s9⟩ := rest
  have hbo : (bufGet orc h).1 ∉ owned := by
    have := o1.1
    simp only [List.nodup_append, List.nodup_cons] at this
    exact this.2.1.1
  have hg := takeAt_fst SliceObj.fresh (bufGet orc h).2.slicePool (orc (bufGet orc h).2.tick)
  have hg2 := takeAt_snd SliceObj.fresh (bufGet orc h).2.slicePool (orc (bufGet orc h).2.tick)
  have hel : (takeAt SliceObj.fresh (bufGet orc h).2.slicePool (orc (bufGet orc h).2.tick)).1.elems = [] := by
    rcases hg with e | e
    · rw [e]; rfl
    · exact hs _ (s1 ▸ e)
  unfold consoleHead headLine
  simp only [sliceGet, slicePut, setMem, columnsFrom, Code.real, if_true]
  generalize (bufGet orc h).1 = line at *
  generalize (bufGet orc h).2 = h1 at *
  generalize takeAt SliceObj.fresh h1.slicePool (orc h1.tick) = g at *
  have frame : ∀ (v : Bytes) (m : Nat → Bytes), (∀ i ∈ owned, m i = h.mem i) → ∀ i ∈ owned, upd m line v i = h.mem i := by
    intro v m hm i hi'
    have : i ≠ line := fun e => hbo (e ▸ hi')
    rw [upd_other _ _ _ _ this]; exact hm i hi'
  have hsl : ∀ a ∈ ({ elems := [] } : SliceObj) :: g.2, a.PutInv := by
    intro a ha
    simp only [List.mem_cons] at ha
    rcases ha with rfl | ha
    · rfl
    · exact hs a (s1 ▸ hg2 a ha)
  cases hm : j.msg with
  | none =>
    simp only [hel, List.nil_append, upd_same]
    exact ⟨owns_congr rfl rfl o1, trivial, frame _ _ fr, j0, hsl, s2, s3, s4, s5, s6, s7, s8, fl, s9⟩
  | some m =>
    simp only [hel, List.nil_append, upd_same]
    exact ⟨owns_congr rfl rfl o1, trivial, frame _ _ (frame _ _ fr), j0, hsl, s2, s3, s4, s5, s6, s7, s8, fl, s9⟩


/-- the context object's members with the namespaces it owes closed -/
def ctxBytes (p : Parent) (j : CJob) : Bytes :=
  (pureCtx p j.fields).buf ++ List.replicate (pureCtx p j.fields).openNs 125

theorem consoleCtx_spec (orc : Orc) (h : H) (line : Nat) (p : Parent) (j : CJob) (owned : List Nat)
    (ho : Owns h (line :: owned)) (hj : ∀ o ∈ h.jsonPool, o.PutInv) (hf : h.fault = false) :
    Owns (consoleCtx Code.real orc h line p j) (line :: owned) ∧
    (consoleCtx Code.real orc h line p j).mem line =
      (if (ctxBytes p j).isEmpty then h.mem line
       else Console.sepIf j.sepc (h.mem line) ++ 123 :: (ctxBytes p j ++ [125])) ∧
    (∀ i ∈ owned, (consoleCtx Code.real orc h line p j).mem i = h.mem i) ∧
    (∀ o ∈ (consoleCtx Code.real orc h line p j).jsonPool, o.PutInv) ∧
    SameObj h (consoleCtx Code.real orc h line p j) ∧ (consoleCtx Code.real orc h line p j).fault = false := by
  obtain ⟨b, hs0, sp0, n0, m0, run⟩ := clone_run orc h p (line :: owned) ho hj hf
  obtain ⟨e1, mb, nb⟩ := cloneBody_spec orc p j.fields hs0 sp0 n0 m0
  obtain ⟨q2, e2, p2, m2, n2⟩ := closeNs_facts e1.sep'
  obtain ⟨hb, o7, fr, js, so, nf⟩ := run _ (e1.trans e2)
  have hcb : (closeNs (cloneBody orc (cfgCheck (clone Code.real orc h p) p) p j.fields)).h.mem b = ctxBytes p j := by
    rw [m2, mb, nb]; rfl
  have hlo : line ∉ owned := by
    have := ho.1
    simp only [List.nodup_append, List.nodup_cons] at this
    exact this.2.1.1
  unfold consoleCtx
  simp only [hb, Option.getD_some, hcb]
  generalize closeNs (cloneBody orc (cfgCheck (clone Code.real orc h p) p) p j.fields) = s2 at *
  -- the heap after the optional copy into the line
  have key : ∀ h4 : H, h4.bufPool = s2.h.bufPool → h4.next = s2.h.next → h4.jsonPool = s2.h.jsonPool →
      SameObj s2.h h4 → h4.fault = s2.h.fault → (∀ i ∈ owned, h4.mem i = s2.h.mem i) →
      Owns (putJson Code.real (bufFree h4 b) s2.o) (line :: owned) ∧
      (putJson Code.real (bufFree h4 b) s2.o).mem = h4.mem ∧
      (∀ i ∈ owned, (putJson Code.real (bufFree h4 b) s2.o).mem i = h.mem i) ∧
      (∀ o ∈ (putJson Code.real (bufFree h4 b) s2.o).jsonPool, o.PutInv) ∧
      SameObj h (putJson Code.real (bufFree h4 b) s2.o) ∧ (putJson Code.real (bufFree h4 b) s2.o).fault = false := by
    intro h4 k1 k2 k3 k4 k5 k6
    have o4 : Owns h4 (s2.o.reflectBuf.toList ++ b :: (line :: owned)) := owns_congr k1 k2 o7
    have o5 := owns_bufFree h4 b _ _ o4
    obtain ⟨o8, mem8, jp8, so8, f8⟩ := owns_putJson (bufFree h4 b) s2.o (line :: owned) o5
    refine ⟨o8, mem8, ?_, ?_, (so.trans k4).trans ((SameObj.rfl' _).trans so8), by rw [f8]; exact k5.trans nf⟩
    · intro i hi'; rw [mem8]; exact (k6 i hi').trans (fr i (by simp [hi']))
    · intro o ho'
      rw [jp8] at ho'
      simp only [List.mem_cons] at ho'
      rcases ho' with rfl | ho'
      · exact ⟨rfl, rfl⟩
      · exact js o (k3 ▸ ho')
  by_cases hc : (ctxBytes p j).isEmpty
  · simp only [hc, if_true]
    obtain ⟨a1, a2, a3, a4, a5, a6⟩ := key s2.h rfl rfl rfl (SameObj.rfl' _) rfl (fun _ _ => rfl)
    exact ⟨a1, by rw [a2]; exact fr line (by simp), a3, a4, a5, a6⟩
  · simp only [hc, Bool.false_eq_true, ↓reduceIte]
    obtain ⟨a1, a2, a3, a4, a5, a6⟩ := key (setMem s2.h line fun x => Console.sepIf j.sepc x ++ 123 :: (ctxBytes p j ++ [125]))
      rfl rfl rfl (SameObj.rfl' _) rfl (fun i hi' => by
        have : i ≠ line := fun e => hlo (e ▸ hi')
        simp [setMem, upd_other _ _ _ _ this])
    refine ⟨a1, ?_, a3, a4, a5, a6⟩
    rw [a2]
    simp only [setMem, upd_same]
    rw [fr line (by simp)]

theorem consoleCtxPanic_spec (orc : Orc) (h : H) (p : Parent) (fields : List RO) (owned : List Nat)
    (ho : Owns h owned) (hj : ∀ o ∈ h.jsonPool, o.PutInv) (hf : h.fault = false) :
    Owns (consoleCtxPanic Code.real orc h p fields) owned ∧
    (∀ i ∈ owned, (consoleCtxPanic Code.real orc h p fields).mem i = h.mem i) ∧
    (∀ o ∈ (consoleCtxPanic Code.real orc h p fields).jsonPool, o.PutInv) ∧
    SameObj h (consoleCtxPanic Code.real orc h p fields) ∧ (consoleCtxPanic Code.real orc h p fields).fault = false := by
  obtain ⟨b, hs0, sp0, n0, m0, run⟩ := clone_run orc h p owned ho hj hf
  obtain ⟨e1, mb, nb⟩ := cloneBody_spec orc p fields hs0 sp0 n0 m0
  obtain ⟨hb, o7, fr, js, so, nf⟩ := run _ e1
  unfold consoleCtxPanic
  simp only [hb, Option.getD_some]
  generalize cloneBody orc (cfgCheck (clone Code.real orc h p) p) p fields = s2 at *
  have o5 := owns_bufFree s2.h b _ _ o7
  obtain ⟨o8, mem8, jp8, so8, f8⟩ := owns_putJson (bufFree s2.h b) s2.o owned o5
  refine ⟨o8, ?_, ?_, so.trans ((SameObj.rfl' _).trans so8), by rw [f8]; exact nf⟩
  · intro i hi'; rw [mem8]; exact fr i hi'
  · intro o ho'
    rw [jp8] at ho'
    simp only [List.mem_cons] at ho'
    rcases ho' with rfl | ho'
    · exact ⟨rfl, rfl⟩
    · exact js o ho'

theorem consoleTail_spec (h : H) (line : Nat) (j : CJob) :
    (consoleTail h line j).mem line = (match j.stack with | some st => h.mem line ++ 10 :: st | none => h.mem line) ++ j.ending ∧
    (∀ i, i ≠ line → (consoleTail h line j).mem i = h.mem i) ∧
    (consoleTail h line j).bufPool = h.bufPool ∧ (consoleTail h line j).next = h.next ∧
    (consoleTail h line j).jsonPool = h.jsonPool ∧ SameObj h (consoleTail h line j) ∧
    (consoleTail h line j).fault = h.fault := by
  unfold consoleTail
  cases j.stack with
  | none =>
    refine ⟨by simp [setMem, upd_same], fun i hi => by simp [setMem, upd_other _ _ _ _ hi], rfl, rfl, rfl, SameObj.rfl' _, rfl⟩
  | some st =>
    refine ⟨by simp [setMem, upd_same], fun i hi => by simp [setMem, upd_other _ _ _ _ hi], rfl, rfl, rfl, SameObj.rfl' _, rfl⟩


theorem pureConsole_eq (p : Parent) (j : CJob) :
    pureConsole p j =
      (match j.stack with
        | some st => (if (ctxBytes p j).isEmpty then headLine j
                      else Console.sepIf j.sepc (headLine j) ++ 123 :: (ctxBytes p j ++ [125])) ++ 10 :: st
        | none => (if (ctxBytes p j).isEmpty then headLine j
                   else Console.sepIf j.sepc (headLine j) ++ 123 :: (ctxBytes p j ++ [125]))) ++ j.ending := by
  unfold pureConsole headLine ctxBytes pureCtx
  cases j.stack <;> cases j.msg <;> rfl

theorem step_encConsole (orc : Orc) (h : H) (ps : PS) (p : Parent) (j : CJob) (hi : Inv h) (hr : Rel h ps) :
    Inv (stepEncConsole Code.real orc h p j) ∧
    Rel (stepEncConsole Code.real orc h p j) { ps with inflight := pureConsole p j :: ps.inflight } := by
  obtain ⟨a1, a2, a3, a4, a5, a6, a7, a8, a9, a10, a11, a12, a13, a14⟩ :=
    consoleHead_spec orc h j (h.inflight ++ h.live) hi.owns hi.slice
  generalize hline : (consoleHead Code.real orc h j).1 = line at *
  generalize hh3 : (consoleHead Code.real orc h j).2 = h3 at *
  obtain ⟨b1, b2, b3, b4, b5, b6⟩ := consoleCtx_spec orc h3 line p j (h.inflight ++ h.live) a1 (a4 ▸ hi.json) (a13.trans hi.nofault)
  generalize hh5 : consoleCtx Code.real orc h3 line p j = h5 at *
  obtain ⟨c1, c2, c3, c4, c5, c6, c7⟩ := consoleTail_spec h5 line j
  generalize hhF : consoleTail h5 line j = hF at *
  obtain ⟨s1, s2, s3, s4, s5, s6, s7, s8, s9⟩ := b5.trans c6
  have hlo : line ∉ h.inflight ++ h.live := by
    have := a1.1
    simp only [List.nodup_append, List.nodup_cons] at this
    exact this.2.1.1
  have frame : ∀ i ∈ h.inflight ++ h.live, hF.mem i = h.mem i := by
    intro i hi'
    have : i ≠ line := fun e => hlo (e ▸ hi')
    rw [c2 i this, b3 i hi', a3 i hi']
  have hline' : hF.mem line = pureConsole p j := by
    rw [c1, b2, a2, pureConsole_eq]
  simp only [stepEncConsole, encodeConsole, real_free, if_true, hline, hh3, hh5, hhF]
  obtain ⟨r1, r2, r3, r4, r5⟩ := hr
  constructor
  · refine ⟨by rw [c5]; exact b4, by rw [s1]; exact a5, by rw [s5, a9]; exact hi.stack, ce_congr (s2.trans a6) hi.ce,
      fun _ _ => trivial, fun _ _ => trivial, ?_, by rw [c7]; exact b6⟩
    have : Owns hF (line :: (h.inflight ++ h.live)) := owns_congr c3 c4 b1
    simp only [s6, s7, a10, a11]
    exact owns_congr rfl rfl this
  · refine ⟨?_, ?_, by show hF.out = _; rw [s8, a12, r3], view_congr (s2.trans a6) r4, (s9.trans a14).trans r5⟩
    · show List.map hF.mem (line :: hF.inflight) = _
      rw [s6, a10, List.map_cons, hline', map_frame (fun i hi' => frame i (by simp [hi'])), r1]
    · show List.map hF.mem hF.live = _
      rw [s7, a11, map_frame (fun i hi' => frame i (by simp [hi'])), r2]

theorem step_ctxPanic (orc : Orc) (h : H) (ps : PS) (p : Parent) (j : CJob) (hi : Inv h) (hr : Rel h ps) :
    StepOK orc h ps (.ctxPanic p j) := by
  obtain ⟨a1, a2, a3, a4, a5, a6, a7, a8, a9, a10, a11, a12, a13, a14⟩ :=
    consoleHead_spec orc h j (h.inflight ++ h.live) hi.owns hi.slice
  generalize (consoleHead Code.real orc h j).1 = line at *
  generalize hh3 : (consoleHead Code.real orc h j).2 = h3 at *
  obtain ⟨b1, b3, b4, b5, b6⟩ := consoleCtxPanic_spec orc h3 p j.fields (h.inflight ++ h.live)
    (owns_drop (l1 := [line]) a1) (a4 ▸ hi.json) (a13.trans hi.nofault)
  unfold StepOK
  simp only [step, pstep, hh3]
  generalize consoleCtxPanic Code.real orc h3 p j.fields = h5 at *
  obtain ⟨s1, s2, s3, s4, s5, s6, s7, s8, s9⟩ := b5
  obtain ⟨r1, r2, r3, r4, r5⟩ := hr
  constructor
  · refine ⟨b4, by rw [s1]; exact a5, by rw [s5, a9]; exact hi.stack, ce_congr (s2.trans a6) hi.ce, fun _ _ => trivial,
      fun _ _ => trivial, ?_, b6⟩
    simp only [s6, s7, a10, a11]
    exact b1
  · refine ⟨?_, ?_, by rw [s8, a12, r3], view_congr (s2.trans a6) r4, (s9.trans a14).trans r5⟩
    · rw [s6, a10, map_frame (fun i hi' => (b3 i (by simp [hi'])).trans (a3 i (by simp [hi']))), r1]
    · rw [s7, a11, map_frame (fun i hi' => (b3 i (by simp [hi'])).trans (a3 i (by simp [hi']))), r2]

/-! ### the encoder a core holds -/

theorem liveAt_map {α β} (f : α → β) (l : List α) (k : Nat) : liveAt (l.map f) k = (liveAt l k).map f := by
  unfold liveAt
  rw [← List.map_reverse, List.getElem?_map]

theorem liveAt_cons {α} (l : List α) (a v : α) (k : Nat) (h : liveAt l k = some v) : liveAt (a :: l) k = some v := by
  unfold liveAt at *
  have hk : k < l.reverse.length := by
    rcases Nat.lt_or_ge k l.reverse.length with h' | h'
    · exact h'
    · rw [List.getElem?_eq_none_iff.mpr h'] at h; cases h
  rw [List.reverse_cons, List.getElem?_append_left hk]; exact h

/-- under `Rel`, the encoder of the k-th core reads the same in the heap and in the pool-free run -/
theorem parent_eq {h : H} {ps : PS} (hr : Rel h ps) (k : Nat) : parentAt h k = pparentAt ps k := by
  obtain ⟨_, r2, _, _, r5⟩ := hr
  unfold parentAt pparentAt
  rw [← r2, ← r5, liveAt_map]
  cases liveAt h.live k <;> cases liveAt h.liveMeta k <;> rfl

theorem real_ctx : Code.real.contextOnClone = true := rfl

theorem step_ok (orc : Orc) (h : H) (ps : PS) (op : Op) (hi : Inv h) (hr : Rel h ps) : StepOK orc h ps op := by
  cases op with
  | encJson p j => exact step_encJson orc h ps p j hi hr
  | encConsole p j => exact step_encConsole orc h ps p j hi hr
  | encJsonAt k j =>
    have := step_encJson orc h ps (parentAt h k) j hi hr
    rw [parent_eq hr k] at this
    rw [StepOK]; simp only [step, pstep]; rw [parent_eq hr k]; exact this
  | encConsoleAt k j =>
    have := step_encConsole orc h ps (parentAt h k) j hi hr
    rw [StepOK]; simp only [step, pstep, real_ctx, Bool.not_true, Bool.false_and, Bool.false_eq_true, if_false]
    rw [parent_eq hr k] at this ⊢; exact this
  | withAt k f =>
    have := step_withClone orc h ps (parentAt h k) f hi hr
    rw [StepOK]; simp only [step, pstep]
    rw [parent_eq hr k] at this ⊢; exact this
  | deliver i => exact step_deliver orc h ps i hi hr
  | withClone p f => exact step_withClone orc h ps p f hi hr
  | peek i => exact step_peek orc h ps i hi hr
  | check e c a eo w => exact step_check orc h ps e c a eo w hi hr
  | hookReturn i => exact step_hookReturn orc h ps i hi hr
  | errElem z e => exact step_errElem orc h ps z e hi hr
  | capture a f => exact step_capture orc h ps a f hi hr
  | scratch s => exact step_scratch orc h ps s hi hr
  | ctxPanic p j => exact step_ctxPanic orc h ps p j hi hr
  | gc k => exact step_gc orc h ps k hi hr

theorem run_ok (orc : Orc) : ∀ (ops : List Op) (h : H) (ps : PS), Inv h → Rel h ps →
    Inv (run Code.real orc h ops) ∧ Rel (run Code.real orc h ops) (prun ps ops)
  | [], _, _, hi, hr => ⟨hi, hr⟩
  | op :: r, h, ps, hi, hr => by
    obtain ⟨i1, r1⟩ := step_ok orc h ps op hi hr
    exact run_ok orc r _ _ i1 r1

theorem inv_empty : Inv H.empty :=
  ⟨by simp [H.empty], by simp [H.empty], by simp [H.empty], by simp [H.empty], by simp [H.empty], by simp [H.empty],
   by simp [H.empty, Owns], rfl⟩

/-- the pool-free state a heap stands for -/
def psOf (h : H) : PS := ⟨h.inflight.map h.mem, h.live.map h.mem, ceView h.ceh, h.out, h.liveMeta⟩

theorem rel_self (h : H) : Rel h (psOf h) := ⟨rfl, rfl, rfl, rfl, rfl⟩

theorem rel_empty : Rel H.empty PS.empty := ⟨rfl, rfl, rfl, rfl, rfl⟩


/-! ### a Write in flight while other operations run -/

theorem pstep_inflight (s : PS) (op : Op) : (pstep s op).inflight =
    (match op with
     | .encJson p j => pureJson p j :: s.inflight
     | .encConsole p j => pureConsole p j :: s.inflight
     | .encJsonAt k j => pureJson (pparentAt s k) j :: s.inflight
     | .encConsoleAt k j => pureConsole (pparentAt s k) j :: s.inflight
     | .deliver i => (match s.inflight[i]? with | some _ => s.inflight.eraseIdx i | none => s.inflight)
     | _ => s.inflight) := by
  cases op with
  | deliver i => simp only [pstep]; cases s.inflight[i]? <;> rfl
  | peek i => simp only [pstep]; cases s.live[i]? <;> rfl
  | check e c a eo w => simp only [pstep]; cases w <;> cases a <;> rfl
  | hookReturn i => simp only [pstep]; cases s.inHook[i]? <;> rfl
  | _ => rfl

theorem pstep_inHook (s : PS) (op : Op) : (pstep s op).inHook =
    (match op with
     | .check e _ (some a) _ true => (e, some a) :: s.inHook
     | .hookReturn i => (match s.inHook[i]? with | some _ => s.inHook.eraseIdx i | none => s.inHook)
     | _ => s.inHook) := by
  cases op with
  | deliver i => simp only [pstep]; cases s.inflight[i]? <;> rfl
  | peek i => simp only [pstep]; cases s.live[i]? <;> rfl
  | check e c a eo w => simp only [pstep]; cases w <;> cases a <;> rfl
  | hookReturn i => simp only [pstep]; cases s.inHook[i]? <;> rfl
  | _ => rfl

theorem erase_prefix {α} (pre : List α) (x : α) (rest : List α) (i : Nat) (hi : i < pre.length) :
    (pre ++ x :: rest)[i]? = some pre[i] ∧ (pre ++ x :: rest).eraseIdx i = pre.eraseIdx i ++ x :: rest ∧
    (pre.eraseIdx i).length = pre.length - 1 := by
  refine ⟨by rw [List.getElem?_append_left hi]; simp, List.eraseIdx_append_of_lt_length hi _, ?_⟩
  rw [List.length_eraseIdx]; simp [hi]

/-- a Write in flight stays where it is while `nested` operations run -/
theorem prun_nested : ∀ (mid : List Op) (d : Nat) (s : PS) (pre : List Bytes) (x : Bytes) (rest : List Bytes),
    s.inflight = pre ++ x :: rest → pre.length = d → nested d mid = true → (prun s mid).inflight = x :: rest
  | [], d, s, pre, x, rest, hs, hd, hn => by
    simp only [nested, beq_iff_eq] at hn
    subst hn
    have : pre = [] := List.length_eq_zero_iff.mp hd
    subst this
    simpa [prun] using hs
  | op :: r, d, s, pre, x, rest, hs, hd, hn => by
    have hi := pstep_inflight s op
    show (prun (pstep s op) r).inflight = x :: rest
    cases op with
    | encJson p j => exact prun_nested r (d + 1) _ (_ :: pre) x rest (by rw [hi, hs]; rfl) (by simp [hd]) (by simpa [nested] using hn)
    | encConsole p j => exact prun_nested r (d + 1) _ (_ :: pre) x rest (by rw [hi, hs]; rfl) (by simp [hd]) (by simpa [nested] using hn)
    | encJsonAt k j => exact prun_nested r (d + 1) _ (_ :: pre) x rest (by rw [hi, hs]; rfl) (by simp [hd]) (by simpa [nested] using hn)
    | encConsoleAt k j => exact prun_nested r (d + 1) _ (_ :: pre) x rest (by rw [hi, hs]; rfl) (by simp [hd]) (by simpa [nested] using hn)
    | deliver i =>
      simp only [nested, Bool.and_eq_true, decide_eq_true_eq] at hn
      obtain ⟨e1, e2, e3⟩ := erase_prefix pre x rest i (by omega)
      exact prun_nested r (d - 1) _ (pre.eraseIdx i) x rest (by rw [hi]; simp only [hs, e1, e2]) (by omega) hn.2
    | withClone p f => exact prun_nested r d _ pre x rest (by rw [hi, hs]) hd (by simpa [nested] using hn)
    | withAt k f => exact prun_nested r d _ pre x rest (by rw [hi, hs]) hd (by simpa [nested] using hn)
    | peek i => exact prun_nested r d _ pre x rest (by rw [hi, hs]) hd (by simpa [nested] using hn)
    | check e c a eo w => exact prun_nested r d _ pre x rest (by rw [hi, hs]) hd (by simpa [nested] using hn)
    | hookReturn i => exact prun_nested r d _ pre x rest (by rw [hi, hs]) hd (by simpa [nested] using hn)
    | errElem z e => exact prun_nested r d _ pre x rest (by rw [hi, hs]) hd (by simpa [nested] using hn)
    | capture a f => exact prun_nested r d _ pre x rest (by rw [hi, hs]) hd (by simpa [nested] using hn)
    | scratch b => exact prun_nested r d _ pre x rest (by rw [hi, hs]) hd (by simpa [nested] using hn)
    | ctxPanic p j => exact prun_nested r d _ pre x rest (by rw [hi, hs]) hd (by simpa [nested] using hn)
    | gc g => exact prun_nested r d _ pre x rest (by rw [hi, hs]) hd (by simpa [nested] using hn)

/-- a running hook's entry stays where it is while `hnested` operations run -/
theorem prun_hnested : ∀ (mid : List Op) (d : Nat) (s : PS) (pre : List (Nat × Option Nat)) (v : Nat × Option Nat)
    (rest : List (Nat × Option Nat)),
    s.inHook = pre ++ v :: rest → pre.length = d → hnested d mid = true → (prun s mid).inHook = v :: rest
  | [], d, s, pre, v, rest, hs, hd, hn => by
    simp only [hnested, beq_iff_eq] at hn
    subst hn
    have : pre = [] := List.length_eq_zero_iff.mp hd
    subst this
    simpa [prun] using hs
  | op :: r, d, s, pre, v, rest, hs, hd, hn => by
    have hi := pstep_inHook s op
    show (prun (pstep s op) r).inHook = v :: rest
    cases op with
    | check e c a eo w =>
      cases w with
      | false => exact prun_hnested r d _ pre v rest (by rw [hi]; cases a <;> exact hs) hd (by cases a <;> simpa [hnested] using hn)
      | true =>
        cases a with
        | none => exact prun_hnested r d _ pre v rest (by rw [hi, hs]) hd (by simpa [hnested] using hn)
        | some a => exact prun_hnested r (d + 1) _ (_ :: pre) v rest (by rw [hi, hs]; rfl) (by simp [hd]) (by simpa [hnested] using hn)
    | hookReturn i =>
      simp only [hnested, Bool.and_eq_true, decide_eq_true_eq] at hn
      obtain ⟨e1, e2, e3⟩ := erase_prefix pre v rest i (by omega)
      exact prun_hnested r (d - 1) _ (pre.eraseIdx i) v rest (by rw [hi]; simp only [hs, e1, e2]) (by omega) hn.2
    | encJson p j => exact prun_hnested r d _ pre v rest (by rw [hi, hs]) hd (by simpa [hnested] using hn)
    | encConsole p j => exact prun_hnested r d _ pre v rest (by rw [hi, hs]) hd (by simpa [hnested] using hn)
    | encJsonAt k j => exact prun_hnested r d _ pre v rest (by rw [hi, hs]) hd (by simpa [hnested] using hn)
    | encConsoleAt k j => exact prun_hnested r d _ pre v rest (by rw [hi, hs]) hd (by simpa [hnested] using hn)
    | deliver i => exact prun_hnested r d _ pre v rest (by rw [hi, hs]) hd (by simpa [hnested] using hn)
    | withClone p f => exact prun_hnested r d _ pre v rest (by rw [hi, hs]) hd (by simpa [hnested] using hn)
    | withAt k f => exact prun_hnested r d _ pre v rest (by rw [hi, hs]) hd (by simpa [hnested] using hn)
    | peek i => exact prun_hnested r d _ pre v rest (by rw [hi, hs]) hd (by simpa [hnested] using hn)
    | errElem z e => exact prun_hnested r d _ pre v rest (by rw [hi, hs]) hd (by simpa [hnested] using hn)
    | capture a f => exact prun_hnested r d _ pre v rest (by rw [hi, hs]) hd (by simpa [hnested] using hn)
    | scratch b => exact prun_hnested r d _ pre v rest (by rw [hi, hs]) hd (by simpa [hnested] using hn)
    | ctxPanic p j => exact prun_hnested r d _ pre v rest (by rw [hi, hs]) hd (by simpa [hnested] using hn)
    | gc g => exact prun_hnested r d _ pre v rest (by rw [hi, hs]) hd (by simpa [hnested] using hn)

/-- the pool-free run never changes an existing core's encoder: it only adds new ones -/
theorem pstep_live_stable (s : PS) (op : Op) (k : Nat) : ∀ b m, liveAt s.live k = some b → liveAt s.liveMeta k = some m →
    liveAt (pstep s op).live k = some b ∧ liveAt (pstep s op).liveMeta k = some m := by
  intro b m hb hm
  cases op with
  | withClone p f => exact ⟨liveAt_cons _ _ _ _ hb, liveAt_cons _ _ _ _ hm⟩
  | withAt k' f => exact ⟨liveAt_cons _ _ _ _ hb, liveAt_cons _ _ _ _ hm⟩
  | deliver i => simp only [pstep]; cases s.inflight[i]? <;> exact ⟨hb, hm⟩
  | peek i => simp only [pstep]; cases s.live[i]? <;> exact ⟨hb, hm⟩
  | check e c a eo w => simp only [pstep]; cases w <;> cases a <;> exact ⟨hb, hm⟩
  | hookReturn i => simp only [pstep]; cases s.inHook[i]? <;> exact ⟨hb, hm⟩
  | _ => exact ⟨hb, hm⟩

theorem prun_live_stable : ∀ (ops : List Op) (s : PS) (k : Nat) (b : Bytes) (m : LiveMeta),
    liveAt s.live k = some b → liveAt s.liveMeta k = some m →
    liveAt (prun s ops).live k = some b ∧ liveAt (prun s ops).liveMeta k = some m
  | [], _, _, _, _, hb, hm => ⟨hb, hm⟩
  | op :: r, s, k, b, m, hb, hm => by
    obtain ⟨h1, h2⟩ := pstep_live_stable s op k b m hb hm
    exact prun_live_stable r (pstep s op) k b m h1 h2

theorem prun_append (s : PS) (a b : List Op) : prun s (a ++ b) = prun (prun s a) b := by
  simp [prun, List.foldl_append]

theorem putJson_mem (c : Code) (h : H) (o : JsonObj) : (putJson c h o).mem = h.mem := by
  unfold putJson; cases o.reflectBuf <;> rfl


theorem liveAt_new {α} (l : List α) (a : α) : liveAt (a :: l) l.length = some a := by
  unfold liveAt
  rw [List.reverse_cons, List.getElem?_append_right (by simp)]
  simp

theorem pstep_len (s : PS) (op : Op) (h : s.live.length = s.liveMeta.length) :
    (pstep s op).live.length = (pstep s op).liveMeta.length := by
  cases op with
  | withClone p f => simp [pstep, pstepWith, h]
  | withAt k f => simp [pstep, pstepWith, h]
  | deliver i => simp only [pstep]; cases s.inflight[i]? <;> exact h
  | peek i => simp only [pstep]; cases s.live[i]? <;> exact h
  | check e c a eo w => simp only [pstep]; cases w <;> cases a <;> exact h
  | hookReturn i => simp only [pstep]; cases s.inHook[i]? <;> exact h
  | _ => exact h

theorem prun_len : ∀ (ops : List Op) (s : PS), s.live.length = s.liveMeta.length →
    (prun s ops).live.length = (prun s ops).liveMeta.length
  | [], _, h => h
  | op :: r, s, h => prun_len r (pstep s op) (pstep_len s op h)

/-- the encoder of a core made by `With` reads, at any later time, exactly as it was made -/
theorem pparent_after (s0 : PS) (hl : s0.live.length = s0.liveMeta.length) (p : Parent) (fields : List RO) (mid : List Op) :
    pparentAt (prun (pstepWith s0 p fields) mid) s0.live.length =
      ⟨p.cfg, p.spaced, (pureCtx p fields).buf, (pureCtx p fields).openNs⟩ := by
  have h1 : liveAt (pstepWith s0 p fields).live s0.live.length = some (pureCtx p fields).buf := liveAt_new _ _
  have h2 : liveAt (pstepWith s0 p fields).liveMeta s0.live.length = some ⟨p.cfg, p.spaced, (pureCtx p fields).openNs⟩ := by
    rw [hl]; exact liveAt_new _ _
  obtain ⟨a, b⟩ := prun_live_stable mid _ _ _ _ h1 h2
  unfold pparentAt
  rw [a, b]

end ZapVerif.Pools
