import ZapVerif.Proofs.Drf
/-! Data-race freedom for the remaining disciplines: atomics only, single owner, sync.Once publication,
    immutable after publication, publication through a later critical section. -/
namespace ZapVerif.Sync

/-! ### 3. atomics only, 4. single owner -/

/-- **atomic_only_drf**: a variable that is only ever accessed through sync/atomic has no data race
    (immediate from the definition of a conflict: two atomic operations never form a race). -/
theorem atomic_only_drf (x : Var) (tr : List Ev) (h : AtomicOnly x tr) : DRF tr x := by
  rintro ⟨i, j, a, b, _, ha, hb, hc, _⟩
  obtain ⟨hax, hbx, _, hna, _⟩ := conflict_parts hc
  exact hna ⟨h a (evAt_mem ha) hax, h b (evAt_mem hb) hbx⟩

/-- **owner_only_drf**: a variable touched by one goroutine only (an object not yet shared, e.g. a fresh
    clone under construction) has no data race. -/
theorem owner_only_drf (x : Var) (c : Tid) (tr : List Ev) (h : OwnerOnly x c tr) : DRF tr x := by
  rintro ⟨i, j, a, b, _, ha, hb, hc, _⟩
  obtain ⟨hax, hbx, _, _, hne⟩ := conflict_parts hc
  exact hne ((h a (evAt_mem ha) hax).trans (h b (evAt_mem hb) hbx).symm)

/-! ### 5. sync.Once publication -/

theorem onceSt_access {x : Var} {a : Ev} (o : OnceId) (pre : List Ev) (hax : a.touches x = true) :
    onceSt o (a :: pre) = onceSt o pre := by
  cases a <;> simp [Ev.touches] at hax <;> simp [onceSt]

theorem passed_access {x : Var} {a : Ev} (o : OnceId) (t : Tid) (pre : List Ev) (hax : a.touches x = true) :
    passed o t (a :: pre) = passed o t pre := by
  cases a <;> simp [Ev.touches] at hax <;> simp [passed]

/-- `done` is final -/
theorem once_done_stable (o : OnceId) (tr : List Ev) : ∀ mid, WF (mid ++ tr) →
    onceSt o tr = .done → onceSt o (mid ++ tr) = .done
  | [], _, h => by simpa using h
  | e :: mid, hwf, h => by
    have ih := once_done_stable o tr mid hwf.1 h
    have hok := hwf.2
    cases e with
    | onceBegin t o' =>
      by_cases ho : o' = o
      · subst ho; simp [okStep, ih] at hok
      · simpa [onceSt, ho] using ih
    | onceEnd t o' =>
      by_cases ho : o' = o
      · subst ho; simp [onceSt]
      · simpa [onceSt, ho] using ih
    | _ => simpa [onceSt] using ih

/-- once running under s, the once stays with s until it is done -/
theorem once_running_stable (o : OnceId) (s : Tid) (tr : List Ev) : ∀ mid, WF (mid ++ tr) →
    onceSt o tr = .running s → onceSt o (mid ++ tr) = .running s ∨ onceSt o (mid ++ tr) = .done
  | [], _, h => Or.inl (by simpa using h)
  | e :: mid, hwf, h => by
    have ih := once_running_stable o s tr mid hwf.1 h
    have hok := hwf.2
    cases e with
    | onceBegin t o' =>
      by_cases ho : o' = o
      · subst ho; rcases ih with ih | ih <;> simp [okStep, ih] at hok
      · simpa [onceSt, ho] using ih
    | onceEnd t o' =>
      by_cases ho : o' = o
      · subst ho; simp [onceSt]
      · simpa [onceSt, ho] using ih
    | _ => simpa [onceSt] using ih

/-- running under s, later done ⇒ the `onceEnd s o` lies in between -/
theorem onceEnd_between (o : OnceId) (s : Tid) (tr : List Ev) : ∀ mid, WF (mid ++ tr) →
    onceSt o tr = .running s → onceSt o (mid ++ tr) = .done →
    ∃ mid2 mid1, mid = mid2 ++ Ev.onceEnd s o :: mid1
  | [], _, h, hd => by simp [h] at hd
  | e :: mid, hwf, h, hd => by
    by_cases hh : onceSt o (mid ++ tr) = .done
    · obtain ⟨m2, m1, hs⟩ := onceEnd_between o s tr mid hwf.1 h hh
      exact ⟨e :: m2, m1, by simp [hs]⟩
    · have hr : onceSt o (mid ++ tr) = .running s := by
        rcases once_running_stable o s tr mid hwf.1 h with h' | h'
        · exact h'
        · exact absurd h' hh
      have hok := hwf.2
      cases e with
      | onceEnd t o' =>
        by_cases ho : o' = o
        · subst ho; simp [okStep, hr] at hok; subst hok; exact ⟨[], mid, rfl⟩
        · exact absurd (by simpa [onceSt, ho] using hd) hh
      | onceBegin t o' =>
        by_cases ho : o' = o
        · subst ho; simp [onceSt] at hd
        · exact absurd (by simpa [onceSt, ho] using hd) hh
      | _ => exact absurd (by simpa [onceSt] using hd) hh

/-- whoever passed `Do(o)` saw the once done -/
theorem passed_done (o : OnceId) (t : Tid) : ∀ tr, WF tr → passed o t tr = true → onceSt o tr = .done
  | [], _, h => by simp [passed] at h
  | e :: tr, hwf, h => by
    have hok := hwf.2
    by_cases hp : passed o t tr = true
    · exact once_done_stable o tr [e] hwf (passed_done o t tr hwf.1 hp)
    · cases e with
      | onceEnd t' o' =>
        simp [passed, hp] at h
        obtain ⟨_, ho⟩ := h; subst ho; simp [onceSt]
      | onceRet t' o' =>
        simp [passed, hp] at h
        obtain ⟨_, ho⟩ := h; subst ho
        simpa [okStep, onceSt] using hok
      | _ => simp [passed, hp] at h

/-- t had not passed after `tr` but has after `mid ++ tr`: the passing event lies in `mid` -/
theorem pass_between (o : OnceId) (t : Tid) (tr : List Ev) : ∀ mid,
    passed o t tr = false → passed o t (mid ++ tr) = true →
    ∃ mid2 mid1, mid = mid2 ++ Ev.onceEnd t o :: mid1 ∨ mid = mid2 ++ Ev.onceRet t o :: mid1
  | [], hn, h => by simp [hn] at h
  | e :: mid, hn, h => by
    by_cases hh : passed o t (mid ++ tr) = true
    · obtain ⟨m2, m1, hs⟩ := pass_between o t tr mid hn hh
      exact ⟨e :: m2, m1, hs.imp (by intro h; simp [h]) (by intro h; simp [h])⟩
    · cases e with
      | onceEnd t' o' =>
        simp [passed, hh] at h
        obtain ⟨ht, ho⟩ := h; subst ht; subst ho; exact ⟨[], mid, Or.inl rfl⟩
      | onceRet t' o' =>
        simp [passed, hh] at h
        obtain ⟨ht, ho⟩ := h; subst ht; subst ho; exact ⟨[], mid, Or.inr rfl⟩
      | _ => simp [passed, hh] at h

theorem OnceGuarded_suffix (x : Var) (o : OnceId) (post tr : List Ev) (h : OnceGuarded x o (post ++ tr)) :
    OnceGuarded x o tr := by
  induction post with
  | nil => simpa using h
  | cons e post ih => exact ih h.1

/-- **once_publish_drf**: x written only inside the function passed to `o.Do`, read only there or by a
    goroutine that has already returned from a `Do(o)` call ⇒ no data race on x. -/
theorem once_publish_drf (x : Var) (o : OnceId) (tr : List Ev) (hwf : WF tr) (hg : OnceGuarded x o tr) :
    DRF tr x := by
  rintro ⟨i, j, a, b, hij, ha, hb, hc, hn⟩
  obtain ⟨hax, hbx, hw, _, hne⟩ := conflict_parts hc
  obtain ⟨post, mid, pre, ht, hli, hlj⟩ := race_split hij ha hb
  subst ht
  have hwfb : WF (b :: (mid ++ a :: pre)) := WF_suffix post _ hwf
  have hgb : OnceGuarded x o (b :: (mid ++ a :: pre)) := OnceGuarded_suffix x o post _ hg
  have hwfm : WF (mid ++ a :: pre) := hwfb.1
  have hwfa : WF (a :: pre) := WF_suffix mid _ hwfm
  have hga : OnceGuarded x o (a :: pre) := OnceGuarded_suffix x o mid _ hgb.1
  have gb := hgb.2 hbx
  have ga := hga.2 hax
  have hoa := onceSt_access o pre hax
  rcases ga with ga | ⟨garw, gap⟩
  · -- a inside the once body (goroutine a.tid is running it)
    have hrun : onceSt o (a :: pre) = .running a.tid := by rw [hoa]; exact ga
    rcases gb with gb | ⟨gbrw, gbp⟩
    · -- b inside the body too: same goroutine
      rcases once_running_stable o a.tid (a :: pre) mid hwfm hrun with h | h
      · rw [h] at gb; exact hne (by simpa using gb)
      · rw [h] at gb; simp at gb
    · -- b after a `Do` return: a —po→ onceEnd —sw→ onceRet —po→ b
      have hnp : passed o b.tid (a :: pre) = false := by
        cases hp : passed o b.tid (a :: pre) with
        | false => rfl
        | true => have := passed_done o b.tid _ hwfa hp; rw [hrun] at this; simp at this
      obtain ⟨m2, m1, hs⟩ := pass_between o b.tid (a :: pre) mid hnp gbp
      rcases hs with hs | hs
      · -- b's goroutine ended the once itself: impossible, a.tid runs it
        subst hs
        have hwf2 : WF (Ev.onceEnd b.tid o :: (m1 ++ a :: pre)) := WF_suffix m2 _ (by simpa using hwfm)
        have h2 := hwf2.2
        simp [okStep] at h2
        rcases once_running_stable o a.tid (a :: pre) m1 hwf2.1 hrun with h | h
        · rw [h] at h2; exact hne (by simpa using h2)
        · rw [h] at h2; simp at h2
      · subst hs
        have hwf2 : WF (Ev.onceRet b.tid o :: (m1 ++ a :: pre)) := WF_suffix m2 _ (by simpa using hwfm)
        have h2 := hwf2.2
        simp [okStep] at h2
        obtain ⟨m4, m3, hs⟩ := onceEnd_between o a.tid (a :: pre) m1 hwf2.1 hrun h2
        subst hs
        have := chain_of_split
          (tr := post ++ b :: ((m2 ++ Ev.onceRet b.tid o :: (m4 ++ Ev.onceEnd a.tid o :: m3)) ++ a :: pre))
          (post := post) (mid4 := m2) (mid3 := m4) (mid1 := m3) (pre := pre) (a := a) (r := Ev.onceEnd a.tid o)
          (g := Ev.onceRet b.tid o) (b := b) (by simp) rfl (by simp [sw]) rfl
        apply hn
        rw [← hli, ← hlj]
        simpa using this
  · -- a is a read after a `Do` return: the once is done, so b cannot be inside the body; b is a read too
    have hdone : onceSt o (a :: pre) = .done := by
      rw [hoa]; exact passed_done o a.tid pre hwfa.1 gap
    have hdone' := once_done_stable o (a :: pre) mid hwfm hdone
    rcases gb with gb | ⟨gbrw, _⟩
    · rw [hdone'] at gb; simp at gb
    · rcases hw with h | h
      · rw [garw] at h; simp at h
      · rw [gbrw] at h; simp at h

/-! ### 6. immutable after publication -/

/-- x is written only by goroutine c; every access by another goroutine has a *publication point*: an
    event g of c that is not before any write to x and happens-before that access -/
def PublishedBy (x : Var) (c : Tid) (tr : List Ev) : Prop :=
  (∀ e ∈ tr, e.touches x = true → e.isWrite = true → e.tid = c) ∧
  (∀ j b, evAt tr j = some b → b.touches x = true → b.tid ≠ c →
    ∃ g eg, evAt tr g = some eg ∧ eg.tid = c ∧ HB tr g j ∧
      ∀ i a, evAt tr i = some a → a.touches x = true → a.isWrite = true → i ≤ g)

/-- **immutable_after_publish_drf**: all writes by the constructing goroutine, and the object handed over
    (by whatever synchronisation: `go`, a mutex, a channel) only after the last write ⇒ no data race. -/
theorem immutable_after_publish_drf (x : Var) (c : Tid) (tr : List Ev) (h : PublishedBy x c tr) :
    DRF tr x := by
  obtain ⟨hown, hpub⟩ := h
  rintro ⟨i, j, a, b, hij, ha, hb, hc, hn⟩
  obtain ⟨hax, hbx, hw, _, hne⟩ := conflict_parts hc
  rcases hw with hw | hw
  · -- the earlier access is the write
    have hac := hown a (evAt_mem ha) hax hw
    have hbc : b.tid ≠ c := by intro h; exact hne (hac.trans h.symm)
    obtain ⟨g, eg, heg, hegc, hgj, hlast⟩ := hpub j b hb hbx hbc
    have hig := hlast i a ha hax hw
    rcases Nat.lt_or_ge i g with hlt | hge
    · exact hn (.trans (.po hlt ha heg (hac.trans hegc.symm)) hgj)
    · have : i = g := by omega
      subst this; exact hn hgj
  · -- the later access is the write: the earlier (foreign) access would need a publication point after it
    have hbc := hown b (evAt_mem hb) hbx hw
    have hac : a.tid ≠ c := by intro h; exact hne (h.trans hbc.symm)
    obtain ⟨g, eg, _, _, hgi, hlast⟩ := hpub i a ha hax hac
    have := hlast j b hb hbx hw
    have := HB_lt hgi
    omega

/-- instance: publication by `go` — every foreign access is made by a goroutine that c started after its
    last write to x -/
theorem fork_publish_drf (x : Var) (c : Tid) (tr : List Ev)
    (hown : ∀ e ∈ tr, e.touches x = true → e.isWrite = true → e.tid = c)
    (hfork : ∀ j b, evAt tr j = some b → b.touches x = true → b.tid ≠ c →
      ∃ g, g < j ∧ evAt tr g = some (.fork c b.tid) ∧
        ∀ i a, evAt tr i = some a → a.touches x = true → a.isWrite = true → i ≤ g) :
    DRF tr x := by
  apply immutable_after_publish_drf x c tr
  refine ⟨hown, ?_⟩
  intro j b hb hbx hbc
  obtain ⟨g, hgj, heg, hlast⟩ := hfork j b hb hbx hbc
  exact ⟨g, _, heg, rfl, .sw hgj heg hb (by simp [sw]), hlast⟩

/-! ### 7. publication through a later critical section (write-once state initialised under a lock) -/

theorem evAt_append_ge {tr : List Ev} {k : Nat} {e : Ev} : ∀ post : List Ev, tr.length ≤ k →
    evAt (post ++ tr) k = some e → ∃ p2 p1, post = p2 ++ e :: p1 ∧ (p1 ++ tr).length = k
  | [], hk, h => by have := evAt_lt (by simpa using h); omega
  | e' :: post, hk, h => by
    simp only [List.cons_append, evAt] at h
    split at h
    · rename_i heq
      simp at h; subst h
      exact ⟨[], post, rfl, heq.symm⟩
    · obtain ⟨p2, p1, hs, hl⟩ := evAt_append_ge post hk h
      exact ⟨e' :: p2, p1, by simp [hs], hl⟩

/-- writes to x inside exclusive critical sections of m; every other access is inside a critical
    section of m too, or is a read that is program-ordered after a `Lock(m)` of its own goroutine which
    is later than every write to x of the whole trace (the goroutine saw the "initialised" flag under the
    lock and x is never written again) -/
def LockPublished (x : Var) (m : Lock) (tr : List Ev) : Prop :=
  ∀ post b pre, tr = post ++ b :: pre → b.touches x = true →
    holder m pre = some b.tid ∨
    (b.isWrite = false ∧ ∃ g, evAt pre g = some (.acq b.tid m) ∧
      ∀ i a, evAt tr i = some a → a.touches x = true → a.isWrite = true → i < g)

/-- **lock_publish_drf**: state written under a mutex and read either under that mutex or after a later
    critical section of it (with no write after that) has no data race. -/
theorem lock_publish_drf (x : Var) (m : Lock) (tr : List Ev) (hwf : WF tr)
    (hg : LockPublished x m tr) : DRF tr x := by
  rintro ⟨i, j, a, b, hij, ha, hb, hc, hn⟩
  obtain ⟨hax, hbx, hw, _, hne⟩ := conflict_parts hc
  obtain ⟨post, mid, pre, ht, hli, hlj⟩ := race_split hij ha hb
  subst ht
  have hwfm : WF (mid ++ a :: pre) := (WF_suffix post _ hwf).1
  have gb := hg post b (mid ++ a :: pre) rfl hbx
  have ga := hg (post ++ b :: mid) a pre (by simp) hax
  have hha := holder_access m pre hax
  have hxa : holder m pre = some a.tid := by
    rcases ga with ga | ⟨garw, g, hg1, hg2⟩
    · exact ga
    · have hbw : b.isWrite = true := by
        rcases hw with h | h
        · rw [garw] at h; simp at h
        · exact h
      have h1 := hg2 j b hb hbx hbw
      have h2 := evAt_lt hg1
      omega
  rcases gb with gb | ⟨gbrw, g, hg1, hg2⟩
  · apply hn; rw [← hli, ← hlj]
    exact cs_chain m post mid pre a b hha hwfm hxa hne (Or.inl gb)
  · have haw : a.isWrite = true := by
      rcases hw with h | h
      · exact h
      · rw [gbrw] at h; simp at h
    have hig := hg2 i a ha hax haw
    obtain ⟨m4, m3, hs, hl⟩ := evAt_append_ge (tr := a :: pre) mid (by simp; omega) hg1
    subst hs
    have hwf2 : WF (Ev.acq b.tid m :: (m3 ++ a :: pre)) := WF_suffix m4 _ (by simpa using hwfm)
    have hfree : holder m (m3 ++ a :: pre) = none := by
      have := hwf2.2; simp [okStep] at this; exact this.1
    obtain ⟨m2, m1, hs⟩ := rel_between m a.tid (a :: pre) m3 hwf2.1 (by rw [hha]; exact hxa) (by rw [hfree]; simp)
    subst hs
    have := chain_of_split
      (tr := post ++ b :: ((m4 ++ Ev.acq b.tid m :: (m2 ++ Ev.rel a.tid m :: m1)) ++ a :: pre))
      (post := post) (mid4 := m4) (mid3 := m2) (mid1 := m1) (pre := pre) (a := a) (r := Ev.rel a.tid m)
      (g := Ev.acq b.tid m) (b := b) (by simp) rfl (by simp [sw]) rfl
    apply hn
    rw [← hli, ← hlj]
    simpa using this

end ZapVerif.Sync
