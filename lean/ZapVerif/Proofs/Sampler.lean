import Mathlib.Algebra.Order.Group.Nat
import ZapVerif.Model.Sampler
import ZapVerif.Model.SamplerConc
/-! helper lemmas for C11 (sampler): window arithmetic, refinement of the window specification,
    per-key projection, and the invariant of the atomic-step machine. -/
namespace ZapVerif.Sampler

/-! ## one cell -/

theorem inc_open (c : Cell) (t tick : Int) (h : t < c.resetAt) :
    inc c t tick = ({ c with n := c.n + 1 }, c.n + 1) := by
  simp [inc, h]

theorem inc_new (c : Cell) (t tick : Int) (h : c.resetAt ≤ t) :
    inc c t tick = ({ resetAt := t + tick, n := 1 }, 1) := by
  have : ¬ (t < c.resetAt) := by omega
  simp [inc, this]

/-- inside an open window the run just counts on -/
theorem cellRun_open (c : Cell) (tick : Int) (ts : List Int) (h : ∀ t ∈ ts, t < c.resetAt) :
    cellRun c tick ts = List.range' (c.n + 1) ts.length ∧
    cellAfter c tick ts = { c with n := c.n + ts.length } := by
  induction ts generalizing c with
  | nil => simp [cellRun, cellAfter]
  | cons t ts ih =>
    have ht : t < c.resetAt := h t (by simp)
    have hr := ih { c with n := c.n + 1 } (fun x hx => h x (by simp [hx]))
    simp only [cellRun, cellAfter, inc_open c t tick ht, List.length_cons, List.range'_succ]
    refine ⟨by rw [hr.1], ?_⟩
    rw [hr.2]; simp; omega

/-! ## admission arithmetic -/

theorem allows_iff (N M n : Nat) : allows N M n = true ↔ n ≤ N ∨ (M ≠ 0 ∧ (n - N) % M = 0) := by
  simp only [allows]
  by_cases h : n ≤ N
  · have : ¬ n > N := by omega
    simp [h, this]
  · have h' : n > N := by omega
    by_cases hM : M = 0
    · simp [h, h', hM]
    · simp [h, h', hM]

/-- number allowed among positions 1..k of one window -/
def passed (N M : Nat) : Nat → Nat
  | 0 => 0
  | k + 1 => passed N M k + (if allows N M (k + 1) then 1 else 0)

theorem allows_le {N M n : Nat} (h : n ≤ N) : allows N M n = true := by
  rw [allows_iff]; exact Or.inl h

theorem passed_le (N M k : Nat) (h : k ≤ N) : passed N M k = k := by
  induction k with
  | zero => rfl
  | succ k ih => simp [passed, ih (by omega), allows_le h]

/-- closed form: first N, then every M-th -/
theorem passed_closed (N M d : Nat) :
    passed N M (N + d) = N + (if M = 0 then 0 else d / M) := by
  induction d with
  | zero => simp [passed_le]
  | succ d ih =>
    have : N + (d + 1) = (N + d) + 1 := by omega
    rw [this, passed, ih]
    by_cases hM : M = 0
    · subst hM; simp [allows]; omega
    · simp only [hM, if_false]
      have h1 : N + d + 1 > N := by omega
      have h2 : N + d + 1 - N = d + 1 := by omega
      rw [Nat.succ_div]
      simp only [allows, h1, h2, decide_true, Bool.true_and]
      by_cases hd : M ∣ d + 1
      · have : (d + 1) % M = 0 := Nat.mod_eq_zero_of_dvd hd
        simp [hM, hd, this]; omega
      · have : (d + 1) % M ≠ 0 := fun h => hd (Nat.dvd_of_mod_eq_zero h)
        simp [hM, hd, this]

theorem passed_eq_countP (N M k : Nat) :
    ((List.range' 1 k).countP (allows N M)) = passed N M k := by
  induction k with
  | zero => simp [passed]
  | succ k ih =>
    rw [List.range'_1_concat, List.countP_append, ih, passed]
    by_cases h : allows N M (1 + k) = true
    · have h' : allows N M (k + 1) = true := by rwa [Nat.add_comm] at h
      simp [h, h']
    · have h' : ¬ allows N M (k + 1) = true := by rwa [Nat.add_comm] at h
      simp [h, h']

theorem countP_window (N M k : Nat) :
    ((List.range' 1 k).countP (allows N M)) = min k N + (if M = 0 then 0 else (k - N) / M) := by
  rw [passed_eq_countP]
  by_cases h : k ≤ N
  · rw [passed_le N M k h]
    have h0 : k - N = 0 := by omega
    have hm : min k N = k := by omega
    rw [h0, hm]; split <;> simp
  · obtain ⟨d, rfl⟩ : ∃ d, k = N + d := ⟨k - N, by omega⟩
    rw [passed_closed]
    have hm : min (N + d) N = N := by omega
    have hd : N + d - N = d := by omega
    rw [hm, hd]

/-! ## the cell refines the window specification, except for the zero value of `resetAt` -/

/-- a cell that has opened a window agrees with the specification state `some (resetAt, n)` -/
theorem cellRun_eq_specRun_some (c : Cell) (tick : Int) (ts : List Int) :
    cellRun c tick ts = specRun (some (c.resetAt, c.n)) tick ts := by
  induction ts generalizing c with
  | nil => rfl
  | cons t ts ih =>
    simp only [cellRun, specRun, specStep]
    by_cases h : t < c.resetAt
    · rw [inc_open c t tick h]; simp only [h, if_true]
      rw [ih]
    · rw [inc_new c t tick (by omega)]; simp only [h, if_false]
      rw [ih]

/-! ## per-key projection of a run over the whole table -/

/-- the entries that go through a counter: enabled and in range -/
def counted (en : Int → Bool) (e : Entry) : Bool := en e.level && inRange e.level

theorem check_counted (cfg : Cfg) (en : Int → Bool) (cs : Counters) (e : Entry) (h : counted en e = true) :
    (check cfg en cs e).1 = cs.set e.key (inc (cs e.key) e.t cfg.tick).1 ∧
    (check cfg en cs e).2.n = some (inc (cs e.key) e.t cfg.tick).2 ∧
    (check cfg en cs e).2.hook =
      [if allows cfg.N cfg.M (inc (cs e.key) e.t cfg.tick).2 then Decision.sampled else Decision.dropped] ∧
    (check cfg en cs e).2.forwarded = allows cfg.N cfg.M (inc (cs e.key) e.t cfg.tick).2 := by
  simp only [counted, Bool.and_eq_true] at h
  simp only [check, h.1, h.2, Bool.not_true, Bool.false_eq_true, if_false, if_true]
  split <;> simp_all

theorem check_uncounted (cfg : Cfg) (en : Int → Bool) (cs : Counters) (e : Entry) (h : counted en e = false) :
    (check cfg en cs e).1 = cs ∧ (check cfg en cs e).2.n = none ∧ (check cfg en cs e).2.hook = [] := by
  simp only [counted, Bool.and_eq_false_iff] at h
  simp only [check]
  by_cases he : en e.level = true
  · have hr : inRange e.level = false := by
      rcases h with h | h
      · simp [he] at h
      · exact h
    simp [he, hr]
  · simp [he]

theorem set_same (cs : Counters) (k : Key) (c : Cell) : cs.set k c k = c := by simp [Counters.set]

theorem set_other (cs : Counters) (k k' : Key) (c : Cell) (h : k' ≠ k) : cs.set k c k' = cs k' := by
  simp [Counters.set, h]

/-- the selector of the projection: counted entries of key `k` -/
def sel (en : Int → Bool) (k : Key) (e : Entry) : Bool := counted en e && decide (e.key = k)

theorem runAll_projects (cfg : Cfg) (en : Int → Bool) (k : Key) (es : List Entry) (cs : Counters) :
    (((runAll cfg en cs es).2.zip es).filter (fun p => sel en k p.2)).map (fun p => p.1.n) =
      (cellRun (cs k) cfg.tick ((es.filter (sel en k)).map (·.t))).map some ∧
    (runAll cfg en cs es).1 k = cellAfter (cs k) cfg.tick ((es.filter (sel en k)).map (·.t)) := by
  induction es generalizing cs with
  | nil => simp [runAll, cellRun, cellAfter]
  | cons e es ih =>
    have hi := ih (check cfg en cs e).1
    simp only [runAll, List.zip_cons_cons, List.filter_cons]
    by_cases hs : sel en k e = true
    · have hc : counted en e = true := by simp only [sel, Bool.and_eq_true] at hs; exact hs.1
      have hk : e.key = k := by simp only [sel, Bool.and_eq_true, decide_eq_true_eq] at hs; exact hs.2
      obtain ⟨h1, h2, _, _⟩ := check_counted cfg en cs e hc
      have hcell : (check cfg en cs e).1 k = (inc (cs k) e.t cfg.tick).1 := by
        rw [h1, ← hk, set_same]
      simp only [hs, if_true, List.map_cons, cellRun, cellAfter]
      rw [hcell] at hi
      refine ⟨?_, hi.2⟩
      rw [hi.1, h2, hk]
    · have hs' : sel en k e = false := by simpa using hs
      have hcell : (check cfg en cs e).1 k = cs k := by
        by_cases hc : counted en e = true
        · have hk : k ≠ e.key := by
            intro hk; apply hs; simp [sel, hc, hk]
          rw [(check_counted cfg en cs e hc).1, set_other _ _ _ _ hk]
        · have hc' : counted en e = false := by simpa using hc
          rw [(check_uncounted cfg en cs e hc').1]
      simp only [hs', Bool.false_eq_true, if_false]
      rw [hcell] at hi
      exact hi

/-! ## the atomic-step machine inside an open window -/

namespace Conc

theorem retOf_not_done (pc : Pc) (h : isDone pc = false) : retOf pc = [] := by
  cases pc <;> simp_all [isDone, retOf]

theorem rets_set_to_done (ths : List Th) (i : Nat) (th th' : Th) (v : Nat)
    (hi : ths[i]? = some th) (hnd : isDone th.pc = false) (hd : th'.pc = .done v) :
    (rets (ths.set i th')).Perm (v :: rets ths) := by
  induction ths generalizing i with
  | nil => simp at hi
  | cons a r ih =>
    cases i with
    | zero =>
      simp only [List.getElem?_cons_zero, Option.some.injEq] at hi
      subst hi
      simp only [List.set, rets, retOf_not_done a.pc hnd, hd]
      simp [retOf]
    | succ i =>
      simp only [List.getElem?_cons_succ] at hi
      have := ih i hi
      simp only [List.set, rets]
      exact (List.Perm.append_left _ this).trans (List.perm_middle)

theorem rets_set_not_done (ths : List Th) (i : Nat) (th th' : Th)
    (hi : ths[i]? = some th) (hnd : isDone th.pc = false) (hnd' : isDone th'.pc = false) :
    rets (ths.set i th') = rets ths := by
  induction ths generalizing i with
  | nil => simp at hi
  | cons a r ih =>
    cases i with
    | zero =>
      simp only [List.getElem?_cons_zero, Option.some.injEq] at hi
      subst hi
      simp [List.set, rets, retOf_not_done a.pc hnd, retOf_not_done th'.pc hnd']
    | succ i =>
      simp only [List.getElem?_cons_succ] at hi
      simp only [List.set, rets, ih i hi]

theorem rets_length_of_allDone (ths : List Th) (h : ths.all (fun th => isDone th.pc) = true) :
    (rets ths).length = ths.length := by
  induction ths with
  | nil => rfl
  | cons a r ih =>
    simp only [List.all_cons, Bool.and_eq_true] at h
    have : ∃ n, a.pc = .done n := by
      cases hp : a.pc <;> simp_all [isDone]
    obtain ⟨n, hn⟩ := this
    simp [rets, hn, ih h.2, retOf]

theorem rets_start (ts : List Int) : rets (ts.map fun t => (⟨t, .start⟩ : Th)) = [] := by
  induction ts with
  | nil => rfl
  | cons t ts ih => simp [rets, ih, retOf]

/-- invariant of every run that starts inside an open window: nobody takes the reset path -/
structure Inv (R : Int) (c : Nat) (s : St) : Prop where
  ra : s.resetAt = R
  inwin : ∀ th ∈ s.ths, th.t < R
  pcs : ∀ th ∈ s.ths, th.pc = .start ∨ th.pc = .adding ∨ ∃ n, th.pc = .done n
  cnt : s.n = c + (rets s.ths).length
  perm : (rets s.ths).Perm (List.range' (c + 1) (rets s.ths).length)

theorem step_inv (tick R : Int) (c : Nat) (s : St) (i : Nat) (h : Inv R c s) : Inv R c (step tick s i) := by
  unfold step
  cases hi : s.ths[i]? with
  | none => simpa using h
  | some th =>
    have hmem : th ∈ s.ths := List.mem_of_getElem? hi
    have hpc := h.pcs th hmem
    have ht := h.inwin th hmem
    simp only
    rcases hpc with hp | hp | ⟨m, hp⟩
    · -- Load: the window is open, go on to Add
      have hgt : s.resetAt > th.t := by rw [h.ra]; exact ht
      have hr := rets_set_not_done s.ths i th { th with pc := .adding } hi (by simp [hp, isDone]) (by simp [isDone])
      simp only [stepTh, hp, hgt, if_true]
      refine ⟨h.ra, ?_, ?_, ?_, ?_⟩
      · intro x hx
        rcases List.mem_or_eq_of_mem_set hx with hx | hx
        · exact h.inwin x hx
        · subst hx; exact ht
      · intro x hx
        rcases List.mem_or_eq_of_mem_set hx with hx | hx
        · exact h.pcs x hx
        · subst hx; simp
      · simp only [hr]; exact h.cnt
      · simp only [hr]; exact h.perm
    · -- Add
      have hr := rets_set_to_done s.ths i th { th with pc := .done (s.n + 1) } (s.n + 1) hi (by simp [hp, isDone]) rfl
      simp only [stepTh, hp]
      have hlen : (rets (s.ths.set i { th with pc := .done (s.n + 1) })).length = (rets s.ths).length + 1 := by
        rw [hr.length_eq]; simp
      refine ⟨h.ra, ?_, ?_, ?_, ?_⟩
      · intro x hx
        rcases List.mem_or_eq_of_mem_set hx with hx | hx
        · exact h.inwin x hx
        · subst hx; exact ht
      · intro x hx
        rcases List.mem_or_eq_of_mem_set hx with hx | hx
        · exact h.pcs x hx
        · subst hx; simp
      · simp only [hlen]; have := h.cnt; omega
      · simp only [hlen]
        rw [List.range'_concat]
        have hv : s.n + 1 = c + 1 + 1 * (rets s.ths).length := by have := h.cnt; omega
        rw [← hv]
        exact hr.trans ((List.Perm.cons _ h.perm).trans (List.perm_append_singleton _ _).symm)
    · -- already returned: nothing changes
      simp only [stepTh, hp]
      have : s.ths.set i th = s.ths := by
        apply List.ext_getElem?
        intro j
        by_cases hj : i = j
        · subst hj
          obtain ⟨hlt, heq⟩ := List.getElem?_eq_some_iff.mp hi
          simp [hlt, heq]
        · simp [hj]
      rw [this]
      exact ⟨h.ra, h.inwin, h.pcs, h.cnt, h.perm⟩

theorem run_inv (tick R : Int) (c : Nat) (sched : List Nat) (s : St) (h : Inv R c s) :
    Inv R c (run tick s sched) := by
  induction sched generalizing s with
  | nil => exact h
  | cons i r ih => exact ih _ (step_inv tick R c s i h)

theorem step_length (tick : Int) (s : St) (i : Nat) : (step tick s i).ths.length = s.ths.length := by
  unfold step; cases s.ths[i]? <;> simp

theorem run_length (tick : Int) (sched : List Nat) (s : St) : (run tick s sched).ths.length = s.ths.length := by
  induction sched generalizing s with
  | nil => rfl
  | cons i r ih => simp only [run, List.foldl_cons] at *; rw [ih, step_length]

theorem init_inv (c : Cell) (ts : List Int) (h : ∀ t ∈ ts, t < c.resetAt) : Inv c.resetAt c.n (initSt c ts) := by
  refine ⟨rfl, ?_, ?_, ?_, ?_⟩
  · intro th hth
    simp only [initSt, List.mem_map] at hth
    obtain ⟨t, ht, rfl⟩ := hth
    exact h t ht
  · intro th hth
    simp only [initSt, List.mem_map] at hth
    obtain ⟨t, _, rfl⟩ := hth
    simp
  · simp [initSt, rets_start]
  · simp [initSt, rets_start]

end Conc
end ZapVerif.Sampler
