import ZapVerif.Model.SitePrograms
import ZapVerif.Proofs.Publish
/-! From the event-level meaning of guards (`Model/SitePrograms.lean`) to the state-level discipline
    facts of M10, and data-race freedom of `Disciplined` traces (pairwise forms of the class theorems,
    combined with the hand-over phase of freshly made objects). -/
namespace ZapVerif.SitePrograms
open ZapVerif.Sync ZapVerif.SyncFacts

/-! ### own events ⇒ lock / once state (well-formed traces) -/

theorem holder_of_heldExcl {t : Tid} {m : Lock} {pre : List Ev} (hwf : WF pre) (h : HeldExcl t m pre) :
    holder m pre = some t := by
  obtain ⟨p2, p1, hs, hn⟩ := h
  subst hs
  induction p2 with
  | nil => simp [holder]
  | cons e p2 ih =>
    have ih := ih (fun h => hn (List.mem_cons_of_mem _ h)) hwf.1
    have hok : okStep e (p2 ++ Ev.acq t m :: p1) = true := hwf.2
    have hne : e ≠ Ev.rel t m := fun h => hn (by simp [h])
    cases e with
    | acq t' m' =>
      by_cases hm : m' = m
      · subst hm; simp [okStep, ih] at hok
      · simpa [holder, hm] using ih
    | rel t' m' =>
      by_cases hm : m' = m
      · subst hm; simp [okStep, ih] at hok; subst hok; exact absurd rfl hne
      · simpa [holder, hm] using ih
    | _ => simpa [holder] using ih

theorem readers_of_heldRead {t : Tid} {m : Lock} {pre : List Ev} (h : HeldRead t m pre) :
    t ∈ readers m pre := by
  obtain ⟨p2, p1, hs, hn⟩ := h
  subst hs
  induction p2 with
  | nil => simp [readers]
  | cons e p2 ih =>
    have ih := ih (fun h => hn (List.mem_cons_of_mem _ h))
    have hne : e ≠ Ev.rrel t m := fun h => hn (by simp [h])
    cases e with
    | racq t' m' =>
      by_cases hm : m' = m
      · subst hm; simpa [readers] using Or.inr ih
      · simpa [readers, hm] using ih
    | rrel t' m' =>
      by_cases hm : m' = m
      · subst hm
        have htt : t ≠ t' := by intro h; subst h; exact hne rfl
        simpa [readers] using (List.mem_erase_of_ne htt).mpr ih
      · simpa [readers, hm] using ih
    | _ => simpa [readers] using ih

theorem onceSt_of_inOnceBody {t : Tid} {o : OnceId} {pre : List Ev} (hwf : WF pre)
    (h : InOnceBody t o pre) : onceSt o pre = .running t := by
  obtain ⟨p2, p1, hs, hn⟩ := h
  subst hs
  induction p2 with
  | nil => simp [onceSt]
  | cons e p2 ih =>
    have ih := ih (fun h => hn (List.mem_cons_of_mem _ h)) hwf.1
    have hok : okStep e (p2 ++ Ev.onceBegin t o :: p1) = true := hwf.2
    have hne : e ≠ Ev.onceEnd t o := fun h => hn (by simp [h])
    cases e with
    | onceBegin t' o' =>
      by_cases ho : o' = o
      · subst ho; simp [okStep, ih] at hok
      · simpa [onceSt, ho] using ih
    | onceEnd t' o' =>
      by_cases ho : o' = o
      · subst ho; simp [okStep, ih] at hok; subst hok; exact absurd rfl hne
      · simpa [onceSt, ho] using ih
    | _ => simpa [onceSt] using ih

theorem passed_of_mem {t : Tid} {o : OnceId} : ∀ pre : List Ev,
    (Ev.onceRet t o ∈ pre ∨ Ev.onceEnd t o ∈ pre) → passed o t pre = true
  | [], h => by simp at h
  | e :: pre, h => by
    by_cases he : e = Ev.onceRet t o ∨ e = Ev.onceEnd t o
    · rcases he with he | he <;> subst he <;> simp [passed]
    · have : Ev.onceRet t o ∈ pre ∨ Ev.onceEnd t o ∈ pre := by
        rcases h with h | h
        · rcases List.mem_cons.mp h with h | h
          · exact absurd (Or.inl h.symm) he
          · exact Or.inl h
        · rcases List.mem_cons.mp h with h | h
          · exact absurd (Or.inr h.symm) he
          · exact Or.inr h
      have ih := passed_of_mem pre this
      unfold passed
      simp [ih]

theorem passed_of_returned {t : Tid} {o : OnceId} {pre : List Ev} (h : ReturnedFromDo t o pre) :
    passed o t pre = true := passed_of_mem pre h

/-! ### introduction rules for the event-level clauses (a goroutine's own steps) -/

theorem heldExcl_acq {t : Tid} {m : Lock} {p1 : List Ev} : HeldExcl t m (Ev.acq t m :: p1) := ⟨[], p1, rfl, by simp⟩
theorem heldExcl_cons {t : Tid} {m : Lock} {e : Ev} {pre : List Ev} (hne : e ≠ Ev.rel t m) (h : HeldExcl t m pre) : HeldExcl t m (e :: pre) := by
  obtain ⟨p2, p1, hs, hn⟩ := h
  exact ⟨e :: p2, p1, by simp [hs], by simp [hn, Ne.symm hne]⟩
theorem heldRead_racq {t : Tid} {m : Lock} {p1 : List Ev} : HeldRead t m (Ev.racq t m :: p1) := ⟨[], p1, rfl, by simp⟩
theorem heldRead_cons {t : Tid} {m : Lock} {e : Ev} {pre : List Ev} (hne : e ≠ Ev.rrel t m) (h : HeldRead t m pre) : HeldRead t m (e :: pre) := by
  obtain ⟨p2, p1, hs, hn⟩ := h
  exact ⟨e :: p2, p1, by simp [hs], by simp [hn, Ne.symm hne]⟩
theorem inOnceBody_begin {t : Tid} {o : OnceId} {p1 : List Ev} : InOnceBody t o (Ev.onceBegin t o :: p1) := ⟨[], p1, rfl, by simp⟩
theorem inOnceBody_cons {t : Tid} {o : OnceId} {e : Ev} {pre : List Ev} (hne : e ≠ Ev.onceEnd t o) (h : InOnceBody t o pre) : InOnceBody t o (e :: pre) := by
  obtain ⟨p2, p1, hs, hn⟩ := h
  exact ⟨e :: p2, p1, by simp [hs], by simp [hn, Ne.symm hne]⟩


/-! ### the two formulations of `GeneratedOn` -/

theorem genRec_of_split (I : Interp) (table : List Row) (x : Var) (full : List Ev) : ∀ tr : List Ev,
    (∀ post e pre, tr = post ++ e :: pre → e.touches x = true →
      ∃ s ∈ sitesOf table (I.field x), SiteHolds I x s full pre e) → GenRec I table x full tr
  | [], _ => trivial
  | e :: tr, h =>
    ⟨genRec_of_split I table x full tr (fun post e' pre hs => h (e :: post) e' pre (by simp [hs])),
     h [] e tr rfl⟩

theorem split_of_genRec (I : Interp) (table : List Row) (x : Var) (full : List Ev) : ∀ tr : List Ev,
    GenRec I table x full tr → ∀ post e pre, tr = post ++ e :: pre → e.touches x = true →
      ∃ s ∈ sitesOf table (I.field x), SiteHolds I x s full pre e
  | [], _, post, e, pre, hs, _ => by simp at hs
  | e' :: tr, h, post, e, pre, hs, hx => by
    cases post with
    | nil =>
      simp at hs; obtain ⟨h1, h2⟩ := hs; subst h1; subst h2
      exact h.2 hx
    | cons p post =>
      simp at hs
      exact split_of_genRec I table x full tr h.1 post e pre hs.2 hx

theorem generatedOn_iff_rec (I : Interp) (table : List Row) (x : Var) (tr : List Ev) :
    GeneratedOn I table x tr ↔ GenRec I table x tr tr :=
  ⟨genRec_of_split I table x tr tr, split_of_genRec I table x tr tr⟩

/-! ### the hand-over phase -/

/-- an access of the creator before the hand-over is ordered before every later foreign access -/
theorem fresh_then {x : Var} {c : Tid} {tr pre : List Ev} {a b : Ev} {i j : Nat}
    (fa : FreshUntilPublished x c tr pre a) (hli : pre.length = i) (ha : evAt tr i = some a)
    (hb : evAt tr j = some b) (hbx : b.touches x = true) (hne : a.tid ≠ b.tid) : HB tr i j := by
  obtain ⟨hac, hpub⟩ := fa
  have hbc : b.tid ≠ c := by intro h; exact hne (hac.trans h.symm)
  obtain ⟨g, eg, heg, hegc, hig, hgj⟩ := hpub j b hb hbx hbc
  rcases Nat.lt_or_ge i g with hlt | hge
  · exact .trans (.po hlt ha heg (hac.trans hegc.symm)) hgj
  · have : i = g := by omega
    subst this; exact hgj

/-- no foreign access precedes an access the creator makes before the hand-over -/
theorem then_fresh {x : Var} {c : Tid} {tr pre : List Ev} {a b : Ev} {i j : Nat}
    (fb : FreshUntilPublished x c tr pre b) (hlj : pre.length = j) (hij : i < j)
    (ha : evAt tr i = some a) (hax : a.touches x = true) (hne : a.tid ≠ b.tid) : False := by
  obtain ⟨hbc, hpub⟩ := fb
  have hac : a.tid ≠ c := by intro h; exact hne (h.trans hbc.symm)
  obtain ⟨g, eg, _, _, hjg, hgi⟩ := hpub i a ha hax hac
  have := HB_lt hgi
  omega

/-! ### pairwise forms of the class theorems: `tr = post ++ b :: (mid ++ a :: pre)`, a and b conflict -/

theorem rw_pair {x : Var} (m : Lock) (post mid pre : List Ev) (a b : Ev)
    (hwfm : WF (mid ++ a :: pre)) (hax : a.touches x = true)
    (hw : a.isWrite = true ∨ b.isWrite = true) (hne : a.tid ≠ b.tid)
    (ga : if a.isWrite then holder m pre = some a.tid
          else (holder m pre = some a.tid ∨ a.tid ∈ readers m pre))
    (gb : if b.isWrite then holder m (mid ++ a :: pre) = some b.tid
          else (holder m (mid ++ a :: pre) = some b.tid ∨ b.tid ∈ readers m (mid ++ a :: pre))) :
    HB (post ++ b :: (mid ++ a :: pre)) pre.length (mid ++ a :: pre).length := by
  have hha := holder_access m pre hax
  have hra := readers_access m pre hax
  have hbholds : holder m (mid ++ a :: pre) = some b.tid ∨ b.tid ∈ readers m (mid ++ a :: pre) := by
    by_cases hbw : b.isWrite = true
    · simp [hbw] at gb; exact Or.inl gb
    · simp [hbw] at gb; exact gb
  have caseX : holder m pre = some a.tid →
      HB (post ++ b :: (mid ++ a :: pre)) pre.length (mid ++ a :: pre).length :=
    fun hxa => cs_chain m post mid pre a b hha hwfm hxa hne hbholds
  by_cases haw : a.isWrite = true
  · simp [haw] at ga; exact caseX ga
  · simp [haw] at ga
    rcases ga with ga | ga
    · exact caseX ga
    · have hbw : b.isWrite = true := by
        rcases hw with h | h
        · exact absurd h haw
        · exact h
      simp [hbw] at gb
      have hnor := holder_readers m b.tid _ hwfm gb
      obtain ⟨m2, m1, hs⟩ := rrel_between m a.tid (a :: pre) mid (by rw [hra]; exact ga) (by rw [hnor]; simp)
      subst hs
      have hwf2 : WF (Ev.rrel a.tid m :: (m1 ++ a :: pre)) := WF_suffix m2 _ (by simpa using hwfm)
      have hin : a.tid ∈ readers m (m1 ++ a :: pre) := by
        have := hwf2.2; simpa [okStep] using this
      have hnoh : holder m (Ev.rrel a.tid m :: (m1 ++ a :: pre)) ≠ some b.tid := by
        intro hcon
        simp [holder] at hcon
        have := holder_readers m b.tid _ hwf2.1 hcon
        simp [this] at hin
      simp only [List.append_assoc, List.cons_append] at gb
      obtain ⟨m4, m3, hs⟩ := acq_between m b.tid _ m2 hnoh gb
      subst hs
      have := chain_of_split (tr := post ++ b :: ((m4 ++ Ev.acq b.tid m :: m3) ++ Ev.rrel a.tid m :: m1 ++ a :: pre))
        (post := post) (mid4 := m4) (mid3 := m3) (mid1 := m1) (pre := pre) (a := a) (r := Ev.rrel a.tid m)
        (g := Ev.acq b.tid m) (b := b) (by simp) rfl (by simp [sw]) rfl
      simpa using this

theorem once_pair {x : Var} (o : OnceId) (post mid pre : List Ev) (a b : Ev)
    (hwfm : WF (mid ++ a :: pre)) (hax : a.touches x = true)
    (hw : a.isWrite = true ∨ b.isWrite = true) (hne : a.tid ≠ b.tid)
    (ga : onceSt o pre = .running a.tid ∨ (a.isWrite = false ∧ passed o a.tid pre = true))
    (gb : onceSt o (mid ++ a :: pre) = .running b.tid ∨
          (b.isWrite = false ∧ passed o b.tid (mid ++ a :: pre) = true)) :
    HB (post ++ b :: (mid ++ a :: pre)) pre.length (mid ++ a :: pre).length := by
  have hwfa : WF (a :: pre) := WF_suffix mid _ hwfm
  have hoa := onceSt_access o pre hax
  rcases ga with ga | ⟨garw, gap⟩
  · have hrun : onceSt o (a :: pre) = .running a.tid := by rw [hoa]; exact ga
    rcases gb with gb | ⟨gbrw, gbp⟩
    · rcases once_running_stable o a.tid (a :: pre) mid hwfm hrun with h | h
      · rw [h] at gb; exact absurd (by simpa using gb) hne
      · rw [h] at gb; simp at gb
    · have hnp : passed o b.tid (a :: pre) = false := by
        cases hp : passed o b.tid (a :: pre) with
        | false => rfl
        | true => have := passed_done o b.tid _ hwfa hp; rw [hrun] at this; simp at this
      obtain ⟨m2, m1, hs⟩ := pass_between o b.tid (a :: pre) mid hnp gbp
      rcases hs with hs | hs
      · subst hs
        have hwf2 : WF (Ev.onceEnd b.tid o :: (m1 ++ a :: pre)) := WF_suffix m2 _ (by simpa using hwfm)
        have h2 := hwf2.2
        simp [okStep] at h2
        rcases once_running_stable o a.tid (a :: pre) m1 hwf2.1 hrun with h | h
        · rw [h] at h2; exact absurd (by simpa using h2) hne
        · rw [h] at h2; simp at h2
      · subst hs
        have hwf2 : WF (Ev.onceRet b.tid o :: (m1 ++ a :: pre)) := WF_suffix m2 _ (by simpa using hwfm)
        have h2 := hwf2.2
        simp [okStep] at h2
        obtain ⟨m4, m3, hs⟩ := onceEnd_between o a.tid (a :: pre) m1 hwf2.1 hrun h2
        subst hs
        have := chain_of_split
          (tr := post ++ b :: ((m2 ++ Ev.onceRet b.tid o :: (m4 ++ Ev.onceEnd a.tid o :: m3)) ++ a :: pre))
          (post := post) (mid4 := m2) (mid3 := m4) (mid1 := m3) (pre := pre) (a := a) (r := Ev.onceEnd a.tid o)
          (g := Ev.onceRet b.tid o) (b := b) (by simp) rfl (by simp [sw]) rfl
        simpa using this
  · have hdone : onceSt o (a :: pre) = .done := by
      rw [hoa]; exact passed_done o a.tid pre hwfa.1 gap
    have hdone' := once_done_stable o (a :: pre) mid hwfm hdone
    rcases gb with gb | ⟨gbrw, _⟩
    · rw [hdone'] at gb; simp at gb
    · rcases hw with h | h
      · rw [garw] at h; simp at h
      · rw [gbrw] at h; simp at h

theorem lockpub_pair {x : Var} (m : Lock) (tr post mid pre : List Ev) (a b : Ev)
    (ht : tr = post ++ b :: (mid ++ a :: pre)) (hwf : WF tr)
    (hax : a.touches x = true) (hbx : b.touches x = true)
    (hw : a.isWrite = true ∨ b.isWrite = true) (hne : a.tid ≠ b.tid)
    (ga : ClassAt (.lockPublish m) x tr pre a) (gb : ClassAt (.lockPublish m) x tr (mid ++ a :: pre) b) :
    HB tr pre.length (mid ++ a :: pre).length := by
  have ha : evAt tr pre.length = some a := evAt_of_eq (A := post ++ b :: mid) (by simp [ht])
  have hb : evAt tr (mid ++ a :: pre).length = some b := evAt_of_eq (A := post) ht
  have hij : pre.length < (mid ++ a :: pre).length := by simp; omega
  have hwfm : WF (mid ++ a :: pre) := by subst ht; exact (WF_suffix post _ hwf).1
  have hha := holder_access m pre hax
  -- the earlier access holds the lock: otherwise it is a read after the last write, but b would be a write
  have hxa : holder m pre = some a.tid := by
    rcases ga with ga | ⟨garw, hh⟩
    · exact ga
    · have hbw : b.isWrite = true := by
        rcases hw with h | h
        · rw [garw] at h; simp at h
        · exact h
      rcases hh with ⟨g, hg1, hg2⟩ | ⟨g, p, hg1, hg2⟩
      · have h1 := hg2 _ b hb hbx hbw
        have h2 := evAt_lt hg1
        omega
      · have h1 := HB_lt (hg2 _ b hb hbx hbw)
        have h2 := evAt_lt hg1
        omega
  rcases gb with gb | ⟨gbrw, hh⟩
  · subst ht
    exact cs_chain m post mid pre a b hha hwfm hxa hne (Or.inl gb)
  · have haw : a.isWrite = true := by
      rcases hw with h | h
      · exact h
      · rw [gbrw] at h; simp at h
    rcases hh with ⟨g, hg1, hg2⟩ | ⟨g, p, hg1, hg2⟩
    · -- b after a later critical section: a —po→ Unlock —sw→ Lock —po→ b
      have hig := hg2 _ a ha hax haw
      obtain ⟨m4, m3, hs, hl⟩ := evAt_append_ge (tr := a :: pre) mid (by simp; omega) hg1
      subst hs
      have hwf2 : WF (Ev.acq b.tid m :: (m3 ++ a :: pre)) := WF_suffix m4 _ (by simpa using hwfm)
      have hfree : holder m (m3 ++ a :: pre) = none := by
        have := hwf2.2; simp [okStep] at this; exact this.1
      obtain ⟨m2, m1, hs⟩ := rel_between m a.tid (a :: pre) m3 hwf2.1 (by rw [hha]; exact hxa) (by rw [hfree]; simp)
      subst hs
      have := chain_of_split
        (tr := post ++ b :: ((m4 ++ Ev.acq b.tid m :: (m2 ++ Ev.rel a.tid m :: m1)) ++ a :: pre))
        (post := post) (mid4 := m4) (mid3 := m2) (mid1 := m1) (pre := pre) (a := a) (r := Ev.rel a.tid m)
        (g := Ev.acq b.tid m) (b := b) (by simp) rfl (by simp [sw]) rfl
      subst ht
      simpa using this
    · -- b's goroutine was started after the initialisation: a —hb→ go —sw→ b
      have hig := hg2 _ a ha hax haw
      have hgj := evAt_lt hg1
      have hg1' : evAt tr g = some (.fork p b.tid) := by
        subst ht
        exact evAt_append_of_some post (evAt_cons_of_some b hg1)
      exact .trans hig (.sw hgj hg1' hb (by simp [sw]))

/-! ### the `forked` clause reduces to write-once when the `go` statement is inside the critical section -/

/-- x is written under m only and not written from index g on; the event at g (the `go` statement) is
    executed by a goroutine holding m: then every write to x happens-before g — `InitialisedBefore`, the
    dynamic part of the `forked` guard, for the shape `mu.Lock(); init fields; go loop(); mu.Unlock()` -/
theorem initialisedBefore_of_cs {x : Var} {m : Lock} {tr : List Ev} (hwf : WF tr)
    (hwr : ∀ post a pre, tr = post ++ a :: pre → a.touches x = true → a.isWrite = true →
      holder m pre = some a.tid)
    {postg preg : List Ev} {f : Ev} (hg : tr = postg ++ f :: preg) (hf : holder m preg = some f.tid)
    (hnw : NoWriteFrom x preg.length tr) : InitialisedBefore x preg.length tr := by
  intro i a ha hax haw
  have hig := hnw i a ha hax haw
  have hfe : evAt tr preg.length = some f := evAt_of_eq hg
  obtain ⟨post, mid, pre, ht, hli, hlj⟩ := race_split hig ha hfe
  have hpre : preg = mid ++ a :: pre := by
    have h1 : postg ++ f :: preg = post ++ f :: (mid ++ a :: pre) := by rw [← hg, ← ht]
    have h2 := List.append_inj' h1 (by simp only [List.length_cons]; omega)
    simpa using h2.2
  by_cases hne : a.tid = f.tid
  · exact .po hig ha hfe hne
  · have hxa := hwr (post ++ f :: mid) a pre (by simp [ht]) hax haw
    have hwfm : WF (mid ++ a :: pre) := by subst ht; exact (WF_suffix post _ hwf).1
    have := cs_chain m post mid pre a f (holder_access m pre hax) hwfm hxa hne (Or.inl (by rw [← hpre]; exact hf))
    rw [← ht, hli, hlj] at this
    exact this

/-! ### data-race freedom of disciplined traces -/

/-- **disciplined_drf**: a variable whose accesses follow one class — apart from those its creating
    goroutine makes before handing the object over — has no data race -/
theorem disciplined_drf (c : Class) (owner : Tid) (x : Var) (tr : List Ev) (hwf : WF tr)
    (h : Disciplined c owner x tr) : DRF tr x := by
  rintro ⟨i, j, a, b, hij, ha, hb, hc, hn⟩
  obtain ⟨hax, hbx, hw, hna, hne⟩ := conflict_parts hc
  obtain ⟨post, mid, pre, ht, hli, hlj⟩ := race_split hij ha hb
  have da := h (post ++ b :: mid) a pre (by simp [ht]) hax
  have db := h post b (mid ++ a :: pre) ht hbx
  rcases da with fa | ca
  · exact hn (fresh_then fa hli ha hb hbx hne)
  rcases db with fb | cb
  · exact then_fresh fb hlj hij ha hax hne
  have hwfm : WF (mid ++ a :: pre) := by subst ht; exact (WF_suffix post _ hwf).1
  apply hn
  rw [← hli, ← hlj]
  cases c with
  | immutable =>
    have ca : a.isWrite = false := ca
    have cb : b.isWrite = false := cb
    rcases hw with h | h
    · rw [ca] at h; simp at h
    · rw [cb] at h; simp at h
  | syncprim => exact absurd ⟨ca, cb⟩ hna
  | atomic => exact absurd ⟨ca, cb⟩ hna
  | mutex m =>
    have ca : holder m pre = some a.tid := ca
    have cb : holder m (mid ++ a :: pre) = some b.tid := cb
    subst ht
    exact cs_chain m post mid pre a b (holder_access m pre hax) hwfm ca hne (Or.inl cb)
  | rwmutex m => subst ht; exact rw_pair m post mid pre a b hwfm hax hw hne ca cb
  | once o => subst ht; exact once_pair o post mid pre a b hwfm hax hw hne ca cb
  | lockPublish m => exact lockpub_pair m tr post mid pre a b ht hwf hax hbx hw hne ca cb

/-! ### generated traces are disciplined -/

theorem classify_accepts {ss : List Site} {c : Class} (h : classify ss = some c) :
    ∀ s ∈ ss, c.accepts s = true := by
  have := List.find?_some h
  simpa using this

theorem unshared_fresh {I : Interp} {x : Var} {g : Guard} {tr pre : List Ev} {e : Ev}
    (hu : unshared g = true) (h : GuardHolds I x g tr pre e) :
    FreshUntilPublished x (I.creator x) tr pre e := by
  cases g <;> simp [unshared] at hu <;> exact h

/-- one execution of a site that is not of the "unshared" kind, accepted by class c, gives the fact
    class c demands of the event -/
theorem site_classAt_shared (I : Interp) (x : Var) (c : Class) (s : Site) (tr pre : List Ev) (e : Ev)
    (hwf : WF pre) (hacc : c.accepts s = true) (hu : ¬ unshared s.guard = true)
    (hs : SiteHolds I x s tr pre e) : ClassAt (instClass I x c) x tr pre e := by
  obtain ⟨hwr, hg⟩ := hs
  simp only [Class.accepts, hu, Bool.false_or] at hacc
  cases c with
  | immutable =>
    have : s.write = false := by simpa using hacc
    show e.isWrite = false
    rw [← hwr]; exact this
  | syncprim =>
    have hgd : s.guard = .syncop := by simpa using hacc
    rw [hgd] at hg; exact hg
  | atomic =>
    have hgd : s.guard = .atomic := by simpa using hacc
    rw [hgd] at hg; exact hg
  | mutex m =>
    have hgd : s.guard = .mu m := by simpa using hacc
    rw [hgd] at hg
    exact holder_of_heldExcl hwf hg
  | rwmutex m =>
    show if e.isWrite then holder (I.lock x m) pre = some e.tid
         else (holder (I.lock x m) pre = some e.tid ∨ e.tid ∈ readers (I.lock x m) pre)
    simp only [Bool.or_eq_true, Bool.and_eq_true, beq_iff_eq, Bool.not_eq_true'] at hacc
    rcases hacc with hgd | ⟨hnw, hgd⟩
    · rw [hgd] at hg
      have := holder_of_heldExcl hwf hg
      split
      · exact this
      · exact Or.inl this
    · rw [hgd] at hg
      have hr := readers_of_heldRead hg
      have : e.isWrite = false := by rw [← hwr]; exact hnw
      simp [this, hr]
  | once o =>
    show onceSt (I.once x o) pre = .running e.tid ∨
         (e.isWrite = false ∧ passed (I.once x o) e.tid pre = true)
    simp only [Bool.or_eq_true, Bool.and_eq_true, beq_iff_eq, Bool.not_eq_true'] at hacc
    rcases hacc with hgd | ⟨hnw, hgd⟩
    · rw [hgd] at hg
      exact Or.inl (onceSt_of_inOnceBody hwf hg)
    · rw [hgd] at hg
      exact Or.inr ⟨by rw [← hwr]; exact hnw, passed_of_returned hg⟩
  | lockPublish m =>
    simp only [Bool.or_eq_true, Bool.and_eq_true, beq_iff_eq, Bool.not_eq_true'] at hacc
    rcases hacc with hgd | ⟨hnw, hgd | hgd⟩
    · rw [hgd] at hg
      exact Or.inl (holder_of_heldExcl hwf hg)
    · rw [hgd] at hg
      obtain ⟨g, p, h1, h2⟩ := hg
      exact Or.inr ⟨by rw [← hwr]; exact hnw, Or.inr ⟨g, p, h1, h2⟩⟩
    · rw [hgd] at hg
      obtain ⟨g, h', _, h1, _, h2⟩ := hg
      exact Or.inr ⟨by rw [← hwr]; exact hnw, Or.inl ⟨g, h1, h2⟩⟩

/-- one site execution, accepted by class c: the access is made during the hand-over phase or satisfies c -/
theorem site_classAt (I : Interp) (x : Var) (c : Class) (s : Site) (tr pre : List Ev) (e : Ev)
    (hwf : WF pre) (hacc : c.accepts s = true) (hs : SiteHolds I x s tr pre e) :
    FreshUntilPublished x (I.creator x) tr pre e ∨ ClassAt (instClass I x c) x tr pre e := by
  by_cases hu : unshared s.guard = true
  · exact Or.inl (unshared_fresh hu hs.2)
  · exact Or.inr (site_classAt_shared I x c s tr pre e hwf hacc hu hs)

/-- **generated_disciplined**: if all sites of x's field fit class c, every trace generated by the table
    follows c on x (outside the hand-over phase) -/
theorem generated_disciplined (I : Interp) (table : List Row) (x : Var) (c : Class) (tr : List Ev)
    (hgen : GeneratedOn I table x tr) (hwf : WF tr)
    (hc : classify (sitesOf table (I.field x)) = some c) :
    Disciplined (instClass I x c) (I.creator x) x tr := by
  intro post e pre ht hx
  obtain ⟨s, hs, hh⟩ := hgen post e pre ht hx
  have hwfp : WF pre := by
    subst ht
    exact (WF_suffix post _ hwf).1
  exact site_classAt I x c s tr pre e hwfp (classify_accepts hc s hs) hh

theorem sitesOf_classified {table : List Row} (hd : allDisciplined table = true) {f : Nat}
    (hf : f ∈ fieldsOf table) : ∃ c, classify (sitesOf table f) = some c := by
  unfold sitesOf
  cases hfind : table.find? (fun r => r.2.1 == f) with
  | none =>
    simp [fieldsOf] at hf
    obtain ⟨a, b, hr⟩ := hf
    have := List.find?_eq_none.mp hfind _ hr
    simp at this
  | some r =>
    have hmem := List.mem_of_find?_eq_some hfind
    have := List.all_eq_true.mp hd r hmem
    simpa [Option.isSome_iff_exists] using this

/-- **drf_of_generated**: every field of a table all of whose fields are disciplined is free of data
    races in every well-formed trace the table generates -/
theorem drf_of_generated (I : Interp) (table : List Row) (hd : allDisciplined table = true)
    (tr : List Ev) (hgen : GeneratedBy I table tr) (hwf : WF tr) (x : Var)
    (hx : I.field x ∈ fieldsOf table) : DRF tr x := by
  obtain ⟨c, hc⟩ := sitesOf_classified hd hx
  exact disciplined_drf _ _ x tr hwf (generated_disciplined I table x c tr (hgen x hx) hwf hc)

end ZapVerif.SitePrograms
