import ZapVerif.Proofs.SitePrograms
/-! Non-vacuity of the site-table semantics: a six-field table covering every discipline class and every guard
    clause, a 26-event trace of three goroutines that it generates; and sensitivity: a table with an unguarded
    write site generates a well-formed trace with a data race. -/
namespace ZapVerif.SitePrograms
open ZapVerif.Sync ZapVerif.SyncFacts

def AllAt (P : Nat → Ev → Prop) : List Ev → Prop
  | [] => True
  | e :: tr => P tr.length e ∧ AllAt P tr

theorem allAt_evAt {P : Nat → Ev → Prop} : ∀ tr, AllAt P tr → ∀ j b, evAt tr j = some b → P j b
  | [], _, j, b, h => by simp [evAt] at h
  | e :: tr, hA, j, b, h => by
    unfold evAt at h
    split at h
    · rename_i hj; simp at h; subst h; subst hj; exact hA.1
    · exact allAt_evAt tr hA.2 j b h

def demo : List Row := [
  (0, 0, [⟨0, true, .fresh⟩, ⟨1, false, .none⟩]),
  (0, 1, [⟨2, true, .mu 9⟩, ⟨3, false, .mu 9⟩]),
  (0, 2, [⟨4, true, .mu 8⟩, ⟨5, false, .rmu 8⟩]),
  (0, 3, [⟨6, true, .onceBody 7⟩, ⟨7, false, .afterOnce 7⟩]),
  (0, 4, [⟨8, true, .atomic⟩, ⟨9, false, .atomic⟩]),
  (0, 5, [⟨10, true, .mu 9⟩, ⟨11, false, .forked⟩, ⟨12, false, .afterCS 9⟩])]

def demoTr : List Ev := [
  .rel 0 8, .wr 0 2, .acq 0 8, .rrel 2 8, .rd 2 2, .racq 2 8,
  .ard 2 4, .awr 1 4,
  .rd 0 5, .rel 0 9, .rd 0 1, .acq 0 9,
  .rd 0 3, .onceRet 0 7, .onceEnd 2 7, .wr 2 3, .onceBegin 2 7,
  .rd 1 0, .rd 2 5,
  .rel 1 9, .fork 1 2, .wr 1 5, .wr 1 1, .acq 1 9,
  .fork 0 1, .wr 0 0]

theorem demo_wf : WF demoTr := by
  simp [demoTr, WF, okStep, holder, readers, onceSt, started, Ev.tid]

theorem demo_classes : (demo.map fun r => classify r.2.2) =
    [some .immutable, some (.mutex 9), some (.rwmutex 8), some (.once 7), some .atomic, some (.lockPublish 9)] := by
  decide


macro "held" : tactic => `(tactic| repeat (first
  | exact heldExcl_acq | exact heldRead_racq | exact inOnceBody_begin
  | apply heldExcl_cons (by decide) | apply heldRead_cons (by decide) | apply inOnceBody_cons (by decide)))

theorem demo_gen1 : GeneratedOn .single demo 1 demoTr := by
  rw [generatedOn_iff_rec]
  simp [demoTr, GenRec, Ev.touches, sitesOf, demo, Interp.single, SiteHolds, GuardHolds, Ev.isWrite, Ev.tid]
  constructor <;> held

theorem demo_gen2 : GeneratedOn .single demo 2 demoTr := by
  rw [generatedOn_iff_rec]
  simp [demoTr, GenRec, Ev.touches, sitesOf, demo, Interp.single, SiteHolds, GuardHolds, Ev.isWrite, Ev.tid]
  constructor <;> held

theorem demo_gen3 : GeneratedOn .single demo 3 demoTr := by
  rw [generatedOn_iff_rec]
  simp [demoTr, GenRec, Ev.touches, sitesOf, demo, Interp.single, SiteHolds, GuardHolds, Ev.isWrite, Ev.tid, ReturnedFromDo]
  held

theorem demo_gen4 : GeneratedOn .single demo 4 demoTr := by
  rw [generatedOn_iff_rec]
  simp [demoTr, GenRec, Ev.touches, sitesOf, demo, Interp.single, SiteHolds, GuardHolds, Ev.isWrite, Ev.tid, Ev.isAtomic]


theorem demo_gen5 : GeneratedOn .single demo 5 demoTr := by
  rw [generatedOn_iff_rec]
  simp [demoTr, GenRec, Ev.touches, sitesOf, demo, Interp.single, SiteHolds, GuardHolds, Ev.isWrite, Ev.tid]
  refine ⟨⟨by held, Or.inl ⟨5, 1, by simp [evAt], ?_⟩⟩, Or.inr ⟨14, 16, by omega, by simp [evAt], by simp [evAt], ?_⟩⟩
  · -- the only write (index 4, by the initialising goroutine 1) is program-ordered before its `go` (index 5)
    intro i a h
    refine allAt_evAt _ (P := fun i a => a.touches 5 = true → a.isWrite = true → HB _ i 5) ?_ i a h
    simp [AllAt, Ev.touches, Ev.isWrite]
    exact .po (a := .wr 1 5) (b := .fork 1 2) (by omega) (by simp [evAt]) (by simp [evAt]) rfl
  · intro i a h
    refine allAt_evAt _ (P := fun i a => a.touches 5 = true → a.isWrite = true → i < 14) ?_ i a h
    simp [AllAt, Ev.touches, Ev.isWrite]

theorem demo_gen0 : GeneratedOn .single demo 0 demoTr := by
  rw [generatedOn_iff_rec]
  simp [demoTr, GenRec, Ev.touches, sitesOf, demo, Interp.single, SiteHolds, GuardHolds, Ev.isWrite, Ev.tid]
  refine ⟨rfl, ?_⟩
  intro j b h
  refine allAt_evAt _ (P := fun j b => b.touches 0 = true → b.tid ≠ 0 →
    ∃ g eg, evAt _ g = some eg ∧ eg.tid = 0 ∧ ([] : List Ev).length ≤ g ∧ HB _ g j) ?_ j b h
  simp [AllAt, Ev.touches, Ev.tid]
  exact ⟨1, .fork 0 1, by simp [evAt], rfl,
    .sw (a := .fork 0 1) (b := .rd 1 0) (by omega) (by simp [evAt]) (by simp [evAt]) (by simp [sw, Ev.tid])⟩

theorem demo_generated : GeneratedBy .single demo demoTr := by
  intro x hx
  have : x = 0 ∨ x = 1 ∨ x = 2 ∨ x = 3 ∨ x = 4 ∨ x = 5 := by simpa [fieldsOf, demo, Interp.single] using hx
  rcases this with rfl | rfl | rfl | rfl | rfl | rfl
  · exact demo_gen0
  · exact demo_gen1
  · exact demo_gen2
  · exact demo_gen3
  · exact demo_gen4
  · exact demo_gen5

/-! ### several objects of one type -/

/-- several objects per type: variable 10·k + f is field f of object k; its mutex / once field m is lock / once 10·k + m -/
def manyObjs : Interp := ⟨fun x => x % 10, fun x m => x / 10 * 10 + m, fun x o => x / 10 * 10 + o, fun _ => 0⟩

/-- goroutines 1 and 2 share object 1 (field 11 under lock 19); goroutine 2 also uses object 2 (field 21 under lock 29) -/
def twoTr : List Ev := [.rel 2 29, .rel 1 19, .wr 2 21, .wr 1 11, .acq 2 29, .acq 1 19, .rel 2 19, .wr 2 11, .acq 2 19]

theorem two_wf : WF twoTr := by simp [twoTr, WF, okStep, holder, readers]

theorem two_generated : GeneratedBy manyObjs demo twoTr := by
  intro x _
  rw [generatedOn_iff_rec]
  simp only [twoTr, GenRec, Ev.touches, beq_iff_eq, and_true, true_and, false_implies, Bool.false_eq_true]
  refine ⟨⟨?_, ?_⟩, ?_⟩ <;> intro hx <;> subst hx <;>
    simp [sitesOf, demo, manyObjs, SiteHolds, GuardHolds, Ev.isWrite, Ev.tid] <;> held

/-! ### sensitivity: one unguarded write site -/

def racy : List Row := [(0, 0, [⟨0, true, .none⟩, ⟨1, false, .none⟩])]

/-- two goroutines write the field with no synchronisation at all -/
def racyTr : List Ev := [.wr 1 0, .wr 0 0]

theorem racy_undisciplined : allDisciplined racy = false := by decide

theorem racy_generated : GeneratedBy .single racy racyTr := by
  intro x hx
  have : x = 0 := by simpa [fieldsOf, racy, Interp.single] using hx
  subst this
  rw [generatedOn_iff_rec]
  simp [racyTr, GenRec, Ev.touches, sitesOf, racy, Interp.single, SiteHolds, GuardHolds, Ev.isWrite]

theorem racy_wf : WF racyTr := by simp [racyTr, WF, okStep]

theorem racy_no_hb : ∀ i j, HB racyTr i j → False := by
  intro i j h
  induction h with
  | @po i j a b hlt ha hb ht =>
    have hj := evAt_lt hb
    simp [racyTr] at hj
    have h0 : i = 0 := by omega
    have h1 : j = 1 := by omega
    subst h0; subst h1
    simp [racyTr, evAt] at ha hb
    subst ha; subst hb
    simp [Ev.tid] at ht
  | @sw i j a b hlt ha hb hs =>
    have hj := evAt_lt hb
    simp [racyTr] at hj
    have h0 : i = 0 := by omega
    subst h0
    simp [racyTr, evAt] at ha
    subst ha
    simp [sw] at hs
  | trans _ _ ih1 _ => exact ih1

theorem racy_race : Race racyTr 0 :=
  ⟨0, 1, .wr 0 0, .wr 1 0, by omega, by simp [racyTr, evAt], by simp [racyTr, evAt],
    by simp [conflict, Ev.touches, Ev.isWrite, Ev.isAtomic, Ev.tid], fun h => racy_no_hb 0 1 h⟩

end ZapVerif.SitePrograms
