import ZapVerif.Proofs.SitePrograms
/-! Fields without "unshared" (`fresh`/`optfn`/`nilinit`) sites: a generated trace satisfies the M10
    discipline predicates `AtomicOnly`, `Guarded`, `RWGuarded`, `OnceGuarded`, `LockPublished` literally
    (the hypotheses of `lockset_drf`, `rw_lockset_drf`, `atomic_only_drf`, `once_publish_drf`,
    `lock_publish_drf`). -/
namespace ZapVerif.SitePrograms
open ZapVerif.Sync ZapVerif.SyncFacts

/-- every access to x satisfies the per-event condition of class c (no hand-over phase) -/
def SharedOnly (c : Class) (x : Var) (tr : List Ev) : Prop :=
  ∀ post e pre, tr = post ++ e :: pre → e.touches x = true → ClassAt c x tr pre e

theorem sharedOnly_disciplined {c : Class} {x : Var} {tr : List Ev} (owner : Tid)
    (h : SharedOnly c x tr) : Disciplined c owner x tr :=
  fun post e pre ht hx => Or.inr (h post e pre ht hx)

theorem guarded_of_split {x : Var} {m : Lock} : ∀ tr : List Ev,
    (∀ post e pre, tr = post ++ e :: pre → e.touches x = true → holder m pre = some e.tid) →
    Guarded x m tr
  | [], _ => trivial
  | e :: tr, h =>
    ⟨guarded_of_split tr (fun post e' pre hs => h (e :: post) e' pre (by simp [hs])), h [] e tr rfl⟩

theorem rwGuarded_of_split {x : Var} {m : Lock} : ∀ tr : List Ev,
    (∀ post e pre, tr = post ++ e :: pre → e.touches x = true →
      if e.isWrite then holder m pre = some e.tid
      else (holder m pre = some e.tid ∨ e.tid ∈ readers m pre)) →
    RWGuarded x m tr
  | [], _ => trivial
  | e :: tr, h =>
    ⟨rwGuarded_of_split tr (fun post e' pre hs => h (e :: post) e' pre (by simp [hs])), h [] e tr rfl⟩

theorem onceGuarded_of_split {x : Var} {o : OnceId} : ∀ tr : List Ev,
    (∀ post e pre, tr = post ++ e :: pre → e.touches x = true →
      onceSt o pre = .running e.tid ∨ (e.isWrite = false ∧ passed o e.tid pre = true)) →
    OnceGuarded x o tr
  | [], _ => trivial
  | e :: tr, h =>
    ⟨onceGuarded_of_split tr (fun post e' pre hs => h (e :: post) e' pre (by simp [hs])), h [] e tr rfl⟩

theorem atomicOnly_of_split {x : Var} {tr : List Ev}
    (h : ∀ post e pre, tr = post ++ e :: pre → e.touches x = true → e.isAtomic = true) :
    AtomicOnly x tr := by
  intro e he hx
  obtain ⟨post, pre, hs⟩ := List.append_of_mem he
  exact h post e pre hs hx

theorem shared_atomic {x : Var} {tr : List Ev} (h : SharedOnly .atomic x tr) : AtomicOnly x tr :=
  atomicOnly_of_split h

theorem shared_syncprim {x : Var} {tr : List Ev} (h : SharedOnly .syncprim x tr) : AtomicOnly x tr :=
  atomicOnly_of_split h

theorem shared_mutex {x : Var} {m : Lock} {tr : List Ev} (h : SharedOnly (.mutex m) x tr) :
    Guarded x m tr := guarded_of_split tr h

theorem shared_rwmutex {x : Var} {m : Lock} {tr : List Ev} (h : SharedOnly (.rwmutex m) x tr) :
    RWGuarded x m tr := rwGuarded_of_split tr h

theorem shared_once {x : Var} {o : OnceId} {tr : List Ev} (h : SharedOnly (.once o) x tr) :
    OnceGuarded x o tr := onceGuarded_of_split tr h

/-- generated traces of a field without unshared sites -/
theorem generated_shared (I : Interp) (table : List Row) (x : Var) (c : Class) (tr : List Ev)
    (hgen : GeneratedOn I table x tr) (hwf : WF tr)
    (hc : classify (sitesOf table (I.field x)) = some c)
    (hsh : ∀ s ∈ sitesOf table (I.field x), unshared s.guard = false) :
    SharedOnly (instClass I x c) x tr := by
  intro post e pre ht hx
  obtain ⟨s, hs, hh⟩ := hgen post e pre ht hx
  have hwfp : WF pre := by
    subst ht
    exact (WF_suffix post _ hwf).1
  exact site_classAt_shared I x c s tr pre e hwfp (classify_accepts hc s hs) (by simp [hsh s hs]) hh

/-- the lock-publish class without a forked reader: exactly `Sync.LockPublished` -/
theorem generated_lockPublished (I : Interp) (table : List Row) (x : Var) (m : Nat) (tr : List Ev)
    (hgen : GeneratedOn I table x tr) (hwf : WF tr)
    (hc : classify (sitesOf table (I.field x)) = some (.lockPublish m))
    (hsh : ∀ s ∈ sitesOf table (I.field x), unshared s.guard = false ∧ s.guard ≠ .forked) :
    LockPublished x (I.lock x m) tr := by
  intro post e pre ht hx
  obtain ⟨s, hs, hwr, hg⟩ := hgen post e pre ht hx
  have hwfp : WF pre := by
    subst ht
    exact (WF_suffix post _ hwf).1
  have hacc := classify_accepts hc s hs
  obtain ⟨hu, hnf⟩ := hsh s hs
  simp only [Class.accepts, hu, Bool.false_or, Bool.or_eq_true, Bool.and_eq_true, beq_iff_eq,
    Bool.not_eq_true'] at hacc
  rcases hacc with hgd | ⟨hnw, hgd | hgd⟩
  · rw [hgd] at hg
    exact Or.inl (holder_of_heldExcl hwfp hg)
  · exact absurd hgd hnf
  · rw [hgd] at hg
    obtain ⟨g, h', _, h1, _, h2⟩ := hg
    exact Or.inr ⟨by rw [← hwr]; exact hnw, g, h1, h2⟩

/-! ### the immutable class: `Sync.PublishedBy` (needs a write to anchor the publication point) -/

theorem last_such (P : Ev → Prop) : ∀ tr : List Ev, (∃ e ∈ tr, P e) →
    ∃ post e pre, tr = post ++ e :: pre ∧ P e ∧ ∀ e' ∈ post, ¬ P e'
  | [], h => by simp at h
  | e :: tr, h => by
    by_cases he : P e
    · exact ⟨[], e, tr, rfl, he, by simp⟩
    · have : ∃ e' ∈ tr, P e' := by
        obtain ⟨e', hm, hp⟩ := h
        rcases List.mem_cons.mp hm with h1 | h1
        · subst h1; exact absurd hp he
        · exact ⟨e', h1, hp⟩
      obtain ⟨post, w, pre, hs, hw, hn⟩ := last_such P tr this
      refine ⟨e :: post, w, pre, by simp [hs], hw, ?_⟩
      intro e' hm
      rcases List.mem_cons.mp hm with h1 | h1
      · subst h1; exact he
      · exact hn e' h1

/-- a field of the immutable class that is written at all: written by its creator only, and every access
    by another goroutine has a publication point after the last write -/
theorem disciplined_published {x : Var} {owner : Tid} {tr : List Ev}
    (h : Disciplined .immutable owner x tr)
    (hex : ∃ e ∈ tr, e.touches x = true ∧ e.isWrite = true) : PublishedBy x owner tr := by
  have hfresh : ∀ post e pre, tr = post ++ e :: pre → e.touches x = true → e.isWrite = true →
      FreshUntilPublished x owner tr pre e := by
    intro post e pre ht hx hw
    rcases h post e pre ht hx with hf | hc
    · exact hf
    · have hc : e.isWrite = false := hc
      rw [hc] at hw; simp at hw
  constructor
  · intro e he hx hw
    obtain ⟨post, pre, hs⟩ := List.append_of_mem he
    exact (hfresh post e pre hs hx hw).1
  · intro j b hb hbx hbc
    obtain ⟨post, w, pre, hs, ⟨hwx, hww⟩, hlast⟩ :=
      last_such (fun e => e.touches x = true ∧ e.isWrite = true) tr hex
    obtain ⟨_, hpub⟩ := hfresh post w pre hs hwx hww
    obtain ⟨g, eg, heg, hegc, hig, hgj⟩ := hpub j b hb hbx hbc
    refine ⟨g, eg, heg, hegc, hgj, ?_⟩
    intro i a ha hax haw
    rcases Nat.lt_or_ge pre.length i with hlt | hge
    · subst hs
      obtain ⟨p2, p1, hp, _⟩ := evAt_append_ge (tr := w :: pre) post (by simp; omega) ha
      exact absurd ⟨hax, haw⟩ (hlast a (by simp [hp]))
    · omega

end ZapVerif.SitePrograms
