import ZapVerif.Proofs.SitePrograms
/-! Fields without "unshared" (`fresh`/`optfn`/`nilinit`) sites: a generated trace satisfies the M10
    discipline predicates `AtomicOnly`, `Guarded`, `RWGuarded`, `OnceGuarded`, `LockPublished` literally
    (the hypotheses of `lockset_drf`, `rw_lockset_drf`, `atomic_only_drf`, `once_publish_drf`,
    `lock_publish_drf`). -/
namespace ZapVerif.SitePrograms
open ZapVerif.Sync ZapVerif.SyncFacts

/-- every access to x satisfies the per-event condition of class c (no hand-over phase) -/
def SharedOnly (c : Class) (x : Var) (tr : List Ev) : Prop :=
  ∀ post e pre, tr = post ++ e :: pre → e.touches x = true → ClassAt c x tr pre e

theorem sharedOnly_disciplined {c : Class} {x : Var} {tr : List Ev} (owner : Tid)
    (h : SharedOnly c x tr) : Disciplined c owner x tr :=
  fun post e pre ht hx => Or.inr (h post e pre ht hx)

theorem guarded_of_split {x : Var} {m : Lock} : ∀ tr : List Ev,
    (∀ post e pre, tr = post ++ e :: pre → e.touches x = true → holder m pre = some e.tid) →
    Guarded x m tr
  | [], _ => trivial
  | e :: tr, h =>
    ⟨guarded_of_split tr (fun post e' pre hs => h (e :: post) e' pre (by simp [hs])), h [] e tr rfl⟩

theorem rwGuarded_of_split {x : Var} {m : Lock} : ∀ tr : List Ev,
    (∀ post e pre, tr = post ++ e :: pre → e.touches x = true →
      if e.isWrite then holder m pre = some e.tid
      else (holder m pre = some e.tid ∨ e.tid ∈ readers m pre)) →
    RWGuarded x m tr
  | [], _ => trivial
  | e :: tr, h =>
    ⟨rwGuarded_of_split tr (fun post e' pre hs => h (e :: post) e' pre (by simp [hs])), h [] e tr rfl⟩

theorem onceGuarded_of_split {x : Var} {o : OnceId} : ∀ tr : List Ev,
    (∀ post e pre, tr = post ++ e :: pre → e.touches x = true →
      onceSt o pre = .running e.tid ∨ (e.isWrite = false ∧ passed o e.tid pre = true)) →
    OnceGuarded x o tr
  | [], _ => trivial
  | e :: tr, h =>
    ⟨onceGuarded_of_split tr (fun post e' pre hs => h (e :: post) e' pre (by simp [hs])), h [] e tr rfl⟩

theorem atomicOnly_of_split {x : Var} {tr : List Ev}
    (h : ∀ post e pre, tr = post ++ e :: pre → e.touches x = true → e.isAtomic = true) :
    AtomicOnly x tr := by
  intro e he hx
  obtain ⟨post, pre, hs⟩ := List.append_of_mem he
  exact h post e pre hs hx

theorem shared_atomic {x : Var} {tr : List Ev} (h : SharedOnly .atomic x tr) : AtomicOnly x tr :=
  atomicOnly_of_split h

theorem shared_syncprim {x : Var} {tr : List Ev} (h : SharedOnly .syncprim x tr) : AtomicOnly x tr :=
  atomicOnly_of_split h

theorem shared_mutex {x : Var} {m : Lock} {tr : List Ev} (h : SharedOnly (.mutex m) x tr) :
    Guarded x m tr := guarded_of_split tr h

theorem shared_rwmutex {x : Var} {m : Lock} {tr : List Ev} (h : SharedOnly (.rwmutex m) x tr) :
    RWGuarded x m tr := rwGuarded_of_split tr h

theorem shared_once {x : Var} {o : OnceId} {tr : List Ev} (h : SharedOnly (.once o) x tr) :
    OnceGuarded x o tr := onceGuarded_of_split tr h

/-- generated traces of a field without unshared sites -/
theorem generated_shared (I : Interp) (table : List Row) (x : Var) (c : Class) (tr : List Ev)
    (hgen : GeneratedOn I table x tr) (hwf : WF tr)
    (hc : classify (sitesOf table (I.field x)) = some c)
    (hsh : ∀ s ∈ sitesOf table (I.field x), unshared s.guard = false) :
    SharedOnly (instClass I x c) x tr := by
  intro post e pre ht hx
  obtain ⟨s, hs, hh⟩ := hgen post e pre ht hx
  have hwfp : WF pre := by
    subst ht
    exact (WF_suffix post _ hwf).1
  exact site_classAt_shared I x c s tr pre e hwfp (classify_accepts hc s hs) (by simp [hsh s hs]) hh

/-- the lock-publish class without a forked reader: exactly `Sync.LockPublished` -/
theorem generated_lockPublished (I : Interp) (table : List Row) (x : Var) (m : Nat) (tr : List Ev)
    (hgen : GeneratedOn I table x tr) (hwf : WF tr)
    (hc : classify (sitesOf table (I.field x)) = some (.lockPublish m))
    (hsh : ∀ s ∈ sitesOf table (I.field x), unshared s.guard = false ∧ s.guard ≠ .forked) :
    LockPublished x (I.lock x m) tr := by
  intro post e pre ht hx
  obtain ⟨s, hs, hwr, hg⟩ := hgen post e pre ht hx
  have hwfp : WF pre := by
    subst ht
    exact (WF_suffix post _ hwf).1
  have hacc := classify_accepts hc s hs
  obtain ⟨hu, hnf⟩ := hsh s hs
  simp only [Class.accepts, hu, Bool.false_or, Bool.or_eq_true, Bool.and_eq_true, beq_iff_eq,
    Bool.not_eq_true'] at hacc
  rcases hacc with hgd | ⟨hnw, hgd | hgd⟩
  · rw [hgd] at hg
    exact Or.inl (holder_of_heldExcl hwfp hg)
  · exact absurd hgd hnf
  · rw [hgd] at hg
    obtain ⟨g, h', _, h1, _, h2⟩ := hg
    exact Or.inr ⟨by rw [← hwr]; exact hnw, g, h1, h2⟩

end ZapVerif.SitePrograms
