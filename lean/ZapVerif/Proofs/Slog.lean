import ZapVerif.Model.Slog
/-! helper lemmas for C18: the field list the handler builds denotes the contract tree -/
namespace ZapVerif.Slog

mutual
theorem hasContent_iff : ∀ a : SAttr, hasContent a = !(content a).isEmpty
  | .leaf k lv l => by simp [hasContent, content]
  | .nilv k lv => by
    by_cases hk : k = "" <;> simp [hasContent, content, hk]
  | .group k lv ms => by
    have ih := anyContent_iff ms
    simp only [hasContent, content, ih]
    by_cases he : (contents ms).isEmpty = true
    · simp [he]
    · by_cases hk : k = ""
      · simp [he, hk]
      · simp [he, hk]
theorem anyContent_iff : ∀ as : List SAttr, anyContent as = !(contents as).isEmpty
  | [] => by simp [anyContent, contents]
  | a :: r => by
    have h1 := hasContent_iff a
    have h2 := anyContent_iff r
    simp only [anyContent, contents, h1, h2]
    cases content a <;> cases contents r <;> simp
end

theorem convert_not_ns (a : SAttr) (k : String) : convert a ≠ .ns k := by
  cases a with
  | leaf k' lv l => simp [convert]
  | nilv k' lv => simp only [convert]; split <;> simp
  | group k' lv ms => simp only [convert]; split <;> (try split) <;> simp

mutual
theorem denote_convert : ∀ a : SAttr, denote [convert a] = content a
  | .leaf k lv l => by simp [convert, content, denote]
  | .nilv k lv => by
    by_cases hk : k = "" <;> simp [convert, content, denote, hk]
  | .group k lv ms => by
    have ih := denote_converts ms
    have hc := anyContent_iff ms
    simp only [convert, content, hc]
    by_cases he : (contents ms).isEmpty = true
    · simp [he, denote]
    · simp only [he, Bool.not_false, if_true, Bool.false_eq_true, if_false]
      by_cases hk : k = ""
      · simp [hk, denote, ih]
      · simp [hk, denote, ih]
theorem denote_converts : ∀ as : List SAttr, denote (converts as) = contents as
  | [] => by simp [converts, contents, denote]
  | a :: r => by
    have h1 := denote_convert a
    have h2 := denote_converts r
    simp only [converts, contents]
    cases hc : convert a with
    | kv k l => rw [hc] at h1; simp [denote] at h1 ⊢; rw [← h1, h2]; simp
    | obj k fs => rw [hc] at h1; simp [denote] at h1 ⊢; rw [← h1, h2]; simp
    | inl fs => rw [hc] at h1; simp [denote] at h1 ⊢; rw [← h1, h2]
    | skip => rw [hc] at h1; simp [denote] at h1 ⊢; rw [h1, h2]; simp
    | ns k => exact absurd hc (convert_not_ns a k)
end

/-- denote with a hole at the end of the list -/
def plugD : List Fld → List T → List T
  | [], x => x
  | .kv k l :: r, x => .leaf k l :: plugD r x
  | .obj k fs :: r, x => .node k (denote fs) :: plugD r x
  | .inl fs :: r, x => denote fs ++ plugD r x
  | .ns k :: r, x => [.node k (plugD r x)]
  | .skip :: r, x => plugD r x

theorem denote_append (a b : List Fld) : denote (a ++ b) = plugD a (denote b) := by
  induction a with
  | nil => simp [plugD]
  | cons f r ih => cases f <;> simp [denote, plugD, ih]

theorem plugD_append (a b : List Fld) (x : List T) : plugD (a ++ b) x = plugD a (plugD b x) := by
  induction a with
  | nil => simp [plugD]
  | cons f r ih => cases f <;> simp [plugD, ih]

theorem plugD_ns (p : List String) (x : List T) : plugD (p.map Fld.ns) x = nest p x := by
  induction p with
  | nil => simp [plugD, nest]
  | cons g gs ih => simp [plugD, nest, ih]

def noNs : List Fld → Prop
  | [] => True
  | .ns _ :: _ => False
  | _ :: r => noNs r

theorem plugD_noNs (fs : List Fld) (x : List T) (h : noNs fs) : plugD fs x = denote fs ++ x := by
  induction fs with
  | nil => simp [plugD, denote]
  | cons f r ih => cases f <;> simp_all [plugD, denote, noNs]

theorem converts_noNs : ∀ as : List SAttr, noNs (converts as)
  | [] => by simp [converts, noNs]
  | a :: r => by
    have := converts_noNs r
    simp only [converts]
    cases hc : convert a <;> simp_all [noNs]
    exact absurd hc (convert_not_ns a _)

theorem ins_false (p : List String) (fs : List Fld) (h : (ins p fs).2 = false) :
    (ins p fs).1 = fs ∧ denote fs = [] := by
  induction fs with
  | nil => simp [ins, denote]
  | cons f r ih =>
    unfold ins at h ⊢
    by_cases hs : isSkip f = true
    · simp only [hs, if_true] at h ⊢
      have := ih h
      cases f <;> simp_all [isSkip, denote]
    · simp [hs] at h

theorem ins_true (p : List String) (fs : List Fld) (x : List T) (hn : noNs fs)
    (h : (ins p fs).2 = true) :
    plugD (ins p fs).1 x = nest p (denote fs ++ x) := by
  induction fs with
  | nil => simp [ins] at h
  | cons f r ih =>
    unfold ins at h ⊢
    by_cases hs : isSkip f = true
    · simp only [hs, if_true] at h ⊢
      cases f <;> simp_all [isSkip, denote, plugD, noNs]
    · simp only [hs, Bool.false_eq_true, if_false]
      rw [plugD_append, plugD_ns, plugD_noNs _ _ hn]

theorem denote_eq_plugD (l : List Fld) : denote l = plugD l [] := by
  have := denote_append l []; simpa [denote] using this

theorem wrap_nil (t : List T) : wrap [] t = t := by
  unfold wrap nest; cases t <;> simp

theorem nest_append (p : List String) (g : String) (t : List T) :
    nest (p ++ [g]) t = nest p [.node g t] := by
  induction p with
  | nil => simp [nest]
  | cons a r ih => simp [nest, ih]

theorem wrap_wrap (p : List String) (g : String) (t : List T) :
    wrap p (wrap [g] t) = wrap (p ++ [g]) t := by
  cases t with
  | nil => simp [wrap]
  | cons a r => simp [wrap, nest, nest_append]

theorem wrap_nonempty (p : List String) (t : List T) (h : t ≠ []) : wrap p t = nest p t := by
  cases t with
  | nil => exact absurd rfl h
  | cons a r => simp [wrap]

theorem convert_nonskip (a : SAttr) (h : isSkip (convert a) = false) : content a ≠ [] := by
  have hd := denote_convert a
  intro h0
  rw [h0] at hd
  cases hc : convert a with
  | kv k l => rw [hc] at hd; simp [denote] at hd
  | obj k fs => rw [hc] at hd; simp [denote] at hd
  | ns k => exact absurd hc (convert_not_ns a k)
  | skip => rw [hc] at h; simp [isSkip] at h
  | inl fs =>
    -- an inline group is only produced when its members have content
    cases a with
    | leaf k lv l => simp [convert] at hc
    | nilv k lv => simp only [convert] at hc; split at hc <;> simp at hc
    | group k lv ms =>
      simp only [convert] at hc
      by_cases ha : anyContent ms = true
      · have := anyContent_iff ms
        rw [ha] at this
        simp only [content] at h0
        have he : (contents ms).isEmpty = false := by simpa using this.symm
        simp only [he, Bool.false_eq_true, if_false] at h0
        by_cases hk : k = ""
        · simp only [hk, if_true] at h0; rw [h0] at he; simp at he
        · simp [hk] at h0
      · simp [ha] at hc

theorem ins_true_nonempty (p : List String) : ∀ as : List SAttr,
    (ins p (converts as)).2 = true → contents as ≠ []
  | [], h => by simp [converts, ins] at h
  | a :: r, h => by
    simp only [converts] at h
    unfold ins at h
    by_cases hs : isSkip (convert a) = true
    · simp only [hs, if_true] at h
      have := ins_true_nonempty p r h
      simp only [contents]; intro h0
      exact this (List.append_eq_nil_iff.mp h0).2
    · have := convert_nonskip a (by simpa using hs)
      simp only [contents]; intro h0
      exact this (List.append_eq_nil_iff.mp h0).1

/-- one WithAttrs/Handle step of the handler, in denotational terms -/
theorem addAttrs_plug (h : H) (as : List SAttr) (t : List T) :
    plugD (addAttrs h (converts as)).ctx (wrap (addAttrs h (converts as)).pending t)
      = plugD h.ctx (wrap h.pending (contents as ++ t)) := by
  have hn := converts_noNs as
  have hd := denote_converts as
  unfold addAttrs
  by_cases hp : h.pending.isEmpty = true
  · have hpe : h.pending = [] := List.isEmpty_iff.mp hp
    simp only [hpe, List.isEmpty_nil, if_true, wrap_nil]
    rw [plugD_append, plugD_noNs _ _ hn, hd]
  · simp only [hp, Bool.false_eq_true, if_false]
    cases ho : (ins h.pending (converts as)).2 with
    | false =>
      obtain ⟨h1, h2⟩ := ins_false _ _ ho
      have hc : contents as = [] := by rw [← hd]; exact h2
      simp only [h1]
      rw [plugD_append, plugD_noNs _ _ hn, h2, hc]; simp
    | true =>
      have hne := ins_true_nonempty _ as ho
      simp only [if_true, wrap_nil]
      rw [plugD_append, ins_true _ _ _ hn ho, hd]
      rw [wrap_nonempty _ _ (by intro h0; exact hne (List.append_eq_nil_iff.mp h0).1)]

theorem run_append (h : H) (a b : List Step) : run h (a ++ b) = run (run h a) b := by
  induction a generalizing h with
  | nil => simp [run]
  | cons s r ih => simp [run, ih]

end ZapVerif.Slog

namespace ZapVerif.Slog

/-! ### the handler as it is before the repairs of F14/F15 (witnesses only) -/

mutual
/-- `convertAttrToField` without the emptiness check: every group becomes Object/Inline -/
def convertOld : SAttr → Fld
  | .leaf k _ l => .kv k l
  | .nilv k _ => if k = "" then .skip else .kv k nilLeaf
  | .group k _ ms => if k = "" then .inl (convertsOld ms) else .obj k (convertsOld ms)
def convertsOld : List SAttr → List Fld
  | [] => []
  | a :: r => convertOld a :: convertsOld r
end

/-- `WithGroup` without the empty-name check -/
def stepOld (h : H) : Step → H
  | .withGroup g => { h with pending := h.pending ++ [g] }
  | .withAttrs as => addAttrs h (convertsOld as)

def runOld (h : H) : List Step → H
  | [] => h
  | s :: D => runOld (stepOld h s) D

def handleOld (h : H) (R : List SAttr) : List T := denote (addAttrs h (convertsOld R)).ctx

/-! ### programs and paths -/

theorem getElem?_map_some {α β} (f : α → β) (l : List α) (i : Nat) :
    (l.map f)[i]? = (l[i]?).map f := by simp

theorem runProg_paths (ds : List (List Step)) (ps : List PStep) :
    runProg (ds.map (run root)) ps = (pathsOf ds ps).map (run root) := by
  induction ps generalizing ds with
  | nil => simp [runProg, pathsOf]
  | cons p ps ih =>
    simp only [runProg, pathsOf, List.getElem?_map]
    cases hd : ds[p.on]? with
    | none => simpa using ih ds
    | some d =>
      simp only [Option.map_some]
      have : ds.map (run root) ++ [step (run root d) p.s] = (ds ++ [d ++ [p.s]]).map (run root) := by
        simp [run_append, run]
      rw [this]; exact ih _

theorem runProg_prefix (hs : List H) (ps : List PStep) : (runProg hs ps).take hs.length = hs := by
  induction ps generalizing hs with
  | nil => simp [runProg]
  | cons p ps ih =>
    simp only [runProg]
    cases hs[p.on]? with
    | none => exact ih hs
    | some h =>
      have := ih (hs ++ [step h p.s])
      have h2 := congrArg (List.take hs.length) this
      simp only [List.take_take, List.length_append, List.length_cons, List.length_nil] at h2
      simpa [Nat.min_eq_left (Nat.le_add_right _ _)] using h2

/-! ### `Handler.groups` over a heap -/

/-- a slice header is live when it is empty or points at an allocated array -/
def Live (hp : GHeap) (x : HH) : Prop := x.groups.len = 0 ∨ x.groups.id < hp.length

theorem view_grow (hp : GHeap) (arr : List String) (s : GSlice) (h : s.len = 0 ∨ s.id < hp.length) :
    view (hp ++ [arr]) s = view hp s := by
  rcases h with h | h
  · simp [view, h]
  · simp [view, List.getD_eq_getElem?_getD, List.getElem?_append_left h]

theorem view_withGroup (hp : GHeap) (s : GSlice) (g : String) :
    view (withGroupHeap hp s g).1 (withGroupHeap hp s g).2 = view hp s ++ [g] := by
  simp only [withGroupHeap, view, List.getD_eq_getElem?_getD]
  simp only [List.getElem?_append_right (Nat.le_refl _), Nat.sub_self, List.getElem?_cons_zero, Option.getD_some]
  apply List.take_of_length_le
  simp only [List.length_append, List.length_take, List.length_cons, List.length_nil]
  omega

theorem addAttrs_pending (h : H) (fs : List Fld) :
    (addAttrs h fs).pending = [] ∨ (addAttrs h fs).pending = h.pending := by
  unfold addAttrs
  by_cases hp : h.pending.isEmpty = true
  · simp [hp]
  · simp only [hp, Bool.false_eq_true, if_false]
    cases (ins h.pending fs).2 <;> simp

theorem stepHeap_abs (hp : GHeap) (x : HH) (s : Step) :
    absH (stepHeap hp x s).1 (stepHeap hp x s).2 = step (absH hp x) s := by
  cases s with
  | withGroup g =>
    by_cases hg : g = ""
    · simp [stepHeap, step, hg]
    · simp only [stepHeap, step, hg, if_false, absH]
      rw [view_withGroup]
  | withAttrs as =>
    simp only [stepHeap, step]
    have hpend := addAttrs_pending (absH hp x) (converts as)
    have hpv : (absH hp x).pending = view hp x.groups := rfl
    rw [hpv] at hpend
    generalize addAttrs (absH hp x) (converts as) = h' at hpend ⊢
    obtain ⟨c, q⟩ := h'
    simp only at hpend
    by_cases hv : (view hp x.groups).isEmpty = true
    · have hve : view hp x.groups = [] := List.isEmpty_iff.mp hv
      simp only [absH, hve]
      rcases hpend with h | h <;> simp [h, hve]
    · simp only [hv, Bool.false_eq_true, if_false]
      by_cases hq : q.isEmpty = true
      · have : q = [] := List.isEmpty_iff.mp hq
        simp [absH, view, this]
      · simp only [hq, Bool.false_eq_true, if_false, absH]
        rcases hpend with h | h
        · simp [h] at hq
        · simp [h]

theorem stepHeap_frame (hp : GHeap) (x y : HH) (s : Step) (hy : Live hp y) :
    absH (stepHeap hp x s).1 y = absH hp y := by
  cases s with
  | withGroup g =>
    by_cases hg : g = ""
    · simp [stepHeap, hg]
    · simp only [stepHeap, hg, if_false, absH, withGroupHeap]
      rw [view_grow _ _ _ hy]
  | withAttrs as =>
    simp only [stepHeap]
    split <;> (try split) <;> rfl

theorem stepHeap_live_old (hp : GHeap) (x y : HH) (s : Step) (hy : Live hp y) :
    Live (stepHeap hp x s).1 y := by
  cases s with
  | withGroup g =>
    by_cases hg : g = ""
    · simpa [stepHeap, hg] using hy
    · simp only [stepHeap, hg, if_false, withGroupHeap, Live, List.length_append, List.length_cons, List.length_nil]
      rcases hy with h | h
      · exact Or.inl h
      · exact Or.inr (by omega)
  | withAttrs as =>
    simp only [stepHeap]
    split <;> (try split) <;> exact hy

theorem stepHeap_live_new (hp : GHeap) (x : HH) (s : Step) (hx : Live hp x) :
    Live (stepHeap hp x s).1 (stepHeap hp x s).2 := by
  cases s with
  | withGroup g =>
    by_cases hg : g = ""
    · simpa [stepHeap, hg] using hx
    · simp [stepHeap, hg, withGroupHeap, Live]
  | withAttrs as =>
    simp only [stepHeap]
    split
    · exact hx
    · split
      · exact Or.inl rfl
      · exact hx

theorem runProgHeap_abs (ps : List PStep) : ∀ (hp : GHeap) (xs : List HH), (∀ x ∈ xs, Live hp x) →
    (runProgHeap (hp, xs) ps).2.map (absH (runProgHeap (hp, xs) ps).1) = runProg (xs.map (absH hp)) ps := by
  induction ps with
  | nil => intro hp xs _; simp [runProgHeap, runProg]
  | cons p ps ih =>
    intro hp xs hl
    simp only [runProgHeap, runProg, List.getElem?_map]
    cases hx : xs[p.on]? with
    | none => simpa using ih hp xs hl
    | some x =>
      have hxm : x ∈ xs := List.mem_of_getElem? hx
      simp only [Option.map_some]
      have hl' : ∀ y ∈ xs ++ [(stepHeap hp x p.s).2], Live (stepHeap hp x p.s).1 y := by
        intro y hy
        rcases List.mem_append.mp hy with hy | hy
        · exact stepHeap_live_old hp x y p.s (hl y hy)
        · have : y = (stepHeap hp x p.s).2 := by simpa using hy
          rw [this]; exact stepHeap_live_new hp x p.s (hl x hxm)
      have := ih (stepHeap hp x p.s).1 (xs ++ [(stepHeap hp x p.s).2]) hl'
      have hm : (xs ++ [(stepHeap hp x p.s).2]).map (absH (stepHeap hp x p.s).1)
          = xs.map (absH hp) ++ [step (absH hp x) p.s] := by
        simp only [List.map_append, List.map_cons, List.map_nil, stepHeap_abs]
        congr 1
        apply List.map_congr_left
        intro y hy
        exact stepHeap_frame hp x y p.s (hl y hy)
      rw [hm] at this
      exact this

theorem lookup_mem {α β} [BEq α] [LawfulBEq α] (l : List (α × β)) (a : α) (b : β)
    (h : l.lookup a = some b) : (a, b) ∈ l := by
  induction l with
  | nil => simp [List.lookup] at h
  | cons p r ih =>
    obtain ⟨k, v⟩ := p
    simp only [List.lookup] at h
    by_cases hk : a == k
    · simp only [hk] at h
      have : a = k := by simpa using hk
      simp at h; subst this; subst h; simp
    · simp only [hk] at h
      exact List.mem_cons_of_mem _ (ih h)

end ZapVerif.Slog
