import ZapVerif.Proofs.EncTree
/-! The spaced form (console context): structure emitted by calls carries a blank after `,` and `:`, leaves
    stay compact.  `T` marks which is which; the (blank-tolerant) parser reads the spaced rendering back to the
    same tree `denO` gives the JSON encoder. -/
namespace ZapVerif.Enc
open ZapVerif ZapVerif.Esc ZapVerif.Json

inductive T where
  | leaf (v : J)                       -- a value rendered compactly (scalar, string, reflected JSON)
  | arr (xs : List T)                  -- structure produced by encoder calls: spaced
  | obj (kvs : List (Bytes × T))

mutual
def renderT : T → Bytes
  | .leaf v => render v
  | .arr xs => 91 :: (elemsT true xs ++ [93])
  | .obj kvs => 123 :: (memsT true kvs ++ [125])
def elemsT (first : Bool) : List T → Bytes
  | [] => []
  | x :: r => comma true first ++ renderT x ++ elemsT false r
def memsT (first : Bool) : List (Bytes × T) → Bytes
  | [] => []
  | (k, v) :: r => comma true first ++ 34 :: (k ++ 34 :: 58 :: 32 :: (renderT v ++ memsT false r))
end

mutual
def erase : T → J
  | .leaf v => v
  | .arr xs => J.arr (eraseL xs)
  | .obj kvs => J.obj (eraseM kvs)
def eraseL : List T → List J
  | [] => []
  | x :: r => erase x :: eraseL r
def eraseM : List (Bytes × T) → List (Bytes × J)
  | [] => []
  | (k, v) :: r => (k, erase v) :: eraseM r
end

mutual
def denTO : List OC → List (Bytes × T)
  | [] => []
  | OC.prim k v :: r => (esc k, T.leaf v) :: denTO r
  | OC.obj k body :: r => (esc k, T.obj (denTO body)) :: denTO r
  | OC.arr k body :: r => (esc k, T.arr (denTA body)) :: denTO r
  | OC.ns k :: r => [(esc k, T.obj (denTO r))]
def denTA : List AC → List T
  | [] => []
  | AC.prim v :: r => T.leaf v :: denTA r
  | AC.obj body :: r => T.obj (denTO body) :: denTA r
  | AC.arr body :: r => T.arr (denTA body) :: denTA r
end

mutual
theorem erase_denTO : ∀ calls : List OC, eraseM (denTO calls) = denO calls
  | [] => by simp [denTO, denO, eraseM]
  | OC.prim k v :: r => by simp [denTO, denO, eraseM, erase, erase_denTO r]
  | OC.obj k body :: r => by simp [denTO, denO, eraseM, erase, erase_denTO body, erase_denTO r]
  | OC.arr k body :: r => by simp [denTO, denO, eraseM, erase, erase_denTA body, erase_denTO r]
  | OC.ns k :: r => by simp [denTO, denO, eraseM, erase, erase_denTO r]
theorem erase_denTA : ∀ calls : List AC, eraseL (denTA calls) = denA calls
  | [] => by simp [denTA, denA, eraseL]
  | AC.prim v :: r => by simp [denTA, denA, eraseL, erase, erase_denTA r]
  | AC.obj body :: r => by simp [denTA, denA, eraseL, erase, erase_denTO body, erase_denTA r]
  | AC.arr body :: r => by simp [denTA, denA, eraseL, erase, erase_denTA body, erase_denTA r]
end

theorem keyOut_spaced (k : Bytes) : keyOut true k = 34 :: (esc k ++ [34, 58, 32]) := by
  simp [keyOut, colon]

mutual
/-- spaced output plus the closing braces it still owes = the spaced members of the marked tree -/
theorem outO_denT : ∀ (calls : List OC) (first : Bool),
    (outO true first calls).1 ++ List.replicate (outO true first calls).2 125 = memsT first (denTO calls)
  | [], first => by simp [outO, denTO, memsT]
  | OC.prim k v :: r, first => by
      have ih := outO_denT r false
      simp only [outO, denTO, memsT, keyOut_spaced, renderT]
      simp only [List.append_assoc, List.cons_append, List.nil_append]
      rw [ih]
  | OC.ns k :: r, first => by
      have ih := outO_denT r true
      simp only [outO, denTO, memsT, keyOut_spaced, renderT]
      rw [← ih]
      simp [List.replicate_succ', List.append_assoc]
  | OC.obj k body :: r, first => by
      have ihb := outO_denT body true
      have ih := outO_denT r false
      simp only [outO, denTO, memsT, keyOut_spaced, renderT]
      rw [← ihb]
      simp only [List.append_assoc, List.cons_append, List.nil_append]
      rw [ih]
      simp [List.append_assoc, rep_comm]
  | OC.arr k body :: r, first => by
      have ihb := outA_denT body true
      have ih := outO_denT r false
      simp only [outO, denTO, memsT, keyOut_spaced, renderT]
      rw [← ihb]
      simp only [List.append_assoc, List.cons_append, List.nil_append]
      rw [ih]
theorem outA_denT : ∀ (calls : List AC) (first : Bool), outA true first calls = elemsT first (denTA calls)
  | [], first => by simp [outA, denTA, elemsT]
  | AC.prim v :: r, first => by
      simp only [outA, denTA, elemsT, renderT, outA_denT r false]
  | AC.obj body :: r, first => by
      have ihb := outO_denT body true
      simp only [outA, denTA, elemsT, renderT, outA_denT r false]
      rw [← ihb]
      simp [List.append_assoc, rep_comm]
  | AC.arr body :: r, first => by
      simp only [outA, denTA, elemsT, renderT, outA_denT body true, outA_denT r false]
      simp [List.append_assoc]
end

/-! ### parsing the spaced form -/

mutual
def WFT : T → Prop
  | .leaf v => WFj v
  | .arr xs => WFTl xs
  | .obj kvs => WFTm kvs
def WFTl : List T → Prop
  | [] => True
  | x :: r => WFT x ∧ WFTl r
def WFTm : List (Bytes × T) → Prop
  | [] => True
  | (k, v) :: r => runD 0 k = some 0 ∧ WFT v ∧ WFTm r
end

mutual
def sizeT : T → Nat
  | .leaf v => size v
  | .arr xs => 2 + sizeTl xs
  | .obj kvs => 2 + sizeTm kvs
def sizeTl : List T → Nat
  | [] => 0
  | x :: r => 1 + sizeT x + sizeTl r
def sizeTm : List (Bytes × T) → Nat
  | [] => 0
  | (_, v) :: r => 1 + sizeT v + sizeTm r
end

theorem renderT_head (t : T) (h : WFT t) : ∃ c r, renderT t = c :: r ∧ c ≠ 93 ∧ c ≠ 125 ∧ c ≠ 32 := by
  cases t with
  | leaf v => simpa [renderT] using render_head v (by simpa [WFT] using h)
  | arr xs => exact ⟨91, elemsT true xs ++ [93], by simp [renderT], by decide, by decide, by decide⟩
  | obj kvs => exact ⟨123, memsT true kvs ++ [125], by simp [renderT], by decide, by decide, by decide⟩

theorem elemsT_false_cons (y : T) (r : List T) : elemsT false (y :: r) = 44 :: 32 :: elemsT true (y :: r) := by
  simp [elemsT, comma]

theorem memsT_false_cons (y : Bytes × T) (r : List (Bytes × T)) :
    memsT false (y :: r) = 44 :: 32 :: memsT true (y :: r) := by
  obtain ⟨k, v⟩ := y
  simp [memsT, comma]

theorem skipSp_sp (r : Bytes) : skipSp (32 :: r) = r := rfl

mutual
theorem parseV_renderT : ∀ (t : T) (fuel : Nat) (rest : Bytes),
    WFT t → sepNext rest → sizeT t ≤ fuel → parseV fuel (renderT t ++ rest) = some (erase t, rest)
  | .leaf v, fuel, rest, hw, hs, hf => by
      simpa [renderT, erase] using parseV_render v fuel rest (by simpa [WFT] using hw) hs (by simpa [sizeT] using hf)
  | .arr xs, fuel, rest, hw, _, hf => by
      cases fuel with
      | zero => simp [sizeT] at hf
      | succ f =>
        have hwl : WFTl xs := by simpa [WFT] using hw
        cases xs with
        | nil => simp [renderT, elemsT, parseV, erase, eraseL]
        | cons x r =>
          have hx : WFT x := by simp [WFTl] at hwl; exact hwl.1
          obtain ⟨c, tl, hr, hc93, _, _⟩ := renderT_head x hx
          have hsz : sizeTl (x :: r) ≤ f := by simp [sizeT] at hf; omega
          have key := parseElems_renderT (x :: r) (by simp) f [] rest hwl hsz
          have hre : elemsT true (x :: r) ++ 93 :: rest = c :: (tl ++ elemsT false r ++ 93 :: rest) := by
            simp [elemsT, comma, hr, List.append_assoc]
          simp only [renderT, List.cons_append, List.append_assoc, List.nil_append, parseV]
          simp only [show (91 : UInt8) ≠ 34 by decide, if_false, if_true]
          rw [hre] at key ⊢
          simp only [List.nil_append] at key
          split
          · rename_i r' heq; injection heq with h1 _; exact absurd h1 hc93
          · simpa [erase] using key
  | .obj kvs, fuel, rest, hw, _, hf => by
      cases fuel with
      | zero => simp [sizeT] at hf
      | succ f =>
        have hwm : WFTm kvs := by simpa [WFT] using hw
        cases kvs with
        | nil => simp [renderT, memsT, parseV, erase, eraseM]
        | cons kv r =>
          obtain ⟨k, v⟩ := kv
          have hsz : sizeTm ((k, v) :: r) ≤ f := by simp [sizeT] at hf; omega
          have key := parseMembers_renderT ((k, v) :: r) (by simp) f [] rest hwm hsz
          have hre : memsT true ((k, v) :: r) ++ 125 :: rest =
              34 :: (k ++ 34 :: 58 :: 32 :: (renderT v ++ memsT false r) ++ 125 :: rest) := by
            simp [memsT, comma, List.append_assoc]
          simp only [renderT, List.cons_append, List.append_assoc, List.nil_append, parseV]
          simp only [show (123 : UInt8) ≠ 34 by decide, show (123 : UInt8) ≠ 91 by decide, if_false, if_true]
          rw [hre] at key ⊢
          simp only [List.nil_append] at key
          split
          · rename_i r' heq; injection heq with h1 _; exact absurd h1 (by decide)
          · simpa [erase] using key
theorem parseElems_renderT : ∀ (xs : List T) (_ : xs ≠ []) (fuel : Nat) (acc : List J) (rest : Bytes),
    WFTl xs → sizeTl xs ≤ fuel →
    parseElems fuel acc (elemsT true xs ++ 93 :: rest) = some (.arr (acc ++ eraseL xs), rest)
  | [], hne, _, _, _, _, _ => absurd rfl hne
  | [x], _, fuel, acc, rest, hw, hf => by
      cases fuel with
      | zero => simp [sizeTl] at hf
      | succ f =>
        have hx : WFT x := by simp [WFTl] at hw; exact hw
        have hsz : sizeT x ≤ f := by simp [sizeTl] at hf; omega
        simp only [elemsT, comma, parseElems, List.nil_append, List.append_nil, if_true]
        rw [parseV_renderT x f (93 :: rest) hx (sep93 rest) hsz]
        simp [eraseL]
  | x :: y :: r, _, fuel, acc, rest, hw, hf => by
      cases fuel with
      | zero => simp [sizeTl] at hf
      | succ f =>
        have hw' : WFT x ∧ WFTl (y :: r) := by simpa [WFTl] using hw
        have h1 : sizeT x ≤ f := by simp [sizeTl] at hf ⊢; omega
        have h2 : sizeTl (y :: r) ≤ f := by simp [sizeTl] at hf ⊢; omega
        have hsplit : elemsT true (x :: y :: r) ++ 93 :: rest =
            renderT x ++ 44 :: 32 :: (elemsT true (y :: r) ++ 93 :: rest) := by
          rw [show elemsT true (x :: y :: r) = renderT x ++ elemsT false (y :: r) by simp [elemsT, comma]]
          rw [elemsT_false_cons]; simp [List.append_assoc]
        rw [hsplit]
        simp only [parseElems]
        rw [parseV_renderT x f _ hw'.1 (sep44 _) h1]
        simp only [skipSp_sp]
        rw [parseElems_renderT (y :: r) (by simp) f (acc ++ [erase x]) rest hw'.2 h2]
        simp [eraseL]
theorem parseMembers_renderT : ∀ (kvs : List (Bytes × T)) (_ : kvs ≠ []) (fuel : Nat)
    (acc : List (Bytes × J)) (rest : Bytes),
    WFTm kvs → sizeTm kvs ≤ fuel →
    parseMembers fuel acc (memsT true kvs ++ 125 :: rest) = some (.obj (acc ++ eraseM kvs), rest)
  | [], hne, _, _, _, _, _ => absurd rfl hne
  | [(k, v)], _, fuel, acc, rest, hw, hf => by
      cases fuel with
      | zero => simp [sizeTm] at hf
      | succ f =>
        have hw' : runD 0 k = some 0 ∧ WFT v := by simpa [WFTm] using hw
        have hsz : sizeT v ≤ f := by simp [sizeTm] at hf; omega
        simp only [memsT, comma, parseMembers, List.nil_append, List.append_nil, List.cons_append,
          List.append_assoc, if_true]
        rw [scanStr_body 0 [] k _ hw'.1]
        simp only [List.nil_append, skipSp_sp]
        rw [parseV_renderT v f (125 :: rest) hw'.2 (sep125 rest) hsz]
        simp [eraseM]
  | (k, v) :: y :: r, _, fuel, acc, rest, hw, hf => by
      cases fuel with
      | zero => simp [sizeTm] at hf
      | succ f =>
        have hw' : runD 0 k = some 0 ∧ WFT v ∧ WFTm (y :: r) := by simpa [WFTm] using hw
        have h1 : sizeT v ≤ f := by simp [sizeTm] at hf ⊢; omega
        have h2 : sizeTm (y :: r) ≤ f := by simp [sizeTm] at hf ⊢; omega
        have hsplit : memsT true ((k, v) :: y :: r) ++ 125 :: rest =
            34 :: (k ++ 34 :: 58 :: 32 :: (renderT v ++ 44 :: 32 :: (memsT true (y :: r) ++ 125 :: rest))) := by
          rw [show memsT true ((k, v) :: y :: r) = 34 :: (k ++ 34 :: 58 :: 32 :: (renderT v ++ memsT false (y :: r)))
            by simp [memsT, comma]]
          rw [memsT_false_cons]; simp [List.append_assoc]
        rw [hsplit]
        simp only [parseMembers]
        rw [scanStr_body 0 [] k _ hw'.1]
        simp only [List.nil_append, skipSp_sp]
        rw [parseV_renderT v f _ hw'.2.1 (sep44 _) h1]
        simp only [skipSp_sp]
        rw [parseMembers_renderT (y :: r) (by simp) f (acc ++ [(k, erase v)]) rest hw'.2.2 h2]
        simp [eraseM]
end

mutual
theorem denTO_wf : ∀ (calls : List OC), WFo calls → WFTm (denTO calls)
  | [], _ => by simp [denTO, WFTm]
  | OC.prim k v :: r, h => by
      obtain ⟨hv, hr⟩ := (by simpa [WFo] using h : WFj v ∧ WFo r)
      simp only [denTO, WFTm, WFT]; exact ⟨esc_ok k, hv, denTO_wf r hr⟩
  | OC.ns k :: r, h => by
      have hr : WFo r := by simpa [WFo] using h
      simp only [denTO, WFTm, WFT]; exact ⟨esc_ok k, denTO_wf r hr, trivial⟩
  | OC.obj k body :: r, h => by
      obtain ⟨hb, hr⟩ := (by simpa [WFo] using h : WFo body ∧ WFo r)
      simp only [denTO, WFTm, WFT]; exact ⟨esc_ok k, denTO_wf body hb, denTO_wf r hr⟩
  | OC.arr k body :: r, h => by
      obtain ⟨hb, hr⟩ := (by simpa [WFo] using h : WFa body ∧ WFo r)
      simp only [denTO, WFTm, WFT]; exact ⟨esc_ok k, denTA_wf body hb, denTO_wf r hr⟩
theorem denTA_wf : ∀ (calls : List AC), WFa calls → WFTl (denTA calls)
  | [], _ => by simp [denTA, WFTl]
  | AC.prim v :: r, h => by
      obtain ⟨hv, hr⟩ := (by simpa [WFa] using h : WFj v ∧ WFa r)
      simp only [denTA, WFTl, WFT]; exact ⟨hv, denTA_wf r hr⟩
  | AC.obj body :: r, h => by
      obtain ⟨hb, hr⟩ := (by simpa [WFa] using h : WFo body ∧ WFa r)
      simp only [denTA, WFTl, WFT]; exact ⟨denTO_wf body hb, denTA_wf r hr⟩
  | AC.arr body :: r, h => by
      obtain ⟨hb, hr⟩ := (by simpa [WFa] using h : WFa body ∧ WFa r)
      simp only [denTA, WFTl, WFT]; exact ⟨denTA_wf body hb, denTA_wf r hr⟩
end

/-- the spaced object of a call list parses (blank-tolerantly) to exactly the tree the compact form denotes -/
theorem spaced_object_parses (calls : List OC) (hw : WFo calls) :
    let bytes := (outO true true calls).1 ++ List.replicate (outO true true calls).2 125
    parseV (sizeT (T.obj (denTO calls))) (123 :: (bytes ++ [125])) = some (J.obj (denO calls), []) := by
  intro bytes
  have h1 : bytes = memsT true (denTO calls) := outO_denT calls true
  have h2 := parseV_renderT (T.obj (denTO calls)) _ [] (by simpa [WFT] using denTO_wf calls hw) (Or.inl rfl) (Nat.le_refl _)
  simp only [renderT, erase, erase_denTO, List.append_nil] at h2
  rw [h1]; exact h2

end ZapVerif.Enc
