import ZapVerif.Model.SubEnc
import ZapVerif.Proofs.Num
import ZapVerif.Proofs.EntryWF
import ZapVerif.Props.C15
import ZapVerif.Proofs.Unesc
/-! lemmas about the built-in sub-encoders (`Model/SubEnc.lean`): `time.Duration.String` — structure of `fmtFrac`, a
    `time.ParseDuration`-style reader and the proof that it reads every emitted text back; caller texts. -/
namespace ZapVerif.SubEnc
open ZapVerif ZapVerif.Entry

/-! ### fmtFrac -/

/-- the digits `fmtFrac` writes, most significant first (without the point) -/
def fracDigits : Nat → Nat → Bool → Bytes
  | 0, _, _ => []
  | p + 1, v, print =>
    fracDigits p (v / 10) (print || v % 10 != 0) ++ (if (print || v % 10 != 0) then [UInt8.ofNat (48 + v % 10)] else [])

theorem mod_pow_succ_zero (v p : Nat) : v % 10 ^ (p + 1) = v % 10 + 10 * (v / 10 % 10 ^ p) := by
  rw [Nat.pow_succ, Nat.mul_comm, Nat.mod_mul]

theorem div_pow_succ (v p : Nat) : v / 10 ^ (p + 1) = v / 10 / 10 ^ p := by
  rw [Nat.pow_succ, Nat.mul_comm, Nat.div_div_eq_div_mul]

/-- `fmtFrac` = optional point, the trimmed digits, then what was already in the buffer; and the quotient -/
theorem fmtFrac_eq (p v : Nat) (print : Bool) (acc : Bytes) :
    fmtFrac p v print acc =
      ((if (print || v % 10 ^ p != 0) then [46] else []) ++ fracDigits p v print ++ acc, v / 10 ^ p) := by
  induction p generalizing v print acc with
  | zero => cases print <;> simp [fmtFrac, fracDigits, Nat.mod_one]
  | succ p ih =>
    simp only [fmtFrac, fracDigits]
    rw [ih, div_pow_succ]
    have hm := mod_pow_succ_zero v p
    have hz : (v % 10 ^ (p + 1) = 0) ↔ (v % 10 = 0 ∧ v / 10 % 10 ^ p = 0) := by rw [hm]; omega
    have hc : ((print || v % 10 != 0) || v / 10 % 10 ^ p != 0) = (print || v % 10 ^ (p + 1) != 0) := by
      rw [Bool.eq_iff_iff]
      simp only [Bool.or_eq_true, bne_iff_ne, ne_eq]
      rw [hz]
      by_cases h1 : v % 10 = 0 <;> by_cases h2 : v / 10 % 10 ^ p = 0 <;> simp [h1, h2]
    rw [hc]
    by_cases hp : (print || v % 10 != 0) = true <;> simp [hp, List.append_assoc]

def isDig (c : UInt8) : Bool := 48 ≤ c && c ≤ 57

theorem isDig_digit : ∀ d ∈ List.range 10, isDig (UInt8.ofNat (48 + d)) = true := by decide

theorem fracDigits_dig (p v : Nat) (print : Bool) : ∀ c ∈ fracDigits p v print, isDig c = true := by
  induction p generalizing v print with
  | zero => simp [fracDigits]
  | succ p ih =>
    intro c hc
    simp only [fracDigits, List.mem_append] at hc
    rcases hc with hc | hc
    · exact ih _ _ c hc
    · split at hc
      · simp only [List.mem_singleton] at hc
        rw [hc]; exact isDig_digit _ (List.mem_range.mpr (Nat.mod_lt _ (by decide)))
      · simp at hc

/-- once a digit has been printed every further digit is: `p` digits spelling `v mod 10^p` -/
theorem fracDigits_true (p v : Nat) :
    (fracDigits p v true).length = p ∧ natOf (fracDigits p v true) = v % 10 ^ p := by
  induction p generalizing v with
  | zero => simp [fracDigits, natOf, Nat.mod_one]
  | succ p ih =>
    have h := ih (v / 10)
    simp only [fracDigits, Bool.true_or, if_true]
    refine ⟨by simp [h.1], ?_⟩
    rw [natOf_snoc, h.2, digit_val _ (List.mem_range.mpr (Nat.mod_lt _ (by decide))), mod_pow_succ_zero]
    omega

/-- trailing zeros are dropped: the digits written, scaled back, are the fraction -/
theorem fracDigits_false (p v : Nat) :
    (fracDigits p v false).length ≤ p ∧
    natOf (fracDigits p v false) * 10 ^ (p - (fracDigits p v false).length) = v % 10 ^ p ∧
    (fracDigits p v false = [] ↔ v % 10 ^ p = 0) := by
  induction p generalizing v with
  | zero => simp [fracDigits, natOf, Nat.mod_one]
  | succ p ih =>
    have hm := mod_pow_succ_zero v p
    by_cases h0 : v % 10 = 0
    · have h := ih (v / 10)
      have e : fracDigits (p + 1) v false = fracDigits p (v / 10) false := by simp [fracDigits, h0]
      rw [e]
      refine ⟨by omega, ?_, ?_⟩
      · have : p + 1 - (fracDigits p (v / 10) false).length = (p - (fracDigits p (v / 10) false).length) + 1 := by omega
        rw [this, Nat.pow_succ, ← Nat.mul_assoc, h.2.1, hm, h0]; omega
      · rw [h.2.2, hm, h0]; omega
    · have h := fracDigits_true p (v / 10)
      have hb : (v % 10 != 0) = true := by simp [h0]
      have e : fracDigits (p + 1) v false = fracDigits p (v / 10) true ++ [UInt8.ofNat (48 + v % 10)] := by
        simp [fracDigits, hb]
      rw [e]
      refine ⟨by simp [h.1], ?_, ?_⟩
      · simp only [List.length_append, List.length_singleton, h.1, Nat.sub_self, Nat.pow_zero, Nat.mul_one]
        rw [natOf_snoc, h.2, digit_val _ (List.mem_range.mpr (Nat.mod_lt _ (by decide))), hm]
        omega
      · constructor
        · intro hc; simp at hc
        · intro hc; rw [hm] at hc; omega

/-! ### a `time.ParseDuration`-style reader (no overflow checks: values are unbounded) -/

/-- leading decimal digits, rest -/
def spanDig : Bytes → Bytes × Bytes
  | [] => ([], [])
  | c :: r => if isDig c then ((c :: (spanDig r).1), (spanDig r).2) else ([], c :: r)

/-- the unit: everything up to the next digit or point -/
def spanUnit : Bytes → Bytes × Bytes
  | [] => ([], [])
  | c :: r => if isDig c || c == 46 then ([], c :: r) else ((c :: (spanUnit r).1), (spanUnit r).2)

/-- `unitMap` of package time: ns, us / µs (U+00B5) / μs (U+03BC), ms, s, m, h in nanoseconds -/
def unitNs (u : Bytes) : Option Nat :=
  if u = [110, 115] then some 1
  else if u = [117, 115] then some 1000
  else if u = [194, 181, 115] then some 1000
  else if u = [206, 188, 115] then some 1000
  else if u = [109, 115] then some 1000000
  else if u = [115] then some 1000000000
  else if u = [109] then some 60000000000
  else if u = [104] then some 3600000000000
  else none

/-- `[0-9]*(\.[0-9]*)?unit` groups, summed: integer part × unit + fraction × unit (floor) -/
def parseGroups : Nat → Bytes → Nat → Option Nat
  | _, [], acc => some acc
  | 0, _ :: _, _ => none
  | fuel + 1, c :: r, acc =>
    let ip := spanDig (c :: r)
    let fp := if ip.2.head? = some 46 then spanDig ip.2.tail else ([], ip.2)
    if ip.1.isEmpty && fp.1.isEmpty then none
    else
      let up := spanUnit fp.2
      match unitNs up.1 with
      | none => none
      | some U => parseGroups fuel up.2 (acc + natOf ip.1 * U + natOf fp.1 * U / 10 ^ fp.1.length)

/-- `time.ParseDuration`: optional sign, then "0" or a non-empty sequence of groups -/
def durParse (s : Bytes) : Option Int :=
  let body (r : Bytes) : Option Nat := if r = [48] then some 0 else if r = [] then none else parseGroups r.length r 0
  match s with
  | 45 :: r => (body r).map fun n => - (n : Int)
  | 43 :: r => (body r).map fun n => (n : Int)
  | r => (body r).map fun n => (n : Int)

theorem spanDig_app (ds x : Bytes) (hds : ∀ c ∈ ds, isDig c = true) (hx : ∀ c r, x = c :: r → isDig c = false) :
    spanDig (ds ++ x) = (ds, x) := by
  induction ds with
  | nil =>
    cases x with
    | nil => rfl
    | cons c r => simp [spanDig, hx c r rfl]
  | cons d ds ih =>
    have hd := hds d (by simp)
    have := ih (fun c hc => hds c (by simp [hc]))
    simp [spanDig, hd, this]

theorem spanUnit_app (un x : Bytes) (hun : ∀ c ∈ un, isDig c = false ∧ c ≠ 46)
    (hx : ∀ c r, x = c :: r → isDig c = true) : spanUnit (un ++ x) = (un, x) := by
  induction un with
  | nil =>
    cases x with
    | nil => rfl
    | cons c r => simp [spanUnit, hx c r rfl]
  | cons d un ih =>
    have hd := hun d (by simp)
    have := ih (fun c hc => hun c (by simp [hc]))
    simp [spanUnit, hd.1, hd.2, this]

theorem digits_dig (f n : Nat) : ∀ c ∈ digits f n, isDig c = true := by
  induction f generalizing n with
  | zero => simp [digits]
  | succ f ih =>
    intro c hc
    simp only [digits] at hc
    split at hc
    · rename_i hlt
      simp only [List.mem_singleton] at hc
      rw [hc]; exact isDig_digit n (List.mem_range.mpr hlt)
    · simp only [List.mem_append, List.mem_singleton] at hc
      rcases hc with hc | hc
      · exact ih _ c hc
      · rw [hc]; exact isDig_digit _ (List.mem_range.mpr (Nat.mod_lt _ (by decide)))

theorem fmtNat_dig (n : Nat) : ∀ c ∈ fmtNat n, isDig c = true := digits_dig (n + 1) n

theorem fmtNat_ne (n : Nat) : fmtNat n ≠ [] := digits_ne n n

/-- the head of a decimal number is a digit -/
theorem fmtNat_cons (n : Nat) : ∃ c r, fmtNat n = c :: r ∧ isDig c = true := by
  cases h : fmtNat n with
  | nil => exact absurd h (fmtNat_ne n)
  | cons c r => exact ⟨c, r, rfl, fmtNat_dig n c (by simp [h])⟩

/-- one group `<n>[.<ds>]<unit>` is read as n·U + 0.ds·U -/
theorem groups_step (fuel n : Nat) (ds un rest : Bytes) (U acc : Nat)
    (hds : ∀ c ∈ ds, isDig c = true)
    (hun : ∀ c ∈ un, isDig c = false ∧ c ≠ 46) (hune : un ≠ []) (hU : unitNs un = some U)
    (hrest : ∀ c r, rest = c :: r → isDig c = true) :
    parseGroups (fuel + 1) (fmtNat n ++ ((if ds = [] then [] else 46 :: ds) ++ (un ++ rest))) acc =
      parseGroups fuel rest (acc + n * U + natOf ds * U / 10 ^ ds.length) := by
  obtain ⟨c0, r0, hN, _⟩ := fmtNat_cons n
  obtain ⟨u0, un', hu⟩ : ∃ u0 un', un = u0 :: un' := by
    cases un with
    | nil => exact absurd rfl hune
    | cons a b => exact ⟨a, b, rfl⟩
  have hu0 := hun u0 (by simp [hu])
  have hne : fmtNat n ≠ [] := fmtNat_ne n
  by_cases hd : ds = []
  · subst hd
    have h1 : spanDig (fmtNat n ++ (un ++ rest)) = (fmtNat n, un ++ rest) :=
      spanDig_app _ _ (fmtNat_dig n) (by intro c r hx; rw [hu] at hx; simp at hx; rw [← hx.1]; exact hu0.1)
    have h2 : (un ++ rest).head? ≠ some 46 := by rw [hu]; simp; exact hu0.2
    have h3 := spanUnit_app un rest hun hrest
    simp only [if_true, List.nil_append]
    rw [hN] at h1 ⊢
    simp only [List.cons_append] at h1 ⊢
    rw [parseGroups]
    simp only [h1, h2, if_false, h3, hU]
    have hn0 : natOf [] = 0 := rfl
    simp [← hN, natOf_fmtNat, hne, hn0]
  · obtain ⟨d0, ds', hds'⟩ : ∃ d0 ds', ds = d0 :: ds' := by
      cases ds with
      | nil => exact absurd rfl hd
      | cons a b => exact ⟨a, b, rfl⟩
    have h1 : spanDig (fmtNat n ++ (46 :: ds ++ (un ++ rest))) = (fmtNat n, 46 :: ds ++ (un ++ rest)) :=
      spanDig_app _ _ (fmtNat_dig n) (by intro c r hx; simp at hx; rw [← hx.1]; decide)
    have h2 : spanDig (ds ++ (un ++ rest)) = (ds, un ++ rest) :=
      spanDig_app _ _ hds (by intro c r hx; rw [hu] at hx; simp at hx; rw [← hx.1]; exact hu0.1)
    have h3 := spanUnit_app un rest hun hrest
    simp only [hd, if_false]
    rw [hN] at h1 ⊢
    simp only [List.cons_append] at h1 ⊢
    rw [parseGroups]
    simp only [h1, List.head?_cons, if_true, List.tail_cons, h2, h3, hU]
    simp [hds', ← hN, natOf_fmtNat]

theorem groups_step_int (fuel n : Nat) (un rest : Bytes) (U acc : Nat)
    (hun : ∀ c ∈ un, isDig c = false ∧ c ≠ 46) (hune : un ≠ []) (hU : unitNs un = some U)
    (hrest : ∀ c r, rest = c :: r → isDig c = true) :
    parseGroups (fuel + 1) (fmtNat n ++ (un ++ rest)) acc = parseGroups fuel rest (acc + n * U) := by
  have h := groups_step fuel n [] un rest U acc (by simp) hun hune hU hrest
  have hn0 : natOf [] = 0 := rfl
  simpa [hn0] using h

/-- text of the fraction: nothing, or the point and the trimmed digits -/
def fracText (p v : Nat) : Bytes := if fracDigits p v false = [] then [] else 46 :: fracDigits p v false

theorem fmtFrac_text (p v : Nat) (acc : Bytes) : fmtFrac p v false acc = (fracText p v ++ acc, v / 10 ^ p) := by
  rw [fmtFrac_eq]
  have h := (fracDigits_false p v).2.2
  unfold fracText
  by_cases h0 : v % 10 ^ p = 0
  · simp [h0, h.mpr h0]
  · have : fracDigits p v false ≠ [] := fun e => h0 (h.mp e)
    simp [h0, this]

/-- the fraction read back under a unit of 10^p ns is exactly the remainder -/
theorem frac_value (p v : Nat) :
    natOf (fracDigits p v false) * 10 ^ p / 10 ^ (fracDigits p v false).length = v % 10 ^ p := by
  obtain ⟨hl, hv, _⟩ := fracDigits_false p v
  have e : 10 ^ p = 10 ^ (p - (fracDigits p v false).length) * 10 ^ (fracDigits p v false).length := by
    rw [← Nat.pow_add]; congr 1; omega
  have hpos : 0 < 10 ^ (fracDigits p v false).length := Nat.pow_pos (by decide)
  calc natOf (fracDigits p v false) * 10 ^ p / 10 ^ (fracDigits p v false).length
      = natOf (fracDigits p v false) * (10 ^ (p - (fracDigits p v false).length) * 10 ^ (fracDigits p v false).length) /
          10 ^ (fracDigits p v false).length := by rw [← e]
    _ = natOf (fracDigits p v false) * 10 ^ (p - (fracDigits p v false).length) * 10 ^ (fracDigits p v false).length /
          10 ^ (fracDigits p v false).length := by rw [Nat.mul_assoc]
    _ = natOf (fracDigits p v false) * 10 ^ (p - (fracDigits p v false).length) := Nat.mul_div_cancel _ hpos
    _ = v % 10 ^ p := hv

/-- one group with the `fmtFrac` fraction of `v` under the unit 10^p: reads as `v` -/
theorem groups_step_frac (fuel p v : Nat) (un rest : Bytes) (acc : Nat)
    (hun : ∀ c ∈ un, isDig c = false ∧ c ≠ 46) (hune : un ≠ []) (hU : unitNs un = some (10 ^ p))
    (hrest : ∀ c r, rest = c :: r → isDig c = true) :
    parseGroups (fuel + 1) (fmtNat (v / 10 ^ p) ++ (fracText p v ++ (un ++ rest))) acc =
      parseGroups fuel rest (acc + v) := by
  have h := groups_step fuel (v / 10 ^ p) (fracDigits p v false) un rest (10 ^ p) acc
    (fracDigits_dig p v false) hun hune hU hrest
  unfold fracText
  rw [h, frac_value, Nat.add_assoc, Nat.div_add_mod']

theorem parseGroups_nil (fuel acc : Nat) : parseGroups fuel [] acc = some acc := by
  cases fuel <;> rfl

theorem no_head (c : UInt8) (r : Bytes) : ([] : Bytes) = c :: r → isDig c = true := by
  intro h; cases h

/-- the magnitude text reads back; it starts with a digit and is not the special text "0" -/
theorem durMag_parse (u : Nat) (hu : 0 < u) :
    parseGroups (durMag u).length (durMag u) 0 = some u ∧ (∃ c r, durMag u = c :: r ∧ isDig c = true) ∧
      durMag u ≠ [48] := by
  have p9 : (1000000000 : Nat) = 10 ^ 9 := rfl
  have p6 : (1000000 : Nat) = 10 ^ 6 := rfl
  have p3 : (1000 : Nat) = 10 ^ 3 := rfl
  unfold durMag
  by_cases hs : u < 1000000000
  · have hu0 : u ≠ 0 := by omega
    simp only [hs, if_true, hu0, if_false]
    -- the three sub-second units
    have key : ∀ (un : Bytes) (p : Nat), (∀ c ∈ un, isDig c = false ∧ c ≠ 46) → un ≠ [] → unitNs un = some (10 ^ p) →
        let t := fmtNat (fmtFrac p u false un).2 ++ (fmtFrac p u false un).1
        parseGroups t.length t 0 = some u ∧ (∃ c r, t = c :: r ∧ isDig c = true) ∧ t ≠ [48] := by
      intro un p hun hune hU
      simp only [fmtFrac_text]
      obtain ⟨c, r, hc, hd⟩ := fmtNat_cons (u / 10 ^ p)
      obtain ⟨u0, un', hun'⟩ : ∃ u0 un', un = u0 :: un' := by
        cases un with
        | nil => exact absurd rfl hune
        | cons a b => exact ⟨a, b, rfl⟩
      refine ⟨?_, ⟨c, r ++ (fracText p u ++ un), by simp [hc], hd⟩, ?_⟩
      · have hl : ∃ f, (fmtNat (u / 10 ^ p) ++ (fracText p u ++ un)).length = f + 1 := by
          rw [hc]; exact ⟨_, by simp; rfl⟩
        obtain ⟨f, hf⟩ := hl
        rw [hf]
        have := groups_step_frac f p u un [] 0 hun hune hU no_head
        simp only [List.append_nil, Nat.zero_add] at this
        rw [this, parseGroups_nil]
      · rw [hc, hun']
        intro h
        simp at h
    unfold smallUnit
    by_cases h1 : u < 1000
    · simp only [h1, if_true]
      exact key [110, 115] 0 (by decide) (by decide) (by decide)
    · by_cases h2 : u < 1000000
      · simp only [h1, h2, if_true, if_false]
        exact key [194, 181, 115] 3 (by decide) (by decide) (by decide)
      · simp only [h1, h2, if_false]
        exact key [109, 115] 6 (by decide) (by decide) (by decide)
  · simp only [hs, if_false, fmtFrac_text]
    have hS : unitNs [115] = some (10 ^ 9) := by decide
    have hM : unitNs [109] = some 60000000000 := by decide
    have hH : unitNs [104] = some 3600000000000 := by decide
    have uS : ∀ c ∈ ([115] : Bytes), isDig c = false ∧ c ≠ 46 := by decide
    have uM : ∀ c ∈ ([109] : Bytes), isDig c = false ∧ c ≠ 46 := by decide
    have uH : ∀ c ∈ ([104] : Bytes), isDig c = false ∧ c ≠ 46 := by decide
    -- the seconds group, with whatever precedes it accumulated in `acc`
    have secsG : ∀ fuel acc, parseGroups (fuel + 1)
        (fmtNat (u / 10 ^ 9 % 60) ++ (fracText 9 u ++ [115])) acc = some (acc + (u / 10 ^ 9 % 60) * 10 ^ 9 + u % 10 ^ 9) := by
      intro fuel acc
      have h := groups_step fuel (u / 10 ^ 9 % 60) (fracDigits 9 u false) [115] [] (10 ^ 9) acc
        (fracDigits_dig 9 u false) uS (by decide) hS no_head
      simp only [List.append_nil] at h
      unfold fracText
      rw [h, frac_value, parseGroups_nil]
    have startsDig : ∀ (n : Nat) (x : Bytes) (c : UInt8) (r : Bytes), fmtNat n ++ x = c :: r → isDig c = true := by
      intro n x c r h
      obtain ⟨c', r', hc', hd'⟩ := fmtNat_cons n
      rw [hc'] at h; simp at h; rw [← h.1]; exact hd'
    have lenPos : ∀ (n : Nat) (x : Bytes), ∃ f, (fmtNat n ++ x).length = f + 1 + x.length := by
      intro n x
      obtain ⟨c', r', hc', _⟩ := fmtNat_cons n
      exact ⟨r'.length, by rw [hc']; simp; omega⟩
    have not0 : ∀ (n : Nat) (x : Bytes), x ≠ [] → fmtNat n ++ x ≠ [48] := by
      intro n x hx h
      obtain ⟨c', r', hc', _⟩ := fmtNat_cons n
      rw [hc'] at h
      simp at h
      exact hx h.2.2
    by_cases hm : u / 10 ^ 9 / 60 > 0
    · by_cases hh : u / 10 ^ 9 / 60 / 60 > 0
      · simp only [← p9, hm, hh, if_true]
        rw [p9]
        refine ⟨?_, ?_, not0 _ _ (by simp)⟩
        · obtain ⟨f1, h1⟩ := lenPos (u / 10 ^ 9 / 60 / 60) (104 :: (fmtNat (u / 10 ^ 9 / 60 % 60) ++ 109 :: (fmtNat (u / 10 ^ 9 % 60) ++ (fracText 9 u ++ [115]))))
          obtain ⟨f2, h2⟩ := lenPos (u / 10 ^ 9 / 60 % 60) (109 :: (fmtNat (u / 10 ^ 9 % 60) ++ (fracText 9 u ++ [115])))
          rw [h1]
          simp only [List.length_cons, h2]
          have e1 : f1 + 1 + (f2 + 1 + ((fmtNat (u / 10 ^ 9 % 60) ++ (fracText 9 u ++ [115])).length + 1) + 1) =
              (f1 + f2 + (fmtNat (u / 10 ^ 9 % 60) ++ (fracText 9 u ++ [115])).length + 1 + 1 + 1) + 1 := by omega
          rw [e1]
          have g1 := groups_step_int (f1 + f2 + (fmtNat (u / 10 ^ 9 % 60) ++ (fracText 9 u ++ [115])).length + 1 + 1 + 1)
            (u / 10 ^ 9 / 60 / 60) [104]
            (fmtNat (u / 10 ^ 9 / 60 % 60) ++ 109 :: (fmtNat (u / 10 ^ 9 % 60) ++ (fracText 9 u ++ [115]))) _ 0 uH (by decide) hH
            (startsDig _ _)
          simp only [List.singleton_append] at g1
          rw [g1]
          have g2 := groups_step_int (f1 + f2 + (fmtNat (u / 10 ^ 9 % 60) ++ (fracText 9 u ++ [115])).length + 1 + 1)
            (u / 10 ^ 9 / 60 % 60) [109] (fmtNat (u / 10 ^ 9 % 60) ++ (fracText 9 u ++ [115])) _
            (0 + u / 10 ^ 9 / 60 / 60 * 3600000000000) uM (by decide) hM (startsDig _ _)
          simp only [List.singleton_append] at g2
          rw [g2, secsG]
          congr 1
          rw [← p9]; omega
        · obtain ⟨c', r', hc', hd'⟩ := fmtNat_cons (u / 10 ^ 9 / 60 / 60)
          exact ⟨c', _, by rw [hc']; rfl, hd'⟩
      · simp only [← p9, hm, hh, if_true, if_false]
        rw [p9]
        refine ⟨?_, ?_, not0 _ _ (by simp)⟩
        · obtain ⟨f2, h2⟩ := lenPos (u / 10 ^ 9 / 60 % 60) (109 :: (fmtNat (u / 10 ^ 9 % 60) ++ (fracText 9 u ++ [115])))
          rw [h2]
          simp only [List.length_cons]
          have e1 : f2 + 1 + ((fmtNat (u / 10 ^ 9 % 60) ++ (fracText 9 u ++ [115])).length + 1) =
              (f2 + (fmtNat (u / 10 ^ 9 % 60) ++ (fracText 9 u ++ [115])).length + 1) + 1 := by omega
          rw [e1]
          have g2 := groups_step_int (f2 + (fmtNat (u / 10 ^ 9 % 60) ++ (fracText 9 u ++ [115])).length + 1)
            (u / 10 ^ 9 / 60 % 60) [109] (fmtNat (u / 10 ^ 9 % 60) ++ (fracText 9 u ++ [115])) _
            0 uM (by decide) hM (startsDig _ _)
          simp only [List.singleton_append] at g2
          rw [g2, secsG]
          congr 1
          rw [← p9]; rw [← p9] at hh; omega
        · obtain ⟨c', r', hc', hd'⟩ := fmtNat_cons (u / 10 ^ 9 / 60 % 60)
          exact ⟨c', _, by rw [hc']; rfl, hd'⟩
    · simp only [← p9, hm, if_false]
      rw [p9]
      refine ⟨?_, ?_, not0 _ _ (by simp)⟩
      · obtain ⟨f3, h3⟩ := lenPos (u / 10 ^ 9 % 60) (fracText 9 u ++ [115])
        rw [h3]
        have e1 : f3 + 1 + (fracText 9 u ++ [115]).length = (f3 + (fracText 9 u ++ [115]).length) + 1 := by omega
        rw [e1, secsG]
        congr 1
        rw [← p9]; rw [← p9] at hm; omega
      · obtain ⟨c', r', hc', hd'⟩ := fmtNat_cons (u / 10 ^ 9 % 60)
        exact ⟨c', _, by rw [hc']; rfl, hd'⟩

theorem durMag_zero : durMag 0 = [48, 115] := by decide

/-- `time.ParseDuration`-style reading of `Duration.String()` gives back the duration — for every integer, so in
    particular for the whole int64 range including MinInt64 -/
theorem durParse_durString (d : Int) : durParse (durString d) = some d := by
  have body : ∀ u : Nat, 0 < u → ∀ c r, durMag u = c :: r → isDig c = true →
      (if durMag u = [48] then some 0 else if durMag u = [] then none else parseGroups (durMag u).length (durMag u) 0) = some u := by
    intro u hu c r hc _
    obtain ⟨hp, _, hn0⟩ := durMag_parse u hu
    have hne : durMag u ≠ [] := by rw [hc]; simp
    simp only [hn0, hne, if_false, hp]
  unfold durString
  by_cases hneg : d < 0
  · have hu : 0 < d.natAbs := by omega
    obtain ⟨_, ⟨c, r, hc, hd⟩, _⟩ := durMag_parse d.natAbs hu
    simp only [hneg, if_true, durParse]
    rw [body d.natAbs hu c r hc hd]
    simp; omega
  · by_cases hz : d = 0
    · subst hz; decide
    · have hu : 0 < d.natAbs := by omega
      obtain ⟨_, ⟨c, r, hc, hd⟩, _⟩ := durMag_parse d.natAbs hu
      have h45 : c ≠ 45 := by intro e; rw [e] at hd; exact absurd hd (by decide)
      have h43 : c ≠ 43 := by intro e; rw [e] at hd; exact absurd hd (by decide)
      simp only [hneg, if_false]
      have hb := body d.natAbs hu c r hc hd
      rw [hc] at hb ⊢
      unfold durParse
      split
      · rename_i heq; injection heq with h1 _; exact absurd h1 h45
      · rename_i heq; injection heq with h1 _; exact absurd h1 h43
      · simp only [hb]; simp; omega

/-! ### levels -/

/-- every value of `zapcore.Level` (int8) -/
def allLevels : List Int := (List.range 256).map fun (n : Nat) => (n : Int) - 128

/-- colour of a level: `_levelToColor[l]`, else `_unknownLevelColor` -/
def colorOf (l : Int) : Nat := (Gen.levelToColor.lookup l).getD Gen.unknownLevelColor

theorem lookup_map_snd {α β γ : Type} [BEq α] (l : List (α × β)) (g : α × β → γ) (k : α) :
    (l.map fun x => (x.1, g x)).lookup k = (l.find? fun x => k == x.1).map g := by
  induction l with
  | nil => rfl
  | cons x xs ih =>
    simp only [List.map_cons, List.lookup_cons, List.find?_cons]
    cases h : k == x.1 <;> simp [ih]

theorem colorLevel_eq (text : Int → Bytes) (l : Int) : colorLevel text l = colorAdd (colorOf l) (text l) := by
  unfold colorLevel colorMap colorOf
  have h1 := lookup_map_snd Gen.levelToColor (fun lc => colorAdd lc.2 (text lc.1)) l
  have h2 := lookup_map_snd Gen.levelToColor (fun lc => lc.2) l
  have e2 : (Gen.levelToColor.map fun x => (x.1, x.2)) = Gen.levelToColor := by simp
  rw [e2] at h2
  rw [h1, h2]
  cases hf : Gen.levelToColor.find? (fun x => l == x.1) with
  | none => simp
  | some x =>
    have := List.find?_some hf
    simp only [beq_iff_eq] at this
    simp [this]

theorem color_pieces : Gen.colorAddPre = [27, 91] ∧ Gen.colorAddMid = [109] ∧ Gen.colorAddSuf = [27, 91, 48, 109] := by
  decide

/-- the colour number and the coloured text are both recoverable from `Color.Add`'s output -/
theorem colorAdd_inj (c1 c2 : Nat) (s1 s2 : Bytes) (h : colorAdd c1 s1 = colorAdd c2 s2) : c1 = c2 ∧ s1 = s2 := by
  obtain ⟨hp, hm, hs⟩ := color_pieces
  unfold colorAdd at h
  rw [hp, hm, hs] at h
  simp only [List.append_assoc, List.cons_append, List.nil_append, List.cons.injEq, true_and] at h
  have nd : ∀ (x : Bytes) (c : UInt8) (r : Bytes), (109 :: x) = c :: r → isDig c = false := by
    intro x c r e; injection e with e1 _; rw [← e1]; decide
  have a1 := spanDig_app (fmtNat c1) (109 :: (s1 ++ [27, 91, 48, 109])) (fmtNat_dig c1) (nd _)
  have a2 := spanDig_app (fmtNat c2) (109 :: (s2 ++ [27, 91, 48, 109])) (fmtNat_dig c2) (nd _)
  rw [h] at a1
  rw [a1] at a2
  injection a2 with e1 e2
  injection e2 with _ e3
  refine ⟨?_, List.append_cancel_right e3⟩
  have := congrArg natOf e1
  simpa [natOf_fmtNat] using this

theorem unknown_level_text : ∀ l ∈ allLevels, l ∉ Level.validLevels →
    Level.stringOf l = litStr "Level(" ++ fmtInt l ++ [41] ∧ Level.capitalOf l = litStr "LEVEL(" ++ fmtInt l ++ [41] := by
  decide +kernel

theorem known_level_heads : ∀ l ∈ Level.validLevels,
    (Level.stringOf l).head? ≠ some 76 ∧ (Level.capitalOf l).head? ≠ some 76 ∧ Level.stringOf l ≠ [] ∧ Level.capitalOf l ≠ [] := by
  decide +kernel

theorem known_names_inj : ∀ a ∈ Level.validLevels, ∀ b ∈ Level.validLevels,
    (Level.stringOf a = Level.stringOf b → a = b) ∧ (Level.capitalOf a = Level.capitalOf b → a = b) := by
  decide +kernel

theorem fmtInt_inj (a b : Int) (h : fmtInt a = fmtInt b) : a = b := by
  have := congrArg intOf h
  simpa [intOf_fmtInt] using this

/-- distinct levels have distinct texts — all 256 values, known names and `Level(n)` fall-backs alike -/
theorem plain_text_inj : ∀ a ∈ allLevels, ∀ b ∈ allLevels,
    (Level.stringOf a = Level.stringOf b → a = b) ∧ (Level.capitalOf a = Level.capitalOf b → a = b) := by
  intro a ha b hb
  have hL : ∀ x : Bytes, (litStr "Level(" ++ x ++ [41]).head? = some 76 := by
    intro x
    have : litStr "Level(" = [76, 101, 118, 101, 108, 40] := by decide +kernel
    rw [this]; rfl
  have hC : ∀ x : Bytes, (litStr "LEVEL(" ++ x ++ [41]).head? = some 76 := by
    intro x
    have : litStr "LEVEL(" = [76, 69, 86, 69, 76, 40] := by decide +kernel
    rw [this]; rfl
  by_cases va : a ∈ Level.validLevels <;> by_cases vb : b ∈ Level.validLevels
  · exact known_names_inj a va b vb
  · obtain ⟨h1, h2, _, _⟩ := known_level_heads a va
    obtain ⟨u1, u2⟩ := unknown_level_text b hb vb
    refine ⟨fun e => ?_, fun e => ?_⟩
    · rw [e, u1] at h1; exact absurd (hL _) h1
    · rw [e, u2] at h2; exact absurd (hC _) h2
  · obtain ⟨h1, h2, _, _⟩ := known_level_heads b vb
    obtain ⟨u1, u2⟩ := unknown_level_text a ha va
    refine ⟨fun e => ?_, fun e => ?_⟩
    · rw [← e, u1] at h1; exact absurd (hL _) h1
    · rw [← e, u2] at h2; exact absurd (hC _) h2
  · obtain ⟨a1, a2⟩ := unknown_level_text a ha va
    obtain ⟨b1, b2⟩ := unknown_level_text b hb vb
    refine ⟨fun e => ?_, fun e => ?_⟩
    · rw [a1, b1] at e
      simp only [List.append_assoc] at e
      exact fmtInt_inj a b (List.append_cancel_right (List.append_cancel_left e))
    · rw [a2, b2] at e
      simp only [List.append_assoc] at e
      exact fmtInt_inj a b (List.append_cancel_right (List.append_cancel_left e))

theorem levelText_inj (k : LvlEnc) : ∀ a ∈ allLevels, ∀ b ∈ allLevels, levelText k a = levelText k b → a = b := by
  intro a ha b hb h
  have hp := plain_text_inj a ha b hb
  cases k with
  | lower => exact hp.1 h
  | capital => exact hp.2 h
  | color =>
    simp only [levelText, colorLevel_eq] at h
    exact hp.1 (colorAdd_inj _ _ _ _ h).2
  | capitalColor =>
    simp only [levelText, colorLevel_eq] at h
    exact hp.2 (colorAdd_inj _ _ _ _ h).2

/-- the documented colours: debug magenta (35), info blue (34), warn yellow (33), everything else red (31) -/
theorem colorOf_documented : ∀ l ∈ allLevels,
    colorOf l = (if l = -1 then 35 else if l = 0 then 34 else if l = 1 then 33 else 31) := by
  decide +kernel

/-! ### callers -/

theorem fmtNat_no_colon (n : Nat) : (58 : UInt8) ∉ fmtNat n := by
  intro h
  have := fmtNat_dig n 58 h
  exact absurd this (by decide)

theorem fmtInt_no_colon (i : Int) : (58 : UInt8) ∉ fmtInt i := by
  unfold fmtInt
  split
  · intro h
    simp only [List.mem_cons] at h
    rcases h with h | h
    · exact absurd h (by decide)
    · exact fmtNat_no_colon _ h
  · exact fmtNat_no_colon _

/-- reading a caller text: everything before the LAST ':' is the file, the decimal after it the line -/
def callerDecode (t : Bytes) : Option (Bytes × Int) :=
  match Callers.lastIndexOf 58 t with
  | some i => some (t.take i, intOf (t.drop (i + 1)))
  | none => none

theorem callerDecode_join (file : Bytes) (line : Int) : callerDecode (file ++ 58 :: fmtInt line) = some (file, line) := by
  unfold callerDecode
  rw [C15.lastIndexOf_sep 58 file (fmtInt line) (fmtInt_no_colon line)]
  have e : file ++ 58 :: fmtInt line = (file ++ [58]) ++ fmtInt line := by simp
  simp only [List.take_left' rfl]
  rw [e, List.drop_left' (by simp), intOf_fmtInt]

theorem digit_ne_zero : ∀ d ∈ List.range 10, d ≠ 0 → UInt8.ofNat (48 + d) ≠ 48 := by decide

/-- the trimmed fraction never ends in '0' -/
theorem frac_no_trailing_zero (p v : Nat) (h : fracDigits p v false ≠ []) : (fracDigits p v false).getLast h ≠ 48 := by
  induction p generalizing v with
  | zero => simp [fracDigits] at h
  | succ p ih =>
    by_cases h0 : v % 10 = 0
    · have e : fracDigits (p + 1) v false = fracDigits p (v / 10) false := by simp [fracDigits, h0]
      have h' : fracDigits p (v / 10) false ≠ [] := by rw [← e]; exact h
      have := ih (v / 10) h'
      simp only [e]
      exact this
    · have hb : (v % 10 != 0) = true := by simp [h0]
      have e : fracDigits (p + 1) v false = fracDigits p (v / 10) true ++ [UInt8.ofNat (48 + v % 10)] := by
        simp [fracDigits, hb]
      simp only [e, List.getLast_append, List.getLast_singleton]
      exact digit_ne_zero _ (List.mem_range.mpr (Nat.mod_lt _ (by decide))) h0

/-! ### JSON round trip of duration texts (the only non-ASCII bytes a built-in sub-encoder emits are the `µ` of "µs") -/

theorem sanitize_ascii_append (pre rest : Bytes) (k : Nat) (h : ∀ b ∈ pre, b < 128) :
    Esc.sanitize (pre.length + k) (pre ++ rest) = pre ++ Esc.sanitize k rest := by
  induction pre with
  | nil => simp
  | cons b r ih =>
    have hb : ¬ b ≥ 128 := by
      have := h b (by simp)
      simp [UInt8.lt_iff_toNat_lt, UInt8.le_iff_toNat_le] at this ⊢; omega
    have e : (b :: r).length + k = (r.length + k) + 1 := by simp; omega
    rw [e]
    simp only [List.cons_append, Esc.sanitize, hb, if_false]
    rw [ih (fun x hx => h x (by simp [hx]))]

theorem isDig_ascii (c : UInt8) (h : isDig c = true) : c < 128 := by
  simp [isDig, UInt8.lt_iff_toNat_lt, UInt8.le_iff_toNat_le] at h ⊢; omega

theorem fmtNat_ascii (n : Nat) : ∀ b ∈ fmtNat n, b < 128 := fun b hb => isDig_ascii b (fmtNat_dig n b hb)

theorem fracText_ascii (p v : Nat) : ∀ b ∈ fracText p v, b < 128 := by
  intro b hb
  unfold fracText at hb
  split at hb
  · simp at hb
  · simp only [List.mem_cons] at hb
    rcases hb with hb | hb
    · rw [hb]; decide
    · exact isDig_ascii b (fracDigits_dig p v false b hb)

theorem sanitize_micro : Esc.sanitize 3 [194, 181, 115] = [194, 181, 115] := by decide +kernel

theorem plain_level_ascii : ∀ l ∈ allLevels, (∀ b ∈ Level.stringOf l, b < 128) ∧ (∀ b ∈ Level.capitalOf l, b < 128) := by
  decide +kernel

/-- every level text — escape bytes of the colour variants included — is 7-bit -/
theorem levelText_ascii (k : LvlEnc) : ∀ l ∈ allLevels, ∀ b ∈ levelText k l, b < 128 := by
  intro l hl b hb
  obtain ⟨h1, h2⟩ := plain_level_ascii l hl
  obtain ⟨hp, hm, hs⟩ := color_pieces
  have col : ∀ t : Bytes, (∀ b ∈ t, b < 128) → ∀ c, ∀ b ∈ colorAdd c t, b < 128 := by
    intro t ht c b hb
    unfold colorAdd at hb
    rw [hp, hm, hs] at hb
    simp only [List.mem_append] at hb
    rcases hb with (((hb | hb) | hb) | hb) | hb
    · revert b; decide
    · exact fmtNat_ascii c b hb
    · revert b; decide
    · exact ht b hb
    · revert b; decide
  cases k with
  | lower => exact h1 b hb
  | capital => exact h2 b hb
  | color => simp only [levelText, colorLevel_eq] at hb; exact col _ h1 _ b hb
  | capitalColor => simp only [levelText, colorLevel_eq] at hb; exact col _ h2 _ b hb

end ZapVerif.SubEnc
