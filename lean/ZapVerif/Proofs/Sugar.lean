import ZapVerif.Model.Sugar
/-! helper lemmas for C14 (sweetenFields) -/
namespace ZapVerif.Sugar

theorem sweep_eq_split (i : Nat) (seen : Bool) (args : List Arg) :
    sweep i seen args = split (trace i seen args) := by
  fun_induction sweep i seen args <;>
    simp_all [trace, split, Res.cons1, Res.cons2, Res.cons3, Ev.out?, Ev.ldiag?, Ev.inv?, List.filterMap_cons]

theorem trace_args (i : Nat) (seen : Bool) (args : List Arg) :
    (trace i seen args).flatMap Ev.args = args := by
  fun_induction trace i seen args <;> simp_all [Ev.args]

/-- the position stored in an `invalid` element is the index of its key -/
theorem trace_invalid_pos (i : Nat) (seen : Bool) (args : List Arg) :
    ∀ pre p k v post, trace i seen args = pre ++ Ev.invalid p k v :: post →
      p = i + (pre.flatMap Ev.args).length := by
  fun_induction trace i seen args <;> intro pre p k' v' post h
  case case1 => simp at h
  all_goals
    rcases List.cons_eq_append_iff.mp h with ⟨rfl, h2⟩ | ⟨pre', rfl, h2⟩
    all_goals first
      | (simp at h2; done)
      | (simp only [List.cons.injEq, Ev.invalid.injEq] at h2; simp [h2.1.1]; done)
      | (rename_i ih; have := ih pre' p k' v' post h2; rw [this]; simp [Ev.args]; omega)
      | (simp at h2)

/-! ### the index loop of the Go source computes `sweep`, never indexes out of range and terminates -/

theorem Res.append_empty (a : Res) : a.append {} = a := by
  cases a; simp [Res.append]
theorem Res.snoc1_append (a r : Res) (o : Out) : (a.snoc1 o).append r = a.append (r.cons1 o) := by
  simp [Res.append, Res.snoc1, Res.cons1]
theorem Res.snoc2_append (a r : Res) (d : LDiag) : (a.snoc2 d).append r = a.append (r.cons2 d) := by
  simp [Res.append, Res.snoc2, Res.cons2]
theorem Res.snoc3_append (a r : Res) (p : Inv) : (a.snoc3 p).append r = a.append (r.cons3 p) := by
  simp [Res.append, Res.snoc3, Res.cons3]
theorem Res.snoc2_eq (a : Res) (d : LDiag) : a.snoc2 d = a.append { diags := [d] } := by
  simp [Res.append, Res.snoc2]

theorem loopGo_eq (args : List Arg) : ∀ (fuel i : Nat) (seen : Bool) (acc : Res), args.length - i ≤ fuel →
    loopGo args fuel i seen acc = .ok (acc.append (sweep i seen (args.drop i))) := by
  intro fuel
  induction fuel with
  | zero =>
    intro i seen acc h
    have hi : ¬ i < args.length := by omega
    have hd : args.drop i = [] := List.drop_eq_nil_of_le (by omega)
    simp [loopGo, hi, hd, sweep, Res.append_empty]
  | succ f ih =>
    intro i seen acc h
    by_cases hi : i < args.length
    · have hd : args.drop i = args[i] :: args.drop (i+1) := List.drop_eq_getElem_cons hi
      have hg : args[i]? = some args[i] := List.getElem?_eq_getElem hi
      rw [hd]
      generalize args[i] = a at hd hg
      unfold loopGo
      simp only [hi, ↓reduceIte, hg]
      by_cases hl : i = args.length - 1
      · -- last argument
        have hd1 : args.drop (i+1) = [] := List.drop_eq_nil_of_le (by omega)
        have ih1 := ih (i+1)
        rw [hd1] at ih1 ⊢
        cases a <;> simp only [if_pos hl]
        · rw [ih1 _ _ (by omega)]; simp [sweep, Res.snoc1_append]
        · cases seen <;> simp only [Bool.false_eq_true, ↓reduceIte] <;> rw [ih1 _ _ (by omega)] <;>
            simp [sweep, Res.snoc1_append, Res.snoc2_append]
        all_goals simp [sweep, Res.snoc2_eq]
      · have hi1 : i + 1 < args.length := by omega
        have hd1 : args.drop (i+1) = args[i+1] :: args.drop (i+2) := List.drop_eq_getElem_cons hi1
        have hg1 : args[i+1]? = some args[i+1] := List.getElem?_eq_getElem hi1
        have ih1 := ih (i+1)
        have ih2 := ih (i+2)
        rw [hd1] at ih1 ⊢
        generalize args[i+1] = v at hd1 hg1 ih1
        cases a <;> simp only [if_neg hl, hg1]
        · rw [ih1 _ _ (by omega)]; simp [sweep, Res.snoc1_append]
        · cases seen <;> simp only [Bool.false_eq_true, ↓reduceIte] <;> rw [ih1 _ _ (by omega)] <;>
            simp [sweep, Res.snoc1_append, Res.snoc2_append]
        all_goals (rw [ih2 _ _ (by omega)]; simp [sweep, Res.snoc1_append, Res.snoc3_append])
    · have hd : args.drop i = [] := List.drop_eq_nil_of_le (by omega)
      simp [loopGo, hi, hd, sweep, Res.append_empty]

/-! ### bare errors -/

def Ev.isErrEv : Ev → Bool
  | .error _ => true | .multiple _ => true | _ => false

def Ev.isMultiple : Ev → Bool
  | .multiple _ => true | _ => false

theorem trace_seen_all_multiple (i : Nat) (args : List Arg) :
    ∀ e ∈ (trace i true args).filter Ev.isErrEv, e.isMultiple = true := by
  generalize hs : true = seen
  fun_induction trace i seen args <;> simp_all [Ev.isErrEv, Ev.isMultiple, List.filter_cons]

theorem trace_first_error (i : Nat) (args : List Arg) :
    (trace i false args).filter Ev.isErrEv = [] ∨
    ∃ e rest, (trace i false args).filter Ev.isErrEv = Ev.error e :: rest ∧ ∀ x ∈ rest, x.isMultiple = true := by
  generalize hs : false = seen
  fun_induction trace i seen args <;> simp_all [Ev.isErrEv, List.filter_cons]
  exact ⟨_, _, ⟨rfl, rfl⟩, trace_seen_all_multiple _ _⟩

/-! ### the well-formed remainder -/

theorem trace_clean (i : Nat) (seen : Bool) (args : List Arg) : ∀ j,
    trace j seen (((trace i seen args).filter Ev.isOut).flatMap Ev.args) = (trace i seen args).filter Ev.isOut := by
  fun_induction trace i seen args <;> intro j <;>
    simp_all [Ev.isOut, Ev.out?, Ev.args, List.filter_cons, trace]

end ZapVerif.Sugar
