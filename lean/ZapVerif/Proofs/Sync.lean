import ZapVerif.Model.Sync
/-! Lemmas about M10: indices, monotonicity of happens-before, `lockset_ordered`
    (vector-clock `know`) and its soundness w.r.t. the inductive happens-before closure. -/
namespace ZapVerif.Sync

/-! ### indices -/

theorem evAt_lt {tr : List Ev} {k : Nat} {e : Ev} (h : evAt tr k = some e) : k < tr.length := by
  induction tr with
  | nil => simp [evAt] at h
  | cons a tr ih =>
    unfold evAt at h
    split at h
    · simp; omega
    · have := ih h; simp; omega

theorem evAt_cons_lt {tr : List Ev} {k : Nat} (e : Ev) (h : k < tr.length) :
    evAt (e :: tr) k = evAt tr k := by
  simp [evAt]; omega

theorem evAt_cons_self (e : Ev) (tr : List Ev) : evAt (e :: tr) tr.length = some e := by
  simp [evAt]

theorem evAt_cons_of_some {tr : List Ev} {k : Nat} {a : Ev} (e : Ev) (h : evAt tr k = some a) :
    evAt (e :: tr) k = some a := by
  rw [evAt_cons_lt e (evAt_lt h)]; exact h

theorem evAt_append_of_some {tr : List Ev} {k : Nat} {a : Ev} (post : List Ev) (h : evAt tr k = some a) :
    evAt (post ++ tr) k = some a := by
  induction post with
  | nil => simpa using h
  | cons e post ih => exact evAt_cons_of_some e ih

theorem evAt_append_self (post : List Ev) (e : Ev) (pre : List Ev) :
    evAt (post ++ e :: pre) pre.length = some e :=
  evAt_append_of_some post (evAt_cons_self e pre)

/-- an event at index j splits the trace around it -/
theorem evAt_split {tr : List Ev} {j : Nat} {b : Ev} (h : evAt tr j = some b) :
    ∃ post pre, tr = post ++ b :: pre ∧ pre.length = j := by
  induction tr with
  | nil => simp [evAt] at h
  | cons e tr ih =>
    unfold evAt at h
    split at h
    · rename_i hj
      simp at h; subst h
      exact ⟨[], tr, rfl, hj.symm⟩
    · obtain ⟨post, pre, ht, hl⟩ := ih h
      exact ⟨e :: post, pre, by simp [ht], hl⟩

theorem evAt_mem {tr : List Ev} {k : Nat} {e : Ev} (h : evAt tr k = some e) : e ∈ tr := by
  obtain ⟨post, pre, ht, _⟩ := evAt_split h
  simp [ht]

/-! ### suffix closure -/

theorem WF_suffix (post tr : List Ev) (h : WF (post ++ tr)) : WF tr := by
  induction post with
  | nil => simpa using h
  | cons e post ih => exact ih h.1

theorem Guarded_suffix (x : Var) (m : Lock) (post tr : List Ev) (h : Guarded x m (post ++ tr)) :
    Guarded x m tr := by
  induction post with
  | nil => simpa using h
  | cons e post ih => exact ih h.1

/-! ### happens-before is stable under extension of the trace -/

theorem HB_cons {tr : List Ev} {i j : Nat} (e : Ev) (h : HB tr i j) : HB (e :: tr) i j := by
  induction h with
  | po hlt ha hb ht => exact .po hlt (evAt_cons_of_some e ha) (evAt_cons_of_some e hb) ht
  | sw hlt ha hb hs => exact .sw hlt (evAt_cons_of_some e ha) (evAt_cons_of_some e hb) hs
  | trans _ _ ih1 ih2 => exact .trans ih1 ih2

theorem HB_append {tr : List Ev} {i j : Nat} (post : List Ev) (h : HB tr i j) : HB (post ++ tr) i j := by
  induction post with
  | nil => simpa using h
  | cons e post ih => exact HB_cons e ih

theorem HB_lt {tr : List Ev} {i j : Nat} (h : HB tr i j) : i < j := by
  induction h with
  | po hlt _ _ _ => exact hlt
  | sw hlt _ _ _ => exact hlt
  | trans _ _ ih1 ih2 => omega

/-! ### `lockset_ordered` (ported from the design prototype B.4/B.5, extended to the full event type) -/

theorem know_mono (e : Ev) (tr : List Ev) (t : Tid) (k : Nat) (h : know tr t k = true) :
    know (e :: tr) t k = true := by
  unfold know
  by_cases ht : e.tid = t <;> simp [ht, h]

theorem relKnow_other (e : Ev) (tr : List Ev) (m : Lock) (k : Nat)
    (he : ∀ t, e ≠ .rel t m) : know.relKnow m (e :: tr) k = know.relKnow m tr k := by
  cases e with
  | rel t' m' =>
    by_cases hm : m' = m
    · subst hm; exact absurd rfl (he t')
    · simp [know.relKnow, hm]
  | _ => simp [know.relKnow]

/-- the holder of m knows every earlier access to x; when m is free, the release history of m does -/
def Inv (x : Var) (m : Lock) (tr : List Ev) : Prop :=
  ∀ k e, evAt tr k = some e → e.touches x = true →
    match holder m tr with
    | some t => know tr t k = true
    | none => know.relKnow m tr k = true

/-- an event that neither touches x nor is acq/rel leaves the invariant shape unchanged -/
private theorem inv_step_other (_x : Var) (m : Lock) (e : Ev) (tr : List Ev)
    (hh : holder m (e :: tr) = holder m tr) (hr : ∀ t, e ≠ .rel t m)
    (k : Nat) (ihk : match holder m tr with
      | some t => know tr t k = true
      | none => know.relKnow m tr k = true) :
    match holder m (e :: tr) with
    | some t => know (e :: tr) t k = true
    | none => know.relKnow m (e :: tr) k = true := by
  rw [hh]
  cases hq : holder m tr with
  | none =>
    simp [hq] at ihk ⊢
    rw [relKnow_other _ _ _ _ hr]; exact ihk
  | some t0 => simp [hq] at ihk ⊢; exact know_mono _ _ _ _ ihk

theorem inv_step (x : Var) (m : Lock) (e : Ev) (tr : List Ev)
    (hwf : WF (e :: tr)) (hg : Guarded x m (e :: tr)) (ih : Inv x m tr) : Inv x m (e :: tr) := by
  obtain ⟨_, hwe⟩ := hwf
  obtain ⟨_, hge⟩ := hg
  intro k e' hk hacc
  unfold evAt at hk
  by_cases hkl : k = tr.length
  · -- the new event itself accesses x: it is guarded, holder unchanged and is its own goroutine
    simp [hkl] at hk; subst hk
    have hh := hge hacc
    cases e with
    | rd t y => simp [holder, hh, Ev.tid, know, hkl]
    | wr t y => simp [holder, hh, Ev.tid, know, hkl]
    | ard t y => simp [holder, hh, Ev.tid, know, hkl]
    | awr t y => simp [holder, hh, Ev.tid, know, hkl]
    | _ => simp [Ev.touches] at hacc
  · simp [hkl] at hk
    have ihk := ih k e' hk hacc
    cases e with
    | acq t m' =>
      by_cases hm : m' = m
      · subst hm
        simp [okStep] at hwe
        simp [hwe.1] at ihk
        simp [holder, know, Ev.tid, ihk]
      · exact inv_step_other x m _ tr (by simp [holder, hm]) (by intro t h; cases h) k ihk
    | rel t m' =>
      by_cases hm : m' = m
      · subst hm
        simp [okStep] at hwe
        simp [hwe] at ihk
        simp [holder, know.relKnow, ihk]
      · exact inv_step_other x m _ tr (by simp [holder, hm]) (by intro t h; cases h; exact hm rfl) k ihk
    | racq t m' => exact inv_step_other x m _ tr (by simp [holder]) (by intro t h; cases h) k ihk
    | rrel t m' => exact inv_step_other x m _ tr (by simp [holder]) (by intro t h; cases h) k ihk
    | rd t y => exact inv_step_other x m _ tr (by simp [holder]) (by intro t h; cases h) k ihk
    | wr t y => exact inv_step_other x m _ tr (by simp [holder]) (by intro t h; cases h) k ihk
    | ard t y => exact inv_step_other x m _ tr (by simp [holder]) (by intro t h; cases h) k ihk
    | awr t y => exact inv_step_other x m _ tr (by simp [holder]) (by intro t h; cases h) k ihk
    | onceBegin t o => exact inv_step_other x m _ tr (by simp [holder]) (by intro t h; cases h) k ihk
    | onceEnd t o => exact inv_step_other x m _ tr (by simp [holder]) (by intro t h; cases h) k ihk
    | onceRet t o => exact inv_step_other x m _ tr (by simp [holder]) (by intro t h; cases h) k ihk
    | fork t u => exact inv_step_other x m _ tr (by simp [holder]) (by intro t h; cases h) k ihk

theorem inv_all (x : Var) (m : Lock) : ∀ tr, WF tr → Guarded x m tr → Inv x m tr
  | [], _, _ => by intro k e h; simp [evAt] at h
  | e :: tr, hwf, hg => inv_step x m e tr hwf hg (inv_all x m tr hwf.1 hg.1)

/-- lockset discipline ⇒ every access to x knows every earlier access to x -/
theorem lockset_ordered (x : Var) (m : Lock) (e : Ev) (tr : List Ev)
    (hwf : WF (e :: tr)) (hg : Guarded x m (e :: tr)) (hacc : e.touches x = true) :
    ∀ k e', evAt tr k = some e' → e'.touches x = true → know tr e.tid k = true := by
  intro k e' hk hacc'
  have hinv := inv_all x m tr hwf.1 hg.1 k e' hk hacc'
  have hh := hg.2 hacc
  simpa [hh] using hinv

/-! ### soundness of `know`: it never claims more than the happens-before closure -/

/-- k is, or happens-before, an event of goroutine t that is already in tr -/
def KnownBy (tr : List Ev) (t : Tid) (k : Nat) : Prop :=
  ∃ j a, evAt tr j = some a ∧ a.tid = t ∧ (k = j ∨ HB tr k j)

/-- k is, or happens-before, a release of m that is already in tr -/
def KnownByRel (tr : List Ev) (m : Lock) (k : Nat) : Prop :=
  ∃ j t', evAt tr j = some (.rel t' m) ∧ (k = j ∨ HB tr k j)

theorem KnownBy_cons {tr : List Ev} {t : Tid} {k : Nat} (e : Ev) (h : KnownBy tr t k) :
    KnownBy (e :: tr) t k := by
  obtain ⟨j, a, ha, hta, hk⟩ := h
  exact ⟨j, a, evAt_cons_of_some e ha, hta, hk.imp id (HB_cons e)⟩

theorem KnownByRel_cons {tr : List Ev} {m : Lock} {k : Nat} (e : Ev) (h : KnownByRel tr m k) :
    KnownByRel (e :: tr) m k := by
  obtain ⟨j, t', ha, hk⟩ := h
  exact ⟨j, t', evAt_cons_of_some e ha, hk.imp id (HB_cons e)⟩

/-- extending "known by t" through a new event of t (program order) -/
theorem KnownBy_step {tr : List Ev} {t : Tid} {k : Nat} (e : Ev) (het : e.tid = t)
    (h : KnownBy tr t k) : k = tr.length ∨ HB (e :: tr) k tr.length := by
  obtain ⟨j, a, ha, hta, hk⟩ := h
  have hjl := evAt_lt ha
  have hpo : HB (e :: tr) j tr.length :=
    .po hjl (evAt_cons_of_some e ha) (evAt_cons_self e tr) (by rw [hta, het])
  rcases hk with rfl | hk
  · exact Or.inr hpo
  · exact Or.inr (.trans (HB_cons e hk) hpo)

theorem know_sound_aux : ∀ tr : List Ev,
    (∀ t k, know tr t k = true → KnownBy tr t k) ∧
    (∀ m k, know.relKnow m tr k = true → KnownByRel tr m k)
  | [] => by constructor <;> intro _ _ h <;> simp [know, know.relKnow] at h
  | e :: tr => by
    obtain ⟨ih1, ih2⟩ := know_sound_aux tr
    constructor
    · intro t k h
      unfold know at h
      by_cases het : e.tid = t
      · simp only [het, if_true, Bool.or_eq_true, beq_iff_eq] at h
        rcases h with (hk | hk) | hk
        · exact ⟨tr.length, e, evAt_cons_self e tr, het, Or.inl hk⟩
        · exact KnownBy_cons e (ih1 t k hk)
        · -- an acquire learning what the releases of m knew
          cases e with
          | acq t0 m =>
            obtain ⟨j, t', ha, hkj⟩ := ih2 m k hk
            have hjl := evAt_lt ha
            have hsw : HB (Ev.acq t0 m :: tr) j tr.length :=
              .sw hjl (evAt_cons_of_some _ ha) (evAt_cons_self _ tr) (by simp [sw])
            refine ⟨tr.length, _, evAt_cons_self _ tr, het, Or.inr ?_⟩
            rcases hkj with rfl | hkj
            · exact hsw
            · exact .trans (HB_cons _ hkj) hsw
          | _ => simp at hk
      · simp only [het, if_false] at h
        exact KnownBy_cons e (ih1 t k h)
    · intro m k h
      cases e with
      | rel t' m' =>
        by_cases hm : m' = m
        · subst hm
          simp only [know.relKnow, if_true, Bool.or_eq_true, beq_iff_eq] at h
          rcases h with (hk | hk) | hk
          · exact ⟨tr.length, t', evAt_cons_self _ tr, Or.inl hk⟩
          · have := KnownBy_step (Ev.rel t' m') rfl (ih1 t' k hk)
            exact ⟨tr.length, t', evAt_cons_self _ tr, this⟩
          · exact KnownByRel_cons _ (ih2 m' k hk)
        · simp only [know.relKnow, hm, if_false] at h
          exact KnownByRel_cons _ (ih2 m k h)
      | _ =>
        simp only [know.relKnow] at h
        exact KnownByRel_cons _ (ih2 m k h)

/-- **soundness of the vector clock**: whatever `know` reports for the goroutine of the next event
    really happens-before that event in the inductive closure -/
theorem know_sound (e : Ev) (tr : List Ev) (k : Nat) (h : know tr e.tid k = true) :
    HB (e :: tr) k tr.length := by
  have hkb := (know_sound_aux tr).1 e.tid k h
  rcases KnownBy_step e rfl hkb with hk | hk
  · -- k = tr.length is impossible: a known index is the index of an event of tr
    obtain ⟨j, a, ha, _, hkj⟩ := hkb
    have hjl := evAt_lt ha
    rcases hkj with rfl | hkj
    · omega
    · have := HB_lt hkj; omega
  · exact hk

end ZapVerif.Sync
