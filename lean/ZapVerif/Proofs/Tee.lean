import ZapVerif.Model.Tee
/-! Invariant of the multi-branch mutex machine, merge predicates, BWS stream invariant. -/
namespace ZapVerif.Tee
open ZapVerif

@[simp] theorem upd_same {α} (f : Nat → α) (i : Nat) (v : α) : upd f i v i = v := by simp [upd]
theorem upd_other {α} (f : Nat → α) (i j : Nat) (v : α) (h : j ≠ i) : upd f i v j = f j := by simp [upd, h]

/-- the invariant: per branch, the mutex is what the ghost says, the sink is the concatenation of whole lines in
    acquisition order minus what the holder still has to emit; per goroutine and branch, history ++ remaining work is
    the goroutine's program -/
structure Inv (jobs : Nat → List Job) (s : St) : Prop where
  excl : ∀ t b rest, (s.thr t).cur = some (b, rest) → s.lock b = some t
  free : ∀ b, s.lock b = none → s.sink b = written s b
  held : ∀ b t rest, s.lock b = some t → (s.thr t).cur = some (b, rest) → s.sink b ++ rest = written s b
  holder_cur : ∀ b t, s.lock b = some t → ∃ rest, (s.thr t).cur = some (b, rest)
  projq : ∀ t b, proj t (s.hist b) ++ linesFor b (s.thr t).todo = linesFor b (jobs t)

theorem init_inv (jobs : Nat → List Job) : Inv jobs (init jobs) := by
  refine ⟨?_, ?_, ?_, ?_, ?_⟩ <;> simp [init, written, proj]

theorem proj_append (t : Nat) (h1 h2 : List (Nat × Bytes)) : proj t (h1 ++ h2) = proj t h1 ++ proj t h2 := by
  simp [proj, List.filter_append]

theorem step_inv (jobs : Nat → List Job) (s s' : St) (t : Nat) (h : Inv jobs s) (hs : step s t = some s') :
    Inv jobs s' := by
  unfold step at hs
  cases hc : (s.thr t).cur with
  | some cur =>
    obtain ⟨b, bytes⟩ := cur
    have hl := h.excl t b bytes hc
    cases bytes with
    | cons x rest =>
      simp [hc] at hs; subst hs
      refine ⟨?_, ?_, ?_, ?_, ?_⟩
      · intro u b' r hu
        by_cases hut : u = t
        · subst hut; simp at hu; obtain ⟨hb, _⟩ := hu; subst hb; exact hl
        · simp [upd_other _ _ _ _ hut] at hu; exact h.excl u b' r hu
      · intro b' hf
        have hb : b' ≠ b := by intro e; subst e; simp [hl] at hf
        simp [written, upd_other _ _ _ _ hb]; exact h.free b' hf
      · intro b' u r hlu hcu
        by_cases hb : b' = b
        · subst hb
          have hut : u = t := by simpa [hl] using hlu.symm
          subst hut
          simp at hcu
          have := h.held b' u (x :: rest) hl hc
          rw [← hcu]
          simpa [written, List.append_assoc] using this
        · have hut : u ≠ t := by
            intro e; subst e; simp at hcu; exact hb hcu.1.symm
          simp [upd_other _ _ _ _ hut] at hcu
          simp [written, upd_other _ _ _ _ hb]
          exact h.held b' u r hlu hcu
      · intro b' u hlu
        by_cases hut : u = t
        · subst hut
          obtain ⟨r', hr'⟩ := h.holder_cur b' u hlu
          rw [hc] at hr'; simp at hr'; obtain ⟨hb, _⟩ := hr'; subst hb
          exact ⟨rest, by simp⟩
        · obtain ⟨r', hr'⟩ := h.holder_cur b' u hlu
          exact ⟨r', by simp [upd_other _ _ _ _ hut, hr']⟩
      · intro u b'
        by_cases hut : u = t
        · subst hut; simpa using h.projq u b'
        · simpa [upd_other _ _ _ _ hut] using h.projq u b'
    | nil =>
      simp [hc] at hs; subst hs
      refine ⟨?_, ?_, ?_, ?_, ?_⟩
      · intro u b' r hu
        by_cases hut : u = t
        · subst hut; simp at hu
        · simp [upd_other _ _ _ _ hut] at hu
          have hlu := h.excl u b' r hu
          have hb : b' ≠ b := by intro e; subst e; rw [hl] at hlu; exact hut (by simpa using hlu.symm)
          simpa [upd_other _ _ _ _ hb] using hlu
      · intro b' hf
        by_cases hb : b' = b
        · subst hb; have := h.held b' t [] hl hc; simpa [written] using this
        · simp [upd_other _ _ _ _ hb] at hf; simpa [written] using h.free b' hf
      · intro b' u r hlu hcu
        by_cases hb : b' = b
        · subst hb; simp at hlu
        · simp [upd_other _ _ _ _ hb] at hlu
          have hut : u ≠ t := by intro e; subst e; simp at hcu
          simp [upd_other _ _ _ _ hut] at hcu
          simpa [written] using h.held b' u r hlu hcu
      · intro b' u hlu
        by_cases hb : b' = b
        · subst hb; simp at hlu
        · simp [upd_other _ _ _ _ hb] at hlu
          obtain ⟨r', hr'⟩ := h.holder_cur b' u hlu
          have hut : u ≠ t := by
            intro e; subst e; rw [hc] at hr'; simp at hr'; exact hb hr'.1.symm
          exact ⟨r', by simp [upd_other _ _ _ _ hut, hr']⟩
      · intro u b'
        by_cases hut : u = t
        · subst hut; simpa using h.projq u b'
        · simpa [upd_other _ _ _ _ hut] using h.projq u b'
  | none =>
    simp [hc] at hs
    cases htd : (s.thr t).todo with
    | nil => simp [htd] at hs
    | cons j js =>
      cases hlk : s.lock j.br with
      | some u => simp [htd, hlk] at hs
      | none =>
        simp [htd, hlk] at hs; subst hs
        have hfree := h.free j.br hlk
        refine ⟨?_, ?_, ?_, ?_, ?_⟩
        · intro u b' r hu
          by_cases hut : u = t
          · subst hut; simp at hu; obtain ⟨hb, _⟩ := hu; subst hb; simp
          · simp [upd_other _ _ _ _ hut] at hu
            have hlu := h.excl u b' r hu
            have hb : b' ≠ j.br := by intro e; subst e; rw [hlk] at hlu; simp at hlu
            simpa [upd_other _ _ _ _ hb] using hlu
        · intro b' hf
          have hb : b' ≠ j.br := by intro e; subst e; simp at hf
          simp [upd_other _ _ _ _ hb] at hf
          simpa [written, upd_other _ _ _ _ hb] using h.free b' hf
        · intro b' u r hlu hcu
          by_cases hb : b' = j.br
          · subst hb
            simp at hlu; subst hlu
            simp at hcu; subst hcu
            simp [written, hfree]
          · simp [upd_other _ _ _ _ hb] at hlu
            have hut : u ≠ t := by
              intro e; subst e; simp at hcu; exact hb hcu.1.symm
            simp [upd_other _ _ _ _ hut] at hcu
            simpa [written, upd_other _ _ _ _ hb] using h.held b' u r hlu hcu
        · intro b' u hlu
          by_cases hb : b' = j.br
          · subst hb; simp at hlu; subst hlu; exact ⟨j.line, by simp⟩
          · simp [upd_other _ _ _ _ hb] at hlu
            obtain ⟨r', hr'⟩ := h.holder_cur b' u hlu
            have hut : u ≠ t := by intro e; subst e; rw [hc] at hr'; simp at hr'
            exact ⟨r', by simp [upd_other _ _ _ _ hut, hr']⟩
        · intro u b'
          have old := h.projq u b'
          by_cases hut : u = t
          · subst hut
            rw [htd] at old
            by_cases hb : b' = j.br
            · subst hb
              simp [proj_append, proj, linesFor] at old ⊢
              simpa [List.append_assoc] using old
            · have hb' : (j.br == b') = false := by simpa using fun e => hb e.symm
              simp [upd_other _ _ _ _ hb, linesFor, hb'] at old ⊢
              exact old
          · by_cases hb : b' = j.br
            · subst hb
              have : (t == u) = false := by simpa using fun e => hut e.symm
              simp [upd_other _ _ _ _ hut, proj_append, proj, this] at old ⊢
              exact old
            · simpa [upd_other _ _ _ _ hut, upd_other _ _ _ _ hb] using old

theorem run_inv (jobs : Nat → List Job) (sched : List Nat) : ∀ s, Inv jobs s → Inv jobs (run s sched) := by
  induction sched with
  | nil => intro s h; exact h
  | cons t ts ih =>
    intro s h
    simp only [run]
    cases hs : step s t with
    | none => exact ih s h
    | some s' => exact ih s' (step_inv jobs s s' t h hs)

/-- when everybody is done, every mutex is free -/
theorem finished_free (jobs : Nat → List Job) (s : St) (h : Inv jobs s) (hf : Finished s) (b : Nat) :
    s.lock b = none := by
  cases hl : s.lock b with
  | none => rfl
  | some t =>
    obtain ⟨r, hr⟩ := h.holder_cur b t hl
    rw [(hf t).2] at hr; simp at hr

theorem linesFor_nil (b : Nat) : linesFor b [] = [] := rfl

/-! ### tee programs -/

theorem teeCall_filter_ge (l : Bytes) (b : Nat) : ∀ B, B ≤ b → (teeCall B l).filter (·.br == b) = []
  | 0, _ => by simp [teeCall]
  | B + 1, h => by
    have ih := teeCall_filter_ge l b B (by omega)
    have hne : (B == b) = false := by simpa using (by omega : B ≠ b)
    simp only [teeCall, List.range_succ, List.map_append, List.filter_append] at ih ⊢
    simp [ih, hne]

theorem teeCall_filter_lt (l : Bytes) (b : Nat) : ∀ B, b < B → (teeCall B l).filter (·.br == b) = [⟨b, l⟩]
  | 0, h => by omega
  | B + 1, h => by
    simp only [teeCall, List.range_succ, List.map_append, List.filter_append]
    by_cases hb : b = B
    · subst hb
      have := teeCall_filter_ge l b b (Nat.le_refl _)
      simp only [teeCall] at this
      simp [this]
    · have ih := teeCall_filter_lt l b B (by omega)
      have hne : (B == b) = false := by simpa using fun e : B = b => hb e.symm
      simp only [teeCall] at ih
      simp [ih, hne]

theorem linesFor_teeProg (B b : Nat) (hb : b < B) : ∀ ls, linesFor b (teeProg B ls) = ls
  | [] => rfl
  | l :: ls => by
    have ih := linesFor_teeProg B b hb ls
    simp only [teeProg, List.flatMap_cons, linesFor, List.filter_append, List.map_append] at ih ⊢
    rw [teeCall_filter_lt l b B hb, ih]; rfl

/-! ### executable merge check: sound and complete -/

theorem getD_all_empty (per : List (List Bytes)) (h : per.all (·.isEmpty) = true) (t : Nat) :
    (per[t]?).getD [] = [] := by
  cases hp : per[t]? with
  | none => rfl
  | some p =>
    have hm : p ∈ per := List.mem_of_getElem? hp
    have := List.all_eq_true.mp h p hm
    simpa using this

theorem isMerge_sound : ∀ (ls : List Bytes) (per : List (List Bytes)), isMerge per ls = true →
    IsMergeOf (fun t => per.getD t []) ls
  | [], per, h => by
    simp only [isMerge] at h
    exact ⟨[], rfl, fun t => by have := getD_all_empty per h t; simp [proj, this]⟩
  | l :: rest, per, h => by
    simp only [isMerge, List.any_eq_true, List.mem_range] at h
    obtain ⟨i, hi, hm⟩ := h
    cases hp : per[i]? with
    | none => simp [hp] at hm
    | some p =>
      cases p with
      | nil => simp [hp] at hm
      | cons hd tl =>
        simp [hp] at hm
        obtain ⟨hhd, hrest⟩ := hm
        subst hhd
        obtain ⟨hist, hmap, hproj⟩ := isMerge_sound rest (per.set i tl) hrest
        refine ⟨(i, hd) :: hist, by simp [hmap], ?_⟩
        intro t
        have := hproj t
        by_cases hti : t = i
        · subst hti
          simp [proj] at this ⊢
          rw [this]
          simp [hp, hi]
          obtain ⟨_, hh⟩ := List.getElem?_eq_some_iff.mp hp
          first | exact hh.symm | exact hh | skip
        · have hne : (i == t) = false := by simpa using fun e : i = t => hti e.symm
          simp [proj, hne] at this ⊢
          rw [this]
          simp [List.getD_eq_getElem?_getD, List.getElem?_set, show i ≠ t from fun e => hti e.symm]

theorem isMerge_complete : ∀ (hist : List (Nat × Bytes)) (per : List (List Bytes)),
    (∀ t, proj t hist = per.getD t []) → isMerge per (hist.map (·.2)) = true
  | [], per, h => by
    simp only [List.map_nil, isMerge, List.all_eq_true]
    intro p hp
    obtain ⟨t, ht, hpt⟩ := List.getElem_of_mem hp
    have := h t
    simp [proj, List.getD_eq_getElem?_getD, List.getElem?_eq_getElem ht, hpt] at this
    simp [← this]
  | (i, l) :: hist, per, h => by
    have hi := h i
    simp [proj] at hi
    have hlen : i < per.length := by
      by_cases hlt : i < per.length
      · exact hlt
      · simp [List.getD_eq_getElem?_getD, List.getElem?_eq_none (by omega : per.length ≤ i)] at hi
    have hp : per[i]? = some (l :: proj i hist) := by
      simp [List.getD_eq_getElem?_getD, List.getElem?_eq_getElem hlen] at hi
      simp [List.getElem?_eq_getElem hlen, ← hi, proj]
    simp only [List.map_cons, isMerge, List.any_eq_true, List.mem_range]
    refine ⟨i, hlen, ?_⟩
    simp only [hp, beq_self_eq_true, Bool.true_and]
    apply isMerge_complete hist (per.set i (proj i hist))
    intro t
    by_cases hti : t = i
    · subst hti; simp [List.getD_eq_getElem?_getD, List.getElem?_set, hlen]
    · have := h t
      have hne : (i == t) = false := by simpa using fun e : i = t => hti e.symm
      simp [proj, hne] at this
      simp [proj, List.getD_eq_getElem?_getD, List.getElem?_set, show i ≠ t from fun e => hti e.symm] at this ⊢
      exact this

theorem cutAux_sound : ∀ (bs acc : Bytes) (ls : List Bytes), cutAux bs acc = some ls → acc ++ bs = ls.flatten
  | [], [], ls, h => by simp [cutAux] at h; subst h; rfl
  | [], _ :: _, ls, h => by simp [cutAux] at h
  | b :: bs, acc, ls, h => by
    simp only [cutAux] at h
    split at h
    · rename_i hb
      cases hc : cutAux bs [] with
      | none => simp [hc] at h
      | some ls' =>
        simp [hc] at h; subst h
        have := cutAux_sound bs [] ls' hc
        simp at this
        simp [this]
    · have := cutAux_sound bs (acc ++ [b]) ls h
      simpa using this

/-- a proper line: ends with '\n' and contains no other '\n' -/
def Proper (l : Bytes) : Prop := ∃ body, l = body ++ [10] ∧ (10 : UInt8) ∉ body

theorem cutAux_body : ∀ (body rest acc : Bytes), (10 : UInt8) ∉ body →
    cutAux (body ++ 10 :: rest) acc = (cutAux rest []).map ((acc ++ body ++ [10]) :: ·)
  | [], rest, acc, _ => by simp [cutAux]
  | b :: body, rest, acc, h => by
    have hb : b ≠ 10 := by intro e; subst e; simp at h
    have hbody : (10 : UInt8) ∉ body := by intro e; exact h (List.mem_cons_of_mem _ e)
    simp only [List.cons_append, cutAux, hb, if_false]
    rw [cutAux_body body rest (acc ++ [b]) hbody]
    simp [List.append_assoc]

theorem cut_flatten : ∀ ls : List Bytes, (∀ l ∈ ls, Proper l) → cut ls.flatten = some ls
  | [], _ => by simp [cut, cutAux]
  | l :: ls, h => by
    obtain ⟨body, hl, hbody⟩ := h l (by simp)
    have ih := cut_flatten ls (fun x hx => h x (List.mem_cons_of_mem _ hx))
    subst hl
    simp only [cut] at ih ⊢
    simp only [List.flatten_cons, List.append_assoc, List.singleton_append]
    rw [cutAux_body body ls.flatten [] hbody, ih]
    simp

/-! ### BufferedWriteSyncer stream invariant -/

/-- the underlying sink received whole-line groups only; buffered = a whole-line suffix; nothing lost or reordered -/
def BInv (lines : List Bytes) (s : BSt) : Prop :=
  ∃ (groups : List (List Bytes)) (pending : List Bytes),
    s.calls = groups.map List.flatten ∧ s.buf = pending.flatten ∧ groups.flatten ++ pending = lines

theorem binv_mk {lines : List Bytes} {s : BSt} (groups : List (List Bytes)) (pending : List Bytes)
    (h1 : s.calls = groups.map List.flatten) (h2 : s.buf = pending.flatten) (h3 : groups.flatten ++ pending = lines) :
    BInv lines s := ⟨groups, pending, h1, h2, h3⟩

theorem binv_elim {lines : List Bytes} {s : BSt} (h : BInv lines s) :
    ∃ (groups : List (List Bytes)) (pending : List Bytes),
      s.calls = groups.map List.flatten ∧ s.buf = pending.flatten ∧ groups.flatten ++ pending = lines := h

theorem bflush_inv (lines : List Bytes) (s : BSt) (h : BInv lines s) :
    BInv lines { buf := [], calls := s.calls ++ [s.buf] } := by
  obtain ⟨groups, pending, h1, h2, h3⟩ := binv_elim h
  exact binv_mk (groups ++ [pending]) [] (by simp [h1, h2]) rfl (by simp [← h3])

theorem bstep_sync_inv (size : Nat) (lines : List Bytes) (s : BSt) (h : BInv lines s) :
    BInv lines (bstep size s .sync) := by
  simp only [bstep]
  split
  · exact h
  · exact bflush_inv lines s h

theorem bstep_write_inv (size : Nat) (lines : List Bytes) (s : BSt) (l : Bytes) (h : BInv lines s) :
    BInv (lines ++ [l]) (bstep size s (.write l)) := by
  simp only [bstep]
  -- after the optional pre-flush the invariant still holds
  have h1 : BInv lines (if l.length > size - s.buf.length ∧ s.buf ≠ [] then
      ({ buf := [], calls := s.calls ++ [s.buf] } : BSt) else s) := by
    split
    · exact bflush_inv lines s h
    · exact h
  generalize (if l.length > size - s.buf.length ∧ s.buf ≠ [] then
      ({ buf := [], calls := s.calls ++ [s.buf] } : BSt) else s) = s1 at h1
  obtain ⟨groups, pending, hc, hb, hl⟩ := binv_elim h1
  split
  · -- direct write
    by_cases he : s1.buf = []
    · refine binv_mk (groups ++ [pending ++ [l]]) [] ?_ rfl ?_
      · have : pending.flatten = [] := by rw [← hb]; exact he
        show (if s1.buf = [] then s1.calls else s1.calls ++ [s1.buf]) ++ [l] = _
        rw [if_pos he]
        simp [hc, this]
      · simp [← hl]
    · refine binv_mk (groups ++ [pending] ++ [[l]]) [] ?_ rfl ?_
      · show (if s1.buf = [] then s1.calls else s1.calls ++ [s1.buf]) ++ [l] = _
        rw [if_neg he]
        simp [hc, hb]
      · simp [← hl]
  · exact binv_mk groups (pending ++ [l]) hc (by simp [hb]) (by simp [← hl])

theorem bwritten_append (a b : List (Nat × BOp)) : bwritten (a ++ b) = bwritten a ++ bwritten b := by
  induction a with
  | nil => rfl
  | cons o r ih =>
    obtain ⟨t, op⟩ := o
    cases op <;> simp [bwritten, ih]

theorem brun_inv (size : Nat) (ops : List (Nat × BOp)) : ∀ (lines : List Bytes) (s : BSt), BInv lines s →
    BInv (lines ++ (bwritten ops).map (·.2)) (brun size s ops) := by
  induction ops with
  | nil => intro lines s h; simpa [brun, bwritten] using h
  | cons o r ih =>
    intro lines s h
    obtain ⟨t, op⟩ := o
    cases op with
    | write l =>
      have := ih (lines ++ [l]) (bstep size s (.write l)) (bstep_write_inv size lines s l h)
      simpa [brun, bwritten, List.append_assoc] using this
    | sync =>
      have := ih lines (bstep size s .sync) (bstep_sync_inv size lines s h)
      simpa [brun, bwritten] using this

theorem brun_append (size : Nat) (s : BSt) (a b : List (Nat × BOp)) :
    brun size s (a ++ b) = brun size (brun size s a) b := by
  simp [brun, List.foldl_append]

end ZapVerif.Tee
