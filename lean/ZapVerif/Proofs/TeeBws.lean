import ZapVerif.Model.TeeBws
import ZapVerif.Proofs.Tee
/-! Invariant of the C04 machine (pooled buffers, per-branch mutexes, Lock(sink) and BufferedWriteSyncer branches). -/
namespace ZapVerif.TeeBws
open ZapVerif ZapVerif.Tee

/-- the pooled buffer a phase owns -/
def bufOf : Ph → Option Nat
  | .enc k _ _ _ | .pre k _ _ | .emit k _ _ _ | .copy k _ _ _ | .fin k => some k
  | _ => none

/-- the branch whose mutex a phase holds -/
def holds : Ph → Option Nat
  | .pre _ b _ | .emit _ b _ _ | .copy _ b _ _ | .flush b => some b
  | _ => none

/-- the line a phase has encoded (or is encoding) for branch b but has not yet acquired the mutex for -/
def pend (b : Nat) : Ph → List Bytes
  | .enc _ br line _ => if br = b then [line] else []
  | _ => []

/-- the pooled buffer holds what the phase believes it holds -/
def dataOk (pool : Nat → PBuf) : Ph → Prop
  | .enc k _ line rest => (pool k).data ++ rest = line
  | .pre k _ line | .emit k _ line _ | .copy k _ line _ => (pool k).data = line
  | _ => True

/-- nobody is inside a write on branch b: the sink received whole-line groups, the buffer holds whole lines, and
    together they are exactly the accepted lines in order -/
def Quiet (s : St) (b : Nat) : Prop :=
  ∃ (groups : List (List Bytes)) (pending : List Bytes),
    s.calls b = groups.map List.flatten ∧ s.cur b = [] ∧ s.buf b = pending.flatten ∧
    groups.flatten ++ pending = wlines s b

/-- branch-level facts by what the holder is doing (`pending`: whole lines sitting in the bufio buffer; in the
    `emit` case they can only be empty lines, which travel with the next sink call) -/
def brOk (s : St) (b : Nat) : Ph → Prop
  | .flush _ => Quiet s b
  | .pre _ _ line =>
    ∃ (groups : List (List Bytes)) (pending : List Bytes), s.calls b = groups.map List.flatten ∧ s.cur b = [] ∧
      s.buf b = pending.flatten ∧ groups.flatten ++ pending ++ [line] = wlines s b
  | .emit _ _ line i =>
    ∃ (groups : List (List Bytes)) (pending : List Bytes), s.calls b = groups.map List.flatten ∧
      s.cur b = line.take i ∧ s.buf b = [] ∧ pending.flatten = [] ∧ groups.flatten ++ pending ++ [line] = wlines s b
  | .copy _ _ line i =>
    ∃ (groups : List (List Bytes)) (pending : List Bytes), s.calls b = groups.map List.flatten ∧ s.cur b = [] ∧
      s.buf b = pending.flatten ++ line.take i ∧ groups.flatten ++ pending ++ [line] = wlines s b
  | _ => True

/-- on a Lock(sink) branch every completed sink Write call is exactly one accepted line -/
def lkOk (s : St) (b : Nat) : Ph → Prop
  | .emit _ _ line _ => s.calls b ++ [line] = wlines s b
  | .flush _ => s.calls b = wlines s b
  | .pre _ _ _ | .copy _ _ _ _ => False
  | _ => True

/-- what the invariant says about goroutine u -/
structure TOk (kind : Nat → Kind) (jobs : Nat → List Act) (s : St) (u : Nat) : Prop where
  own : ∀ k, bufOf (s.thr u).ph = some k → (s.pool k).owner = some u
  excl : ∀ b, holds (s.thr u).ph = some b → s.lock b = some u
  data : dataOk s.pool (s.thr u).ph
  br : ∀ b, holds (s.thr u).ph = some b → brOk s b (s.thr u).ph
  lkheld : ∀ b, kind b = .locked → holds (s.thr u).ph = some b → lkOk s b (s.thr u).ph
  projq : ∀ b, proj u (s.hist b) ++ pend b (s.thr u).ph ++ linesFor b (s.thr u).todo = linesFor b (jobs u)

/-- what the invariant says about branch b -/
structure BOk (kind : Nat → Kind) (s : St) (b : Nat) : Prop where
  hold : ∀ t, s.lock b = some t → holds (s.thr t).ph = some b
  free : s.lock b = none → Quiet s b
  lkbuf : kind b = .locked → s.buf b = []
  lkfree : kind b = .locked → s.lock b = none → s.calls b = wlines s b

/-- the invariant: a pooled buffer is owned by the goroutine that uses it and holds that goroutine's line; a mutex is
    held exactly by the goroutine that is inside the critical section; per branch, sink calls + bufio buffer + the
    write in progress are exactly the accepted lines in acquisition order (whole lines per sink call; exactly one
    line per call on a Lock(sink) branch); per goroutine and branch, history ++ remaining work = program -/
structure Inv (kind : Nat → Kind) (jobs : Nat → List Act) (s : St) : Prop where
  thr : ∀ u, TOk kind jobs s u
  brn : ∀ b, BOk kind s b

theorem init_inv (kind : Nat → Kind) (jobs : Nat → List Act) : Inv kind jobs (init jobs) := by
  refine ⟨fun u => ⟨?_, ?_, ?_, ?_, ?_, ?_⟩, fun b => ⟨?_, ?_, ?_, ?_⟩⟩ <;>
    simp [init, bufOf, holds, dataOk, wlines, proj, pend]
  · exact ⟨[], [], by simp, rfl, by simp, by simp [wlines]⟩

/-! ### frame lemmas: the branch predicates only look at four fields of their branch -/

theorem quiet_congr {s s' : St} {b : Nat} (h1 : s'.calls b = s.calls b) (h2 : s'.cur b = s.cur b)
    (h3 : s'.buf b = s.buf b) (h4 : s'.hist b = s.hist b) : Quiet s' b ↔ Quiet s b := by
  simp only [Quiet, wlines, h1, h2, h3, h4]

theorem brOk_congr {s s' : St} {b : Nat} (ph : Ph) (h1 : s'.calls b = s.calls b) (h2 : s'.cur b = s.cur b)
    (h3 : s'.buf b = s.buf b) (h4 : s'.hist b = s.hist b) : brOk s' b ph ↔ brOk s b ph := by
  cases ph <;> simp only [brOk, Quiet, wlines, h1, h2, h3, h4]

theorem lkOk_congr {s s' : St} {b : Nat} (ph : Ph) (h1 : s'.calls b = s.calls b)
    (h4 : s'.hist b = s.hist b) : lkOk s' b ph ↔ lkOk s b ph := by
  cases ph <;> simp only [lkOk, wlines, h1, h4]

theorem dataOk_frame {pool pool' : Nat → PBuf} (ph : Ph) (h : ∀ k, bufOf ph = some k → (pool' k).data = (pool k).data) :
    dataOk pool' ph ↔ dataOk pool ph := by
  cases ph <;> simp only [dataOk, bufOf] at h ⊢ <;> rw [h _ rfl]

/-- the fields of branch b the invariant looks at are unchanged -/
def SameBr (s s' : St) (b : Nat) : Prop :=
  s'.lock b = s.lock b ∧ s'.calls b = s.calls b ∧ s'.cur b = s.cur b ∧ s'.buf b = s.buf b ∧ s'.hist b = s.hist b

theorem TOk.frame {kind : Nat → Kind} {jobs : Nat → List Act} {s s' : St} {u : Nat} (h : TOk kind jobs s u)
    (hthr : s'.thr u = s.thr u)
    (hpool : ∀ k, bufOf (s.thr u).ph = some k → s'.pool k = s.pool k)
    (hbr : ∀ b, holds (s.thr u).ph = some b → SameBr s s' b)
    (hproj : ∀ b, proj u (s'.hist b) = proj u (s.hist b)) : TOk kind jobs s' u := by
  refine ⟨?_, ?_, ?_, ?_, ?_, ?_⟩
  · intro k hk; rw [hthr] at hk; rw [hpool k hk]; exact h.own k hk
  · intro b hb; rw [hthr] at hb; rw [(hbr b hb).1]; exact h.excl b hb
  · rw [hthr]; exact (dataOk_frame _ (fun k hk => by rw [hpool k hk])).mpr h.data
  · intro b hb; rw [hthr] at hb ⊢
    obtain ⟨_, h1, h2, h3, h4⟩ := hbr b hb
    exact (brOk_congr _ h1 h2 h3 h4).mpr (h.br b hb)
  · intro b hk hb; rw [hthr] at hb ⊢
    obtain ⟨_, h1, _, _, h4⟩ := hbr b hb
    exact (lkOk_congr _ h1 h4).mpr (h.lkheld b hk hb)
  · intro b; rw [hthr, hproj b]; exact h.projq b

theorem BOk.frame {kind : Nat → Kind} {s s' : St} {b : Nat} (h : BOk kind s b) (hf : SameBr s s' b)
    (hh : ∀ t, s.lock b = some t → holds (s'.thr t).ph = some b) : BOk kind s' b := by
  obtain ⟨h0, h1, h2, h3, h4⟩ := hf
  refine ⟨?_, ?_, ?_, ?_⟩
  · intro t ht; rw [h0] at ht; exact hh t ht
  · intro hl; rw [h0] at hl; exact (quiet_congr h1 h2 h3 h4).mpr (h.free hl)
  · intro hk; rw [h3]; exact h.lkbuf hk
  · intro hk hl; rw [h0] at hl; simp only [wlines, h1, h4]; exact h.lkfree hk hl

/-- a step of goroutine t that touches only t's thread record, pooled buffers no other goroutine owns, and (at most)
    branch br which no other goroutine holds: it suffices to re-establish the facts about t and about br -/
theorem inv_local {kind : Nat → Kind} {jobs : Nat → List Act} {s s' : St} {t br : Nat} (h : Inv kind jobs s)
    (hthr : ∀ u, u ≠ t → s'.thr u = s.thr u)
    (hpool : ∀ u k, u ≠ t → bufOf (s.thr u).ph = some k → s'.pool k = s.pool k)
    (hbr : ∀ b, b ≠ br → SameBr s s' b)
    (hnb : SameBr s s' br ∨ ∀ u, u ≠ t → holds (s.thr u).ph ≠ some br)
    (hproj : ∀ u b, u ≠ t → proj u (s'.hist b) = proj u (s.hist b))
    (hheld : ∀ b, b ≠ br → s.lock b = some t → holds (s'.thr t).ph = some b)
    (ht : TOk kind jobs s' t) (hb : BOk kind s' br) : Inv kind jobs s' := by
  refine ⟨fun u => ?_, fun b => ?_⟩
  · by_cases hut : u = t
    · subst hut; exact ht
    · refine (h.thr u).frame (hthr u hut) (hpool u · hut) (fun b hb' => ?_) (hproj u · hut)
      by_cases hbb : b = br
      · subst hbb
        cases hnb with
        | inl hs => exact hs
        | inr hn => exact absurd hb' (hn u hut)
      · exact hbr b hbb
  · by_cases hbb : b = br
    · subst hbb; exact hb
    · refine (h.brn b).frame (hbr b hbb) (fun u hl => ?_)
      by_cases hut : u = t
      · subst hut; exact hheld b hbb hl
      · rw [hthr u hut]; exact (h.brn b).hold u hl

theorem sameBr_refl (s : St) (b : Nat) : SameBr s s b := ⟨rfl, rfl, rfl, rfl, rfl⟩

theorem inv_thread {kind : Nat → Kind} {jobs : Nat → List Act} {s s' : St} {t : Nat} (h : Inv kind jobs s)
    (hthr : ∀ u, u ≠ t → s'.thr u = s.thr u)
    (hpool : ∀ u k, u ≠ t → bufOf (s.thr u).ph = some k → s'.pool k = s.pool k)
    (hbr : ∀ b, SameBr s s' b)
    (hheld : ∀ b, s.lock b = some t → holds (s'.thr t).ph = some b)
    (ht : TOk kind jobs s' t) : Inv kind jobs s' := by
  refine inv_local (br := 0) h hthr hpool (fun b _ => hbr b) (.inl (hbr 0)) (fun u b _ => by rw [(hbr b).2.2.2.2])
    (fun b _ => hheld b) ht ((h.brn 0).frame (hbr 0) (fun u hl => ?_))
  by_cases hut : u = t
  · subst hut; exact hheld 0 hl
  · rw [hthr u hut]; exact (h.brn 0).hold u hl

/-- two goroutines own different pooled buffers -/
theorem own_ne {kind : Nat → Kind} {jobs : Nat → List Act} {s : St} (h : Inv kind jobs s) {t u k k' : Nat} (hut : u ≠ t)
    (hk : (s.pool k).owner = some t) (hk' : bufOf (s.thr u).ph = some k') : k' ≠ k := by
  intro e; subst e
  have := (h.thr u).own k' hk'
  rw [hk] at this; exact hut (Option.some.inj this).symm

theorem step_get {kind : Nat → Kind} {jobs : Nat → List Act} {s : St} {t c br : Nat} {line : Bytes} {rest : List Act}
    (h : Inv kind jobs s) (hph : (s.thr t).ph = .idle) (htd : (s.thr t).todo = .write br line :: rest)
    (hc : (s.pool c).owner = none) :
    Inv kind jobs { s with thr := upd s.thr t { todo := rest, ph := .enc c br line line },
                           pool := upd s.pool c { owner := some t, data := [] } } := by
  refine inv_thread (t := t) h (fun u hut => by simp [upd_other _ _ _ _ hut]) ?_ (fun b => ⟨rfl, rfl, rfl, rfl, rfl⟩) ?_ ?_
  · intro u k hut hk
    have hkc : k ≠ c := by
      intro e; subst e; have := (h.thr u).own k hk; rw [hc] at this; cases this
    simp [upd_other _ _ _ _ hkc]
  · intro b hl; have := (h.brn b).hold t hl; rw [hph] at this; simp [holds] at this
  · refine ⟨?_, ?_, ?_, ?_, ?_, ?_⟩
    · intro k hk; simp [bufOf] at hk; subst hk; simp
    · intro b hb; simp [holds] at hb
    · simp [dataOk]
    · intro b hb; simp [holds] at hb
    · intro b _ hb; simp [holds] at hb
    · intro b
      have := (h.thr t).projq b
      rw [hph, htd] at this
      simp only [upd_same, pend, linesFor, List.append_nil] at this ⊢
      by_cases hbb : br = b <;> simp [hbb] at this ⊢ <;> exact this

theorem step_encbyte {kind : Nat → Kind} {jobs : Nat → List Act} {s : St} {t k br : Nat} {line rest : Bytes} {x : UInt8}
    (h : Inv kind jobs s) (hph : (s.thr t).ph = .enc k br line (x :: rest)) :
    Inv kind jobs { s with thr := upd s.thr t { (s.thr t) with ph := .enc k br line rest },
                           pool := upd s.pool k { (s.pool k) with data := (s.pool k).data ++ [x] } } := by
  have hown : (s.pool k).owner = some t := (h.thr t).own k (by rw [hph]; rfl)
  refine inv_thread (t := t) h (fun u hut => by simp [upd_other _ _ _ _ hut]) ?_ (fun b => ⟨rfl, rfl, rfl, rfl, rfl⟩) ?_ ?_
  · intro u k' hut hk
    simp [upd_other _ _ _ _ (own_ne h hut hown hk)]
  · intro b hl; have := (h.brn b).hold t hl; rw [hph] at this; simp [holds] at this
  · refine ⟨?_, ?_, ?_, ?_, ?_, ?_⟩
    · intro k' hk; simp [bufOf] at hk; subst hk; simpa using hown
    · intro b hb; simp [holds] at hb
    · have := (h.thr t).data; rw [hph] at this; simp [dataOk] at this ⊢; exact this
    · intro b hb; simp [holds] at hb
    · intro b _ hb; simp [holds] at hb
    · intro b
      have := (h.thr t).projq b
      rw [hph] at this
      simpa [pend] using this

theorem step_fin {kind : Nat → Kind} {jobs : Nat → List Act} {s : St} {t k : Nat}
    (h : Inv kind jobs s) (hph : (s.thr t).ph = .fin k) :
    Inv kind jobs { s with thr := upd s.thr t { (s.thr t) with ph := .idle },
                           pool := upd s.pool k { (s.pool k) with owner := none } } := by
  have hown : (s.pool k).owner = some t := (h.thr t).own k (by rw [hph]; rfl)
  refine inv_thread (t := t) h (fun u hut => by simp [upd_other _ _ _ _ hut]) ?_ (fun b => ⟨rfl, rfl, rfl, rfl, rfl⟩) ?_ ?_
  · intro u k' hut hk
    simp [upd_other _ _ _ _ (own_ne h hut hown hk)]
  · intro b hl; have := (h.brn b).hold t hl; rw [hph] at this; simp [holds] at this
  · refine ⟨?_, ?_, ?_, ?_, ?_, ?_⟩
    · intro k' hk; simp [bufOf] at hk
    · intro b hb; simp [holds] at hb
    · simp [dataOk]
    · intro b hb; simp [holds] at hb
    · intro b _ hb; simp [holds] at hb
    · intro b
      have := (h.thr t).projq b
      rw [hph] at this
      simpa [pend] using this

/-- the `pre` goroutine decides: direct write (only possible with an empty buffer) or copy -/
theorem step_decide {kind : Nat → Kind} {jobs : Nat → List Act} {s : St} {t k br : Nat} {line : Bytes} (direct : Bool)
    (h : Inv kind jobs s) (hph : (s.thr t).ph = .pre k br line)
    (hd : direct = true → s.buf br = []) :
    Inv kind jobs { s with thr := upd s.thr t { (s.thr t) with
      ph := if direct then .emit k br line 0 else .copy k br line 0 } } := by
  have hhold : holds (s.thr t).ph = some br := by rw [hph]; rfl
  refine inv_thread (t := t) h (fun u hut => by simp [upd_other _ _ _ _ hut]) (fun _ _ _ _ => rfl)
    (fun b => ⟨rfl, rfl, rfl, rfl, rfl⟩) ?_ ?_
  · intro b hl; have := (h.brn b).hold t hl; rw [hph] at this
    cases direct <;> simpa [holds] using this
  · have hbr := (h.thr t).br br hhold
    rw [hph] at hbr
    obtain ⟨groups, pending, h1, h2, h3, h4⟩ := hbr
    refine ⟨?_, ?_, ?_, ?_, ?_, ?_⟩
    · intro k' hk
      have : k' = k := by cases direct <;> simp [bufOf] at hk <;> exact hk.symm
      subst this; exact (h.thr t).own k' (by rw [hph]; rfl)
    · intro b hb
      have : b = br := by cases direct <;> simp [holds] at hb <;> exact hb.symm
      subst this; exact (h.thr t).excl b hhold
    · have := (h.thr t).data; rw [hph] at this
      cases direct <;> simpa [dataOk] using this
    · intro b hb
      have : b = br := by cases direct <;> simp [holds] at hb <;> exact hb.symm
      subst this
      refine (brOk_congr _ rfl rfl rfl rfl).mpr ?_
      cases direct with
      | true =>
        have hb0 := hd rfl
        simp only [upd_same, if_true, brOk]
        exact ⟨groups, pending, h1, by simpa using h2, hb0, by rw [← h3]; exact hb0, h4⟩
      | false =>
        simp only [upd_same, Bool.false_eq_true, if_false, brOk]
        exact ⟨groups, pending, h1, h2, by simpa using h3, h4⟩
    · intro b hk hb
      have : b = br := by cases direct <;> simp [holds] at hb <;> exact hb.symm
      subst this
      have := (h.thr t).lkheld b hk hhold
      rw [hph] at this; exact absurd this (by simp [lkOk])
    · intro b
      have := (h.thr t).projq b
      rw [hph] at this
      cases direct <;> simpa [pend] using this

theorem proj_snoc_other {u t : Nat} (hut : u ≠ t) (hist : List (Nat × Bytes)) (l : Bytes) :
    proj u (hist ++ [(t, l)]) = proj u hist := by
  have : (t == u) = false := by simpa using fun e : t = u => hut e.symm
  simp [proj, List.filter_append, this]

theorem proj_snoc_self (t : Nat) (hist : List (Nat × Bytes)) (l : Bytes) :
    proj t (hist ++ [(t, l)]) = proj t hist ++ [l] := by
  simp [proj, List.filter_append]

theorem map_single_flatten {α} (l : List α) : (l.map fun x => [x]).flatten = l := by
  induction l with
  | nil => rfl
  | cons a r ih => simp [ih]

theorem map_single_map_flatten {α} (l : List (List α)) : (l.map fun x => [x]).map List.flatten = l := by
  induction l with
  | nil => rfl
  | cons a r ih => simp [ih]

/-- nobody but the holder (or, when the mutex is free, nobody at all) is inside branch br -/
theorem nobody_else {kind : Nat → Kind} {jobs : Nat → List Act} {s : St} (h : Inv kind jobs s) {t br : Nat}
    (hl : s.lock br = none ∨ s.lock br = some t) : ∀ u, u ≠ t → holds (s.thr u).ph ≠ some br := by
  intro u hut hb
  have := (h.thr u).excl br hb
  cases hl with
  | inl hn => rw [hn] at this; cases this
  | inr hs => rw [hs] at this; exact hut (Option.some.inj this).symm

/-- `enc … []` acquires the mutex of its branch -/
theorem step_acq_write {kind : Nat → Kind} {jobs : Nat → List Act} {s : St} {t k br : Nat} {line : Bytes} (ph' : Ph)
    (h : Inv kind jobs s) (hph : (s.thr t).ph = .enc k br line []) (hl : s.lock br = none)
    (hph' : (kind br = .locked ∧ ph' = .emit k br line 0) ∨ (kind br ≠ .locked ∧ ph' = .pre k br line)) :
    Inv kind jobs { s with thr := upd s.thr t { (s.thr t) with ph := ph' },
                           lock := upd s.lock br (some t),
                           hist := upd s.hist br (s.hist br ++ [(t, line)]) } := by
  have hbuf : bufOf ph' = some k := by rcases hph' with ⟨_, e⟩ | ⟨_, e⟩ <;> subst e <;> rfl
  have hhol : holds ph' = some br := by rcases hph' with ⟨_, e⟩ | ⟨_, e⟩ <;> subst e <;> rfl
  have hpend : ∀ b, pend b ph' = [] := by intro b; rcases hph' with ⟨_, e⟩ | ⟨_, e⟩ <;> subst e <;> rfl
  have hdata : (s.pool k).data = line := by
    have := (h.thr t).data; rw [hph] at this; simpa [dataOk] using this
  have hq := (h.brn br).free hl
  refine inv_local (t := t) (br := br) h (fun u hut => by simp [upd_other _ _ _ _ hut]) (fun _ _ _ _ => rfl)
    (fun b hb => ⟨by simp [upd_other _ _ _ _ hb], rfl, rfl, rfl, by simp [upd_other _ _ _ _ hb]⟩)
    (.inr (nobody_else h (.inl hl))) ?_ ?_ ?_ ?_
  · intro u b hut
    by_cases hb : b = br
    · subst hb; simp [proj_snoc_other hut]
    · simp [upd_other _ _ _ _ hb]
  · intro b _ hlb; have := (h.brn b).hold t hlb; rw [hph] at this; simp [holds] at this
  · refine ⟨?_, ?_, ?_, ?_, ?_, ?_⟩
    · intro k' hk; simp only [upd_same, hbuf] at hk; cases hk
      exact (h.thr t).own k (by rw [hph]; rfl)
    · intro b hb; simp only [upd_same, hhol] at hb; cases hb; simp
    · simp only [upd_same]
      rcases hph' with ⟨_, e⟩ | ⟨_, e⟩ <;> subst e <;> simpa [dataOk] using hdata
    · intro b hb; simp only [upd_same, hhol] at hb; cases hb
      simp only [upd_same]
      rcases hph' with ⟨hk, e⟩ | ⟨_, e⟩ <;> subst e
      · -- Lock(sink): the completed calls are exactly the accepted lines
        have hc := (h.brn br).lkfree hk hl
        have hb0 := (h.brn br).lkbuf hk
        obtain ⟨_, _, _, hcur, _, _⟩ := hq
        refine ⟨(wlines s br).map (fun x => [x]), [], ?_, ?_, ?_, rfl, ?_⟩
        · rw [map_single_map_flatten]; exact hc
        · simpa using hcur
        · exact hb0
        · rw [map_single_flatten]; simp [wlines]
      · obtain ⟨groups, pending, h1, h2, h3, h4⟩ := hq
        refine ⟨groups, pending, h1, h2, h3, ?_⟩
        simp [wlines] at h4 ⊢; rw [← h4]; simp
    · intro b hk hb; simp only [upd_same, hhol] at hb; cases hb
      simp only [upd_same]
      rcases hph' with ⟨_, e⟩ | ⟨hk', _⟩
      · subst e
        have hc := (h.brn br).lkfree hk hl
        simp [lkOk, wlines] at hc ⊢; rw [hc]
      · exact absurd hk hk'
    · intro b
      have := (h.thr t).projq b
      rw [hph] at this
      simp only [upd_same, hpend]
      by_cases hb : b = br
      · subst hb; simpa [pend, proj_snoc_self, List.append_assoc] using this
      · have hb' : br ≠ b := fun e => hb e.symm
        simpa [pend, upd_other _ _ _ _ hb, hb'] using this
  · refine ⟨?_, ?_, ?_, ?_⟩
    · intro u hu; simp at hu; subst hu; simpa using hhol
    · intro hn; simp at hn
    · intro hk; exact (h.brn br).lkbuf hk
    · intro _ hn; simp at hn

/-- BWS: the line does not fit and something is buffered: flush first (one sink call with the buffered whole lines) -/
theorem step_preflush {kind : Nat → Kind} {jobs : Nat → List Act} {s : St} {t k br : Nat} {line : Bytes}
    (h : Inv kind jobs s) (hph : (s.thr t).ph = .pre k br line) :
    Inv kind jobs { s with calls := upd s.calls br (s.calls br ++ [s.buf br]), buf := upd s.buf br [] } := by
  have hhold : holds (s.thr t).ph = some br := by rw [hph]; rfl
  have hlk : s.lock br = some t := (h.thr t).excl br hhold
  refine inv_local (t := t) (br := br) h (fun u hut => rfl) (fun _ _ _ _ => rfl)
    (fun b hb => ⟨rfl, by simp [upd_other _ _ _ _ hb], rfl, by simp [upd_other _ _ _ _ hb], rfl⟩)
    (.inr (nobody_else h (.inr hlk))) (fun _ _ _ => rfl) ?_ ?_ ?_
  · intro b _ hlb; exact (h.brn b).hold t hlb
  · have hbr := (h.thr t).br br hhold
    rw [hph] at hbr
    obtain ⟨groups, pending, h1, h2, h3, h4⟩ := hbr
    refine ⟨(h.thr t).own, (h.thr t).excl, (h.thr t).data, ?_, ?_, (h.thr t).projq⟩
    · intro b hb
      have : b = br := by rw [hph] at hb; simp [holds] at hb; exact hb.symm
      subst this
      show brOk _ b (s.thr t).ph
      rw [hph]
      refine ⟨groups ++ [pending], [], ?_, h2, ?_, ?_⟩
      · simp [h1, h3]
      · simp
      · simpa [wlines] using h4
    · intro b hk hb
      have := (h.thr t).lkheld b hk hb
      rw [hph] at this ⊢; exact absurd this (by simp [lkOk])
  · refine ⟨?_, ?_, ?_, ?_⟩
    · intro u hu; exact (h.brn br).hold u hu
    · intro hn; rw [show ({ s with calls := upd s.calls br (s.calls br ++ [s.buf br]), buf := upd s.buf br [] } : St).lock br = s.lock br from rfl, hlk] at hn; cases hn
    · intro _; simp
    · intro _ hn; rw [show ({ s with calls := upd s.calls br (s.calls br ++ [s.buf br]), buf := upd s.buf br [] } : St).lock br = s.lock br from rfl, hlk] at hn; cases hn

theorem take_succ_of_get {α} (l : List α) (i : Nat) (x : α) (h : l[i]? = some x) : l.take (i + 1) = l.take i ++ [x] := by
  rw [List.take_add_one, h]; rfl

theorem take_of_get_none {α} (l : List α) (i : Nat) (h : l[i]? = none) : l.take i = l := by
  apply List.take_of_length_le
  exact List.getElem?_eq_none_iff.mp h

/-- one more byte of the pooled buffer reaches the underlying sink -/
theorem step_emitbyte {kind : Nat → Kind} {jobs : Nat → List Act} {s : St} {t k br i : Nat} {line : Bytes} {x : UInt8}
    (h : Inv kind jobs s) (hph : (s.thr t).ph = .emit k br line i) (hx : (s.pool k).data[i]? = some x) :
    Inv kind jobs { s with thr := upd s.thr t { (s.thr t) with ph := .emit k br line (i + 1) },
                           cur := upd s.cur br (s.cur br ++ [x]) } := by
  have hhold : holds (s.thr t).ph = some br := by rw [hph]; rfl
  have hlk : s.lock br = some t := (h.thr t).excl br hhold
  have hdata : (s.pool k).data = line := by
    have := (h.thr t).data; rw [hph] at this; simpa [dataOk] using this
  rw [hdata] at hx
  refine inv_local (t := t) (br := br) h (fun u hut => by simp [upd_other _ _ _ _ hut]) (fun _ _ _ _ => rfl)
    (fun b hb => ⟨rfl, rfl, by simp [upd_other _ _ _ _ hb], rfl, rfl⟩)
    (.inr (nobody_else h (.inr hlk))) (fun _ _ _ => rfl) ?_ ?_ ?_
  · intro b hb hlb; have := (h.brn b).hold t hlb; rw [hph] at this; simp [holds] at this; exact absurd this.symm hb
  · have hbr := (h.thr t).br br hhold
    rw [hph] at hbr
    obtain ⟨groups, pending, h1, h2, h3, h4, h5⟩ := hbr
    refine ⟨?_, ?_, ?_, ?_, ?_, ?_⟩
    · intro k' hk; simp [bufOf] at hk; subst hk; exact (h.thr t).own k (by rw [hph]; rfl)
    · intro b hb; simp [holds] at hb; subst hb; exact hlk
    · simpa [dataOk] using hdata
    · intro b hb; simp [holds] at hb; subst hb
      simp only [upd_same, brOk]
      exact ⟨groups, pending, h1, by rw [h2, take_succ_of_get line i x hx], h3, h4, h5⟩
    · intro b hk hb; simp [holds] at hb; subst hb
      have := (h.thr t).lkheld br hk hhold
      rw [hph] at this
      simpa [lkOk, wlines] using this
    · intro b
      have := (h.thr t).projq b
      rw [hph] at this
      simpa [pend] using this
  · refine ⟨?_, ?_, ?_, ?_⟩
    · intro u hu
      have hu' : s.lock br = some u := hu
      rw [hlk] at hu'; cases hu'; simp [holds]
    · intro hn; have hn' : s.lock br = none := hn; rw [hlk] at hn'; cases hn'
    · intro hk; exact (h.brn br).lkbuf hk
    · intro _ hn; have hn' : s.lock br = none := hn; rw [hlk] at hn'; cases hn'

/-- the sink Write returns: the call is complete, the mutex is released; the pooled buffer is still owned -/
theorem step_emitdone {kind : Nat → Kind} {jobs : Nat → List Act} {s : St} {t k br i : Nat} {line : Bytes}
    (h : Inv kind jobs s) (hph : (s.thr t).ph = .emit k br line i) (hx : (s.pool k).data[i]? = none) :
    Inv kind jobs { s with thr := upd s.thr t { (s.thr t) with ph := .fin k },
                           calls := upd s.calls br (s.calls br ++ [s.cur br]), cur := upd s.cur br [],
                           lock := upd s.lock br none } := by
  have hhold : holds (s.thr t).ph = some br := by rw [hph]; rfl
  have hlk : s.lock br = some t := (h.thr t).excl br hhold
  have hdata : (s.pool k).data = line := by
    have := (h.thr t).data; rw [hph] at this; simpa [dataOk] using this
  rw [hdata] at hx
  have hbr := (h.thr t).br br hhold
  rw [hph] at hbr
  obtain ⟨groups, pending, h1, h2, h3, h4, h5⟩ := hbr
  rw [take_of_get_none line i hx] at h2
  refine inv_local (t := t) (br := br) h (fun u hut => by simp [upd_other _ _ _ _ hut]) (fun _ _ _ _ => rfl)
    (fun b hb => ⟨by simp [upd_other _ _ _ _ hb], by simp [upd_other _ _ _ _ hb], by simp [upd_other _ _ _ _ hb], rfl, rfl⟩)
    (.inr (nobody_else h (.inr hlk))) (fun _ _ _ => rfl) ?_ ?_ ?_
  · intro b hb hlb; have := (h.brn b).hold t hlb; rw [hph] at this; simp [holds] at this; exact absurd this.symm hb
  · refine ⟨?_, ?_, ?_, ?_, ?_, ?_⟩
    · intro k' hk; simp [bufOf] at hk; subst hk; exact (h.thr t).own k (by rw [hph]; rfl)
    · intro b hb; simp [holds] at hb
    · simp [dataOk]
    · intro b hb; simp [holds] at hb
    · intro b _ hb; simp [holds] at hb
    · intro b
      have := (h.thr t).projq b
      rw [hph] at this
      simpa [pend] using this
  · refine ⟨?_, ?_, ?_, ?_⟩
    · intro u hu; simp at hu
    · intro _
      refine ⟨groups ++ [pending ++ [line]], [], ?_, by simp, by simpa using h3, ?_⟩
      · simp [h1, h2, h4]
      · simpa [wlines, List.append_assoc] using h5
    · intro hk; exact (h.brn br).lkbuf hk
    · intro hk _
      have := (h.thr t).lkheld br hk hhold
      rw [hph] at this
      simpa [lkOk, wlines, h2] using this

/-- BWS: bufio copies one more byte of the pooled buffer into its buffer -/
theorem step_copybyte {kind : Nat → Kind} {jobs : Nat → List Act} {s : St} {t k br i : Nat} {line : Bytes} {x : UInt8}
    (h : Inv kind jobs s) (hph : (s.thr t).ph = .copy k br line i) (hx : (s.pool k).data[i]? = some x) :
    Inv kind jobs { s with thr := upd s.thr t { (s.thr t) with ph := .copy k br line (i + 1) },
                           buf := upd s.buf br (s.buf br ++ [x]) } := by
  have hhold : holds (s.thr t).ph = some br := by rw [hph]; rfl
  have hlk : s.lock br = some t := (h.thr t).excl br hhold
  have hdata : (s.pool k).data = line := by
    have := (h.thr t).data; rw [hph] at this; simpa [dataOk] using this
  rw [hdata] at hx
  have hnl : kind br ≠ .locked := by
    intro hk; have := (h.thr t).lkheld br hk hhold; rw [hph] at this; exact this
  refine inv_local (t := t) (br := br) h (fun u hut => by simp [upd_other _ _ _ _ hut]) (fun _ _ _ _ => rfl)
    (fun b hb => ⟨rfl, rfl, rfl, by simp [upd_other _ _ _ _ hb], rfl⟩)
    (.inr (nobody_else h (.inr hlk))) (fun _ _ _ => rfl) ?_ ?_ ?_
  · intro b hb hlb; have := (h.brn b).hold t hlb; rw [hph] at this; simp [holds] at this; exact absurd this.symm hb
  · have hbr := (h.thr t).br br hhold
    rw [hph] at hbr
    obtain ⟨groups, pending, h1, h2, h3, h4⟩ := hbr
    refine ⟨?_, ?_, ?_, ?_, ?_, ?_⟩
    · intro k' hk; simp [bufOf] at hk; subst hk; exact (h.thr t).own k (by rw [hph]; rfl)
    · intro b hb; simp [holds] at hb; subst hb; exact hlk
    · simpa [dataOk] using hdata
    · intro b hb; simp [holds] at hb; subst hb
      simp only [upd_same, brOk]
      exact ⟨groups, pending, h1, h2, by rw [h3, take_succ_of_get line i x hx, List.append_assoc], h4⟩
    · intro b hk hb; simp [holds] at hb; subst hb; exact absurd hk hnl
    · intro b
      have := (h.thr t).projq b
      rw [hph] at this
      simpa [pend] using this
  · refine ⟨?_, ?_, ?_, ?_⟩
    · intro u hu
      have hu' : s.lock br = some u := hu
      rw [hlk] at hu'; cases hu'; simp [holds]
    · intro hn; have hn' : s.lock br = none := hn; rw [hlk] at hn'; cases hn'
    · intro hk; exact absurd hk hnl
    · intro _ hn; have hn' : s.lock br = none := hn; rw [hlk] at hn'; cases hn'

/-- BWS: bufio.Write returns, the deferred Unlock runs -/
theorem step_copydone {kind : Nat → Kind} {jobs : Nat → List Act} {s : St} {t k br i : Nat} {line : Bytes}
    (h : Inv kind jobs s) (hph : (s.thr t).ph = .copy k br line i) (hx : (s.pool k).data[i]? = none) :
    Inv kind jobs { s with thr := upd s.thr t { (s.thr t) with ph := .fin k }, lock := upd s.lock br none } := by
  have hhold : holds (s.thr t).ph = some br := by rw [hph]; rfl
  have hlk : s.lock br = some t := (h.thr t).excl br hhold
  have hdata : (s.pool k).data = line := by
    have := (h.thr t).data; rw [hph] at this; simpa [dataOk] using this
  rw [hdata] at hx
  have hnl : kind br ≠ .locked := by
    intro hk; have := (h.thr t).lkheld br hk hhold; rw [hph] at this; exact this
  have hbr := (h.thr t).br br hhold
  rw [hph] at hbr
  obtain ⟨groups, pending, h1, h2, h3, h4⟩ := hbr
  rw [take_of_get_none line i hx] at h3
  refine inv_local (t := t) (br := br) h (fun u hut => by simp [upd_other _ _ _ _ hut]) (fun _ _ _ _ => rfl)
    (fun b hb => ⟨by simp [upd_other _ _ _ _ hb], rfl, rfl, rfl, rfl⟩)
    (.inr (nobody_else h (.inr hlk))) (fun _ _ _ => rfl) ?_ ?_ ?_
  · intro b hb hlb; have := (h.brn b).hold t hlb; rw [hph] at this; simp [holds] at this; exact absurd this.symm hb
  · refine ⟨?_, ?_, ?_, ?_, ?_, ?_⟩
    · intro k' hk; simp [bufOf] at hk; subst hk; exact (h.thr t).own k (by rw [hph]; rfl)
    · intro b hb; simp [holds] at hb
    · simp [dataOk]
    · intro b hb; simp [holds] at hb
    · intro b _ hb; simp [holds] at hb
    · intro b
      have := (h.thr t).projq b
      rw [hph] at this
      simpa [pend] using this
  · refine ⟨?_, ?_, ?_, ?_⟩
    · intro u hu; simp at hu
    · intro _
      refine ⟨groups, pending ++ [line], h1, h2, by simp [h3], ?_⟩
      simpa [wlines, List.append_assoc] using h4
    · intro hk; exact absurd hk hnl
    · intro hk; exact absurd hk hnl

/-- Sync / flush tick: acquire the mutex -/
theorem step_acq_sync {kind : Nat → Kind} {jobs : Nat → List Act} {s : St} {t br : Nat} {rest : List Act}
    (h : Inv kind jobs s) (hph : (s.thr t).ph = .idle) (htd : (s.thr t).todo = .sync br :: rest) (hl : s.lock br = none) :
    Inv kind jobs { s with thr := upd s.thr t { todo := rest, ph := .flush br }, lock := upd s.lock br (some t) } := by
  have hq := (h.brn br).free hl
  refine inv_local (t := t) (br := br) h (fun u hut => by simp [upd_other _ _ _ _ hut]) (fun _ _ _ _ => rfl)
    (fun b hb => ⟨by simp [upd_other _ _ _ _ hb], rfl, rfl, rfl, rfl⟩)
    (.inr (nobody_else h (.inl hl))) (fun _ _ _ => rfl) ?_ ?_ ?_
  · intro b _ hlb; have := (h.brn b).hold t hlb; rw [hph] at this; simp [holds] at this
  · refine ⟨?_, ?_, ?_, ?_, ?_, ?_⟩
    · intro k' hk; simp [bufOf] at hk
    · intro b hb; simp [holds] at hb; subst hb; simp
    · simp [dataOk]
    · intro b hb; simp [holds] at hb; subst hb
      simp only [upd_same, brOk]
      exact (quiet_congr rfl rfl rfl rfl).mpr hq
    · intro b hk hb; simp [holds] at hb; subst hb
      have := (h.brn br).lkfree hk hl
      simpa [lkOk, wlines] using this
    · intro b
      have := (h.thr t).projq b
      rw [hph, htd] at this
      simpa [pend, linesFor] using this
  · refine ⟨?_, ?_, ?_, ?_⟩
    · intro u hu; simp at hu; subst hu; simp [holds]
    · intro hn; simp at hn
    · intro hk; exact (h.brn br).lkbuf hk
    · intro _ hn; simp at hn

/-- Sync / flush tick: Flush (one sink call with the buffered whole lines, if any), Unlock -/
theorem step_flush {kind : Nat → Kind} {jobs : Nat → List Act} {s : St} {t br : Nat}
    (h : Inv kind jobs s) (hph : (s.thr t).ph = .flush br) :
    Inv kind jobs { s with thr := upd s.thr t { (s.thr t) with ph := .idle },
                           calls := if s.buf br = [] then s.calls else upd s.calls br (s.calls br ++ [s.buf br]),
                           buf := upd s.buf br [],
                           lock := upd s.lock br none } := by
  have hhold : holds (s.thr t).ph = some br := by rw [hph]; rfl
  have hlk : s.lock br = some t := (h.thr t).excl br hhold
  have hbr := (h.thr t).br br hhold
  rw [hph] at hbr
  obtain ⟨groups, pending, h1, h2, h3, h4⟩ := hbr
  refine inv_local (t := t) (br := br) h (fun u hut => by simp [upd_other _ _ _ _ hut]) (fun _ _ _ _ => rfl)
    (fun b hb => ⟨by simp [upd_other _ _ _ _ hb], ?_, rfl, by simp [upd_other _ _ _ _ hb], rfl⟩)
    (.inr (nobody_else h (.inr hlk))) (fun _ _ _ => rfl) ?_ ?_ ?_
  · by_cases hb0 : s.buf br = [] <;> simp [hb0, upd_other _ _ _ _ hb]
  · intro b hb hlb; have := (h.brn b).hold t hlb; rw [hph] at this; simp [holds] at this; exact absurd this.symm hb
  · refine ⟨?_, ?_, ?_, ?_, ?_, ?_⟩
    · intro k' hk; simp [bufOf] at hk
    · intro b hb; simp [holds] at hb
    · simp [dataOk]
    · intro b hb; simp [holds] at hb
    · intro b _ hb; simp [holds] at hb
    · intro b
      have := (h.thr t).projq b
      rw [hph] at this
      simpa [pend] using this
  · refine ⟨?_, ?_, ?_, ?_⟩
    · intro u hu; simp at hu
    · intro _
      by_cases hb0 : s.buf br = []
      · refine ⟨groups, pending, by simpa [hb0] using h1, h2, by simpa [hb0] using h3, by simpa [wlines] using h4⟩
      · refine ⟨groups ++ [pending], [], ?_, h2, by simp, by simpa [wlines] using h4⟩
        show (if s.buf br = [] then s.calls else upd s.calls br (s.calls br ++ [s.buf br])) br = _
        rw [if_neg hb0]; simp [h1, h3]
    · intro _; simp
    · intro hk _
      have hb0 := (h.brn br).lkbuf hk
      have := (h.thr t).lkheld br hk hhold
      rw [hph] at this
      simpa [lkOk, wlines, hb0] using this

theorem step_inv (kind : Nat → Kind) (jobs : Nat → List Act) (s s' : St) (t c : Nat) (h : Inv kind jobs s)
    (hs : step kind false s t c = some s') : Inv kind jobs s' := by
  unfold step at hs
  cases hph : (s.thr t).ph with
  | idle =>
    simp only [hph] at hs
    cases htd : (s.thr t).todo with
    | nil => simp [htd] at hs
    | cons a rest =>
      cases a with
      | write br line =>
        simp only [htd] at hs
        by_cases hc : (s.pool c).owner = none
        · simp only [hc, if_true, Option.some.injEq] at hs; subst hs
          exact step_get h hph htd hc
        · simp [hc] at hs
      | sync br =>
        simp only [htd] at hs
        cases hl : s.lock br with
        | some u => simp [hl] at hs
        | none =>
          simp only [hl, Option.some.injEq] at hs; subst hs
          exact step_acq_sync h hph htd hl
  | enc k br line rest =>
    simp only [hph] at hs
    cases rest with
    | cons x rest =>
      simp only [Option.some.injEq] at hs; subst hs
      exact step_encbyte h hph
    | nil =>
      cases hl : s.lock br with
      | some u => simp [hl] at hs
      | none =>
        simp only [hl, Option.some.injEq, Bool.false_eq_true, if_false] at hs; subst hs
        refine step_acq_write _ h hph hl ?_
        cases hk : kind br with
        | locked => exact .inl ⟨rfl, rfl⟩
        | buffered n => exact .inr ⟨by simp, rfl⟩
  | pre k br line =>
    simp only [hph] at hs
    split at hs
    · simp only [Option.some.injEq] at hs; subst hs
      exact step_preflush h hph
    · rename_i hnf
      split at hs
      · rename_i hgt
        simp only [Option.some.injEq] at hs; subst hs
        have hb0 : s.buf br = [] := by
          by_cases hb : s.buf br = []
          · exact hb
          · exact absurd ⟨hgt, hb⟩ hnf
        have := step_decide (direct := true) h hph (fun _ => hb0)
        simpa using this
      · simp only [Option.some.injEq] at hs; subst hs
        have := step_decide (direct := false) h hph (fun e => by cases e)
        simpa using this
  | emit k br line i =>
    simp only [hph] at hs
    cases hx : (s.pool k).data[i]? with
    | some x => simp only [hx, Option.some.injEq] at hs; subst hs; exact step_emitbyte h hph hx
    | none => simp only [hx, Option.some.injEq] at hs; subst hs; exact step_emitdone h hph hx
  | copy k br line i =>
    simp only [hph] at hs
    cases hx : (s.pool k).data[i]? with
    | some x => simp only [hx, Option.some.injEq] at hs; subst hs; exact step_copybyte h hph hx
    | none => simp only [hx, Option.some.injEq] at hs; subst hs; exact step_copydone h hph hx
  | fin k =>
    simp only [hph, Option.some.injEq, Bool.false_eq_true, if_false] at hs; subst hs
    exact step_fin h hph
  | flush br =>
    simp only [hph, Option.some.injEq] at hs; subst hs
    exact step_flush h hph

theorem run_inv (kind : Nat → Kind) (jobs : Nat → List Act) (sched : List (Nat × Nat)) :
    ∀ s, Inv kind jobs s → Inv kind jobs (run kind false s sched) := by
  induction sched with
  | nil => intro s h; exact h
  | cons tc ts ih =>
    intro s h
    obtain ⟨t, c⟩ := tc
    simp only [run]
    cases hs : step kind false s t c with
    | none => exact ih s h
    | some s' => exact ih s' (step_inv kind jobs s s' t c h hs)

/-! ### consequences -/

theorem finished_free {kind : Nat → Kind} {jobs : Nat → List Act} {s : St} (h : Inv kind jobs s) (hf : Finished s)
    (b : Nat) : s.lock b = none := by
  cases hl : s.lock b with
  | none => rfl
  | some t =>
    have := (h.brn b).hold t hl
    rw [(hf t).2] at this; simp [holds] at this

/-- at every moment, what goroutine t got into branch b is a prefix of what it is to send there, in its order -/
theorem proj_prefix {kind : Nat → Kind} {jobs : Nat → List Act} {s : St} (h : Inv kind jobs s) (t b : Nat) :
    proj t (s.hist b) <+: linesFor b (jobs t) := by
  have := (h.thr t).projq b
  exact ⟨pend b (s.thr t).ph ++ linesFor b (s.thr t).todo, by rw [← List.append_assoc]; exact this⟩

theorem finished_merge {kind : Nat → Kind} {jobs : Nat → List Act} {s : St} (h : Inv kind jobs s) (hf : Finished s)
    (b : Nat) : IsMergeOf (fun t => linesFor b (jobs t)) (wlines s b) := by
  refine ⟨s.hist b, rfl, fun t => ?_⟩
  have := (h.thr t).projq b
  rw [(hf t).1, (hf t).2] at this
  simpa [pend, linesFor] using this

theorem finished_quiet {kind : Nat → Kind} {jobs : Nat → List Act} {s : St} (h : Inv kind jobs s) (hf : Finished s)
    (b : Nat) : Quiet s b := (h.brn b).free (finished_free h hf b)

/-- a goroutine that is not scheduled does not move -/
theorem step_thr_other {kind : Nat → Kind} {early : Bool} {s s' : St} {t c u : Nat} (hs : step kind early s t c = some s')
    (hut : u ≠ t) : s'.thr u = s.thr u := by
  unfold step at hs
  cases hph : (s.thr t).ph with
  | idle =>
    simp only [hph] at hs
    cases htd : (s.thr t).todo with
    | nil => simp [htd] at hs
    | cons a rest =>
      cases a with
      | write br line =>
        simp only [htd] at hs
        split at hs
        · simp only [Option.some.injEq] at hs; subst hs; simp [upd_other _ _ _ _ hut]
        · cases hs
      | sync br =>
        simp only [htd] at hs
        split at hs
        · simp only [Option.some.injEq] at hs; subst hs; simp [upd_other _ _ _ _ hut]
        · cases hs
  | enc k br line rest =>
    simp only [hph] at hs
    cases rest with
    | cons x rest => simp only [Option.some.injEq] at hs; subst hs; simp [upd_other _ _ _ _ hut]
    | nil =>
      simp only at hs
      split at hs
      · cases hs
      · simp only [Option.some.injEq] at hs; subst hs; simp [upd_other _ _ _ _ hut]
  | pre k br line =>
    simp only [hph] at hs
    split at hs
    · simp only [Option.some.injEq] at hs; subst hs; rfl
    · split at hs <;> (simp only [Option.some.injEq] at hs; subst hs; simp [upd_other _ _ _ _ hut])
  | emit k br line i =>
    simp only [hph] at hs
    split at hs <;> (simp only [Option.some.injEq] at hs; subst hs; simp [upd_other _ _ _ _ hut])
  | copy k br line i =>
    simp only [hph] at hs
    split at hs <;> (simp only [Option.some.injEq] at hs; subst hs; simp [upd_other _ _ _ _ hut])
  | fin k => simp only [hph, Option.some.injEq] at hs; subst hs; simp [upd_other _ _ _ _ hut]
  | flush br => simp only [hph, Option.some.injEq] at hs; subst hs; simp [upd_other _ _ _ _ hut]

theorem run_thr_other {kind : Nat → Kind} {early : Bool} (u : Nat) (sched : List (Nat × Nat)) :
    ∀ s, (∀ tc ∈ sched, tc.1 ≠ u) → (run kind early s sched).thr u = s.thr u := by
  induction sched with
  | nil => intro s _; rfl
  | cons tc ts ih =>
    intro s hn
    obtain ⟨t, c⟩ := tc
    have ht : u ≠ t := fun e => hn (t, c) (by simp) e.symm
    have hts : ∀ tc ∈ ts, tc.1 ≠ u := fun tc htc => hn tc (List.mem_cons_of_mem _ htc)
    simp only [run]
    cases hs : step kind early s t c with
    | none => exact ih s hts
    | some s' => simp only []; rw [ih s' hts, step_thr_other hs ht]

/-! ### tee programs -/

theorem linesFor_append (b : Nat) (p q : List Act) : linesFor b (p ++ q) = linesFor b p ++ linesFor b q := by
  induction p with
  | nil => rfl
  | cons a r ih =>
    cases a with
    | write br l => by_cases hb : br = b <;> simp [linesFor, hb, ih]
    | sync br => simp [linesFor, ih]

theorem linesFor_teeCall_ge (enc : Nat → Bytes) (b : Nat) : ∀ B, B ≤ b → linesFor b (teeCall B enc) = []
  | 0, _ => rfl
  | B + 1, h => by
    have ih := linesFor_teeCall_ge enc b B (by omega)
    have hne : B ≠ b := by omega
    simp only [teeCall, List.range_succ, List.map_append, linesFor_append] at ih ⊢
    simp [ih, linesFor, hne]

theorem linesFor_teeCall_lt (enc : Nat → Bytes) (b : Nat) : ∀ B, b < B → linesFor b (teeCall B enc) = [enc b]
  | 0, h => by omega
  | B + 1, h => by
    simp only [teeCall, List.range_succ, List.map_append, linesFor_append]
    by_cases hb : b = B
    · subst hb
      have := linesFor_teeCall_ge enc b b (Nat.le_refl _)
      simp only [teeCall] at this
      simp [this, linesFor]
    · have ih := linesFor_teeCall_lt enc b B (by omega)
      have hne : B ≠ b := fun e => hb e.symm
      simp only [teeCall] at ih
      simp [ih, linesFor, hne]

theorem linesFor_teeProg (B b : Nat) (hb : b < B) : ∀ es : List (Nat → Bytes), linesFor b (teeProg B es) = es.map (· b)
  | [] => rfl
  | e :: es => by
    have ih := linesFor_teeProg B b hb es
    simp only [teeProg, List.flatMap_cons, linesFor_append] at ih ⊢
    rw [linesFor_teeCall_lt e b B hb, ih]; rfl

/-! ### from merges to the executable acceptance predicate -/

theorem cutAux_proper : ∀ (bs acc : Bytes) (ls : List Bytes), (10 : UInt8) ∉ acc → cutAux bs acc = some ls →
    (∀ l ∈ ls.drop 1, Proper l) ∧ (∀ l, ls.head? = some l → ∃ body, l = acc ++ body ++ [10] ∧ (10 : UInt8) ∉ body)
  | [], [], ls, _, h => by simp [cutAux] at h; subst h; simp
  | [], _ :: _, ls, _, h => by simp [cutAux] at h
  | b :: bs, acc, ls, hacc, h => by
    simp only [cutAux] at h
    split at h
    · rename_i hb
      cases hc : cutAux bs [] with
      | none => simp [hc] at h
      | some ls' =>
        simp [hc] at h; subst h
        obtain ⟨h1, h2⟩ := cutAux_proper bs [] ls' (by simp) hc
        refine ⟨?_, ?_⟩
        · intro l hl
          simp only [List.drop_succ_cons, List.drop_zero] at hl
          cases ls' with
          | nil => cases hl
          | cons x r =>
            rcases List.mem_cons.mp hl with rfl | hr
            · obtain ⟨body, hb1, hb2⟩ := h2 l rfl; exact ⟨body, by simpa using hb1, hb2⟩
            · exact h1 l (by simpa using hr)
        · intro l hl; simp at hl; subst hl; exact ⟨[], by simp [hb], by simp⟩
    · rename_i hb
      have hacc' : (10 : UInt8) ∉ acc ++ [b] := by
        simp only [List.mem_append, List.mem_singleton, not_or]; exact ⟨hacc, fun e => hb e.symm⟩
      obtain ⟨h1, h2⟩ := cutAux_proper bs (acc ++ [b]) ls hacc' h
      refine ⟨h1, ?_⟩
      intro l hl
      obtain ⟨body, hb1, hb2⟩ := h2 l hl
      refine ⟨b :: body, by simpa [List.append_assoc] using hb1, ?_⟩
      simp only [List.mem_cons, not_or]; exact ⟨fun e => hb e.symm, hb2⟩

/-- the pieces `cut` produces are proper lines (one trailing '\n', no other) and concatenate to the input -/
theorem cut_sound (bs : Bytes) (ls : List Bytes) (h : cut bs = some ls) : bs = ls.flatten ∧ ∀ l ∈ ls, Proper l := by
  refine ⟨by simpa using cutAux_sound bs [] ls h, ?_⟩
  obtain ⟨h1, h2⟩ := cutAux_proper bs [] ls (by simp) h
  intro l hl
  cases ls with
  | nil => cases hl
  | cons x r =>
    rcases List.mem_cons.mp hl with rfl | hr
    · obtain ⟨body, hb1, hb2⟩ := h2 l rfl; exact ⟨body, by simpa using hb1, hb2⟩
    · exact h1 l (by simpa using hr)

theorem isMergeOf_mem {per : Nat → List Bytes} {ls : List Bytes} (hm : IsMergeOf per ls) {l : Bytes} (hl : l ∈ ls) :
    ∃ t, l ∈ per t := by
  obtain ⟨hist, hmap, hproj⟩ := hm
  rw [← hmap] at hl
  obtain ⟨⟨t, l'⟩, hmem, rfl⟩ := List.mem_map.mp hl
  refine ⟨t, ?_⟩
  have := hproj t
  rw [← this]
  exact List.mem_map.mpr ⟨(t, l'), List.mem_filter.mpr ⟨hmem, by simp⟩, rfl⟩

theorem map_flatten_flatten {α} (groups : List (List (List α))) :
    (groups.map List.flatten).flatten = groups.flatten.flatten := by
  induction groups with
  | nil => rfl
  | cons g r ih => simp [List.flatten_append, ih]

theorem run_append (kind : Nat → Kind) (early : Bool) (a b : List (Nat × Nat)) :
    ∀ s, run kind early s (a ++ b) = run kind early (run kind early s a) b := by
  induction a with
  | nil => intro s; rfl
  | cons tc ts ih =>
    intro s
    obtain ⟨t, x⟩ := tc
    simp only [List.cons_append, run]
    cases step kind early s t x with
    | none => exact ih s
    | some s' => exact ih s'

theorem cut_single (l : Bytes) (h : Proper l) : cut l = some [l] := by
  have := cut_flatten [l] (fun x hx => by simp at hx; subst hx; exact h)
  simpa using this

/-- the per-goroutine lists of N goroutines as the list the executable check takes -/
def perList (N : Nat) (per : Nat → List Bytes) : List (List Bytes) := (List.range N).map per

theorem perList_getD (N : Nat) (per : Nat → List Bytes) (hN : ∀ t, N ≤ t → per t = []) (t : Nat) :
    (perList N per).getD t [] = per t := by
  by_cases ht : t < N
  · simp [perList, List.getD_eq_getElem?_getD, ht]
  · simp [perList, List.getD_eq_getElem?_getD, ht, hN t (by omega)]

theorem merge_validMerge (N : Nat) (per : Nat → List Bytes) (hN : ∀ t, N ≤ t → per t = []) (ls : List Bytes)
    (hm : IsMergeOf per ls) (hp : ∀ l ∈ ls, Proper l) : validMerge (perList N per) ls.flatten = true := by
  obtain ⟨hist, hmap, hproj⟩ := hm
  simp only [validMerge, cut_flatten ls hp]
  rw [← hmap]
  exact isMerge_complete hist _ (fun t => by rw [perList_getD N per hN, hproj t])

/-- the closing `Sync()` / `Stop()` of the main goroutine after all loggers have returned: two steps (Lock; Flush,
    Unlock) and the bufio buffer of that branch is empty -/
theorem final_sync_drains {kind : Nat → Kind} {jobs : Nat → List Act} {s : St} (h : Inv kind jobs s) (m b c c' : Nat)
    (hm : (s.thr m).todo = [.sync b] ∧ (s.thr m).ph = .idle)
    (ho : ∀ t, t ≠ m → (s.thr t).todo = [] ∧ (s.thr t).ph = .idle) :
    Finished (run kind false s [(m, c), (m, c')]) ∧ (run kind false s [(m, c), (m, c')]).buf b = [] := by
  have hl : s.lock b = none := by
    cases hl : s.lock b with
    | none => rfl
    | some t =>
      have := (h.brn b).hold t hl
      by_cases ht : t = m
      · subst ht; rw [hm.2] at this; simp [holds] at this
      · rw [(ho t ht).2] at this; simp [holds] at this
  have h1 : step kind false s m c =
      some { s with thr := upd s.thr m { todo := [], ph := .flush b }, lock := upd s.lock b (some m) } := by
    unfold step; simp [hm.1, hm.2, hl]
  simp only [run, h1]
  have h2 : step kind false { s with thr := upd s.thr m { todo := [], ph := .flush b }, lock := upd s.lock b (some m) } m c' =
      some { s with thr := upd (upd s.thr m { todo := [], ph := .flush b }) m { todo := [], ph := .idle },
                    calls := if s.buf b = [] then s.calls else upd s.calls b (s.calls b ++ [s.buf b]),
                    buf := upd s.buf b [], lock := upd (upd s.lock b (some m)) b none } := by
    unfold step; simp
  simp only [h2]
  refine ⟨fun t => ?_, by simp⟩
  by_cases ht : t = m
  · subst ht; simp
  · simpa [upd_other _ _ _ _ ht] using ho t ht

/-! ### progress -/

/-- the branch whose mutex a goroutine needs for its next step, if that step is an acquisition -/
def wants (th : Thr) : Option Nat :=
  match th.ph, th.todo with
  | .idle, .sync b :: _ => some b
  | .enc _ b _ [], _ => some b
  | _, _ => none

/-- a goroutine inside a critical section is never blocked (no nested locks, no waiting under the mutex) -/
theorem holder_can_step {kind : Nat → Kind} {jobs : Nat → List Act} {s : St} (h : Inv kind jobs s) {b u : Nat}
    (hl : s.lock b = some u) (c : Nat) : (step kind false s u c).isSome = true := by
  have hh := (h.brn b).hold u hl
  unfold step
  cases hph : (s.thr u).ph with
  | idle => rw [hph] at hh; simp [holds] at hh
  | enc k br line rest => rw [hph] at hh; simp [holds] at hh
  | fin k => rw [hph] at hh; simp [holds] at hh
  | pre k br line => simp only [hph]; split <;> (try split) <;> rfl
  | emit k br line i => simp only [hph]; split <;> rfl
  | copy k br line i => simp only [hph]; split <;> rfl
  | flush br => simp only [hph]; rfl

/-- a goroutine that cannot step is finished, or waits for a mutex somebody holds, or is at `Get` and the pool does
    not hand out buffer c -/
theorem blocked_cases {kind : Nat → Kind} {s : St} {t c : Nat} (hs : step kind false s t c = none) :
    ((s.thr t).todo = [] ∧ (s.thr t).ph = .idle) ∨
    (∃ b u, wants (s.thr t) = some b ∧ s.lock b = some u) ∨
    ((s.thr t).ph = .idle ∧ (∃ br line rest, (s.thr t).todo = .write br line :: rest) ∧ (s.pool c).owner ≠ none) := by
  unfold step at hs
  cases hph : (s.thr t).ph with
  | idle =>
    simp only [hph] at hs
    cases htd : (s.thr t).todo with
    | nil => exact .inl ⟨rfl, rfl⟩
    | cons a rest =>
      cases a with
      | write br line =>
        simp only [htd] at hs
        split at hs
        · cases hs
        · rename_i hc; exact .inr (.inr ⟨rfl, ⟨br, line, rest, rfl⟩, hc⟩)
      | sync br =>
        simp only [htd] at hs
        cases hl : s.lock br with
        | none => simp [hl] at hs
        | some u => exact .inr (.inl ⟨br, u, by simp [wants, hph, htd], hl⟩)
  | enc k br line rest =>
    simp only [hph] at hs
    cases rest with
    | cons x r => cases hs
    | nil =>
      cases hl : s.lock br with
      | none => simp [hl] at hs
      | some u => exact .inr (.inl ⟨br, u, by simp [wants, hph], hl⟩)
  | pre k br line => simp only [hph] at hs; split at hs <;> (try split at hs) <;> cases hs
  | emit k br line i => simp only [hph] at hs; split at hs <;> cases hs
  | copy k br line i => simp only [hph] at hs; split at hs <;> cases hs
  | fin k => simp only [hph] at hs; cases hs
  | flush br => simp only [hph] at hs; cases hs

/-! ### a concrete finished run (non-vacuity witness used by Props/C04): tee of a Lock(sink) and a 5-byte
    BufferedWriteSyncer, a 6-byte line, a goroutine issuing the closing Syncs -/

def exKind : Nat → Kind := fun b => if b = 0 then .locked else .buffered 5
def exJobs : Nat → List Act := fun t =>
  if t = 0 then teeProg 2 [fun _ => [97, 10], fun _ => [98, 99, 100, 101, 102, 10], fun _ => [103, 10]]
  else if t = 1 then teeProg 2 [fun _ => [120, 10]]
  else if t = 2 then [.sync 0, .sync 1] else []
def exSched : List (Nat × Nat) :=
  ((List.range 70).flatMap fun _ => [(0, 0), (1, 1)]) ++ [(2, 0), (2, 0), (2, 0), (2, 0)]

set_option maxRecDepth 8000 in
theorem exSched_threads : exSched.all (fun tc => tc.1 < 3) = true := by decide

theorem ex_finished : Finished (run exKind false (init exJobs) exSched) := by
  intro t
  by_cases h0 : t = 0
  · subst h0; exact ⟨by decide, by decide⟩
  · by_cases h1 : t = 1
    · subst h1; exact ⟨by decide, by decide⟩
    · by_cases h2 : t = 2
      · subst h2; exact ⟨by decide, by decide⟩
      · have : (run exKind false (init exJobs) exSched).thr t = (init exJobs).thr t :=
          run_thr_other t exSched _ (by
            intro tc htc
            have := List.all_eq_true.mp exSched_threads tc htc
            simp at this; omega)
        rw [this]; simp [init, exJobs, h0, h1, h2]

end ZapVerif.TeeBws
