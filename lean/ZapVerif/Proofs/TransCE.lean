import ZapVerif.Proofs.GoMini
import ZapVerif.Model.TransCEX
import ZapVerif.Model.Deliver
/-! Lookup facts for the `…_matches_source` theorems of Props/C10.lean and Props/C06.lean about Gen/TransCE.lean, and
    the reading of a `Write` trace as `Deliver.DEv` events.  Nothing here depends on the generated terms. -/
set_option linter.unusedSimpArgs false
namespace ZapVerif.TransCE
open ZapVerif ZapVerif.GoMini ZapVerif.Gen.TransCE

@[simp] theorem X_funs : X.funs = funs := id rfl
@[simp] theorem X_ext : X.ext = ext := id rfl
@[simp] theorem ext_coreWrite (i : Val) (errs : List Val) (e f : Val) :
    ext "Core.Write" [.list [i, .list errs], e, f] = some [.list errs] := id rfl
@[simp] theorem ext_coreWrite' (c : Nat × List Val) (e f : Val) :
    ext "Core.Write" [coreOf c, e, f] = some [.list c.2] := id rfl
@[simp] theorem ext_fprintf (w : Val) (r : List Val) : ext "fmt.Fprintf" (w :: r) = some [.int 0, .list []] := id rfl
@[simp] theorem ext_sync (w : Val) : ext "ErrorOutput.Sync" [w] = some [.list []] := id rfl
@[simp] theorem ext_hook (h s f : Val) : ext "hook.OnWrite" [h, s, f] = some [] := id rfl
@[simp] theorem ext_put (s : Val) : ext "putCheckedEntry" [s] = some [] := id rfl

theorem nm_coreWrite : nm "Core.Write" = .bytes [67, 111, 114, 101, 46, 87, 114, 105, 116, 101] :=
  congrArg Val.bytes (by decide +kernel)
theorem nm_fprintf : nm "fmt.Fprintf" = .bytes [102, 109, 116, 46, 70, 112, 114, 105, 110, 116, 102] :=
  congrArg Val.bytes (by decide +kernel)
theorem nm_sync : nm "ErrorOutput.Sync" = .bytes [69, 114, 114, 111, 114, 79, 117, 116, 112, 117, 116, 46, 83, 121, 110, 99] :=
  congrArg Val.bytes (by decide +kernel)
theorem nm_hook : nm "hook.OnWrite" = .bytes [104, 111, 111, 107, 46, 79, 110, 87, 114, 105, 116, 101] :=
  congrArg Val.bytes (by decide +kernel)
theorem nm_put : nm "putCheckedEntry" = .bytes [112, 117, 116, 67, 104, 101, 99, 107, 101, 100, 69, 110, 116, 114, 121] :=
  congrArg Val.bytes (by decide +kernel)
theorem nm_errfmt : nm "%v write error: %v\n" =
    .bytes [37, 118, 32, 119, 114, 105, 116, 101, 32, 101, 114, 114, 111, 114, 58, 32, 37, 118, 10] :=
  congrArg Val.bytes (by decide +kernel)

theorem nm_reusefmt : nm "%v Unsafe CheckedEntry re-use near Entry %+v.\n" =
    .bytes [37, 118, 32, 85, 110, 115, 97, 102, 101, 32, 67, 104, 101, 99, 107, 101, 100, 69, 110, 116, 114, 121, 32, 114,
      101, 45, 117, 115, 101, 32, 110, 101, 97, 114, 32, 69, 110, 116, 114, 121, 32, 37, 43, 118, 46, 10] :=
  congrArg Val.bytes (by decide +kernel)

/-- what `CheckedEntry.Write` must have recorded for cores `cs` (id, errors), in order -/
def expected (cs : List (Nat × List Val)) (eo after : List Val) (time entry self fs : Val) : List Val :=
  cs.map (fun c => evCore (coreOf c) entry fs)
    ++ (if cs.flatMap (·.2) ≠ [] ∧ eo ≠ [] then [evErrLine eo time (cs.flatMap (·.2)), evErrSync eo] else [])
    ++ (if after ≠ [] then [evHook after self fs] else [])
    ++ [evPut self]

end ZapVerif.TransCE
