import ZapVerif.Proofs.GoMini
import ZapVerif.Model.TransCallerX
/-! Lookup facts and list lemmas for the `…_matches_source` theorems of Props/C15.lean about Gen/TransCaller.lean. -/
set_option linter.unusedSimpArgs false
namespace ZapVerif.TransCaller
open ZapVerif ZapVerif.GoMini ZapVerif.Callers ZapVerif.Gen.TransCaller

@[simp] theorem X_funs : X.funs = funs := id rfl
@[simp] theorem X_ext : X.ext = ext := id rfl
@[simp] theorem ext_appendInt (b : Bytes) (n : Int) :
    ext "Buffer.AppendInt" [.bytes b, .int n] = some [.bytes (b ++ itoa n.toNat)] := id rfl
@[simp] theorem bi_appendInt (a : List Val) : builtin "Buffer.AppendInt" a = none := builtin_none _ _ (by decide)

/-- GoMini's `strings.LastIndexByte` is the model's `lastIndexOf` -/
theorem lastIndexByte_eq (c : UInt8) (s : Bytes) :
    lastIndexByte s c = match lastIndexOf c s with | some i => (i : Int) | none => -1 := by
  induction s with
  | nil => rfl
  | cons b r ih =>
    simp only [lastIndexByte, lastIndexOf, ih]
    cases lastIndexOf c r with
    | some i => simp
    | none =>
      by_cases h : b = c
      · simp [h]
      · simp [h]

theorem lastIndexOf_lt (c : UInt8) (s : Bytes) (i : Nat) (h : lastIndexOf c s = some i) : i < s.length := by
  induction s generalizing i with
  | nil => simp [lastIndexOf] at h
  | cons b r ih =>
    simp only [lastIndexOf] at h
    cases hr : lastIndexOf c r with
    | some j => rw [hr] at h; simp at h; have := ih j hr; simp; omega
    | none => rw [hr] at h; by_cases hb : b = c <;> simp [hb] at h; simp; omega

end ZapVerif.TransCaller
