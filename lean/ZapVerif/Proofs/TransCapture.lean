import ZapVerif.Proofs.GoMini
import ZapVerif.Model.TransCaptureX
/-! Lookup facts for `Capture_matches_source` (Props/C15.lean) about Gen/TransCapture.lean.  Nothing here depends on
    the generated term. -/
set_option linter.unusedSimpArgs false
namespace ZapVerif.TransCapture
open ZapVerif ZapVerif.GoMini ZapVerif.Gen.TransCapture

@[simp] theorem X_funs (P : Par) : (X P).funs = funs := id rfl
@[simp] theorem X_ext (P : Par) : (X P).ext = ext P := id rfl
@[simp] theorem ext_callers (P : Par) (skip : Int) (pcs : List Val) :
    ext P "runtime.Callers" [.int skip, .list pcs] =
      some [.list (callersV P.st skip pcs).1, .int (callersV P.st skip pcs).2] := id rfl
@[simp] theorem ext_frames (P : Par) (pcs : Val) : ext P "runtime.CallersFrames" [pcs] = some [framesV pcs] := id rfl
theorem ext_zeros (P : Par) (n : Nat) :
    ext P "make.zeros" [.int (n : Int)] = some [.list (List.replicate n (.int 0))] := by
  simp [ext]
@[simp] theorem bi_frames (a : List Val) : builtin "runtime.CallersFrames" a = none := builtin_none _ _ (by decide)
@[simp] theorem bi_zeros (a : List Val) : builtin "make.zeros" a = none := builtin_none _ _ (by decide)

end ZapVerif.TransCapture
