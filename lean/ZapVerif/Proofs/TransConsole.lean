import ZapVerif.Proofs.GoMini
import ZapVerif.Proofs.TransJsonEnc
import ZapVerif.Model.TransConsoleX
/-! Lookup facts for the `…_matches_source` theorems of Props/C16.lean about Gen/TransConsole.lean.  Nothing here
    depends on the generated terms. -/
set_option linter.unusedSimpArgs false
namespace ZapVerif.TransConsole
open ZapVerif ZapVerif.GoMini ZapVerif.Enc ZapVerif.Gen.TransConsole
open ZapVerif.TransJsonEnc (St closeNs ECfg EEnt)

@[simp] theorem X_funs (P : Par) : (X P).funs = funs := id rfl
@[simp] theorem X_ext (P : Par) : (X P).ext = ext P := id rfl
@[simp] theorem ext_get (P : Par) : ext P "bufferpool.Get" [] = some [.bytes []] := id rfl
@[simp] theorem ext_getSlice (P : Par) : ext P "getSliceEncoder" [] = some [arrV []] := id rfl
@[simp] theorem ext_putSlice (P : Par) (v : Val) : ext P "putSliceEncoder" [v] = some [] := id rfl
@[simp] theorem ext_colTime (P : Par) (f : List Val) (t : Val) (es : List Val) :
    ext P "TimeEncoder.col" [.list f, t, arrV es] = some [arrV (P.colTime f t es)] := id rfl
@[simp] theorem ext_colLevel (P : Par) (f : List Val) (l : Val) (es : List Val) :
    ext P "LevelEncoder.col" [.list f, l, arrV es] = some [arrV (P.colLevel f l es)] := id rfl
@[simp] theorem ext_colName (P : Par) (f : List Val) (n : Val) (es : List Val) :
    ext P "NameEncoder.col" [.list f, n, arrV es] = some [arrV (P.colName f n es)] := id rfl
@[simp] theorem ext_colCaller (P : Par) (f : List Val) (c : Val) (es : List Val) :
    ext P "CallerEncoder.col" [.list f, c, arrV es] = some [arrV (P.colCaller f c es)] := id rfl
@[simp] theorem ext_sliceAppend (P : Par) (es : List Val) (s : Bytes) :
    ext P "SliceEnc.AppendString" [arrV es, .bytes s] = some [arrV (es ++ [.bytes s])] := id rfl
@[simp] theorem ext_fprint (P : Par) (line : Bytes) (v : Val) :
    ext P "fmt.Fprint" [.bytes line, v] = some [.bytes (line ++ P.text v), .int (P.text v).length, .list []] := id rfl
@[simp] theorem ext_isZero (P : Par) (t : Val) : ext P "Time.IsZero" [t] = some [.bool (P.timeIsZero t)] := id rfl
@[simp] theorem ext_Clone (P : Par) (ob : Bytes) (osp : Bool) (ons : Int) :
    ext P "jsonEncoder.Clone" [.bytes ob, .bool osp, .int ons] = some [.bytes ob, .bool osp, .int ons, .list [], .list []] := id rfl
@[simp] theorem ext_addFields (P : Par) (b : Bytes) (n : Int) (rb re : List Val) (sp : Bool) (self fs : Val) :
    ext P "addFields" [.bytes b, .int n, .list rb, .list re, .bool sp, self, fs] =
      some [.bytes (P.addFields fs sp ⟨b, n, rb, re⟩).buf, .int (P.addFields fs sp ⟨b, n, rb, re⟩).ns,
        .list (P.addFields fs sp ⟨b, n, rb, re⟩).rbuf, .list (P.addFields fs sp ⟨b, n, rb, re⟩).renc] := id rfl
@[simp] theorem ext_closeNs (P : Par) (b : Bytes) (n : Int) :
    ext P "closeOpenNamespaces" [.bytes b, .int n] = some [.bytes (closeNs b n), .int 0] := id rfl
@[simp] theorem ext_free (P : Par) (v : Val) : ext P "Buffer.Free" [v] = some [] := id rfl
@[simp] theorem ext_put (P : Par) (a b : Val) : ext P "putJSONEncoder" [a, b] = some [] := id rfl
@[simp] theorem bi_isZero (a : List Val) : builtin "Time.IsZero" a = none := builtin_none _ _ (by decide)
@[simp] theorem bi_sliceAppend (a : List Val) : builtin "SliceEnc.AppendString" a = none := builtin_none _ _ (by decide)

@[simp] theorem idx_arrV (es : List Val) : indexVal (arrV es) (.int 0) = .ok (.list es) := id rfl

theorem indexVal_list_get (all : List Val) (i : Nat) (y : Val) (h : all[i]? = some y) :
    indexVal (.list all) (.int i) = .ok y := by
  have := indexVal_list_map (fun v : Val => v) all i y h
  simpa using this

/-- loop variables the body leaves behind: `nameEncoder` (l2), the range index (l3) -/
inductive CJ where
  | n
  | a (v : Val)
  | b (w : Val)
  | ab (v w : Val)

def CJ.env : CJ → Env
  | .n => []
  | .a v => [("l2", v)]
  | .b w => [("l3", w)]
  | .ab v w => [("l2", v), ("l3", w)]

def CJ.setA (v : Val) : CJ → CJ
  | .n => .a v
  | .a _ => .a v
  | .b w => .ab v w
  | .ab _ w => .ab v w

def CJ.setB (w : Val) : CJ → CJ
  | .n => .b w
  | .a v => .ab v w
  | .b _ => .b w
  | .ab v _ => .ab v w

/-- the locals of `EncodeEntry`: entry, fields, the line, the slice encoder, leftovers -/
def cLoc (e : EEnt) (fields : Val) (line : Bytes) (es : List Val) (j : CJ) : Env :=
  [("p0", e.val), ("p1", fields), ("l0", .bytes line), ("l1", arrV es)] ++ j.env

/-- one iteration of the printing loop -/
def printStep (P : Par) (sepc : Bytes) (a : Bytes × CJ) (i : Nat) (y : Val) : Bytes × CJ :=
  ((if i > 0 then a.1 ++ sepc else a.1) ++ P.text y, a.2.setB (.int i))

theorem printFold_fst (P : Par) (sepc : Bytes) : ∀ (ys : List (Val × Nat)) (a : Bytes × CJ),
    (ys.foldl (fun a p => printStep P sepc a p.2 p.1) a).1 = joinCols P sepc a.1 ys
  | [], a => rfl
  | p :: ys, a => by
    simp only [List.foldl_cons, joinCols]
    rw [printFold_fst P sepc ys]
    simp [printStep, joinCols]

theorem nm_get : nm "bufferpool.Get" = .bytes [98, 117, 102, 102, 101, 114, 112, 111, 111, 108, 46, 71, 101, 116] :=
  congrArg Val.bytes (by decide +kernel)
theorem nm_getSlice : nm "getSliceEncoder" = .bytes [103, 101, 116, 83, 108, 105, 99, 101, 69, 110, 99, 111, 100, 101, 114] :=
  congrArg Val.bytes (by decide +kernel)
theorem nm_putSlice : nm "putSliceEncoder" = .bytes [112, 117, 116, 83, 108, 105, 99, 101, 69, 110, 99, 111, 100, 101, 114] :=
  congrArg Val.bytes (by decide +kernel)
theorem nm_Clone : nm "jsonEncoder.Clone" = .bytes [106, 115, 111, 110, 69, 110, 99, 111, 100, 101, 114, 46, 67, 108, 111, 110, 101] :=
  congrArg Val.bytes (by decide +kernel)
theorem nm_free : nm "Buffer.Free" = .bytes [66, 117, 102, 102, 101, 114, 46, 70, 114, 101, 101] :=
  congrArg Val.bytes (by decide +kernel)
theorem nm_put : nm "putJSONEncoder" = .bytes [112, 117, 116, 74, 83, 79, 78, 69, 110, 99, 111, 100, 101, 114] :=
  congrArg Val.bytes (by decide +kernel)

end ZapVerif.TransConsole
