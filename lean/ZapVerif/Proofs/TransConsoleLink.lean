import ZapVerif.Proofs.TransConsole
import ZapVerif.Model.Console
/-! `TransConsole.consoleBytes` — what the interpreted console `EncodeEntry` computes (Props/C16.lean) — is
    `Console.consoleLine`, the function the C16 theorems are stated over, whenever the sub-encoders append to the slice
    encoder what the model's `Cols` say and `addFields` does on the scratch encoder what the model's call trees say.
    Nothing here depends on the generated terms. -/
set_option linter.unusedSimpArgs false
namespace ZapVerif.TransConsole
open ZapVerif ZapVerif.GoMini ZapVerif.Enc ZapVerif.Entry ZapVerif.Console
open ZapVerif.TransJsonEnc (St closeNs ECfg EEnt)

def colsV (l : List Bytes) : List Val := l.map Val.bytes

/-- the tail of the printing loop: every further element is preceded by the separator -/
theorem joinCols_succ (P : Par) (ht : ∀ t : Bytes, P.text (.bytes t) = t) (sepc : Bytes) :
    ∀ (xs : List Bytes) (i : Nat) (line : Bytes),
      joinCols P sepc line ((colsV xs).zipIdx (i + 1)) = line ++ (xs.map (sepc ++ ·)).flatten
  | [], _, line => by simp [joinCols, colsV]
  | x :: xs, i, line => by
    have := joinCols_succ P ht sepc xs (i + 1) (line ++ sepc ++ x)
    simp only [colsV, List.map_cons, List.zipIdx_cons, joinCols, List.foldl_cons] at this ⊢
    simp only [ht, Nat.succ_pos, gt_iff_lt, if_true, Nat.zero_lt_succ]
    rw [this]; simp [List.append_assoc]

theorem joinSep_eq (sepc : Bytes) : ∀ (x : Bytes) (xs : List Bytes), joinSep sepc (x :: xs) = x ++ (xs.map (sepc ++ ·)).flatten
  | x, [] => by simp [joinSep]
  | x, y :: r => by simp [joinSep, joinSep_eq sepc y r, List.append_assoc]

theorem joinCols_eq (P : Par) (ht : ∀ t : Bytes, P.text (.bytes t) = t) (sepc : Bytes) (xs : List Bytes) :
    joinCols P sepc [] ((colsV xs).zipIdx) = joinSep sepc xs := by
  cases xs with
  | nil => simp [joinCols, colsV, joinSep]
  | cons x r =>
    have h := joinCols_succ P ht sepc r 0 x
    simp only [colsV, List.map_cons, List.zipIdx_cons, joinCols, List.foldl_cons] at h ⊢
    simp only [ht, gt_iff_lt, Nat.lt_irrefl, if_false, List.nil_append, Nat.zero_add]
    rw [h, joinSep_eq]

/-- how configuration, entry and parameters correspond to the model's `Cfg` / `Ent` / `Cols` -/
structure ConsoleLink (P : Par) (c : ECfg) (e : EEnt) (cfg : Cfg) (ent : Ent) (k : Cols) : Prop where
  timeKey : c.timeKey = cfg.timeKey
  levelKey : c.levelKey = cfg.levelKey
  nameKey : c.nameKey = cfg.nameKey
  callerKey : c.callerKey = cfg.callerKey
  functionKey : c.functionKey = cfg.functionKey
  messageKey : c.messageKey = cfg.messageKey
  stacktraceKey : c.stacktraceKey = cfg.stacktraceKey
  lineEnding : c.lineEnding = cfg.ending
  name : e.name = ent.name
  message : e.message = ent.message
  function : e.function = ent.function
  stack : e.stack = ent.stack
  defined : e.callerDefined = ent.callerDefined
  text : ∀ t : Bytes, P.text (.bytes t) = t
  timeZero : P.timeIsZero e.time = ent.time.isNone
  timeNil : c.encTime.isEmpty → k.time = none
  timeCol : ∀ es, P.colTime c.encTime e.time es = es ++ colsV (optL k.time)
  levelNil : c.encLevel.isEmpty → k.level = none
  levelCol : ∀ es, P.colLevel c.encLevel (.int e.level) es = es ++ colsV (optL k.level)
  nameCol : ∀ es, P.colName (TransJsonEnc.nameFn c) (.bytes e.name) es = es ++ colsV (optL k.name)
  callerNil : c.encCaller.isEmpty → k.caller = none
  callerCol : ∀ es, P.colCaller c.encCaller e.caller es = es ++ colsV (optL k.caller)

theorem elems_eq (P : Par) (c : ECfg) (e : EEnt) (cfg : Cfg) (ent : Ent) (k : Cols) (L : ConsoleLink P c e cfg ent k) :
    elems P c e = colsV (columns cfg ent k) := by
  unfold elems columns
  have h1 : timeCol P c e [] = colsV (if !cfg.timeKey.isEmpty && ent.time.isSome then optL k.time else []) := by
    unfold TransConsole.timeCol
    rw [L.timeKey, L.timeZero]
    cases hf : c.encTime.isEmpty with
    | true =>
      have hn := L.timeNil hf
      cases hk : cfg.timeKey.isEmpty <;> cases ht : ent.time <;> simp [colsV, hn, optL]
    | false =>
      cases hk : cfg.timeKey.isEmpty <;> cases ht : ent.time <;> simp [colsV, L.timeCol, optL]
  have h2 : ∀ es, levelCol P c e es = es ++ colsV (if !cfg.levelKey.isEmpty then optL k.level else []) := by
    intro es
    unfold TransConsole.levelCol
    rw [L.levelKey]
    cases hf : c.encLevel.isEmpty with
    | true =>
      have hn := L.levelNil hf
      cases hk : cfg.levelKey.isEmpty <;> simp [colsV, hn, optL]
    | false => cases hk : cfg.levelKey.isEmpty <;> simp [colsV, L.levelCol, optL]
  have h3 : ∀ es, nameCol P c e es = es ++ colsV (if !ent.name.isEmpty && !cfg.nameKey.isEmpty then optL k.name else []) := by
    intro es
    unfold TransConsole.nameCol
    rw [L.nameKey]
    have hn := L.name
    have hc := L.nameCol es
    rw [hn] at hc
    cases hk : cfg.nameKey.isEmpty <;> cases hne : ent.name.isEmpty <;> simp [hn, hne, colsV, hc]
  have h4 : ∀ es, callerCol P c e es = es ++ colsV (if ent.callerDefined then
      (if !cfg.callerKey.isEmpty then optL k.caller else []) ++ (if !cfg.functionKey.isEmpty then [ent.function] else [])
      else []) := by
    intro es
    unfold TransConsole.callerCol
    rw [L.defined, L.callerKey, L.functionKey, L.function]
    cases hd : ent.callerDefined
    · simp [colsV]
    · cases hf : c.encCaller.isEmpty with
      | true =>
        have hn := L.callerNil hf
        cases hk : cfg.callerKey.isEmpty <;> cases hfk : cfg.functionKey.isEmpty <;> simp [colsV, hn, optL]
      | false =>
        cases hk : cfg.callerKey.isEmpty <;> cases hfk : cfg.functionKey.isEmpty <;> simp [colsV, L.callerCol, optL]
  rw [h1, h2, h3, h4]
  simp [colsV, List.map_append, List.append_assoc]

/-- **consoleBytes_is_consoleLine** -/
theorem consoleBytes_is_consoleLine (P : Par) (c : ECfg) (e : EEnt) (cfg : Cfg) (ent : Ent) (k : Cols)
    (L : ConsoleLink P c e cfg ent k) (sepRaw : Bytes) (ctx : List (List Field)) (fields : List Field) (fv : Val)
    (hf : ∀ (b : Bytes) (n : Nat), (P.addFields fv true ⟨b, n, [], []⟩).buf = (runO true ⟨b, n⟩ (addFields fields)).buf ∧
      (P.addFields fv true ⟨b, n, [], []⟩).ns = ((runO true ⟨b, n⟩ (addFields fields)).openNs : Int)) :
    consoleBytes P c (if sepRaw.isEmpty then [9] else sepRaw) (ctxEnc true ctx).buf true (ctxEnc true ctx).openNs e fv =
      consoleLine cfg sepRaw ent k ctx fields := by
  unfold consoleBytes consoleLine
  have hcb : ctxBytes P (ctxEnc true ctx).buf true (ctxEnc true ctx).openNs fv = contextBytes ctx fields := by
    unfold ctxBytes ctxSt contextBytes closeNs
    obtain ⟨h1, h2⟩ := hf (ctxEnc true ctx).buf (ctxEnc true ctx).openNs
    rw [h1, h2]; simp
  simp only [elems_eq P c e cfg ent k L, joinCols_eq P L.text]
  unfold writeContextSpec messageLine stackLine
  rw [hcb, L.messageKey, L.message, L.stack, L.stacktraceKey, L.lineEnding]
  cases hm : cfg.messageKey.isEmpty <;> cases hs : ent.stack.isEmpty <;> cases hk : cfg.stacktraceKey.isEmpty <;>
    cases hc : (contextBytes ctx fields).isEmpty <;>
    simp [TransConsole.sepIf, Console.sepIf, List.append_assoc]

end ZapVerif.TransConsole
