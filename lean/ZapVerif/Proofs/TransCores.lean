import ZapVerif.Proofs.GoMini
import ZapVerif.Model.TransCoresX
/-! Lookup facts for the `…_matches_source` theorems of Props/C05.lean and Props/C10.lean about Gen/TransCores.lean.
    Nothing here depends on the generated terms. -/
set_option linter.unusedSimpArgs false
namespace ZapVerif.TransCores
open ZapVerif ZapVerif.GoMini ZapVerif.Gen.TransCores

@[simp] theorem X_funs (P : Par) : (X P).funs = funs := id rfl
@[simp] theorem X_ext (P : Par) : (X P).ext = ext P := id rfl

@[simp] theorem unCE_ceV (o : Option (List Val)) : unCE (ceV o) = some o := by cases o <;> rfl

@[simp] theorem lenVal_ceV_none : lenVal (ceV none) = .ok (.int 0) := id rfl
@[simp] theorem lenVal_ceV_some (cs : List Val) : lenVal (ceV (some cs)) = .ok (.int 1) := id rfl
@[simp] theorem indexVal_ceV (cs : List Val) : indexVal (ceV (some cs)) (.int 0) = .ok (.list cs) := id rfl

@[simp] theorem ext_en1 (P : Par) (l : Int) : ext P "LevelEnabler.Enabled" [.int l] = some [.bool (P.en l)] := id rfl
@[simp] theorem ext_en2 (P : Par) (v : Val) (l : Int) : ext P "LevelEnabler.Enabled" [v, .int l] = some [.bool (P.en l)] := by
  cases v <;> rfl
@[simp] theorem ext_cen (P : Par) (c : Val) (l : Int) : ext P "Core.Enabled" [c, .int l] = some [.bool (P.cen c l)] := id rfl
@[simp] theorem ext_chk (P : Par) (c e : Val) (o : Option (List Val)) :
    ext P "Core.Check" [c, e, ceV o] = some [ceV (P.chk c e o)] := by simp [ext]
@[simp] theorem ext_add (P : Par) (e core : Val) (o : Option (List Val)) :
    ext P "CE.AddCore" [ceV o, e, core] = some [ceV (addCore o core)] := by simp [ext]
@[simp] theorem ext_cwrite (P : Par) (i s e f : Val) (werrs : List Val) :
    ext P "Core.Write" [.list [i, .list werrs, s], e, f] = some [.list werrs] := id rfl
@[simp] theorem ext_csync (P : Par) (i w : Val) (serrs : List Val) :
    ext P "Core.Sync" [.list [i, w, .list serrs]] = some [.list serrs] := id rfl
@[simp] theorem ext_enc (P : Par) (out : Bytes) (errs : List Val) (e f : Val) :
    ext P "Encoder.EncodeEntry" [encV out errs, e, f] = some [.bytes out, .list errs] := id rfl
@[simp] theorem ext_wwrite (P : Par) (n : Int) (werrs serrs : List Val) (b : Bytes) :
    ext P "WriteSyncer.Write" [sinkV n werrs serrs, .bytes b] = some [.int n, .list werrs] := id rfl
@[simp] theorem ext_wsync (P : Par) (n : Int) (werrs serrs : List Val) :
    ext P "WriteSyncer.Sync" [sinkV n werrs serrs] = some [.list serrs] := id rfl
@[simp] theorem ext_fn (P : Par) (i e : Val) (errs : List Val) : ext P "HookFn" [.list [i, .list errs], e] = some [.list errs] := id rfl

@[simp] theorem bi_en (a : List Val) : builtin "LevelEnabler.Enabled" a = none := builtin_none _ _ (by decide)
@[simp] theorem bi_cen (a : List Val) : builtin "Core.Enabled" a = none := builtin_none _ _ (by decide)
@[simp] theorem bi_chk (a : List Val) : builtin "Core.Check" a = none := builtin_none _ _ (by decide)
@[simp] theorem bi_add (a : List Val) : builtin "CE.AddCore" a = none := builtin_none _ _ (by decide)

theorem nm_enc : nm "Encoder.EncodeEntry" = .bytes [69, 110, 99, 111, 100, 101, 114, 46, 69, 110, 99, 111, 100, 101, 69, 110, 116, 114, 121] :=
  congrArg Val.bytes (by decide +kernel)
theorem nm_wwrite : nm "WriteSyncer.Write" = .bytes [87, 114, 105, 116, 101, 83, 121, 110, 99, 101, 114, 46, 87, 114, 105, 116, 101] :=
  congrArg Val.bytes (by decide +kernel)
theorem nm_wsync : nm "WriteSyncer.Sync" = .bytes [87, 114, 105, 116, 101, 83, 121, 110, 99, 101, 114, 46, 83, 121, 110, 99] :=
  congrArg Val.bytes (by decide +kernel)
theorem nm_cwrite : nm "Core.Write" = .bytes [67, 111, 114, 101, 46, 87, 114, 105, 116, 101] :=
  congrArg Val.bytes (by decide +kernel)
theorem nm_csync : nm "Core.Sync" = .bytes [67, 111, 114, 101, 46, 83, 121, 110, 99] :=
  congrArg Val.bytes (by decide +kernel)
theorem nm_fn : nm "HookFn" = .bytes [72, 111, 111, 107, 70, 110] := congrArg Val.bytes (by decide +kernel)

/-- the fields of an `*ioCore` -/
abbrev ioFld (enc out self : Val) (ev : List Val) : Env := [("enc", enc), ("out", out), ("self", self), ("ev", .list ev)]
/-- the fields of a `multiCore` (the slice itself) -/
abbrev mcFld (mc : List Val) (ev : List Val) : Env := [("mc", .list mc), ("ev", .list ev)]
/-- the fields of a `*hooked` -/
abbrev hkFld (core : Val) (funcs : List Val) (self : Val) (ev : List Val) : Env :=
  [("core", core), ("funcs", .list funcs), ("self", self), ("ev", .list ev)]
/-- the fields of a `*levelFilterCore` -/
abbrev lfFld (core level self : Val) (ev : List Val) : Env := [("core", core), ("level", level), ("self", self), ("ev", .list ev)]

end ZapVerif.TransCores
