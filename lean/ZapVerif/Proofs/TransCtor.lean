import ZapVerif.Proofs.GoMini
import ZapVerif.Model.TransCtorX
/-! Lookup facts for the `…_matches_source` theorems of Props/C05.lean about Gen/TransCtor.lean.  Nothing here depends on the
    generated terms. -/
set_option linter.unusedSimpArgs false
namespace ZapVerif.TransCtor
open ZapVerif ZapVerif.GoMini ZapVerif.Gen.TransCtor

@[simp] theorem X_funs (P : Par) : (X P).funs = funs := id rfl
@[simp] theorem X_ext (P : Par) : (X P).ext = ext P := id rfl
@[simp] theorem ext_cen (P : Par) (c : Val) (l : Int) : ext P "Core.Enabled" [c, .int l] = some [.bool (P.cen c l)] := id rfl
@[simp] theorem ext_en (P : Par) (e : Val) (l : Int) : ext P "LevelEnabler.Enabled" [e, .int l] = some [.bool (P.en e l)] := id rfl
@[simp] theorem ext_levelOf (P : Par) (e : Val) : ext P "LevelOf" [e] = some [.int (P.levelOf e)] := id rfl
@[simp] theorem ext_nop (P : Par) : ext P "NewNopCore" [] = some [P.nop] := id rfl
@[simp] theorem ext_errorf (P : Par) (args : List Val) : ext P "fmt.Errorf" args = some [errV "fmt.Errorf" args] := id rfl
@[simp] theorem bi_0 (a : List Val) : builtin "Core.Enabled" a = none := builtin_none _ _ (by decide)
@[simp] theorem bi_1 (a : List Val) : builtin "LevelEnabler.Enabled" a = none := builtin_none _ _ (by decide)
@[simp] theorem bi_2 (a : List Val) : builtin "LevelOf" a = none := builtin_none _ _ (by decide)
@[simp] theorem bi_3 (a : List Val) : builtin "NewNopCore" a = none := builtin_none _ _ (by decide)
@[simp] theorem bi_4 (a : List Val) : builtin "fmt.Errorf" a = none := builtin_none _ _ (by decide)

end ZapVerif.TransCtor
