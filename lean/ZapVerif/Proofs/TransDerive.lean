import ZapVerif.Proofs.GoMini
import ZapVerif.Model.TransDeriveX
/-! Lookup facts for the `…_matches_source` theorems of Props/C07.lean about Gen/TransDerive.lean.  Nothing here depends on
    the generated terms. -/
set_option linter.unusedSimpArgs false
namespace ZapVerif.TransDerive
open ZapVerif ZapVerif.GoMini ZapVerif.Gen.TransDerive

@[simp] theorem X_funs (P : Par) : (X P).funs = funs := id rfl
@[simp] theorem X_ext (P : Par) : (X P).ext = ext P := id rfl
@[simp] theorem ext_coreWith (P : Par) (c fs : Val) : ext P "Core.With" [c, fs] = some [P.coreWith c fs] := id rfl
@[simp] theorem ext_join (P : Par) (es : List Val) (sep : Bytes) :
    ext P "strings.Join" [.list es, .bytes sep] = some [.bytes (joinB es sep)] := id rfl
@[simp] theorem ext_lgclone (P : Par) (a b c d e f g h i j : Val) :
    ext P "Logger.clone" [a, b, c, d, e, f, g, h, i, j] = some [a, b, c, d, e, f, g, h, i, j] := id rfl
@[simp] theorem ext_apply (P : Par) (a b c d e f g h i j opt self : Val) :
    ext P "Option.apply" [a, b, c, d, e, f, g, h, i, j, opt, self] = some (P.applyOpt opt ⟨a, b, c, d, e, f, g, h, i, j⟩).toList := id rfl
@[simp] theorem ext_wrapCore (P : Par) (f : Val) : ext P "WrapCore" [f] = some [.list [nm "WrapCore", f]] := id rfl
@[simp] theorem ext_withOptions (P : Par) (a b c d e f g h i j opt : Val) :
    ext P "Logger.WithOptions" [a, b, c, d, e, f, g, h, i, j, opt] = some [.list (P.applyOpt opt ⟨a, b, c, d, e, f, g, h, i, j⟩).toList] := id rfl
@[simp] theorem bi_8 (a : List Val) : builtin "Logger.WithOptions" a = none := builtin_none _ _ (by decide)
@[simp] theorem ext_encClone (P : Par) (e : Val) : ext P "Encoder.Clone" [e] = some [P.encClone e] := id rfl
@[simp] theorem ext_addFields (P : Par) (e fs : Val) : ext P "addFields" [e, fs] = some [P.addFields e fs] := id rfl
@[simp] theorem ext_cen (P : Par) (c : Val) (l : Int) : ext P "Core.Enabled" [c, .int l] = some [.bool (P.cen c l)] := id rfl
@[simp] theorem ext_chk (P : Par) (c e ce : Val) : ext P "Core.Check" [c, e, ce] = some [P.chk c e ce] := id rfl
@[simp] theorem ext_write (P : Par) (c e fs : Val) : ext P "Core.Write" [c, e, fs] = some [.list (P.werr c e fs)] := id rfl
@[simp] theorem ext_sync (P : Par) (c : Val) : ext P "Core.Sync" [c] = some [.list (P.serr c)] := id rfl

theorem ext_makeCores (P : Par) (n : Nat) : ext P "make.cores" [.int (n : Int)] = some [.list (List.replicate n (.list []))] := by
  rw [show ext P "make.cores" [.int (n : Int)] =
    (if (n : Int) < 0 then none else some [.list (List.replicate (n : Int).toNat (.list []))]) from rfl]
  have : ¬ ((n : Int) < 0) := by omega
  simp [this]
theorem ext_set (P : Par) (l : List Val) (i : Nat) (v : Val) (h : i < l.length) :
    ext P "slice.set" [.list l, .int (i : Int), v] = some [.list (l.set i v)] := by
  rw [show ext P "slice.set" [.list l, .int (i : Int), v] =
    (if 0 ≤ (i : Int) ∧ (i : Int).toNat < l.length then some [.list (l.set (i : Int).toNat v)] else none) from rfl]
  have : (0 : Int) ≤ (i : Int) := by omega
  simp [this, h]

@[simp] theorem bi_0 (a : List Val) : builtin "Core.With" a = none := builtin_none _ _ (by decide)
@[simp] theorem bi_1 (a : List Val) : builtin "strings.Join" a = none := builtin_none _ _ (by decide)
@[simp] theorem bi_2 (a : List Val) : builtin "WrapCore" a = none := builtin_none _ _ (by decide)
@[simp] theorem bi_3 (a : List Val) : builtin "Encoder.Clone" a = none := builtin_none _ _ (by decide)
@[simp] theorem bi_4 (a : List Val) : builtin "make.cores" a = none := builtin_none _ _ (by decide)
@[simp] theorem bi_5 (a : List Val) : builtin "slice.set" a = none := builtin_none _ _ (by decide)
@[simp] theorem bi_6 (a : List Val) : builtin "Core.Enabled" a = none := builtin_none _ _ (by decide)
@[simp] theorem bi_7 (a : List Val) : builtin "Core.Check" a = none := builtin_none _ _ (by decide)

theorem nm_write : nm "Core.Write" = .bytes [67, 111, 114, 101, 46, 87, 114, 105, 116, 101] := congrArg Val.bytes (by decide +kernel)
theorem nm_sync : nm "Core.Sync" = .bytes [67, 111, 114, 101, 46, 83, 121, 110, 99] := congrArg Val.bytes (by decide +kernel)

end ZapVerif.TransDerive
