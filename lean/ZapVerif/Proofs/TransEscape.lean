import ZapVerif.Proofs.GoMini
import ZapVerif.Model.TransEscapeX
/-! Lookup facts and the pure list lemmas for `safeAppendStringLike_matches_source` (Props/C01.lean) about
    Gen/TransEscape.lean.  Nothing here depends on the shape of the generated terms. -/
set_option linter.unusedSimpArgs false
namespace ZapVerif.TransEscape
open ZapVerif ZapVerif.GoMini ZapVerif.Esc ZapVerif.Gen.TransEscape

@[simp] theorem X_funs : X.funs = funs := id rfl
@[simp] theorem X_ext : X.ext = ext := id rfl
theorem ext_decode (x : Bytes) :
    ext "decodeRune" [.bytes x] = match validLen x with
      | some n => some [.int 0, .int n]
      | none => some [.int 65533, .int 1] := id rfl

/-! ### the model `escape` without its fuel -/

/-- a valid sequence has 2…4 bytes, all present -/
theorem validLen_bounds (s : Bytes) (n : Nat) (h : validLen s = some n) : 2 ≤ n ∧ n ≤ s.length := by
  unfold validLen at h
  simp only at h
  split at h
  · split at h
    · rename_i hc; injection h with h; subst h
      simp only [Bool.and_eq_true, decide_eq_true_eq] at hc; exact ⟨Nat.le_refl _, hc.1⟩
    · simp at h
  · split at h
    · split at h
      · rename_i hc; injection h with h; subst h
        simp only [Bool.and_eq_true, decide_eq_true_eq] at hc; exact ⟨by omega, hc.1.1⟩
      · simp at h
    · split at h
      · split at h
        · rename_i hc; injection h with h; subst h
          simp only [Bool.and_eq_true, decide_eq_true_eq] at hc; exact ⟨by omega, hc.1.1.1⟩
        · simp at h
      · simp at h

/-- more fuel than the length changes nothing -/
theorem escape_fuel (f : Nat) : ∀ (l : Bytes), l.length ≤ f → escape f l = escape l.length l := by
  induction f using Nat.strongRecOn with
  | _ f ih =>
    intro l hl
    cases l with
    | nil => cases f <;> simp [escape]
    | cons b r =>
      obtain ⟨f', rfl⟩ : ∃ f', f = f' + 1 := ⟨f - 1, by simp at hl; omega⟩
      have hr : r.length ≤ f' := by simpa using hl
      simp only [List.length_cons, escape]
      have e1 : escape f' r = escape r.length r := ih f' (Nat.lt_succ_self _) r hr
      split
      · cases hv : validLen (b :: r) with
        | none => simp only [e1]
        | some n =>
          have hb := validLen_bounds _ _ hv
          have hlen : ((b :: r).drop n).length = r.length + 1 - n := by simp
          have hb2 : n ≤ r.length + 1 := by simpa using hb.2
          simp only
          rw [ih f' (Nat.lt_succ_self _) _ (by omega), ih r.length (by omega) _ (by omega)]
      · split <;> simp only [e1]

/-- the canonical escape -/
def G (l : Bytes) : Bytes := escape l.length l

theorem G_nil : G [] = [] := rfl

theorem G_cons (b : UInt8) (r : Bytes) :
    G (b :: r) =
      if b ≥ 128 then
        match validLen (b :: r) with
        | some n => (b :: r).take n ++ G ((b :: r).drop n)
        | none => [92, 117, 102, 102, 102, 100] ++ G r
      else if plain b then b :: G r else esc1 b ++ G r := by
  simp only [G, List.length_cons, escape]
  split
  · cases hv : validLen (b :: r) with
    | none => rfl
    | some n =>
      have hb := validLen_bounds _ _ hv
      have hlen : ((b :: r).drop n).length = r.length + 1 - n := by simp
      have hb2 : n ≤ r.length + 1 := by simpa using hb.2
      simp only
      rw [escape_fuel r.length _ (by omega)]
  · rfl

/-! ### the loop of `safeAppendStringLike` on lists -/

/-- abstract loop state: `last`, `i`, the buffer -/
abbrev St := Nat × Nat × Bytes

/-- one iteration at `i < len(s)` -/
def stepE (s : Bytes) (a : St) : St :=
  let b := s.getD a.2.1 0
  let span := (s.take a.2.1).drop a.1
  if b ≥ 128 then
    match validLen (s.drop a.2.1) with
    | some n => (a.1, a.2.1 + n, a.2.2)
    | none => (a.2.1 + 1, a.2.1 + 1, a.2.2 ++ span ++ [92, 117, 102, 102, 102, 100])
  else if plain b then (a.1, a.2.1 + 1, a.2.2)
  else (a.2.1 + 1, a.2.1 + 1, a.2.2 ++ span ++ esc1 b)

/-- the invariant: positions in range, and "what is written, the pending span and the escape of the rest" is constant -/
def InvE (buf s : Bytes) (a : St) : Prop :=
  a.1 ≤ a.2.1 ∧ a.2.1 ≤ s.length ∧ a.2.2 ++ (s.take a.2.1).drop a.1 ++ G (s.drop a.2.1) = buf ++ G s

theorem span_extend (s : Bytes) (last i n : Nat) (h1 : last ≤ i) (h2 : i ≤ s.length) :
    (s.take (i + n)).drop last = (s.take i).drop last ++ (s.drop i).take n := by
  rw [List.take_add, List.drop_append_of_le_length (by simp; omega)]

theorem InvE_init (buf s : Bytes) : InvE buf s (0, 0, buf) := by
  simp [InvE]

theorem InvE_step (buf s : Bytes) (a : St) (h : InvE buf s a) (hi : a.2.1 < s.length) :
    InvE buf s (stepE s a) ∧ a.2.1 < (stepE s a).2.1 := by
  obtain ⟨last, i, out⟩ := a
  obtain ⟨h1, h2, h3⟩ := h
  simp only at h1 h2 h3 hi
  have hd : s.drop i = s[i] :: s.drop (i + 1) := List.drop_eq_getElem_cons hi
  have hg : s.getD i 0 = s[i] := by simp [hi]
  have hnil : (s.take (i + 1)).drop (i + 1) = [] := by simp
  rw [hd, G_cons] at h3
  simp only [stepE, hg]
  by_cases hb : s[i] ≥ 128
  · simp only [hb, if_true] at h3 ⊢
    cases hv : validLen (s.drop i) with
    | none =>
      rw [hd] at hv; rw [hv] at h3
      refine ⟨⟨Nat.le_refl _, hi, ?_⟩, Nat.lt_succ_self _⟩
      show (out ++ (s.take i).drop last ++ [92, 117, 102, 102, 102, 100]) ++ (s.take (i + 1)).drop (i + 1) ++
        G (s.drop (i + 1)) = buf ++ G s
      rw [hnil, ← h3]; simp [List.append_assoc]
    | some n =>
      have hbd := validLen_bounds _ _ hv
      have hdl : (s.drop i).length = s.length - i := by simp
      rw [hd] at hv; rw [hv] at h3
      simp only at h3
      rw [← hd, List.drop_drop] at h3
      have hle : i + n ≤ s.length := by omega
      refine ⟨⟨show last ≤ i + n by omega, hle, ?_⟩, show i < i + n by omega⟩
      show out ++ (s.take (i + n)).drop last ++ G (s.drop (i + n)) = buf ++ G s
      rw [span_extend s last i n h1 h2, ← h3]
      simp [List.append_assoc]
  · simp only [hb, if_false] at h3 ⊢
    by_cases hp : plain s[i] = true
    · simp only [hp, if_true] at h3 ⊢
      refine ⟨⟨show last ≤ i + 1 by omega, hi, ?_⟩, Nat.lt_succ_self _⟩
      show out ++ (s.take (i + 1)).drop last ++ G (s.drop (i + 1)) = buf ++ G s
      rw [span_extend s last i 1 h1 h2, ← h3]
      simp only [List.append_assoc, List.append_cancel_left_eq]
      rw [hd]; rfl
    · simp only [hp, if_false] at h3 ⊢
      refine ⟨⟨Nat.le_refl _, hi, ?_⟩, Nat.lt_succ_self _⟩
      show (out ++ (s.take i).drop last ++ esc1 s[i]) ++ (s.take (i + 1)).drop (i + 1) ++ G (s.drop (i + 1)) = buf ++ G s
      rw [hnil, ← h3]; simp [List.append_assoc]

/-- at the end the remaining copy `appendTo(buf, s[last:])` completes the escape -/
theorem InvE_final (buf s : Bytes) (a : St) (h : InvE buf s a) (hi : ¬ a.2.1 < s.length) :
    a.2.2 ++ s.drop a.1 = buf ++ G s := by
  obtain ⟨last, i, out⟩ := a
  obtain ⟨h1, h2, h3⟩ := h
  simp only at h1 h2 h3 hi
  have : i = s.length := by omega
  subst this
  simpa [G_nil] using h3

/-! ### bytes as GoMini integers -/

theorem byte_ge_lit (b : UInt8) (k : Nat) (hk : k < 256) : ((b.toNat : Int) ≥ (k : Int)) ↔ b ≥ UInt8.ofNat k := by
  rw [ge_iff_le, ge_iff_le, UInt8.le_iff_toNat_le]
  simp [Nat.mod_eq_of_lt hk]

/-- `_hex` -/
def hexlit : Bytes := [48, 49, 50, 51, 52, 53, 54, 55, 56, 57, 97, 98, 99, 100, 101, 102]

theorem hex_hi : ∀ b : UInt8, hexlit[b.toNat >>> 4]? = some (hexd (b >>> 4)) :=
  all256 _ (by decide +kernel)

theorem hex_lo : ∀ b : UInt8, hexlit[b.toNat &&& 15]? = some (hexd (b &&& 15)) :=
  all256 _ (by decide +kernel)

theorem hex_hi_val (b : UInt8) :
    indexVal (.bytes hexlit) (.int (wrap .int ((b.toNat >>> 4 : Nat) : Int))) = .ok (.int (hexd (b >>> 4)).toNat) := by
  have hlt : b.toNat >>> 4 < 16 := by
    have := b.toNat_lt; simp only [Nat.shiftRight_eq_div_pow]; omega
  rw [wrap_int_id _ (by omega) (by omega), indexVal_bytes hexlit _ (by simpa [hexlit] using hlt)]
  have := hex_hi b
  rw [List.getElem?_eq_getElem (by simpa [hexlit] using hlt)] at this
  simp only [Option.some.injEq] at this
  rw [this]

theorem hex_lo_val (b : UInt8) :
    indexVal (.bytes hexlit) (.int (wrap .int ((b.toNat &&& 15 : Nat) : Int))) = .ok (.int (hexd (b &&& 15)).toNat) := by
  have hlt : b.toNat &&& 15 < 16 := by
    have : b.toNat &&& 15 ≤ 15 := Nat.and_le_right
    omega
  rw [wrap_int_id _ (by omega) (by omega), indexVal_bytes hexlit _ (by simpa [hexlit] using hlt)]
  have := hex_lo b
  rw [List.getElem?_eq_getElem (by simpa [hexlit] using hlt)] at this
  simp only [Option.some.injEq] at this
  rw [this]

end ZapVerif.TransEscape
