import ZapVerif.Proofs.GoMini
import ZapVerif.Model.TransGrpcX
/-! Lookup facts for the `…_matches_source` theorems of Props/C06.lean about Gen/TransGrpc.lean. -/
set_option linter.unusedSimpArgs false
namespace ZapVerif.TransGrpc
open ZapVerif ZapVerif.GoMini ZapVerif.Gen.TransGrpc

@[simp] theorem X_funs (P : Par) : (X P).funs = funs := id rfl
@[simp] theorem X_ext (P : Par) : (X P).ext = ext P := id rfl
@[simp] theorem ext_sprintln (P : Par) (a : List Val) : ext P "fmt.Sprintln" [.list a] = some [.bytes (P.sprintln a)] := id rfl
@[simp] theorem ext_en (P : Par) (e : Val) (l : Int) : ext P "LevelEnabler.Enabled" [e, .int l] = some [.bool (P.en e l)] := id rfl
@[simp] theorem ext_print (P : Par) (a b : Val) : ext P "PrintFn.call" [a, b] = some [] := id rfl
@[simp] theorem ext_printf (P : Par) (a b c : Val) : ext P "PrintfFn.call" [a, b, c] = some [] := id rfl
@[simp] theorem ext_info (P : Par) (a b : Val) : ext P "Sugar.Info" [a, b] = some [] := id rfl
@[simp] theorem ext_warn (P : Par) (a b : Val) : ext P "Sugar.Warn" [a, b] = some [] := id rfl
@[simp] theorem ext_error (P : Par) (a b : Val) : ext P "Sugar.Error" [a, b] = some [] := id rfl
@[simp] theorem bi_0 (a : List Val) : builtin "fmt.Sprintln" a = none := builtin_none _ _ (by decide)
@[simp] theorem bi_1 (a : List Val) : builtin "LevelEnabler.Enabled" a = none := builtin_none _ _ (by decide)
theorem nm_print : nm "PrintFn.call" = .bytes [80, 114, 105, 110, 116, 70, 110, 46, 99, 97, 108, 108] := congrArg Val.bytes (by decide +kernel)
theorem nm_printf : nm "PrintfFn.call" = .bytes [80, 114, 105, 110, 116, 102, 70, 110, 46, 99, 97, 108, 108] := congrArg Val.bytes (by decide +kernel)
theorem nm_info : nm "Sugar.Info" = .bytes [83, 117, 103, 97, 114, 46, 73, 110, 102, 111] := congrArg Val.bytes (by decide +kernel)
theorem nm_warn : nm "Sugar.Warn" = .bytes [83, 117, 103, 97, 114, 46, 87, 97, 114, 110] := congrArg Val.bytes (by decide +kernel)
theorem nm_error : nm "Sugar.Error" = .bytes [83, 117, 103, 97, 114, 46, 69, 114, 114, 111, 114] := congrArg Val.bytes (by decide +kernel)

end ZapVerif.TransGrpc
