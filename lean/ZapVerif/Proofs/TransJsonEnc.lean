import ZapVerif.Proofs.GoMini
import ZapVerif.Model.TransJsonEncX
import ZapVerif.Proofs.Enc
/-! Lookup facts for the `…_matches_source` theorems of Props/C01.lean, C02.lean, C08.lean about Gen/TransJsonEnc.lean.
    Nothing here depends on the generated terms. -/
set_option linter.unusedSimpArgs false
namespace ZapVerif.TransJsonEnc
open ZapVerif ZapVerif.GoMini ZapVerif.Enc ZapVerif.Gen.TransJsonEnc

/-- after a key the separator rule adds nothing: `addKey` ends in `:` or `: ` -/
theorem sep_addKey (sp : Bool) (b k : Bytes) : sep sp (Enc.addKey sp b k) = Enc.addKey sp b k := by
  have hs : Enc.St (Enc.addKey sp b k) true := by
    unfold Enc.addKey
    apply st_app
    apply last_cons; apply last_app; apply last_cons; exact colon_last sp
  rw [sep_of_state hs]; simp [comma]

@[simp] theorem X_funs (P : Par) : (X P).funs = funs := id rfl
@[simp] theorem X_ext (P : Par) : (X P).ext = ext P := id rfl

@[simp] theorem ext_sep (P : Par) (b : Bytes) (sp : Bool) :
    ext P "addElementSeparator" [.bytes b, .bool sp] = some [.bytes (sep sp b)] := id rfl
@[simp] theorem ext_addKey (P : Par) (b k : Bytes) (sp : Bool) :
    ext P "addKey" [.bytes b, .bool sp, .bytes k] = some [.bytes (Enc.addKey sp b k)] := id rfl
@[simp] theorem ext_closeNs (P : Par) (b : Bytes) (n : Int) :
    ext P "closeOpenNamespaces" [.bytes b, .int n] = some [.bytes (closeNs b n), .int 0] := id rfl
@[simp] theorem ext_mo (P : Par) (b : Bytes) (n : Int) (rb re : List Val) (sp : Bool) (obj self : Val) :
    ext P "MarshalLogObject" [.bytes b, .int n, .list rb, .list re, .bool sp, obj, self] =
      some [.bytes (P.mo obj sp ⟨b, n, rb, re⟩).1.buf, .int (P.mo obj sp ⟨b, n, rb, re⟩).1.ns,
        .list (P.mo obj sp ⟨b, n, rb, re⟩).1.rbuf, .list (P.mo obj sp ⟨b, n, rb, re⟩).1.renc,
        .list (P.mo obj sp ⟨b, n, rb, re⟩).2] := id rfl
@[simp] theorem ext_ma (P : Par) (b : Bytes) (n : Int) (rb re : List Val) (sp : Bool) (arr self : Val) :
    ext P "MarshalLogArray" [.bytes b, .int n, .list rb, .list re, .bool sp, arr, self] =
      some [.bytes (P.ma arr sp ⟨b, n, rb, re⟩).1.buf, .int (P.ma arr sp ⟨b, n, rb, re⟩).1.ns,
        .list (P.ma arr sp ⟨b, n, rb, re⟩).1.rbuf, .list (P.ma arr sp ⟨b, n, rb, re⟩).1.renc,
        .list (P.ma arr sp ⟨b, n, rb, re⟩).2] := id rfl
@[simp] theorem ext_addFields (P : Par) (b : Bytes) (n : Int) (rb re : List Val) (sp : Bool) (self fs : Val) :
    ext P "addFields" [.bytes b, .int n, .list rb, .list re, .bool sp, self, fs] =
      some [.bytes (P.addFields fs sp ⟨b, n, rb, re⟩).buf, .int (P.addFields fs sp ⟨b, n, rb, re⟩).ns,
        .list (P.addFields fs sp ⟨b, n, rb, re⟩).rbuf, .list (P.addFields fs sp ⟨b, n, rb, re⟩).renc] := id rfl
@[simp] theorem ext_write (P : Par) (b p : Bytes) :
    ext P "Buffer.Write" [.bytes b, .bytes p] = some [.bytes (b ++ p), .int p.length, .list []] := id rfl
@[simp] theorem ext_getPtr (P : Par) : ext P "bufferpool.GetPtr" [] = some [.list [.bytes []]] := id rfl
@[simp] theorem ext_get (P : Par) : ext P "bufferpool.Get" [] = some [.bytes []] := id rfl
@[simp] theorem ext_jget (P : Par) : ext P "jsonPool.Get" [] = some [] := id rfl
@[simp] theorem ext_jput (P : Par) (v : Val) : ext P "jsonPool.Put" [v] = some [] := id rfl
@[simp] theorem ext_free (P : Par) (v : Val) : ext P "Buffer.Free" [v] = some [] := id rfl
@[simp] theorem ext_newRefl (P : Par) (c : Val) (rb : List Val) :
    ext P "NewReflectedEncoder" [c, .list rb] = some [.list (P.newRefl c rb)] := id rfl
@[simp] theorem ext_encode (P : Par) (b : Bytes) (re : List Val) (obj : Val) :
    ext P "ReflEnc.Encode" [.list [.bytes b], .list re, obj] =
      some [.list [.bytes (b ++ (P.reflEncode re obj).1)], .list (P.reflEncode re obj).2] := id rfl
@[simp] theorem ext_trim (P : Par) (b : Bytes) :
    ext P "Buffer.TrimNewline" [.list [.bytes b]] = some [.list [.bytes (trimNewline b)]] := id rfl
@[simp] theorem ext_obytes (P : Par) (b : Bytes) : ext P "optBuffer.Bytes" [.list [.bytes b]] = some [.bytes b] := id rfl
@[simp] theorem ext_clone (P : Par) (sp : Bool) (n : Int) :
    ext P "jsonEncoder.clone" [.bool sp, .int n] = some [.bytes [], .bool sp, .int n, .list [], .list []] := id rfl
@[simp] theorem ext_appendString (P : Par) (b s : Bytes) (sp : Bool) :
    ext P "AppendString" [.bytes b, .bool sp, .bytes s] = some [.bytes (appendString sp b s)] := id rfl
@[simp] theorem ext_addString (P : Par) (b k s : Bytes) (sp : Bool) :
    ext P "AddString" [.bytes b, .bool sp, .bytes k, .bytes s] = some [.bytes (appendString sp (Enc.addKey sp b k) s)] := id rfl
@[simp] theorem ext_addTime (P : Par) (b k : Bytes) (sp : Bool) (te : List Val) (t : Val) :
    ext P "AddTime" [.bytes b, .bool sp, .list te, .bytes k, t] = some [.bytes (P.addTime te sp b k t)] := id rfl
@[simp] theorem ext_level (P : Par) (b : Bytes) (sp : Bool) (f : List Val) (l self : Val) :
    ext P "LevelEncoder" [.bytes b, .bool sp, .list f, l, self] = some [.bytes (P.subLevel f l sp b)] := id rfl
@[simp] theorem ext_caller (P : Par) (b : Bytes) (sp : Bool) (f : List Val) (c self : Val) :
    ext P "CallerEncoder" [.bytes b, .bool sp, .list f, c, self] = some [.bytes (P.subCaller f c sp b)] := id rfl
@[simp] theorem ext_name (P : Par) (b : Bytes) (f : List Val) (n self : Val) :
    ext P "NameEncoder" [.bytes b, .list f, n, self] = some [.bytes (P.subName f n b)] := id rfl
@[simp] theorem ext_put (P : Par) (a b : Val) : ext P "putJSONEncoder" [a, b] = some [] := id rfl
@[simp] theorem ext_isZero (P : Par) (t : Val) : ext P "Time.IsZero" [t] = some [.bool (P.timeIsZero t)] := id rfl
@[simp] theorem ext_lstr (P : Par) (l : Int) : ext P "Level.String" [.int l] = some [.bytes (P.levelString l)] := id rfl
@[simp] theorem ext_cstr (P : Par) (c : Val) : ext P "EntryCaller.String" [c] = some [.bytes (P.callerString c)] := id rfl

@[simp] theorem bi_newRefl (a : List Val) : builtin "NewReflectedEncoder" a = none := builtin_none _ _ (by decide)
@[simp] theorem bi_trim (a : List Val) : builtin "Buffer.TrimNewline" a = none := builtin_none _ _ (by decide)
@[simp] theorem bi_obytes (a : List Val) : builtin "optBuffer.Bytes" a = none := builtin_none _ _ (by decide)
@[simp] theorem bi_isZero (a : List Val) : builtin "Time.IsZero" a = none := builtin_none _ _ (by decide)
@[simp] theorem bi_lstr (a : List Val) : builtin "Level.String" a = none := builtin_none _ _ (by decide)
@[simp] theorem bi_cstr (a : List Val) : builtin "EntryCaller.String" a = none := builtin_none _ _ (by decide)

theorem nm_getPtr : nm "bufferpool.GetPtr" = .bytes [98, 117, 102, 102, 101, 114, 112, 111, 111, 108, 46, 71, 101, 116, 80, 116, 114] :=
  congrArg Val.bytes (by decide +kernel)
theorem nm_get : nm "bufferpool.Get" = .bytes [98, 117, 102, 102, 101, 114, 112, 111, 111, 108, 46, 71, 101, 116] :=
  congrArg Val.bytes (by decide +kernel)
theorem nm_jget : nm "jsonPool.Get" = .bytes [106, 115, 111, 110, 80, 111, 111, 108, 46, 71, 101, 116] :=
  congrArg Val.bytes (by decide +kernel)
theorem nm_jput : nm "jsonPool.Put" = .bytes [106, 115, 111, 110, 80, 111, 111, 108, 46, 80, 117, 116] :=
  congrArg Val.bytes (by decide +kernel)
theorem nm_free : nm "Buffer.Free" = .bytes [66, 117, 102, 102, 101, 114, 46, 70, 114, 101, 101] :=
  congrArg Val.bytes (by decide +kernel)
theorem nm_clone : nm "jsonEncoder.clone" = .bytes [106, 115, 111, 110, 69, 110, 99, 111, 100, 101, 114, 46, 99, 108, 111, 110, 101] :=
  congrArg Val.bytes (by decide +kernel)
theorem nm_put : nm "putJSONEncoder" = .bytes [112, 117, 116, 74, 83, 79, 78, 69, 110, 99, 111, 100, 101, 114] :=
  congrArg Val.bytes (by decide +kernel)

@[simp] theorem idx_ent0 (e : EEnt) : indexVal e.val (.int 0) = .ok (.int e.level) := id rfl
@[simp] theorem idx_ent1 (e : EEnt) : indexVal e.val (.int 1) = .ok e.time := id rfl
@[simp] theorem idx_ent2 (e : EEnt) : indexVal e.val (.int 2) = .ok (.bytes e.name) := id rfl
@[simp] theorem idx_ent3 (e : EEnt) : indexVal e.val (.int 3) = .ok (.bytes e.message) := id rfl
@[simp] theorem idx_ent4 (e : EEnt) : indexVal e.val (.int 4) = .ok e.caller := id rfl
@[simp] theorem idx_ent5 (e : EEnt) : indexVal e.val (.int 5) = .ok (.bytes e.stack) := id rfl
@[simp] theorem idx_caller0 (e : EEnt) : indexVal e.caller (.int 0) = .ok (.bool e.callerDefined) := id rfl
@[simp] theorem idx_caller1 (e : EEnt) : indexVal e.caller (.int 1) = .ok (.bytes e.function) := id rfl

end ZapVerif.TransJsonEnc
