import ZapVerif.Proofs.TransJsonEnc
import ZapVerif.Proofs.EncTree
import ZapVerif.Model.Entry
/-! `TransJsonEnc.entryBytes` — what the interpreted `EncodeEntry` computes (Props/C02.lean) — is `Enc.encodeEntry` over
    `Entry.metaCalls` / `Entry.stackCalls`, the function `jsonLine` and the C01/C02 theorems are stated over, whenever
    the parameters (sub-encoders, `addFields`) do on the buffer what the model's call trees say.  Nothing here depends
    on the generated terms. -/
set_option linter.unusedSimpArgs false
namespace ZapVerif.TransJsonEnc
open ZapVerif ZapVerif.GoMini ZapVerif.Enc ZapVerif.Entry ZapVerif.Json

/-- a configured sub-encoder function does on the buffer what its `SubRes` says: one append (after the separator
    every `Append*` starts with) or nothing -/
def SubOK (sub : Bool → Bytes → Bytes) : SubRes → Prop
  | .val s => (∀ sp b, sub sp b = sep sp b ++ render (scalarJ s)) ∧ render (scalarJ s) ≠ []
  | _ => ∀ sp b, sub sp b = b

theorem runO_prim1 (sp : Bool) (b : Bytes) (n : Nat) (k : Bytes) (v : J) :
    runO sp ⟨b, n⟩ [OC.prim k v] = ⟨Enc.addKey sp b k ++ render v, n⟩ := by
  simp [runO, sep_addKey]

theorem appendString_eq (sp : Bool) (b s : Bytes) : appendString sp b s = sep sp b ++ render (J.str (esc s)) := by
  simp [appendString, render]

/-- the guarded "key, sub-encoder, string fall-back" frame is the one `OC.prim` member the model emits -/
theorem subOr_eq (sp : Bool) (b k : Bytes) (sub : Bool → Bytes → Bytes) (r : SubRes) (fb : Bytes) (h : SubOK sub r) :
    subOr sp (Enc.addKey sp b k) (sub sp (Enc.addKey sp b k)) fb = Enc.addKey sp b k ++ render (subOrStr r fb) := by
  cases r with
  | val s =>
    obtain ⟨h1, h2⟩ := h
    have hlen : ¬ (Enc.addKey sp b k).length = (Enc.addKey sp b k ++ render (scalarJ s)).length := by
      have : 0 < (render (scalarJ s)).length := List.length_pos_iff.mpr h2
      simp only [List.length_append]; omega
    simp [subOr, h1, sep_addKey, subOrStr, hlen, h2]
  | noop => simp [subOr, h sp, appendString_eq, sep_addKey, subOrStr]
  | nilEnc => simp [subOr, h sp, appendString_eq, sep_addKey, subOrStr]

/-- how the configuration, the entry and the parameters of the interpreter context correspond to the model's `Cfg`/`Ent` -/
structure EntryLink (P : Par) (c : ECfg) (e : EEnt) (cfg : Cfg) (ent : Ent) : Prop where
  levelKey : c.levelKey = cfg.levelKey
  timeKey : c.timeKey = cfg.timeKey
  nameKey : c.nameKey = cfg.nameKey
  callerKey : c.callerKey = cfg.callerKey
  functionKey : c.functionKey = cfg.functionKey
  messageKey : c.messageKey = cfg.messageKey
  stacktraceKey : c.stacktraceKey = cfg.stacktraceKey
  level : e.level = ent.level
  name : e.name = ent.name
  message : e.message = ent.message
  function : e.function = ent.function
  stack : e.stack = ent.stack
  defined : e.callerDefined = ent.callerDefined
  lvlNil : c.encLevel.isEmpty = isNil ent.lvlRes
  lvlSub : SubOK (P.subLevel c.encLevel (.int e.level)) ent.lvlRes
  lvlStr : P.levelString e.level = Level.stringOf ent.level
  timeZero : P.timeIsZero e.time = ent.time.isNone
  timeSub : ∀ t, ent.time = some t → ∀ sp b k, P.addTime c.encTime sp b k e.time = Enc.addKey sp b k ++ render (subOrNanos t.res t.nanos)
  nameSub : SubOK (fun _ b => P.subName (nameFn c) (.bytes e.name) b) ent.nameRes
  callerNil : c.encCaller.isEmpty = isNil ent.callerRes
  callerSub : SubOK (P.subCaller c.encCaller e.caller) ent.callerRes
  callerStr : P.callerString e.caller = ent.callerStr

theorem isEmpty_not (b : Bytes) : (!b.isEmpty) = !(b.isEmpty) := rfl

/-- name, caller/function, message: the last three segments of `Entry.metaCalls` -/
theorem metaRest (P : Par) (c : ECfg) (e : EEnt) (cfg : Cfg) (ent : Ent) (L : EntryLink P c e cfg ent) (sp : Bool)
    (n : Nat) (b0 : Bytes) :
    runO sp (runO sp (runO sp ⟨b0, n⟩
      (if !ent.name.isEmpty && !cfg.nameKey.isEmpty then [OC.prim cfg.nameKey (subOrStr ent.nameRes ent.name)] else []))
      (if ent.callerDefined then
         (if !cfg.callerKey.isEmpty && !isNil ent.callerRes then [OC.prim cfg.callerKey (subOrStr ent.callerRes ent.callerStr)] else []) ++
         (if !cfg.functionKey.isEmpty then [strPrim cfg.functionKey ent.function] else [])
       else []))
      (if !cfg.messageKey.isEmpty then [strPrim cfg.messageKey ent.message] else []) =
    ⟨messageBlock c sp e (callerBlock P c sp e (nameBlock P c sp e b0)), n⟩ := by
  -- name
  have h3 : ∀ b, runO sp ⟨b, n⟩
      (if !ent.name.isEmpty && !cfg.nameKey.isEmpty then [OC.prim cfg.nameKey (subOrStr ent.nameRes ent.name)] else []) =
      ⟨nameBlock P c sp e b, n⟩ := by
    intro b
    unfold nameBlock
    rw [L.name, L.nameKey]
    cases hn : ent.name.isEmpty <;> cases hk : cfg.nameKey.isEmpty <;> simp [runO]
    have := subOr_eq sp b cfg.nameKey (fun _ b => P.subName (nameFn c) (.bytes e.name) b) _ ent.name L.nameSub
    rw [L.name] at this
    simp only [this]; simp [sep_addKey]
  rw [h3]
  -- caller + function
  have h4 : ∀ b, runO sp ⟨b, n⟩
      (if ent.callerDefined then
         (if !cfg.callerKey.isEmpty && !isNil ent.callerRes then [OC.prim cfg.callerKey (subOrStr ent.callerRes ent.callerStr)] else []) ++
         (if !cfg.functionKey.isEmpty then [strPrim cfg.functionKey ent.function] else [])
       else []) = ⟨callerBlock P c sp e b, n⟩ := by
    intro b
    unfold callerBlock
    rw [L.defined, L.callerNil, L.callerKey, L.functionKey, L.function]
    cases hd : ent.callerDefined
    · simp [runO]
    · simp only [if_true, runO_append, Bool.not_true, Bool.false_eq_true, if_false]
      have hc : runO sp ⟨b, n⟩
          (if !cfg.callerKey.isEmpty && !isNil ent.callerRes then [OC.prim cfg.callerKey (subOrStr ent.callerRes ent.callerStr)] else []) =
          ⟨if cfg.callerKey.isEmpty || isNil ent.callerRes then b
            else subOr sp (Enc.addKey sp b cfg.callerKey) (P.subCaller c.encCaller e.caller sp (Enc.addKey sp b cfg.callerKey))
              (P.callerString e.caller), n⟩ := by
        cases hk : cfg.callerKey.isEmpty <;> cases hn : isNil ent.callerRes <;> simp [runO]
        rw [subOr_eq sp _ _ (P.subCaller c.encCaller e.caller) _ _ L.callerSub, L.callerStr]
        simp [sep_addKey]
      rw [hc]
      cases hf : cfg.functionKey.isEmpty <;> simp [runO, strPrim, appendString_eq, sep_addKey]
  rw [h4]
  -- message
  unfold messageBlock
  rw [L.messageKey, L.message]
  cases hk : cfg.messageKey.isEmpty <;> simp [runO, strPrim, appendString_eq, sep_addKey]

/-- the metadata part is `runO` over `Entry.metaCalls` -/
theorem metaBytes_eq (P : Par) (c : ECfg) (e : EEnt) (cfg : Cfg) (ent : Ent) (L : EntryLink P c e cfg ent) (sp : Bool)
    (n : Nat) :
    runO sp ⟨[123], n⟩ (metaCalls cfg ent) = ⟨metaBytes P c sp e, n⟩ := by
  unfold metaCalls metaBytes
  simp only [runO_append]
  -- level
  have h1 : runO sp ⟨[123], n⟩
      (if !cfg.levelKey.isEmpty && !isNil ent.lvlRes then [OC.prim cfg.levelKey (subOrStr ent.lvlRes (Level.stringOf ent.level))] else []) =
      ⟨levelBlock P c sp e [123], n⟩ := by
    unfold levelBlock
    rw [L.lvlNil, L.levelKey]
    cases hk : cfg.levelKey.isEmpty <;> cases hn : isNil ent.lvlRes <;> simp [runO]
    rw [← L.levelKey, subOr_eq sp _ _ (P.subLevel c.encLevel (.int e.level)) _ _ L.lvlSub, L.lvlStr, L.levelKey]
    simp [sep_addKey]
  rw [h1]
  -- time
  have h2 : ∀ b, runO sp ⟨b, n⟩
      (match ent.time with
       | some t => if !cfg.timeKey.isEmpty then [OC.prim cfg.timeKey (subOrNanos t.res t.nanos)] else []
       | none => []) = ⟨timeBlock P c sp e b, n⟩ := by
    intro b
    unfold timeBlock
    rw [L.timeZero, L.timeKey]
    cases ht : ent.time with
    | none => simp [runO]
    | some t =>
      cases hk : cfg.timeKey.isEmpty <;> simp [runO]
      rw [L.timeSub t ht]; simp [sep_addKey]
  have h2' := h2 (levelBlock P c sp e [123])
  cases ht : ent.time with
  | none =>
    rw [ht] at h2'
    simp only [] at h2' ⊢
    rw [h2']
    exact metaRest P c e cfg ent L sp n _
  | some t =>
    rw [ht] at h2'
    simp only [] at h2' ⊢
    rw [h2']
    exact metaRest P c e cfg ent L sp n _

/-- **entryBytes_is_encodeEntry**: the line the interpreted `EncodeEntry` returns is the model's `encodeEntry` over the
    metadata calls, the context encoder `⟨obuf, ons⟩`, the fields' calls and the stack call -/
theorem entryBytes_is_encodeEntry (P : Par) (c : ECfg) (e : EEnt) (cfg : Cfg) (ent : Ent) (L : EntryLink P c e cfg ent)
    (sp : Bool) (ons : Nat) (obuf : Bytes) (fields : Val) (calls : List OC)
    (hf : ∀ b : Bytes, (P.addFields fields sp ⟨b, ons, [], []⟩).buf = (runO sp ⟨b, ons⟩ calls).buf ∧
      (P.addFields fields sp ⟨b, ons, [], []⟩).ns = ((runO sp ⟨b, ons⟩ calls).openNs : Int)) :
    entryBytes P c sp ons obuf e fields =
      encodeEntry sp (metaCalls cfg ent) ⟨obuf, ons⟩ calls (stackCalls cfg ent) c.lineEnding := by
  unfold entryBytes afterFields encodeEntry
  simp only [metaBytes_eq P c e cfg ent L sp ons]
  have hctx : (if (⟨obuf, ons⟩ : Enc).buf.isEmpty then (⟨metaBytes P c sp e, ons⟩ : Enc)
      else ⟨sep sp (⟨metaBytes P c sp e, ons⟩ : Enc).buf ++ (⟨obuf, ons⟩ : Enc).buf, (⟨metaBytes P c sp e, ons⟩ : Enc).openNs⟩) =
      ⟨ctxBlock sp obuf (metaBytes P c sp e), ons⟩ := by
    unfold ctxBlock; cases obuf <;> simp
  rw [hctx]
  obtain ⟨h1, h2⟩ := hf (ctxBlock sp obuf (metaBytes P c sp e))
  rw [h1, h2]
  unfold stackBlock stackCalls closeNs
  rw [L.stack, L.stacktraceKey]
  cases hs : ent.stack.isEmpty <;> cases hk : cfg.stacktraceKey.isEmpty <;>
    simp [runO, strPrim, appendString_eq, sep_addKey]

end ZapVerif.TransJsonEnc
