import ZapVerif.Proofs.GoMini
import ZapVerif.Model.TransJsonSepX
/-! Lookup facts for the `…_matches_source` theorems of Props/C01.lean about Gen/TransJsonSep.lean.
    Nothing here depends on the shape of the generated terms. -/
namespace ZapVerif.TransJsonSep
open ZapVerif ZapVerif.GoMini ZapVerif.Enc ZapVerif.Gen.TransJsonSep

@[simp] theorem X_funs : X.funs = funs := rfl
@[simp] theorem X_ext : X.ext = ext := rfl
@[simp] theorem ext_sas (b s : Bytes) : ext "safeAddString" [.bytes b, .bytes s] = some [.bytes (b ++ esc s)] := rfl

end ZapVerif.TransJsonSep
