import ZapVerif.Proofs.GoMini
import ZapVerif.Model.Enc
import ZapVerif.Gen.TransJsonSep
/-! Setting for the `…_matches_source` theorems of Props/C01.lean about Gen/TransJsonSep.lean (the translated
    `addElementSeparator`, `addKey`, `closeOpenNamespaces` of zapcore/json_encoder.go): the external intrinsic, the
    interpreter context and the receiver fields.  Nothing here depends on the generated terms. -/
set_option linter.unusedSimpArgs false
namespace ZapVerif.TransJsonSep
open ZapVerif ZapVerif.GoMini ZapVerif.Enc ZapVerif.Gen.TransJsonSep

/-- the one external intrinsic of this table: `enc.safeAddString(s)` appends the escaped form of `s` -/
def ext : String → List Val → Option (List Val)
  | "safeAddString", [.bytes buf, .bytes s] => some [.bytes (buf ++ esc s)]
  | _, _ => none

def X : Ctx := { ext := ext, funs := funs }

@[simp] theorem X_funs : X.funs = funs := rfl
@[simp] theorem X_ext : X.ext = ext := rfl
@[simp] theorem ext_sas (b s : Bytes) : ext "safeAddString" [.bytes b, .bytes s] = some [.bytes (b ++ esc s)] := rfl

/-- the receiver fields of a `*jsonEncoder` the translated functions touch -/
abbrev encFld (buf : Bytes) (sp : Bool) (n : Int) : Env := [("buf", .bytes buf), ("spaced", .bool sp), ("openNs", .int n)]

end ZapVerif.TransJsonSep
