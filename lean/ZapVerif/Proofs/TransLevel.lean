import ZapVerif.Proofs.GoMini
import ZapVerif.Model.TransLevelX
/-! Lookup facts for the `…_matches_source` theorems of Props/C20.lean (and C05) about Gen/TransLevel.lean.  Nothing here
    depends on the generated terms. -/
set_option linter.unusedSimpArgs false
namespace ZapVerif.TransLevel
open ZapVerif ZapVerif.GoMini ZapVerif.Gen.TransLevel

@[simp] theorem X_funs (P : Par) : (X P).funs = funs := id rfl
@[simp] theorem X_ext (P : Par) : (X P).ext = ext P := id rfl
@[simp] theorem ext_lower (P : Par) (t : Bytes) : ext P "bytes.ToLower" [.bytes t] = some [.bytes (P.lower t)] := id rfl
@[simp] theorem ext_sprintf (P : Par) (f : Bytes) (l : Int) : ext P "fmt.Sprintf" [.bytes f, .int l] = some [.bytes (P.sprintf f l)] := id rfl
@[simp] theorem ext_errorf (P : Par) (args : List Val) : ext P "fmt.Errorf" args = some [errV "fmt.Errorf" args] := id rfl
@[simp] theorem ext_errNew (P : Par) (args : List Val) : ext P "errors.New" args = some [errV "errors.New" args] := id rfl
@[simp] theorem ext_assert (P : Par) (e : Val) : ext P "assert.leveledEnabler" [e] =
    some (match P.asLeveled e with | some lv => [lv, .bool true] | none => [.list [], .bool false]) := id rfl
@[simp] theorem ext_leveled (P : Par) (lv : Val) : ext P "LeveledEnabler.Level" [lv] = some [.int (P.leveledLevel lv)] := id rfl
@[simp] theorem ext_enabled (P : Par) (e : Val) (l : Int) : ext P "LevelEnabler.Enabled" [e, .int l] = some [.bool (P.enabled e l)] := id rfl
@[simp] theorem ext_formValue (P : Par) (r : Val) (k : Bytes) : ext P "Request.FormValue" [r, .bytes k] = some [.bytes (P.formValue r k)] := id rfl
@[simp] theorem ext_headerGet (P : Par) (h : Val) (k : Bytes) : ext P "Header.Get" [h, .bytes k] = some [.bytes (P.headerGet h k)] := id rfl
@[simp] theorem ext_jsonDecode (P : Par) (b p : Val) :
    ext P "json.Decode" [b, p] = some [.list [.list (P.jsonDecode b).1], .list (P.jsonDecode b).2] := id rfl
@[simp] theorem ext_errText (P : Par) (e : Val) : ext P "error.Error" [e] = some [.bytes (P.errText e)] := id rfl
@[simp] theorem ext_newEncoder (P : Par) (w : Val) : ext P "json.NewEncoder" [w] = some [.list [nm "json.NewEncoder", w]] := id rfl
@[simp] theorem ext_encode (P : Par) (e v : Val) : ext P "json.Encode" [e, v] = some [.list (P.encodeErr e v)] := id rfl
@[simp] theorem ext_writeHeader (P : Par) (w c : Val) : ext P "ResponseWriter.WriteHeader" [w, c] = some [] := id rfl
@[simp] theorem ext_id (P : Par) (v : Val) : ext P "id" [v] = some [v] := id rfl
@[simp] theorem ext_set (P : Par) (a v : Val) : ext P "set" [a, v] = some [v] := id rfl

@[simp] theorem bi_0 (a : List Val) : builtin "bytes.ToLower" a = none := builtin_none _ _ (by decide)
@[simp] theorem bi_1 (a : List Val) : builtin "fmt.Sprintf" a = none := builtin_none _ _ (by decide)
@[simp] theorem bi_2 (a : List Val) : builtin "fmt.Errorf" a = none := builtin_none _ _ (by decide)
@[simp] theorem bi_3 (a : List Val) : builtin "errors.New" a = none := builtin_none _ _ (by decide)
@[simp] theorem bi_4 (a : List Val) : builtin "LeveledEnabler.Level" a = none := builtin_none _ _ (by decide)
@[simp] theorem bi_5 (a : List Val) : builtin "LevelEnabler.Enabled" a = none := builtin_none _ _ (by decide)
@[simp] theorem bi_6 (a : List Val) : builtin "Request.FormValue" a = none := builtin_none _ _ (by decide)
@[simp] theorem bi_7 (a : List Val) : builtin "Header.Get" a = none := builtin_none _ _ (by decide)
@[simp] theorem bi_8 (a : List Val) : builtin "error.Error" a = none := builtin_none _ _ (by decide)
@[simp] theorem bi_9 (a : List Val) : builtin "json.NewEncoder" a = none := builtin_none _ _ (by decide)
@[simp] theorem bi_10 (a : List Val) : builtin "id" a = none := builtin_none _ _ (by decide)

theorem nm_encode : nm "json.Encode" = .bytes [106, 115, 111, 110, 46, 69, 110, 99, 111, 100, 101] := congrArg Val.bytes (by decide +kernel)
theorem nm_writeHeader : nm "ResponseWriter.WriteHeader" = .bytes [82, 101, 115, 112, 111, 110, 115, 101, 87, 114, 105, 116, 101, 114, 46, 87, 114, 105, 116, 101, 72, 101, 97, 100, 101, 114] :=
  congrArg Val.bytes (by decide +kernel)

theorem errV_ne_nil (c : String) (a : List Val) : errV c a = .list [.list (nm c :: a)] := rfl

end ZapVerif.TransLevel
