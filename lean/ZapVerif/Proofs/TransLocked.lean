import ZapVerif.Proofs.GoMini
import ZapVerif.Model.TransLockedX
/-! Lookup facts for the `…_matches_source` theorems of Props/C12.lean and Props/C13.lean about Gen/TransLocked.lean. -/
set_option linter.unusedSimpArgs false
namespace ZapVerif.TransLocked
open ZapVerif ZapVerif.GoMini ZapVerif.Gen.TransLocked

@[simp] theorem X_funs (P : Par) : (X P).funs = funs := id rfl
@[simp] theorem X_ext (P : Par) : (X P).ext = ext P := id rfl
@[simp] theorem ext_lock (P : Par) (a : List Val) : ext P "Mutex.Lock" a = some [] := id rfl
@[simp] theorem ext_unlock (P : Par) (a : List Val) : ext P "Mutex.Unlock" a = some [] := id rfl
@[simp] theorem ext_wwrite (P : Par) (n : Int) (werrs serrs : List Val) (b : Bytes) :
    ext P "WriteSyncer.Write" [sinkV n werrs serrs, .bytes b] = some [.int n, .list werrs] := id rfl
@[simp] theorem ext_wsync (P : Par) (n : Int) (werrs serrs : List Val) :
    ext P "WriteSyncer.Sync" [sinkV n werrs serrs] = some [.list serrs] := id rfl
@[simp] theorem ext_init (P : Par) (i w ws : Val) (size : Int) :
    ext P "BufferedWriteSyncer.initialize" [i, w, ws, .int size] = some [.bool true, P.init w ws size, ws, .int size] := id rfl
@[simp] theorem ext_avail (P : Par) (w : Val) : ext P "bufio.Available" [w] = some [.int (P.avail w)] := id rfl
@[simp] theorem ext_buffered (P : Par) (w : Val) : ext P "bufio.Buffered" [w] = some [.int (P.buffered w)] := id rfl
@[simp] theorem ext_flush (P : Par) (w : Val) : ext P "bufio.Flush" [w] = some [(P.flush w).1, .list (P.flush w).2] := id rfl
@[simp] theorem ext_bwrite (P : Par) (w : Val) (b : Bytes) :
    ext P "bufio.Write" [w, .bytes b] = some [(P.bwrite w b).1, .int (P.bwrite w b).2.1, .list (P.bwrite w b).2.2] := id rfl
@[simp] theorem bi_avail (a : List Val) : builtin "bufio.Available" a = none := builtin_none _ _ (by decide)
@[simp] theorem bi_buffered (a : List Val) : builtin "bufio.Buffered" a = none := builtin_none _ _ (by decide)

theorem nm_lock : nm "Mutex.Lock" = .bytes [77, 117, 116, 101, 120, 46, 76, 111, 99, 107] := congrArg Val.bytes (by decide +kernel)
theorem nm_unlock : nm "Mutex.Unlock" = .bytes [77, 117, 116, 101, 120, 46, 85, 110, 108, 111, 99, 107] :=
  congrArg Val.bytes (by decide +kernel)
theorem nm_wwrite : nm "WriteSyncer.Write" = .bytes [87, 114, 105, 116, 101, 83, 121, 110, 99, 101, 114, 46, 87, 114, 105, 116, 101] :=
  congrArg Val.bytes (by decide +kernel)
theorem nm_wsync : nm "WriteSyncer.Sync" = .bytes [87, 114, 105, 116, 101, 83, 121, 110, 99, 101, 114, 46, 83, 121, 110, 99] :=
  congrArg Val.bytes (by decide +kernel)
theorem nm_flush : nm "bufio.Flush" = .bytes [98, 117, 102, 105, 111, 46, 70, 108, 117, 115, 104] := congrArg Val.bytes (by decide +kernel)
theorem nm_bwrite : nm "bufio.Write" = .bytes [98, 117, 102, 105, 111, 46, 87, 114, 105, 116, 101] := congrArg Val.bytes (by decide +kernel)

end ZapVerif.TransLocked
