import ZapVerif.Proofs.GoMini
import ZapVerif.Model.TransLoggerX
import ZapVerif.Model.Core
/-! Lookup facts for the `…_matches_source` theorems of Props/C05.lean and Props/C06.lean about Gen/TransLogger.lean,
    and the reading of hook values as `Cores.HookCfg` / `Cores.Action`.  Nothing here depends on the generated terms. -/
set_option linter.unusedSimpArgs false
namespace ZapVerif.TransLogger
open ZapVerif ZapVerif.GoMini ZapVerif.Gen.TransLogger

@[simp] theorem X_funs (P : Par) : (X P).funs = funs := id rfl
@[simp] theorem X_ext (P : Par) : (X P).ext = ext P := id rfl
@[simp] theorem unCE_ceV (o : Option (List Val × List Val)) : unCE (ceV o) = some o := by
  cases o with
  | none => rfl
  | some p => cases p; rfl
@[simp] theorem lenVal_ceV_none : lenVal (ceV none) = .ok (.int 0) := id rfl
@[simp] theorem lenVal_ceV_some (p : List Val × List Val) : lenVal (ceV (some p)) = .ok (.int 2) := by cases p; rfl

@[simp] theorem ext_cen (P : Par) (c : Val) (l : Int) : ext P "Core.Enabled" [c, .int l] = some [.bool (P.cen c l)] := id rfl
@[simp] theorem ext_cen1 (P : Par) (l : Int) : ext P "Core.Enabled" [.int l] = some [.bool (P.cen (.list []) l)] := id rfl
@[simp] theorem ext_chk (P : Par) (c e n : Val) :
    ext P "Core.Check" [c, e, n] = some [ceV ((P.chk c e).map fun cs => (cs, []))] := id rfl
@[simp] theorem ext_now (P : Par) (c : Val) : ext P "Clock.Now" [c] = some [P.now c] := id rfl
@[simp] theorem ext_after (P : Par) (o : Option (List Val × List Val)) (e : Val) (h : List Val) :
    ext P "CE.After" [ceV o, e, .list h] = some [ceV (after o h)] := by simp [ext]
@[simp] theorem ext_ann (P : Par) (ce e : Val) : ext P "Logger.annotate" [ce, e] = some [P.ann ce e] := id rfl
@[simp] theorem ext_fcw (P : Par) (l : Val) : ext P "Sugar.formatCheckWrite" [l] = some [] := id rfl
@[simp] theorem bi_cen (a : List Val) : builtin "Core.Enabled" a = none := builtin_none _ _ (by decide)
@[simp] theorem bi_after (a : List Val) : builtin "CE.After" a = none := builtin_none _ _ (by decide)

theorem nm_now : nm "Clock.Now" = .bytes [67, 108, 111, 99, 107, 46, 78, 111, 119] := congrArg Val.bytes (by decide +kernel)
theorem nm_chk : nm "Core.Check" = .bytes [67, 111, 114, 101, 46, 67, 104, 101, 99, 107] := congrArg Val.bytes (by decide +kernel)
theorem nm_ann : nm "Logger.annotate" = .bytes [76, 111, 103, 103, 101, 114, 46, 97, 110, 110, 111, 116, 97, 116, 101] :=
  congrArg Val.bytes (by decide +kernel)
theorem nm_fcw : nm "Sugar.formatCheckWrite" =
    .bytes [83, 117, 103, 97, 114, 46, 102, 111, 114, 109, 97, 116, 67, 104, 101, 99, 107, 87, 114, 105, 116, 101] :=
  congrArg Val.bytes (by decide +kernel)

/-! ### hook values and the model's `HookCfg` / `Action` -/
open ZapVerif.Cores in
def actV : Action → List GoMini.Val
  | .goexit => [.int 1]
  | .panic => [.int 2]
  | .fatal => [.int 3]
  | .custom k => [.int (k + 10)]

open ZapVerif.Cores in
def hookV : HookCfg → List GoMini.Val
  | .unset => []
  | .noop => [.int 0]
  | .act a => actV a
  | .custom k => [.int (k + 10)]

open ZapVerif.Cores in
/-- `terminalHookOverride` on values is the model's `override` -/
theorem ovr_is_override (d : Action) (cfg : HookCfg) : ovr (actV d) (hookV cfg) = actV (override d cfg) := by
  cases cfg with
  | unset => simp [ovr, hookV, override]
  | noop => simp [ovr, hookV, override]
  | act a =>
    cases a <;> simp [ovr, hookV, actV, override]
    intro h; omega
  | custom k =>
    simp [ovr, hookV, actV, override]
    intro h; omega

open ZapVerif.Cores in
/-- the `switch ent.Level` on values is the model's `Logger.terminal` -/
theorem terminal_is_model (lg : Logger) (l : Int) :
    terminal l lg.dev (hookV lg.onPanic) (hookV lg.onFatal) = (lg.terminal l).map actV := by
  simp only [terminal, Logger.terminal, panicL, fatalL, dpanicL]
  have e2 : ([.int 2] : List GoMini.Val) = actV .panic := rfl
  have e3 : ([.int 3] : List GoMini.Val) = actV .fatal := rfl
  by_cases h4 : l = 4
  · simp [h4, e2, ovr_is_override]
  · by_cases h5 : l = 5
    · simp [h4, h5, e3, ovr_is_override]
    · by_cases h3 : l = 3
      · cases hd : lg.dev <;> simp [h4, h5, h3, hd, e2, ovr_is_override]
      · simp [h4, h5, h3]

end ZapVerif.TransLogger
