import ZapVerif.Proofs.GoMini
import ZapVerif.Model.TransMessageX
/-! Lookup facts for the `…_matches_source` theorems of Props/C14.lean about Gen/TransMessage.lean.  Nothing here depends on
    the generated terms. -/
set_option linter.unusedSimpArgs false
namespace ZapVerif.TransMessage
open ZapVerif ZapVerif.GoMini ZapVerif.Gen.TransMessage

@[simp] theorem X_funs (P : Par) : (X P).funs = funs := id rfl
@[simp] theorem X_ext (P : Par) : (X P).ext = ext P := id rfl
@[simp] theorem ext_sprint (P : Par) (a : List Val) : ext P "fmt.Sprint" [.list a] = some [.bytes (P.sprint a)] := id rfl
@[simp] theorem ext_sprintf (P : Par) (t : Bytes) (a : List Val) : ext P "fmt.Sprintf" [.bytes t, .list a] = some [.bytes (P.sprintf t a)] := id rfl
@[simp] theorem ext_sprintln (P : Par) (a : List Val) : ext P "fmt.Sprintln" [.list a] = some [.bytes (P.sprintln a)] := id rfl
@[simp] theorem ext_assert (P : Par) (a : Val) : ext P "assert.string" [a] =
    some (match P.asStr a with | some s => [.bytes s, .bool true] | none => [.bytes [], .bool false]) := id rfl
@[simp] theorem ext_cen (P : Par) (l : Int) : ext P "Core.Enabled" [.int l] = some [.bool (P.cen l)] := id rfl
@[simp] theorem ext_check (P : Par) (b : Val) (l : Int) (m : Bytes) : ext P "Logger.Check" [b, .int l, .bytes m] = some [.list (P.check b l m)] := id rfl
@[simp] theorem ext_sweeten (P : Par) (c : List Val) (k : Val) : ext P "Sugar.sweetenFields" [.list c, k] = some [.list (P.sweeten c)] := id rfl
@[simp] theorem ext_ceWrite (P : Par) (a b : Val) : ext P "CE.Write" [a, b] = some [] := id rfl
@[simp] theorem bi_0 (a : List Val) : builtin "fmt.Sprint" a = none := builtin_none _ _ (by decide)
@[simp] theorem bi_1 (a : List Val) : builtin "fmt.Sprintf" a = none := builtin_none _ _ (by decide)
@[simp] theorem bi_2 (a : List Val) : builtin "fmt.Sprintln" a = none := builtin_none _ _ (by decide)
@[simp] theorem bi_3 (a : List Val) : builtin "Core.Enabled" a = none := builtin_none _ _ (by decide)
theorem nm_check : nm "Logger.Check" = .bytes [76, 111, 103, 103, 101, 114, 46, 67, 104, 101, 99, 107] := congrArg Val.bytes (by decide +kernel)
theorem nm_sweeten : nm "Sugar.sweetenFields" = .bytes [83, 117, 103, 97, 114, 46, 115, 119, 101, 101, 116, 101, 110, 70, 105, 101, 108, 100, 115] :=
  congrArg Val.bytes (by decide +kernel)
theorem nm_ceWrite : nm "CE.Write" = .bytes [67, 69, 46, 87, 114, 105, 116, 101] := congrArg Val.bytes (by decide +kernel)

end ZapVerif.TransMessage
