import ZapVerif.Proofs.GoMini
import ZapVerif.Model.TransMultiWSX
/-! Lookup facts and the pure list lemmas for the `…_matches_source` theorems of Props/C13.lean about
    Gen/TransMultiWS.lean.  Nothing here depends on the shape of the generated terms. -/
set_option linter.unusedSimpArgs false
namespace ZapVerif.TransMultiWS
open ZapVerif ZapVerif.GoMini ZapVerif.Writers ZapVerif.Gen.TransMultiWS

@[simp] theorem X_funs : X.funs = funs := rfl
@[simp] theorem X_ext : X.ext = ext := rfl
@[simp] theorem ext_write (n : Int) (e s : List Val) (p : Bytes) :
    ext "sink.Write" [sinkV n e s, .bytes p] = some [.int n, .list e] := rfl
@[simp] theorem ext_sync (n : Int) (e s : List Val) : ext "sink.Sync" [sinkV n e s] = some [.list s] := rfl
@[simp] theorem bi_sync (a : List Val) : builtin "sink.Sync" a = none := builtin_none _ _ (by decide)

/-- the loop of `multiWriteSyncer.Write` as a plain fold: (count, error ids, call record) -/
def wstep (p : Bytes) (a : Nat × List Nat × List Val) (i : Nat) (y : Writers.Out × Nat) : Nat × List Nat × List Val :=
  (if i = 0 ∨ y.1.n < a.1 then y.1.n else a.1,
   if y.1.err then a.2.1 ++ [y.2] else a.2.1,
   a.2.2 ++ [.list [traceName, sinkV y.1.n (if y.1.err then [.int y.2] else []) [], .bytes p]])

/-- the fold the interpreter performs, started at position `k` -/
def wfold (p : Bytes) (outs : List Writers.Out) (k : Nat) (s : Nat × List Nat × List Val) : Nat × List Nat × List Val :=
  ((outs.zipIdx k).zipIdx k).foldl (fun a q => wstep p a q.2 q.1) s

theorem wfold_cons (p : Bytes) (o : Writers.Out) (outs : List Writers.Out) (k : Nat) (s : Nat × List Nat × List Val) :
    wfold p (o :: outs) k s = wfold p outs (k + 1) (wstep p s k (o, k)) := by
  simp [wfold, List.zipIdx_cons]

/-- the fold is the model's `multiStep` fold -/
theorem wfold_model (p : Bytes) : ∀ (outs : List Writers.Out) (k : Nat) (a : Acc) (s : Nat × List Nat × List Val),
    a.idx = k → a.errs = s.2.1 → a.count = (if k = 0 then none else some s.1) →
    (outs.foldl (multiStep p) a).errs = (wfold p outs k s).2.1 ∧
    (outs.foldl (multiStep p) a).count = (if k + outs.length = 0 then none else some (wfold p outs k s).1)
  | [], k, a, s, _, he, hc => by simp [wfold, he, hc]
  | o :: outs, k, a, s, hi, he, hc => by
    rw [wfold_cons, List.foldl_cons]
    have := wfold_model p outs (k + 1) (multiStep p a o) (wstep p s k (o, k))
      (by simp [multiStep, hi]) (by simp [multiStep, wstep, he, hi])
      (by
        simp only [multiStep, wstep, hc, Nat.add_eq_zero_iff, Nat.succ_ne_zero, and_false, if_false]
        by_cases hk : k = 0
        · simp [hk]
        · simp only [hk, if_false, false_or]
          congr 1
          by_cases hlt : o.n < s.1
          · simp [hlt]; omega
          · simp [hlt]; omega)
    rw [this.1, this.2]
    simp only [List.length_cons]
    refine ⟨trivial, ?_⟩
    have : k + 1 + outs.length = k + (outs.length + 1) := by omega
    rw [this]

theorem wfold_writes (p : Bytes) : ∀ (outs : List Writers.Out) (k : Nat) (s : Nat × List Nat × List Val),
    (wfold p outs k s).2.2 = s.2.2 ++ (outs.zipIdx k).map fun q =>
      Val.list [traceName, sinkV q.1.n (if q.1.err then [.int q.2] else []) [], .bytes p]
  | [], _, _ => by simp [wfold]
  | o :: outs, k, s => by
    rw [wfold_cons, wfold_writes p outs (k + 1)]
    simp [wstep, List.zipIdx_cons]

/-- what `multiWriteSyncer.Write` returns and records, in the model's terms -/
theorem wfold_multiWrite (p : Bytes) (outs : List Writers.Out) :
    (wfold p outs 0 (0, [], [])).1 = (multiWrite p outs).1 ∧
    (wfold p outs 0 (0, [], [])).2.1 = (multiWrite p outs).2 ∧
    (wfold p outs 0 (0, [], [])).2.2 = (sinksOf outs).map fun s => Val.list [traceName, s, .bytes p] := by
  have h := wfold_model p outs 0 {} (0, [], []) rfl rfl rfl
  refine ⟨?_, ?_, ?_⟩
  · simp only [multiWrite, multiRun, h.2]
    cases outs with
    | nil => simp [wfold]
    | cons o r => simp
  · simp only [multiWrite, multiRun, h.1]
  · rw [wfold_writes]; simp [sinksOf, List.map_map, Function.comp_def]

end ZapVerif.TransMultiWS
