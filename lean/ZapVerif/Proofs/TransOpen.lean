import ZapVerif.Proofs.GoMini
import ZapVerif.Model.TransOpenX
/-! Lookup facts for the `…_matches_source` theorems of Props/C19.lean about Gen/TransOpen.lean.  Nothing here depends
    on the generated terms. -/
set_option linter.unusedSimpArgs false
namespace ZapVerif.TransOpen
open ZapVerif ZapVerif.GoMini ZapVerif.Gen.TransOpen

@[simp] theorem X_funs (P : Par) : (X P).funs = funs := id rfl
@[simp] theorem X_ext (P : Par) : (X P).ext = ext P := id rfl
@[simp] theorem ext_newSink (P : Par) (p : Val) :
    ext P "sinkRegistry.newSink" [p] = some [.list (P.newSink p).1, .list (P.newSink p).2] := id rfl
@[simp] theorem ext_close (P : Par) (s : Val) : ext P "Sink.Close" [s] = some [.list []] := id rfl
@[simp] theorem ext_errorf (P : Par) (args : List Val) : ext P "fmt.Errorf" args = some [errV "fmt.Errorf" args] := id rfl
@[simp] theorem ext_errNew (P : Par) (args : List Val) : ext P "errors.New" args = some [errV "errors.New" args] := id rfl
@[simp] theorem ext_notFound (P : Par) (args : List Val) : ext P "errSinkNotFound" args = some [errV "errSinkNotFound" args] := id rfl
@[simp] theorem ext_addSync (P : Par) (w : Val) : ext P "zapcore.AddSync" [w] = some [.list [conV "zapcore.AddSync" [w]]] := id rfl
@[simp] theorem ext_lockWS (P : Par) (w : Val) : ext P "zapcore.Lock" [w] = some [.list [conV "zapcore.Lock" [w]]] := id rfl
@[simp] theorem ext_multiWS (P : Par) (ws : Val) :
    ext P "zapcore.NewMultiWriteSyncer" [ws] = some [.list [conV "zapcore.NewMultiWriteSyncer" [ws]]] := id rfl
@[simp] theorem ext_newEncoder (P : Par) (n c : Val) :
    ext P "newEncoder" [n, c] = some [.list (P.newEncoder n c).1, .list (P.newEncoder n c).2] := id rfl
@[simp] theorem ext_zapNew (P : Par) (c o : Val) : ext P "zap.New" [c, o] = some [.list [conV "zap.New" [c, o]]] := id rfl
@[simp] theorem ext_newCore (P : Par) (e s l : Val) : ext P "zapcore.NewCore" [e, s, l] = some [conV "zapcore.NewCore" [e, s, l]] := id rfl
@[simp] theorem ext_errorOutput (P : Par) (s : Val) : ext P "ErrorOutput" [s] = some [conV "ErrorOutput" [s]] := id rfl
@[simp] theorem ext_development (P : Par) : ext P "Development" [] = some [conV "Development" []] := id rfl
@[simp] theorem ext_addCaller (P : Par) : ext P "AddCaller" [] = some [conV "AddCaller" []] := id rfl
@[simp] theorem ext_addStacktrace (P : Par) (l : Val) : ext P "AddStacktrace" [l] = some [conV "AddStacktrace" [l]] := id rfl
@[simp] theorem ext_wrapCore (P : Par) (f : Val) : ext P "WrapCore" [f] = some [conV "WrapCore" [f]] := id rfl
@[simp] theorem ext_fields (P : Par) (fs : Val) : ext P "Fields" [fs] = some [conV "Fields" [fs]] := id rfl
@[simp] theorem ext_any (P : Par) (k v : Val) : ext P "Any" [k, v] = some [conV "Any" [k, v]] := id rfl
@[simp] theorem ext_keys (P : Par) (m : Val) : ext P "InitialFields.keys" [m] = some [.list (P.keys m)] := id rfl
@[simp] theorem ext_mapGet (P : Par) (m k : Val) : ext P "InitialFields.get" [m, k] = some [P.mapGet m k] := id rfl
@[simp] theorem ext_sort (P : Par) (ks : List Val) : ext P "sort.Strings" [.list ks] = some [.list (P.sort ks)] := id rfl
@[simp] theorem ext_closure (P : Par) (c : Val) : ext P "Closure.call" [c] = some [] := id rfl
@[simp] theorem ext_openFile (P : Par) (p a b : Val) :
    ext P "sinkRegistry.openFile" [p, a, b] = some [.list (P.openFile p).1, .list (P.openFile p).2] := id rfl
@[simp] theorem ext_port (P : Par) (u : Val) : ext P "URL.Port" [u] = some [.bytes (P.port u)] := id rfl
@[simp] theorem ext_hostname (P : Par) (u : Val) : ext P "URL.Hostname" [u] = some [.bytes (P.hostname u)] := id rfl
@[simp] theorem ext_isAbs (P : Par) (p : Val) : ext P "filepath.IsAbs" [p] = some [.bool (P.isAbs p)] := id rfl
@[simp] theorem ext_parse (P : Par) (p : Val) : ext P "url.Parse" [p] = some [(P.parse p).1, .list (P.parse p).2] := id rfl
@[simp] theorem ext_lock (P : Par) (m : Val) : ext P "Mutex.Lock" [m] = some [] := id rfl
@[simp] theorem ext_unlock (P : Par) (m : Val) : ext P "Mutex.Unlock" [m] = some [] := id rfl
@[simp] theorem ext_get (P : Par) (m k : Val) : ext P "factories.get" [m, k] = some [(P.lookup m k).1, .bool (P.lookup m k).2] := id rfl
@[simp] theorem ext_factory (P : Par) (f u : Val) :
    ext P "SinkFactory.call" [f, u] = some [.list (P.factory f u).1, .list (P.factory f u).2] := id rfl
@[simp] theorem ext_withOptions (P : Par) (l o : Val) :
    ext P "Logger.WithOptions" [l, o] = some [.list [nm "Logger.WithOptions", l, o]] := id rfl
@[simp] theorem ext_skip (P : Par) (n : Val) : ext P "AddCallerSkip" [n] = some [.list [nm "AddCallerSkip", n]] := id rfl
@[simp] theorem ext_levelToFunc (P : Par) (lg : Val) (l : Int) :
    ext P "levelToFunc" [lg, .int l] =
      some (if P.levelOK l then [.list [nm "logFunc", lg, .int l], .list []] else [.list [], errV "levelToFunc" [.int l]]) := id rfl
@[simp] theorem ext_writer (P : Par) (f : Val) : ext P "loggerWriter" [f] = some [.list [nm "loggerWriter", f]] := id rfl
@[simp] theorem ext_id (P : Par) (v : Val) : ext P "id" [v] = some [v] := id rfl
@[simp] theorem ext_set (P : Par) (a v : Val) : ext P "set" [a, v] = some [v] := id rfl

@[simp] theorem bi_0 (a : List Val) : builtin "fmt.Errorf" a = none := builtin_none _ _ (by decide)
@[simp] theorem bi_1 (a : List Val) : builtin "errors.New" a = none := builtin_none _ _ (by decide)
@[simp] theorem bi_2 (a : List Val) : builtin "errSinkNotFound" a = none := builtin_none _ _ (by decide)
@[simp] theorem bi_3 (a : List Val) : builtin "URL.Port" a = none := builtin_none _ _ (by decide)
@[simp] theorem bi_4 (a : List Val) : builtin "URL.Hostname" a = none := builtin_none _ _ (by decide)
@[simp] theorem bi_5 (a : List Val) : builtin "filepath.IsAbs" a = none := builtin_none _ _ (by decide)
@[simp] theorem bi_6 (a : List Val) : builtin "Logger.WithOptions" a = none := builtin_none _ _ (by decide)
@[simp] theorem bi_7 (a : List Val) : builtin "AddCallerSkip" a = none := builtin_none _ _ (by decide)
@[simp] theorem bi_8 (a : List Val) : builtin "loggerWriter" a = none := builtin_none _ _ (by decide)
@[simp] theorem bi_9 (a : List Val) : builtin "id" a = none := builtin_none _ _ (by decide)

@[simp] theorem ext_toLower (P : Par) (s : Bytes) : ext P "strings.ToLower" [.bytes s] = some [.bytes (P.toLower s)] := id rfl
@[simp] theorem bi_24 (a : List Val) : builtin "strings.ToLower" a = none := builtin_none _ _ (by decide)
@[simp] theorem bi_10 (a : List Val) : builtin "zapcore.AddSync" a = none := builtin_none _ _ (by decide)
@[simp] theorem bi_11 (a : List Val) : builtin "zapcore.Lock" a = none := builtin_none _ _ (by decide)
@[simp] theorem bi_12 (a : List Val) : builtin "zapcore.NewMultiWriteSyncer" a = none := builtin_none _ _ (by decide)
@[simp] theorem bi_13 (a : List Val) : builtin "zap.New" a = none := builtin_none _ _ (by decide)
@[simp] theorem bi_14 (a : List Val) : builtin "zapcore.NewCore" a = none := builtin_none _ _ (by decide)
@[simp] theorem bi_15 (a : List Val) : builtin "ErrorOutput" a = none := builtin_none _ _ (by decide)
@[simp] theorem bi_16 (a : List Val) : builtin "Development" a = none := builtin_none _ _ (by decide)
@[simp] theorem bi_17 (a : List Val) : builtin "AddCaller" a = none := builtin_none _ _ (by decide)
@[simp] theorem bi_18 (a : List Val) : builtin "AddStacktrace" a = none := builtin_none _ _ (by decide)
@[simp] theorem bi_19 (a : List Val) : builtin "WrapCore" a = none := builtin_none _ _ (by decide)
@[simp] theorem bi_20 (a : List Val) : builtin "Fields" a = none := builtin_none _ _ (by decide)
@[simp] theorem bi_21 (a : List Val) : builtin "Any" a = none := builtin_none _ _ (by decide)
@[simp] theorem bi_22 (a : List Val) : builtin "InitialFields.keys" a = none := builtin_none _ _ (by decide)
@[simp] theorem bi_23 (a : List Val) : builtin "InitialFields.get" a = none := builtin_none _ _ (by decide)

theorem lenVal_errV (c : String) (args : List Val) : lenVal (errV c args) = .ok (.int 1) := id rfl

theorem nm_newSink : nm "sinkRegistry.newSink" = .bytes [115, 105, 110, 107, 82, 101, 103, 105, 115, 116, 114, 121, 46, 110, 101, 119, 83, 105, 110, 107] :=
  congrArg Val.bytes (by decide +kernel)
theorem nm_close : nm "Sink.Close" = .bytes [83, 105, 110, 107, 46, 67, 108, 111, 115, 101] := congrArg Val.bytes (by decide +kernel)
theorem nm_newEncoder : nm "newEncoder" = .bytes [110, 101, 119, 69, 110, 99, 111, 100, 101, 114] := congrArg Val.bytes (by decide +kernel)
theorem nm_closure : nm "Closure.call" = .bytes [67, 108, 111, 115, 117, 114, 101, 46, 99, 97, 108, 108] :=
  congrArg Val.bytes (by decide +kernel)
theorem nm_openFile : nm "sinkRegistry.openFile" = .bytes [115, 105, 110, 107, 82, 101, 103, 105, 115, 116, 114, 121, 46, 111, 112, 101, 110, 70, 105, 108, 101] :=
  congrArg Val.bytes (by decide +kernel)
theorem nm_lock : nm "Mutex.Lock" = .bytes [77, 117, 116, 101, 120, 46, 76, 111, 99, 107] := congrArg Val.bytes (by decide +kernel)
theorem nm_unlock : nm "Mutex.Unlock" = .bytes [77, 117, 116, 101, 120, 46, 85, 110, 108, 111, 99, 107] :=
  congrArg Val.bytes (by decide +kernel)
theorem nm_factory : nm "SinkFactory.call" = .bytes [83, 105, 110, 107, 70, 97, 99, 116, 111, 114, 121, 46, 99, 97, 108, 108] :=
  congrArg Val.bytes (by decide +kernel)

end ZapVerif.TransOpen
