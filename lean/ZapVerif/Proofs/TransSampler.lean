import ZapVerif.Proofs.GoMini
import ZapVerif.Model.TransSamplerX
/-! Lookup facts and width arithmetic for the `…_matches_source` theorems of Props/C11.lean about
    Gen/TransSampler.lean.  Nothing here depends on the shape of the generated terms. -/
namespace ZapVerif.TransSampler
open ZapVerif ZapVerif.GoMini ZapVerif.Sampler ZapVerif.Gen.TransSampler

@[simp] theorem X_funs (en : Int → Bool) : (X en).funs = funs := rfl
@[simp] theorem X_ext (en : Int → Bool) : (X en).ext = ext en := rfl
@[simp] theorem bi_enabled (a : List Val) : builtin "Enabled" a = none := builtin_none _ _ (by decide)
@[simp] theorem bi_get (a : List Val) : builtin "counts.get" a = none := builtin_none _ _ (by decide)
@[simp] theorem ext_enabled (en : Int → Bool) (l : Int) : ext en "Enabled" [.int l] = some [.bool (en l)] := rfl
@[simp] theorem ext_get (en : Int → Bool) (c : Val) (l : Int) (m : Bytes) :
    ext en "counts.get" [c, .int l, .bytes m] = some [.list [.int l, .int (Sampler.bucket m)]] := rfl
@[simp] theorem ext_hook (en : Int → Bool) (tr : List Val) (e : Val) (d : Int) :
    ext en "hook" [.list tr, e, .int d] = some [.list (tr ++ [.int d])] := rfl
@[simp] theorem ext_core (en : Int → Bool) (fw : List Val) (e ce : Val) :
    ext en "Core.Check" [.list fw, e, ce] = some [.list (fw ++ [e]), .list [ce]] := rfl

/-- one round of FNV-1a on `Int`s as GoMini computes it = the `UInt32` round of `Model/Sampler.lean` -/
theorem fnv_round (h : UInt32) (b : UInt8) :
    wrap .u32 (((h.toNat ^^^ (wrap .u32 (b.toNat : Int)).toNat : Nat) : Int) * 16777619) =
      (((h ^^^ b.toUInt32) * fnvPrime).toNat : Int) := by
  have hb : wrap .u32 (b.toNat : Int) = b.toNat := by
    rw [wrap_u32_id] <;> have := b.toNat_lt <;> omega
  rw [hb]
  have e1 : ((h ^^^ b.toUInt32) * fnvPrime).toNat = ((h.toNat ^^^ b.toNat) * 16777619) % 4294967296 := by
    rw [UInt32.toNat_mul, UInt32.toNat_xor, UInt8.toNat_toUInt32]; rfl
  rw [e1, Int.toNat_natCast]
  generalize h.toNat ^^^ b.toNat = k
  simp only [wrap]
  omega

end ZapVerif.TransSampler
