import ZapVerif.Proofs.GoMini
import ZapVerif.Model.TransSlogX
/-! Lookup facts for the `…_matches_source` theorems of Props/C18.lean about Gen/TransSlog.lean.  Nothing here depends
    on the generated terms. -/
set_option linter.unusedSimpArgs false
namespace ZapVerif.TransSlog
open ZapVerif ZapVerif.GoMini ZapVerif.Slog ZapVerif.Gen.TransSlog

@[simp] theorem X_funs (P : Par) : (X P).funs = funs := id rfl
@[simp] theorem X_ext (P : Par) : (X P).ext = ext P := id rfl

/-- key and value of an encoded attribute -/
def keyOf : SAttr → String
  | .leaf k _ _ => k
  | .nilv k _ => k
  | .group k _ _ => k

theorem attrV_eq (a : SAttr) : attrV a = .list [.bytes (sbytes (keyOf a)), valueV a] := by
  cases a <;> simp [attrV, valueV, keyOf]

@[simp] theorem idx_attr0 (a : SAttr) : indexVal (attrV a) (.int 0) = .ok (.bytes (sbytes (keyOf a))) := by
  rw [attrV_eq]; rfl
@[simp] theorem idx_attr1 (a : SAttr) : indexVal (attrV a) (.int 1) = .ok (valueV a) := by
  rw [attrV_eq]; rfl

/-- `Value.Resolve` strips every LogValuer layer -/
def resolved : SAttr → SAttr
  | .leaf k _ l => .leaf k 0 l
  | .nilv k _ => .nilv k 0
  | .group k _ ms => .group k 0 ms

def lvOf : SAttr → Nat
  | .leaf _ lv _ => lv
  | .nilv _ lv => lv
  | .group _ lv _ => lv

/-- `Value.Kind` of a resolved value -/
def kind0 : SAttr → Int
  | .leaf _ _ l => kindOfTy l.ty
  | .nilv _ _ => 0
  | .group _ _ _ => 8

@[simp] theorem ext_resolve (P : Par) (a : SAttr) : ext P "Value.Resolve" [valueV a] = some [valueV (resolved a)] := by
  cases a <;> rfl
@[simp] theorem ext_kind (P : Par) (a : SAttr) :
    ext P "Value.Kind" [valueV a] = some [.int (if (lvOf a : Int) > 0 then 9 else kind0 a)] := by
  cases a <;> rfl
@[simp] theorem ext_group (P : Par) (k : String) (lv : Nat) (ms : List SAttr) :
    ext P "Value.Group" [valueV (.group k lv ms)] = some [.list (attrsV ms)] := rfl
@[simp] theorem ext_payload_leaf (P : Par) (k : String) (lv : Nat) (l : Leaf) :
    ext P "Value.Payload" [valueV (.leaf k lv l)] = some [leafV l] := rfl
@[simp] theorem ext_payload_nil (P : Par) (k : String) (lv : Nat) :
    ext P "Value.Payload" [valueV (.nilv k lv)] = some [leafV nilLeaf] := rfl

/-- `attr.Equal(slog.Attr{})` -/
def isZeroAttr : SAttr → Bool
  | .nilv k lv => (sbytes k).isEmpty && ((lv : Int) == 0)
  | _ => false

@[simp] theorem ext_equal (P : Par) (a : SAttr) (z : Val) :
    ext P "Attr.Equal" [.list [.bytes (sbytes (keyOf a)), valueV a], z] = some [.bool (isZeroAttr a)] := by
  cases a <;> rfl

theorem sbytes_isEmpty (k : String) : (sbytes k).isEmpty = decide (k = "") := by
  unfold sbytes
  by_cases h : k = ""
  · subst h; simp
  · have : k.toList ≠ [] := fun he => h (String.toList_eq_nil_iff.mp he)
    simp [h, this]

theorem sbytes_eq_nil (k : String) : (sbytes k = []) ↔ k = "" := by
  have := sbytes_isEmpty k
  by_cases h : k = "" <;> simp_all

theorem keyOf_resolved (a : SAttr) : keyOf (resolved a) = keyOf a := by cases a <;> rfl
theorem lvOf_resolved (a : SAttr) : lvOf (resolved a) = 0 := by cases a <;> rfl
@[simp] theorem attrV_resolved (a : SAttr) : Val.list [.bytes (sbytes (keyOf a)), valueV (resolved a)] = attrV (resolved a) := by
  rw [attrV_eq, keyOf_resolved]
@[simp] theorem ext_equal' (P : Par) (a : SAttr) (z : Val) : ext P "Attr.Equal" [attrV a, z] = some [.bool (isZeroAttr a)] := by
  cases a <;> rfl
@[simp] theorem builtin_tuple2 (a b : Val) : builtin "tuple" [a, b] = some (.list [a, b]) := id rfl

theorem kindOfTy_range (ty : String) : 0 ≤ kindOfTy ty ∧ kindOfTy ty ≤ 7 := by
  unfold kindOfTy
  repeat' split
  all_goals omega

/-- the kind switch of `convertAttrToField` picks the constructor that carries the model's type tag -/
theorem kind_ctor (ty : String) :
    (kindOfTy ty = 1 ∧ ctorOfTy ty = "zap.Bool") ∨ (kindOfTy ty = 2 ∧ ctorOfTy ty = "zap.Duration") ∨
    (kindOfTy ty = 3 ∧ ctorOfTy ty = "zap.Float64") ∨ (kindOfTy ty = 4 ∧ ctorOfTy ty = "zap.Int64") ∨
    (kindOfTy ty = 5 ∧ ctorOfTy ty = "zap.String") ∨ (kindOfTy ty = 6 ∧ ctorOfTy ty = "zap.Time") ∨
    (kindOfTy ty = 7 ∧ ctorOfTy ty = "zap.Uint64") ∨ (kindOfTy ty = 0 ∧ ctorOfTy ty = "zap.Any") := by
  unfold kindOfTy ctorOfTy
  by_cases h1 : ty = "bool"; · simp [h1]
  by_cases h2 : ty = "duration"; · simp [h1, h2]
  by_cases h3 : ty = "float64"; · simp [h1, h2, h3]
  by_cases h4 : ty = "int64"; · simp [h1, h2, h3, h4]
  by_cases h5 : ty = "string"; · simp [h1, h2, h3, h4, h5]
  by_cases h6 : ty = "time"; · simp [h1, h2, h3, h4, h5, h6]
  by_cases h7 : ty = "uint64"; · simp [h1, h2, h3, h4, h5, h6, h7]
  simp [h1, h2, h3, h4, h5, h6, h7]

theorem nm_ne_skip (s : String) (h : (sbytes s == sbytes "zap.Skip") = false) (r : List Val) :
    Val.beqs (nm s :: r) [nm "zap.Skip"] = false := by
  simp [Val.beq, nm, h]

/-- `f != zap.Skip()` on what `convertAttrToField` returned -/
theorem convV_ne_skip (a : SAttr) : evalBin .ne (convV a) skipV = .ok (.bool (!isSkip (convert a))) := by
  have hs : Val.beqs [nm "zap.Skip"] [nm "zap.Skip"] = true := by simp [Val.beq, nm]
  have n0 := nm_ne_skip "zap.Bool" (by decide +kernel)
  have n1 := nm_ne_skip "zap.Duration" (by decide +kernel)
  have n2 := nm_ne_skip "zap.Float64" (by decide +kernel)
  have n3 := nm_ne_skip "zap.Int64" (by decide +kernel)
  have n4 := nm_ne_skip "zap.String" (by decide +kernel)
  have n5 := nm_ne_skip "zap.Time" (by decide +kernel)
  have n6 := nm_ne_skip "zap.Uint64" (by decide +kernel)
  have n7 := nm_ne_skip "zap.Any" (by decide +kernel)
  have n8 := nm_ne_skip "zap.Inline" (by decide +kernel)
  have n9 := nm_ne_skip "zap.Object" (by decide +kernel)
  cases a with
  | leaf k lv l =>
    rcases kind_ctor l.ty with ⟨_, hc⟩ | ⟨_, hc⟩ | ⟨_, hc⟩ | ⟨_, hc⟩ | ⟨_, hc⟩ | ⟨_, hc⟩ | ⟨_, hc⟩ | ⟨_, hc⟩ <;>
      simp [convV, skipV, convert, isSkip, hc, n0, n1, n2, n3, n4, n5, n6, n7, n8, n9]
  | nilv k lv =>
    by_cases hk : k = ""
    · simp [convV, skipV, convert, isSkip, hk, hs]
    · simp [convV, skipV, convert, isSkip, hk, n0, n1, n2, n3, n4, n5, n6, n7, n8, n9]
  | group k lv ms =>
    cases hany : anyContent ms
    · simp [convV, skipV, convert, isSkip, hany, hs]
    · by_cases hk : k = "" <;> simp [convV, skipV, convert, isSkip, hany, hk, n0, n1, n2, n3, n4, n5, n6, n7, n8, n9]

theorem convV_resolved (a : SAttr) : convV (resolved a) = convV a := by cases a <;> rfl
theorem dep_resolved (a : SAttr) : dep (resolved a) = dep a := by cases a <;> rfl

/-! ### the insertion loop is the model's `ins` -/

def itemV : String ⊕ SAttr → Val
  | .inl g => .list [nm "zap.Namespace", .bytes (sbytes g)]
  | .inr a => convV a

def itemF : String ⊕ SAttr → Fld
  | .inl g => .ns g
  | .inr a => convert a

/-- `Slog.ins` over the attributes themselves -/
def insItems (p : List String) : List SAttr → List (String ⊕ SAttr) × Bool
  | [] => ([], false)
  | a :: r =>
    if isSkip (convert a) then (.inr a :: (insItems p r).1, (insItems p r).2)
    else (p.map .inl ++ .inr a :: r.map .inr, true)

theorem converts_eq_map : ∀ as : List SAttr, converts as = as.map convert
  | [] => rfl
  | a :: r => by simp [converts, converts_eq_map r]

theorem insItems_is_ins (p : List String) : ∀ as : List SAttr,
    (insItems p as).1.map itemF = (ins p (converts as)).1 ∧ (insItems p as).2 = (ins p (converts as)).2
  | [] => by simp [insItems, ins, converts]
  | a :: r => by
    obtain ⟨h1, h2⟩ := insItems_is_ins p r
    cases hs : isSkip (convert a)
    · simp [insItems, ins, converts, hs, itemF, converts_eq_map, List.map_map, Function.comp_def]
    · simp [insItems, ins, converts, hs, itemF, h1, h2]

theorem attrFold_true (gs : List Bytes) : ∀ (as : List SAttr) (pre : List Val),
    as.foldl (attrStep gs) (pre, true) = (pre ++ as.map convV, true)
  | [], pre => by simp
  | a :: r, pre => by
    simp only [List.foldl_cons, attrStep, Bool.not_true, Bool.false_and, Bool.false_eq_true, if_false]
    rw [attrFold_true gs r]; simp

theorem attrFold_nil : ∀ (as : List SAttr) (acc : List Val × Bool),
    as.foldl (attrStep []) acc = (acc.1 ++ as.map convV, acc.2)
  | [], acc => by simp
  | a :: r, acc => by
    simp only [List.foldl_cons, attrStep, List.isEmpty_nil, Bool.not_true, Bool.and_false, Bool.false_and,
      Bool.false_eq_true, if_false]
    rw [attrFold_nil r]; simp

theorem attrFold_false (p : List String) (hp : p ≠ []) : ∀ (as : List SAttr) (pre : List Val),
    as.foldl (attrStep (p.map sbytes)) (pre, false) = (pre ++ (insItems p as).1.map itemV, (insItems p as).2)
  | [], pre => by simp [insItems]
  | a :: r, pre => by
    have hne : (p.map sbytes).isEmpty = false := by cases p <;> simp_all
    cases hs : isSkip (convert a)
    · simp only [List.foldl_cons, attrStep, hne, hs, Bool.not_false, Bool.and_self, if_true]
      rw [attrFold_true]
      simp [insItems, hs, itemV, List.map_map, Function.comp_def, List.append_assoc]
    · simp only [List.foldl_cons, attrStep, hs, Bool.not_true, Bool.and_false, Bool.false_eq_true, if_false]
      rw [attrFold_false p hp r]
      simp [insItems, hs, itemV, List.append_assoc]

/-- **withAttrsSpec_is_ins**: the fields `WithAttrs` hands to `core.With`, and whether it clears the pending groups, are
    the model's `addAttrs` (`Slog.ins` over the converted attributes) -/
theorem withAttrsSpec_is_ins (pending : List String) (as : List SAttr) :
    ∃ items : List (String ⊕ SAttr),
      (withAttrsSpec (pending.map sbytes) as).1 = items.map itemV ∧
      (addAttrs ⟨[], pending⟩ (converts as)).ctx = items.map itemF ∧
      (addAttrs ⟨[], pending⟩ (converts as)).pending = (if (withAttrsSpec (pending.map sbytes) as).2 then [] else pending) := by
  by_cases hp : pending = []
  · subst hp
    refine ⟨as.map .inr, ?_, ?_, ?_⟩
    · simp [withAttrsSpec, attrFold_nil, itemV, List.map_map, Function.comp_def]
    · simp [addAttrs, converts_eq_map, itemF, List.map_map, Function.comp_def]
    · simp [addAttrs, withAttrsSpec, attrFold_nil]
  · obtain ⟨h1, h2⟩ := insItems_is_ins pending as
    have hne : pending.isEmpty = false := by cases pending <;> simp_all
    refine ⟨(insItems pending as).1, ?_, ?_, ?_⟩
    · simp [withAttrsSpec, attrFold_false pending hp]
    · simp [addAttrs, hne, h1]
    · simp only [addAttrs, hne, withAttrsSpec, attrFold_false pending hp, ← h2]
      cases (insItems pending as).2 <;> simp

@[simp] theorem ext_skip (P : Par) : ext P "zap.Skip" [] = some [skipV] := id rfl
@[simp] theorem ext_ctor2 (P : Par) (k p : Val) :
    ext P "zap.Bool" [k, p] = some [.list [nm "zap.Bool", k, p]] ∧ ext P "zap.Duration" [k, p] = some [.list [nm "zap.Duration", k, p]] ∧
    ext P "zap.Float64" [k, p] = some [.list [nm "zap.Float64", k, p]] ∧ ext P "zap.Int64" [k, p] = some [.list [nm "zap.Int64", k, p]] ∧
    ext P "zap.String" [k, p] = some [.list [nm "zap.String", k, p]] ∧ ext P "zap.Time" [k, p] = some [.list [nm "zap.Time", k, p]] ∧
    ext P "zap.Uint64" [k, p] = some [.list [nm "zap.Uint64", k, p]] ∧ ext P "zap.Any" [k, p] = some [.list [nm "zap.Any", k, p]] ∧
    ext P "zap.Object" [k, p] = some [.list [nm "zap.Object", k, p]] :=
  ⟨rfl, rfl, rfl, rfl, rfl, rfl, rfl, rfl, rfl⟩
@[simp] theorem ext_inline (P : Par) (ms : Val) : ext P "zap.Inline" [ms] = some [.list [nm "zap.Inline", ms]] := id rfl
@[simp] theorem ext_ns (P : Par) (g : Val) : ext P "zap.Namespace" [g] = some [.list [nm "zap.Namespace", g]] := id rfl
@[simp] theorem ext_with (P : Par) (c fs : Val) : ext P "Core.With" [c, fs] = some [P.coreWith c fs] := id rfl
@[simp] theorem ext_check (P : Par) (c e n : Val) : ext P "Core.Check" [c, e, n] = some [P.check c e] := id rfl
@[simp] theorem ext_frame (P : Par) (pc : Val) : ext P "runtime.frameOf" [pc] = some [(P.frame pc).1, .bool (P.frame pc).2] := id rfl
@[simp] theorem ext_take (P : Par) (n : Int) : ext P "stacktrace.Take" [.int n] = some [.bytes (P.take n)] := id rfl
@[simp] theorem ext_caw (P : Par) (a b : Val) : ext P "Handler.convertAndWrite" [a, b] = some [.list []] := id rfl
theorem ext_makeStrings (P : Par) (n : Nat) :
    ext P "make.strings" [.int (n : Int)] = some [.list (List.replicate n (.bytes []))] := by
  rw [show ext P "make.strings" [.int (n : Int)] =
    (if (n : Int) < 0 then none else some [.list (List.replicate (n : Int).toNat (.bytes []))]) from rfl]
  have : ¬ ((n : Int) < 0) := by omega
  simp [this]
@[simp] theorem ext_copy (P : Par) (dst src : List Val) :
    ext P "copy" [.list dst, .list src] =
      some [.list (src.take dst.length ++ dst.drop src.length), .int (min dst.length src.length)] := id rfl
theorem ext_set (P : Par) (l : List Val) (i : Nat) (v : Val) (h : i < l.length) :
    ext P "slice.set" [.list l, .int (i : Int), v] = some [.list (l.set i v)] := by
  rw [show ext P "slice.set" [.list l, .int (i : Int), v] =
    (if 0 ≤ (i : Int) ∧ (i : Int).toNat < l.length then some [.list (l.set (i : Int).toNat v)] else none) from rfl]
  have : (0 : Int) ≤ (i : Int) := by omega
  simp [this, h]

@[simp] theorem bi_0 (a : List Val) : builtin "zap.Skip" a = none := builtin_none _ _ (by decide)
@[simp] theorem bi_1 (a : List Val) : builtin "zap.Bool" a = none := builtin_none _ _ (by decide)
@[simp] theorem bi_2 (a : List Val) : builtin "zap.Duration" a = none := builtin_none _ _ (by decide)
@[simp] theorem bi_3 (a : List Val) : builtin "zap.Float64" a = none := builtin_none _ _ (by decide)
@[simp] theorem bi_4 (a : List Val) : builtin "zap.Int64" a = none := builtin_none _ _ (by decide)
@[simp] theorem bi_5 (a : List Val) : builtin "zap.String" a = none := builtin_none _ _ (by decide)
@[simp] theorem bi_6 (a : List Val) : builtin "zap.Time" a = none := builtin_none _ _ (by decide)
@[simp] theorem bi_7 (a : List Val) : builtin "zap.Uint64" a = none := builtin_none _ _ (by decide)
@[simp] theorem bi_8 (a : List Val) : builtin "zap.Any" a = none := builtin_none _ _ (by decide)
@[simp] theorem bi_9 (a : List Val) : builtin "zap.Inline" a = none := builtin_none _ _ (by decide)
@[simp] theorem bi_10 (a : List Val) : builtin "zap.Object" a = none := builtin_none _ _ (by decide)
@[simp] theorem bi_11 (a : List Val) : builtin "zap.Namespace" a = none := builtin_none _ _ (by decide)
@[simp] theorem bi_12 (a : List Val) : builtin "Value.Resolve" a = none := builtin_none _ _ (by decide)
@[simp] theorem bi_13 (a : List Val) : builtin "Value.Kind" a = none := builtin_none _ _ (by decide)
@[simp] theorem bi_14 (a : List Val) : builtin "Value.Group" a = none := builtin_none _ _ (by decide)
@[simp] theorem bi_15 (a : List Val) : builtin "Value.Payload" a = none := builtin_none _ _ (by decide)
@[simp] theorem bi_16 (a : List Val) : builtin "Attr.Equal" a = none := builtin_none _ _ (by decide)
@[simp] theorem bi_17 (a : List Val) : builtin "Core.With" a = none := builtin_none _ _ (by decide)
@[simp] theorem bi_18 (a : List Val) : builtin "Core.Check" a = none := builtin_none _ _ (by decide)
@[simp] theorem bi_19 (a : List Val) : builtin "stacktrace.Take" a = none := builtin_none _ _ (by decide)
@[simp] theorem bi_20 (a : List Val) : builtin "make.strings" a = none := builtin_none _ _ (by decide)
@[simp] theorem bi_21 (a : List Val) : builtin "slice.set" a = none := builtin_none _ _ (by decide)

end ZapVerif.TransSlog
