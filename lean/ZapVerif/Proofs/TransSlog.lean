import ZapVerif.Proofs.GoMini
import ZapVerif.Model.TransSlogX
/-! Lookup facts for the `…_matches_source` theorems of Props/C18.lean about Gen/TransSlog.lean.  Nothing here depends
    on the generated terms. -/
set_option linter.unusedSimpArgs false
namespace ZapVerif.TransSlog
open ZapVerif ZapVerif.GoMini ZapVerif.Slog ZapVerif.Gen.TransSlog

@[simp] theorem X_funs (P : Par) : (X P).funs = funs := id rfl
@[simp] theorem X_ext (P : Par) : (X P).ext = ext P := id rfl

/-- key and value of an encoded attribute -/
def keyOf : SAttr → String
  | .leaf k _ _ => k
  | .nilv k _ => k
  | .group k _ _ => k

theorem attrV_eq (a : SAttr) : attrV a = .list [.bytes (sbytes (keyOf a)), valueV a] := by
  cases a <;> simp [attrV, valueV, keyOf]

@[simp] theorem idx_attr0 (a : SAttr) : indexVal (attrV a) (.int 0) = .ok (.bytes (sbytes (keyOf a))) := by
  rw [attrV_eq]; rfl
@[simp] theorem idx_attr1 (a : SAttr) : indexVal (attrV a) (.int 1) = .ok (valueV a) := by
  rw [attrV_eq]; rfl

/-- `Value.Resolve` strips every LogValuer layer -/
def resolved : SAttr → SAttr
  | .leaf k _ l => .leaf k 0 l
  | .nilv k _ => .nilv k 0
  | .group k _ ms => .group k 0 ms

def lvOf : SAttr → Nat
  | .leaf _ lv _ => lv
  | .nilv _ lv => lv
  | .group _ lv _ => lv

/-- `Value.Kind` of a resolved value -/
def kind0 : SAttr → Int
  | .leaf _ _ l => kindOfTy l.ty
  | .nilv _ _ => 0
  | .group _ _ _ => 8

@[simp] theorem ext_resolve (P : Par) (a : SAttr) : ext P "Value.Resolve" [valueV a] = some [valueV (resolved a)] := by
  cases a <;> rfl
@[simp] theorem ext_kind (P : Par) (a : SAttr) :
    ext P "Value.Kind" [valueV a] = some [.int (if (lvOf a : Int) > 0 then 9 else kind0 a)] := by
  cases a <;> rfl
@[simp] theorem ext_group (P : Par) (k : String) (lv : Nat) (ms : List SAttr) :
    ext P "Value.Group" [valueV (.group k lv ms)] = some [.list (attrsV ms)] := rfl
@[simp] theorem ext_payload_leaf (P : Par) (k : String) (lv : Nat) (l : Leaf) :
    ext P "Value.Payload" [valueV (.leaf k lv l)] = some [leafV l] := rfl
@[simp] theorem ext_payload_nil (P : Par) (k : String) (lv : Nat) :
    ext P "Value.Payload" [valueV (.nilv k lv)] = some [leafV nilLeaf] := rfl

/-- `attr.Equal(slog.Attr{})` -/
def isZeroAttr : SAttr → Bool
  | .nilv k lv => (sbytes k).isEmpty && ((lv : Int) == 0)
  | _ => false

@[simp] theorem ext_equal (P : Par) (a : SAttr) (z : Val) :
    ext P "Attr.Equal" [.list [.bytes (sbytes (keyOf a)), valueV a], z] = some [.bool (isZeroAttr a)] := by
  cases a <;> rfl

theorem sbytes_isEmpty (k : String) : (sbytes k).isEmpty = decide (k = "") := by
  unfold sbytes
  by_cases h : k = ""
  · subst h; simp
  · have : k.toList ≠ [] := fun he => h (String.toList_eq_nil_iff.mp he)
    simp [h, this]

theorem sbytes_eq_nil (k : String) : (sbytes k = []) ↔ k = "" := by
  have := sbytes_isEmpty k
  by_cases h : k = "" <;> simp_all

theorem keyOf_resolved (a : SAttr) : keyOf (resolved a) = keyOf a := by cases a <;> rfl
theorem lvOf_resolved (a : SAttr) : lvOf (resolved a) = 0 := by cases a <;> rfl
@[simp] theorem attrV_resolved (a : SAttr) : Val.list [.bytes (sbytes (keyOf a)), valueV (resolved a)] = attrV (resolved a) := by
  rw [attrV_eq, keyOf_resolved]
@[simp] theorem ext_equal' (P : Par) (a : SAttr) (z : Val) : ext P "Attr.Equal" [attrV a, z] = some [.bool (isZeroAttr a)] := by
  cases a <;> rfl
@[simp] theorem builtin_tuple2 (a b : Val) : builtin "tuple" [a, b] = some (.list [a, b]) := id rfl

theorem kindOfTy_range (ty : String) : 0 ≤ kindOfTy ty ∧ kindOfTy ty ≤ 7 := by
  unfold kindOfTy
  repeat' split
  all_goals omega

/-- the kind switch of `convertAttrToField` picks the constructor that carries the model's type tag -/
theorem kind_ctor (ty : String) :
    (kindOfTy ty = 1 ∧ ctorOfTy ty = "zap.Bool") ∨ (kindOfTy ty = 2 ∧ ctorOfTy ty = "zap.Duration") ∨
    (kindOfTy ty = 3 ∧ ctorOfTy ty = "zap.Float64") ∨ (kindOfTy ty = 4 ∧ ctorOfTy ty = "zap.Int64") ∨
    (kindOfTy ty = 5 ∧ ctorOfTy ty = "zap.String") ∨ (kindOfTy ty = 6 ∧ ctorOfTy ty = "zap.Time") ∨
    (kindOfTy ty = 7 ∧ ctorOfTy ty = "zap.Uint64") ∨ (kindOfTy ty = 0 ∧ ctorOfTy ty = "zap.Any") := by
  unfold kindOfTy ctorOfTy
  by_cases h1 : ty = "bool"; · simp [h1]
  by_cases h2 : ty = "duration"; · simp [h1, h2]
  by_cases h3 : ty = "float64"; · simp [h1, h2, h3]
  by_cases h4 : ty = "int64"; · simp [h1, h2, h3, h4]
  by_cases h5 : ty = "string"; · simp [h1, h2, h3, h4, h5]
  by_cases h6 : ty = "time"; · simp [h1, h2, h3, h4, h5, h6]
  by_cases h7 : ty = "uint64"; · simp [h1, h2, h3, h4, h5, h6, h7]
  simp [h1, h2, h3, h4, h5, h6, h7]

theorem convV_resolved (a : SAttr) : convV (resolved a) = convV a := by cases a <;> rfl
theorem dep_resolved (a : SAttr) : dep (resolved a) = dep a := by cases a <;> rfl

@[simp] theorem ext_skip (P : Par) : ext P "zap.Skip" [] = some [skipV] := id rfl
@[simp] theorem ext_ctor2 (P : Par) (k p : Val) :
    ext P "zap.Bool" [k, p] = some [.list [nm "zap.Bool", k, p]] ∧ ext P "zap.Duration" [k, p] = some [.list [nm "zap.Duration", k, p]] ∧
    ext P "zap.Float64" [k, p] = some [.list [nm "zap.Float64", k, p]] ∧ ext P "zap.Int64" [k, p] = some [.list [nm "zap.Int64", k, p]] ∧
    ext P "zap.String" [k, p] = some [.list [nm "zap.String", k, p]] ∧ ext P "zap.Time" [k, p] = some [.list [nm "zap.Time", k, p]] ∧
    ext P "zap.Uint64" [k, p] = some [.list [nm "zap.Uint64", k, p]] ∧ ext P "zap.Any" [k, p] = some [.list [nm "zap.Any", k, p]] ∧
    ext P "zap.Object" [k, p] = some [.list [nm "zap.Object", k, p]] :=
  ⟨rfl, rfl, rfl, rfl, rfl, rfl, rfl, rfl, rfl⟩
@[simp] theorem ext_inline (P : Par) (ms : Val) : ext P "zap.Inline" [ms] = some [.list [nm "zap.Inline", ms]] := id rfl
@[simp] theorem ext_ns (P : Par) (g : Val) : ext P "zap.Namespace" [g] = some [.list [nm "zap.Namespace", g]] := id rfl
@[simp] theorem ext_with (P : Par) (c fs : Val) : ext P "Core.With" [c, fs] = some [P.coreWith c fs] := id rfl
@[simp] theorem ext_check (P : Par) (c e n : Val) : ext P "Core.Check" [c, e, n] = some [P.check c e] := id rfl
@[simp] theorem ext_frame (P : Par) (pc : Val) : ext P "runtime.frameOf" [pc] = some [(P.frame pc).1, .bool (P.frame pc).2] := id rfl
@[simp] theorem ext_take (P : Par) (n : Int) : ext P "stacktrace.Take" [.int n] = some [.bytes (P.take n)] := id rfl
@[simp] theorem ext_caw (P : Par) (a b : Val) : ext P "Handler.convertAndWrite" [a, b] = some [.list []] := id rfl
theorem ext_makeStrings (P : Par) (n : Nat) :
    ext P "make.strings" [.int (n : Int)] = some [.list (List.replicate n (.bytes []))] := by
  rw [show ext P "make.strings" [.int (n : Int)] =
    (if (n : Int) < 0 then none else some [.list (List.replicate (n : Int).toNat (.bytes []))]) from rfl]
  have : ¬ ((n : Int) < 0) := by omega
  simp [this]
@[simp] theorem ext_copy (P : Par) (dst src : List Val) :
    ext P "copy" [.list dst, .list src] =
      some [.list (src.take dst.length ++ dst.drop src.length), .int (min dst.length src.length)] := id rfl
theorem ext_set (P : Par) (l : List Val) (i : Nat) (v : Val) (h : i < l.length) :
    ext P "slice.set" [.list l, .int (i : Int), v] = some [.list (l.set i v)] := by
  rw [show ext P "slice.set" [.list l, .int (i : Int), v] =
    (if 0 ≤ (i : Int) ∧ (i : Int).toNat < l.length then some [.list (l.set (i : Int).toNat v)] else none) from rfl]
  have : (0 : Int) ≤ (i : Int) := by omega
  simp [this, h]

@[simp] theorem bi_0 (a : List Val) : builtin "zap.Skip" a = none := builtin_none _ _ (by decide)
@[simp] theorem bi_1 (a : List Val) : builtin "zap.Bool" a = none := builtin_none _ _ (by decide)
@[simp] theorem bi_2 (a : List Val) : builtin "zap.Duration" a = none := builtin_none _ _ (by decide)
@[simp] theorem bi_3 (a : List Val) : builtin "zap.Float64" a = none := builtin_none _ _ (by decide)
@[simp] theorem bi_4 (a : List Val) : builtin "zap.Int64" a = none := builtin_none _ _ (by decide)
@[simp] theorem bi_5 (a : List Val) : builtin "zap.String" a = none := builtin_none _ _ (by decide)
@[simp] theorem bi_6 (a : List Val) : builtin "zap.Time" a = none := builtin_none _ _ (by decide)
@[simp] theorem bi_7 (a : List Val) : builtin "zap.Uint64" a = none := builtin_none _ _ (by decide)
@[simp] theorem bi_8 (a : List Val) : builtin "zap.Any" a = none := builtin_none _ _ (by decide)
@[simp] theorem bi_9 (a : List Val) : builtin "zap.Inline" a = none := builtin_none _ _ (by decide)
@[simp] theorem bi_10 (a : List Val) : builtin "zap.Object" a = none := builtin_none _ _ (by decide)
@[simp] theorem bi_11 (a : List Val) : builtin "zap.Namespace" a = none := builtin_none _ _ (by decide)
@[simp] theorem bi_12 (a : List Val) : builtin "Value.Resolve" a = none := builtin_none _ _ (by decide)
@[simp] theorem bi_13 (a : List Val) : builtin "Value.Kind" a = none := builtin_none _ _ (by decide)
@[simp] theorem bi_14 (a : List Val) : builtin "Value.Group" a = none := builtin_none _ _ (by decide)
@[simp] theorem bi_15 (a : List Val) : builtin "Value.Payload" a = none := builtin_none _ _ (by decide)
@[simp] theorem bi_16 (a : List Val) : builtin "Attr.Equal" a = none := builtin_none _ _ (by decide)
@[simp] theorem bi_17 (a : List Val) : builtin "Core.With" a = none := builtin_none _ _ (by decide)
@[simp] theorem bi_18 (a : List Val) : builtin "Core.Check" a = none := builtin_none _ _ (by decide)
@[simp] theorem bi_19 (a : List Val) : builtin "stacktrace.Take" a = none := builtin_none _ _ (by decide)
@[simp] theorem bi_20 (a : List Val) : builtin "make.strings" a = none := builtin_none _ _ (by decide)
@[simp] theorem bi_21 (a : List Val) : builtin "slice.set" a = none := builtin_none _ _ (by decide)

end ZapVerif.TransSlog
