import ZapVerif.Proofs.GoMini
import ZapVerif.Model.TransStackFmtX
/-! Lookup facts for the `…_matches_source` theorems of Props/C15.lean about Gen/TransStackFmt.lean. -/
set_option linter.unusedSimpArgs false
namespace ZapVerif.TransStackFmt
open ZapVerif ZapVerif.GoMini ZapVerif.Gen.TransStackFmt

@[simp] theorem X_funs : X.funs = funs := id rfl
@[simp] theorem X_ext : X.ext = ext := id rfl
@[simp] theorem ext_appendInt (b : Bytes) (n : Int) : ext "Buffer.AppendInt" [.bytes b, .int n] = some [.bytes (b ++ Callers.itoa n.toNat)] := id rfl
@[simp] theorem ext_next_nil : ext "Frames.Next" [.list []] = some [.list [], zeroFrame, .bool false] := id rfl
@[simp] theorem ext_next_cons (f : Val) (r : List Val) : ext "Frames.Next" [.list (f :: r)] = some [.list r, f, .bool (!r.isEmpty)] := id rfl
@[simp] theorem bi_0 (a : List Val) : builtin "Buffer.AppendInt" a = none := builtin_none _ _ (by decide)

end ZapVerif.TransStackFmt
