import ZapVerif.Proofs.GoMini
import ZapVerif.Model.TransSweetenX
/-! Lookup facts and the loop-head state for `sweetenFields_matches_source` (Props/C14.lean) about
    Gen/TransSweeten.lean.  Nothing here depends on the generated term. -/
set_option linter.unusedSimpArgs false
namespace ZapVerif.TransSweeten
open ZapVerif ZapVerif.GoMini ZapVerif.Gen.TransSweeten

@[simp] theorem X_funs (P : Par) : (X P).funs = funs := id rfl
@[simp] theorem X_ext (P : Par) : (X P).ext = ext P := id rfl

theorem ext_field_some (P : Par) (a f : Val) (h : P.asField a = some f) :
    ext P "assert.Field" [a] = some [f, .bool true] := by simp [ext, h]
theorem ext_field_none (P : Par) (a : Val) (h : P.asField a = none) :
    ext P "assert.Field" [a] = some [.list [], .bool false] := by simp [ext, h]
theorem ext_err_some (P : Par) (a e : Val) (h : P.asErr a = some e) :
    ext P "assert.error" [a] = some [e, .bool true] := by simp [ext, h]
theorem ext_err_none (P : Par) (a : Val) (h : P.asErr a = none) :
    ext P "assert.error" [a] = some [.list [], .bool false] := by simp [ext, h]
theorem ext_str_some (P : Par) (a : Val) (s : Bytes) (h : P.asStr a = some s) :
    ext P "assert.string" [a] = some [.bytes s, .bool true] := by simp [ext, h]
theorem ext_str_none (P : Par) (a : Val) (h : P.asStr a = none) :
    ext P "assert.string" [a] = some [.bytes [], .bool false] := by simp [ext, h]
@[simp] theorem ext_error (P : Par) (e : Val) : ext P "zap.Error" [e] = some [errF e] := id rfl
@[simp] theorem ext_any (P : Par) (k : Bytes) (v : Val) : ext P "zap.Any" [.bytes k, v] = some [anyF k v] := id rfl
@[simp] theorem ext_array (P : Par) (k : Bytes) (v : Val) : ext P "zap.Array" [.bytes k, v] = some [arrayF k v] := id rfl
@[simp] theorem ext_cap (P : Par) (v : Val) : ext P "cap" [v] = some [.int (P.cap v)] := id rfl
@[simp] theorem ext_diag (P : Par) (m f : Val) : ext P "diag.Error" [m, f] = some [] := id rfl
@[simp] theorem bi_error (a : List Val) : builtin "zap.Error" a = none := builtin_none _ _ (by decide)
@[simp] theorem bi_any (a : List Val) : builtin "zap.Any" a = none := builtin_none _ _ (by decide)
@[simp] theorem bi_array (a : List Val) : builtin "zap.Array" a = none := builtin_none _ _ (by decide)
@[simp] theorem bi_cap (a : List Val) : builtin "cap" a = none := builtin_none _ _ (by decide)

theorem nm_diag : nm "diag.Error" = .bytes [100, 105, 97, 103, 46, 69, 114, 114, 111, 114] := congrArg Val.bytes (by decide +kernel)
theorem msgMultiple_eq : msgMultiple = [77, 117, 108, 116, 105, 112, 108, 101, 32, 101, 114, 114, 111, 114, 115, 32, 119, 105, 116, 104, 111, 117, 116, 32, 97, 32, 107, 101, 121, 46] := by decide +kernel
theorem msgOdd_eq : msgOdd = [73, 103, 110, 111, 114, 101, 100, 32, 107, 101, 121, 32, 119, 105, 116, 104, 111, 117, 116, 32, 97, 32, 118, 97, 108, 117, 101, 46] := by decide +kernel
theorem msgNonString_eq : msgNonString = [73, 103, 110, 111, 114, 101, 100, 32, 107, 101, 121, 45, 118, 97, 108, 117, 101, 32, 112, 97, 105, 114, 115, 32, 119, 105, 116, 104, 32, 110, 111, 110, 45, 115, 116, 114, 105, 110, 103, 32, 107, 101, 121, 115, 46] := by decide +kernel
theorem keyIgnored_eq : keyIgnored = [105, 103, 110, 111, 114, 101, 100] := by decide +kernel
theorem keyInvalid_eq : keyInvalid = [105, 110, 118, 97, 108, 105, 100] := by decide +kernel

/-- the loop-local variables (results of the three assertions, `key`, `val`) that earlier iterations left behind: they
    come into existence in this order, so the environment has one of four shapes -/
inductive Junk where
  | j0
  | j1 (f ok : Val)
  | j2 (f ok e ok2 : Val)
  | j3 (f ok e ok2 k v ks ok3 : Val)

def Junk.env : Junk → Env
  | .j0 => []
  | .j1 f ok => [("l4", f), ("l5", ok)]
  | .j2 f ok e ok2 => [("l4", f), ("l5", ok), ("l6", e), ("l7", ok2)]
  | .j3 f ok e ok2 k v ks ok3 =>
    [("l4", f), ("l5", ok), ("l6", e), ("l7", ok2), ("l8", k), ("l9", v), ("l10", ks), ("l11", ok3)]

/-- after `f, ok := args[i].(Field)` -/
def Junk.set1 (f ok : Val) : Junk → Junk
  | .j0 => .j1 f ok
  | .j1 _ _ => .j1 f ok
  | .j2 _ _ e ok2 => .j2 f ok e ok2
  | .j3 _ _ e ok2 k v ks ok3 => .j3 f ok e ok2 k v ks ok3

/-- after `err, ok := args[i].(error)` (only reached after `set1`) -/
def Junk.set2 (e ok2 : Val) : Junk → Junk
  | .j0 => .j0
  | .j1 f ok => .j2 f ok e ok2
  | .j2 f ok _ _ => .j2 f ok e ok2
  | .j3 f ok _ _ k v ks ok3 => .j3 f ok e ok2 k v ks ok3

/-- after `key, val := …; keyStr, ok := key.(string)` (only reached after `set2`) -/
def Junk.set3 (k v ks ok3 : Val) : Junk → Junk
  | .j0 => .j0
  | .j1 f ok => .j1 f ok
  | .j2 f ok e ok2 => .j3 f ok e ok2 k v ks ok3
  | .j3 f ok e ok2 _ _ _ _ => .j3 f ok e ok2 k v ks ok3

/-- the state of `sweetenFields` at the loop head: `acc` = what the arguments before position `i` produced -/
def sAbs (args : List Val) (skip : Val) (ev0 : List Val) (i : Nat) (seen : Bool) (acc : ResV) (t : Junk) : State :=
  ⟨[("p0", .list args), ("p1", skip), ("l0", .list acc.fields), ("l1", .list acc.invalid), ("l2", .bool seen),
    ("l3", .int i)] ++ t.env, [("ev", .list (ev0 ++ acc.diags))]⟩

@[simp] theorem append_nil' (a : ResV) : a.append {} = a := by simp [ResV.append]
theorem append_cons1 (a r : ResV) (o : Val) :
    a.append (r.cons1 o) = (⟨a.fields ++ [o], a.diags, a.invalid⟩ : ResV).append r := by simp [ResV.append, ResV.cons1]
theorem append_cons2 (a r : ResV) (o : Val) :
    a.append (r.cons2 o) = (⟨a.fields, a.diags ++ [o], a.invalid⟩ : ResV).append r := by simp [ResV.append, ResV.cons2]
theorem append_cons3 (a r : ResV) (o : Val) :
    a.append (r.cons3 o) = (⟨a.fields, a.diags, a.invalid ++ [o]⟩ : ResV).append r := by simp [ResV.append, ResV.cons3]

theorem sweepV_field (P : Par) (i : Nat) (seen : Bool) (a f : Val) (r : List Val) (hf : P.asField a = some f) :
    sweepV P i seen (a :: r) = (sweepV P (i+1) seen r).cons1 f := by
  cases r <;> simp [sweepV, hf]
theorem sweepV_err (P : Par) (i : Nat) (seen : Bool) (a e : Val) (r : List Val) (hf : P.asField a = none)
    (he : P.asErr a = some e) :
    sweepV P i seen (a :: r) =
      if seen then (sweepV P (i+1) true r).cons2 (diagV msgMultiple (errF e)) else (sweepV P (i+1) true r).cons1 (errF e) := by
  cases r <;> simp [sweepV, hf, he]
theorem sweepV_dangling (P : Par) (i : Nat) (seen : Bool) (a : Val) (hf : P.asField a = none) (he : P.asErr a = none) :
    sweepV P i seen [a] = { diags := [diagV msgOdd (anyF keyIgnored a)] } := by
  simp [sweepV, hf, he]
theorem sweepV_pair (P : Par) (i : Nat) (seen : Bool) (a v : Val) (r : List Val) (hf : P.asField a = none)
    (he : P.asErr a = none) :
    sweepV P i seen (a :: v :: r) =
      match P.asStr a with
      | some s => (sweepV P (i+2) seen r).cons1 (anyF s v)
      | none => (sweepV P (i+2) seen r).cons3 (.list [.int i, a, v]) := by
  simp only [sweepV, hf, he]
  cases P.asStr a <;> rfl

theorem indexVal_at (pre : List Val) (a : Val) (r : List Val) :
    indexVal (.list (pre ++ a :: r)) (.int (pre.length : Int)) = .ok a := by
  have h := indexVal_list (pre ++ a :: r) pre.length (by simp)
  rw [h]; simp
theorem indexVal_at1 (pre : List Val) (a v : Val) (r : List Val) :
    indexVal (.list (pre ++ a :: v :: r)) (.int ((pre.length : Int) + 1)) = .ok v := by
  have h := indexVal_list (pre ++ a :: v :: r) (pre.length + 1) (by simp)
  rw [show ((pre.length : Int) + 1) = ((pre.length + 1 : Nat) : Int) by push_cast; rfl, h]
  simp [List.getElem_append_right]

end ZapVerif.TransSweeten
