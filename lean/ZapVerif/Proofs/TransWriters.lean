import ZapVerif.Proofs.GoMini
import ZapVerif.Model.TransWritersX
/-! Lookup facts for the `…_matches_source` theorems of Props/C13.lean about Gen/TransWriters.lean.  Nothing here depends on
    the generated terms. -/
set_option linter.unusedSimpArgs false
namespace ZapVerif.TransWriters
open ZapVerif ZapVerif.GoMini ZapVerif.Gen.TransWriters

@[simp] theorem X_funs (P : Par) : (X P).funs = funs := id rfl
@[simp] theorem X_ext (P : Par) : (X P).ext = ext P := id rfl
@[simp] theorem ext_trimSpace (P : Par) (p : Bytes) : ext P "bytes.TrimSpace" [.bytes p] = some [.bytes (P.trimSpace p)] := id rfl
@[simp] theorem ext_trimRight (P : Par) (p c : Bytes) : ext P "bytes.TrimRight" [.bytes p, .bytes c] = some [.bytes (P.trimRight p c)] := id rfl
@[simp] theorem ext_logFunc (P : Par) (f m : Val) : ext P "LogFunc.call" [f, m] = some [] := id rfl
@[simp] theorem ext_logf (P : Par) (t f m : Val) : ext P "TB.Logf" [t, f, m] = some [] := id rfl
@[simp] theorem ext_fail (P : Par) (t : Val) : ext P "TB.Fail" [t] = some [] := id rfl
@[simp] theorem ext_asWS (P : Par) (w : Val) : ext P "assert.WriteSyncer" [w] =
    some (match P.asWS w with | some ws => [ws, .bool true] | none => [.list [], .bool false]) := id rfl
@[simp] theorem ext_isLocked (P : Par) (w : Val) : ext P "assert.lockedWriteSyncer" [w] =
    some [if P.isLocked w then w else .list [], .bool (P.isLocked w)] := id rfl
@[simp] theorem bi_0 (a : List Val) : builtin "bytes.TrimSpace" a = none := builtin_none _ _ (by decide)
@[simp] theorem bi_1 (a : List Val) : builtin "bytes.TrimRight" a = none := builtin_none _ _ (by decide)
theorem nm_logFunc : nm "LogFunc.call" = .bytes [76, 111, 103, 70, 117, 110, 99, 46, 99, 97, 108, 108] := congrArg Val.bytes (by decide +kernel)
theorem nm_logf : nm "TB.Logf" = .bytes [84, 66, 46, 76, 111, 103, 102] := congrArg Val.bytes (by decide +kernel)
theorem nm_fail : nm "TB.Fail" = .bytes [84, 66, 46, 70, 97, 105, 108] := congrArg Val.bytes (by decide +kernel)

end ZapVerif.TransWriters
