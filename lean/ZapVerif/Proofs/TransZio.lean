import ZapVerif.Proofs.GoMini
import ZapVerif.Proofs.Zio
import ZapVerif.Model.TransZioX
/-! Lookup facts and the pure list lemmas for the `…_matches_source` theorems of Props/C17.lean about
    Gen/TransZio.lean.  Nothing here depends on the shape of the generated terms. -/
set_option linter.unusedSimpArgs false
namespace ZapVerif.TransZio
open ZapVerif ZapVerif.GoMini ZapVerif.Zio ZapVerif.Gen.TransZio

@[simp] theorem X_funs (en : Bool) : (X en).funs = funs := rfl
@[simp] theorem X_ext (en : Bool) : (X en).ext = ext en := rfl
@[simp] theorem ext_enabled (en : Bool) (v : Val) : ext en "Enabled" [v] = some [.bool en] := rfl
@[simp] theorem ext_log (en : Bool) (out : List Val) (b : Bytes) :
    ext en "log" [.list out, .bytes b] = some [.list (if en then out ++ [.bytes b] else out)] := rfl
@[simp] theorem bi_enabled (a : List Val) : builtin "Enabled" a = none := builtin_none _ _ (by decide)

/-! ### `bytes.IndexByte` and the first newline -/

theorem indexByte_nil (c : UInt8) : indexByte [] c = -1 := rfl

theorem indexByte_cons (b : UInt8) (r : Bytes) (c : UInt8) :
    indexByte (b :: r) c = if b == c then 0 else (if indexByte r c < 0 then -1 else indexByte r c + 1) := by
  unfold indexByte
  simp only [List.findIdx?_cons]
  by_cases h : b == c
  · simp [h]
  · simp only [h, Bool.false_eq_true, if_false]
    cases hr : List.findIdx? (fun x => x == c) r with
    | none => simp
    | some i => simp; omega

/-- no newline: `IndexByte` is −1 -/
theorem indexByte_none (bs : Bytes) (h : bs.dropWhile (fun b => b != 10) = []) : indexByte bs 10 = -1 := by
  induction bs with
  | nil => rfl
  | cons b r ih =>
    rw [indexByte_cons]
    by_cases hb : b = 10
    · subst hb; simp at h
    · have hb' : (b != 10) = true := by simp [hb]
      rw [List.dropWhile_cons_of_pos (p := fun b => b != 10) (a := b) hb'] at h
      simp [hb, ih h]

/-- a newline: `IndexByte` is the length of the part before it, which splits the input -/
theorem indexByte_some (bs : Bytes) (c : UInt8) (rest : Bytes) (h : bs.dropWhile (fun b => b != 10) = c :: rest) :
    indexByte bs 10 = ((bs.takeWhile (fun b => b != 10)).length : Int) ∧
    bs = bs.takeWhile (fun b => b != 10) ++ 10 :: rest := by
  induction bs with
  | nil => simp at h
  | cons b r ih =>
    rw [indexByte_cons]
    by_cases hb : b = 10
    · subst hb
      simp at h
      simp [h.2]
    · have hb' : (b != 10) = true := by simp [hb]
      rw [List.dropWhile_cons_of_pos (p := fun b => b != 10) (a := b) hb'] at h
      obtain ⟨h1, h2⟩ := ih h
      rw [List.takeWhile_cons_of_pos (p := fun b => b != 10) (a := b) hb']
      have hbc : (b == 10) = false := by simp [hb]
      simp only [hbc, Bool.false_eq_true, if_false, h1, List.length_cons, List.cons_append]
      refine ⟨?_, by rw [← h2]⟩
      have : ¬ ((List.takeWhile (fun b => b != 10) r).length : Int) < 0 := by omega
      simp [this]

/-! ### `writeLine` and `flush` as functions on lists -/

/-- what one `writeLine(line)` does: new buffer, messages logged, remaining input -/
def wl (buff line : Bytes) : Bytes × List Bytes × Bytes :=
  match line.dropWhile (fun b => b != 10) with
  | [] => (buff ++ line, [], [])
  | _ :: rest =>
    ([], [if buff.isEmpty then line.takeWhile (fun b => b != 10) else buff ++ line.takeWhile (fun b => b != 10)], rest)

/-- the model's `lines` (= `write`, `fast_path_eq`) unfolds by `wl` -/
theorem lines_wl (buff bs : Bytes) (h : bs ≠ []) :
    lines buff bs = ((wl buff bs).2.1 ++ (lines (wl buff bs).1 (wl buff bs).2.2).1, (lines (wl buff bs).1 (wl buff bs).2.2).2) := by
  rw [← feed_eq_lines (bs.length + 1) buff bs (Nat.lt_succ_self _)]
  simp only [feed, wl]
  cases hd : bs.dropWhile (fun b => b != 10) with
  | nil =>
    have : bs.takeWhile (fun b => b != 10) = bs := by
      have := List.takeWhile_append_dropWhile (p := fun b => b != 10) (l := bs)
      rw [hd, List.append_nil] at this; exact this
    simp [this, lines]
  | cons c rest =>
    have hlen : rest.length < bs.length := by
      have := congrArg List.length (List.takeWhile_append_dropWhile (p := fun b => b != 10) (l := bs))
      rw [hd] at this; simp at this; omega
    simp only
    rw [feed_eq_lines bs.length [] rest hlen]
    simp [lines]

theorem wl_shorter (buff bs : Bytes) (h : bs ≠ []) : (wl buff bs).2.2.length < bs.length := by
  unfold wl
  cases hd : bs.dropWhile (fun b => b != 10) with
  | nil => simp; exact List.length_pos_iff.mpr h
  | cons c rest =>
    have := congrArg List.length (List.takeWhile_append_dropWhile (p := fun b => b != 10) (l := bs))
    rw [hd] at this; simp at this ⊢; omega

end ZapVerif.TransZio
