import ZapVerif.Model.Unesc
/-! `unescape (escape s) = sanitize s`: string values are recoverable byte for byte, each invalid UTF-8 byte
    having become U+FFFD. -/
namespace ZapVerif.Esc
open ZapVerif

theorem unesc_succ : ∀ (g : Nat) (s : Bytes), s.length ≤ g → unesc (g + 1) s = unesc g s
  | _, [], _ => by simp [unesc]
  | 0, _ :: _, h => by simp at h
  | g + 1, b :: r, h => by
    have hr : r.length ≤ g := by simpa using h
    show unesc (g + 1 + 1) (b :: r) = unesc (g + 1) (b :: r)
    simp only [unesc]
    by_cases hb : b = 92
    · simp only [hb, if_true]
      rcases r with _ | ⟨c, r'⟩
      · rfl
      · have hr' : r'.length ≤ g := by simp at hr; omega
        simp only []
        by_cases hc : c = 117
        · simp only [hc, if_true]
          rcases r' with _ | ⟨a, _ | ⟨b2, _ | ⟨c2, _ | ⟨d, r''⟩⟩⟩⟩ <;> try rfl
          have h4 : r''.length ≤ g := by simp at hr'; omega
          simp only [unesc_succ g r'' h4]
        · simp only [hc, if_false, unesc_succ g r' hr']
    · simp only [hb, if_false, unesc_succ g r hr]

theorem unesc_fuel (g : Nat) (s : Bytes) (h : s.length ≤ g) : unesc g s = unescape s := by
  induction g with
  | zero =>
    have : s = [] := by simpa using h
    subst this; rfl
  | succ g ih =>
    by_cases hl : s.length ≤ g
    · rw [unesc_succ g s hl]; exact ih hl
    · have : s.length = g + 1 := by omega
      simp [unescape, this]

theorem unescape_nil : unescape [] = some [] := rfl

theorem unescape_plain (b : UInt8) (r : Bytes) (hb : b ≠ 92) :
    unescape (b :: r) = (unescape r).map (fun t => b :: t) := by
  simp only [unescape, List.length_cons, unesc, hb, if_false]

theorem unescape_simple (c x : UInt8) (r : Bytes) (hc : c ≠ 117) (hx : simpleEsc c = some x) :
    unescape (92 :: c :: r) = (unescape r).map (fun t => x :: t) := by
  simp only [unescape, List.length_cons, unesc, if_true, hc, if_false, hx]
  rw [unesc_fuel (r.length + 1) r (by omega)]; rfl

theorem unescape_u00 (c2 d x y : UInt8) (r : Bytes) (hx : hexv c2 = some x) (hy : hexv d = some y) :
    unescape (92 :: 117 :: 48 :: 48 :: c2 :: d :: r) = (unescape r).map (fun t => (x * 16 + y) :: t) := by
  simp only [unescape, List.length_cons, unesc, if_true, and_self, hx, hy]
  rw [unesc_fuel _ r (by omega)]; rfl

theorem unescape_fffd (r : Bytes) :
    unescape (92 :: 117 :: 102 :: 102 :: 102 :: 100 :: r) = (unescape r).map (fun t => replacement ++ t) := by
  have h1 : ¬ ((102 : UInt8) = 48 ∧ (102 : UInt8) = 48) := by decide
  simp only [unescape, List.length_cons, unesc, if_true, h1, if_false, and_self]
  rw [unesc_fuel _ r (by omega)]; rfl

/-- bytes ≥ 0x80 are copied -/
theorem unescape_high (hi r : Bytes) (h : ∀ x ∈ hi, x ≥ 128) :
    unescape (hi ++ r) = (unescape r).map (fun t => hi ++ t) := by
  induction hi with
  | nil => simp
  | cons x t ih =>
    have hx : x ≠ 92 := by
      have := h x (by simp)
      intro he; subst he; exact absurd this (by decide)
    rw [List.cons_append, unescape_plain x _ hx, ih (fun y hy => h y (by simp [hy]))]
    cases unescape r <;> simp

/-- every escape the encoder emits for a byte < 0x80 decodes back to that byte -/
theorem esc1_decodes : ∀ b : UInt8, b < 128 → plain b = false →
    (b = 92 ∨ b = 34 → simpleEsc b = some b) ∧
    (b = 10 → simpleEsc 110 = some b) ∧ (b = 13 → simpleEsc 114 = some b) ∧ (b = 9 → simpleEsc 116 = some b) ∧
    (b ≠ 92 → b ≠ 34 → b ≠ 10 → b ≠ 13 → b ≠ 9 →
      hexv (hexd (b >>> 4)) = some (b >>> 4) ∧ hexv (hexd (b &&& 15)) = some (b &&& 15) ∧
      (b >>> 4) * 16 + (b &&& 15) = b) := by
  apply all256; decide +kernel

theorem unescape_esc1 (b : UInt8) (r : Bytes) (hlt : b < 128) (hp : plain b = false) :
    unescape (esc1 b ++ r) = (unescape r).map (fun t => b :: t) := by
  obtain ⟨h1, h2, h3, h4, h5⟩ := esc1_decodes b hlt hp
  unfold esc1
  by_cases hq : b = 92 ∨ b = 34
  · simp only [hq, if_true, List.cons_append, List.nil_append]
    have hne : b ≠ 117 := by rcases hq with rfl | rfl <;> decide
    exact unescape_simple b b r hne (h1 hq)
  · have hq1 : b ≠ 92 := fun h => hq (Or.inl h)
    have hq2 : b ≠ 34 := fun h => hq (Or.inr h)
    simp only [hq, if_false]
    by_cases h10 : b = 10
    · simp only [h10, if_true, List.cons_append, List.nil_append]
      exact unescape_simple 110 10 r (by decide) (h10 ▸ h2 h10)
    · simp only [h10, if_false]
      by_cases h13 : b = 13
      · simp only [h13, if_true, List.cons_append, List.nil_append]
        exact unescape_simple 114 13 r (by decide) (h13 ▸ h3 h13)
      · simp only [h13, if_false]
        by_cases h9 : b = 9
        · simp only [h9, if_true, List.cons_append, List.nil_append]
          exact unescape_simple 116 9 r (by decide) (h9 ▸ h4 h9)
        · simp only [h9, if_false, List.cons_append, List.nil_append]
          obtain ⟨hx, hy, hs⟩ := h5 hq1 hq2 h10 h13 h9
          rw [unescape_u00 _ _ _ _ r hx hy, hs]

/-- C02, strings: decoding the escaped text gives back the logged bytes, each invalid UTF-8 byte replaced by
    U+FFFD exactly once and every other byte unchanged -/
theorem unescape_escape (fuel : Nat) (s : Bytes) : unescape (escape fuel s) = some (sanitize fuel s) := by
  induction fuel generalizing s with
  | zero => simp [escape, sanitize, unescape_nil]
  | succ fuel ih =>
    cases s with
    | nil => simp [escape, sanitize, unescape_nil]
    | cons b r =>
      unfold escape sanitize
      by_cases hb : b ≥ 128
      · simp only [hb, if_true]
        cases hv : validLen (b :: r) with
        | none =>
          simp only []
          have : ([92, 117, 102, 102, 102, 100] : Bytes) ++ escape fuel r =
              92 :: 117 :: 102 :: 102 :: 102 :: 100 :: escape fuel r := rfl
          rw [this, unescape_fffd, ih]; rfl
        | some n =>
          simp only []
          rw [unescape_high _ _ (valid_high (b :: r) n hv (by simpa using hb)), ih]; rfl
      · simp only [hb, if_false]
        by_cases hp : plain b = true
        · have h92 : b ≠ 92 := by
            intro he; subst he; simp [plain] at hp
          simp only [hp, if_true]
          rw [unescape_plain b _ h92, ih]; rfl
        · have hp' : plain b = false := by simpa using hp
          have hlt : b < 128 := by
            simp [UInt8.lt_iff_toNat_lt, UInt8.le_iff_toNat_le] at hb ⊢; omega
          simp only [hp', Bool.false_eq_true, if_false]
          rw [unescape_esc1 b _ hlt hp', ih]; rfl

end ZapVerif.Esc
