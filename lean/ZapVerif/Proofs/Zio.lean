import ZapVerif.Model.Zio
/-! helper lemmas for C17 -/
namespace ZapVerif.Zio

theorem lines_nl (cur r : Bytes) :
    lines cur (10 :: r) = ((cur :: (lines [] r).1), (lines [] r).2) := by
  simp [lines]

theorem lines_other (cur r : Bytes) (x : UInt8) (hx : x ≠ 10) :
    lines cur (x :: r) = lines (cur ++ [x]) r := by
  simp [lines, hx]

/-- a newline-free prefix only extends the current line -/
theorem lines_no_nl (cur l s : Bytes) (h : ∀ b ∈ l, b ≠ 10) : lines cur (l ++ s) = lines (cur ++ l) s := by
  induction l generalizing cur with
  | nil => simp
  | cons x r ih =>
    have hx : x ≠ 10 := h x (by simp)
    rw [List.cons_append, lines_other _ _ _ hx, ih _ (fun b hb => h b (by simp [hb]))]
    simp

theorem takeWhile_no_nl (bs : Bytes) : ∀ b ∈ bs.takeWhile (fun b => b != 10), b ≠ 10 := by
  induction bs with
  | nil => simp
  | cons x r ih =>
    intro b hb
    by_cases hx : x = 10
    · subst hx; simp [List.takeWhile] at hb
    · have : (x != 10) = true := by simpa using hx
      simp only [List.takeWhile, this] at hb
      rcases List.mem_cons.mp hb with rfl | hb
      · exact hx
      · exact ih b hb

theorem dropWhile_head_nl (bs : Bytes) : ∀ c r, bs.dropWhile (fun b => b != 10) = c :: r → c = 10 := by
  induction bs with
  | nil => simp
  | cons x t ih =>
    intro c r h
    by_cases hx : x = 10
    · subst hx
      simp [List.dropWhile] at h
      exact h.1.symm
    · have : (x != 10) = true := by simpa using hx
      simp only [List.dropWhile, this] at h
      exact ih c r h

theorem span_spec (bs : Bytes) :
    bs = bs.takeWhile (fun b => b != 10) ++ bs.dropWhile (fun b => b != 10) ∧
    (∀ b ∈ bs.takeWhile (fun b => b != 10), b ≠ 10) ∧
    (∀ c r, bs.dropWhile (fun b => b != 10) = c :: r → c = 10) :=
  ⟨(List.takeWhile_append_dropWhile).symm, takeWhile_no_nl bs, dropWhile_head_nl bs⟩

theorem feed_eq_lines (fuel : Nat) (buff s : Bytes) (hf : s.length < fuel) : feed fuel buff s = lines buff s := by
  induction fuel generalizing buff s with
  | zero => omega
  | succ f ih =>
    obtain ⟨hsplit, hno, hhead⟩ := span_spec s
    simp only [feed]
    generalize s.takeWhile (fun b => b != 10) = l at hsplit hno
    cases hd : s.dropWhile (fun b => b != 10) with
    | nil =>
      rw [hd] at hsplit
      simp only []
      rw [hsplit, List.append_nil]
      have := lines_no_nl buff l [] hno
      simp only [List.append_nil] at this
      rw [this]; simp [lines]
    | cons c r =>
      rw [hd] at hsplit
      have hc : c = 10 := hhead c r hd
      subst hc
      have hlen : r.length < f := by
        have : s.length = l.length + (r.length + 1) := by rw [hsplit]; simp
        omega
      simp only []
      rw [ih [] r hlen]
      conv => rhs; rw [hsplit]
      rw [lines_no_nl buff l _ hno, lines_nl]
      cases buff <;> simp

theorem lines_append (cur a b : Bytes) :
    lines cur (a ++ b) = ((lines cur a).1 ++ (lines (lines cur a).2 b).1, (lines (lines cur a).2 b).2) := by
  induction a generalizing cur with
  | nil => simp [lines]
  | cons x r ih =>
    simp only [List.cons_append]
    by_cases hx : x = 10
    · subst hx; rw [lines_nl, lines_nl, ih]; simp
    · rw [lines_other _ _ _ hx, lines_other _ _ _ hx, ih]

theorem run_eq_lines (buff : Bytes) (chunks : List Bytes) :
    run buff chunks = lines buff chunks.flatten := by
  induction chunks generalizing buff with
  | nil => simp [run, lines]
  | cons c cs ih =>
    simp only [run, write, List.flatten_cons]
    rw [feed_eq_lines _ _ _ (Nat.lt_succ_self _), lines_append, ih]

/-! events -/

theorem linesEv_nl (cur : Bytes) (r : List Ev) :
    linesEv cur (.byte 10 :: r) = ((cur :: (linesEv [] r).1), (linesEv [] r).2) := by
  simp [linesEv]

theorem linesEv_other (cur : Bytes) (r : List Ev) (x : UInt8) (hx : x ≠ 10) :
    linesEv cur (.byte x :: r) = linesEv (cur ++ [x]) r := by
  simp [linesEv, hx]

theorem linesEv_mark (cur : Bytes) (r : List Ev) :
    linesEv cur (.mark :: r) = ((if cur.isEmpty then [] else [cur]) ++ (linesEv [] r).1, (linesEv [] r).2) := by
  simp [linesEv]

/-- the events of one chunk followed by more events: first the chunk's lines, then the rest from its tail -/
theorem linesEv_bytes_append (cur bs : Bytes) (r : List Ev) :
    linesEv cur (bs.map Ev.byte ++ r) =
      ((lines cur bs).1 ++ (linesEv (lines cur bs).2 r).1, (linesEv (lines cur bs).2 r).2) := by
  induction bs generalizing cur with
  | nil => simp [lines]
  | cons x t ih =>
    simp only [List.map_cons, List.cons_append]
    by_cases hx : x = 10
    · subst hx; rw [linesEv_nl, lines_nl, ih]; simp
    · rw [linesEv_other _ _ _ hx, lines_other _ _ _ hx, ih]

/-- with the level enabled throughout, the step machine computes the lines of the event stream -/
theorem runSteps_eq_linesEv (buff : Bytes) (steps : List Step) (h : allEnabled steps = true) :
    (runSteps ⟨buff, true⟩ steps).2.1 = (linesEv buff (events steps)).1 ∧
    (runSteps ⟨buff, true⟩ steps).1 = ⟨(linesEv buff (events steps)).2, true⟩ := by
  induction steps generalizing buff with
  | nil => simp [runSteps, events, linesEv]
  | cons s r ih =>
    cases s with
    | write bs =>
      have hr : allEnabled r = true := by simpa [allEnabled] using h
      simp only [runSteps, step, events, write, if_true]
      rw [feed_eq_lines _ _ _ (Nat.lt_succ_self _), linesEv_bytes_append]
      have := ih (lines buff bs).2 hr
      constructor
      · rw [this.1]
      · rw [this.2]
    | sync =>
      have hr : allEnabled r = true := by simpa [allEnabled] using h
      simp only [runSteps, step, events, sync, if_true]
      rw [linesEv_mark]
      have := ih [] hr
      constructor
      · rw [this.1]
      · rw [this.2]
    | enable on => simp [allEnabled] at h

theorem events_append (a b : List Step) : events (a ++ b) = events a ++ events b := by
  induction a with
  | nil => simp [events]
  | cons s r ih => cases s <;> simp [events, ih]

theorem allEnabled_append (a b : List Step) : allEnabled (a ++ b) = (allEnabled a && allEnabled b) := by
  induction a with
  | nil => simp [allEnabled]
  | cons s r ih => cases s <;> simp [allEnabled, ih]

/-- every Write reports all bytes, nil error -/
theorem runSteps_rets (w : W) (steps : List Step) :
    ∀ r ∈ (runSteps w steps).2.2, r.2 = false := by
  induction steps generalizing w with
  | nil => simp [runSteps]
  | cons s r ih =>
    intro x hx
    simp only [runSteps] at hx
    rcases List.mem_append.mp hx with h | h
    · cases s with
      | write bs =>
        simp only [step] at h
        split at h <;> simp at h <;> simp [h]
      | sync => simp [step] at h
      | enable on => simp [step] at h
    · exact ih _ x h

end ZapVerif.Zio

namespace ZapVerif.Zio

/-! ### the full specification, level changes included -/

/-- events of a session when the level may change under the writer -/
inductive EvT where
  | byte (b : UInt8)
  | mark
  | toggle (on : Bool)

def eventsT : List Step → List EvT
  | [] => []
  | .write bs :: r => bs.map EvT.byte ++ eventsT r
  | .sync :: r => EvT.mark :: eventsT r
  | .enable on :: r => EvT.toggle on :: eventsT r

/-- messages of an event stream: bytes arriving while the level is disabled are not part of the stream at all;
    a mark ends the current line (logged iff non-empty and the level is enabled at that moment) -/
def specT (en : Bool) (cur : Bytes) : List EvT → List Bytes × (Bytes × Bool)
  | [] => ([], (cur, en))
  | .byte b :: r =>
    if en then
      if b = 10 then let p := specT en [] r; (cur :: p.1, p.2) else specT en (cur ++ [b]) r
    else specT en cur r
  | .mark :: r =>
    let p := specT en [] r
    ((if en && !cur.isEmpty then [cur] else []) ++ p.1, p.2)
  | .toggle on :: r => specT on cur r

theorem specT_bytes_enabled (cur bs : Bytes) (r : List EvT) :
    specT true cur (bs.map EvT.byte ++ r) =
      ((lines cur bs).1 ++ (specT true (lines cur bs).2 r).1, (specT true (lines cur bs).2 r).2) := by
  induction bs generalizing cur with
  | nil => simp [lines]
  | cons x t ih =>
    simp only [List.map_cons, List.cons_append]
    by_cases hx : x = 10
    · subst hx; simp only [specT, if_true]; rw [ih, lines_nl]; simp
    · simp only [specT, if_true, hx, if_false]; rw [ih, lines_other _ _ _ hx]

theorem specT_bytes_disabled (cur bs : Bytes) (r : List EvT) :
    specT false cur (bs.map EvT.byte ++ r) = specT false cur r := by
  induction bs with
  | nil => simp
  | cons x t ih => simp only [List.map_cons, List.cons_append, specT]; simpa using ih

/-- the step machine computes the specification, whatever the sequence of Writes, Syncs and level changes -/
theorem runSteps_eq_specT (w : W) (steps : List Step) :
    (runSteps w steps).2.1 = (specT w.enabled w.buff (eventsT steps)).1 ∧
    ((runSteps w steps).1.buff, (runSteps w steps).1.enabled) = (specT w.enabled w.buff (eventsT steps)).2 := by
  induction steps generalizing w with
  | nil => simp [runSteps, eventsT, specT]
  | cons s r ih =>
    obtain ⟨buff, en⟩ := w
    cases s with
    | write bs =>
      cases en with
      | true =>
        simp only [runSteps, step, eventsT, write, if_true]
        rw [feed_eq_lines _ _ _ (Nat.lt_succ_self _), specT_bytes_enabled]
        have := ih ⟨(lines buff bs).2, true⟩
        exact ⟨by rw [this.1], this.2⟩
      | false =>
        simp only [runSteps, step, eventsT, Bool.false_eq_true, if_false]
        rw [specT_bytes_disabled]
        simpa using ih ⟨buff, false⟩
    | sync =>
      simp only [runSteps, step, eventsT, sync, specT]
      have := ih ⟨[], en⟩
      constructor
      · rw [this.1]; cases en <;> cases hb : buff.isEmpty <;> simp [hb]
      · exact this.2
    | enable on =>
      simp only [runSteps, step, eventsT, specT]
      simpa using ih ⟨buff, on⟩

theorem eventsT_append (a b : List Step) : eventsT (a ++ b) = eventsT a ++ eventsT b := by
  induction a with
  | nil => simp [eventsT]
  | cons s r ih => cases s <;> simp [eventsT, ih]

end ZapVerif.Zio
