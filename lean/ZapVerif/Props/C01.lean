import ZapVerif.Proofs.EntryWF
import ZapVerif.Gen.JsonAdd
import ZapVerif.Model.SubEnc
/-! # C01 — the JSON encoder always emits one well-formed JSON object per entry, on one line

Model: `Model/Esc.lean` (escaping), `Model/Enc.lean` (the streaming encoder over call trees), `Model/Entry.lean`
(`Field.AddTo`, metadata rules, `jsonLine`).  Helper lemmas: `Proofs/Enc*.lean`, `Proofs/Entry*.lean`. -/
namespace ZapVerif.C01
open ZapVerif ZapVerif.Esc ZapVerif.Json ZapVerif.Enc ZapVerif.Entry

/-- whatever the input bytes (hostile, invalid UTF-8, control characters, quotes), the escaped text is a legal
    JSON string body: no raw byte < 0x20, no bare quote, every backslash starts a legal escape -/
theorem escape_body_safe (s : Bytes) : runD 0 (esc s) = some 0 := escape_ok s.length s

/-- and in particular it contains no raw control byte or line break -/
theorem escape_no_control (s : Bytes) : ∀ b ∈ esc s, b ≥ 32 :=
  runD_ge 0 (esc s) (by rw [escape_body_safe]; rfl)

/-- the crux: the encoder decides separators from the LAST BYTE of its buffer (`addElementSeparator`); for every
    nested call tree with well-formed leaves — objects, arrays, namespaces left open, to any depth, compact or
    spaced — that streaming machine equals the compositional output function -/
theorem stream_eq_out (sp : Bool) (calls : List OC) (buf : Bytes) (n : Nat) (first : Bool)
    (hs : St buf first) (hw : WFo calls) :
    runO sp ⟨buf, n⟩ calls = ⟨buf ++ (outO sp first calls).1, n + (outO sp first calls).2⟩ :=
  runO_eq sp calls buf n first hs hw

/-- nil and no-op sub-encoders (level, time, duration, caller, name) still yield exactly one well-formed value
    after the key: the string / integer fall-back -/
theorem noop_fallbacks (s : Bytes) (n : Int) :
    WFj (subOrStr .noop s) ∧ WFj (subOrStr .nilEnc s) ∧ WFj (subOrNanos .noop n) ∧ WFj (subOrNanos .nilEnc n) :=
  ⟨(subOrStr_ok .noop s trivial).1, (subOrStr_ok .nilEnc s trivial).1,
   (subOrNanos_ok .noop n trivial).1, (subOrNanos_ok .nilEnc n trivial).1⟩

/-- `Field.AddTo` only ever makes calls with well-formed, control-free leaves — including every failure branch
    (marshaler error, panicking or nil Stringer / error, reflection failure, error groups) -/
theorem addTo_wellformed (f : Field) (h : FieldOK f) : WFo (addTo f) ∧ NoCtlO (addTo f) := addTo_good f h

/-- C01, full statement over the model: for every encoder configuration (keys empty / duplicate / needing
    escapes, nil / no-op / arbitrary sub-encoder results, any line ending), every entry, every With-chain and every
    call-site field list (any nesting, namespaces left open anywhere, failing marshalers), the emitted line is
    ONE JSON object followed by the configured line ending; that object is well-formed, contains no byte below
    0x20 (so it occupies exactly one line), and decodes back to the tree it renders. -/
theorem jsonLine_wellformed (c : Cfg) (e : Ent) (ctx : List (List Field)) (fields : List Field)
    (he : EntOK e) (hc : ∀ fs ∈ ctx, ∀ f ∈ fs, FieldOK f) (hf : ∀ f ∈ fields, FieldOK f) :
    ∃ ms : List (Bytes × J),
      jsonLine c e ctx fields = render (J.obj ms) ++ c.ending ∧
      WFj (J.obj ms) ∧
      (∀ b ∈ render (J.obj ms), b ≥ 32) ∧
      parseV (size (J.obj ms)) (render (J.obj ms)) = some (J.obj ms, []) := by
  have hok := entryMembers_ok c e ctx fields he hc hf
  exact ⟨entryMembers c e ctx fields, jsonLine_eq_render c e ctx fields he hc hf, hok.1,
    render_ge _ hok.1 hok.2, parse_render _ hok.1⟩

/-- what the model assumes about `jsonEncoder`'s Add/Append surface, as a table: every `AddX(key, val)` is
    `addKey(key); AppendX(val)` (so it is one `OC.prim`/`obj`/`arr` call of the model), or widens to AddInt64 /
    AddUint64 with the plain conversion, AddBinary goes through base64 + AddString, AddReflected encodes BEFORE it
    writes the key, OpenNamespace is key + `{` + counter; floats carry their own bit size, complex numbers their
    precision.  `Gen.jsonAdd` is regenerated from zapcore/json_encoder.go on every run. -/
def expectedJsonAdd : List (String × String × String × String) := [
  ("AddArray", "keyAppend", "AppendArray", ""),
  ("AddBinary", "binary", "AddString", ""),
  ("AddBool", "keyAppend", "AppendBool", ""),
  ("AddByteString", "keyAppend", "AppendByteString", ""),
  ("AddComplex128", "keyAppend", "AppendComplex128", ""),
  ("AddComplex64", "keyAppend", "AppendComplex64", ""),
  ("AddDuration", "keyAppend", "AppendDuration", ""),
  ("AddFloat32", "keyAppend", "AppendFloat32", ""),
  ("AddFloat64", "keyAppend", "AppendFloat64", ""),
  ("AddInt", "widen", "AddInt64", "int64"),
  ("AddInt16", "widen", "AddInt64", "int64"),
  ("AddInt32", "widen", "AddInt64", "int64"),
  ("AddInt64", "keyAppend", "AppendInt64", ""),
  ("AddInt8", "widen", "AddInt64", "int64"),
  ("AddObject", "keyAppend", "AppendObject", ""),
  ("AddReflected", "reflected", "", ""),
  ("AddString", "keyAppend", "AppendString", ""),
  ("AddTime", "keyAppend", "AppendTime", ""),
  ("AddUint", "widen", "AddUint64", "uint64"),
  ("AddUint16", "widen", "AddUint64", "uint64"),
  ("AddUint32", "widen", "AddUint64", "uint64"),
  ("AddUint64", "keyAppend", "AppendUint64", ""),
  ("AddUint8", "widen", "AddUint64", "uint64"),
  ("AddUintptr", "widen", "AddUint64", "uint64"),
  ("AppendComplex128", "appendWiden", "appendComplex", "complex128(v);64"),
  ("AppendComplex64", "appendWiden", "appendComplex", "complex128(v);32"),
  ("AppendFloat32", "appendWiden", "appendFloat", "float64(v);32"),
  ("AppendFloat64", "appendWiden", "appendFloat", "v;64"),
  ("AppendInt", "appendWiden", "AppendInt64", "int64(v);"),
  ("AppendInt16", "appendWiden", "AppendInt64", "int64(v);"),
  ("AppendInt32", "appendWiden", "AppendInt64", "int64(v);"),
  ("AppendInt8", "appendWiden", "AppendInt64", "int64(v);"),
  ("AppendUint", "appendWiden", "AppendUint64", "uint64(v);"),
  ("AppendUint16", "appendWiden", "AppendUint64", "uint64(v);"),
  ("AppendUint32", "appendWiden", "AppendUint64", "uint64(v);"),
  ("AppendUint8", "appendWiden", "AppendUint64", "uint64(v);"),
  ("AppendUintptr", "appendWiden", "AppendUint64", "uint64(v);"),
  ("OpenNamespace", "namespace", "", "")
]

theorem json_add_surface : Gen.jsonAdd = expectedJsonAdd := by decide

/-- the line ending: SkipLineEnding wins; an empty LineEnding means one "\n" -/
theorem ending_rule (c : Cfg) :
    c.ending = (if c.skipLineEnding then [] else if c.lineEnding.isEmpty then [10] else c.lineEnding) := rfl

/-- non-vacuity: hostile key and value, a namespace left open inside an object inside an array, a failing marshaler -/
example : FieldOK (.arr [107] [AC.obj [OC.ns [34], OC.prim [10] (J.str (esc [255, 34]))]] (some [101])) := by
  refine ⟨?_, ?_⟩
  · simp [WFa, WFo, WFj, esc_ok]
  · simp [NoCtlA, NoCtlO, NoCtlJ]

/-! ------------------------------------------------------------------------------------------------------------------
## built-in sub-encoders (BEGIN block `subenc`; model `Model/SubEnc.lean`)

`jsonLine_wellformed` assumes `EntOK` / `PrimOK`: what each configured sub-encoder appended is a legal scalar.  For the
built-in encoders the model now computes (levels ×4, `NanosDurationEncoder`, `MillisDurationEncoder`,
`StringDurationEncoder`, `EpochNanosTimeEncoder`, `FullCallerEncoder`, `ShortCallerEncoder`, `FullNameEncoder` / nil) that
hypothesis is DISCHARGED: they append one string or one integer. -/
section SubEncoders
open ZapVerif.SubEnc

/-- every model-computed sub-encoder result satisfies the well-formedness hypothesis, whatever the raw values -/
theorem subenc_wellformed (lk : LvlEnc) (dk : DurEnc) (ck : CallerEnc) (o : SubRes) (l n : Int) (defined : Bool)
    (file name : Bytes) (line : Int) :
    SubOK (lvlRes (some lk) o l) ∧ SubOK (durRes (some dk) o n) ∧ SubOK (timeRes true o n) ∧
    SubOK (callerRes (some ck) o defined file line) ∧ SubOK (nameRes true o name) := by
  refine ⟨trivial, ?_, trivial, trivial, trivial⟩
  cases dk <;> trivial

/-- duration and time fields encoded by the exact built-ins are well-formed leaves (no hypothesis left) -/
theorem builtin_prims_ok (dk : DurEnc) (o : SubRes) (n : Int) :
    PrimOK (.dur ⟨n, durRes (some dk) o n⟩) ∧ PrimOK (.time ⟨n, timeRes true o n⟩) := by
  refine ⟨?_, trivial⟩
  cases dk <;> trivial

/-- an entry whose level, caller and name go through built-in exact encoders needs a hypothesis only for the time
    encoder's result (float / layout kinds) -/
theorem builtin_entry_ok (lk : LvlEnc) (ck : CallerEnc) (level : Int) (time : Option TimeV) (name : Bytes)
    (defined : Bool) (file : Bytes) (line : Int) (function message stack : Bytes)
    (ht : ∀ t, time = some t → SubOK t.res) :
    EntOK (builtinEnt lk ck level time name defined file line function message stack) :=
  ⟨trivial, ht, trivial, trivial⟩

/-- C01 for the built-in encoders: with a level encoder among Lowercase/Capital/LowercaseColor/CapitalColor, a caller
    encoder among Full/Short, FullNameEncoder (or nil) and EpochNanosTimeEncoder (or a zero time), the statement of
    `jsonLine_wellformed` holds with NO assumption about sub-encoder results — for every level (known or not), every
    file, line, name and instant -/
theorem jsonLine_wellformed_builtin (c : Cfg) (lk : LvlEnc) (ck : CallerEnc) (level : Int) (nanos : Option Int)
    (name : Bytes) (defined : Bool) (file : Bytes) (line : Int) (function message stack : Bytes)
    (ctx : List (List Field)) (fields : List Field)
    (hc : ∀ fs ∈ ctx, ∀ f ∈ fs, FieldOK f) (hf : ∀ f ∈ fields, FieldOK f) :
    ∃ ms : List (Bytes × J),
      jsonLine c (builtinEnt lk ck level (nanos.map fun n => ⟨n, timeRes true .noop n⟩) name defined file line
        function message stack) ctx fields = render (J.obj ms) ++ c.ending ∧
      WFj (J.obj ms) ∧
      (∀ b ∈ render (J.obj ms), b ≥ 32) ∧
      parseV (size (J.obj ms)) (render (J.obj ms)) = some (J.obj ms, []) := by
  apply jsonLine_wellformed c _ ctx fields _ hc hf
  apply builtin_entry_ok
  intro t ht
  cases nanos with
  | none => simp at ht
  | some n =>
    simp only [Option.map_some, Option.some.injEq] at ht
    rw [← ht]; trivial

/-- non-vacuity: an unknown level under the capital colour encoder, a Windows-style path, a negative line -/
example : ∃ ms, jsonLine ⟨[109], [108], [116], [110], [99], [], [], [], false⟩
    (builtinEnt .capitalColor .short 42 (some ⟨-1, timeRes true .noop (-1)⟩) [115] true [67, 58, 92, 97, 92, 98] (-7) [] [104, 105] [])
    [] [.prim [100] (.dur ⟨-1500000, durRes (some .millis) .noop (-1500000)⟩)] = render (J.obj ms) ++ [10] :=
  let ⟨ms, h, _⟩ := jsonLine_wellformed_builtin ⟨[109], [108], [116], [110], [99], [], [], [], false⟩ .capitalColor .short 42
    (some (-1)) [115] true [67, 58, 92, 97, 92, 98] (-7) [] [104, 105] [] []
    [.prim [100] (.dur ⟨-1500000, durRes (some .millis) .noop (-1500000)⟩)] (by simp)
    (by intro f hf; simp at hf; subst hf; exact (builtin_prims_ok .millis .noop (-1500000)).1)
  ⟨ms, h⟩

end SubEncoders
/-! ## (END block `subenc`) -/

end ZapVerif.C01
