import ZapVerif.Proofs.EntryWF
import ZapVerif.Gen.JsonAdd
import ZapVerif.Model.SubEnc
import ZapVerif.Proofs.TransJsonSep
import ZapVerif.Proofs.TransEscape
import ZapVerif.Proofs.TransJsonEnc
/-! # C01 — the JSON encoder always emits one well-formed JSON object per entry, on one line

Model: `Model/Esc.lean` (escaping), `Model/Enc.lean` (the streaming encoder over call trees), `Model/Entry.lean`
(`Field.AddTo`, metadata rules, `jsonLine`).  Helper lemmas: `Proofs/Enc*.lean`, `Proofs/Entry*.lean`. -/
namespace ZapVerif.C01
open ZapVerif ZapVerif.Esc ZapVerif.Json ZapVerif.Enc ZapVerif.Entry

/-- whatever the input bytes (hostile, invalid UTF-8, control characters, quotes), the escaped text is a legal
    JSON string body: no raw byte < 0x20, no bare quote, every backslash starts a legal escape -/
theorem escape_body_safe (s : Bytes) : runD 0 (esc s) = some 0 := escape_ok s.length s

/-- and in particular it contains no raw control byte or line break -/
theorem escape_no_control (s : Bytes) : ∀ b ∈ esc s, b ≥ 32 :=
  runD_ge 0 (esc s) (by rw [escape_body_safe]; rfl)

/-- the crux: the encoder decides separators from the LAST BYTE of its buffer (`addElementSeparator`); for every
    nested call tree with well-formed leaves — objects, arrays, namespaces left open, to any depth, compact or
    spaced — that streaming machine equals the compositional output function -/
theorem stream_eq_out (sp : Bool) (calls : List OC) (buf : Bytes) (n : Nat) (first : Bool)
    (hs : St buf first) (hw : WFo calls) :
    runO sp ⟨buf, n⟩ calls = ⟨buf ++ (outO sp first calls).1, n + (outO sp first calls).2⟩ :=
  runO_eq sp calls buf n first hs hw

/-- nil and no-op sub-encoders (level, time, duration, caller, name) still yield exactly one well-formed value
    after the key: the string / integer fall-back -/
theorem noop_fallbacks (s : Bytes) (n : Int) :
    WFj (subOrStr .noop s) ∧ WFj (subOrStr .nilEnc s) ∧ WFj (subOrNanos .noop n) ∧ WFj (subOrNanos .nilEnc n) :=
  ⟨(subOrStr_ok .noop s trivial).1, (subOrStr_ok .nilEnc s trivial).1,
   (subOrNanos_ok .noop n trivial).1, (subOrNanos_ok .nilEnc n trivial).1⟩

/-- `Field.AddTo` only ever makes calls with well-formed, control-free leaves — including every failure branch
    (marshaler error, panicking or nil Stringer / error, reflection failure, error groups) -/
theorem addTo_wellformed (f : Field) (h : FieldOK f) : WFo (addTo f) ∧ NoCtlO (addTo f) := addTo_good f h

/-- C01, full statement over the model: for every encoder configuration (keys empty / duplicate / needing
    escapes, nil / no-op / arbitrary sub-encoder results, any line ending), every entry, every With-chain and every
    call-site field list (any nesting, namespaces left open anywhere, failing marshalers), the emitted line is
    ONE JSON object followed by the configured line ending; that object is well-formed, contains no byte below
    0x20 (so it occupies exactly one line), and decodes back to the tree it renders. -/
theorem jsonLine_wellformed (c : Cfg) (e : Ent) (ctx : List (List Field)) (fields : List Field)
    (he : EntOK e) (hc : ∀ fs ∈ ctx, ∀ f ∈ fs, FieldOK f) (hf : ∀ f ∈ fields, FieldOK f) :
    ∃ ms : List (Bytes × J),
      jsonLine c e ctx fields = render (J.obj ms) ++ c.ending ∧
      WFj (J.obj ms) ∧
      (∀ b ∈ render (J.obj ms), b ≥ 32) ∧
      parseV (size (J.obj ms)) (render (J.obj ms)) = some (J.obj ms, []) := by
  have hok := entryMembers_ok c e ctx fields he hc hf
  exact ⟨entryMembers c e ctx fields, jsonLine_eq_render c e ctx fields he hc hf, hok.1,
    render_ge _ hok.1 hok.2, parse_render _ hok.1⟩

/-- what the model assumes about `jsonEncoder`'s Add/Append surface, as a table: every `AddX(key, val)` is
    `addKey(key); AppendX(val)` (so it is one `OC.prim`/`obj`/`arr` call of the model), or widens to AddInt64 /
    AddUint64 with the plain conversion, AddBinary goes through base64 + AddString, AddReflected encodes BEFORE it
    writes the key, OpenNamespace is key + `{` + counter; floats carry their own bit size, complex numbers their
    precision.  `Gen.jsonAdd` is regenerated from zapcore/json_encoder.go on every run. -/
def expectedJsonAdd : List (String × String × String × String) := [
  ("AddArray", "keyAppend", "AppendArray", ""),
  ("AddBinary", "binary", "AddString", ""),
  ("AddBool", "keyAppend", "AppendBool", ""),
  ("AddByteString", "keyAppend", "AppendByteString", ""),
  ("AddComplex128", "keyAppend", "AppendComplex128", ""),
  ("AddComplex64", "keyAppend", "AppendComplex64", ""),
  ("AddDuration", "keyAppend", "AppendDuration", ""),
  ("AddFloat32", "keyAppend", "AppendFloat32", ""),
  ("AddFloat64", "keyAppend", "AppendFloat64", ""),
  ("AddInt", "widen", "AddInt64", "int64"),
  ("AddInt16", "widen", "AddInt64", "int64"),
  ("AddInt32", "widen", "AddInt64", "int64"),
  ("AddInt64", "keyAppend", "AppendInt64", ""),
  ("AddInt8", "widen", "AddInt64", "int64"),
  ("AddObject", "keyAppend", "AppendObject", ""),
  ("AddReflected", "reflected", "", ""),
  ("AddString", "keyAppend", "AppendString", ""),
  ("AddTime", "keyAppend", "AppendTime", ""),
  ("AddUint", "widen", "AddUint64", "uint64"),
  ("AddUint16", "widen", "AddUint64", "uint64"),
  ("AddUint32", "widen", "AddUint64", "uint64"),
  ("AddUint64", "keyAppend", "AppendUint64", ""),
  ("AddUint8", "widen", "AddUint64", "uint64"),
  ("AddUintptr", "widen", "AddUint64", "uint64"),
  ("AppendComplex128", "appendWiden", "appendComplex", "complex128(v);64"),
  ("AppendComplex64", "appendWiden", "appendComplex", "complex128(v);32"),
  ("AppendFloat32", "appendWiden", "appendFloat", "float64(v);32"),
  ("AppendFloat64", "appendWiden", "appendFloat", "v;64"),
  ("AppendInt", "appendWiden", "AppendInt64", "int64(v);"),
  ("AppendInt16", "appendWiden", "AppendInt64", "int64(v);"),
  ("AppendInt32", "appendWiden", "AppendInt64", "int64(v);"),
  ("AppendInt8", "appendWiden", "AppendInt64", "int64(v);"),
  ("AppendUint", "appendWiden", "AppendUint64", "uint64(v);"),
  ("AppendUint16", "appendWiden", "AppendUint64", "uint64(v);"),
  ("AppendUint32", "appendWiden", "AppendUint64", "uint64(v);"),
  ("AppendUint8", "appendWiden", "AppendUint64", "uint64(v);"),
  ("AppendUintptr", "appendWiden", "AppendUint64", "uint64(v);"),
  ("OpenNamespace", "namespace", "", "")
]

theorem json_add_surface : Gen.jsonAdd = expectedJsonAdd := by decide

/-- the line ending: SkipLineEnding wins; an empty LineEnding means one "\n" -/
theorem ending_rule (c : Cfg) :
    c.ending = (if c.skipLineEnding then [] else if c.lineEnding.isEmpty then [10] else c.lineEnding) := rfl

/-- non-vacuity: hostile key and value, a namespace left open inside an object inside an array, a failing marshaler -/
example : FieldOK (.arr [107] [AC.obj [OC.ns [34], OC.prim [10] (J.str (esc [255, 34]))]] (some [101])) := by
  refine ⟨?_, ?_⟩
  · simp [WFa, WFo, WFj, esc_ok]
  · simp [NoCtlA, NoCtlO, NoCtlJ]

/-! ------------------------------------------------------------------------------------------------------------------
## built-in sub-encoders (BEGIN block `subenc`; model `Model/SubEnc.lean`)

`jsonLine_wellformed` assumes `EntOK` / `PrimOK`: what each configured sub-encoder appended is a legal scalar.  For the
built-in encoders the model now computes (levels ×4, `NanosDurationEncoder`, `MillisDurationEncoder`,
`StringDurationEncoder`, `EpochNanosTimeEncoder`, `FullCallerEncoder`, `ShortCallerEncoder`, `FullNameEncoder` / nil) that
hypothesis is DISCHARGED: they append one string or one integer. -/
section SubEncoders
open ZapVerif.SubEnc

/-- every model-computed sub-encoder result satisfies the well-formedness hypothesis, whatever the raw values -/
theorem subenc_wellformed (lk : LvlEnc) (dk : DurEnc) (ck : CallerEnc) (o : SubRes) (l n : Int) (defined : Bool)
    (file name : Bytes) (line : Int) :
    SubOK (lvlRes (some lk) o l) ∧ SubOK (durRes (some dk) o n) ∧ SubOK (timeRes true o n) ∧
    SubOK (callerRes (some ck) o defined file line) ∧ SubOK (nameRes true o name) := by
  refine ⟨trivial, ?_, trivial, trivial, trivial⟩
  cases dk <;> trivial

/-- duration and time fields encoded by the exact built-ins are well-formed leaves (no hypothesis left) -/
theorem builtin_prims_ok (dk : DurEnc) (o : SubRes) (n : Int) :
    PrimOK (.dur ⟨n, durRes (some dk) o n⟩) ∧ PrimOK (.time ⟨n, timeRes true o n⟩) := by
  refine ⟨?_, trivial⟩
  cases dk <;> trivial

/-- an entry whose level, caller and name go through built-in exact encoders needs a hypothesis only for the time
    encoder's result (float / layout kinds) -/
theorem builtin_entry_ok (lk : LvlEnc) (ck : CallerEnc) (level : Int) (time : Option TimeV) (name : Bytes)
    (defined : Bool) (file : Bytes) (line : Int) (function message stack : Bytes)
    (ht : ∀ t, time = some t → SubOK t.res) :
    EntOK (builtinEnt lk ck level time name defined file line function message stack) :=
  ⟨trivial, ht, trivial, trivial⟩

/-- C01 for the built-in encoders: with a level encoder among Lowercase/Capital/LowercaseColor/CapitalColor, a caller
    encoder among Full/Short, FullNameEncoder (or nil) and EpochNanosTimeEncoder (or a zero time), the statement of
    `jsonLine_wellformed` holds with NO assumption about sub-encoder results — for every level (known or not), every
    file, line, name and instant -/
theorem jsonLine_wellformed_builtin (c : Cfg) (lk : LvlEnc) (ck : CallerEnc) (level : Int) (nanos : Option Int)
    (name : Bytes) (defined : Bool) (file : Bytes) (line : Int) (function message stack : Bytes)
    (ctx : List (List Field)) (fields : List Field)
    (hc : ∀ fs ∈ ctx, ∀ f ∈ fs, FieldOK f) (hf : ∀ f ∈ fields, FieldOK f) :
    ∃ ms : List (Bytes × J),
      jsonLine c (builtinEnt lk ck level (nanos.map fun n => ⟨n, timeRes true .noop n⟩) name defined file line
        function message stack) ctx fields = render (J.obj ms) ++ c.ending ∧
      WFj (J.obj ms) ∧
      (∀ b ∈ render (J.obj ms), b ≥ 32) ∧
      parseV (size (J.obj ms)) (render (J.obj ms)) = some (J.obj ms, []) := by
  apply jsonLine_wellformed c _ ctx fields _ hc hf
  apply builtin_entry_ok
  intro t ht
  cases nanos with
  | none => simp at ht
  | some n =>
    simp only [Option.map_some, Option.some.injEq] at ht
    rw [← ht]; trivial

/-- non-vacuity: an unknown level under the capital colour encoder, a Windows-style path, a negative line -/
example : ∃ ms, jsonLine ⟨[109], [108], [116], [110], [99], [], [], [], false⟩
    (builtinEnt .capitalColor .short 42 (some ⟨-1, timeRes true .noop (-1)⟩) [115] true [67, 58, 92, 97, 92, 98] (-7) [] [104, 105] [])
    [] [.prim [100] (.dur ⟨-1500000, durRes (some .millis) .noop (-1500000)⟩)] = render (J.obj ms) ++ [10] :=
  let ⟨ms, h, _⟩ := jsonLine_wellformed_builtin ⟨[109], [108], [116], [110], [99], [], [], [], false⟩ .capitalColor .short 42
    (some (-1)) [115] true [67, 58, 92, 97, 92, 98] (-7) [] [104, 105] [] []
    [.prim [100] (.dur ⟨-1500000, durRes (some .millis) .noop (-1500000)⟩)] (by simp)
    (by intro f hf; simp at hf; subst hf; exact (builtin_prims_ok .millis .noop (-1500000)).1)
  ⟨ms, h⟩

end SubEncoders
/-! ## (END block `subenc`) -/

end ZapVerif.C01

/-! ## the model's separator logic IS the source (Go→GoMini translation, docs/TRANSLATOR.md)

`Gen/TransJsonSep.lean` holds the bodies of `addElementSeparator`, `addKey` and `closeOpenNamespaces` as read from
zapcore/json_encoder.go on this run, as GoMini terms.  The theorems below run them in the GoMini interpreter on ALL
inputs (any buffer, any key, spaced or not, any number of open namespaces) and get exactly `Enc.sep`, `Enc.addKey`
and the closing braces `runO`/`encodeEntry` append — the functions `stream_eq_out` is stated over.  A behaviour
change of one of the Go functions changes the generated term and breaks the corresponding proof.
Hypothesis: lengths fit Go's `int` (`< 2^63`).  `safeAddString` is an intrinsic here (it appends `esc key`). -/
namespace ZapVerif.C01
set_option linter.unusedSimpArgs false
open ZapVerif ZapVerif.Esc ZapVerif.Enc ZapVerif.GoMini ZapVerif.TransJsonSep ZapVerif.Gen.TransJsonSep

/-- body of `addElementSeparator`: ends (by `return` or by falling off the end) with `buf = sep sp buf`;
    neither the index expression `enc.buf.Bytes()[last]` nor anything else can panic -/
theorem addElementSeparator_exec_matches_source (buf : Bytes) (sp : Bool) (n : Int) (fuel : Nat) (hl : buf.length < 2^63) :
    (exec X (fuel + 1) addElementSeparator_body ⟨[], encFld buf sp n⟩).fin = some ([], encFld (sep sp buf) sp n) := by
  rw [exec_succ]
  rcases List.eq_nil_or_concat buf with rfl | ⟨l, b, rfl⟩
  · simp [addElementSeparator_body, wrap, sep]
  · have hw : wrap .int (l.length : Int) = l.length := by
      rw [wrap_int_id] <;> simp at hl ⊢ <;> omega
    have hnn : ¬ ((l.length : Int) < 0) := by omega
    have e1 : ((b.toNat : Int) = 123) ↔ b = 123 := by simpa using byte_eq_lit b 123 (by decide)
    have e2 : ((b.toNat : Int) = 91) ↔ b = 91 := by simpa using byte_eq_lit b 91 (by decide)
    have e3 : ((b.toNat : Int) = 58) ↔ b = 58 := by simpa using byte_eq_lit b 58 (by decide)
    have e4 : ((b.toNat : Int) = 44) ↔ b = 44 := by simpa using byte_eq_lit b 44 (by decide)
    have e5 : ((b.toNat : Int) = 32) ↔ b = 32 := by simpa using byte_eq_lit b 32 (by decide)
    simp only [addElementSeparator_body, sep, skip]
    simp [hw, hnn, indexVal_concat, Res.out_ite, Out.catchBrk_ite, Out.fin_ite, e1, e2, e3, e4, e5]
    by_cases h1 : b = 123 <;> by_cases h2 : b = 91 <;> by_cases h3 : b = 58 <;> by_cases h4 : b = 44 <;>
      by_cases h5 : b = 32 <;> cases sp <;> simp [h1, h2, h3, h4, h5]

/-- `enc.addElementSeparator()` ≡ `Enc.sep`: for every buffer, the last byte decides -/
theorem addElementSeparator_matches_source (buf : Bytes) (sp : Bool) (n : Int) (fuel : Nat) (hl : buf.length < 2^63) :
    run X (fuel + 1) "addElementSeparator" [] (encFld buf sp n) = .done [] (encFld (sep sp buf) sp n) :=
  run_of_fin X _ _ addElementSeparator [] _ _ _ rfl rfl (addElementSeparator_exec_matches_source buf sp n fuel hl)

/-- body of `addKey` (calls the translated `addElementSeparator`) -/
theorem addKey_exec_matches_source (buf k : Bytes) (sp : Bool) (n : Int) (fuel : Nat) (hl : buf.length < 2^63) :
    (exec X (fuel + 2) addKey_body ⟨[("p0", .bytes k)], encFld buf sp n⟩).fin =
      some ([], encFld (Enc.addKey sp buf k) sp n) := by
  have hsep : ∀ σ : State, retK σ [] "addElementSeparator"
      (exec X (fuel + 1) addElementSeparator_body ⟨[], encFld buf sp n⟩) = .normal { σ with fld := encFld (sep sp buf) sp n } :=
    fun σ => retK_of_fin0 σ _ _ _ (addElementSeparator_exec_matches_source buf sp n fuel hl)
  rw [exec_succ]
  cases sp <;> simp [addKey_body, hsep, Enc.addKey, colon]

/-- `enc.addKey(key)` ≡ `Enc.addKey`: separator, quoted escaped key, colon (and a space when spaced) -/
theorem addKey_matches_source (buf k : Bytes) (sp : Bool) (n : Int) (fuel : Nat) (hl : buf.length < 2^63) :
    run X (fuel + 2) "addKey" [.bytes k] (encFld buf sp n) = .done [] (encFld (Enc.addKey sp buf k) sp n) :=
  run_of_fin X _ _ addKey [.bytes k] _ _ _ rfl rfl (addKey_exec_matches_source buf k sp n fuel hl)

/-- the loop of `closeOpenNamespaces` appends one `}` per open namespace -/
theorem closeOpenNamespaces_loop_matches_source (buf : Bytes) (sp : Bool) (n : Nat) (hn : n < 2^63) (fuel : Nat) :
    execS X (exec X (fuel + n + 0)) closeOpenNamespaces_loop0 ⟨[("l0", .int (0 : Nat))], encFld buf sp n⟩ =
      .normal ⟨[("l0", .int n)], encFld (buf ++ List.replicate n 125) sp n⟩ := by
  unfold closeOpenNamespaces_loop0
  refine (loop_fold (α := Nat × Bytes) X _ _ _ 0
    (fun a => ⟨[("l0", .int a.1)], encFld a.2 sp n⟩) (fun a => a.1 ≤ n) (fun a => decide (a.1 < n))
    (fun a => (a.1 + 1, a.2 ++ [125])) (fun a => (n, a.2 ++ List.replicate (n - a.1) 125)) (fun a => n - a.1)
    ?_ ?_ ?_ ?_ ?_ ?_ n (0, buf) fuel (Nat.zero_le n) (by simp)).trans (by simp)
  · intro a _; simp
  · intro a fuel _ hc
    have hc' : a.1 < n := by simpa using hc
    have hw : wrap .int ((a.1 : Int) + 1) = ((a.1 + 1 : Nat) : Int) := by
      rw [wrap_int_id] <;> simp at hn ⊢ <;> omega
    simp [hw]
  · intro a ha hc
    have : a.1 < n := by simpa using hc
    show a.1 + 1 ≤ n
    omega
  · intro a ha hc
    have : a.1 < n := by simpa using hc
    show n - (a.1 + 1) < n - a.1
    omega
  · intro a ha hc
    have h1 : ¬ a.1 < n := by simpa using hc
    have h2 : a.1 ≤ n := ha
    have : a.1 = n := by omega
    obtain ⟨i, b⟩ := a
    simp_all
  · intro a ha hc
    have h1 : a.1 < n := by simpa using hc
    obtain ⟨i, b⟩ := a
    simp only [Prod.mk.injEq, true_and, List.append_assoc]
    have : n - i = (n - (i + 1)) + 1 := by simp at h1; omega
    rw [this, List.replicate_succ]; simp

/-- `enc.closeOpenNamespaces()` ≡ what `runO` (`OC.obj`, `AC.obj`) and `encodeEntry` do with `openNs`:
    append `openNs` closing braces and reset the counter; `fuel + n + 1` units of fuel suffice -/
theorem closeOpenNamespaces_matches_source (buf : Bytes) (sp : Bool) (n : Nat) (hn : n < 2^63) (fuel : Nat) :
    run X (fuel + n + 1) "closeOpenNamespaces" [] (encFld buf sp n) =
      .done [] (encFld (buf ++ List.replicate n 125) sp 0) := by
  refine run_of_fin X _ _ closeOpenNamespaces [] _ _ _ rfl rfl ?_
  show (exec X (fuel + n + 1) closeOpenNamespaces_body ⟨[], encFld buf sp n⟩).fin = _
  rw [exec_succ]
  have := closeOpenNamespaces_loop_matches_source buf sp n hn fuel
  simp at this
  simp [closeOpenNamespaces_body, this]

/-- non-vacuity / sanity: the interpreter really runs the generated term (closed instance, by evaluation) -/
example : run X 3 "addKey" [.bytes [107]] (encFld [123, 34, 97, 34, 58, 49] true 0) =
    .done [] (encFld [123, 34, 97, 34, 58, 49, 44, 32, 34, 107, 34, 58, 32] true 0) := by
  have := addKey_matches_source [123, 34, 97, 34, 58, 49] [107] true 0 1 (by decide)
  simpa [Enc.addKey, sep, skip, colon, esc, escape, plain] using this

end ZapVerif.C01

/-! ## the model's escaping IS the source

`Gen/TransEscape.lean` holds `safeAppendStringLike` (the generic function behind `safeAddString` and
`safeAddByteString`, at its string instance) as read from zapcore/json_encoder.go on this run.  The theorem runs it on
EVERY byte string — invalid UTF-8, control characters, quotes, any length — and gets exactly `Esc.escape`, the function
`escape_body_safe` is about.  `utf8.DecodeRune` is the intrinsic `Esc.validLen` (the validity model of unicode/utf8);
`appendTo` is `(*buffer.Buffer).AppendString`.  No index or slice expression of the loop can panic. -/
namespace ZapVerif.C01
set_option linter.unusedSimpArgs false
open ZapVerif ZapVerif.Esc ZapVerif.GoMini ZapVerif.TransEscape ZapVerif.Gen.TransEscape

/-- loop variables `r`, `size` of the last `decodeRune` (absent before the first one) -/
def eTail : Option (Int × Int) → Env
  | none => []
  | some (r, n) => [("l2", .int r), ("l3", .int n)]

/-- the state of `safeAppendStringLike` at the loop head -/
def eAbs (fa fd : Val) (s : Bytes) (a : St × Option (Int × Int)) : State :=
  ⟨[("p0", fa), ("p1", fd), ("p2", .bytes a.1.2.2), ("p3", .bytes s), ("l0", .int a.1.1), ("l1", .int a.1.2.1)] ++ eTail a.2, []⟩

/-- the abstract step with the loop variables it leaves behind -/
def eNext (s : Bytes) (a : St × Option (Int × Int)) : St × Option (Int × Int) :=
  (stepE s a.1,
   if s.getD a.1.2.1 0 ≥ 128 then
     (match validLen (s.drop a.1.2.1) with
      | some n => some (0, (n : Int))
      | none => some (65533, 1))
   else a.2)

/-- one iteration of the escape loop is `TransEscape.stepE` (`k` is the continuation: the rest of the loop) -/
theorem safeAppendStringLike_iter_matches_source (fa fd : Val) (buf s : Bytes)
    (hs : (s.length : Int) < 9223372036854775808) (a : St × Option (Int × Int)) (rec : Stmt → State → GoMini.Out)
    (k : State → GoMini.Out) (hinv : InvE buf s a.1) (hc : a.1.2.1 < s.length) :
    (execS X rec safeAppendStringLike_loop0.lbody (eAbs fa fd s a)).loopBody
      (fun σ' => (execS X rec safeAppendStringLike_loop0.lpost σ').loopPost k) = k (eAbs fa fd s (eNext s a)) := by
  obtain ⟨⟨last, i, out⟩, t⟩ := a
  obtain ⟨h1, h2, h3⟩ := hinv
  simp only at h1 h2 hc
  have hg : s.getD i 0 = s[i] := by simp [hc]
  have hg' : s[i]?.getD 0 = s[i] := by simp [hc]
  have hidx := indexVal_bytes s i hc
  have hw1 : wrap .int ((i : Int) + 1) = ((i + 1 : Nat) : Int) := by rw [wrap_int_id] <;> omega
  have hge : ((s[i].toNat : Int) ≥ 128) ↔ s[i] ≥ 128 := by simpa using byte_ge_lit s[i] 128 (by decide)
  have hslice : (0 : Int) ≤ last ∧ (last : Int) ≤ i ∧ (i : Int) ≤ s.length := by omega
  by_cases hb : s[i] ≥ 128
  · have hb2 : (128 : Int) ≤ s[i].toNat := by have := hge.mpr hb; omega
    have htake : s.take s.length = s := List.take_length
    have hbnd : (0 : Int) ≤ i ∧ (i : Int) ≤ s.length := by omega
    have hsl : sliceVal (.bytes s) (last : Int) (i : Int) = .ok (.bytes ((s.take i).drop last)) := by
      simp [sliceVal_bytes, hslice]
    cases hv : validLen (s.drop i) with
    | none =>
      have hext : ext "decodeRune" [.bytes (s.drop i)] = some [.int 65533, .int 1] := by rw [ext_decode, hv]
      cases t <;>
        simp [safeAppendStringLike_loop0, Stmt.lbody, Stmt.lpost, eAbs, eTail, eNext, stepE, hg, hg', hidx, hb, hb2,
          hw1, hsl, sliceVal_bytes, hslice, hbnd, htake, hext, hv]
    | some n =>
      have hbd := validLen_bounds _ _ hv
      have hdl : (s.drop i).length = s.length - i := by simp
      have hext : ext "decodeRune" [.bytes (s.drop i)] = some [.int 0, .int n] := by rw [ext_decode, hv]
      have hwn : wrap .int ((i : Int) + n) = ((i + n : Nat) : Int) := by rw [wrap_int_id] <;> omega
      cases t <;>
        simp [safeAppendStringLike_loop0, Stmt.lbody, Stmt.lpost, eAbs, eTail, eNext, stepE, hg, hg', hidx, hb, hb2,
          hwn, hsl, sliceVal_bytes, hslice, hbnd, htake, hext, hv]
  · have hb' : ¬ ((s[i].toNat : Int) ≥ 128) := by rw [hge]; exact hb
    have hb'' : ¬ (128 : Int) ≤ s[i].toNat := hb'
    have h32 : ((s[i].toNat : Int) ≥ 32) ↔ s[i] ≥ 32 := by simpa using byte_ge_lit s[i] 32 (by decide)
    have e92 : ((s[i].toNat : Int) = 92) ↔ s[i] = 92 := by simpa using byte_eq_lit s[i] 92 (by decide)
    have e34 : ((s[i].toNat : Int) = 34) ↔ s[i] = 34 := by simpa using byte_eq_lit s[i] 34 (by decide)
    by_cases hp : plain s[i] = true
    · have hp' := hp
      simp only [plain, Bool.and_eq_true, decide_eq_true_eq, bne_iff_ne] at hp'
      have q1 : (32 : Int) ≤ s[i].toNat := by have := h32.mpr hp'.1.1; omega
      have q2 : ¬ ((s[i].toNat : Int) = 92) := by rw [e92]; exact hp'.1.2
      have q3 : ¬ ((s[i].toNat : Int) = 34) := by rw [e34]; exact hp'.2
      cases t <;>
        simp [safeAppendStringLike_loop0, Stmt.lbody, Stmt.lpost, eAbs, eTail, eNext, stepE, hg, hg', hidx, hb, hb'', hp, q1, q2, q3, hw1]
    · have hnp : plain s[i] = false := by simpa using hp
      have hsl : sliceVal (.bytes s) (last : Int) (i : Int) = .ok (.bytes ((s.take i).drop last)) := by
        simp [sliceVal_bytes, hslice]
      have hmk : ∀ v : UInt8, s[i] = v → indexVal (Val.bytes s) (Val.int ↑i) = Res.ok (Val.int ↑v.toNat) := by
        intro v hv; rw [hidx, hv]
      by_cases h92 : s[i] = 92
      · have hi92 := hmk 92 h92
        have hpl : plain 92 = false := by decide
        cases t <;>
          simp [safeAppendStringLike_loop0, Stmt.lbody, Stmt.lpost, eAbs, eTail, eNext, stepE, hg, hg', hi92, hb, hnp,
            hw1, hsl, sliceVal_bytes, hslice, h92, esc1, hpl]
      by_cases h34 : s[i] = 34
      · have hi34 := hmk 34 h34
        have hpl : plain 34 = false := by decide
        cases t <;>
          simp [safeAppendStringLike_loop0, Stmt.lbody, Stmt.lpost, eAbs, eTail, eNext, stepE, hg, hg', hi34, hb, hnp,
            hw1, hsl, sliceVal_bytes, hslice, h34, esc1, hpl]
      by_cases h10 : s[i] = 10
      · have hi10 := hmk 10 h10
        have hpl : plain 10 = false := by decide
        cases t <;>
          simp [safeAppendStringLike_loop0, Stmt.lbody, Stmt.lpost, eAbs, eTail, eNext, stepE, hg, hg', hi10, hb, hnp,
            hw1, hsl, sliceVal_bytes, hslice, h10, esc1, hpl]
      by_cases h13 : s[i] = 13
      · have hi13 := hmk 13 h13
        have hpl : plain 13 = false := by decide
        cases t <;>
          simp [safeAppendStringLike_loop0, Stmt.lbody, Stmt.lpost, eAbs, eTail, eNext, stepE, hg, hg', hi13, hb, hnp,
            hw1, hsl, sliceVal_bytes, hslice, h13, esc1, hpl]
      by_cases h9 : s[i] = 9
      · have hi9 := hmk 9 h9
        have hpl : plain 9 = false := by decide
        cases t <;>
          simp [safeAppendStringLike_loop0, Stmt.lbody, Stmt.lpost, eAbs, eTail, eNext, stepE, hg, hg', hi9, hb, hnp,
            hw1, hsl, sliceVal_bytes, hslice, h9, esc1, hpl]
      · have hlt32 : ¬ s[i] ≥ 32 := by
          intro h
          have : plain s[i] = true := by simp [plain, h, h92, h34]
          exact hp this
        have q1 : ¬ ((32 : Int) ≤ s[i].toNat) := by
          intro h; exact hlt32 (h32.mp h)
        have e10 : ((s[i].toNat : Int) = 10) ↔ s[i] = 10 := by simpa using byte_eq_lit s[i] 10 (by decide)
        have e13 : ((s[i].toNat : Int) = 13) ↔ s[i] = 13 := by simpa using byte_eq_lit s[i] 13 (by decide)
        have e9 : ((s[i].toNat : Int) = 9) ↔ s[i] = 9 := by simpa using byte_eq_lit s[i] 9 (by decide)
        have hh := hex_hi_val s[i]
        have hl := hex_lo_val s[i]
        simp only [hexlit] at hh hl
        push_cast at hh hl
        have hesc : esc1 s[i] = [92, 117, 48, 48, hexd (s[i] >>> 4), hexd (s[i] &&& 15)] := by
          simp [esc1, h92, h34, h10, h13, h9]
        cases t <;>
          simp [safeAppendStringLike_loop0, Stmt.lbody, Stmt.lpost, eAbs, eTail, eNext, stepE, hg, hg', hidx, hb, hnp,
            hw1, hsl, sliceVal_bytes, hslice, q1, hb'', e92, e34, e10, e13, e9, h92, h34, h10, h13, h9, hh, hl, hesc]

/-- `safeAppendStringLike(appendTo, decodeRune, buf, s)` ≡ `buf ++ Esc.escape s` — the JSON string escaping the
    encoder applies to every key and string value — for EVERY byte string `s`; `fuel + len(s) + 1` suffices -/
theorem safeAppendStringLike_matches_source (fa fd : Val) (buf s : Bytes) (fuel : Nat)
    (hs : (s.length : Int) < 9223372036854775808) :
    run X (fuel + s.length + 1) "safeAppendStringLike" [fa, fd, .bytes buf, .bytes s] [] =
      .done [.bytes (buf ++ escape s.length s)] [] := by
  refine run_of_fin X _ _ Gen.TransEscape.safeAppendStringLike [fa, fd, .bytes buf, .bytes s] _ _ _ rfl rfl ?_
  show (exec X (fuel + s.length + 1) safeAppendStringLike_body
    ⟨[("p0", fa), ("p1", fd), ("p2", .bytes buf), ("p3", .bytes s)], []⟩).fin = _
  rw [exec_succ]
  have hL : safeAppendStringLike_loop0 = .loop safeAppendStringLike_loop0.lcond safeAppendStringLike_loop0.lpost
      safeAppendStringLike_loop0.lbody := rfl
  obtain ⟨a', hrun, hinv', hcnd'⟩ := loop_inv (α := St × Option (Int × Int)) X
    safeAppendStringLike_loop0.lcond safeAppendStringLike_loop0.lpost safeAppendStringLike_loop0.lbody 0
    (eAbs fa fd s) (fun a => InvE buf s a.1) (fun a => decide (a.1.2.1 < s.length)) (eNext s) (fun a => s.length - a.1.2.1)
    (by
      intro a _
      obtain ⟨⟨last, i, out⟩, t⟩ := a
      cases t <;> simp [safeAppendStringLike_loop0, Stmt.lcond, eAbs, eTail])
    (by
      intro a fuel ha hc
      exact safeAppendStringLike_iter_matches_source fa fd buf s hs a _ _ ha (by simpa using hc))
    (by
      intro a ha hc
      exact (InvE_step buf s a.1 ha (by simpa using hc)).1)
    (by
      intro a ha hc
      have hlt : a.1.2.1 < s.length := by simpa using hc
      have h := InvE_step buf s a.1 ha hlt
      have h2 : (stepE s a.1).2.1 ≤ s.length := h.1.2.1
      show s.length - (stepE s a.1).2.1 < s.length - a.1.2.1
      omega)
    s.length ((0, 0, buf), none) fuel (InvE_init buf s) (by simp)
  rw [← hL] at hrun
  obtain ⟨⟨last, i, out⟩, t⟩ := a'
  have hfin := InvE_final buf s (last, i, out) hinv' (by simpa using hcnd')
  obtain ⟨h1, h2, -⟩ := hinv'
  simp only at h1 h2 hfin
  have htake : s.take s.length = s := List.take_length
  have hbnd : (0 : Int) ≤ last ∧ (last : Int) ≤ s.length := by omega
  have hrun' : execS X (exec X (fuel + s.length))
      safeAppendStringLike_loop0
      ⟨[("p0", fa), ("p1", fd), ("p2", .bytes buf), ("p3", .bytes s), ("l0", .int 0), ("l1", .int 0)], []⟩ =
        .normal (eAbs fa fd s ((last, i, out), t)) := by
    simpa [eAbs, eTail] using hrun
  cases t <;>
    simp [safeAppendStringLike_body, hrun', eAbs, eTail, sliceVal_bytes, hbnd, htake, hfin, G]

end ZapVerif.C01

/-! ## the structural methods of the JSON encoder ARE the source (table `Gen/TransJsonEnc.lean`)

`AppendObject`, `AppendArray`, `AddObject`, `AddArray`, `OpenNamespace`, `encodeReflected` (+ `resetReflectBuf`),
`AppendReflected`, `AddReflected`, `truncate` of zapcore/json_encoder.go, translated mechanically, are interpreted for
EVERY buffer, every counter of open namespaces, every marshaler (`Par.mo` / `Par.ma`: whatever it does to the encoder it
is handed, whatever error it returns) and every reflected encoder.  Each is exactly one clause of the streaming machine
`Enc.runO` / `Enc.runA` that `stream_eq_out` and `jsonLine_wellformed` are about (`…_is_run_clause`):

* `AppendObject`: separator, `{`, the marshaler on a counter reset to 0, `}`, THEN the namespaces the marshaler left
  open are closed, the saved counter is restored, the marshaler's error is returned — on the error path too;
* `AppendReflected` / `AddReflected`: the value is encoded FIRST; when that fails nothing at all is written (no separator,
  no key) and the scratch buffer is neither freed nor cleared.

`addElementSeparator` / `addKey` / `closeOpenNamespaces` are `Enc.sep` / `Enc.addKey` / the closing braces here, which the
section above proves about their source. -/
namespace ZapVerif.C01
set_option linter.unusedSimpArgs false
open ZapVerif ZapVerif.Esc ZapVerif.Enc ZapVerif.GoMini ZapVerif.TransJsonEnc ZapVerif.Gen.TransJsonEnc

/-- the encoder state after `AppendObject(obj)` and the error it returns -/
def appendObjectSpec (P : Par) (obj : Val) (sp : Bool) (s : St) : St × List Val :=
  let r := P.mo obj sp ⟨sep sp s.buf ++ [123], 0, s.rbuf, s.renc⟩
  (⟨closeNs (r.1.buf ++ [125]) r.1.ns, s.ns, r.1.rbuf, r.1.renc⟩, r.2)

theorem AppendObject_exec_matches_source (P : Par) (obj : Val) (buf : Bytes) (sp : Bool) (ns : Int) (rbuf renc : List Val)
    (nr self : Val) (ev : List Val) (fuel : Nat) :
    (exec (X P) (fuel + 1) AppendObject_body ⟨[("p0", obj)], jeFld buf sp ns rbuf renc nr self ev⟩).fin =
      some ([.list (appendObjectSpec P obj sp ⟨buf, ns, rbuf, renc⟩).2],
        jeFld (appendObjectSpec P obj sp ⟨buf, ns, rbuf, renc⟩).1.buf sp ns
          (appendObjectSpec P obj sp ⟨buf, ns, rbuf, renc⟩).1.rbuf (appendObjectSpec P obj sp ⟨buf, ns, rbuf, renc⟩).1.renc
          nr self ev) := by
  rw [exec_succ]
  simp [AppendObject_body, appendObjectSpec]

theorem AppendObject_matches_source (P : Par) (obj : Val) (buf : Bytes) (sp : Bool) (ns : Int) (rbuf renc : List Val)
    (nr self : Val) (ev : List Val) (fuel : Nat) :
    run (X P) (fuel + 1) "AppendObject" [obj] (jeFld buf sp ns rbuf renc nr self ev) =
      .done [.list (appendObjectSpec P obj sp ⟨buf, ns, rbuf, renc⟩).2]
        (jeFld (appendObjectSpec P obj sp ⟨buf, ns, rbuf, renc⟩).1.buf sp ns
          (appendObjectSpec P obj sp ⟨buf, ns, rbuf, renc⟩).1.rbuf (appendObjectSpec P obj sp ⟨buf, ns, rbuf, renc⟩).1.renc
          nr self ev) :=
  run_of_fin (X P) _ _ Gen.TransJsonEnc.AppendObject [obj] _ _ _ rfl rfl
    (AppendObject_exec_matches_source P obj buf sp ns rbuf renc nr self ev fuel)

/-- `AppendObject` is the `AC.obj` clause of `runA` (and, after `addKey`, the `OC.obj` clause of `runO`): when the
    marshaler behaves on the encoder as the machine does on its call tree `body`, the buffer afterwards is the machine's -/
theorem AppendObject_is_run_clause (P : Par) (obj : Val) (sp : Bool) (body : List OC) (buf : Bytes) (ns : Int)
    (rbuf renc : List Val)
    (hmo : ∀ b : Bytes, (P.mo obj sp ⟨b, 0, rbuf, renc⟩).1.buf = (runO sp ⟨b, 0⟩ body).buf ∧
      (P.mo obj sp ⟨b, 0, rbuf, renc⟩).1.ns = ((runO sp ⟨b, 0⟩ body).openNs : Int)) (r : List AC) :
    runA sp buf (AC.obj body :: r) = runA sp (appendObjectSpec P obj sp ⟨buf, ns, rbuf, renc⟩).1.buf r ∧
    (appendObjectSpec P obj sp ⟨buf, ns, rbuf, renc⟩).1.ns = ns := by
  obtain ⟨h1, h2⟩ := hmo (sep sp buf ++ [123])
  simp [runA, appendObjectSpec, closeNs, h1, h2]

def appendArraySpec (P : Par) (arr : Val) (sp : Bool) (s : St) : St × List Val :=
  let r := P.ma arr sp ⟨sep sp s.buf ++ [91], s.ns, s.rbuf, s.renc⟩
  (⟨r.1.buf ++ [93], r.1.ns, r.1.rbuf, r.1.renc⟩, r.2)

theorem AppendArray_exec_matches_source (P : Par) (arr : Val) (buf : Bytes) (sp : Bool) (ns : Int) (rbuf renc : List Val)
    (nr self : Val) (ev : List Val) (fuel : Nat) :
    (exec (X P) (fuel + 1) AppendArray_body ⟨[("p0", arr)], jeFld buf sp ns rbuf renc nr self ev⟩).fin =
      some ([.list (appendArraySpec P arr sp ⟨buf, ns, rbuf, renc⟩).2],
        jeFld (appendArraySpec P arr sp ⟨buf, ns, rbuf, renc⟩).1.buf sp (appendArraySpec P arr sp ⟨buf, ns, rbuf, renc⟩).1.ns
          (appendArraySpec P arr sp ⟨buf, ns, rbuf, renc⟩).1.rbuf (appendArraySpec P arr sp ⟨buf, ns, rbuf, renc⟩).1.renc
          nr self ev) := by
  rw [exec_succ]
  simp [AppendArray_body, appendArraySpec]

theorem AppendArray_matches_source (P : Par) (arr : Val) (buf : Bytes) (sp : Bool) (ns : Int) (rbuf renc : List Val)
    (nr self : Val) (ev : List Val) (fuel : Nat) :
    run (X P) (fuel + 1) "AppendArray" [arr] (jeFld buf sp ns rbuf renc nr self ev) =
      .done [.list (appendArraySpec P arr sp ⟨buf, ns, rbuf, renc⟩).2]
        (jeFld (appendArraySpec P arr sp ⟨buf, ns, rbuf, renc⟩).1.buf sp (appendArraySpec P arr sp ⟨buf, ns, rbuf, renc⟩).1.ns
          (appendArraySpec P arr sp ⟨buf, ns, rbuf, renc⟩).1.rbuf (appendArraySpec P arr sp ⟨buf, ns, rbuf, renc⟩).1.renc
          nr self ev) :=
  run_of_fin (X P) _ _ Gen.TransJsonEnc.AppendArray [arr] _ _ _ rfl rfl
    (AppendArray_exec_matches_source P arr buf sp ns rbuf renc nr self ev fuel)

/-- `AppendArray` is the `AC.arr` clause of `runA` -/
theorem AppendArray_is_run_clause (P : Par) (arr : Val) (sp : Bool) (body : List AC) (buf : Bytes) (ns : Int)
    (rbuf renc : List Val)
    (hma : ∀ b : Bytes, (P.ma arr sp ⟨b, ns, rbuf, renc⟩).1.buf = runA sp b body) (r : List AC) :
    runA sp buf (AC.arr body :: r) = runA sp (appendArraySpec P arr sp ⟨buf, ns, rbuf, renc⟩).1.buf r := by
  simp [runA, appendArraySpec, hma]

/-- `AddObject(key, obj)` = `addKey` then `AppendObject`: the `OC.obj` clause of `runO` -/
theorem AddObject_matches_source (P : Par) (k : Bytes) (obj : Val) (buf : Bytes) (sp : Bool) (ns : Int) (rbuf renc : List Val)
    (nr self : Val) (ev : List Val) (fuel : Nat) :
    run (X P) (fuel + 2) "AddObject" [.bytes k, obj] (jeFld buf sp ns rbuf renc nr self ev) =
      .done [.list (appendObjectSpec P obj sp ⟨Enc.addKey sp buf k, ns, rbuf, renc⟩).2]
        (jeFld (appendObjectSpec P obj sp ⟨Enc.addKey sp buf k, ns, rbuf, renc⟩).1.buf sp ns
          (appendObjectSpec P obj sp ⟨Enc.addKey sp buf k, ns, rbuf, renc⟩).1.rbuf
          (appendObjectSpec P obj sp ⟨Enc.addKey sp buf k, ns, rbuf, renc⟩).1.renc nr self ev) := by
  refine run_of_fin (X P) _ _ Gen.TransJsonEnc.AddObject [.bytes k, obj] _ _ _ rfl rfl ?_
  show (exec (X P) (fuel + 2) AddObject_body ⟨[("p0", .bytes k), ("p1", obj)], _⟩).fin = _
  have hcall : ∀ σ : State, retK σ [.loc "l0"] "AppendObject"
      (exec (X P) (fuel + 1) AppendObject_body ⟨[("p0", obj)], jeFld (Enc.addKey sp buf k) sp ns rbuf renc nr self ev⟩) = _ :=
    fun σ => retK_of_fin1 σ _ _ _ _ _ (AppendObject_exec_matches_source P obj (Enc.addKey sp buf k) sp ns rbuf renc nr self ev fuel)
  rw [exec_succ]
  simp [AddObject_body, hcall]

theorem AddObject_is_run_clause (P : Par) (obj : Val) (sp : Bool) (k : Bytes) (body : List OC) (e : Enc)
    (rbuf renc : List Val)
    (hmo : ∀ b : Bytes, (P.mo obj sp ⟨b, 0, rbuf, renc⟩).1.buf = (runO sp ⟨b, 0⟩ body).buf ∧
      (P.mo obj sp ⟨b, 0, rbuf, renc⟩).1.ns = ((runO sp ⟨b, 0⟩ body).openNs : Int)) (r : List OC) :
    runO sp e (OC.obj k body :: r) =
      runO sp ⟨(appendObjectSpec P obj sp ⟨Enc.addKey sp e.buf k, e.openNs, rbuf, renc⟩).1.buf, e.openNs⟩ r := by
  obtain ⟨h1, h2⟩ := hmo (sep sp (Enc.addKey sp e.buf k) ++ [123])
  simp [runO, appendObjectSpec, closeNs, h1, h2]

theorem AddArray_matches_source (P : Par) (k : Bytes) (arr : Val) (buf : Bytes) (sp : Bool) (ns : Int) (rbuf renc : List Val)
    (nr self : Val) (ev : List Val) (fuel : Nat) :
    run (X P) (fuel + 2) "AddArray" [.bytes k, arr] (jeFld buf sp ns rbuf renc nr self ev) =
      .done [.list (appendArraySpec P arr sp ⟨Enc.addKey sp buf k, ns, rbuf, renc⟩).2]
        (jeFld (appendArraySpec P arr sp ⟨Enc.addKey sp buf k, ns, rbuf, renc⟩).1.buf sp
          (appendArraySpec P arr sp ⟨Enc.addKey sp buf k, ns, rbuf, renc⟩).1.ns
          (appendArraySpec P arr sp ⟨Enc.addKey sp buf k, ns, rbuf, renc⟩).1.rbuf
          (appendArraySpec P arr sp ⟨Enc.addKey sp buf k, ns, rbuf, renc⟩).1.renc nr self ev) := by
  refine run_of_fin (X P) _ _ Gen.TransJsonEnc.AddArray [.bytes k, arr] _ _ _ rfl rfl ?_
  show (exec (X P) (fuel + 2) AddArray_body ⟨[("p0", .bytes k), ("p1", arr)], _⟩).fin = _
  have hcall : ∀ σ : State, retK σ [.loc "l0"] "AppendArray"
      (exec (X P) (fuel + 1) AppendArray_body ⟨[("p0", arr)], jeFld (Enc.addKey sp buf k) sp ns rbuf renc nr self ev⟩) = _ :=
    fun σ => retK_of_fin1 σ _ _ _ _ _ (AppendArray_exec_matches_source P arr (Enc.addKey sp buf k) sp ns rbuf renc nr self ev fuel)
  rw [exec_succ]
  simp [AddArray_body, hcall]

theorem AddArray_is_run_clause (P : Par) (arr : Val) (sp : Bool) (k : Bytes) (body : List AC) (e : Enc)
    (rbuf renc : List Val)
    (hma : ∀ b : Bytes, (P.ma arr sp ⟨b, e.openNs, rbuf, renc⟩).1.buf = runA sp b body) (r : List OC) :
    runO sp e (OC.arr k body :: r) =
      runO sp { e with buf := (appendArraySpec P arr sp ⟨Enc.addKey sp e.buf k, e.openNs, rbuf, renc⟩).1.buf } r := by
  simp [runO, appendArraySpec, hma]

/-- `OpenNamespace(key)`: key, `{`, one more open namespace — the `OC.ns` clause of `runO` -/
theorem OpenNamespace_matches_source (P : Par) (k : Bytes) (buf : Bytes) (sp : Bool) (ns : Nat) (hns : (ns : Int) + 1 < 2^63)
    (rbuf renc : List Val) (nr self : Val) (ev : List Val) (fuel : Nat) :
    run (X P) (fuel + 1) "OpenNamespace" [.bytes k] (jeFld buf sp ns rbuf renc nr self ev) =
      .done [] (jeFld (runO sp ⟨buf, ns⟩ [OC.ns k]).buf sp ((runO sp ⟨buf, ns⟩ [OC.ns k]).openNs : Nat) rbuf renc nr self ev) := by
  refine run_of_fin (X P) _ _ Gen.TransJsonEnc.OpenNamespace [.bytes k] _ _ _ rfl rfl ?_
  show (exec (X P) (fuel + 1) OpenNamespace_body ⟨[("p0", .bytes k)], _⟩).fin = _
  have hw : wrap .int ((ns : Int) + 1) = (ns : Int) + 1 := by rw [wrap_int_id] <;> omega
  rw [exec_succ]
  simp [OpenNamespace_body, runO, hw]

/-- `truncate` empties the buffer (and nothing else) -/
theorem truncate_matches_source (P : Par) (buf : Bytes) (sp : Bool) (ns : Int) (rbuf renc : List Val) (nr self : Val)
    (ev : List Val) (fuel : Nat) :
    run (X P) (fuel + 1) "truncate" [] (jeFld buf sp ns rbuf renc nr self ev) =
      .done [] (jeFld [] sp ns rbuf renc nr self ev) := by
  refine run_of_fin (X P) _ _ Gen.TransJsonEnc.truncate [] _ _ _ rfl rfl ?_
  show (exec (X P) (fuel + 1) truncate_body ⟨[], _⟩).fin = _
  rw [exec_succ]
  simp [truncate_body]

/-! ### the reflected encoder -/

/-- `resetReflectBuf`: the scratch buffer is created (from the buffer pool, with its encoder) once, emptied otherwise -/
def resetSpec (P : Par) (nr : Val) (rbuf renc ev : List Val) : List Val × List Val × List Val :=
  if rbuf.isEmpty then ([.bytes []], P.newRefl nr [.bytes []], ev ++ [.list [TransJsonEnc.nm "bufferpool.GetPtr"]])
  else ([.bytes []], renc, ev)

theorem resetReflectBuf_exec_matches_source (P : Par) (buf : Bytes) (sp : Bool) (ns : Int) (rbuf renc : List Val)
    (nr self : Val) (ev : List Val) (fuel : Nat) :
    (exec (X P) (fuel + 1) resetReflectBuf_body ⟨[], jeFld buf sp ns rbuf renc nr self ev⟩).fin =
      some ([], jeFld buf sp ns (resetSpec P nr rbuf renc ev).1 (resetSpec P nr rbuf renc ev).2.1 nr self
        (resetSpec P nr rbuf renc ev).2.2) := by
  rw [exec_succ]
  cases rbuf with
  | nil => simp [resetReflectBuf_body, resetSpec, nm_getPtr]
  | cons a r =>
    have hpos : ¬ ((r.length : Int) + 1 = 0) := by omega
    simp [resetReflectBuf_body, resetSpec, hpos]

theorem resetReflectBuf_matches_source (P : Par) (buf : Bytes) (sp : Bool) (ns : Int) (rbuf renc : List Val)
    (nr self : Val) (ev : List Val) (fuel : Nat) :
    run (X P) (fuel + 1) "resetReflectBuf" [] (jeFld buf sp ns rbuf renc nr self ev) =
      .done [] (jeFld buf sp ns (resetSpec P nr rbuf renc ev).1 (resetSpec P nr rbuf renc ev).2.1 nr self
        (resetSpec P nr rbuf renc ev).2.2) :=
  run_of_fin (X P) _ _ Gen.TransJsonEnc.resetReflectBuf [] _ _ _ rfl rfl
    (resetReflectBuf_exec_matches_source P buf sp ns rbuf renc nr self ev fuel)

/-- `encodeReflected(obj)`: the bytes and the error it returns, and the scratch state it leaves.  `nil` is the literal
    `null` without touching anything; a failing `Encode` returns the error with NO bytes and leaves the scratch buffer as
    it is (not freed, not cleared); a successful one has its trailing newline trimmed -/
def encodeReflectedSpec (P : Par) (nr : Val) (obj rbuf renc ev : List Val) :
    (Bytes × List Val) × (List Val × List Val × List Val) :=
  if obj.isEmpty then (([110, 117, 108, 108], []), (rbuf, renc, ev))
  else
    let rs := resetSpec P nr rbuf renc ev
    let r := P.reflEncode rs.2.1 (.list obj)
    if r.2.isEmpty then ((trimNewline r.1, []), ([.bytes (trimNewline r.1)], rs.2.1, rs.2.2))
    else (([], r.2), ([.bytes r.1], rs.2.1, rs.2.2))

theorem encodeReflected_exec_matches_source (P : Par) (obj : List Val) (buf : Bytes) (sp : Bool) (ns : Int)
    (rbuf renc : List Val) (nr self : Val) (ev : List Val) (fuel : Nat) :
    (exec (X P) (fuel + 2) encodeReflected_body ⟨[("p0", .list obj)], jeFld buf sp ns rbuf renc nr self ev⟩).fin =
      some ([.bytes (encodeReflectedSpec P nr obj rbuf renc ev).1.1, .list (encodeReflectedSpec P nr obj rbuf renc ev).1.2],
        jeFld buf sp ns (encodeReflectedSpec P nr obj rbuf renc ev).2.1 (encodeReflectedSpec P nr obj rbuf renc ev).2.2.1
          nr self (encodeReflectedSpec P nr obj rbuf renc ev).2.2.2) := by
  have hcall : ∀ σ : State, retK σ [] "resetReflectBuf"
      (exec (X P) (fuel + 1) resetReflectBuf_body ⟨[], jeFld buf sp ns rbuf renc nr self ev⟩) = _ :=
    fun σ => retK_of_fin0 σ _ _ _ (resetReflectBuf_exec_matches_source P buf sp ns rbuf renc nr self ev fuel)
  rw [exec_succ]
  cases obj with
  | nil => simp [encodeReflected_body, encodeReflectedSpec]
  | cons a r =>
    have hpos : ¬ ((r.length : Int) + 1 = 0) := by omega
    have hrs : (resetSpec P nr rbuf renc ev).1 = [.bytes []] := by unfold resetSpec; split <;> rfl
    cases he : (P.reflEncode (resetSpec P nr rbuf renc ev).2.1 (.list (a :: r))).2 with
    | nil => simp [encodeReflected_body, encodeReflectedSpec, hcall, hpos, hrs, he]
    | cons e es =>
      have hpos' : ¬ ((es.length : Int) + 1 = 0) := by omega
      simp [encodeReflected_body, encodeReflectedSpec, hcall, hpos, hrs, he, hpos']

theorem encodeReflected_matches_source (P : Par) (obj : List Val) (buf : Bytes) (sp : Bool) (ns : Int)
    (rbuf renc : List Val) (nr self : Val) (ev : List Val) (fuel : Nat) :
    run (X P) (fuel + 2) "encodeReflected" [.list obj] (jeFld buf sp ns rbuf renc nr self ev) =
      .done [.bytes (encodeReflectedSpec P nr obj rbuf renc ev).1.1, .list (encodeReflectedSpec P nr obj rbuf renc ev).1.2]
        (jeFld buf sp ns (encodeReflectedSpec P nr obj rbuf renc ev).2.1 (encodeReflectedSpec P nr obj rbuf renc ev).2.2.1
          nr self (encodeReflectedSpec P nr obj rbuf renc ev).2.2.2) :=
  run_of_fin (X P) _ _ Gen.TransJsonEnc.encodeReflected [.list obj] _ _ _ rfl rfl
    (encodeReflected_exec_matches_source P obj buf sp ns rbuf renc nr self ev fuel)

/-- `AppendReflected(val)`: encode FIRST; on an error the buffer is untouched (no separator), otherwise separator + bytes -/
theorem AppendReflected_matches_source (P : Par) (obj : List Val) (buf : Bytes) (sp : Bool) (ns : Int)
    (rbuf renc : List Val) (nr self : Val) (ev : List Val) (fuel : Nat) :
    run (X P) (fuel + 3) "AppendReflected" [.list obj] (jeFld buf sp ns rbuf renc nr self ev) =
      .done [.list (encodeReflectedSpec P nr obj rbuf renc ev).1.2]
        (jeFld (if (encodeReflectedSpec P nr obj rbuf renc ev).1.2.isEmpty
                then sep sp buf ++ (encodeReflectedSpec P nr obj rbuf renc ev).1.1 else buf) sp ns
          (encodeReflectedSpec P nr obj rbuf renc ev).2.1 (encodeReflectedSpec P nr obj rbuf renc ev).2.2.1
          nr self (encodeReflectedSpec P nr obj rbuf renc ev).2.2.2) := by
  refine run_of_fin (X P) _ _ Gen.TransJsonEnc.AppendReflected [.list obj] _ _ _ rfl rfl ?_
  show (exec (X P) (fuel + 3) AppendReflected_body ⟨[("p0", .list obj)], _⟩).fin = _
  have hcall : ∀ σ : State, retK σ [.loc "l0", .loc "l1"] "encodeReflected"
      (exec (X P) (fuel + 2) encodeReflected_body ⟨[("p0", .list obj)], jeFld buf sp ns rbuf renc nr self ev⟩) = _ :=
    fun σ => retK_of_fin2 σ _ _ _ _ _ _ _ (encodeReflected_exec_matches_source P obj buf sp ns rbuf renc nr self ev fuel)
  rw [exec_succ]
  generalize encodeReflectedSpec P nr obj rbuf renc ev = R at hcall ⊢
  obtain ⟨⟨bs, err⟩, rb, re, ev'⟩ := R
  cases err with
  | nil => simp [AppendReflected_body, hcall]
  | cons e es =>
    have hpos' : ¬ ((es.length : Int) + 1 = 0) := by omega
    simp [AppendReflected_body, hcall, hpos']

/-- `AddReflected(key, obj)`: encode FIRST; on an error NOTHING is written (no key), otherwise key + bytes -/
theorem AddReflected_matches_source (P : Par) (k : Bytes) (obj : List Val) (buf : Bytes) (sp : Bool) (ns : Int)
    (rbuf renc : List Val) (nr self : Val) (ev : List Val) (fuel : Nat) :
    run (X P) (fuel + 3) "AddReflected" [.bytes k, .list obj] (jeFld buf sp ns rbuf renc nr self ev) =
      .done [.list (encodeReflectedSpec P nr obj rbuf renc ev).1.2]
        (jeFld (if (encodeReflectedSpec P nr obj rbuf renc ev).1.2.isEmpty
                then Enc.addKey sp buf k ++ (encodeReflectedSpec P nr obj rbuf renc ev).1.1 else buf) sp ns
          (encodeReflectedSpec P nr obj rbuf renc ev).2.1 (encodeReflectedSpec P nr obj rbuf renc ev).2.2.1
          nr self (encodeReflectedSpec P nr obj rbuf renc ev).2.2.2) := by
  refine run_of_fin (X P) _ _ Gen.TransJsonEnc.AddReflected [.bytes k, .list obj] _ _ _ rfl rfl ?_
  show (exec (X P) (fuel + 3) AddReflected_body ⟨[("p0", .bytes k), ("p1", .list obj)], _⟩).fin = _
  have hcall : ∀ σ : State, retK σ [.loc "l0", .loc "l1"] "encodeReflected"
      (exec (X P) (fuel + 2) encodeReflected_body ⟨[("p0", .list obj)], jeFld buf sp ns rbuf renc nr self ev⟩) = _ :=
    fun σ => retK_of_fin2 σ _ _ _ _ _ _ _ (encodeReflected_exec_matches_source P obj buf sp ns rbuf renc nr self ev fuel)
  rw [exec_succ]
  generalize encodeReflectedSpec P nr obj rbuf renc ev = R at hcall ⊢
  obtain ⟨⟨bs, err⟩, rb, re, ev'⟩ := R
  cases err with
  | nil => simp [AddReflected_body, hcall]
  | cons e es =>
    have hpos' : ¬ ((es.length : Int) + 1 = 0) := by omega
    simp [AddReflected_body, hcall, hpos']

/-- a reflected value that encoded to `render j` is the `OC.prim` / `AC.prim` clause of the machine; one that failed
    leaves the buffer exactly as it was (`Field.refl k none` contributes only its `<key>Error` member) -/
theorem Reflected_is_run_clause (sp : Bool) (k : Bytes) (j : Json.J) (e : Enc) (buf : Bytes) :
    (runO sp e [OC.prim k j]).buf = Enc.addKey sp e.buf k ++ Json.render j ∧
    runA sp buf [AC.prim j] = sep sp buf ++ Json.render j := by
  simp [runO, runA, TransJsonEnc.sep_addKey]

end ZapVerif.C01
