import ZapVerif.Proofs.EntryWF
import ZapVerif.Proofs.Unesc
import ZapVerif.Proofs.Num
import ZapVerif.Gen.EntryMeta
import ZapVerif.Proofs.MapEnc
import ZapVerif.Proofs.Base64
import ZapVerif.Model.Binary
/-! # C02 — JSON output decodes to exactly the logged values, in order, at the right nesting -/
namespace ZapVerif.C02
open ZapVerif ZapVerif.Esc ZapVerif.Json ZapVerif.Enc ZapVerif.Entry

/-- the emitted line IS the rendering of the object whose members are `entryMembers` (Proofs/EntryWF.lean):
    metadata under the omission rules of `metaCalls`, then context fields, then call-site fields, in the order
    added, every namespace nesting what follows it, the stack trace last at top level -/
theorem encodeEntry_eq_render (c : Cfg) (e : Ent) (ctx : List (List Field)) (fields : List Field)
    (he : EntOK e) (hc : ∀ fs ∈ ctx, ∀ f ∈ fs, FieldOK f) (hf : ∀ f ∈ fields, FieldOK f) :
    jsonLine c e ctx fields = render (J.obj (entryMembers c e ctx fields)) ++ c.ending :=
  jsonLine_eq_render c e ctx fields he hc hf

/-- decoding an emitted line yields exactly that tree: every member, in order, at its nesting, duplicates kept -/
theorem decode_emitted (c : Cfg) (e : Ent) (ctx : List (List Field)) (fields : List Field)
    (he : EntOK e) (hc : ∀ fs ∈ ctx, ∀ f ∈ fs, FieldOK f) (hf : ∀ f ∈ fields, FieldOK f) :
    ∃ body, jsonLine c e ctx fields = body ++ c.ending ∧
      parseV (size (J.obj (entryMembers c e ctx fields))) body = some (J.obj (entryMembers c e ctx fields), []) :=
  ⟨_, jsonLine_eq_render c e ctx fields he hc hf, parse_render _ (entryMembers_ok c e ctx fields he hc hf).1⟩

/-- nesting lemmas: what each kind of call contributes to the tree -/
theorem denote_prim (k : Bytes) (v : J) (r : List OC) : denO (OC.prim k v :: r) = (esc k, v) :: denO r := by
  simp [denO]
theorem denote_object (k : Bytes) (body r : List OC) :
    denO (OC.obj k body :: r) = (esc k, J.obj (denO body)) :: denO r := by simp [denO]
theorem denote_array (k : Bytes) (body : List AC) (r : List OC) :
    denO (OC.arr k body :: r) = (esc k, J.arr (denA body)) :: denO r := by simp [denO]
/-- a namespace nests *everything that follows at that level* -/
theorem denote_namespace (k : Bytes) (r : List OC) : denO (OC.ns k :: r) = [(esc k, J.obj (denO r))] := by
  simp [denO]
/-- inlined and dict fields: an inline marshaler's calls land in the enclosing object; a dict is an object of
    its fields' calls -/
theorem denote_inline (k : Bytes) (body : List OC) : addTo (.inline k body none) = body := by simp [addTo, errCall]

/-- values: integers are rendered by `fmtInt`/`fmtNat` (decimal, full range — `Int`/`Nat` are unbounded),
    non-finite floats as the strings NaN / +Inf / -Inf, strings through `esc` -/
theorem value_nan (txt : Bytes) (inf : Int) : scalarJ (.float true inf txt) = J.str [78, 97, 78] := by simp [scalarJ]
theorem value_posinf (txt : Bytes) : scalarJ (.float false 1 txt) = J.str [43, 73, 110, 102] := by simp [scalarJ]
theorem value_neginf (txt : Bytes) : scalarJ (.float false (-1) txt) = J.str [45, 73, 110, 102] := by simp [scalarJ]
theorem value_finite (txt : Bytes) : scalarJ (.float false 0 txt) = J.atom txt := by simp [scalarJ]
theorem value_string (s : Bytes) : scalarJ (.str s) = J.str (esc s) := rfl

/-- errors: message under the key, verbose form under key+"Verbose" iff it differs, causes under key+"Causes" -/
theorem error_basic (k basic : Bytes) :
    addTo (.error k (.mk (.ok basic) none false [])) = [strPrim k basic] := by simp [addTo, encErr, errCall]
theorem error_verbose (k basic v : Bytes) (h : v ≠ basic) :
    addTo (.error k (.mk (.ok basic) (some v) false [])) = [strPrim k basic, strPrim (sfx k "Verbose") v] := by
  simp [addTo, encErr, errCall, h]

/-- strings byte for byte: decoding the escaped body gives back the logged bytes with each invalid UTF-8 byte
    replaced by U+FFFD exactly once (and nothing else changed) -/
theorem string_recoverable (s : Bytes) : unescape (esc s) = some (sanitize s.length s) := unescape_escape s.length s

/-- an ASCII string (no byte ≥ 0x80) is recovered unchanged -/
theorem sanitize_ascii (fuel : Nat) (s : Bytes) (hf : s.length ≤ fuel) (h : ∀ b ∈ s, b < 128) : sanitize fuel s = s := by
  induction fuel generalizing s with
  | zero =>
    have : s = [] := by simpa using hf
    subst this; simp [sanitize]
  | succ f ih =>
    cases s with
    | nil => simp [sanitize]
    | cons b r =>
      have hb : ¬ b ≥ 128 := by
        have := h b (by simp)
        simp [UInt8.lt_iff_toNat_lt, UInt8.le_iff_toNat_le] at this ⊢; omega
      simp only [sanitize, hb, if_false]
      rw [ih r (by simpa using hf) (fun x hx => h x (by simp [hx]))]

/-- a byte that starts no valid UTF-8 sequence becomes exactly one U+FFFD and decoding resumes at the next byte -/
theorem sanitize_invalid_once (fuel : Nat) (b : UInt8) (r : Bytes) (hb : b ≥ 128) (hv : validLen (b :: r) = none) :
    sanitize (fuel + 1) (b :: r) = replacement ++ sanitize fuel r := by
  simp [sanitize, hb, hv]

/-- zap.Binary: the value emitted is the JSON string whose body is the base64 text of the payload, written with no
    escape at all (every character is a letter, digit, `+`, `/` or `=`) -/
theorem binary_value (raw : Bytes) : primJ (binaryPrim raw) = J.str (B64.b64enc raw) := by
  simp only [binaryPrim, primJ, scalarJ, esc]
  rw [B64.escape_plain_id _ _ (Nat.le_refl _) (B64.enc_plain raw)]

/-- … and decoding it (JSON string → bytes → base64) gives back exactly the logged payload, for every payload -/
theorem binary_recoverable (raw : Bytes) : (unescape (esc (B64.b64enc raw))).bind B64.b64dec = some raw := by
  have hs : sanitize (B64.b64enc raw).length (B64.b64enc raw) = B64.b64enc raw := by
    exact sanitize_ascii _ _ (Nat.le_refl _) (fun b hb => (B64.enc_plain raw b hb).2)
  rw [string_recoverable, hs]
  simpa using B64.dec_enc raw

/-- the encoded text has the canonical padded length -/
theorem binary_length (raw : Bytes) : (B64.b64enc raw).length = (raw.length + 2) / 3 * 4 := B64.enc_length raw

/-- integers over the full 64-bit range (indeed every Int / Nat): the decimal text decodes to the value -/
theorem int_recoverable (i : Int) : intOf (fmtInt i) = i := intOf_fmtInt i
theorem uint_recoverable (n : Nat) : natOf (fmtNat n) = n := natOf_fmtNat n

/-- namespaces, objects, arrays, inlined and dict fields produce the nesting the in-memory map encoder records:
    the map `MapObjectEncoder` builds from a call list (keys as emitted) is the last-wins map of the tree the JSON
    encoder denotes for the same calls (`denTO` is `denO` with the leaves marked: `erase_denTO`).  The model of
    memory_encoder.go (`MapEnc.mapFrom`, raw keys) is compared with the real MapObjectEncoder on every run. -/
theorem map_agrees (calls : List OC) (acc : List (Bytes × MapEnc.MV)) :
    MapEnc.mapFrom esc acc calls = MapEnc.toMapM acc (denTO calls) ∧ eraseM (denTO calls) = denO calls :=
  ⟨MapEnc.mapFrom_eq calls acc, erase_denTO calls⟩

/-- the guard structure of `jsonEncoder.EncodeEntry` that `metaCalls` / `stackCalls` / `encodeEntry` mirror: level
    (key ∧ encoder, no-op fall-back), time (key ∧ non-zero), name (name ∧ key, nil → full-name encoder, fall-back),
    caller (defined; key ∧ encoder, fall-back; function key), message key, context bytes, stack (stack ∧ key) — in
    this order.  `Gen.jsonEntryGuards` is re-read from zapcore/json_encoder.go on every run. -/
def expectedJsonEntryGuards : List String := [
  "0:final.LevelKey != \"\" && final.EncodeLevel != nil",
  "1:cur == final.buf.Len()",
  "0:final.TimeKey != \"\" && !ent.Time.IsZero()",
  "0:ent.LoggerName != \"\" && final.NameKey != \"\"",
  "1:nameEncoder == nil",
  "1:cur == final.buf.Len()",
  "0:ent.Caller.Defined",
  "1:final.CallerKey != \"\" && final.EncodeCaller != nil",
  "2:cur == final.buf.Len()",
  "1:final.FunctionKey != \"\"",
  "0:final.MessageKey != \"\"",
  "0:enc.buf.Len() > 0",
  "0:ent.Stack != \"\" && final.StacktraceKey != \"\""
]

theorem entry_guards_as_modelled : Gen.jsonEntryGuards = expectedJsonEntryGuards := by decide

end ZapVerif.C02
