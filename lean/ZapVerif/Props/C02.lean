import ZapVerif.Model.Entry
/-! # C02 — the JSON encoder always emits one well-formed JSON object per entry, on one line -/
namespace ZapVerif.C02
open ZapVerif ZapVerif.Esc ZapVerif.Json ZapVerif.Enc

/-- whatever the input bytes (hostile, invalid UTF-8, control characters, quotes), the escaped text is a legal
    JSON string body: no raw byte < 0x20, no bare quote, every backslash starts a legal escape -/
theorem escape_body_safe (s : Bytes) : runD 0 (esc s) = some 0 := escape_ok s.length s

end ZapVerif.C02
