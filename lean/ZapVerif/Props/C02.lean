import ZapVerif.Proofs.EntryWF
import ZapVerif.Proofs.Unesc
import ZapVerif.Proofs.Num
import ZapVerif.Gen.EntryMeta
import ZapVerif.Proofs.MapEnc
import ZapVerif.Proofs.Base64
import ZapVerif.Model.Binary
import ZapVerif.Proofs.SubEnc
import ZapVerif.Gen.SubEncSrc
import ZapVerif.Proofs.TransJsonEntry
/-! # C02 — JSON output decodes to exactly the logged values, in order, at the right nesting -/
namespace ZapVerif.C02
open ZapVerif ZapVerif.Esc ZapVerif.Json ZapVerif.Enc ZapVerif.Entry

/-- the emitted line IS the rendering of the object whose members are `entryMembers` (Proofs/EntryWF.lean):
    metadata under the omission rules of `metaCalls`, then context fields, then call-site fields, in the order
    added, every namespace nesting what follows it, the stack trace last at top level -/
theorem encodeEntry_eq_render (c : Cfg) (e : Ent) (ctx : List (List Field)) (fields : List Field)
    (he : EntOK e) (hc : ∀ fs ∈ ctx, ∀ f ∈ fs, FieldOK f) (hf : ∀ f ∈ fields, FieldOK f) :
    jsonLine c e ctx fields = render (J.obj (entryMembers c e ctx fields)) ++ c.ending :=
  jsonLine_eq_render c e ctx fields he hc hf

/-- decoding an emitted line yields exactly that tree: every member, in order, at its nesting, duplicates kept -/
theorem decode_emitted (c : Cfg) (e : Ent) (ctx : List (List Field)) (fields : List Field)
    (he : EntOK e) (hc : ∀ fs ∈ ctx, ∀ f ∈ fs, FieldOK f) (hf : ∀ f ∈ fields, FieldOK f) :
    ∃ body, jsonLine c e ctx fields = body ++ c.ending ∧
      parseV (size (J.obj (entryMembers c e ctx fields))) body = some (J.obj (entryMembers c e ctx fields), []) :=
  ⟨_, jsonLine_eq_render c e ctx fields he hc hf, parse_render _ (entryMembers_ok c e ctx fields he hc hf).1⟩

/-- nesting lemmas: what each kind of call contributes to the tree -/
theorem denote_prim (k : Bytes) (v : J) (r : List OC) : denO (OC.prim k v :: r) = (esc k, v) :: denO r := by
  simp [denO]
theorem denote_object (k : Bytes) (body r : List OC) :
    denO (OC.obj k body :: r) = (esc k, J.obj (denO body)) :: denO r := by simp [denO]
theorem denote_array (k : Bytes) (body : List AC) (r : List OC) :
    denO (OC.arr k body :: r) = (esc k, J.arr (denA body)) :: denO r := by simp [denO]
/-- a namespace nests *everything that follows at that level* -/
theorem denote_namespace (k : Bytes) (r : List OC) : denO (OC.ns k :: r) = [(esc k, J.obj (denO r))] := by
  simp [denO]
/-- inlined and dict fields: an inline marshaler's calls land in the enclosing object; a dict is an object of
    its fields' calls -/
theorem denote_inline (k : Bytes) (body : List OC) : addTo (.inline k body none) = body := by simp [addTo, errCall]

/-- values: integers are rendered by `fmtInt`/`fmtNat` (decimal, full range — `Int`/`Nat` are unbounded),
    non-finite floats as the strings NaN / +Inf / -Inf, strings through `esc` -/
theorem value_nan (txt : Bytes) (inf : Int) : scalarJ (.float true inf txt) = J.str [78, 97, 78] := by simp [scalarJ]
theorem value_posinf (txt : Bytes) : scalarJ (.float false 1 txt) = J.str [43, 73, 110, 102] := by simp [scalarJ]
theorem value_neginf (txt : Bytes) : scalarJ (.float false (-1) txt) = J.str [45, 73, 110, 102] := by simp [scalarJ]
theorem value_finite (txt : Bytes) : scalarJ (.float false 0 txt) = J.atom txt := by simp [scalarJ]
theorem value_string (s : Bytes) : scalarJ (.str s) = J.str (esc s) := rfl

/-- errors: message under the key, verbose form under key+"Verbose" iff it differs, causes under key+"Causes" -/
theorem error_basic (k basic : Bytes) :
    addTo (.error k (.mk (.ok basic) none false [])) = [strPrim k basic] := by simp [addTo, encErr, errCall]
theorem error_verbose (k basic v : Bytes) (h : v ≠ basic) :
    addTo (.error k (.mk (.ok basic) (some v) false [])) = [strPrim k basic, strPrim (sfx k "Verbose") v] := by
  simp [addTo, encErr, errCall, h]

/-- strings byte for byte: decoding the escaped body gives back the logged bytes with each invalid UTF-8 byte
    replaced by U+FFFD exactly once (and nothing else changed) -/
theorem string_recoverable (s : Bytes) : unescape (esc s) = some (sanitize s.length s) := unescape_escape s.length s

/-- an ASCII string (no byte ≥ 0x80) is recovered unchanged -/
theorem sanitize_ascii (fuel : Nat) (s : Bytes) (hf : s.length ≤ fuel) (h : ∀ b ∈ s, b < 128) : sanitize fuel s = s := by
  induction fuel generalizing s with
  | zero =>
    have : s = [] := by simpa using hf
    subst this; simp [sanitize]
  | succ f ih =>
    cases s with
    | nil => simp [sanitize]
    | cons b r =>
      have hb : ¬ b ≥ 128 := by
        have := h b (by simp)
        simp [UInt8.lt_iff_toNat_lt, UInt8.le_iff_toNat_le] at this ⊢; omega
      simp only [sanitize, hb, if_false]
      rw [ih r (by simpa using hf) (fun x hx => h x (by simp [hx]))]

/-- a byte that starts no valid UTF-8 sequence becomes exactly one U+FFFD and decoding resumes at the next byte -/
theorem sanitize_invalid_once (fuel : Nat) (b : UInt8) (r : Bytes) (hb : b ≥ 128) (hv : validLen (b :: r) = none) :
    sanitize (fuel + 1) (b :: r) = replacement ++ sanitize fuel r := by
  simp [sanitize, hb, hv]

/-- zap.Binary: the value emitted is the JSON string whose body is the base64 text of the payload, written with no
    escape at all (every character is a letter, digit, `+`, `/` or `=`) -/
theorem binary_value (raw : Bytes) : primJ (binaryPrim raw) = J.str (B64.b64enc raw) := by
  simp only [binaryPrim, primJ, scalarJ, esc]
  rw [B64.escape_plain_id _ _ (Nat.le_refl _) (B64.enc_plain raw)]

/-- … and decoding it (JSON string → bytes → base64) gives back exactly the logged payload, for every payload -/
theorem binary_recoverable (raw : Bytes) : (unescape (esc (B64.b64enc raw))).bind B64.b64dec = some raw := by
  have hs : sanitize (B64.b64enc raw).length (B64.b64enc raw) = B64.b64enc raw := by
    exact sanitize_ascii _ _ (Nat.le_refl _) (fun b hb => (B64.enc_plain raw b hb).2)
  rw [string_recoverable, hs]
  simpa using B64.dec_enc raw

/-- the encoded text has the canonical padded length -/
theorem binary_length (raw : Bytes) : (B64.b64enc raw).length = (raw.length + 2) / 3 * 4 := B64.enc_length raw

/-- integers over the full 64-bit range (indeed every Int / Nat): the decimal text decodes to the value -/
theorem int_recoverable (i : Int) : intOf (fmtInt i) = i := intOf_fmtInt i
theorem uint_recoverable (n : Nat) : natOf (fmtNat n) = n := natOf_fmtNat n

/-- namespaces, objects, arrays, inlined and dict fields produce the nesting the in-memory map encoder records:
    the map `MapObjectEncoder` builds from a call list (keys as emitted) is the last-wins map of the tree the JSON
    encoder denotes for the same calls (`denTO` is `denO` with the leaves marked: `erase_denTO`).  The model of
    memory_encoder.go (`MapEnc.mapFrom`, raw keys) is compared with the real MapObjectEncoder on every run. -/
theorem map_agrees (calls : List OC) (acc : List (Bytes × MapEnc.MV)) :
    MapEnc.mapFrom esc acc calls = MapEnc.toMapM acc (denTO calls) ∧ eraseM (denTO calls) = denO calls :=
  ⟨MapEnc.mapFrom_eq calls acc, erase_denTO calls⟩

/-- the guard structure of `jsonEncoder.EncodeEntry` that `metaCalls` / `stackCalls` / `encodeEntry` mirror: level
    (key ∧ encoder, no-op fall-back), time (key ∧ non-zero), name (name ∧ key, nil → full-name encoder, fall-back),
    caller (defined; key ∧ encoder, fall-back; function key), message key, context bytes, stack (stack ∧ key) — in
    this order.  `Gen.jsonEntryGuards` is re-read from zapcore/json_encoder.go on every run. -/
def expectedJsonEntryGuards : List String := [
  "0:final.LevelKey != \"\" && final.EncodeLevel != nil",
  "1:cur == final.buf.Len()",
  "0:final.TimeKey != \"\" && !ent.Time.IsZero()",
  "0:ent.LoggerName != \"\" && final.NameKey != \"\"",
  "1:nameEncoder == nil",
  "1:cur == final.buf.Len()",
  "0:ent.Caller.Defined",
  "1:final.CallerKey != \"\" && final.EncodeCaller != nil",
  "2:cur == final.buf.Len()",
  "1:final.FunctionKey != \"\"",
  "0:final.MessageKey != \"\"",
  "0:enc.buf.Len() > 0",
  "0:ent.Stack != \"\" && final.StacktraceKey != \"\""
]

theorem entry_guards_as_modelled : Gen.jsonEntryGuards = expectedJsonEntryGuards := by decide

/-! ------------------------------------------------------------------------------------------------------------------
## built-in sub-encoders (BEGIN block `subenc`; model `Model/SubEnc.lean`, lemmas `Proofs/SubEnc.lean`)

The level / duration / time / caller / name encoder functions of zapcore/encoder.go whose output is integer- or
text-exact are no longer parameters of the model: the driver computes what they append from the raw entry values
(`SubEnc.lvlRes`, `durRes`, `timeRes`, `callerRes`, `nameRes`) and the result is compared with the real encoder's bytes
on every run. Still parameters: `EpochTimeEncoder`, `EpochMillisTimeEncoder`, `SecondsDurationEncoder` (float text)
and the `time.Format` text of the layout encoders. -/
section SubEncoders
open ZapVerif.SubEnc

/-- the source text of every built-in sub-encoder function and of the `EntryCaller` methods they call, as the model
    assumes it (`Gen.subEncBodies` is re-read from zapcore/encoder.go and zapcore/entry.go on every run) -/
def expectedSubEncBodies : List (String × String × List String) := [
  ("LowercaseLevelEncoder", "l Level, enc PrimitiveArrayEncoder", ["0:enc.AppendString(l.String())"]),
  ("LowercaseColorLevelEncoder", "l Level, enc PrimitiveArrayEncoder", ["0:s, ok := _levelToLowercaseColorString[l]", "0:if !ok", "1:s = _unknownLevelColor.Add(l.String())", "0:enc.AppendString(s)"]),
  ("CapitalLevelEncoder", "l Level, enc PrimitiveArrayEncoder", ["0:enc.AppendString(l.CapitalString())"]),
  ("CapitalColorLevelEncoder", "l Level, enc PrimitiveArrayEncoder", ["0:s, ok := _levelToCapitalColorString[l]", "0:if !ok", "1:s = _unknownLevelColor.Add(l.CapitalString())", "0:enc.AppendString(s)"]),
  ("EpochTimeEncoder", "t time.Time, enc PrimitiveArrayEncoder", ["0:nanos := t.UnixNano()", "0:sec := float64(nanos) / float64(time.Second)", "0:enc.AppendFloat64(sec)"]),
  ("EpochMillisTimeEncoder", "t time.Time, enc PrimitiveArrayEncoder", ["0:nanos := t.UnixNano()", "0:millis := float64(nanos) / float64(time.Millisecond)", "0:enc.AppendFloat64(millis)"]),
  ("EpochNanosTimeEncoder", "t time.Time, enc PrimitiveArrayEncoder", ["0:enc.AppendInt64(t.UnixNano())"]),
  ("encodeTimeLayout", "t time.Time, layout string, enc PrimitiveArrayEncoder", ["0:type appendTimeEncoder interface{AppendTimeLayout(time.Time, string)}", "0:if enc, ok := enc.(appendTimeEncoder); ok", "1:enc.AppendTimeLayout(t, layout)", "1:return", "0:enc.AppendString(t.Format(layout))"]),
  ("ISO8601TimeEncoder", "t time.Time, enc PrimitiveArrayEncoder", ["0:encodeTimeLayout(t, \"2006-01-02T15:04:05.000Z0700\", enc)"]),
  ("RFC3339TimeEncoder", "t time.Time, enc PrimitiveArrayEncoder", ["0:encodeTimeLayout(t, time.RFC3339, enc)"]),
  ("RFC3339NanoTimeEncoder", "t time.Time, enc PrimitiveArrayEncoder", ["0:encodeTimeLayout(t, time.RFC3339Nano, enc)"]),
  ("TimeEncoderOfLayout", "layout string", ["0:return func(t time.Time, enc PrimitiveArrayEncoder)", "1:encodeTimeLayout(t, layout, enc)"]),
  ("SecondsDurationEncoder", "d time.Duration, enc PrimitiveArrayEncoder", ["0:enc.AppendFloat64(float64(d) / float64(time.Second))"]),
  ("NanosDurationEncoder", "d time.Duration, enc PrimitiveArrayEncoder", ["0:enc.AppendInt64(int64(d))"]),
  ("MillisDurationEncoder", "d time.Duration, enc PrimitiveArrayEncoder", ["0:enc.AppendInt64(d.Nanoseconds() / 1e6)"]),
  ("StringDurationEncoder", "d time.Duration, enc PrimitiveArrayEncoder", ["0:enc.AppendString(d.String())"]),
  ("FullCallerEncoder", "caller EntryCaller, enc PrimitiveArrayEncoder", ["0:enc.AppendString(caller.String())"]),
  ("ShortCallerEncoder", "caller EntryCaller, enc PrimitiveArrayEncoder", ["0:enc.AppendString(caller.TrimmedPath())"]),
  ("FullNameEncoder", "loggerName string, enc PrimitiveArrayEncoder", ["0:enc.AppendString(loggerName)"]),
  ("EntryCaller.String", "ec EntryCaller", ["0:return ec.FullPath()"]),
  ("EntryCaller.FullPath", "ec EntryCaller", ["0:if !ec.Defined", "1:return \"undefined\"", "0:buf := bufferpool.Get()", "0:buf.AppendString(ec.File)", "0:buf.AppendByte(':')", "0:buf.AppendInt(int64(ec.Line))", "0:caller := buf.String()", "0:buf.Free()", "0:return caller"]),
  ("EntryCaller.TrimmedPath", "ec EntryCaller", ["0:if !ec.Defined", "1:return \"undefined\"", "0:idx := strings.LastIndexByte(ec.File, '/')", "0:if idx == -1", "1:return ec.FullPath()", "0:idx = strings.LastIndexByte(ec.File[:idx], '/')", "0:if idx == -1", "1:return ec.FullPath()", "0:buf := bufferpool.Get()", "0:buf.AppendString(ec.File[idx+1:])", "0:buf.AppendByte(':')", "0:buf.AppendInt(int64(ec.Line))", "0:caller := buf.String()", "0:buf.Free()", "0:return caller"])
]

theorem subenc_sources_as_modelled : Gen.subEncBodies = expectedSubEncBodies := by decide +kernel

/-- the `UnmarshalText` dispatch of each encoder kind: text ↦ function, anything else ↦ the default -/
def expectedEncoderTextTables : List (String × List (String × String) × String) := [
  ("LevelEncoder", [("capital", "CapitalLevelEncoder"), ("capitalColor", "CapitalColorLevelEncoder"), ("color", "LowercaseColorLevelEncoder")], "LowercaseLevelEncoder"),
  ("TimeEncoder", [("rfc3339nano", "RFC3339NanoTimeEncoder"), ("RFC3339Nano", "RFC3339NanoTimeEncoder"), ("rfc3339", "RFC3339TimeEncoder"), ("RFC3339", "RFC3339TimeEncoder"), ("iso8601", "ISO8601TimeEncoder"), ("ISO8601", "ISO8601TimeEncoder"), ("millis", "EpochMillisTimeEncoder"), ("nanos", "EpochNanosTimeEncoder")], "EpochTimeEncoder"),
  ("DurationEncoder", [("string", "StringDurationEncoder"), ("nanos", "NanosDurationEncoder"), ("ms", "MillisDurationEncoder")], "SecondsDurationEncoder"),
  ("CallerEncoder", [("full", "FullCallerEncoder")], "ShortCallerEncoder"),
  ("NameEncoder", [("full", "FullNameEncoder")], "FullNameEncoder")
]

theorem encoder_text_tables : Gen.encoderTextTables = expectedEncoderTextTables := by decide +kernel

/-- the colour tables: ANSI colour numbers, `Color.Add`'s escape format `ESC[<n>m<text>ESC[0m`, the level ↦ colour map,
    the colour of unknown levels, and the two maps `init()` fills (re-read from internal/color/color.go and
    zapcore/level_strings.go on every run) -/
theorem level_colors_as_documented :
    Gen.colorValues = [("Black", 30), ("Red", 31), ("Green", 32), ("Yellow", 33), ("Blue", 34), ("Magenta", 35), ("Cyan", 36), ("White", 37)] ∧
    Gen.levelToColor = [(-1, 35), (0, 34), (1, 33), (2, 31), (3, 31), (4, 31), (5, 31)] ∧ Gen.unknownLevelColor = 31 ∧
    Gen.colorAddPre = [27, 91] ∧ Gen.colorAddMid = [109] ∧ Gen.colorAddSuf = [27, 91, 48, 109] ∧
    Gen.levelColorInit = [("_levelToLowercaseColorString", "String"), ("_levelToCapitalColorString", "CapitalString")] := by
  decide

/-- levels: the member written under `LowercaseLevelEncoder` / `CapitalLevelEncoder` is exactly the text
    `Level.String()` / `CapitalString()` has in the regenerated 256-row table (whatever the no-op fall-back `fb`) -/
theorem level_text_lower (o : SubRes) (l : Int) (fb : Bytes) :
    subOrStr (lvlRes (some .lower) o l) fb = J.str (esc (Level.stringOf l)) := rfl
theorem level_text_capital (o : SubRes) (l : Int) (fb : Bytes) :
    subOrStr (lvlRes (some .capital) o l) fb = J.str (esc (Level.capitalOf l)) := rfl

/-- the colour variants wrap that same text in the colour escape of the level (`_unknownLevelColor` when the level has
    no colour of its own) -/
theorem level_text_color (o : SubRes) (l : Int) (fb : Bytes) :
    subOrStr (lvlRes (some .color) o l) fb =
      J.str (esc (Gen.colorAddPre ++ fmtNat (colorOf l) ++ Gen.colorAddMid ++ Level.stringOf l ++ Gen.colorAddSuf)) := by
  simp only [lvlRes, subOrStr, scalarJ, levelText, colorLevel_eq, colorAdd]
theorem level_text_capital_color (o : SubRes) (l : Int) (fb : Bytes) :
    subOrStr (lvlRes (some .capitalColor) o l) fb =
      J.str (esc (Gen.colorAddPre ++ fmtNat (colorOf l) ++ Gen.colorAddMid ++ Level.capitalOf l ++ Gen.colorAddSuf)) := by
  simp only [lvlRes, subOrStr, scalarJ, levelText, colorLevel_eq, colorAdd]

/-- the documented colours, for every int8 level: debug magenta, info blue, warn yellow, everything else red -/
theorem level_color_documented : ∀ l ∈ allLevels,
    colorOf l = (if l = -1 then 35 else if l = 0 then 34 else if l = 1 then 33 else 31) := colorOf_documented

/-- levels outside Debug…Fatal print as `Level(n)` / `LEVEL(n)` with the decimal of the value -/
theorem level_text_unknown : ∀ l ∈ allLevels, l ∉ Level.validLevels →
    Level.stringOf l = litStr "Level(" ++ fmtInt l ++ [41] ∧ Level.capitalOf l = litStr "LEVEL(" ++ fmtInt l ++ [41] :=
  unknown_level_text

/-- under each of the four level encoders distinct levels get distinct texts — all 256 values, not only the seven
    named ones (so the level is recoverable from the member) -/
theorem level_text_injective (k : LvlEnc) : ∀ a ∈ allLevels, ∀ b ∈ allLevels, levelText k a = levelText k b → a = b :=
  levelText_inj k

/-- … and the text survives the JSON string encoding unchanged (the ESC of the colour variants is written as \\u001b
    and read back), so the decoded level member determines the level -/
theorem level_member_decodes (k : LvlEnc) : ∀ l ∈ allLevels, unescape (esc (levelText k l)) = some (levelText k l) := by
  intro l hl
  rw [string_recoverable, sanitize_ascii _ _ (Nat.le_refl _) (levelText_ascii k l hl)]

/-- durations, `NanosDurationEncoder`: the integer nanoseconds, recoverable from the text -/
theorem nanos_duration_recoverable (o : SubRes) (n : Int) :
    primJ (.dur ⟨n, durRes (some .nanos) o n⟩) = J.atom (fmtInt n) ∧ intOf (fmtInt n) = n :=
  ⟨rfl, intOf_fmtInt n⟩

/-- `MillisDurationEncoder`: the quotient of Go's truncating division — toward zero on BOTH sides (−1.5 ms ↦ −1, not −2;
    −0.999999 ms ↦ 0), never further from zero than the duration, off by less than one millisecond -/
theorem millis_duration_value (o : SubRes) (n : Int) :
    primJ (.dur ⟨n, durRes (some .millis) o n⟩) = J.atom (fmtInt (millisOf n)) ∧
    (0 ≤ n → millisOf n = n / 1000000 ∧ 0 ≤ millisOf n ∧ millisOf n * 1000000 ≤ n ∧ n < (millisOf n + 1) * 1000000) ∧
    (n ≤ 0 → millisOf n = -((-n) / 1000000) ∧ millisOf n ≤ 0 ∧ n ≤ millisOf n * 1000000 ∧ (millisOf n - 1) * 1000000 < n) := by
  refine ⟨rfl, ?_, ?_⟩
  · intro h
    have e : millisOf n = n / 1000000 := Int.tdiv_eq_ediv_of_nonneg h
    rw [e]; omega
  · intro h
    have e : millisOf n = -((-n) / 1000000) := by
      unfold millisOf
      have hn : n = -(-n) := by omega
      rw [hn, Int.neg_tdiv, Int.tdiv_eq_ediv_of_nonneg (by omega)]; simp
    rw [e]; omega

example : millisOf (-1500000) = -1 ∧ millisOf (-999999) = 0 ∧ millisOf 1999999 = 1 ∧ millisOf (-(2 ^ 63)) = -9223372036854 := by decide

/-- `StringDurationEncoder`: the member is the JSON string of `time.Duration.String()` as modelled by `durString` -/
theorem string_duration_value (o : SubRes) (n : Int) :
    primJ (.dur ⟨n, durRes (some .string) o n⟩) = J.str (esc (durString n)) := rfl

/-- … and that text determines the duration: a `time.ParseDuration`-style reader (`durParse`: sign, then groups
    `digits[.digits]unit` over ns/us/µs/ms/s/m/h, summed) gives back exactly `d` — for every integer, hence the whole
    int64 range including MinInt64 -/
theorem string_duration_recoverable (d : Int) : durParse (durString d) = some d := durParse_durString d

theorem string_duration_injective (a b : Int) (h : durString a = durString b) : a = b := by
  have := congrArg durParse h
  simpa [durParse_durString] using this

/-- shape: zero is "0s"; a negative duration is '-' and the text of its magnitude -/
theorem string_duration_zero : durString 0 = litStr "0s" := by decide +kernel
theorem string_duration_neg (d : Int) (h : d < 0) : durString d = 45 :: durString (-d) := by
  simp [durString, h]
  omega

/-- shape below one second: ONE group in the largest unit not exceeding the value (ns: no fraction at all; µs: up to 3
    decimals; ms: up to 6), trailing zeros of the fraction dropped together with the point -/
theorem string_duration_subsecond (u : Nat) (h0 : 0 < u) (h1 : u < 1000000000) :
    durMag u = (if u < 1000 then fmtNat u ++ litStr "ns"
                else if u < 1000000 then fmtNat (u / 1000) ++ fracText 3 u ++ litStr "µs"
                else fmtNat (u / 1000000) ++ fracText 6 u ++ litStr "ms") := by
  have hu0 : u ≠ 0 := by omega
  have e0 : fracText 0 u = [] := by simp [fracText, fracDigits]
  have lns : litStr "ns" = [110, 115] := by decide +kernel
  have lus : litStr "µs" = [194, 181, 115] := by decide +kernel
  have lms : litStr "ms" = [109, 115] := by decide +kernel
  unfold durMag smallUnit
  by_cases a : u < 1000
  · simp [h1, hu0, a, fmtFrac_text, e0, lns]
  · by_cases b : u < 1000000
    · have p3 : (1000 : Nat) = 10 ^ 3 := rfl
      simp [h1, hu0, a, b, fmtFrac_text, lus, p3]
    · have p6 : (1000000 : Nat) = 10 ^ 6 := rfl
      simp [h1, hu0, a, b, fmtFrac_text, lms, p6]

/-- shape from one second up: hours (only when non-zero), minutes (when hours or minutes are non-zero, modulo 60),
    seconds modulo 60 with up to 9 decimals — never days -/
theorem string_duration_shape (u : Nat) (h : 1000000000 ≤ u) :
    durMag u =
      (if u / 1000000000 / 60 / 60 > 0 then fmtNat (u / 1000000000 / 60 / 60) ++ [104] else []) ++
      (if u / 1000000000 / 60 > 0 then fmtNat (u / 1000000000 / 60 % 60) ++ [109] else []) ++
      fmtNat (u / 1000000000 % 60) ++ fracText 9 u ++ [115] := by
  have hs : ¬ u < 1000000000 := by omega
  have p9 : (1000000000 : Nat) = 10 ^ 9 := rfl
  unfold durMag
  simp only [hs, if_false, fmtFrac_text, ← p9]
  by_cases hm : u / 1000000000 / 60 > 0 <;> by_cases hh : u / 1000000000 / 60 / 60 > 0 <;> simp [hm, hh]
  omega

/-- the fraction never ends in '0' (trailing zeros are trimmed) -/
theorem string_duration_frac_trimmed (p v : Nat) (h : fracDigits p v false ≠ []) :
    (fracDigits p v false).getLast h ≠ 48 := frac_no_trailing_zero p v h

example : durString 1500000000 = litStr "1.5s" ∧ durString 999 = litStr "999ns" ∧ durString 1000 = litStr "1µs" ∧
    durString 999999000 = litStr "999.999ms" ∧ durString 59999999999 = litStr "59.999999999s" ∧
    durString 3600000000000 = litStr "1h0m0s" ∧ durString (-1) = litStr "-1ns" ∧
    durString (2 ^ 63 - 1) = litStr "2562047h47m16.854775807s" ∧
    durString (-(2 ^ 63)) = litStr "-2562047h47m16.854775808s" := by decide +kernel

/-- the duration text survives the JSON string encoding byte for byte: decoding the emitted string body gives back
    `Duration.String()` exactly — including the two-byte `µ` of "µs", the only non-ASCII text a built-in emits -/
theorem string_duration_decodes (d : Int) : unescape (esc (durString d)) = some (durString d) := by
  rw [string_recoverable]
  congr 1
  -- with an ASCII prefix (the sign, or nothing) in front of the magnitude text
  have key : ∀ (pre : Bytes) (u : Nat), (∀ b ∈ pre, b < 128) →
      sanitize (pre ++ durMag u).length (pre ++ durMag u) = pre ++ durMag u := by
    intro pre u hpre
    have ascii : ∀ t : Bytes, (∀ b ∈ t, b < 128) → sanitize (pre ++ t).length (pre ++ t) = pre ++ t := by
      intro t ht
      exact sanitize_ascii _ _ (Nat.le_refl _) (by
        intro b hb
        rcases List.mem_append.mp hb with hb | hb
        · exact hpre b hb
        · exact ht b hb)
    have lit : ∀ (t : Bytes), (∀ b ∈ t, b < 128) → ∀ (n : Nat) (x : Bytes), (∀ b ∈ x, b < 128) →
        ∀ b ∈ fmtNat n ++ x ++ t, b < 128 := by
      intro t ht n x hx b hb
      simp only [List.mem_append] at hb
      rcases hb with (hb | hb) | hb
      · exact fmtNat_ascii n b hb
      · exact hx b hb
      · exact ht b hb
    by_cases h0 : u = 0
    · subst h0
      rw [durMag_zero]
      exact ascii _ (by decide)
    · by_cases h1 : u < 1000000000
      · rw [string_duration_subsecond u (by omega) h1]
        by_cases a : u < 1000
        · simp only [a, if_true]
          have := lit (litStr "ns") (by decide +kernel) u [] (by simp)
          simp only [List.append_nil] at this
          exact ascii _ this
        · by_cases b : u < 1000000
          · simp only [a, b, if_true, if_false]
            have lus : litStr "µs" = [194, 181, 115] := by decide +kernel
            rw [lus]
            have hA : ∀ x ∈ pre ++ (fmtNat (u / 1000) ++ fracText 3 u), x < 128 := by
              intro x hx
              simp only [List.mem_append] at hx
              rcases hx with hx | hx | hx
              · exact hpre x hx
              · exact fmtNat_ascii _ x hx
              · exact fracText_ascii 3 u x hx
            have e : pre ++ (fmtNat (u / 1000) ++ fracText 3 u ++ [194, 181, 115]) =
                (pre ++ (fmtNat (u / 1000) ++ fracText 3 u)) ++ [194, 181, 115] := by simp
            rw [e]
            have hl : ((pre ++ (fmtNat (u / 1000) ++ fracText 3 u)) ++ [194, 181, 115]).length =
                (pre ++ (fmtNat (u / 1000) ++ fracText 3 u)).length + 3 := by simp; omega
            rw [hl, sanitize_ascii_append _ _ 3 hA, sanitize_micro]
          · simp only [a, b, if_false]
            exact ascii _ (lit (litStr "ms") (by decide +kernel) _ _ (fracText_ascii 6 u))
      · rw [string_duration_shape u (by omega)]
        apply ascii
        intro b hb
        simp only [List.mem_append] at hb
        rcases hb with (((hb | hb) | hb) | hb) | hb
        · split at hb
          · simp only [List.mem_append, List.mem_singleton] at hb
            rcases hb with hb | hb
            · exact fmtNat_ascii _ b hb
            · rw [hb]; decide
          · simp at hb
        · split at hb
          · simp only [List.mem_append, List.mem_singleton] at hb
            rcases hb with hb | hb
            · exact fmtNat_ascii _ b hb
            · rw [hb]; decide
          · simp at hb
        · exact fmtNat_ascii _ b hb
        · exact fracText_ascii 9 u b hb
        · simp only [List.mem_singleton] at hb; rw [hb]; decide
  unfold durString
  by_cases hneg : d < 0
  · simp only [hneg, if_true]
    exact key [45] d.natAbs (by decide)
  · simp only [hneg, if_false]
    exact key [] d.natAbs (by simp)

/-- so the whole chain closes for `StringDurationEncoder`: JSON string → text → duration -/
theorem string_duration_roundtrip (d : Int) : (unescape (esc (durString d))).bind durParse = some d := by
  rw [string_duration_decodes]; exact durParse_durString d

/-- times, `EpochNanosTimeEncoder`: the integer `UnixNano()`, recoverable from the text -/
theorem epoch_nanos_recoverable (o : SubRes) (n : Int) :
    subOrNanos (timeRes true o n) n = J.atom (fmtInt n) ∧ intOf (fmtInt n) = n := ⟨rfl, intOf_fmtInt n⟩

/-- `encodeTimeLayout`: whichever call it makes (`AppendTimeLayout` when the encoder has it — the JSON encoder — else
    `AppendString(t.Format(layout))` — the console's slice encoder), the value is the escaped `time.Format` text -/
theorem time_layout_dispatch (hasATL : Bool) (formatted : Bytes) :
    (encodeTimeLayout hasATL formatted).toJ = J.str (esc formatted) ∧
    (encodeTimeLayout hasATL formatted).res = .val (.str formatted) := by
  cases hasATL <;> exact ⟨rfl, rfl⟩

/-- callers, `FullCallerEncoder`: `file:line` (decimal, sign kept), and both parts are recoverable: the file is
    everything before the LAST ':' -/
theorem full_caller_value (o : SubRes) (file : Bytes) (line : Int) (fb : Bytes) :
    subOrStr (callerRes (some .full) o true file line) fb = J.str (esc (file ++ 58 :: fmtInt line)) ∧
    callerDecode (file ++ 58 :: fmtInt line) = some (file, line) :=
  ⟨rfl, callerDecode_join file line⟩

/-- `ShortCallerEncoder`: the last two '/'-separated elements of the file (`Callers.trimmedFile`, C15), then `:line` -/
theorem short_caller_value (o : SubRes) (pre dir file : Bytes) (line : Int) (fb : Bytes)
    (hd : Callers.slash ∉ dir) (hf : Callers.slash ∉ file) :
    subOrStr (callerRes (some .short) o true (pre ++ Callers.slash :: (dir ++ Callers.slash :: file)) line) fb =
      J.str (esc ((dir ++ Callers.slash :: file) ++ 58 :: fmtInt line)) ∧
    callerDecode ((dir ++ Callers.slash :: file) ++ 58 :: fmtInt line) = some (dir ++ Callers.slash :: file, line) := by
  refine ⟨?_, callerDecode_join _ line⟩
  simp only [callerRes, subOrStr, scalarJ, callerText, callerShort, if_true, C15.trimmed_keeps_last_two pre dir file hd hf]

/-- with fewer than two separators — a bare file name, `dir/file`, or a Windows path that uses only backslashes — the
    short form is the full form -/
theorem short_caller_few_segments (dir file : Bytes) (line : Int) (hd : Callers.slash ∉ dir) (hf : Callers.slash ∉ file) :
    callerText .short true file line = callerText .full true file line ∧
    callerText .short true (dir ++ Callers.slash :: file) line = callerText .full true (dir ++ Callers.slash :: file) line := by
  obtain ⟨h1, h2⟩ := C15.trimmed_short dir file hd hf
  simp [callerText, callerShort, callerFull, h1, h2]

/-- an undefined caller prints as "undefined" whatever file and line it carries -/
theorem caller_undefined (k : CallerEnc) (file : Bytes) (line : Int) : callerText k false file line = litStr "undefined" := by
  cases k <;> rfl

/-- names, `FullNameEncoder` (also used when `EncodeName` is nil): the logger name itself -/
theorem full_name_value (o : SubRes) (name fb : Bytes) : subOrStr (nameRes true o name) fb = J.str (esc name) := rfl

example : callerText .short true (litStr "/home/u/go/src/pkg/sub/file.go") 42 = litStr "sub/file.go:42" ∧
    callerText .short true (litStr "C:\\Users\\u\\file.go") (-1) = litStr "C:\\Users\\u\\file.go:-1" ∧
    callerText .full true [] 0 = litStr ":0" ∧
    levelText .capitalColor 42 = [27, 91, 51, 49, 109] ++ litStr "LEVEL(42)" ++ [27, 91, 48, 109] ∧
    levelText .color (-1) = [27, 91, 51, 53, 109] ++ litStr "debug" ++ [27, 91, 48, 109] := by decide +kernel

end SubEncoders
/-! ## (END block `subenc`) -/

end ZapVerif.C02

/-! ## `jsonEncoder.EncodeEntry` IS the source (table `Gen/TransJsonEnc.lean`)

The body of zapcore/json_encoder.go `EncodeEntry`, translated mechanically, is interpreted for EVERY configuration (keys
empty or not, sub-encoders nil or not), every entry, every context buffer of the logger's encoder and every behaviour
of the sub-encoders and of `addFields` (parameters).  Statement by statement (`EE_*`) and as a whole
(`EncodeEntry_matches_source`) it computes `TransJsonEnc.entryBytes`: clone, `{`, the six metadata members each behind
its guard and with its fall-back when the configured encoder appended nothing, the raw context bytes after a
SEPARATOR (`addElementSeparator`, not a hard-coded comma), the fields, `closeOpenNamespaces`, the stack, `}`, the line
ending; the buffer is read (`ret := final.buf`) BEFORE `putJSONEncoder(final)`, which is the last thing that happens. -/
namespace ZapVerif.C02
set_option linter.unusedSimpArgs false
open ZapVerif ZapVerif.Enc ZapVerif.GoMini ZapVerif.TransJsonEnc ZapVerif.Gen.TransJsonEnc

/-- the k-th top-level statement of the body -/
def eeStmt : Nat → Stmt → Stmt
  | 0, s => s.hd
  | k + 1, s => eeStmt k s.tl

/-- the locals every statement of the body relies on: the two parameters -/
def LocOK (loc : Env) (e : EEnt) (fields : Val) : Prop := loc.get "p0" = some e.val ∧ loc.get "p1" = some fields

theorem LocOK.set {loc : Env} {e : EEnt} {fields : Val} (h : LocOK loc e fields) (x : String) (v : Val)
    (h0 : x ≠ "p0") (h1 : x ≠ "p1") : LocOK (loc.set x v) e fields :=
  ⟨by rw [Env.get_set_other _ _ _ _ (Ne.symm h0)]; exact h.1, by rw [Env.get_set_other _ _ _ _ (Ne.symm h1)]; exact h.2⟩

/-- `final := enc.clone()`: fresh buffer, `spaced` and `openNamespaces` of the receiver, no reflection scratch -/
theorem EE_clone (P : Par) (c : ECfg) (b : Bytes) (sp : Bool) (ns : Int) (rb re : List Val)
    (obuf : Bytes) (osp : Bool) (ons : Int) (self : Val) (ev : List Val) (rec : Stmt → State → GoMini.Out) (loc : Env) :
    execS (X P) rec (eeStmt 0 EncodeEntry_body) ⟨loc, eeFld c b sp ns rb re obuf osp ons self ev⟩ =
      .normal ⟨loc, eeFld c [] osp ons [] [] obuf osp ons self
        (ev ++ [.list [TransJsonEnc.nm "jsonEncoder.clone", .bool osp, .int ons]])⟩ := by
  simp [eeStmt, Stmt.hd, Stmt.tl, EncodeEntry_body, nm_clone]

theorem EE_open (P : Par) (c : ECfg) (b : Bytes) (sp : Bool) (ns : Int) (rb re : List Val)
    (obuf : Bytes) (osp : Bool) (ons : Int) (self : Val) (ev : List Val) (rec : Stmt → State → GoMini.Out) (loc : Env) :
    execS (X P) rec (eeStmt 1 EncodeEntry_body) ⟨loc, eeFld c b sp ns rb re obuf osp ons self ev⟩ =
      .normal ⟨loc, eeFld c (b ++ [123]) sp ns rb re obuf osp ons self ev⟩ := by
  simp [eeStmt, Stmt.hd, Stmt.tl, EncodeEntry_body]

theorem EE_level (P : Par) (c : ECfg) (e : EEnt) (fields : Val) (b : Bytes) (sp : Bool) (ns : Int) (rb re : List Val)
    (obuf : Bytes) (osp : Bool) (ons : Int) (self : Val) (ev : List Val) (rec : Stmt → State → GoMini.Out)
    (loc : Env) (hl : LocOK loc e fields) :
    ∃ loc', execS (X P) rec (eeStmt 2 EncodeEntry_body) ⟨loc, eeFld c b sp ns rb re obuf osp ons self ev⟩ =
        .normal ⟨loc', eeFld c (levelBlock P c sp e b) sp ns rb re obuf osp ons self ev⟩ ∧ LocOK loc' e fields := by
  obtain ⟨h0, h1⟩ := hl
  have hne : ∀ x y : String, x ≠ y → ∀ (v : Val) (en : Env), Env.get x (Env.set y v en) = Env.get x en :=
    fun x y h v en => Env.get_set_other x y v en h
  cases hk : c.levelKey with
  | nil => exact ⟨loc, by simp [eeStmt, Stmt.hd, Stmt.tl, EncodeEntry_body, levelBlock, hk], h0, h1⟩
  | cons k ks =>
    cases hf : c.encLevel with
    | nil => exact ⟨loc, by simp [eeStmt, Stmt.hd, Stmt.tl, EncodeEntry_body, levelBlock, hk, hf], h0, h1⟩
    | cons f fs =>
      have hpos : ¬ ((fs.length : Int) + 1 = 0) := by omega
      have g0 : ∀ v, Env.get "p0" (Env.set "l0" v loc) = some e.val := fun v => by rw [hne _ _ (by decide)]; exact h0
      have g1 : ∀ v, Env.get "p1" (Env.set "l0" v loc) = some fields := fun v => by rw [hne _ _ (by decide)]; exact h1
      refine ⟨loc.set "l0" (.int (Enc.addKey sp b c.levelKey).length), ?_, g0 _, g1 _⟩
      by_cases hq : (Enc.addKey sp b (k :: ks)).length = (P.subLevel (f :: fs) (.int e.level) sp (Enc.addKey sp b (k :: ks))).length
      · simp [eeStmt, Stmt.hd, Stmt.tl, EncodeEntry_body, levelBlock, subOr, hk, hf, hpos, h0, g0, hq, Int.natCast_inj]
      · simp [eeStmt, Stmt.hd, Stmt.tl, EncodeEntry_body, levelBlock, subOr, hk, hf, hpos, h0, g0, hq, Int.natCast_inj]

theorem EE_time (P : Par) (c : ECfg) (e : EEnt) (fields : Val) (b : Bytes) (sp : Bool) (ns : Int) (rb re : List Val)
    (obuf : Bytes) (osp : Bool) (ons : Int) (self : Val) (ev : List Val) (rec : Stmt → State → GoMini.Out)
    (loc : Env) (hl : LocOK loc e fields) :
    execS (X P) rec (eeStmt 3 EncodeEntry_body) ⟨loc, eeFld c b sp ns rb re obuf osp ons self ev⟩ =
        .normal ⟨loc, eeFld c (timeBlock P c sp e b) sp ns rb re obuf osp ons self ev⟩ := by
  obtain ⟨h0, h1⟩ := hl
  cases hk : c.timeKey with
  | nil => simp [eeStmt, Stmt.hd, Stmt.tl, EncodeEntry_body, timeBlock, hk]
  | cons k ks =>
    cases hz : P.timeIsZero e.time <;>
      simp [eeStmt, Stmt.hd, Stmt.tl, EncodeEntry_body, timeBlock, hk, hz, h0]

theorem EE_name (P : Par) (c : ECfg) (e : EEnt) (fields : Val) (b : Bytes) (sp : Bool) (ns : Int) (rb re : List Val)
    (obuf : Bytes) (osp : Bool) (ons : Int) (self : Val) (ev : List Val) (rec : Stmt → State → GoMini.Out)
    (loc : Env) (hl : LocOK loc e fields) :
    ∃ loc', execS (X P) rec (eeStmt 4 EncodeEntry_body) ⟨loc, eeFld c b sp ns rb re obuf osp ons self ev⟩ =
        .normal ⟨loc', eeFld c (nameBlock P c sp e b) sp ns rb re obuf osp ons self ev⟩ ∧ LocOK loc' e fields := by
  have h0 := hl.1
  cases hn : e.name with
  | nil => exact ⟨loc, by simp [eeStmt, Stmt.hd, Stmt.tl, EncodeEntry_body, nameBlock, hn, h0], hl⟩
  | cons n0 nr =>
    cases hk : c.nameKey with
    | nil => exact ⟨loc, by simp [eeStmt, Stmt.hd, Stmt.tl, EncodeEntry_body, nameBlock, hn, hk, h0], hl⟩
    | cons k ks =>
      have hset : ∀ v w, LocOK ((loc.set "l1" v).set "l2" w) e fields := fun v w =>
        (hl.set "l1" v (by decide) (by decide)).set "l2" w (by decide) (by decide)
      have g0 : ∀ v w, Env.get "p0" ((loc.set "l1" v).set "l2" w) = some e.val := fun v w => (hset v w).1
      have g1 : ∀ v w, Env.get "l1" ((loc.set "l1" v).set "l2" w) = some v := fun v w => by
        rw [Env.get_set_other _ _ _ _ (by decide)]; simp
      have g00 : ∀ v, Env.get "p0" (loc.set "l1" v) = some e.val := fun v => (hl.set "l1" v (by decide) (by decide)).1
      cases hf : c.encName with
      | nil =>
        refine ⟨(loc.set "l1" (.int (Enc.addKey sp b c.nameKey).length)).set "l2" (.list [.int 0]), ?_, hset _ _⟩
        by_cases hq : (Enc.addKey sp b (k :: ks)).length = (P.subName [.int 0] (.bytes (n0 :: nr)) (Enc.addKey sp b (k :: ks))).length
        · simp [eeStmt, Stmt.hd, Stmt.tl, EncodeEntry_body, nameBlock, nameFn, subOr, hn, hk, hf, h0, g0, g1, g00, hq, Int.natCast_inj]
        · simp [eeStmt, Stmt.hd, Stmt.tl, EncodeEntry_body, nameBlock, nameFn, subOr, hn, hk, hf, h0, g0, g1, g00, hq, Int.natCast_inj]
      | cons f fs =>
        have hpos : ¬ ((fs.length : Int) + 1 = 0) := by omega
        refine ⟨(loc.set "l1" (.int (Enc.addKey sp b c.nameKey).length)).set "l2" (.list (f :: fs)), ?_, hset _ _⟩
        by_cases hq : (Enc.addKey sp b (k :: ks)).length = (P.subName (f :: fs) (.bytes (n0 :: nr)) (Enc.addKey sp b (k :: ks))).length
        · simp [eeStmt, Stmt.hd, Stmt.tl, EncodeEntry_body, nameBlock, nameFn, subOr, hn, hk, hf, hpos, h0, g0, g1, g00, hq, Int.natCast_inj]
        · simp [eeStmt, Stmt.hd, Stmt.tl, EncodeEntry_body, nameBlock, nameFn, subOr, hn, hk, hf, hpos, h0, g0, g1, g00, hq, Int.natCast_inj]

theorem EE_caller (P : Par) (c : ECfg) (e : EEnt) (fields : Val) (b : Bytes) (sp : Bool) (ns : Int) (rb re : List Val)
    (obuf : Bytes) (osp : Bool) (ons : Int) (self : Val) (ev : List Val) (rec : Stmt → State → GoMini.Out)
    (loc : Env) (hl : LocOK loc e fields) :
    ∃ loc', execS (X P) rec (eeStmt 5 EncodeEntry_body) ⟨loc, eeFld c b sp ns rb re obuf osp ons self ev⟩ =
        .normal ⟨loc', eeFld c (callerBlock P c sp e b) sp ns rb re obuf osp ons self ev⟩ ∧ LocOK loc' e fields := by
  have h0 := hl.1
  cases hd : e.callerDefined with
  | false => exact ⟨loc, by simp [eeStmt, Stmt.hd, Stmt.tl, EncodeEntry_body, callerBlock, hd, h0], hl⟩
  | true =>
    have hset : ∀ v, LocOK (loc.set "l3" v) e fields := fun v => hl.set "l3" v (by decide) (by decide)
    have g0 : ∀ v, Env.get "p0" (loc.set "l3" v) = some e.val := fun v => (hset v).1
    cases hk : c.callerKey with
    | nil =>
      refine ⟨loc, ?_, hl⟩
      cases hfk : c.functionKey <;>
        simp [eeStmt, Stmt.hd, Stmt.tl, EncodeEntry_body, callerBlock, hd, hk, hfk, h0]
    | cons k ks =>
      cases hf : c.encCaller with
      | nil =>
        refine ⟨loc, ?_, hl⟩
        cases hfk : c.functionKey <;>
          simp [eeStmt, Stmt.hd, Stmt.tl, EncodeEntry_body, callerBlock, hd, hk, hf, hfk, h0]
      | cons f fs =>
        have hpos : ¬ ((fs.length : Int) + 1 = 0) := by omega
        refine ⟨loc.set "l3" (.int (Enc.addKey sp b c.callerKey).length), ?_, hset _⟩
        by_cases hq : (Enc.addKey sp b (k :: ks)).length = (P.subCaller (f :: fs) e.caller sp (Enc.addKey sp b (k :: ks))).length <;>
          cases hfk : c.functionKey <;>
          simp [eeStmt, Stmt.hd, Stmt.tl, EncodeEntry_body, callerBlock, subOr, hd, hk, hf, hfk, hpos, h0, g0, hq, Int.natCast_inj]

theorem EE_message (P : Par) (c : ECfg) (e : EEnt) (fields : Val) (b : Bytes) (sp : Bool) (ns : Int) (rb re : List Val)
    (obuf : Bytes) (osp : Bool) (ons : Int) (self : Val) (ev : List Val) (rec : Stmt → State → GoMini.Out)
    (loc : Env) (hl : LocOK loc e fields) :
    execS (X P) rec (eeStmt 6 EncodeEntry_body) ⟨loc, eeFld c b sp ns rb re obuf osp ons self ev⟩ =
        .normal ⟨loc, eeFld c (messageBlock c sp e b) sp ns rb re obuf osp ons self ev⟩ := by
  have h0 := hl.1
  cases hk : c.messageKey <;> simp [eeStmt, Stmt.hd, Stmt.tl, EncodeEntry_body, messageBlock, hk, h0]

/-- the logger's context: a SEPARATOR (the last byte decides), then the raw bytes — only when there are any -/
theorem EE_ctx (P : Par) (c : ECfg) (b : Bytes) (sp : Bool) (ns : Int) (rb re : List Val)
    (obuf : Bytes) (osp : Bool) (ons : Int) (self : Val) (ev : List Val) (rec : Stmt → State → GoMini.Out) (loc : Env) :
    execS (X P) rec (eeStmt 7 EncodeEntry_body) ⟨loc, eeFld c b sp ns rb re obuf osp ons self ev⟩ =
        .normal ⟨loc, eeFld c (ctxBlock sp obuf b) sp ns rb re obuf osp ons self ev⟩ := by
  cases obuf with
  | nil => simp [eeStmt, Stmt.hd, Stmt.tl, EncodeEntry_body, ctxBlock]
  | cons o os =>
    have hpos : (0 : Int) < (os.length : Int) + 1 := by omega
    simp [eeStmt, Stmt.hd, Stmt.tl, EncodeEntry_body, ctxBlock, hpos]

theorem EE_fields (P : Par) (c : ECfg) (e : EEnt) (fields : Val) (b : Bytes) (sp : Bool) (ns : Int) (rb re : List Val)
    (obuf : Bytes) (osp : Bool) (ons : Int) (self : Val) (ev : List Val) (rec : Stmt → State → GoMini.Out)
    (loc : Env) (hl : LocOK loc e fields) :
    execS (X P) rec (eeStmt 8 EncodeEntry_body) ⟨loc, eeFld c b sp ns rb re obuf osp ons self ev⟩ =
        .normal ⟨loc, eeFld c (P.addFields fields sp ⟨b, ns, rb, re⟩).buf sp (P.addFields fields sp ⟨b, ns, rb, re⟩).ns
          (P.addFields fields sp ⟨b, ns, rb, re⟩).rbuf (P.addFields fields sp ⟨b, ns, rb, re⟩).renc obuf osp ons self ev⟩ := by
  simp [eeStmt, Stmt.hd, Stmt.tl, EncodeEntry_body, hl.2]

theorem EE_closeNs (P : Par) (c : ECfg) (b : Bytes) (sp : Bool) (ns : Int) (rb re : List Val)
    (obuf : Bytes) (osp : Bool) (ons : Int) (self : Val) (ev : List Val) (rec : Stmt → State → GoMini.Out) (loc : Env) :
    execS (X P) rec (eeStmt 9 EncodeEntry_body) ⟨loc, eeFld c b sp ns rb re obuf osp ons self ev⟩ =
        .normal ⟨loc, eeFld c (closeNs b ns) sp 0 rb re obuf osp ons self ev⟩ := by
  simp [eeStmt, Stmt.hd, Stmt.tl, EncodeEntry_body]

theorem EE_stack (P : Par) (c : ECfg) (e : EEnt) (fields : Val) (b : Bytes) (sp : Bool) (ns : Int) (rb re : List Val)
    (obuf : Bytes) (osp : Bool) (ons : Int) (self : Val) (ev : List Val) (rec : Stmt → State → GoMini.Out)
    (loc : Env) (hl : LocOK loc e fields) :
    execS (X P) rec (eeStmt 10 EncodeEntry_body) ⟨loc, eeFld c b sp ns rb re obuf osp ons self ev⟩ =
        .normal ⟨loc, eeFld c (stackBlock c sp e b) sp ns rb re obuf osp ons self ev⟩ := by
  have h0 := hl.1
  cases hs : e.stack <;> cases hk : c.stacktraceKey <;>
    simp [eeStmt, Stmt.hd, Stmt.tl, EncodeEntry_body, stackBlock, hs, hk, h0]

/-- `}`, the line ending, `ret := final.buf`, THEN `putJSONEncoder(final)` — the last thing that happens — and `return ret, nil` -/
theorem EE_tail (P : Par) (c : ECfg) (b : Bytes) (sp : Bool) (ns : Int) (rb re : List Val)
    (obuf : Bytes) (osp : Bool) (ons : Int) (self : Val) (ev : List Val) (rec : Stmt → State → GoMini.Out) (loc : Env) :
    execS (X P) rec (EncodeEntry_body.tl.tl.tl.tl.tl.tl.tl.tl.tl.tl.tl) ⟨loc, eeFld c b sp ns rb re obuf osp ons self ev⟩ =
        .ret [.bytes (b ++ 125 :: c.lineEnding), .list []]
          ⟨loc.set "l4" (.bytes (b ++ 125 :: c.lineEnding)),
           eeFld c (b ++ 125 :: c.lineEnding) sp ns rb re obuf osp ons self
             (ev ++ [.list [TransJsonEnc.nm "putJSONEncoder", .list rb, self]])⟩ := by
  simp [Stmt.tl, EncodeEntry_body, nm_put]

/-- **EncodeEntry_matches_source**: for every configuration, entry, context and every behaviour of the sub-encoders
    and of `addFields`, the interpreted `EncodeEntry` returns `entryBytes` and a nil error; the trace is the clone
    first and `putJSONEncoder(final)` LAST (after the buffer was read) -/
theorem EncodeEntry_matches_source (P : Par) (c : ECfg) (e : EEnt) (fields : Val) (b0 : Bytes) (sp0 : Bool) (ns0 : Int)
    (rb0 re0 : List Val) (obuf : Bytes) (osp : Bool) (ons : Int) (self : Val) (ev : List Val) (fuel : Nat) :
    run (X P) (fuel + 1) "EncodeEntry" [e.val, fields] (eeFld c b0 sp0 ns0 rb0 re0 obuf osp ons self ev) =
      .done [.bytes (entryBytes P c osp ons obuf e fields), .list []]
        (eeFld c (entryBytes P c osp ons obuf e fields) osp 0 (afterFields P c osp ons obuf e fields).rbuf
          (afterFields P c osp ons obuf e fields).renc obuf osp ons self
          (ev ++ [.list [TransJsonEnc.nm "jsonEncoder.clone", .bool osp, .int ons],
                  .list [TransJsonEnc.nm "putJSONEncoder", .list (afterFields P c osp ons obuf e fields).rbuf, self]])) := by
  refine run_of_fin (X P) _ _ Gen.TransJsonEnc.EncodeEntry [e.val, fields] _ _ _ rfl rfl ?_
  show (exec (X P) (fuel + 1) EncodeEntry_body ⟨[("p0", e.val), ("p1", fields)], _⟩).fin = _
  rw [exec_succ]
  have hb : EncodeEntry_body =
      .seq (eeStmt 0 EncodeEntry_body) (.seq (eeStmt 1 EncodeEntry_body) (.seq (eeStmt 2 EncodeEntry_body)
      (.seq (eeStmt 3 EncodeEntry_body) (.seq (eeStmt 4 EncodeEntry_body) (.seq (eeStmt 5 EncodeEntry_body)
      (.seq (eeStmt 6 EncodeEntry_body) (.seq (eeStmt 7 EncodeEntry_body) (.seq (eeStmt 8 EncodeEntry_body)
      (.seq (eeStmt 9 EncodeEntry_body) (.seq (eeStmt 10 EncodeEntry_body)
        EncodeEntry_body.tl.tl.tl.tl.tl.tl.tl.tl.tl.tl.tl)))))))))) := rfl
  have hl0 : LocOK [("p0", e.val), ("p1", fields)] e fields := ⟨rfl, rfl⟩
  generalize hrec : exec (X P) fuel = rec
  rw [hb]
  simp only [execS_seq]
  rw [EE_clone]; simp only [Out.andThen_normal, execS_seq]
  rw [EE_open]; simp only [Out.andThen_normal, execS_seq]
  obtain ⟨loc2, h2, hl2⟩ := EE_level P c e fields ([] ++ [123]) osp ons [] [] obuf osp ons self
    (ev ++ [.list [TransJsonEnc.nm "jsonEncoder.clone", .bool osp, .int ons]]) rec _ hl0
  rw [h2]; simp only [Out.andThen_normal, execS_seq]
  rw [EE_time P c e fields _ _ _ _ _ _ _ _ _ _ rec _ hl2]; simp only [Out.andThen_normal, execS_seq]
  obtain ⟨loc4, h4, hl4⟩ := EE_name P c e fields (timeBlock P c osp e (levelBlock P c osp e ([] ++ [123]))) osp ons [] []
    obuf osp ons self (ev ++ [.list [TransJsonEnc.nm "jsonEncoder.clone", .bool osp, .int ons]]) rec _ hl2
  rw [h4]; simp only [Out.andThen_normal, execS_seq]
  obtain ⟨loc5, h5, hl5⟩ := EE_caller P c e fields
    (nameBlock P c osp e (timeBlock P c osp e (levelBlock P c osp e ([] ++ [123])))) osp ons [] []
    obuf osp ons self (ev ++ [.list [TransJsonEnc.nm "jsonEncoder.clone", .bool osp, .int ons]]) rec _ hl4
  rw [h5]; simp only [Out.andThen_normal, execS_seq]
  rw [EE_message P c e fields _ _ _ _ _ _ _ _ _ _ rec _ hl5]; simp only [Out.andThen_normal, execS_seq]
  rw [EE_ctx]; simp only [Out.andThen_normal, execS_seq]
  rw [EE_fields P c e fields _ _ _ _ _ _ _ _ _ _ rec _ hl5]; simp only [Out.andThen_normal, execS_seq]
  rw [EE_closeNs]; simp only [Out.andThen_normal, execS_seq]
  rw [EE_stack P c e fields _ _ _ _ _ _ _ _ _ _ rec _ hl5]; simp only [Out.andThen_normal, execS_seq]
  rw [EE_tail]
  simp [entryBytes, afterFields, metaBytes]

/-- the line is the model's: `Enc.encodeEntry` over `Entry.metaCalls` / `Entry.stackCalls` — the function `jsonLine` and
    the theorems of C01 / C02 are stated over — whenever the sub-encoders and `addFields` do on the buffer what the
    model's call trees say (`TransJsonEnc.EntryLink`, Proofs/TransJsonEntry.lean) -/
theorem EncodeEntry_is_encodeEntry (P : Par) (c : ECfg) (e : EEnt) (cfg : Entry.Cfg) (ent : Entry.Ent)
    (L : EntryLink P c e cfg ent) (fields : Val) (calls : List OC) (obuf : Bytes) (osp : Bool) (ons : Nat)
    (hf : ∀ b : Bytes, (P.addFields fields osp ⟨b, ons, [], []⟩).buf = (runO osp ⟨b, ons⟩ calls).buf ∧
      (P.addFields fields osp ⟨b, ons, [], []⟩).ns = ((runO osp ⟨b, ons⟩ calls).openNs : Int))
    (b0 : Bytes) (sp0 : Bool) (ns0 : Int) (rb0 re0 : List Val) (self : Val) (ev : List Val) (fuel : Nat) :
    ∃ fl, run (X P) (fuel + 1) "EncodeEntry" [e.val, fields] (eeFld c b0 sp0 ns0 rb0 re0 obuf osp ons self ev) =
      .done [.bytes (encodeEntry osp (Entry.metaCalls cfg ent) ⟨obuf, ons⟩ calls (Entry.stackCalls cfg ent) c.lineEnding),
             .list []] fl := by
  have h := EncodeEntry_matches_source P c e fields b0 sp0 ns0 rb0 re0 obuf osp ons self ev fuel
  rw [entryBytes_is_encodeEntry P c e cfg ent L osp ons obuf fields calls hf] at h
  exact ⟨_, h⟩

end ZapVerif.C02
