import ZapVerif.Proofs.FieldSpec
/-! # C03 — Field constructors and zap.Any deliver exactly the value they were given

Every theorem is stated over the definitions regenerated from the source on each run:
`Gen.ctors` / `Gen.pack_*` (field.go, array.go, error.go, exp/zapfield), `Gen.addTo` (`Field.AddTo`), `Gen.anySwitch`
(`zap.Any`), `Gen.equalsArm` (`Field.Equals`).  The specification side (`Ctor.Ok`, `NumOk`, `BoxOk`, `SliceOk`, …) is in
`Proofs/FieldSpec.lean`; Go's conversions are wrap-around arithmetic on `Int` and are closed by `omega`. -/
namespace ZapVerif.C03
open ZapVerif ZapVerif.Field
set_option linter.unusedSimpArgs false

/-! ## constructors → AddTo: the encoder receives the original value -/

/-- **Every** function returning `Field` in field.go, array.go, error.go and zapfield meets the obligation of its
signature kind (`Ctor.Ok`): scalars of every width arrive through the method of their own type with the same value
(floats: same bits), strings/bools/opaque values unchanged, times with the same instant and location on both sides of
the ±int64-nanosecond split, `*T` as null or as the pointee, slices as one array of the elements in order.
One goal per row of the regenerated table; a mutated cast leaves its row unprovable. -/
theorem ctors_ok : ∀ c ∈ Gen.ctors, c.Ok := by
  unfold Gen.ctors
  per_row
  all_goals row_tac

/-- witnesses (non-vacuity): the table is populated, and concrete boundary values are delivered -/
example : Gen.ctors.length ≥ 79 := by decide
example : ["Int32", "Uint64", "Float32", "Time", "Durationp", "Errors", "Str", "Strs", "Inline", "NamedError"].all
    (fun n => (Gen.ctors.map (·.name)).contains n) = true := by decide
example : (Gen.ctors.filter fun c => match c.fn with | .opaque => true | _ => false).map (·.name) = ["Stack", "StackSkip"] := by
  decide
example : GoT.inRange .int32 (-2147483648) ∧ GoT.inRange .uint64 18446744073709551615 := by
  simp [GoT.inRange]
example : delivered (Gen.pack_Uint64 [107] 18446744073709551615) = .ok [⟨.AddUint64, [107], .int 18446744073709551615⟩] := by
  simp [delivered, wrapS, wrapU]
example : delivered (Gen.pack_Time [116] ⟨9223372036854775808, 3⟩) = .ok [⟨.AddTime, [116], .time ⟨9223372036854775808, 3⟩⟩] := by
  simp [delivered, timeBefore, timeAfter, assertTime]
example : (Gen.pack_Time [116] ⟨9223372036854775807, 3⟩).ty = .time ∧ (Gen.pack_Time [116] ⟨9223372036854775808, 3⟩).ty = .timeFull := by
  simp [timeBefore, timeAfter]
/-- the hypothesis of the opaque-value obligations is satisfiable -/
example : Payload.hasType "zapcore.ObjectMarshaler" (.box { dyn := "main.T", impl := ["zapcore.ObjectMarshaler"] }) := by
  simp [Payload.hasType, Box.isA, ifaceTypes]

/-- `roundtrip_<Ctor>` for every numeric constructor: for all values of the parameter type (widths 8/16/32/64, signed,
unsigned, uintptr, duration, float bit patterns) the encoder method of that type receives exactly `v` under `key` -/
theorem roundtrip_scalar (c : Ctor) (hc : c ∈ Gen.ctors) (t : GoT) (g : Bytes → Int → Fld) (h : c.fn = .kv (.num t) g) :
    ∀ key v, t.inRange v → ∃ m ∈ t.accepts, delivered (g key v) = .ok [⟨m, key, .int v⟩] := by
  have := ctors_ok c hc
  simp only [Ctor.Ok, h, ValOk] at this
  exact this

theorem roundtrip_bool (c : Ctor) (hc : c ∈ Gen.ctors) (g : Bytes → Bool → Fld) (h : c.fn = .kv .bool g) :
    ∀ key v, delivered (g key v) = .ok [⟨.AddBool, key, .bool v⟩] := by
  have := ctors_ok c hc
  simp only [Ctor.Ok, h, ValOk] at this
  exact this

theorem roundtrip_string (c : Ctor) (hc : c ∈ Gen.ctors) (g : Bytes → Bytes → Fld) (h : c.fn = .kv .str g) :
    ∀ key v, delivered (g key v) = .ok [⟨.AddString, key, .str v⟩] := by
  have := ctors_ok c hc
  simp only [Ctor.Ok, h, ValOk] at this
  exact this

/-- `Time`: for **every** instant (inside the int64-nanosecond range, at its two ends, and beyond) the encoder receives
a time with the same instant and the same location -/
theorem time_roundtrip (c : Ctor) (hc : c ∈ Gen.ctors) (g : Bytes → Time → Fld) (h : c.fn = .kv .time g) :
    ∀ key t, delivered (g key t) = .ok [⟨.AddTime, key, .time t⟩] := by
  have := ctors_ok c hc
  simp only [Ctor.Ok, h, ValOk] at this
  exact this

/-- opaque values (byte slices, complex numbers, marshalers, reflected values, `[]Field`) arrive as themselves; Stringers
and errors as their text -/
theorem roundtrip_opaque (c : Ctor) (hc : c ∈ Gen.ctors) (g : Bytes → Payload → Fld) (h : c.fn = .kv .box g) :
    BoxOk c.ptype g := by
  have := ctors_ok c hc
  simp only [Ctor.Ok, h, ValOk] at this
  exact this

/-- a nil pointer is rendered as an explicit null … -/
theorem ptr_nil_is_null (c : Ctor) (hc : c ∈ Gen.ctors) (k : VK) (g : Bytes → Option k.T → Fld) (h : c.fn = .kp k g) :
    ∀ key, delivered (g key none) = .ok [⟨.AddReflected, key, .pay .nil⟩] := by
  have := ctors_ok c hc
  simp only [Ctor.Ok, h] at this
  exact this.1

/-- … and a non-nil pointer exactly as its pointee would be by the value constructor's obligation -/
theorem ptr_nonnil_is_value (c : Ctor) (hc : c ∈ Gen.ctors) (k : VK) (g : Bytes → Option k.T → Fld) (h : c.fn = .kp k g) :
    ValOk c.etype k (fun key v => g key (some v)) := by
  have := ctors_ok c hc
  simp only [Ctor.Ok, h] at this
  exact this.2

/-- slice constructors: one `AddArray(key, m)`; `m.MarshalLogArray` emits exactly one call per element, in order, with the
element unchanged (so: same length, same order; nil and empty slices give no calls; nil errors are skipped) -/
theorem array_wrapper_elems (c : Ctor) (hc : c ∈ Gen.ctors) (k : VK) (g : Bytes → List k.T → Fld) (h : c.fn = .ks k g) :
    ∀ key xs, ∃ b, delivered (g key xs) = .ok [⟨.AddArray, key, .pay (.box b)⟩] ∧ ElemsOk c.etype k xs b.elems := by
  have := ctors_ok c hc
  simp only [Ctor.Ok, h] at this
  exact this

/-- the marshaler of every slice wrapper type makes one call per element (no element dropped, duplicated or reordered),
except that `errArray` skips nil errors -/
theorem array_wrapper_length : ∀ w ∈ Gen.arrayWrappers, ∀ xs, (w.marshal xs).length ≤ xs.length ∧
    (w.name ≠ "zap.errArray" → (w.marshal xs).length = xs.length) := by
  unfold Gen.arrayWrappers
  per_row
  all_goals (intro xs; simp [List.length_filter_le])

/-- nil values of interface-typed parameters never make `AddTo` panic; a nil error adds nothing at all -/
theorem nil_interface_safe : ∀ c ∈ Gen.ctors, c.NilSafe := by
  unfold Gen.ctors
  per_row
  all_goals (simp [Ctor.NilSafe, ifaceTypes, delivered, encodeStringer, assertT])

/-- `NamedError(key, nil)` / `Error(nil)`: skipped -/
theorem nil_error_skipped (c : Ctor) (hc : c ∈ Gen.ctors) (hp : c.ptype = "error") (g : Bytes → Payload → Fld)
    (h : c.fn = .kv .box g) : ∀ key, delivered (g key .nil) = .ok [] := by
  have := nil_interface_safe c hc
  simp [Ctor.NilSafe, hp, h, ifaceTypes] at this
  exact this

/-- an error returned by the encoder never loses the calls already made and is reported as `<key>Error` -/
theorem error_tail_reported (f : Fld) (e : Bytes) (cs : List Call) (h : Gen.addTo f none = .ok cs) :
    Gen.addTo f (some e) = .ok cs ∨
    Gen.addTo f (some e) = .ok (cs ++ [⟨.AddString, f.key ++ [69, 114, 114, 111, 114], .str e⟩]) := by
  have := arm_err f.ty f.key f.integer f.str f.iface e
  rw [addTo_def] at h ⊢
  cases h0 : Gen.addToArm f.key f.integer f.str f.iface none f.ty with
  | error m => rw [h0] at h; simp [bindE] at h
  | ok ce =>
    obtain ⟨cs0, e0⟩ := ce
    rw [h0] at this h
    cases e0 with
    | none =>
      simp [bindE] at h
      rcases this with h1 | h1 <;> rw [h1] <;> simp [bindE, h]
    | some e' =>
      simp [bindE] at h
      simp only at this
      rw [this]; simp [bindE, h]

/-! ## Any -/

/-- every case of `Any` hands the value to a constructor whose parameter type is the case type, instantiated at that type;
where several constructors take that type, to the designated one -/
theorem any_agrees : ∀ e ∈ Gen.anySwitch,
    e.1 = e.2.1 ∧ ctorParam e.2.2 = some e.1 ∧ (candidates e.1 = [e.2.2] ∨ (e.1, e.2.2) ∈ anyTieBreak) := by
  decide +kernel

/-- everything else is reflected -/
theorem any_default_reflect : Gen.anyDefault = ("any", "Reflect") ∧ ctorParam "Reflect" = some "any" := by
  decide +kernel

/-- no case can shadow a later one that must win: the marshaler interfaces come before `error`, `error` before
`fmt.Stringer`, and every concrete type that implements `fmt.Stringer` before the `fmt.Stringer` case -/
theorem any_order_ok :
    caseBefore "zapcore.ObjectMarshaler" "error" = true ∧ caseBefore "zapcore.ArrayMarshaler" "error" = true ∧
    caseBefore "error" "fmt.Stringer" = true ∧ ∀ t ∈ stringerImpls, caseBefore t "fmt.Stringer" = true := by
  decide +kernel

/-- every exported value constructor of package zap has its parameter type among the cases of `Any` (so `Any` picks the
typed representation, not reflection), except the listed types that cannot or need not be dispatched on -/
theorem any_complete : ∀ c ∈ Gen.ctors, c.pkg = "zap" → c.exported = true →
    (match c.fn with | .kv .. | .kp .. | .ks .. => true | _ => false) = true →
    c.ptype ∈ Gen.anySwitch.map (·.1) ∨ c.ptype ∈ anyExempt := by
  unfold Gen.ctors
  per_row
  all_goals (intro _ _ _; first | (left; decide +kernel) | (right; decide +kernel) | simp_all)

/-- no case type is listed twice -/
theorem any_cases_distinct : (Gen.anySwitch.map (·.1)).Nodup := by
  decide +kernel

/-! ## Equals -/

/-- every field a constructor returns (for well-typed arguments) keeps the discipline under which `Equals` cannot panic:
types compared with `==` carry a comparable payload, types compared with `bytes.Equal` carry a `[]byte`.
With `StringerType` / `InlineMarshalerType` in the `==` arm this is unprovable for `Stringer` / `Inline` (finding F3). -/
theorem built_eqsafe : ∀ c ∈ Gen.ctors, c.EqSafe := by
  unfold Gen.ctors
  per_row
  all_goals eqsafe_row

/-- `Equals` never panics on fields that keep that discipline — in particular on fields built by the constructors -/
theorem equals_total (f g : Fld) (hf : EqSafe f) (hg : EqSafe g) : equals f g ≠ .panic := by
  unfold equals equalsWith
  by_cases ht : f.ty = g.ty
  · by_cases hk : f.key = g.key
    · simp only [ht, hk, ne_eq, not_true_eq_false, if_false]
      rw [← ht]
      cases ha : Gen.equalsArm f.ty with
      | bytesEqual => exact bytesEq_ne_panic _ _ (hf.2 ha) (hg.2 (by rw [← ht]; exact ha))
      | deepEqual => exact ofBool_ne_panic _
      | structEq =>
        have h1 := ifaceEq_ne_panic f.iface g.iface (hf.1 ha)
        cases hr : ifaceEq f.iface g.iface with
        | panic => exact absurd hr h1
        | tt => simp only; split <;> simp
        | ff => simp only; split <;> simp
    · simp [ht, hk]
  · simp [ht]

/-- witnesses: an uncomparable Stringer payload (`net.IP`) keeps the discipline and equals itself (the F3 replay) -/
example : EqSafe (Gen.pack_Stringer [107] (.box { dyn := "net.IP", impl := ["fmt.Stringer"], cmp := false })) := by
  simp [EqSafe, Payload.comparable, Payload.hasType, Gen.equalsArm]
example : equals (Gen.pack_Stringer [107] (.box { dyn := "net.IP", impl := ["fmt.Stringer"], cmp := false }))
    (Gen.pack_Stringer [107] (.box { dyn := "net.IP", impl := ["fmt.Stringer"], cmp := false })) = .tt := by decide
example : Coherent (.box { dyn := "a", cmp := false }) (.box { dyn := "a", cmp := false }) := by simp [Coherent]

/-- `Equals` is symmetric (for payloads of one dynamic type, comparability is a property of the type) -/
theorem equals_symm (f g : Fld) (hc : Coherent f.iface g.iface) : equals f g = equals g f := by
  unfold equals equalsWith
  by_cases ht : f.ty = g.ty
  · by_cases hk : f.key = g.key
    · simp only [ht, hk, ne_eq, not_true_eq_false, if_false]
      rw [bytesEq_comm, deepEq_comm, ifaceEq_comm _ _ hc]
      cases Gen.equalsArm g.ty <;> simp only [eq_comm (a := f.integer), eq_comm (a := f.str)]
    · have hk' : ¬ g.key = f.key := fun h => hk h.symm
      simp [ht, hk, hk']
  · have ht' : ¬ g.ty = f.ty := fun h => ht h.symm
    simp [ht, ht']

/-- full-strength reflexivity: every constructor-built field equals itself -/
def EqualsReflexive : Prop := ∀ f, EqSafe f → equals f f = .tt

/-- what holds: a field whose payload equals itself (no NaN, no non-nil func inside) equals itself — hence two fields
built from equal inputs compare equal (`equals_of_equal_inputs`) -/
theorem equals_refl_partial (f : Fld) (hs : EqSafe f) (hr : f.iface.reflexive) : equals f f = .tt := by
  unfold equals equalsWith
  simp only [ne_eq, not_true_eq_false, if_false]
  cases ha : Gen.equalsArm f.ty with
  | bytesEqual =>
    have h1 := hs.2 ha
    cases hfi : f.iface <;> simp_all [Payload.hasType, bytesEq, assertT, tyLocation, tyTime, EqR.ofBool]
  | deepEqual =>
    cases hfi : f.iface <;> simp_all [deepEq, same_self, EqR.ofBool, Payload.reflexive]
  | structEq =>
    have h1 := hs.1 ha
    cases hfi : f.iface <;> simp_all [Payload.comparable, ifaceEq, same_self, EqR.ofBool, Payload.reflexive]

theorem equals_of_equal_inputs (f g : Fld) (h : f = g) (hs : EqSafe f) (hr : f.iface.reflexive) : equals f g = .tt := by
  subst h; exact equals_refl_partial f hs hr

/-- what is missing (known finding F3b): a NaN inside a `Complex128`/`Reflect` payload makes the field unequal to itself,
because `==` / `reflect.DeepEqual` are irreflexive on NaN — witness `zap.Complex128("c", NaN)` -/
theorem equals_refl_fails : ¬ EqualsReflexive := by
  intro h
  have := h (Gen.pack_Complex128 [99] (.box { dyn := "complex128", refl := false }))
    (by simp [EqSafe, Payload.comparable, Payload.hasType, Box.isA, ifaceTypes, Gen.equalsArm])
  revert this
  decide

end ZapVerif.C03
