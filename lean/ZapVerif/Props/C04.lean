import ZapVerif.Proofs.TeeBws
import ZapVerif.Gen.IoFacts
/-! # C04 — concurrent logging delivers every entry exactly once as an intact line

Machine (`Model/TeeBws.lean`): any number of goroutines, each with any program of `write b line` (one `ioCore.Write` of
tee branch b: take a pooled buffer, append the encoded line byte by byte, acquire the branch mutex, hand the buffer to
the sink / bufio byte by byte, release, free the buffer) and `sync b` (a `Sync()`, a flush tick, `Stop`'s flush);
branches are `Lock(sink)` (also what `zap.Open` / `CombineWriteSyncers` return) or `BufferedWriteSyncer`s of any size;
any schedule, which also picks the pooled buffer a `Get` returns. All theorems below quantify over all of these
(`kind`, `jobs`, `sched`); line lengths are arbitrary, in particular larger than the buffer.

Tie: (1) `io_facts_as_modelled` — the bodies of `ioCore.Write`, `lockedWriteSyncer.Write/Sync`,
`BufferedWriteSyncer.Write/Sync/flushLoop`, `multiCore.Write`, `CheckedEntry.Write`, `multiWriteSyncer.Write`,
`CombineWriteSyncers`, `Open`, `jsonEncoder.clone`, `buffer.Pool.Get`, `Buffer.Free` are re-read from the source on
every run and must be the ones the step function mirrors; (2) histories of the real loggers under `-race`: the
recorded sink streams and the independently computed per-goroutine lines are judged by `validMerge` / `validCalls` / `validLines`
(the compiled Lean functions, `Drv/C04.lean`) and by an independent Go oracle, and the verdicts are compared.

Not in the machine: several sinks combined under ONE lock (`CombineWriteSyncers(a, b)`, `Open(p, q)`): the Gen fact
`multiWsWrite` says every member receives the same slice inside the same critical section, so each member sees the call
sequence `calls b` of that branch (C13 proves the multi-syncer rules); the harness compares the members call by call.
Sink errors / short writes are C10, C12, C13.

Trusted (DESIGN §3): Go's `sync.Mutex` is a mutex and `sync.Pool` never hands out an object that was not Put
(`step`'s guards `lock = none`, `owner = none`); encoding touches per-call state only (C08/C09); the schedules of the
real runtime are sampled, not enumerated. -/
namespace ZapVerif.C04
open ZapVerif ZapVerif.TeeBws
open ZapVerif.Tee (IsMergeOf proj validMerge cut isMerge Proper runU isMerge_sound isMerge_complete cut_flatten)

/-- reachable states of the machine -/
abbrev reach (kind : Nat → Kind) (jobs : Nat → List Act) (sched : List (Nat × Nat)) : St :=
  run kind false (init jobs) sched

theorem reach_inv (kind : Nat → Kind) (jobs : Nat → List Act) (sched : List (Nat × Nat)) :
    Inv kind jobs (reach kind jobs sched) :=
  run_inv kind jobs sched _ (init_inv kind jobs)

/-! ## Lock(sink) branches -/

/-- In EVERY reachable state, on a Lock(sink) branch: the completed sink Write calls are exactly the accepted lines in
    lock-acquisition order, one call per line; if the mutex is free nothing is in progress; if goroutine t holds it,
    either t is in `Sync` (nothing in progress) or the sink has received, after the completed lines, a prefix of t's
    line — the line still sitting unmodified in t's pooled buffer; and what each goroutine got in so far is a prefix
    of its program (nothing duplicated, invented or reordered at any time). -/
theorem sink_inv (kind : Nat → Kind) (jobs : Nat → List Act) (sched : List (Nat × Nat)) (b : Nat)
    (hk : kind b = .locked) :
    let s := reach kind jobs sched
    (s.lock b = none → s.calls b = wlines s b ∧ s.cur b = [] ∧ stream s b = (wlines s b).flatten) ∧
    (∀ t, s.lock b = some t →
      ((s.thr t).ph = .flush b ∧ s.calls b = wlines s b ∧ s.cur b = []) ∨
      (∃ k line i, (s.thr t).ph = .emit k b line i ∧ (s.pool k).data = line ∧ (s.pool k).owner = some t ∧
        s.calls b ++ [line] = wlines s b ∧ s.cur b = line.take i ∧
        stream s b = (s.calls b).flatten ++ line.take i)) ∧
    (∀ t, proj t (s.hist b) <+: linesFor b (jobs t)) := by
  intro s
  have h : Inv kind jobs s := reach_inv kind jobs sched
  refine ⟨?_, ?_, fun t => proj_prefix h t b⟩
  · intro hl
    obtain ⟨_, _, _, hcur, _, _⟩ := (h.brn b).free hl
    have hc := (h.brn b).lkfree hk hl
    exact ⟨hc, hcur, by simp [stream, hc, hcur]⟩
  · intro t hl
    have hh := (h.brn b).hold t hl
    have hlk := (h.thr t).lkheld b hk hh
    have hbr := (h.thr t).br b hh
    have hd := (h.thr t).data
    cases hph : (s.thr t).ph with
    | idle => rw [hph] at hh; simp [holds] at hh
    | enc k br line rest => rw [hph] at hh; simp [holds] at hh
    | fin k => rw [hph] at hh; simp [holds] at hh
    | pre k br line => rw [hph] at hlk; exact absurd hlk (by simp [lkOk])
    | copy k br line i => rw [hph] at hlk; exact absurd hlk (by simp [lkOk])
    | flush br =>
      rw [hph] at hh hlk hbr
      simp [holds] at hh; subst hh
      obtain ⟨_, _, _, hcur, _, _⟩ := hbr
      exact .inl ⟨rfl, hlk, hcur⟩
    | emit k br line i =>
      rw [hph] at hh hlk hbr hd
      simp [holds] at hh; subst hh
      obtain ⟨_, _, _, hcur, _, _, _⟩ := hbr
      refine .inr ⟨k, line, i, rfl, hd, (h.thr t).own k (by rw [hph]; rfl), hlk, hcur, by simp [stream, hcur]⟩

/-- When all goroutines have returned, every Lock(sink) branch has received exactly one sink Write call per accepted
    line — each call is one complete line — and the sequence of calls is a merge of what the goroutines sent to that
    branch: nothing torn, interleaved, merged, duplicated or lost, per-goroutine order kept. -/
theorem sink_final_is_merge (kind : Nat → Kind) (jobs : Nat → List Act) (sched : List (Nat × Nat)) (b : Nat)
    (hk : kind b = .locked) (hf : Finished (reach kind jobs sched)) :
    let s := reach kind jobs sched
    IsMergeOf (fun t => linesFor b (jobs t)) (s.calls b) ∧ stream s b = (s.calls b).flatten := by
  intro s
  have h : Inv kind jobs s := reach_inv kind jobs sched
  have hl := finished_free h hf b
  have hc := (h.brn b).lkfree hk hl
  obtain ⟨_, _, _, hcur, _, _⟩ := (h.brn b).free hl
  exact ⟨by rw [hc]; exact finished_merge h hf b, by simp [stream, hcur]⟩

/-- … hence the recorded byte stream passes the executable check `validMerge` the harness runs (N goroutines, every
    line a proper '\n'-terminated line). -/
theorem sink_final_validMerge (kind : Nat → Kind) (jobs : Nat → List Act) (sched : List (Nat × Nat)) (b N : Nat)
    (hk : kind b = .locked) (hf : Finished (reach kind jobs sched))
    (hN : ∀ t, N ≤ t → jobs t = []) (hp : ∀ t, ∀ l ∈ linesFor b (jobs t), Proper l) :
    validMerge (perList N fun t => linesFor b (jobs t)) (stream (reach kind jobs sched) b) = true := by
  obtain ⟨hm, hs⟩ := sink_final_is_merge kind jobs sched b hk hf
  rw [hs]
  refine merge_validMerge N _ (fun t ht => by simp [hN t ht, linesFor]) _ hm ?_
  intro l hl
  obtain ⟨t, ht⟩ := isMergeOf_mem hm hl
  exact hp t l ht

/-- … and the recorded Write calls pass the executable check `validLines` the harness runs on Lock(sink) recorders:
    a valid merge, one line per sink write. -/
theorem sink_final_validLines (kind : Nat → Kind) (jobs : Nat → List Act) (sched : List (Nat × Nat)) (b N : Nat)
    (hk : kind b = .locked) (hf : Finished (reach kind jobs sched))
    (hN : ∀ t, N ≤ t → jobs t = []) (hp : ∀ t, ∀ l ∈ linesFor b (jobs t), Proper l) :
    validLines (perList N fun t => linesFor b (jobs t)) ((reach kind jobs sched).calls b) = true := by
  obtain ⟨hm, hs⟩ := sink_final_is_merge kind jobs sched b hk hf
  have hv := sink_final_validMerge kind jobs sched b N hk hf hN hp
  rw [hs] at hv
  simp only [validLines, hv, Bool.true_and, List.all_eq_true]
  intro c hc
  obtain ⟨t, ht⟩ := isMergeOf_mem hm hc
  simp [cut_single c (hp t c ht)]

/-! ## tees -/

/-- A tee of B branches (each `Lock(sink)` or buffered, each with its own encoder): when all goroutines have returned,
    EVERY branch b < B has accepted, for every goroutine, every one of its entries (in that branch's encoding
    `e b`), in the goroutine's order — the accepted lines of a branch are a merge of the full per-goroutine lists. -/
theorem tee_each_branch_full (kind : Nat → Kind) (B : Nat) (es : Nat → List (Nat → Bytes)) (sched : List (Nat × Nat))
    (hf : Finished (reach kind (fun t => teeProg B (es t)) sched)) (b : Nat) (hb : b < B) :
    IsMergeOf (fun t => (es t).map (· b)) (wlines (reach kind (fun t => teeProg B (es t)) sched) b) := by
  have h := reach_inv kind (fun t => teeProg B (es t)) sched
  have := finished_merge h hf b
  simpa [linesFor_teeProg B b hb] using this

/-- … and on a Lock(sink) branch of the tee these accepted lines are literally the sink's Write calls. -/
theorem tee_locked_branch_calls (kind : Nat → Kind) (B : Nat) (es : Nat → List (Nat → Bytes)) (sched : List (Nat × Nat))
    (hf : Finished (reach kind (fun t => teeProg B (es t)) sched)) (b : Nat) (hb : b < B) (hk : kind b = .locked) :
    IsMergeOf (fun t => (es t).map (· b)) ((reach kind (fun t => teeProg B (es t)) sched).calls b) := by
  have := (sink_final_is_merge kind (fun t => teeProg B (es t)) sched b hk hf).1
  simpa [linesFor_teeProg B b hb] using this

/-! ## BufferedWriteSyncer branches (flushes, ticks and Syncs interleaved; lines of any length) -/

/-- In EVERY reachable state of ANY branch (buffered or not) whose mutex is free: every Write call the underlying sink
    has received is a concatenation of whole accepted lines (`groups`), the bufio buffer holds whole accepted lines
    (`pending`), no sink call is in progress, and calls followed by the buffer are exactly the accepted lines in
    acquisition order — nothing lost, duplicated, reordered or split across sink writes. -/
theorem bws_whole_line_writes (kind : Nat → Kind) (jobs : Nat → List Act) (sched : List (Nat × Nat)) (b : Nat)
    (hl : (reach kind jobs sched).lock b = none) :
    let s := reach kind jobs sched
    ∃ (groups : List (List Bytes)) (pending : List Bytes),
      s.calls b = groups.map List.flatten ∧ s.cur b = [] ∧ s.buf b = pending.flatten ∧
      groups.flatten ++ pending = wlines s b ∧ ∀ t, proj t (s.hist b) <+: linesFor b (jobs t) := by
  intro s
  have h : Inv kind jobs s := reach_inv kind jobs sched
  obtain ⟨groups, pending, h1, h2, h3, h4⟩ := (h.brn b).free hl
  exact ⟨groups, pending, h1, h2, h3, h4, fun t => proj_prefix h t b⟩

/-- When all goroutines (loggers, tickers, concurrent Syncs) have returned: the accepted lines are a merge of what the
    goroutines sent; the sink calls are whole-line groups; and what is not yet in the sink is exactly the buffered
    tail. Once the buffer is empty (after the closing Sync/Stop, `bws_closing_sync_drains`) the sink stream is the
    concatenation of a merge. -/
theorem bws_sink_is_merge (kind : Nat → Kind) (jobs : Nat → List Act) (sched : List (Nat × Nat)) (b : Nat)
    (hf : Finished (reach kind jobs sched)) :
    let s := reach kind jobs sched
    IsMergeOf (fun t => linesFor b (jobs t)) (wlines s b) ∧
    (∃ (groups : List (List Bytes)) (pending : List Bytes),
      s.calls b = groups.map List.flatten ∧ s.buf b = pending.flatten ∧ groups.flatten ++ pending = wlines s b) ∧
    stream s b ++ s.buf b = (wlines s b).flatten ∧
    (s.buf b = [] → stream s b = (wlines s b).flatten) := by
  intro s
  have h : Inv kind jobs s := reach_inv kind jobs sched
  obtain ⟨groups, pending, h1, h2, h3, h4⟩ := finished_quiet h hf b
  have hst : stream s b ++ s.buf b = (wlines s b).flatten := by
    simp only [stream, h1, h2, h3, ← h4]
    simp [List.flatten_append, map_flatten_flatten]
  exact ⟨finished_merge h hf b, ⟨groups, pending, h1, h3, h4⟩, hst, fun hb => by simpa [hb] using hst⟩

/-- The closing `Sync()`/`Stop()` issued by the main goroutine after every other goroutine has returned takes two
    steps and leaves the branch drained: all goroutines finished and the bufio buffer empty. -/
theorem bws_closing_sync_drains (kind : Nat → Kind) (jobs : Nat → List Act) (sched : List (Nat × Nat)) (m b c c' : Nat)
    (hm : ((reach kind jobs sched).thr m).todo = [.sync b] ∧ ((reach kind jobs sched).thr m).ph = .idle)
    (ho : ∀ t, t ≠ m → ((reach kind jobs sched).thr t).todo = [] ∧ ((reach kind jobs sched).thr t).ph = .idle) :
    Finished (reach kind jobs (sched ++ [(m, c), (m, c')])) ∧ (reach kind jobs (sched ++ [(m, c), (m, c')])).buf b = [] := by
  have hrun : reach kind jobs (sched ++ [(m, c), (m, c')]) = run kind false (reach kind jobs sched) [(m, c), (m, c')] :=
    run_append kind false sched _ _
  rw [hrun]
  exact final_sync_drains (reach_inv kind jobs sched) m b c c' hm ho

/-- … hence, after the closing Sync, the recorded sink calls pass the executable check `validCalls` the harness runs on
    buffered sinks: the concatenation is a valid merge and every single sink write consists of whole lines. -/
theorem bws_final_validCalls (kind : Nat → Kind) (jobs : Nat → List Act) (sched : List (Nat × Nat)) (b N : Nat)
    (hf : Finished (reach kind jobs sched)) (hb : (reach kind jobs sched).buf b = [])
    (hN : ∀ t, N ≤ t → jobs t = []) (hp : ∀ t, ∀ l ∈ linesFor b (jobs t), Proper l) :
    validCalls (perList N fun t => linesFor b (jobs t)) ((reach kind jobs sched).calls b) = true := by
  obtain ⟨hm, ⟨groups, pending, h1, _, h4⟩, _, hst⟩ := bws_sink_is_merge kind jobs sched b hf
  have h : Inv kind jobs (reach kind jobs sched) := reach_inv kind jobs sched
  obtain ⟨_, _, _, hcur, _, _⟩ := finished_quiet h hf b
  have hst' : ((reach kind jobs sched).calls b).flatten = (wlines (reach kind jobs sched) b).flatten := by
    have := hst hb; simpa [stream, hcur] using this
  have hprop : ∀ l ∈ wlines (reach kind jobs sched) b, Proper l := by
    intro l hl
    obtain ⟨t, ht⟩ := isMergeOf_mem hm hl
    exact hp t l ht
  simp only [validCalls, Bool.and_eq_true, List.all_eq_true]
  refine ⟨?_, ?_⟩
  · rw [hst']
    exact merge_validMerge N _ (fun t ht => by simp [hN t ht, linesFor]) _ hm hprop
  · intro c hc
    rw [h1] at hc
    obtain ⟨g, hg, rfl⟩ := List.mem_map.mp hc
    have hgp : ∀ l ∈ g, Proper l := fun l hl =>
      hprop l (by rw [← h4]; exact List.mem_append_left _ (List.mem_flatten.mpr ⟨g, hg, hl⟩))
    simp [cut_flatten g hgp]

/-! ## the protocol cannot block itself -/

/-- In every reachable state a goroutine that cannot take a step (with pooled buffer c on offer) has finished, or is at
    `Get` and the pool does not offer c, or waits for a mutex whose holder can always step: critical sections contain
    no acquisition and no wait, so the protocol has no state in which unfinished goroutines block each other.
    `_partial`: termination of every fair schedule (hence reachability of `Finished` for every program) is not stated
    here; the `example`s below exhibit finished runs, deadlock freedom of the real code is C09's subject. -/
theorem no_self_block_partial (kind : Nat → Kind) (jobs : Nat → List Act) (sched : List (Nat × Nat)) (t c : Nat)
    (hs : step kind false (reach kind jobs sched) t c = none) :
    let s := reach kind jobs sched
    ((s.thr t).todo = [] ∧ (s.thr t).ph = .idle) ∨
    (∃ b u, wants (s.thr t) = some b ∧ s.lock b = some u ∧ ∀ c', (step kind false s u c').isSome = true) ∨
    ((s.thr t).ph = .idle ∧ (∃ br line rest, (s.thr t).todo = .write br line :: rest) ∧ (s.pool c).owner ≠ none) := by
  intro s
  rcases blocked_cases hs with h1 | ⟨b, u, hw, hl⟩ | h3
  · exact .inl h1
  · exact .inr (.inl ⟨b, u, hw, hl, fun c' => holder_can_step (reach_inv kind jobs sched) hl c'⟩)
  · exact .inr (.inr h3)

/-! ## the theorems use the lock and the free-after-write discipline -/

/-- WITHOUT the mutex (bare, unlocked sink — not covered by the property): two goroutines logging "ab\n" and "cd\n"
    byte by byte, a schedule after which both are done and all 6 bytes are in the sink, but the stream is torn:
    it is not a merge of the two lines. -/
theorem unlocked_can_tear :
    ∃ (thr : Nat → List Bytes × Bytes) (sched : List Nat),
      (runU thr [] sched).length = 6 ∧
      validMerge [[[97, 98, 10]], [[99, 100, 10]]] (runU thr [] sched) = false ∧
      cut (runU thr [] sched) = some [[97, 99, 98, 100, 10], [10]] :=
  ⟨fun t => if t = 0 then ([[97, 98, 10]], []) else if t = 1 then ([[99, 100, 10]], []) else ([], []),
   [0, 1, 0, 1, 0, 1, 0, 1], by decide, by decide, by decide⟩

/-- the same two goroutines on the locked machine: whatever the schedule does, a finished run passes -/
example (sched : List (Nat × Nat))
    (hf : Finished (reach (fun _ => .locked)
      (fun t => if t = 0 then [.write 0 [97, 98, 10]] else if t = 1 then [.write 0 [99, 100, 10]] else []) sched)) :
    validMerge [[[97, 98, 10]], [[99, 100, 10]]]
      (stream (reach (fun _ => .locked)
        (fun t => if t = 0 then [.write 0 [97, 98, 10]] else if t = 1 then [.write 0 [99, 100, 10]] else []) sched) 0) = true := by
  have := sink_final_validMerge (fun _ => .locked) _ sched 0 2 rfl hf
    (fun t ht => by
      have h0 : t ≠ 0 := by omega
      have h1 : t ≠ 1 := by omega
      simp [h0, h1])
    (fun t l hl => by
      by_cases h0 : t = 0
      · subst h0; simp [linesFor] at hl; subst hl; exact ⟨[97, 98], rfl, by decide⟩
      · by_cases h1 : t = 1
        · subst h1; simp [linesFor] at hl; subst hl; exact ⟨[99, 100], rfl, by decide⟩
        · simp [h0, h1, linesFor] at hl)
  simpa [perList, List.range, List.range.loop, linesFor] using this

/-- the seeded defect "pooled buffer freed before the sink write" (`early = true`): goroutine 0 encodes "a\n", takes the
    mutex and frees its buffer; goroutine 1 gets the same buffer from the pool and encodes "b\n" into it while 0 is
    still handing it to the sink — the sink receives "b\n" twice and never "a\n". The same schedule on the real
    discipline delivers both lines. -/
def efJobs : Nat → List Act := fun t =>
  if t = 0 then [.write 0 [97, 10]] else if t = 1 then [.write 0 [98, 10]] else []
def efSched : List (Nat × Nat) :=
  [(0, 0), (0, 0), (0, 0), (0, 0), (1, 0), (1, 0), (1, 0)] ++ (List.range 10).flatMap fun _ => [(0, 0), (1, 0)]

theorem early_free_can_corrupt :
    (run (fun _ => .locked) true (init efJobs) efSched).calls 0 = [[98, 10], [98, 10]] ∧
    validMerge [[[97, 10]], [[98, 10]]] (stream (run (fun _ => .locked) true (init efJobs) efSched) 0) = false ∧
    (run (fun _ => .locked) false (init efJobs) efSched).calls 0 = [[97, 10], [98, 10]] := by
  refine ⟨by decide, by decide, by decide⟩

/-! ## the executable acceptance predicates are sound and complete -/

/-- `validMerge` accepts only streams that are the concatenation of proper lines forming a merge of `per`
    (nothing torn, merged, lost, duplicated, invented; per-goroutine order kept) -/
theorem validMerge_sound (per : List (List Bytes)) (sink : Bytes) (h : validMerge per sink = true) :
    ∃ ls : List Bytes, sink = ls.flatten ∧ (∀ l ∈ ls, Proper l) ∧ IsMergeOf (fun t => per.getD t []) ls := by
  simp only [validMerge] at h
  cases hc : cut sink with
  | none => simp [hc] at h
  | some ls =>
    simp only [hc] at h
    obtain ⟨h1, h2⟩ := cut_sound sink ls hc
    exact ⟨ls, h1, h2, isMerge_sound ls per h⟩

/-- `validMerge` accepts every concatenation of a merge of proper lines -/
theorem validMerge_complete (per : List (List Bytes)) (ls : List Bytes) (hp : ∀ l ∈ ls, Proper l)
    (hm : IsMergeOf (fun t => per.getD t []) ls) : validMerge per ls.flatten = true := by
  obtain ⟨hist, hmap, hproj⟩ := hm
  simp only [validMerge, cut_flatten ls hp]
  rw [← hmap]
  exact isMerge_complete hist per hproj

/-- `validCalls` accepts only call sequences whose concatenation is a merge of proper lines and whose every call is a
    concatenation of proper lines (no line split across two sink writes) -/
theorem validCalls_sound (per : List (List Bytes)) (calls : List Bytes) (h : validCalls per calls = true) :
    (∃ ls : List Bytes, calls.flatten = ls.flatten ∧ (∀ l ∈ ls, Proper l) ∧ IsMergeOf (fun t => per.getD t []) ls) ∧
    ∀ c ∈ calls, ∃ g : List Bytes, c = g.flatten ∧ ∀ l ∈ g, Proper l := by
  simp only [validCalls, Bool.and_eq_true, List.all_eq_true] at h
  refine ⟨validMerge_sound per _ h.1, fun c hc => ?_⟩
  have := h.2 c hc
  cases hcut : cut c with
  | none => simp [hcut] at this
  | some g => exact ⟨g, (cut_sound c g hcut).1, (cut_sound c g hcut).2⟩

theorem validCalls_complete (per : List (List Bytes)) (groups : List (List Bytes))
    (hp : ∀ g ∈ groups, ∀ l ∈ g, Proper l) (hm : IsMergeOf (fun t => per.getD t []) groups.flatten) :
    validCalls per (groups.map List.flatten) = true := by
  simp only [validCalls, Bool.and_eq_true, List.all_eq_true]
  refine ⟨?_, ?_⟩
  · rw [map_flatten_flatten]
    exact validMerge_complete per _ (fun l hl => by
      obtain ⟨g, hg, hlg⟩ := List.mem_flatten.mp hl
      exact hp g hg l hlg) hm
  · intro c hc
    obtain ⟨g, hg, rfl⟩ := List.mem_map.mp hc
    simp [cut_flatten g (hp g hg)]

/-- `validLines` accepts only call sequences that are, call by call, proper lines forming a merge of `per` -/
theorem validLines_sound (per : List (List Bytes)) (calls : List Bytes) (h : validLines per calls = true) :
    (∀ c ∈ calls, Proper c) ∧ IsMergeOf (fun t => per.getD t []) calls := by
  simp only [validLines, Bool.and_eq_true, List.all_eq_true] at h
  have hpc : ∀ c ∈ calls, Proper c := by
    intro c hc
    have := h.2 c hc
    have hcut : cut c = some [c] := by simpa using this
    exact (cut_sound c [c] hcut).2 c (by simp)
  refine ⟨hpc, ?_⟩
  have hv := h.1
  simp only [validMerge, cut_flatten calls hpc] at hv
  exact isMerge_sound calls per hv

theorem validLines_complete (per : List (List Bytes)) (calls : List Bytes) (hp : ∀ c ∈ calls, Proper c)
    (hm : IsMergeOf (fun t => per.getD t []) calls) : validLines per calls = true := by
  simp only [validLines, Bool.and_eq_true, List.all_eq_true]
  exact ⟨validMerge_complete per calls hp hm, fun c hc => by simp [cut_single c (hp c hc)]⟩

/-! ## non-vacuity: a concrete finished run (tee of a Lock(sink) and a 5-byte BufferedWriteSyncer; a 4-byte line that
    does not fit behind two buffered lines; a ticker goroutine; one goroutine syncing) -/

example : Finished (reach exKind exJobs exSched) := ex_finished

example : (reach exKind exJobs exSched).calls 0 = [[97, 10], [120, 10], [98, 99, 100, 101, 102, 10], [103, 10]] := by
  decide
/-- two lines leave the buffer in one sink write; the 6-byte line does not fit the 5-byte buffer and is written
    directly, whole; the closing Sync drains the rest -/
example : (reach exKind exJobs exSched).calls 1 = [[97, 10, 120, 10], [98, 99, 100, 101, 102, 10], [103, 10]] ∧
    (reach exKind exJobs exSched).buf 1 = [] := by decide
example : validCalls [[[97, 10], [98, 99, 100, 101, 102, 10], [103, 10]], [[120, 10]]]
    ((reach exKind exJobs exSched).calls 1) = true := by decide
example : validLines [[[97, 10], [98, 99, 100, 101, 102, 10], [103, 10]], [[120, 10]]]
    ((reach exKind exJobs exSched).calls 0) = true := by decide
/-- a Lock(sink) must see one line per write: two lines in one write, or a line in two writes, are rejected by
    `validLines` (the first is fine for a buffered sink) -/
example : validLines [[[97, 10], [98, 10]]] [[97, 10, 98, 10]] = false ∧ validCalls [[[97, 10], [98, 10]]] [[97, 10, 98, 10]] = true ∧
    validLines [[[97, 10]]] [[97], [10]] = false := by decide
/-- a line torn over two sink writes is rejected by `validCalls` although the concatenation is fine -/
example : validCalls [[[97, 10]]] [[97], [10]] = false ∧ validMerge [[[97, 10]]] [97, 10] = true := by decide
/-- lost, duplicated, reordered, merged lines are rejected -/
example : validMerge [[[97, 10], [98, 10]]] [97, 10] = false ∧ validMerge [[[97, 10]]] [97, 10, 97, 10] = false ∧
    validMerge [[[97, 10], [98, 10]]] [98, 10, 97, 10] = false ∧ validMerge [[[97, 10], [98, 10]]] [97, 98, 10, 10] = false := by
  decide

/-! ## Gen tie: the code the machine mirrors -/

/-- `ioCore.Write`: encode into a pooled buffer; exactly ONE `c.out.Write(buf.Bytes())`; `buf.Free()` only after it;
    (`Sync` for levels above Error — a `sync b` in the goroutine's program). -/
def expectedIoCoreWrite : List String := [
  "0:buf, err := c.enc.EncodeEntry(ent, fields)",
  "0:if err != nil",
  "1:return err",
  "0:_, err = c.out.Write(buf.Bytes())",
  "0:buf.Free()",
  "0:if err != nil",
  "1:return err",
  "0:if ent.Level > ErrorLevel",
  "1:_ = c.Sync()",
  "0:return nil"]

/-- `lockedWriteSyncer.Write/Sync` = Lock; ws.X; Unlock -/
def expectedLockedWrite : List String := ["0:s.Lock()", "0:n, err := s.ws.Write(bs)", "0:s.Unlock()", "0:return n, err"]
def expectedLockedSync : List String := ["0:s.Lock()", "0:err := s.ws.Sync()", "0:s.Unlock()", "0:return err"]

/-- `BufferedWriteSyncer.Write`: Lock with deferred Unlock; flush first iff the line does not fit and something is
    buffered; then bufio's Write -/
def expectedBwsWrite : List String := [
  "0:s.mu.Lock()",
  "0:defer s.mu.Unlock()",
  "0:if !s.initialized",
  "1:s.initialize()",
  "0:if len(bs) > s.writer.Available() && s.writer.Buffered() > 0",
  "1:if err := s.writer.Flush(); err != nil",
  "2:return 0, err",
  "0:return s.writer.Write(bs)"]

def expectedBwsSync : List String := [
  "0:s.mu.Lock()",
  "0:defer s.mu.Unlock()",
  "0:var err error",
  "0:if s.initialized",
  "1:err = s.writer.Flush()",
  "0:return multierr.Append(err, s.WS.Sync())"]

/-- the flush tick is a `Sync()` -/
def expectedBwsFlushLoop : List String := [
  "0:defer close(s.done)", "0:for", "1:select", "2:case <-s.ticker.C", "3:_ = s.Sync()", "2:case <-s.stop", "3:return"]

/-- a tee visits every branch (`teeCall`), so does a checked entry -/
def expectedMultiCoreWrite : List String := [
  "0:var err error", "0:for i := range mc", "1:err = multierr.Append(err, mc[i].Write(ent, fields))", "0:return err"]
def expectedMultiCoreCheck : List String := ["0:for i := range mc", "1:ce = mc[i].Check(ent, ce)", "0:return ce"]
def expectedCheckedEntryLoop : List String := [
  "0:for i := range ce.cores", "1:err = multierr.Append(err, ce.cores[i].Write(ce.Entry, fields))"]

/-- a multi-syncer hands the same slice to every sink (so all sinks under one Lock see the same call sequence) -/
def expectedMultiWsWrite : List String := [
  "0:var writeErr error",
  "0:nWritten := 0",
  "0:for i, w := range ws",
  "1:n, err := w.Write(p)",
  "1:writeErr = multierr.Append(writeErr, err)",
  "1:if i == 0 || n < nWritten",
  "2:nWritten = n",
  "0:return nWritten, writeErr"]

/-- `CombineWriteSyncers` (and `Open` through it) wraps in `Lock` -/
def expectedCombine : List String := [
  "0:if len(writers) == 0", "1:return zapcore.AddSync(io.Discard)", "0:return zapcore.Lock(zapcore.NewMultiWriteSyncer(writers))"]
def expectedOpen : List String := [
  "0:writers, closeAll, err := open(paths)", "0:writer := CombineWriteSyncers(writers)", "0:return writer, closeAll, nil"]

/-- per-call buffer: `EncodeEntry` works on a clone whose buffer comes from the pool (`Get` resets it) and returns that
    buffer; `Free` puts it back -/
def expectedJsonClone : List String := [
  "0:clone := _jsonPool.Get()",
  "0:clone.EncoderConfig = enc.EncoderConfig",
  "0:clone.spaced = enc.spaced",
  "0:clone.openNamespaces = enc.openNamespaces",
  "0:clone.buf = bufferpool.Get()",
  "0:return clone"]
def expectedEncodeEntryFrame : List String := [
  "0:final := enc.clone()", "0:ret := final.buf", "0:putJSONEncoder(final)", "0:return ret, nil"]
def expectedPoolGet : List String := ["0:buf := p.p.Get()", "0:buf.Reset()", "0:buf.pool = p", "0:return buf"]
def expectedFree : List String := ["0:b.pool.put(b)"]

theorem io_facts_as_modelled :
    Gen.ioCoreWrite = expectedIoCoreWrite ∧ Gen.ioCoreSync = ["0:return c.out.Sync()"] ∧
    Gen.lockedWrite = expectedLockedWrite ∧ Gen.lockedSync = expectedLockedSync ∧
    Gen.bwsWrite = expectedBwsWrite ∧ Gen.bwsSync = expectedBwsSync ∧ Gen.bwsFlushLoop = expectedBwsFlushLoop ∧
    Gen.multiCoreWrite = expectedMultiCoreWrite ∧ Gen.multiCoreCheck = expectedMultiCoreCheck ∧
    Gen.checkedEntryWriteLoop = expectedCheckedEntryLoop ∧ Gen.multiWsWrite = expectedMultiWsWrite ∧
    Gen.combineWriteSyncers = expectedCombine ∧ Gen.zapOpen = expectedOpen ∧
    Gen.jsonClone = expectedJsonClone ∧ Gen.jsonEncodeEntryFrame = expectedEncodeEntryFrame ∧
    Gen.bufPoolGet = expectedPoolGet ∧ Gen.bufFree = expectedFree := by
  refine ⟨?_, ?_, ?_, ?_, ?_, ?_, ?_, ?_, ?_, ?_, ?_, ?_, ?_, ?_, ?_, ?_, ?_⟩ <;> decide

end ZapVerif.C04
