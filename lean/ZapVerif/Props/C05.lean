import ZapVerif.Model.Core
import ZapVerif.Proofs.Core
import ZapVerif.Gen.FrontEnds
import ZapVerif.Proofs.CoreSync
import ZapVerif.Proofs.TransCores
import ZapVerif.Model.TransCEAddX
import ZapVerif.Proofs.TransLogger
import ZapVerif.Proofs.TransCtor
import ZapVerif.Proofs.TransLevel
/-! # C05 — an entry is written exactly where its level is enabled; reported levels agree

All theorems are about the core algebra of `Model/Core.lean` (arbitrary trees, arbitrary — also non-monotone —
enablers, every integer level). The model is tied to /repo by the correspondence run (C05 ops) and, for the
front-end guards, by the regenerated table `Gen.frontEnds`. -/
namespace ZapVerif.C05
open ZapVerif ZapVerif.Cores

/-- framing: a `Check` only appends to the CheckedEntry, and what it appends does not depend on what earlier
    cores (e.g. earlier branches of a tee) put there -/
theorem check_frame (σ : Store) (sn : Snap) (l : Level) (c : Core) (pend : List FldP) (ce : List Item) :
    check σ sn l c pend ce = ce ++ check σ sn l c pend [] :=
  Cores.check_frame σ sn l c pend ce

/-- the delivered leaves are exactly the leaves all of whose path filters (own enabler, every increase-level
    enabler, every sampler decision) are open — in tree order, once per path -/
theorem delivered_eq_open_paths (σ : Store) (sn : Snap) (l : Level) (c : Core) (pend : List FldP) :
    leafIds (check σ sn l c pend []) = ((paths c).filter (open_ σ l)).map (·.1) :=
  leafIds_check σ sn l c pend

theorem mem_leafIds (i : Nat) : ∀ (xs : List Item), i ∈ leafIds xs ↔ ∃ io ctx, Item.leaf i io ctx ∈ xs
  | [] => by simp [leafIds]
  | .leaf j io ctx :: r => by
      simp only [leafIds, List.mem_cons, mem_leafIds i r]
      constructor
      · rintro (rfl | ⟨io', ctx', h⟩)
        · exact ⟨io, ctx, Or.inl rfl⟩
        · exact ⟨io', ctx', Or.inr h⟩
      · rintro ⟨io', ctx', h | h⟩
        · left; injection h
        · right; exact ⟨io', ctx', h⟩
  | .hook h :: r => by
      simp only [leafIds, mem_leafIds i r, List.mem_cons]
      constructor
      · rintro ⟨io, ctx, h⟩; exact ⟨io, ctx, Or.inr h⟩
      · rintro ⟨io, ctx, h | h⟩
        · cases h
        · exact ⟨io, ctx, h⟩

/-- an entry reaches leaf `i` iff some path to `i` has every level filter enabling the entry's level
    (samplers: and sampled) -/
theorem leaf_delivery_iff (σ : Store) (sn : Snap) (l : Level) (c : Core) (pend : List FldP) (i : Nat) :
    (∃ io ctx, Item.leaf i io ctx ∈ check σ sn l c pend []) ↔
      ∃ p ∈ paths c, p.1 = i ∧ ∀ f ∈ p.2, f.ok σ l = true := by
  rw [← mem_leafIds, delivered_eq_open_paths]
  simp only [List.mem_map, List.mem_filter, open_, List.all_eq_true]
  constructor
  · rintro ⟨p, ⟨hp, ho⟩, rfl⟩; exact ⟨p, hp, rfl, ho⟩
  · rintro ⟨p, hp, rfl, ho⟩; exact ⟨p, ⟨hp, ho⟩, rfl⟩

/-- a tee delivers to each branch independently of the others -/
theorem tee_independent (σ : Store) (sn : Snap) (l : Level) (c : Core) (cs : List Core) (pend : List FldP) :
    check σ sn l (.tee (c :: cs)) pend [] = check σ sn l c pend [] ++ check σ sn l (.tee cs) pend [] := by
  simp only [check]; exact checkAll_cons σ sn l c cs pend

/-- an increase-level wrapper only ever narrows -/
theorem incr_narrows (σ : Store) (sn : Snap) (l : Level) (c : Core) (en : Enab) (pend : List FldP) (x : Item) :
    x ∈ check σ sn l (.incr c en) pend [] → x ∈ check σ sn l c pend [] := by
  simp only [check]; split <;> simp

/-- a hook is added exactly once, directly after what its wrapped core added, iff that core added anything —
    whatever the CheckedEntry already held -/
theorem hook_fires_iff (σ : Store) (sn : Snap) (l : Level) (c : Core) (h : Nat) (pend : List FldP) (ce : List Item) :
    check σ sn l (.hooked c h) pend ce =
      ce ++ check σ sn l c pend [] ++ (if check σ sn l c pend [] = [] then [] else [.hook h]) := by
  simp only [check]
  rw [Cores.check_frame σ sn l c pend ce]
  cases hc : check σ sn l c pend [] with
  | nil => simp
  | cons a r => simp

/-- F4 witness: with today's `hooked.Check` rule, `Tee(A, Hooks(B))` with A accepting and B declining fires B's hook -/
theorem hook_bug :
    let σ : Store := fun _ => 0
    let sn : Snap := fun _ => none
    let ce := check σ sn 0 (.leaf 1 (.fn fun _ => true) false []) [] []
    let d := check σ sn 0 (.leaf 2 (.fn fun _ => false) false []) [] ce
    check σ sn 0 (.leaf 2 (.fn fun _ => false) false []) [] [] = [] ∧ Item.hook 7 ∈ hookedOld d ce 7 := by
  decide

/-- anything delivered ⇒ `Enabled` said yes -/
theorem enabled_sound (σ : Store) (sn : Snap) (l : Level) (c : Core) (pend : List FldP) :
    check σ sn l c pend [] ≠ [] → enabled σ c l = true := by
  intro h
  cases he : enabled σ c l with
  | true => rfl
  | false => exact absurd (check_disabled σ sn l c pend [] he) h

/-- full-strength converse (does NOT hold, see `enabled_complete_fails`): on a tree whose IncreaseLevel wrappers
    passed construction-time validation and whose samplers do not drop, `Enabled(l)` implies a delivery -/
def EnabledComplete : Prop :=
  ∀ (σ : Store) (sn : Snap) (l : Level) (c : Core) (pend : List FldP),
    wellBuilt σ c = true → noDrop l c = true → enabled σ c l = true → check σ sn l c pend [] ≠ []

/-- … it holds for the valid levels (−1 … 5), while the store is the one the wrappers were validated under -/
theorem enabled_complete_partial (σ : Store) (sn : Snap) (l : Level) (hl : l ∈ validLevels) (c : Core) (pend : List FldP) :
    wellBuilt σ c = true → noDrop l c = true → enabled σ c l = true → check σ sn l c pend [] ≠ [] :=
  enabled_delivers σ sn l hl c pend

/-- F6 witness: IncreaseLevel over a range-limited enabler; level 7 is `Enabled` but reaches nothing -/
theorem enabled_complete_fails : ¬ EnabledComplete := by
  intro h
  have := h (fun _ => 0) (fun _ => none) 7
    (.incr (.leaf 1 (.fn fun l => decide (-1 ≤ l) && decide (l ≤ 5)) false []) (.fn fun l => decide (0 ≤ l))) []
    (by decide) (by decide) (by decide)
  exact this (by decide)

/-- F6b witness: the validation is done once; raising a shared AtomicLevel afterwards leaves a valid level
    `Enabled` on the wrapper with nothing delivered -/
theorem enabled_complete_stale_fails :
    ∃ (σ₀ σ₁ : Store) (c : Core), wellBuilt σ₀ c = true ∧ noDrop 1 c = true ∧ enabled σ₁ c 1 = true ∧
      check σ₁ (fun _ => none) 1 c [] [] = [] :=
  ⟨fun _ => 0, fun _ => 2, .incr (.leaf 1 (.atomic 0) false []) (.fn fun l => decide (1 ≤ l)),
    by decide, by decide, by decide, by decide⟩

/-- a disabled entry below DPanic: no CheckedEntry, no event (no marshaling, no sampler or entry hook, no sink
    operation), no lazy core initialised -/
theorem disabled_no_effects (σ : Store) (μ : Val) (lg : Logger) (l : Level) (fs : List Fld) (w : W)
    (hd : enabled σ lg.core l = false) (hl : l < dpanicL) :
    lg.check σ μ l w = (none, w) ∧ lg.log σ μ l fs w = w := by
  have hg : (decide (l < dpanicL) && !enabled σ lg.core l) = true := by simp [hd, hl]
  constructor
  · simp [Logger.check, hg]
  · rw [log_eq_checked]; simp [hg]

/-- a disabled entry from DPanic upwards: the world changes by the terminal action only -/
theorem disabled_terminal_only (σ : Store) (μ : Val) (lg : Logger) (l : Level) (fs : List Fld) (w : W)
    (hd : enabled σ lg.core l = false) (hl : dpanicL ≤ l) :
    lg.log σ μ l fs w = w.emit (termEvs (lg.terminal l)) := by
  have hg : (decide (l < dpanicL) && !enabled σ lg.core l) = false := by
    have : ¬ l < dpanicL := by unfold dpanicL at *; lomega
    simp [this]
  rw [log_eq_checked]
  simp only [hg, Bool.false_eq_true, if_false, Logger.checked]
  rw [checkEv_disabled σ μ l lg.core w hd, check_disabled σ w.snap l lg.core [] [] hd]
  simp [CE.write]

/-- the reported level denotes the least valid enabled level; `InvalidLevel` when no valid level is enabled -/
theorem levelOf_min (σ : Store) (c : Core) : clampValid (levelOf σ c) = leastValid (enabled σ c) :=
  levelOf_clamp σ c

/-- … which is the first hit of the scan −1, 0, …, 5: enabled there, nothing valid below it is -/
theorem levelOf_min_spec (σ : Store) (c : Core) :
    (clampValid (levelOf σ c) = invalidL ∧ ∀ x ∈ validLevels, enabled σ c x = false) ∨
    (clampValid (levelOf σ c) ∈ validLevels ∧ enabled σ c (clampValid (levelOf σ c)) = true ∧
      ∀ x ∈ validLevels, x < clampValid (levelOf σ c) → enabled σ c x = false) := by
  rw [levelOf_min]; exact leastValid_spec _

/-- nothing enabled at all ⇒ exactly `InvalidLevel` -/
theorem levelOf_invalid_of_none (σ : Store) (c : Core) (h : ∀ l, enabled σ c l = false) : levelOf σ c = invalidL :=
  levelOf_none σ c h

/-- F5 witness: the un-repaired `multiCore.Level` reports Fatal for a tee of cores that enable nothing -/
theorem tee_level_old_bug : levelOfAllOld (fun _ => 0) [.nop, .nop] = fatalL ∧ levelOfAll (fun _ => 0) [.nop, .nop] = invalidL := by
  decide

def applySets (σ : Store) : List (Nat × Level) → Store
  | [] => σ
  | (i, t) :: r => applySets (fun j => if j = i then t else σ j) r

/-- a change to a shared AtomicLevel is honoured on the next call by every logger derived (by any chain of With)
    from the core: after any sequence of SetLevel the delivery is the path product under the store as it is now -/
theorem atomic_level_next_call (σ : Store) (sets : List (Nat × Level)) (sn sn' : Snap) (c : Core)
    (fss : List (List FldP)) (l : Level) (pend : List FldP) :
    leafIds (check (applySets σ sets) sn' l (fss.foldl (pushF sn) c) pend []) =
      ((paths c).filter (open_ (applySets σ sets) l)).map (·.1) := by
  rw [delivered_eq_open_paths]
  congr 2
  induction fss generalizing c with
  | nil => rfl
  | cons fs r ih => simp only [List.foldl_cons]; rw [ih, paths_pushF]

/-- deriving with `With` never changes what is enabled or reported -/
theorem with_preserves_enabled (σ : Store) (sn : Snap) (l : Level) (c : Core) (fs : List FldP) :
    enabled σ (pushF sn c fs) l = enabled σ c l :=
  enabled_pushF σ sn l c fs

/-- zapgrpc `V(v)` -/
def grpcV (σ : Store) (c : Core) (v : Int) : Bool :=
  enabled σ c ((Gen.grpcLevels.lookup v).getD 0)

/-- `V` agrees with delivery: true whenever an entry at the mapped level is delivered anywhere; and (valid level,
    validated wrappers, no sampler drop) false only if nothing is -/
theorem grpc_V_agrees (σ : Store) (sn : Snap) (c : Core) (v : Int) (pend : List FldP) :
    (check σ sn ((Gen.grpcLevels.lookup v).getD 0) c pend [] ≠ [] → grpcV σ c v = true) ∧
    (wellBuilt σ c = true → noDrop ((Gen.grpcLevels.lookup v).getD 0) c = true → grpcV σ c v = true →
      check σ sn ((Gen.grpcLevels.lookup v).getD 0) c pend [] ≠ []) := by
  have hv : (Gen.grpcLevels.lookup v).getD 0 ∈ validLevels := by
    have : ∀ x ∈ Gen.grpcLevels.map (·.2), x ∈ validLevels := by decide
    cases h : Gen.grpcLevels.lookup v with
    | none => decide
    | some y =>
      apply this
      simp only [Option.getD_some, List.mem_map]
      have := List.lookup_eq_some_iff.mp h   -- ∃ split of the table around the hit
      obtain ⟨l₁, l₂, heq, _⟩ := this
      exact ⟨(v, y), by rw [heq]; simp, rfl⟩
  exact ⟨enabled_sound σ sn _ c pend, enabled_delivers σ sn _ hv c pend⟩

/-- `Logger.Level()` / `SugaredLogger.Level()` are `LevelOf(core)`: same statement as `levelOf_min` -/
theorem logger_Level_agrees (σ : Store) (lg : Logger) : clampValid (levelOf σ lg.core) = leastValid (enabled σ lg.core) :=
  levelOf_min σ lg.core

/-- every front end of the current source (Logger, SugaredLogger, std-log bridge, gRPC adapter) filters like
    `Logger.check` wherever a delivery is at stake: none drops an enabled entry, none lets a disabled entry below
    DPanic through. (Decided on the regenerated table on every run; what happens to a *disabled* entry from DPanic
    upwards is C06's `guards_pass_at_terminal`.) -/
theorem frontends_sound : Gen.frontEnds.all FrontEnd.sound = true := by decide

/-- hence, for an enabled entry or one below DPanic, a call through any front end has exactly the effects of `Logger.log` -/
theorem frontend_eq_log (fe : FrontEnd) (hfe : fe ∈ Gen.frontEnds) (σ : Store) (μ : Val) (lg : Logger) (l : Level)
    (ha : fe.takes l = true) (h : l < dpanicL ∨ enabled σ lg.core l = true) (fs : List Fld) (w : W) :
    fe.run σ μ lg l fs w = lg.log σ μ l fs w := by
  have hx : fe.sound = true := List.all_eq_true.mp frontends_sound fe hfe
  rw [log_eq_checked]
  unfold FrontEnd.run FrontEnd.passes
  rw [guards_of_sound fe hx l ha _ h]
  cases decide (l < dpanicL) && !enabled σ lg.core l <;> simp

/-- … and a disabled entry from DPanic upwards reaches no core through any front end: whatever the guards say,
    the only possible event is the terminal action -/
theorem frontend_disabled_no_delivery (fe : FrontEnd) (σ : Store) (μ : Val) (lg : Logger) (l : Level)
    (fs : List Fld) (w : W) (hd : enabled σ lg.core l = false) :
    fe.run σ μ lg l fs w = w ∨
    fe.run σ μ lg l fs w = w.emit (termEvs (lg.terminal l)) := by
  unfold FrontEnd.run
  split
  · right
    simp only [Logger.checked]
    rw [checkEv_disabled σ μ l lg.core w hd, check_disabled σ w.snap l lg.core [] [] hd]
    simp [CE.write]
  · left; rfl

/-- non-vacuity: a three-level tree where the same leaf id is reached only through the open branch -/
example :
    leafIds (check (fun _ => 1) (fun _ => none) 1
      (.tee [.incr (.leaf 1 (.fn fun _ => true) true []) (.fn fun l => decide (2 ≤ l)),
             .hooked (.sampler (.leaf 2 (.atomic 0) false []) 0 true) 9]) [] []) = [2] := by decide

/-! ### Sync -/

/-- `Logger.Sync` / `Core.Sync` reaches the sink of EVERY io leaf, exactly once each and in tree order, through every wrapper
    (tee to all branches, level filters, hooks, samplers, lazy cores — which it initialises first), whatever the levels,
    sampling decisions or the state of the lazy cells -/
theorem sync_reaches_every_io_leaf (μ : Val) (c : Core) (w : W) :
    syncIds (syncEv μ c w).evs = syncIds w.evs ++ ioLeaves c := syncEv_syncIds μ c w

example : syncIds (syncEv (fun _ => 0) (.tee [.lazy 0 (.leaf 1 (.atomic 0) true []) [], .nop, .hooked (.leaf 2 (.atomic 0) true []) 7]) {}).evs = [1, 2] := by
  decide

end ZapVerif.C05

/-! ## `Check` / `Enabled` of the cores ARE the source (tables `Gen/TransCores.lean`, `Gen/TransCEAdd.lean`)

The clauses of `Cores.check` and `Cores.enabled` (Model/Core.lean) are the translated Go functions.  A `*CheckedEntry`
is nil (`none`) or its list of cores; `P.en` is the receiver's level enabler, `P.cen c` / `P.chk c` are a sub-core's
`Enabled` / `Check`:
* `AddCore` appends to the cores (a nil entry becomes a fresh one) — the `ce ++ [item]` of every clause;
* `ioCore.Check`: `if en l then ce ++ [self] else ce` (clause `leaf`);
* `multiCore.Check`: the left fold of the sub-cores' `Check` (clause `tee` / `checkAll`); `multiCore.Enabled`: `any`;
* `hooked.Check`: `let d := check c ce; if d.length > ce.length then d ++ [self] else d` (clause `hooked`, the repaired
  rule), for sub-cores that only ever extend the entry;
* `levelFilterCore.Enabled` = the new enabler; `levelFilterCore.Check`: `if en l then check c ce else ce` (clause `incr`). -/
namespace ZapVerif.C05
set_option linter.unusedSimpArgs false
open ZapVerif ZapVerif.GoMini ZapVerif.TransCores

/-- `(*CheckedEntry).AddCore(ent, core)`: a nil receiver is replaced by a fresh entry for `ent`; the core is appended -/
theorem AddCore_matches_source (isnil dirty : Bool) (eo after cores : List Val) (entry self ent core : Val) (fuel : Nat) :
    run TransCEAdd.X (fuel + 1) "AddCore" [ent, core] (TransCEAdd.ceFld isnil dirty eo after cores entry self) =
      .done [self] (if isnil then TransCEAdd.ceFld false false [] [] [core] ent self
                    else TransCEAdd.ceFld false dirty eo after (cores ++ [core]) entry self) := by
  refine run_of_fin TransCEAdd.X _ _ Gen.TransCEAdd.AddCore [ent, core] _ _ _ rfl rfl ?_
  show (exec TransCEAdd.X (fuel + 1) Gen.TransCEAdd.AddCore_body ⟨[("p0", ent), ("p1", core)], _⟩).fin = _
  rw [exec_succ]
  cases isnil <;> simp [Gen.TransCEAdd.AddCore_body, TransCEAdd.X]

open ZapVerif.Gen.TransCores

/-- `(*ioCore).Check(ent, ce)` -/
theorem ioCore_Check_matches_source (P : Par) (l : Int) (ce : Option (List Val)) (enc out self : Val) (ev : List Val)
    (fuel : Nat) :
    run (X P) (fuel + 1) "ioCore_Check" [entV l, ceV ce] (ioFld enc out self ev) =
      .done [ceV (if P.en l then addCore ce self else ce)] (ioFld enc out self ev) := by
  refine run_of_fin (X P) _ _ Gen.TransCores.ioCore_Check [entV l, ceV ce] _ _ _ rfl rfl ?_
  show (exec (X P) (fuel + 1) ioCore_Check_body ⟨[("p0", entV l), ("p1", ceV ce)], _⟩).fin = _
  rw [exec_succ]
  cases h : P.en l <;> simp [ioCore_Check_body, entV, indexVal, h]

/-- `(*levelFilterCore).Enabled(lvl)` is the new enabler alone -/
theorem levelFilterCore_Enabled_matches_source (P : Par) (l : Int) (core level self : Val) (ev : List Val) (fuel : Nat) :
    run (X P) (fuel + 1) "levelFilterCore_Enabled" [.int l] (lfFld core level self ev) =
      .done [.bool (P.en l)] (lfFld core level self ev) := by
  refine run_of_fin (X P) _ _ Gen.TransCores.levelFilterCore_Enabled [.int l] _ _ _ rfl rfl ?_
  show (exec (X P) (fuel + 1) levelFilterCore_Enabled_body ⟨[("p0", .int l)], _⟩).fin = _
  rw [exec_succ]
  simp [levelFilterCore_Enabled_body]

/-- `(*levelFilterCore).Check(ent, ce)`: the wrapped core is consulted only when the new enabler enables the level -/
theorem levelFilterCore_Check_matches_source (P : Par) (l : Int) (ce : Option (List Val)) (core level self : Val)
    (ev : List Val) (fuel : Nat) :
    run (X P) (fuel + 2) "levelFilterCore_Check" [entV l, ceV ce] (lfFld core level self ev) =
      .done [ceV (if P.en l then P.chk core (entV l) ce else ce)] (lfFld core level self ev) := by
  refine run_of_fin (X P) _ _ Gen.TransCores.levelFilterCore_Check [entV l, ceV ce] _ _ _ rfl rfl ?_
  show (exec (X P) (fuel + 2) levelFilterCore_Check_body ⟨[("p0", entV l), ("p1", ceV ce)], _⟩).fin = _
  rw [exec_succ]
  have hen : ∀ σ : State, retK σ [.loc "l0"] "levelFilterCore_Enabled"
      (exec (X P) (fuel + 1) levelFilterCore_Enabled_body ⟨[("p0", .int l)], lfFld core level self ev⟩) =
      .normal (({ σ with fld := lfFld core level self ev } : State).assign1 (.loc "l0") (.bool (P.en l))) := by
    intro σ
    refine retK_of_fin1 σ _ _ _ _ _ ?_
    rw [exec_succ]; simp [levelFilterCore_Enabled_body]
  cases h : P.en l <;> simp [levelFilterCore_Check_body, entV, indexVal, hen, h]

/-- number of cores of a (possibly nil) entry -/
def lenCE (ce : Option (List Val)) : Nat := (ce.getD []).length

/-- `(*hooked).Check(ent, ce)`: the wrapped core decides; the hooked core adds itself iff the core COUNT grew -/
theorem hooked_Check_matches_source (P : Par) (l : Int) (ce : Option (List Val)) (core : Val) (funcs : List Val)
    (self : Val) (ev : List Val) (fuel : Nat) :
    run (X P) (fuel + 1) "hooked_Check" [entV l, ceV ce] (hkFld core funcs self ev) =
      .done [ceV (match P.chk core (entV l) ce with
                  | none => ce
                  | some ds => if ds.length > lenCE ce then some (ds ++ [self]) else some ds)]
        (hkFld core funcs self ev) := by
  refine run_of_fin (X P) _ _ Gen.TransCores.hooked_Check [entV l, ceV ce] _ _ _ rfl rfl ?_
  show (exec (X P) (fuel + 1) hooked_Check_body ⟨[("p0", entV l), ("p1", ceV ce)], _⟩).fin = _
  rw [exec_succ]
  have hpos : ∀ k : Nat, ¬ ((k : Int) + 1 = 0) := by intro k; omega
  cases ce with
  | none =>
    cases hd : P.chk core (entV l) none with
    | none => simp [hooked_Check_body, hd, lenCE]
    | some ds =>
      by_cases hg : ds.length > 0
      · have hg' : (0 : Int) < ds.length := by omega
        simp [hooked_Check_body, hd, lenCE, hg, hg', addCore]
      · have hg' : ¬ (0 : Int) < ds.length := by omega
        simp [hooked_Check_body, hd, lenCE, hg, hg']
  | some cs =>
    cases hd : P.chk core (entV l) (some cs) with
    | none => simp [hooked_Check_body, hd, lenCE]
    | some ds =>
      by_cases hg : ds.length > cs.length
      · have hg' : (cs.length : Int) < ds.length := by omega
        simp [hooked_Check_body, hd, lenCE, hg, hg', addCore]
      · have hg' : ¬ (cs.length : Int) < ds.length := by omega
        simp [hooked_Check_body, hd, lenCE, hg, hg']

/-- … which is the `hooked` clause of `Cores.check` on the core lists (nil ≙ []), for a wrapped core that only
    ever extends the entry it is given (every clause of `Cores.check` does: `check_extends`-style facts of
    Proofs/Core.lean) -/
theorem hooked_Check_is_model_clause (d ce : Option (List Val)) (self : Val)
    (hext : d = none → ce.getD [] = []) :
    ((match d with
      | none => ce
      | some ds => if ds.length > lenCE ce then some (ds ++ [self]) else some ds).getD []) =
      (if (d.getD []).length > (ce.getD []).length then d.getD [] ++ [self] else d.getD []) := by
  cases d with
  | none => simp [hext rfl]
  | some ds =>
    by_cases h : ds.length > lenCE ce
    · have h' : (ce.getD []).length < ds.length := h
      simp [h, h']
    · have h' : ¬ (ce.getD []).length < ds.length := h
      simp [h, h']

/-- state of `multiCore.Check` at the loop head: the entry so far, and the index variable once bound -/
def mccAbs (mc : List Val) (ent : Val) (ev : List Val) (a : Option (List Val) × Option Int) : State :=
  ⟨[("p0", ent), ("p1", ceV a.1)] ++ (match a.2 with | none => [] | some i => [("l0", .int i)]), mcFld mc ev⟩

/-- the loop of `multiCore.Check`: the sub-cores' `Check` folded over the entry, left to right -/
theorem multiCore_Check_loop_matches_source (P : Par) (mc : List Val) (ent : Val) (ce : Option (List Val)) (ev : List Val)
    (rec : Stmt → State → GoMini.Out) :
    ∃ t, execS (X P) rec multiCore_Check_loop0 (mccAbs mc ent ev (ce, none)) =
      .normal (mccAbs mc ent ev (mc.foldl (fun acc c => P.chk c ent acc) ce, t)) := by
  have hiter : ∀ (a : Option (List Val) × Option Int) (i : Nat) (c : Val), mc[i]? = some c →
      (match multiCore_Check_loop0 with
        | .range k v _ body => execS (X P) rec body (((mccAbs mc ent ev a).assign1 k (.int i)).assign1 v (id c))
        | _ => .oof) = .normal (mccAbs mc ent ev (P.chk c ent a.1, some (i : Int))) := by
    intro ⟨acc, t⟩ i c hc
    have hidx := indexVal_list_map id mc i c hc
    simp only [List.map_id, id] at hidx
    cases t <;> simp [multiCore_Check_loop0, mccAbs, hidx]
  unfold multiCore_Check_loop0 at hiter ⊢
  rw [execS_range]
  have hfold := rangeRun_fold_at (execS (X P) rec _) _ _ (mccAbs mc ent ev) id
    (fun a i c => (P.chk c ent a.1, some (i : Int))) mc hiter mc 0 (ce, none) (by simp)
  simp only [List.map_id] at hfold
  refine ⟨((mc.zipIdx).foldl (fun (a : Option (List Val) × Option Int) q => (P.chk q.1 ent a.1, some (q.2 : Int))) (ce, none)).2, ?_⟩
  have hcs : evalE (X P) (mccAbs mc ent ev (ce, none)) (.fld "mc") = .ok (.list mc) := by simp [mccAbs]
  rw [hcs]
  simp only [Res.out_ok]
  refine Eq.trans hfold ?_
  congr 2
  refine Prod.ext ?_ rfl
  have key : ∀ (l : List Val) (k : Nat) (a : Option (List Val) × Option Int),
      ((l.zipIdx k).foldl (fun (a : Option (List Val) × Option Int) q => (P.chk q.1 ent a.1, some (q.2 : Int))) a).1 =
        l.foldl (fun acc c => P.chk c ent acc) a.1 := by
    intro l
    induction l with
    | nil => intro k a; rfl
    | cons c r ih => intro k a; simp only [List.zipIdx_cons, List.foldl_cons]; exact ih _ _
  exact key mc 0 (ce, none)

/-- `multiCore.Check(ent, ce)` ≡ the `tee` clause (`checkAll`): every sub-core is consulted, in order, each on the
    entry the previous ones returned -/
theorem multiCore_Check_matches_source (P : Par) (mc : List Val) (l : Int) (ce : Option (List Val)) (ev : List Val)
    (fuel : Nat) :
    run (X P) (fuel + 1) "multiCore_Check" [entV l, ceV ce] (mcFld mc ev) =
      .done [ceV (mc.foldl (fun acc c => P.chk c (entV l) acc) ce)] (mcFld mc ev) := by
  refine run_of_fin (X P) _ _ Gen.TransCores.multiCore_Check [entV l, ceV ce] _ _ _ rfl rfl ?_
  show (exec (X P) (fuel + 1) multiCore_Check_body ⟨[("p0", entV l), ("p1", ceV ce)], _⟩).fin = _
  rw [exec_succ]
  obtain ⟨t, hl⟩ := multiCore_Check_loop_matches_source P mc (entV l) ce ev (exec (X P) fuel)
  simp only [mccAbs, List.append_nil] at hl
  cases t <;> simp [multiCore_Check_body, hl]

/-- state of `multiCore.Enabled` in its loop -/
def mceAbs (mc : List Val) (l : Int) (ev : List Val) (t : Option Int) : State :=
  ⟨[("p0", .int l)] ++ (match t with | none => [] | some i => [("l0", .int i)]), mcFld mc ev⟩

/-- the loop of `multiCore.Enabled`: returns `true` at the first sub-core that enables the level -/
theorem multiCore_Enabled_loop_matches_source (P : Par) (mc : List Val) (l : Int) (ev : List Val)
    (rec : Stmt → State → GoMini.Out) :
    ∀ (ys : List Val) (i : Nat) (t : Option Int), mc.drop i = ys →
      ∃ t', rangeRun (execS (X P) rec multiCore_Enabled_loop0.rbody) (.loc "l0") .blank ys i (mceAbs mc l ev t) =
        if ys.any (fun c => P.cen c l) then .ret [.bool true] (mceAbs mc l ev t') else .normal (mceAbs mc l ev t')
  | [], _, t, _ => ⟨t, by simp [rangeRun]⟩
  | y :: ys, i, t, hd => by
    have hy : mc[i]? = some y := by
      have := congrArg (fun l => l[0]?) hd
      simpa using this
    have hd' : mc.drop (i + 1) = ys := by
      have := congrArg (List.drop 1) hd
      simpa [List.drop_drop, Nat.add_comm] using this
    have hidx := indexVal_list_map id mc i y hy
    simp only [List.map_id, id] at hidx
    obtain ⟨t', ih⟩ := multiCore_Enabled_loop_matches_source P mc l ev rec ys (i + 1) (some (i : Int)) hd'
    cases hc : P.cen y l
    · refine ⟨t', ?_⟩
      have hb : execS (X P) rec multiCore_Enabled_loop0.rbody
          (((mceAbs mc l ev t).assign1 (.loc "l0") (.int i)).assign1 .blank y) = .normal (mceAbs mc l ev (some (i : Int))) := by
        cases t <;> simp [multiCore_Enabled_loop0, Stmt.rbody, mceAbs, hidx, hc]
      simp only [rangeRun, hb, List.any_cons, hc, Bool.false_or]
      exact ih
    · refine ⟨some (i : Int), ?_⟩
      have hb : execS (X P) rec multiCore_Enabled_loop0.rbody
          (((mceAbs mc l ev t).assign1 (.loc "l0") (.int i)).assign1 .blank y) =
            .ret [.bool true] (mceAbs mc l ev (some (i : Int))) := by
        cases t <;> simp [multiCore_Enabled_loop0, Stmt.rbody, mceAbs, hidx, hc]
      simp only [rangeRun, hb, List.any_cons, hc, Bool.true_or, if_true]

/-- `multiCore.Enabled(lvl)` ≡ `enabledAny`: some sub-core enables the level -/
theorem multiCore_Enabled_matches_source (P : Par) (mc : List Val) (l : Int) (ev : List Val) (fuel : Nat) :
    run (X P) (fuel + 1) "multiCore_Enabled" [.int l] (mcFld mc ev) =
      .done [.bool (mc.any fun c => P.cen c l)] (mcFld mc ev) := by
  refine run_of_fin (X P) _ _ Gen.TransCores.multiCore_Enabled [.int l] _ _ _ rfl rfl ?_
  show (exec (X P) (fuel + 1) multiCore_Enabled_body ⟨[("p0", .int l)], _⟩).fin = _
  rw [exec_succ]
  obtain ⟨t', hl⟩ := multiCore_Enabled_loop_matches_source P mc l ev (exec (X P) fuel) mc 0 none (by simp)
  have hrange : execS (X P) (exec (X P) fuel) multiCore_Enabled_loop0 ⟨[("p0", .int l)], mcFld mc ev⟩ =
      if mc.any (fun c => P.cen c l) then .ret [.bool true] (mceAbs mc l ev t') else .normal (mceAbs mc l ev t') := by
    rw [show multiCore_Enabled_loop0 = .range (.loc "l0") .blank (.fld "mc") multiCore_Enabled_loop0.rbody from rfl, execS_range]
    simpa [mceAbs] using hl
  cases ha : mc.any (fun c => P.cen c l) <;> cases t' <;>
    simp [multiCore_Enabled_body, hrange, ha, mceAbs]

end ZapVerif.C05

/-! ## the level guards of `Logger.check` and `SugaredLogger.log/logln` ARE the source (table `Gen/TransLogger.lean`)

Below DPanic a level the core disables has no effect at all: `Logger.check` returns nil without consulting the clock or
the core's `Check` (the source-level content of `disabled_no_effects`); `SugaredLogger.log` / `logln` return before
formatting.  At DPanic and above the guard never fires (Panic/Fatal must terminate even when disabled). -/
namespace ZapVerif.C05
set_option linter.unusedSimpArgs false
open ZapVerif ZapVerif.GoMini ZapVerif.TransLogger ZapVerif.Gen.TransLogger

theorem Logger_check_guard_matches_source (P : TransLogger.Par) (l : Int) (hl : l < 3) (hc : P.cen core l = false)
    (msg name : Bytes) (clock : Val) (dev : Bool) (onPanic onFatal : List Val) (ev : List Val) (fuel : Nat) :
    run (TransLogger.X P) (fuel + 2) "Logger_check" [.int l, .bytes msg] (logFld core name clock dev onPanic onFatal ev) =
      .done [.list []] (logFld core name clock dev onPanic onFatal ev) := by
  refine run_of_fin (TransLogger.X P) _ _ Gen.TransLogger.Logger_check [.int l, .bytes msg] _ _ _ rfl rfl ?_
  show (exec (TransLogger.X P) (fuel + 2) Logger_check_body ⟨[("p0", .int l), ("p1", .bytes msg)], _⟩).fin = _
  rw [exec_succ]
  simp [Logger_check_body, hl, hc]

/-- what the guard of `SugaredLogger.log` / `logln` lets through: everything at DPanic and above, and below that the
    levels the base core enables; `Sugar.formatCheckWrite` stands for the rest of the function -/
def sugarSpec (P : TransLogger.Par) (l : Int) : List Val :=
  if l < 3 ∧ P.cen (.list []) l = false then [] else [Val.list [TransLogger.nm "Sugar.formatCheckWrite", .int l]]

theorem Sugar_log_guard_matches_source (P : TransLogger.Par) (l : Int) (tmpl args ctx : Val) (ev : List Val) (fuel : Nat) :
    run (TransLogger.X P) (fuel + 1) "Sugar_log" [.int l, tmpl, args, ctx] [("ev", .list ev)] =
      .done [] [("ev", .list (ev ++ sugarSpec P l))] := by
  refine run_of_fin (TransLogger.X P) _ _ Gen.TransLogger.Sugar_log [.int l, tmpl, args, ctx] _ _ _ rfl rfl ?_
  show (exec (TransLogger.X P) (fuel + 1) Sugar_log_body ⟨[("p0", .int l), ("p1", tmpl), ("p2", args), ("p3", ctx)], _⟩).fin = _
  rw [exec_succ]
  by_cases h3 : l < 3 <;> cases hc : P.cen (.list []) l <;> simp [Sugar_log_body, sugarSpec, h3, hc, nm_fcw]

theorem Sugar_logln_guard_matches_source (P : TransLogger.Par) (l : Int) (args ctx : Val) (ev : List Val) (fuel : Nat) :
    run (TransLogger.X P) (fuel + 1) "Sugar_logln" [.int l, args, ctx] [("ev", .list ev)] =
      .done [] [("ev", .list (ev ++ sugarSpec P l))] := by
  refine run_of_fin (TransLogger.X P) _ _ Gen.TransLogger.Sugar_logln [.int l, args, ctx] _ _ _ rfl rfl ?_
  show (exec (TransLogger.X P) (fuel + 1) Sugar_logln_body ⟨[("p0", .int l), ("p1", args), ("p2", ctx)], _⟩).fin = _
  rw [exec_succ]
  by_cases h3 : l < 3 <;> cases hc : P.cen (.list []) l <;> simp [Sugar_logln_body, sugarSpec, h3, hc, nm_fcw]

end ZapVerif.C05

/-! # the constructors of the core tree and `LevelOf` ARE the source (translator round 4, tables `Gen.TransCtor`, `Gen.TransLevel`)

zapcore/increase_level.go `NewIncreaseLevelCore`, `levelFilterCore.Level`; zapcore/tee.go `NewTee`, `multiCore.Level`;
zapcore/level.go `LevelOf`, translated mechanically, are interpreted with `Enabled` of a core / an enabler, the
`leveledEnabler` assertion and `Level()` as parameters.  They are the model functions the C05 theorems are stated over:
`incrBad_is_incrValid` (`Cores.incrValid` / `mkIncr`), `NewTee_is_mkTee` (`Cores.mkTee`), `multiCore_Level_is_levelOfAll`
(`Cores.levelOfAll`, the repaired one that starts from `InvalidLevel`), `levelOfSpec_is_leastValid` (`Cores.leastValid`). -/
set_option linter.unusedSimpArgs false
namespace ZapVerif.C05
open ZapVerif ZapVerif.GoMini ZapVerif.TransCtor ZapVerif.Gen.TransCtor

/-- the levels `NewIncreaseLevelCore` scans, in its order (Fatal first) -/
def scanLevels : List Int := [5, 4, 3, 2, 1, 0, -1]

/-- the first scanned level the new enabler allows but the core does not -/
def incrBad (P : Par) (core level : Val) : Option Int := scanLevels.find? fun l => !P.cen core l && P.en level l

def incrErr (l : Int) : Val :=
  errV "fmt.Errorf" [.bytes [105, 110, 118, 97, 108, 105, 100, 32, 105, 110, 99, 114, 101, 97, 115, 101, 32, 108, 101, 118, 101, 108, 44, 32, 97, 115, 32, 108, 101, 118, 101, 108, 32, 37, 113, 32, 105, 115, 32, 97, 108, 108, 111, 119, 101, 100, 32, 98, 121, 32, 105, 110, 99, 114, 101, 97, 115, 101, 100, 32, 108, 101, 118, 101, 108, 44, 32, 98, 117, 116, 32, 110, 111, 116, 32, 98, 121, 32, 101, 120, 105, 115, 116, 105, 110, 103, 32, 99, 111, 114, 101], .int l]

/-- one iteration of the validation scan -/
theorem NewIncreaseLevelCore_iter_matches_source (P : Par) (core level : Val) (l : Int) (h1 : -1 ≤ l) (h2 : l ≤ 5) (fl : Env) (fuel : Nat) :
    execS (X P) (exec (X P) (fuel + 1)) NewIncreaseLevelCore_loop0 ⟨[("p0", core), ("p1", level), ("l0", .int l)], fl⟩ =
      if (!P.cen core l && P.en level l) then .ret [.list [], incrErr l] ⟨[("p0", core), ("p1", level), ("l0", .int l)], fl⟩
      else execS (X P) (exec (X P) fuel) NewIncreaseLevelCore_loop0 ⟨[("p0", core), ("p1", level), ("l0", .int (l - 1))], fl⟩ := by
  have hw : wrap .i8 (l - 1) = l - 1 := by simp only [wrap]; omega
  unfold NewIncreaseLevelCore_loop0
  rw [execS_loop]
  cases hc : P.cen core l <;> cases he : P.en level l <;> simp [h1, hc, he, hw, exec_succ, incrErr]

theorem NewIncreaseLevelCore_end_matches_source (P : Par) (core level : Val) (fl : Env) (fuel : Nat) :
    execS (X P) (exec (X P) fuel) NewIncreaseLevelCore_loop0 ⟨[("p0", core), ("p1", level), ("l0", .int (-2))], fl⟩ =
      .normal ⟨[("p0", core), ("p1", level), ("l0", .int (-2))], fl⟩ := by
  unfold NewIncreaseLevelCore_loop0
  rw [execS_loop]
  simp

/-- `NewIncreaseLevelCore`: every level from Fatal down to Debug is asked of BOTH; the first one the new enabler allows
    and the core does not is refused with an error naming it and NO core; otherwise the filter over exactly
    (core, level) -/
theorem NewIncreaseLevelCore_matches_source (P : Par) (core level : Val) (fl : Env) (fuel : Nat) :
    run (X P) (fuel + 8) "NewIncreaseLevelCore" [core, level] fl =
      .done (match incrBad P core level with
        | some l => [.list [], incrErr l]
        | none => [.list [.list [core, level]], .list []]) fl := by
  apply run_of_fin (X P) _ _ Gen.TransCtor.NewIncreaseLevelCore [core, level] _ _ _ rfl rfl
  rw [exec_succ]
  have hloop : execS (X P) (exec (X P) (fuel + 7)) NewIncreaseLevelCore_loop0 ⟨[("p0", core), ("p1", level), ("l0", .int 5)], fl⟩ =
      match incrBad P core level with
      | some l => .ret [.list [], incrErr l] ⟨[("p0", core), ("p1", level), ("l0", .int l)], fl⟩
      | none => .normal ⟨[("p0", core), ("p1", level), ("l0", .int (-2))], fl⟩ := by
    rw [show fuel + 7 = (fuel + 6) + 1 from rfl, NewIncreaseLevelCore_iter_matches_source P core level 5 (by omega) (by omega),
      show fuel + 6 = (fuel + 5) + 1 from rfl, NewIncreaseLevelCore_iter_matches_source P core level (5 - 1) (by omega) (by omega),
      show fuel + 5 = (fuel + 4) + 1 from rfl, NewIncreaseLevelCore_iter_matches_source P core level (5 - 1 - 1) (by omega) (by omega),
      show fuel + 4 = (fuel + 3) + 1 from rfl, NewIncreaseLevelCore_iter_matches_source P core level (5 - 1 - 1 - 1) (by omega) (by omega),
      show fuel + 3 = (fuel + 2) + 1 from rfl, NewIncreaseLevelCore_iter_matches_source P core level (5 - 1 - 1 - 1 - 1) (by omega) (by omega),
      show fuel + 2 = (fuel + 1) + 1 from rfl, NewIncreaseLevelCore_iter_matches_source P core level (5 - 1 - 1 - 1 - 1 - 1) (by omega) (by omega),
      NewIncreaseLevelCore_iter_matches_source P core level (5 - 1 - 1 - 1 - 1 - 1 - 1) (by omega) (by omega),
      show (5 : Int) - 1 - 1 - 1 - 1 - 1 - 1 - 1 = -2 from rfl, NewIncreaseLevelCore_end_matches_source]
    simp only [incrBad, scanLevels, List.find?, show (5 : Int) - 1 = 4 from rfl, show (4 : Int) - 1 = 3 from rfl,
      show (3 : Int) - 1 = 2 from rfl, show (2 : Int) - 1 = 1 from rfl, show (1 : Int) - 1 = 0 from rfl, show (0 : Int) - 1 = -1 from rfl]
    generalize (!P.cen core 5 && P.en level 5) = b5
    generalize (!P.cen core 4 && P.en level 4) = b4
    generalize (!P.cen core 3 && P.en level 3) = b3
    generalize (!P.cen core 2 && P.en level 2) = b2
    generalize (!P.cen core 1 && P.en level 1) = b1
    generalize (!P.cen core 0 && P.en level 0) = b0
    generalize (!P.cen core (-1) && P.en level (-1)) = bm
    cases b5 <;> cases b4 <;> cases b3 <;> cases b2 <;> cases b1 <;> cases b0 <;> cases bm <;> rfl
  simp [NewIncreaseLevelCore_body, hloop]
  cases incrBad P core level <;> simp

/-- accepted exactly when every level the new enabler allows is allowed by the core — `Cores.incrValid`, the function of
    `mkIncr` the C05 theorems are stated over -/
theorem incrBad_is_incrValid (P : Par) (core level : Val) :
    (incrBad P core level).isNone = Cores.validLevels.all fun l => !(P.en level l) || P.cen core l := by
  rw [Bool.eq_iff_iff]
  simp only [Option.isNone_iff_eq_none, incrBad, List.find?_eq_none, List.all_eq_true]
  constructor
  · intro h l hl
    have := h l (by simp only [scanLevels, Cores.validLevels, List.mem_cons, List.not_mem_nil, or_false] at hl ⊢; rcases hl with rfl | rfl | rfl | rfl | rfl | rfl | rfl <;> simp)
    cases hc : P.cen core l <;> cases he : P.en level l <;> simp_all
  · intro h l hl
    have := h l (by simp only [scanLevels, Cores.validLevels, List.mem_cons, List.not_mem_nil, or_false] at hl ⊢; rcases hl with rfl | rfl | rfl | rfl | rfl | rfl | rfl <;> simp)
    cases hc : P.cen core l <;> cases he : P.en level l <;> simp_all


/-- `NewTee`: no core — the no-op core; ONE core — that core itself, unchanged; otherwise the tee of exactly the
    given cores in order (`Cores.mkTee`) -/
theorem NewTee_matches_source (P : Par) (cores : List Val) (fl : Env) (fuel : Nat) :
    run (X P) (fuel + 1) "NewTee" [.list cores] fl =
      .done [match cores with | [] => P.nop | [c] => c | cs => .list [.list cs]] fl := by
  apply run_of_fin (X P) _ _ Gen.TransCtor.NewTee [.list cores] _ _ _ rfl rfl
  rw [exec_succ]
  cases cores with
  | nil => simp [NewTee_body]
  | cons c r =>
    cases r with
    | nil => simp [NewTee_body]
    | cons d r' =>
      have h0 : ¬ ((r'.length : Int) + 1 + 1 = 0) := by omega
      have h1 : ¬ ((r'.length : Int) + 1 + 1 = 1) := by omega
      simp [NewTee_body, h0, h1]

/-- the translated `NewTee` on encoded cores is `Cores.mkTee` -/
theorem NewTee_is_mkTee (P : Par) (enc : Cores.Core → GoMini.Val) (hnop : enc .nop = P.nop)
    (htee : ∀ cs, enc (.tee cs) = .list [.list (cs.map enc)]) (cs : List Cores.Core) :
    (match cs.map enc with | [] => P.nop | [c] => c | vs => GoMini.Val.list [.list vs]) = enc (Cores.mkTee cs) := by
  cases cs with
  | nil => simp [Cores.mkTee, hnop]
  | cons c r =>
    cases r with
    | nil => simp [Cores.mkTee]
    | cons d r' => simp [Cores.mkTee, htee]

/-- `levelFilterCore.Level`: `LevelOf` of the FILTER's enabler (not of the wrapped core) -/
theorem levelFilterCore_Level_matches_source (P : Par) (core level : Val) (fl0 : Env) (fuel : Nat) :
    run (X P) (fuel + 1) "levelFilterCore_Level" [] (("core", core) :: ("level", level) :: fl0) =
      .done [.int (P.levelOf level)] (("core", core) :: ("level", level) :: fl0) := by
  apply run_of_fin (X P) _ _ Gen.TransCtor.levelFilterCore_Level [] _ _ _ rfl rfl
  rw [exec_succ]; simp [levelFilterCore_Level_body]

/-- `multiCore.Level`: the least `LevelOf` over the branches, starting from `InvalidLevel` (= 6): a tee that enables
    nothing reports `InvalidLevel` (`Cores.levelOfAll`, the repaired one) -/
theorem multiCore_Level_matches_source (P : Par) (mc : List Val) (fl0 : Env) (fuel : Nat) :
    run (X P) (fuel + 1) "multiCore_Level" [] (("mc", .list mc) :: fl0) =
      .done [.int (mc.foldl (fun m c => min m (P.levelOf c)) 6)] (("mc", .list mc) :: fl0) := by
  apply run_of_fin (X P) _ _ Gen.TransCtor.multiCore_Level [] _ _ _ rfl rfl
  rw [exec_succ]
  show (execS (X P) (exec (X P) fuel) multiCore_Level_body ⟨[], ("mc", .list mc) :: fl0⟩).fin = _
  have hloop : ∀ (ys : List Val) (i : Nat) (m : Int) (t : Option (Val × Val)), mc.drop i = ys →
      ∃ t' : Option (Val × Val), rangeRun (execS (X P) (exec (X P) fuel) multiCore_Level_loop0.rbody) (.loc "l1") .blank ys i
          ⟨[("l0", .int m)] ++ (match t with | some v => [("l1", v.1), ("l2", v.2)] | none => []), ("mc", .list mc) :: fl0⟩ =
        .normal ⟨[("l0", .int (ys.foldl (fun m c => min m (P.levelOf c)) m))] ++
          (match t' with | some v => [("l1", v.1), ("l2", v.2)] | none => []), ("mc", .list mc) :: fl0⟩ := by
    intro ys
    induction ys with
    | nil => intro i m t _; exact ⟨t, by cases t <;> simp [rangeRun]⟩
    | cons y r ih =>
      intro i m t hd
      have hi : i < mc.length := by
        rcases Nat.lt_or_ge i mc.length with h | h
        · exact h
        · rw [List.drop_of_length_le h] at hd; cases hd
      have hy : mc[i]? = some y := by
        have := congrArg (fun l => l[0]?) hd; simpa using this
      have hd' : mc.drop (i + 1) = r := by
        have := congrArg (List.drop 1) hd; simpa [List.drop_drop, Nat.add_comm] using this
      have hidx : indexVal (.list mc) (.int (i : Int)) = .ok y := by
        rw [indexVal_list _ i hi]
        simp [List.getElem?_eq_getElem hi] at hy
        simp [hy]
      obtain ⟨t', h⟩ := ih (i + 1) (min m (P.levelOf y)) (some (.int i, .int (P.levelOf y))) hd'
      refine ⟨t', ?_⟩
      by_cases hlt : P.levelOf y < m
      · have hm : min m (P.levelOf y) = P.levelOf y := by omega
        rw [hm] at h
        cases t <;>
          simpa [rangeRun, multiCore_Level_loop0, Stmt.rbody, State.assign1, Env.set, hidx, hlt, hm] using h
      · have hm : min m (P.levelOf y) = m := by omega
        rw [hm] at h
        cases t <;>
          simpa [rangeRun, multiCore_Level_loop0, Stmt.rbody, State.assign1, Env.set, hidx, hlt, hm] using h
  obtain ⟨t', h⟩ := hloop mc 0 6 none (by simp)
  have hL : multiCore_Level_loop0 = .range (.loc "l1") .blank (.fld "mc") multiCore_Level_loop0.rbody := rfl
  have hb : multiCore_Level_body = .seq multiCore_Level_body.hd (.seq multiCore_Level_loop0 (.ret [.loc "l0"])) := rfl
  have h0 : execS (X P) (exec (X P) fuel) multiCore_Level_body.hd ⟨[], ("mc", .list mc) :: fl0⟩ =
      .normal ⟨[("l0", .int 6)], ("mc", .list mc) :: fl0⟩ := by
    simp [multiCore_Level_body, Stmt.hd]
  rw [hb, execS_seq, h0, Out.andThen_normal, execS_seq, hL, execS_range]
  simp only [evalE_fld, Env.get, if_true, Res.out_ok]
  simp only [List.append_nil] at h
  rw [h]
  cases t' <;> simp

/-- … which is `Cores.levelOfAll` (min over the branches, `InvalidLevel` for none) when `LevelOf` of an encoded branch is
    the model's `levelOf` -/
theorem foldr_min_base (f : Cores.Core → Int) : ∀ (cs : List Cores.Core) (m a : Int),
    cs.foldr (fun c r => min (f c) r) (min m a) = min a (cs.foldr (fun c r => min (f c) r) m)
  | [], m, a => by simp [Int.min_comm]
  | c :: cs, m, a => by simp only [List.foldr_cons, foldr_min_base f cs m a]; omega

theorem foldl_min_foldr (f : Cores.Core → Int) : ∀ (cs : List Cores.Core) (m : Int),
    cs.foldl (fun m c => min m (f c)) m = cs.foldr (fun c r => min (f c) r) m
  | [], _ => rfl
  | c :: cs, m => by simp only [List.foldl_cons, List.foldr_cons, foldl_min_foldr f cs (min m (f c)), foldr_min_base f cs m (f c)]

theorem multiCore_Level_is_levelOfAll (σ : Cores.Store) (cs : List Cores.Core) :
    cs.foldl (fun m c => min m (Cores.levelOf σ c)) 6 = Cores.levelOfAll σ cs := by
  rw [foldl_min_foldr]
  induction cs with
  | nil => simp [Cores.levelOfAll, Cores.invalidL]
  | cons c r ih => simp [Cores.levelOfAll, ih]

end ZapVerif.C05

namespace ZapVerif.C05
open ZapVerif ZapVerif.GoMini ZapVerif.TransLevel ZapVerif.Gen.TransLevel

/-- `LevelOf`: an enabler that knows its level is asked; otherwise the first of Debug … Fatal it enables, else
    `InvalidLevel` (= 6) -/
def levelOfSpec (P : Par) (e : Val) : Int :=
  match P.asLeveled e with
  | some lv => P.leveledLevel lv
  | none =>
    if P.enabled e (-1) then -1 else if P.enabled e 0 then 0 else if P.enabled e 1 then 1 else if P.enabled e 2 then 2
    else if P.enabled e 3 then 3 else if P.enabled e 4 then 4 else if P.enabled e 5 then 5 else 6

/-- one iteration of the scan: return `l` if enabled, else go on with `l + 1` -/
theorem LevelOf_iter_matches_source (P : Par) (e v0 : Val) (l : Int) (h1 : -1 ≤ l) (h2 : l ≤ 5) (fl : Env) (fuel : Nat) :
    execS (X P) (exec (X P) (fuel + 1)) LevelOf_loop0 ⟨[("p0", e), ("l0", v0), ("l1", .bool false), ("l2", .int l)], fl⟩ =
      if P.enabled e l then .ret [.int l] ⟨[("p0", e), ("l0", v0), ("l1", .bool false), ("l2", .int l)], fl⟩
      else execS (X P) (exec (X P) fuel) LevelOf_loop0 ⟨[("p0", e), ("l0", v0), ("l1", .bool false), ("l2", .int (l + 1))], fl⟩ := by
  have hw : wrap .i8 (l + 1) = l + 1 := by simp only [wrap]; omega
  unfold LevelOf_loop0
  rw [execS_loop]
  cases he : P.enabled e l
  · simp [h2, he, hw, exec_succ]
  · simp [h2, he]

theorem LevelOf_end_matches_source (P : Par) (e v0 : Val) (fl : Env) (fuel : Nat) :
    execS (X P) (exec (X P) fuel) LevelOf_loop0 ⟨[("p0", e), ("l0", v0), ("l1", .bool false), ("l2", .int 6)], fl⟩ =
      .normal ⟨[("p0", e), ("l0", v0), ("l1", .bool false), ("l2", .int 6)], fl⟩ := by
  unfold LevelOf_loop0
  rw [execS_loop]
  simp

/-- the whole scan from Debug: seven iterations at most -/
theorem LevelOf_loop_matches_source (P : Par) (e v0 : Val) (fl : Env) (fuel : Nat) :
    execS (X P) (exec (X P) (fuel + 7)) LevelOf_loop0 ⟨[("p0", e), ("l0", v0), ("l1", .bool false), ("l2", .int (-1))], fl⟩ =
      if P.enabled e (-1) then .ret [.int (-1)] ⟨[("p0", e), ("l0", v0), ("l1", .bool false), ("l2", .int (-1))], fl⟩
      else if P.enabled e 0 then .ret [.int 0] ⟨[("p0", e), ("l0", v0), ("l1", .bool false), ("l2", .int 0)], fl⟩
      else if P.enabled e 1 then .ret [.int 1] ⟨[("p0", e), ("l0", v0), ("l1", .bool false), ("l2", .int 1)], fl⟩
      else if P.enabled e 2 then .ret [.int 2] ⟨[("p0", e), ("l0", v0), ("l1", .bool false), ("l2", .int 2)], fl⟩
      else if P.enabled e 3 then .ret [.int 3] ⟨[("p0", e), ("l0", v0), ("l1", .bool false), ("l2", .int 3)], fl⟩
      else if P.enabled e 4 then .ret [.int 4] ⟨[("p0", e), ("l0", v0), ("l1", .bool false), ("l2", .int 4)], fl⟩
      else if P.enabled e 5 then .ret [.int 5] ⟨[("p0", e), ("l0", v0), ("l1", .bool false), ("l2", .int 5)], fl⟩
      else .normal ⟨[("p0", e), ("l0", v0), ("l1", .bool false), ("l2", .int 6)], fl⟩ := by
  rw [show fuel + 7 = (fuel + 6) + 1 from rfl, LevelOf_iter_matches_source P e v0 (-1) (by omega) (by omega),
    show fuel + 6 = (fuel + 5) + 1 from rfl, LevelOf_iter_matches_source P e v0 (-1 + 1) (by omega) (by omega),
    show fuel + 5 = (fuel + 4) + 1 from rfl, LevelOf_iter_matches_source P e v0 (-1 + 1 + 1) (by omega) (by omega),
    show fuel + 4 = (fuel + 3) + 1 from rfl, LevelOf_iter_matches_source P e v0 (-1 + 1 + 1 + 1) (by omega) (by omega),
    show fuel + 3 = (fuel + 2) + 1 from rfl, LevelOf_iter_matches_source P e v0 (-1 + 1 + 1 + 1 + 1) (by omega) (by omega),
    show fuel + 2 = (fuel + 1) + 1 from rfl, LevelOf_iter_matches_source P e v0 (-1 + 1 + 1 + 1 + 1 + 1) (by omega) (by omega),
    LevelOf_iter_matches_source P e v0 (-1 + 1 + 1 + 1 + 1 + 1 + 1) (by omega) (by omega),
    show (-1 : Int) + 1 + 1 + 1 + 1 + 1 + 1 + 1 = 6 from rfl, LevelOf_end_matches_source]
  rfl

theorem LevelOf_matches_source (P : Par) (e : Val) (fl : Env) (fuel : Nat) :
    run (X P) (fuel + 8) "LevelOf" [e] fl = .done [.int (levelOfSpec P e)] fl := by
  apply run_of_fin (X P) _ _ Gen.TransLevel.LevelOf [e] _ _ _ rfl rfl
  rw [exec_succ]
  unfold levelOfSpec
  cases ha : P.asLeveled e with
  | some lv => simp [LevelOf_body, ha]
  | none =>
    simp [LevelOf_body, ha, LevelOf_loop_matches_source]
    by_cases e1 : P.enabled e (-1) = true
    · simp [e1]
    by_cases e2 : P.enabled e 0 = true
    · simp [e1, e2]
    by_cases e3 : P.enabled e 1 = true
    · simp [e1, e2, e3]
    by_cases e4 : P.enabled e 2 = true
    · simp [e1, e2, e3, e4]
    by_cases e5 : P.enabled e 3 = true
    · simp [e1, e2, e3, e4, e5]
    by_cases e6 : P.enabled e 4 = true
    · simp [e1, e2, e3, e4, e5, e6]
    by_cases e7 : P.enabled e 5 = true
    · simp [e1, e2, e3, e4, e5, e6, e7]
    simp [e1, e2, e3, e4, e5, e6, e7]


/-- the scan of the translated `LevelOf` (no `Level()` method) is `Cores.leastValid`: the first of Debug … Fatal that is
    enabled, else `InvalidLevel` -/
theorem levelOfSpec_is_leastValid (P : Par) (e : Val) (h : P.asLeveled e = none) :
    levelOfSpec P e = Cores.leastValid (P.enabled e) := by
  simp only [levelOfSpec, h, Cores.leastValid, Cores.validLevels, Cores.invalidL, List.find?]
  cases P.enabled e (-1) <;> cases P.enabled e 0 <;> cases P.enabled e 1 <;> cases P.enabled e 2 <;> cases P.enabled e 3 <;>
    cases P.enabled e 4 <;> cases P.enabled e 5 <;> rfl

end ZapVerif.C05
