import ZapVerif.Model.Core
import ZapVerif.Proofs.Core
import ZapVerif.Gen.FrontEnds
import ZapVerif.Proofs.CoreSync
import ZapVerif.Proofs.TransCores
import ZapVerif.Model.TransCEAddX
import ZapVerif.Proofs.TransLogger
/-! # C05 — an entry is written exactly where its level is enabled; reported levels agree

All theorems are about the core algebra of `Model/Core.lean` (arbitrary trees, arbitrary — also non-monotone —
enablers, every integer level). The model is tied to /repo by the correspondence run (C05 ops) and, for the
front-end guards, by the regenerated table `Gen.frontEnds`. -/
namespace ZapVerif.C05
open ZapVerif ZapVerif.Cores

/-- framing: a `Check` only appends to the CheckedEntry, and what it appends does not depend on what earlier
    cores (e.g. earlier branches of a tee) put there -/
theorem check_frame (σ : Store) (sn : Snap) (l : Level) (c : Core) (pend : List FldP) (ce : List Item) :
    check σ sn l c pend ce = ce ++ check σ sn l c pend [] :=
  Cores.check_frame σ sn l c pend ce

/-- the delivered leaves are exactly the leaves all of whose path filters (own enabler, every increase-level
    enabler, every sampler decision) are open — in tree order, once per path -/
theorem delivered_eq_open_paths (σ : Store) (sn : Snap) (l : Level) (c : Core) (pend : List FldP) :
    leafIds (check σ sn l c pend []) = ((paths c).filter (open_ σ l)).map (·.1) :=
  leafIds_check σ sn l c pend

theorem mem_leafIds (i : Nat) : ∀ (xs : List Item), i ∈ leafIds xs ↔ ∃ io ctx, Item.leaf i io ctx ∈ xs
  | [] => by simp [leafIds]
  | .leaf j io ctx :: r => by
      simp only [leafIds, List.mem_cons, mem_leafIds i r]
      constructor
      · rintro (rfl | ⟨io', ctx', h⟩)
        · exact ⟨io, ctx, Or.inl rfl⟩
        · exact ⟨io', ctx', Or.inr h⟩
      · rintro ⟨io', ctx', h | h⟩
        · left; injection h
        · right; exact ⟨io', ctx', h⟩
  | .hook h :: r => by
      simp only [leafIds, mem_leafIds i r, List.mem_cons]
      constructor
      · rintro ⟨io, ctx, h⟩; exact ⟨io, ctx, Or.inr h⟩
      · rintro ⟨io, ctx, h | h⟩
        · cases h
        · exact ⟨io, ctx, h⟩

/-- an entry reaches leaf `i` iff some path to `i` has every level filter enabling the entry's level
    (samplers: and sampled) -/
theorem leaf_delivery_iff (σ : Store) (sn : Snap) (l : Level) (c : Core) (pend : List FldP) (i : Nat) :
    (∃ io ctx, Item.leaf i io ctx ∈ check σ sn l c pend []) ↔
      ∃ p ∈ paths c, p.1 = i ∧ ∀ f ∈ p.2, f.ok σ l = true := by
  rw [← mem_leafIds, delivered_eq_open_paths]
  simp only [List.mem_map, List.mem_filter, open_, List.all_eq_true]
  constructor
  · rintro ⟨p, ⟨hp, ho⟩, rfl⟩; exact ⟨p, hp, rfl, ho⟩
  · rintro ⟨p, hp, rfl, ho⟩; exact ⟨p, ⟨hp, ho⟩, rfl⟩

/-- a tee delivers to each branch independently of the others -/
theorem tee_independent (σ : Store) (sn : Snap) (l : Level) (c : Core) (cs : List Core) (pend : List FldP) :
    check σ sn l (.tee (c :: cs)) pend [] = check σ sn l c pend [] ++ check σ sn l (.tee cs) pend [] := by
  simp only [check]; exact checkAll_cons σ sn l c cs pend

/-- an increase-level wrapper only ever narrows -/
theorem incr_narrows (σ : Store) (sn : Snap) (l : Level) (c : Core) (en : Enab) (pend : List FldP) (x : Item) :
    x ∈ check σ sn l (.incr c en) pend [] → x ∈ check σ sn l c pend [] := by
  simp only [check]; split <;> simp

/-- a hook is added exactly once, directly after what its wrapped core added, iff that core added anything —
    whatever the CheckedEntry already held -/
theorem hook_fires_iff (σ : Store) (sn : Snap) (l : Level) (c : Core) (h : Nat) (pend : List FldP) (ce : List Item) :
    check σ sn l (.hooked c h) pend ce =
      ce ++ check σ sn l c pend [] ++ (if check σ sn l c pend [] = [] then [] else [.hook h]) := by
  simp only [check]
  rw [Cores.check_frame σ sn l c pend ce]
  cases hc : check σ sn l c pend [] with
  | nil => simp
  | cons a r => simp

/-- F4 witness: with today's `hooked.Check` rule, `Tee(A, Hooks(B))` with A accepting and B declining fires B's hook -/
theorem hook_bug :
    let σ : Store := fun _ => 0
    let sn : Snap := fun _ => none
    let ce := check σ sn 0 (.leaf 1 (.fn fun _ => true) false []) [] []
    let d := check σ sn 0 (.leaf 2 (.fn fun _ => false) false []) [] ce
    check σ sn 0 (.leaf 2 (.fn fun _ => false) false []) [] [] = [] ∧ Item.hook 7 ∈ hookedOld d ce 7 := by
  decide

/-- anything delivered ⇒ `Enabled` said yes -/
theorem enabled_sound (σ : Store) (sn : Snap) (l : Level) (c : Core) (pend : List FldP) :
    check σ sn l c pend [] ≠ [] → enabled σ c l = true := by
  intro h
  cases he : enabled σ c l with
  | true => rfl
  | false => exact absurd (check_disabled σ sn l c pend [] he) h

/-- full-strength converse (does NOT hold, see `enabled_complete_fails`): on a tree whose IncreaseLevel wrappers
    passed construction-time validation and whose samplers do not drop, `Enabled(l)` implies a delivery -/
def EnabledComplete : Prop :=
  ∀ (σ : Store) (sn : Snap) (l : Level) (c : Core) (pend : List FldP),
    wellBuilt σ c = true → noDrop l c = true → enabled σ c l = true → check σ sn l c pend [] ≠ []

/-- … it holds for the valid levels (−1 … 5), while the store is the one the wrappers were validated under -/
theorem enabled_complete_partial (σ : Store) (sn : Snap) (l : Level) (hl : l ∈ validLevels) (c : Core) (pend : List FldP) :
    wellBuilt σ c = true → noDrop l c = true → enabled σ c l = true → check σ sn l c pend [] ≠ [] :=
  enabled_delivers σ sn l hl c pend

/-- F6 witness: IncreaseLevel over a range-limited enabler; level 7 is `Enabled` but reaches nothing -/
theorem enabled_complete_fails : ¬ EnabledComplete := by
  intro h
  have := h (fun _ => 0) (fun _ => none) 7
    (.incr (.leaf 1 (.fn fun l => decide (-1 ≤ l) && decide (l ≤ 5)) false []) (.fn fun l => decide (0 ≤ l))) []
    (by decide) (by decide) (by decide)
  exact this (by decide)

/-- F6b witness: the validation is done once; raising a shared AtomicLevel afterwards leaves a valid level
    `Enabled` on the wrapper with nothing delivered -/
theorem enabled_complete_stale_fails :
    ∃ (σ₀ σ₁ : Store) (c : Core), wellBuilt σ₀ c = true ∧ noDrop 1 c = true ∧ enabled σ₁ c 1 = true ∧
      check σ₁ (fun _ => none) 1 c [] [] = [] :=
  ⟨fun _ => 0, fun _ => 2, .incr (.leaf 1 (.atomic 0) false []) (.fn fun l => decide (1 ≤ l)),
    by decide, by decide, by decide, by decide⟩

/-- a disabled entry below DPanic: no CheckedEntry, no event (no marshaling, no sampler or entry hook, no sink
    operation), no lazy core initialised -/
theorem disabled_no_effects (σ : Store) (μ : Val) (lg : Logger) (l : Level) (fs : List Fld) (w : W)
    (hd : enabled σ lg.core l = false) (hl : l < dpanicL) :
    lg.check σ μ l w = (none, w) ∧ lg.log σ μ l fs w = w := by
  have hg : (decide (l < dpanicL) && !enabled σ lg.core l) = true := by simp [hd, hl]
  constructor
  · simp [Logger.check, hg]
  · rw [log_eq_checked]; simp [hg]

/-- a disabled entry from DPanic upwards: the world changes by the terminal action only -/
theorem disabled_terminal_only (σ : Store) (μ : Val) (lg : Logger) (l : Level) (fs : List Fld) (w : W)
    (hd : enabled σ lg.core l = false) (hl : dpanicL ≤ l) :
    lg.log σ μ l fs w = w.emit (termEvs (lg.terminal l)) := by
  have hg : (decide (l < dpanicL) && !enabled σ lg.core l) = false := by
    have : ¬ l < dpanicL := by unfold dpanicL at *; lomega
    simp [this]
  rw [log_eq_checked]
  simp only [hg, Bool.false_eq_true, if_false, Logger.checked]
  rw [checkEv_disabled σ μ l lg.core w hd, check_disabled σ w.snap l lg.core [] [] hd]
  simp [CE.write]

/-- the reported level denotes the least valid enabled level; `InvalidLevel` when no valid level is enabled -/
theorem levelOf_min (σ : Store) (c : Core) : clampValid (levelOf σ c) = leastValid (enabled σ c) :=
  levelOf_clamp σ c

/-- … which is the first hit of the scan −1, 0, …, 5: enabled there, nothing valid below it is -/
theorem levelOf_min_spec (σ : Store) (c : Core) :
    (clampValid (levelOf σ c) = invalidL ∧ ∀ x ∈ validLevels, enabled σ c x = false) ∨
    (clampValid (levelOf σ c) ∈ validLevels ∧ enabled σ c (clampValid (levelOf σ c)) = true ∧
      ∀ x ∈ validLevels, x < clampValid (levelOf σ c) → enabled σ c x = false) := by
  rw [levelOf_min]; exact leastValid_spec _

/-- nothing enabled at all ⇒ exactly `InvalidLevel` -/
theorem levelOf_invalid_of_none (σ : Store) (c : Core) (h : ∀ l, enabled σ c l = false) : levelOf σ c = invalidL :=
  levelOf_none σ c h

/-- F5 witness: the un-repaired `multiCore.Level` reports Fatal for a tee of cores that enable nothing -/
theorem tee_level_old_bug : levelOfAllOld (fun _ => 0) [.nop, .nop] = fatalL ∧ levelOfAll (fun _ => 0) [.nop, .nop] = invalidL := by
  decide

def applySets (σ : Store) : List (Nat × Level) → Store
  | [] => σ
  | (i, t) :: r => applySets (fun j => if j = i then t else σ j) r

/-- a change to a shared AtomicLevel is honoured on the next call by every logger derived (by any chain of With)
    from the core: after any sequence of SetLevel the delivery is the path product under the store as it is now -/
theorem atomic_level_next_call (σ : Store) (sets : List (Nat × Level)) (sn sn' : Snap) (c : Core)
    (fss : List (List FldP)) (l : Level) (pend : List FldP) :
    leafIds (check (applySets σ sets) sn' l (fss.foldl (pushF sn) c) pend []) =
      ((paths c).filter (open_ (applySets σ sets) l)).map (·.1) := by
  rw [delivered_eq_open_paths]
  congr 2
  induction fss generalizing c with
  | nil => rfl
  | cons fs r ih => simp only [List.foldl_cons]; rw [ih, paths_pushF]

/-- deriving with `With` never changes what is enabled or reported -/
theorem with_preserves_enabled (σ : Store) (sn : Snap) (l : Level) (c : Core) (fs : List FldP) :
    enabled σ (pushF sn c fs) l = enabled σ c l :=
  enabled_pushF σ sn l c fs

/-- zapgrpc `V(v)` -/
def grpcV (σ : Store) (c : Core) (v : Int) : Bool :=
  enabled σ c ((Gen.grpcLevels.lookup v).getD 0)

/-- `V` agrees with delivery: true whenever an entry at the mapped level is delivered anywhere; and (valid level,
    validated wrappers, no sampler drop) false only if nothing is -/
theorem grpc_V_agrees (σ : Store) (sn : Snap) (c : Core) (v : Int) (pend : List FldP) :
    (check σ sn ((Gen.grpcLevels.lookup v).getD 0) c pend [] ≠ [] → grpcV σ c v = true) ∧
    (wellBuilt σ c = true → noDrop ((Gen.grpcLevels.lookup v).getD 0) c = true → grpcV σ c v = true →
      check σ sn ((Gen.grpcLevels.lookup v).getD 0) c pend [] ≠ []) := by
  have hv : (Gen.grpcLevels.lookup v).getD 0 ∈ validLevels := by
    have : ∀ x ∈ Gen.grpcLevels.map (·.2), x ∈ validLevels := by decide
    cases h : Gen.grpcLevels.lookup v with
    | none => decide
    | some y =>
      apply this
      simp only [Option.getD_some, List.mem_map]
      have := List.lookup_eq_some_iff.mp h   -- ∃ split of the table around the hit
      obtain ⟨l₁, l₂, heq, _⟩ := this
      exact ⟨(v, y), by rw [heq]; simp, rfl⟩
  exact ⟨enabled_sound σ sn _ c pend, enabled_delivers σ sn _ hv c pend⟩

/-- `Logger.Level()` / `SugaredLogger.Level()` are `LevelOf(core)`: same statement as `levelOf_min` -/
theorem logger_Level_agrees (σ : Store) (lg : Logger) : clampValid (levelOf σ lg.core) = leastValid (enabled σ lg.core) :=
  levelOf_min σ lg.core

/-- every front end of the current source (Logger, SugaredLogger, std-log bridge, gRPC adapter) filters like
    `Logger.check` wherever a delivery is at stake: none drops an enabled entry, none lets a disabled entry below
    DPanic through. (Decided on the regenerated table on every run; what happens to a *disabled* entry from DPanic
    upwards is C06's `guards_pass_at_terminal`.) -/
theorem frontends_sound : Gen.frontEnds.all FrontEnd.sound = true := by decide

/-- hence, for an enabled entry or one below DPanic, a call through any front end has exactly the effects of `Logger.log` -/
theorem frontend_eq_log (fe : FrontEnd) (hfe : fe ∈ Gen.frontEnds) (σ : Store) (μ : Val) (lg : Logger) (l : Level)
    (ha : fe.takes l = true) (h : l < dpanicL ∨ enabled σ lg.core l = true) (fs : List Fld) (w : W) :
    fe.run σ μ lg l fs w = lg.log σ μ l fs w := by
  have hx : fe.sound = true := List.all_eq_true.mp frontends_sound fe hfe
  rw [log_eq_checked]
  unfold FrontEnd.run FrontEnd.passes
  rw [guards_of_sound fe hx l ha _ h]
  cases decide (l < dpanicL) && !enabled σ lg.core l <;> simp

/-- … and a disabled entry from DPanic upwards reaches no core through any front end: whatever the guards say,
    the only possible event is the terminal action -/
theorem frontend_disabled_no_delivery (fe : FrontEnd) (σ : Store) (μ : Val) (lg : Logger) (l : Level)
    (fs : List Fld) (w : W) (hd : enabled σ lg.core l = false) :
    fe.run σ μ lg l fs w = w ∨
    fe.run σ μ lg l fs w = w.emit (termEvs (lg.terminal l)) := by
  unfold FrontEnd.run
  split
  · right
    simp only [Logger.checked]
    rw [checkEv_disabled σ μ l lg.core w hd, check_disabled σ w.snap l lg.core [] [] hd]
    simp [CE.write]
  · left; rfl

/-- non-vacuity: a three-level tree where the same leaf id is reached only through the open branch -/
example :
    leafIds (check (fun _ => 1) (fun _ => none) 1
      (.tee [.incr (.leaf 1 (.fn fun _ => true) true []) (.fn fun l => decide (2 ≤ l)),
             .hooked (.sampler (.leaf 2 (.atomic 0) false []) 0 true) 9]) [] []) = [2] := by decide

/-! ### Sync -/

/-- `Logger.Sync` / `Core.Sync` reaches the sink of EVERY io leaf, exactly once each and in tree order, through every wrapper
    (tee to all branches, level filters, hooks, samplers, lazy cores — which it initialises first), whatever the levels,
    sampling decisions or the state of the lazy cells -/
theorem sync_reaches_every_io_leaf (μ : Val) (c : Core) (w : W) :
    syncIds (syncEv μ c w).evs = syncIds w.evs ++ ioLeaves c := syncEv_syncIds μ c w

example : syncIds (syncEv (fun _ => 0) (.tee [.lazy 0 (.leaf 1 (.atomic 0) true []) [], .nop, .hooked (.leaf 2 (.atomic 0) true []) 7]) {}).evs = [1, 2] := by
  decide

end ZapVerif.C05

/-! ## `Check` / `Enabled` of the cores ARE the source (tables `Gen/TransCores.lean`, `Gen/TransCEAdd.lean`)

The clauses of `Cores.check` and `Cores.enabled` (Model/Core.lean) are the translated Go functions.  A `*CheckedEntry`
is nil (`none`) or its list of cores; `P.en` is the receiver's level enabler, `P.cen c` / `P.chk c` are a sub-core's
`Enabled` / `Check`:
* `AddCore` appends to the cores (a nil entry becomes a fresh one) — the `ce ++ [item]` of every clause;
* `ioCore.Check`: `if en l then ce ++ [self] else ce` (clause `leaf`);
* `multiCore.Check`: the left fold of the sub-cores' `Check` (clause `tee` / `checkAll`); `multiCore.Enabled`: `any`;
* `hooked.Check`: `let d := check c ce; if d.length > ce.length then d ++ [self] else d` (clause `hooked`, the repaired
  rule), for sub-cores that only ever extend the entry;
* `levelFilterCore.Enabled` = the new enabler; `levelFilterCore.Check`: `if en l then check c ce else ce` (clause `incr`). -/
namespace ZapVerif.C05
set_option linter.unusedSimpArgs false
open ZapVerif ZapVerif.GoMini ZapVerif.TransCores

/-- `(*CheckedEntry).AddCore(ent, core)`: a nil receiver is replaced by a fresh entry for `ent`; the core is appended -/
theorem AddCore_matches_source (isnil dirty : Bool) (eo after cores : List Val) (entry self ent core : Val) (fuel : Nat) :
    run TransCEAdd.X (fuel + 1) "AddCore" [ent, core] (TransCEAdd.ceFld isnil dirty eo after cores entry self) =
      .done [self] (if isnil then TransCEAdd.ceFld false false [] [] [core] ent self
                    else TransCEAdd.ceFld false dirty eo after (cores ++ [core]) entry self) := by
  refine run_of_fin TransCEAdd.X _ _ Gen.TransCEAdd.AddCore [ent, core] _ _ _ rfl rfl ?_
  show (exec TransCEAdd.X (fuel + 1) Gen.TransCEAdd.AddCore_body ⟨[("p0", ent), ("p1", core)], _⟩).fin = _
  rw [exec_succ]
  cases isnil <;> simp [Gen.TransCEAdd.AddCore_body, TransCEAdd.X]

open ZapVerif.Gen.TransCores

/-- `(*ioCore).Check(ent, ce)` -/
theorem ioCore_Check_matches_source (P : Par) (l : Int) (ce : Option (List Val)) (enc out self : Val) (ev : List Val)
    (fuel : Nat) :
    run (X P) (fuel + 1) "ioCore_Check" [entV l, ceV ce] (ioFld enc out self ev) =
      .done [ceV (if P.en l then addCore ce self else ce)] (ioFld enc out self ev) := by
  refine run_of_fin (X P) _ _ Gen.TransCores.ioCore_Check [entV l, ceV ce] _ _ _ rfl rfl ?_
  show (exec (X P) (fuel + 1) ioCore_Check_body ⟨[("p0", entV l), ("p1", ceV ce)], _⟩).fin = _
  rw [exec_succ]
  cases h : P.en l <;> simp [ioCore_Check_body, entV, indexVal, h]

/-- `(*levelFilterCore).Enabled(lvl)` is the new enabler alone -/
theorem levelFilterCore_Enabled_matches_source (P : Par) (l : Int) (core level self : Val) (ev : List Val) (fuel : Nat) :
    run (X P) (fuel + 1) "levelFilterCore_Enabled" [.int l] (lfFld core level self ev) =
      .done [.bool (P.en l)] (lfFld core level self ev) := by
  refine run_of_fin (X P) _ _ Gen.TransCores.levelFilterCore_Enabled [.int l] _ _ _ rfl rfl ?_
  show (exec (X P) (fuel + 1) levelFilterCore_Enabled_body ⟨[("p0", .int l)], _⟩).fin = _
  rw [exec_succ]
  simp [levelFilterCore_Enabled_body]

/-- `(*levelFilterCore).Check(ent, ce)`: the wrapped core is consulted only when the new enabler enables the level -/
theorem levelFilterCore_Check_matches_source (P : Par) (l : Int) (ce : Option (List Val)) (core level self : Val)
    (ev : List Val) (fuel : Nat) :
    run (X P) (fuel + 2) "levelFilterCore_Check" [entV l, ceV ce] (lfFld core level self ev) =
      .done [ceV (if P.en l then P.chk core (entV l) ce else ce)] (lfFld core level self ev) := by
  refine run_of_fin (X P) _ _ Gen.TransCores.levelFilterCore_Check [entV l, ceV ce] _ _ _ rfl rfl ?_
  show (exec (X P) (fuel + 2) levelFilterCore_Check_body ⟨[("p0", entV l), ("p1", ceV ce)], _⟩).fin = _
  rw [exec_succ]
  have hen : ∀ σ : State, retK σ [.loc "l0"] "levelFilterCore_Enabled"
      (exec (X P) (fuel + 1) levelFilterCore_Enabled_body ⟨[("p0", .int l)], lfFld core level self ev⟩) =
      .normal (({ σ with fld := lfFld core level self ev } : State).assign1 (.loc "l0") (.bool (P.en l))) := by
    intro σ
    refine retK_of_fin1 σ _ _ _ _ _ ?_
    rw [exec_succ]; simp [levelFilterCore_Enabled_body]
  cases h : P.en l <;> simp [levelFilterCore_Check_body, entV, indexVal, hen, h]

/-- number of cores of a (possibly nil) entry -/
def lenCE (ce : Option (List Val)) : Nat := (ce.getD []).length

/-- `(*hooked).Check(ent, ce)`: the wrapped core decides; the hooked core adds itself iff the core COUNT grew -/
theorem hooked_Check_matches_source (P : Par) (l : Int) (ce : Option (List Val)) (core : Val) (funcs : List Val)
    (self : Val) (ev : List Val) (fuel : Nat) :
    run (X P) (fuel + 1) "hooked_Check" [entV l, ceV ce] (hkFld core funcs self ev) =
      .done [ceV (match P.chk core (entV l) ce with
                  | none => ce
                  | some ds => if ds.length > lenCE ce then some (ds ++ [self]) else some ds)]
        (hkFld core funcs self ev) := by
  refine run_of_fin (X P) _ _ Gen.TransCores.hooked_Check [entV l, ceV ce] _ _ _ rfl rfl ?_
  show (exec (X P) (fuel + 1) hooked_Check_body ⟨[("p0", entV l), ("p1", ceV ce)], _⟩).fin = _
  rw [exec_succ]
  have hpos : ∀ k : Nat, ¬ ((k : Int) + 1 = 0) := by intro k; omega
  cases ce with
  | none =>
    cases hd : P.chk core (entV l) none with
    | none => simp [hooked_Check_body, hd, lenCE]
    | some ds =>
      by_cases hg : ds.length > 0
      · have hg' : (0 : Int) < ds.length := by omega
        simp [hooked_Check_body, hd, lenCE, hg, hg', addCore]
      · have hg' : ¬ (0 : Int) < ds.length := by omega
        simp [hooked_Check_body, hd, lenCE, hg, hg']
  | some cs =>
    cases hd : P.chk core (entV l) (some cs) with
    | none => simp [hooked_Check_body, hd, lenCE]
    | some ds =>
      by_cases hg : ds.length > cs.length
      · have hg' : (cs.length : Int) < ds.length := by omega
        simp [hooked_Check_body, hd, lenCE, hg, hg', addCore]
      · have hg' : ¬ (cs.length : Int) < ds.length := by omega
        simp [hooked_Check_body, hd, lenCE, hg, hg']

/-- … which is the `hooked` clause of `Cores.check` on the core lists (nil ≙ []), for a wrapped core that only
    ever extends the entry it is given (every clause of `Cores.check` does: `check_extends`-style facts of
    Proofs/Core.lean) -/
theorem hooked_Check_is_model_clause (d ce : Option (List Val)) (self : Val)
    (hext : d = none → ce.getD [] = []) :
    ((match d with
      | none => ce
      | some ds => if ds.length > lenCE ce then some (ds ++ [self]) else some ds).getD []) =
      (if (d.getD []).length > (ce.getD []).length then d.getD [] ++ [self] else d.getD []) := by
  cases d with
  | none => simp [hext rfl]
  | some ds =>
    by_cases h : ds.length > lenCE ce
    · have h' : (ce.getD []).length < ds.length := h
      simp [h, h']
    · have h' : ¬ (ce.getD []).length < ds.length := h
      simp [h, h']

/-- state of `multiCore.Check` at the loop head: the entry so far, and the index variable once bound -/
def mccAbs (mc : List Val) (ent : Val) (ev : List Val) (a : Option (List Val) × Option Int) : State :=
  ⟨[("p0", ent), ("p1", ceV a.1)] ++ (match a.2 with | none => [] | some i => [("l0", .int i)]), mcFld mc ev⟩

/-- the loop of `multiCore.Check`: the sub-cores' `Check` folded over the entry, left to right -/
theorem multiCore_Check_loop_matches_source (P : Par) (mc : List Val) (ent : Val) (ce : Option (List Val)) (ev : List Val)
    (rec : Stmt → State → GoMini.Out) :
    ∃ t, execS (X P) rec multiCore_Check_loop0 (mccAbs mc ent ev (ce, none)) =
      .normal (mccAbs mc ent ev (mc.foldl (fun acc c => P.chk c ent acc) ce, t)) := by
  have hiter : ∀ (a : Option (List Val) × Option Int) (i : Nat) (c : Val), mc[i]? = some c →
      (match multiCore_Check_loop0 with
        | .range k v _ body => execS (X P) rec body (((mccAbs mc ent ev a).assign1 k (.int i)).assign1 v (id c))
        | _ => .oof) = .normal (mccAbs mc ent ev (P.chk c ent a.1, some (i : Int))) := by
    intro ⟨acc, t⟩ i c hc
    have hidx := indexVal_list_map id mc i c hc
    simp only [List.map_id, id] at hidx
    cases t <;> simp [multiCore_Check_loop0, mccAbs, hidx]
  unfold multiCore_Check_loop0 at hiter ⊢
  rw [execS_range]
  have hfold := rangeRun_fold_at (execS (X P) rec _) _ _ (mccAbs mc ent ev) id
    (fun a i c => (P.chk c ent a.1, some (i : Int))) mc hiter mc 0 (ce, none) (by simp)
  simp only [List.map_id] at hfold
  refine ⟨((mc.zipIdx).foldl (fun (a : Option (List Val) × Option Int) q => (P.chk q.1 ent a.1, some (q.2 : Int))) (ce, none)).2, ?_⟩
  have hcs : evalE (X P) (mccAbs mc ent ev (ce, none)) (.fld "mc") = .ok (.list mc) := by simp [mccAbs]
  rw [hcs]
  simp only [Res.out_ok]
  refine Eq.trans hfold ?_
  congr 2
  refine Prod.ext ?_ rfl
  have key : ∀ (l : List Val) (k : Nat) (a : Option (List Val) × Option Int),
      ((l.zipIdx k).foldl (fun (a : Option (List Val) × Option Int) q => (P.chk q.1 ent a.1, some (q.2 : Int))) a).1 =
        l.foldl (fun acc c => P.chk c ent acc) a.1 := by
    intro l
    induction l with
    | nil => intro k a; rfl
    | cons c r ih => intro k a; simp only [List.zipIdx_cons, List.foldl_cons]; exact ih _ _
  exact key mc 0 (ce, none)

/-- `multiCore.Check(ent, ce)` ≡ the `tee` clause (`checkAll`): every sub-core is consulted, in order, each on the
    entry the previous ones returned -/
theorem multiCore_Check_matches_source (P : Par) (mc : List Val) (l : Int) (ce : Option (List Val)) (ev : List Val)
    (fuel : Nat) :
    run (X P) (fuel + 1) "multiCore_Check" [entV l, ceV ce] (mcFld mc ev) =
      .done [ceV (mc.foldl (fun acc c => P.chk c (entV l) acc) ce)] (mcFld mc ev) := by
  refine run_of_fin (X P) _ _ Gen.TransCores.multiCore_Check [entV l, ceV ce] _ _ _ rfl rfl ?_
  show (exec (X P) (fuel + 1) multiCore_Check_body ⟨[("p0", entV l), ("p1", ceV ce)], _⟩).fin = _
  rw [exec_succ]
  obtain ⟨t, hl⟩ := multiCore_Check_loop_matches_source P mc (entV l) ce ev (exec (X P) fuel)
  simp only [mccAbs, List.append_nil] at hl
  cases t <;> simp [multiCore_Check_body, hl]

/-- state of `multiCore.Enabled` in its loop -/
def mceAbs (mc : List Val) (l : Int) (ev : List Val) (t : Option Int) : State :=
  ⟨[("p0", .int l)] ++ (match t with | none => [] | some i => [("l0", .int i)]), mcFld mc ev⟩

/-- the loop of `multiCore.Enabled`: returns `true` at the first sub-core that enables the level -/
theorem multiCore_Enabled_loop_matches_source (P : Par) (mc : List Val) (l : Int) (ev : List Val)
    (rec : Stmt → State → GoMini.Out) :
    ∀ (ys : List Val) (i : Nat) (t : Option Int), mc.drop i = ys →
      ∃ t', rangeRun (execS (X P) rec multiCore_Enabled_loop0.rbody) (.loc "l0") .blank ys i (mceAbs mc l ev t) =
        if ys.any (fun c => P.cen c l) then .ret [.bool true] (mceAbs mc l ev t') else .normal (mceAbs mc l ev t')
  | [], _, t, _ => ⟨t, by simp [rangeRun]⟩
  | y :: ys, i, t, hd => by
    have hy : mc[i]? = some y := by
      have := congrArg (fun l => l[0]?) hd
      simpa using this
    have hd' : mc.drop (i + 1) = ys := by
      have := congrArg (List.drop 1) hd
      simpa [List.drop_drop, Nat.add_comm] using this
    have hidx := indexVal_list_map id mc i y hy
    simp only [List.map_id, id] at hidx
    obtain ⟨t', ih⟩ := multiCore_Enabled_loop_matches_source P mc l ev rec ys (i + 1) (some (i : Int)) hd'
    cases hc : P.cen y l
    · refine ⟨t', ?_⟩
      have hb : execS (X P) rec multiCore_Enabled_loop0.rbody
          (((mceAbs mc l ev t).assign1 (.loc "l0") (.int i)).assign1 .blank y) = .normal (mceAbs mc l ev (some (i : Int))) := by
        cases t <;> simp [multiCore_Enabled_loop0, Stmt.rbody, mceAbs, hidx, hc]
      simp only [rangeRun, hb, List.any_cons, hc, Bool.false_or]
      exact ih
    · refine ⟨some (i : Int), ?_⟩
      have hb : execS (X P) rec multiCore_Enabled_loop0.rbody
          (((mceAbs mc l ev t).assign1 (.loc "l0") (.int i)).assign1 .blank y) =
            .ret [.bool true] (mceAbs mc l ev (some (i : Int))) := by
        cases t <;> simp [multiCore_Enabled_loop0, Stmt.rbody, mceAbs, hidx, hc]
      simp only [rangeRun, hb, List.any_cons, hc, Bool.true_or, if_true]

/-- `multiCore.Enabled(lvl)` ≡ `enabledAny`: some sub-core enables the level -/
theorem multiCore_Enabled_matches_source (P : Par) (mc : List Val) (l : Int) (ev : List Val) (fuel : Nat) :
    run (X P) (fuel + 1) "multiCore_Enabled" [.int l] (mcFld mc ev) =
      .done [.bool (mc.any fun c => P.cen c l)] (mcFld mc ev) := by
  refine run_of_fin (X P) _ _ Gen.TransCores.multiCore_Enabled [.int l] _ _ _ rfl rfl ?_
  show (exec (X P) (fuel + 1) multiCore_Enabled_body ⟨[("p0", .int l)], _⟩).fin = _
  rw [exec_succ]
  obtain ⟨t', hl⟩ := multiCore_Enabled_loop_matches_source P mc l ev (exec (X P) fuel) mc 0 none (by simp)
  have hrange : execS (X P) (exec (X P) fuel) multiCore_Enabled_loop0 ⟨[("p0", .int l)], mcFld mc ev⟩ =
      if mc.any (fun c => P.cen c l) then .ret [.bool true] (mceAbs mc l ev t') else .normal (mceAbs mc l ev t') := by
    rw [show multiCore_Enabled_loop0 = .range (.loc "l0") .blank (.fld "mc") multiCore_Enabled_loop0.rbody from rfl, execS_range]
    simpa [mceAbs] using hl
  cases ha : mc.any (fun c => P.cen c l) <;> cases t' <;>
    simp [multiCore_Enabled_body, hrange, ha, mceAbs]

end ZapVerif.C05

/-! ## the level guards of `Logger.check` and `SugaredLogger.log/logln` ARE the source (table `Gen/TransLogger.lean`)

Below DPanic a level the core disables has no effect at all: `Logger.check` returns nil without consulting the clock or
the core's `Check` (the source-level content of `disabled_no_effects`); `SugaredLogger.log` / `logln` return before
formatting.  At DPanic and above the guard never fires (Panic/Fatal must terminate even when disabled). -/
namespace ZapVerif.C05
set_option linter.unusedSimpArgs false
open ZapVerif ZapVerif.GoMini ZapVerif.TransLogger ZapVerif.Gen.TransLogger

theorem Logger_check_guard_matches_source (P : TransLogger.Par) (l : Int) (hl : l < 3) (hc : P.cen core l = false)
    (msg name : Bytes) (clock : Val) (dev : Bool) (onPanic onFatal : List Val) (ev : List Val) (fuel : Nat) :
    run (TransLogger.X P) (fuel + 2) "Logger_check" [.int l, .bytes msg] (logFld core name clock dev onPanic onFatal ev) =
      .done [.list []] (logFld core name clock dev onPanic onFatal ev) := by
  refine run_of_fin (TransLogger.X P) _ _ Gen.TransLogger.Logger_check [.int l, .bytes msg] _ _ _ rfl rfl ?_
  show (exec (TransLogger.X P) (fuel + 2) Logger_check_body ⟨[("p0", .int l), ("p1", .bytes msg)], _⟩).fin = _
  rw [exec_succ]
  simp [Logger_check_body, hl, hc]

/-- what the guard of `SugaredLogger.log` / `logln` lets through: everything at DPanic and above, and below that the
    levels the base core enables; `Sugar.formatCheckWrite` stands for the rest of the function -/
def sugarSpec (P : TransLogger.Par) (l : Int) : List Val :=
  if l < 3 ∧ P.cen (.list []) l = false then [] else [Val.list [TransLogger.nm "Sugar.formatCheckWrite", .int l]]

theorem Sugar_log_guard_matches_source (P : TransLogger.Par) (l : Int) (tmpl args ctx : Val) (ev : List Val) (fuel : Nat) :
    run (TransLogger.X P) (fuel + 1) "Sugar_log" [.int l, tmpl, args, ctx] [("ev", .list ev)] =
      .done [] [("ev", .list (ev ++ sugarSpec P l))] := by
  refine run_of_fin (TransLogger.X P) _ _ Gen.TransLogger.Sugar_log [.int l, tmpl, args, ctx] _ _ _ rfl rfl ?_
  show (exec (TransLogger.X P) (fuel + 1) Sugar_log_body ⟨[("p0", .int l), ("p1", tmpl), ("p2", args), ("p3", ctx)], _⟩).fin = _
  rw [exec_succ]
  by_cases h3 : l < 3 <;> cases hc : P.cen (.list []) l <;> simp [Sugar_log_body, sugarSpec, h3, hc, nm_fcw]

theorem Sugar_logln_guard_matches_source (P : TransLogger.Par) (l : Int) (args ctx : Val) (ev : List Val) (fuel : Nat) :
    run (TransLogger.X P) (fuel + 1) "Sugar_logln" [.int l, args, ctx] [("ev", .list ev)] =
      .done [] [("ev", .list (ev ++ sugarSpec P l))] := by
  refine run_of_fin (TransLogger.X P) _ _ Gen.TransLogger.Sugar_logln [.int l, args, ctx] _ _ _ rfl rfl ?_
  show (exec (TransLogger.X P) (fuel + 1) Sugar_logln_body ⟨[("p0", .int l), ("p1", args), ("p2", ctx)], _⟩).fin = _
  rw [exec_succ]
  by_cases h3 : l < 3 <;> cases hc : P.cen (.list []) l <;> simp [Sugar_logln_body, sugarSpec, h3, hc, nm_fcw]

end ZapVerif.C05
