import ZapVerif.Model.Core
import ZapVerif.Proofs.Core
import ZapVerif.Proofs.CoreTrace
import ZapVerif.Gen.FrontEnds
import ZapVerif.Model.Deliver
import ZapVerif.Props.C10
import ZapVerif.Model.TransCEAddX
import ZapVerif.Proofs.TransLogger
import ZapVerif.Proofs.TransGrpc
/-! # C06 — Panic and Fatal always terminate, after the entry is written and flushed

The front ends, their levels and every guard between an exported method and `Logger.check` are the regenerated
table `Gen.frontEnds`; the terminal switch of `Logger.check`, `terminalHookOverride` and the sync threshold of
`ioCore.Write` are regenerated too. The theorems quantify over every logger configuration of the model: any core
tree, any enablers/thresholds, development on/off, any `onPanic`/`onFatal` setting. Process exit itself is not
proved (it is observed from outside by the thorough tier). -/
namespace ZapVerif.C06
open ZapVerif ZapVerif.Cores

/-- the guards on every front end's chain say exactly "skip iff below DPanic and disabled" (decided on the
    regenerated table: a new or changed guard anywhere on a chain breaks this proof) -/
theorem frontends_exact : Gen.frontEnds.all FrontEnd.exact = true := by decide

/-- from DPanic upwards every guard on the chain is true, whatever the core enables -/
theorem guards_pass_at_terminal (fe : FrontEnd) (hfe : fe ∈ Gen.frontEnds) (l : Level) (ha : fe.takes l = true)
    (hl : dpanicL ≤ l) (σ : Store) (c : Core) : fe.passes σ c l = true := by
  have hx : fe.exact = true := List.all_eq_true.mp frontends_exact fe hfe
  unfold FrontEnd.passes
  rw [guards_of_exact fe hx l ha]
  have : decide (l < dpanicL) = false := by
    have : ¬ l < dpanicL := by unfold dpanicL at *; lomega
    simp [this]
  simp [this]

theorem run_eq_checked (fe : FrontEnd) (hfe : fe ∈ Gen.frontEnds) (l : Level) (ha : fe.takes l = true)
    (hl : dpanicL ≤ l) (σ : Store) (μ : Val) (lg : Logger) (fs : List Fld) (w : W) :
    fe.run σ μ lg l fs w = lg.checked σ μ l fs w := by
  unfold FrontEnd.run
  rw [guards_pass_at_terminal fe hfe l ha hl σ lg.core]; simp

/-- every accepting core's write (for io cores: write, then sync) precedes the terminal action: the trace of a call
    at a terminal level is — what was there, check-time events (sampler decisions, lazy initialisation), one block per
    entry of the CheckedEntry in order, and the terminal action last -/
theorem write_before_terminal (fe : FrontEnd) (hfe : fe ∈ Gen.frontEnds) (l : Level) (ha : fe.takes l = true)
    (hl : dpanicL ≤ l) (σ : Store) (μ : Val) (lg : Logger) (fs : List Fld) (w : W) (a : Action)
    (ht : lg.terminal l = some a) :
    (fe.run σ μ lg l fs w).evs =
      (checkEv σ μ l lg.core w).evs ++
      (check σ (checkEv σ μ l lg.core w).snap l lg.core [] []).flatMap (writeItem μ l fs) ++ [.term a] := by
  rw [run_eq_checked fe hfe l ha hl, checked_trace, ht]; rfl

/-- Panic: through every front end, for every configuration (any core incl. nop / dropping sampler / tee, any
    threshold, dev on or off, any hook setting) the trace ends in the panic action; nil and no-op hooks are
    replaced by the default -/
theorem panic_always (fe : FrontEnd) (hfe : fe ∈ Gen.frontEnds) (ha : fe.takes panicL = true)
    (σ : Store) (μ : Val) (lg : Logger) (fs : List Fld) (w : W) :
    ∃ pre, (fe.run σ μ lg panicL fs w).evs = pre ++ [.term (override .panic lg.onPanic)] :=
  ⟨_, write_before_terminal fe hfe panicL ha (by decide) σ μ lg fs w _ (by simp [Logger.terminal, panicL])⟩

/-- Fatal: likewise, with the fatal action -/
theorem fatal_always (fe : FrontEnd) (hfe : fe ∈ Gen.frontEnds) (ha : fe.takes fatalL = true)
    (σ : Store) (μ : Val) (lg : Logger) (fs : List Fld) (w : W) :
    ∃ pre, (fe.run σ μ lg fatalL fs w).evs = pre ++ [.term (override .fatal lg.onFatal)] :=
  ⟨_, write_before_terminal fe hfe fatalL ha (by decide) σ μ lg fs w _ (by simp [Logger.terminal, panicL, fatalL])⟩

/-- the default actions are what a nil or no-op hook gets -/
theorem default_substituted :
    override .panic .unset = .panic ∧ override .panic .noop = .panic ∧
    override .fatal .unset = .fatal ∧ override .fatal .noop = .fatal ∧
    (∀ d a, override d (.act a) = a) ∧ (∀ d k, override d (.custom k) = .custom k) := by
  simp [override]

theorem new_events_noterm (σ : Store) (μ : Val) (lg : Logger) (l : Level) (fs : List Fld) (w : W)
    (ht : lg.terminal l = none) :
    ∃ new, (lg.checked σ μ l fs w).evs = w.evs ++ new ∧ ∀ e ∈ new, e.isTerm = false := by
  obtain ⟨n1, h1, p1⟩ := checkEv_ext σ μ l lg.core w
  refine ⟨n1 ++ (check σ (checkEv σ μ l lg.core w).snap l lg.core [] []).flatMap (writeItem μ l fs), ?_, ?_⟩
  · rw [checked_trace, ht, h1]; simp [termEvs]
  · intro e he
    rcases List.mem_append.mp he with h | h
    · exact checkTime_noterm e (p1 e h)
    · obtain ⟨it, _, hit⟩ := List.mem_flatMap.mp h
      exact writeItem_noterm μ l fs it e hit

/-- DPanic runs the panic action exactly in development mode -/
theorem dpanic_iff_dev (fe : FrontEnd) (hfe : fe ∈ Gen.frontEnds) (ha : fe.takes dpanicL = true)
    (σ : Store) (μ : Val) (lg : Logger) (fs : List Fld) (w : W) :
    (lg.dev = true → ∃ pre, (fe.run σ μ lg dpanicL fs w).evs = pre ++ [.term (override .panic lg.onPanic)]) ∧
    (lg.dev = false → ∃ new, (fe.run σ μ lg dpanicL fs w).evs = w.evs ++ new ∧ ∀ e ∈ new, e.isTerm = false) := by
  constructor
  · intro hd
    exact ⟨_, write_before_terminal fe hfe dpanicL ha (by decide) σ μ lg fs w _
      (by simp [Logger.terminal, dpanicL, panicL, fatalL, hd])⟩
  · intro hd
    rw [run_eq_checked fe hfe dpanicL ha (by decide)]
    exact new_events_noterm σ μ lg dpanicL fs w (by simp [Logger.terminal, dpanicL, panicL, fatalL, hd])

/-- no level other than DPanic (dev), Panic, Fatal ever runs a terminal action, through any front end -/
theorem no_terminal_below (fe : FrontEnd) (σ : Store) (μ : Val) (lg : Logger) (l : Level) (fs : List Fld) (w : W)
    (hl : l ≠ dpanicL ∧ l ≠ panicL ∧ l ≠ fatalL) :
    ∃ new, (fe.run σ μ lg l fs w).evs = w.evs ++ new ∧ ∀ e ∈ new, e.isTerm = false := by
  unfold FrontEnd.run
  split
  · exact new_events_noterm σ μ lg l fs w (by simp [Logger.terminal, hl.1, hl.2.1, hl.2.2])
  · exact ⟨[], by simp, by simp⟩

/-- a built-in io core writes and then syncs its sink before control is lost, for every entry above Error -/
theorem io_sync_before_terminal (fe : FrontEnd) (hfe : fe ∈ Gen.frontEnds) (l : Level) (ha : fe.takes l = true)
    (hl : dpanicL ≤ l) (σ : Store) (μ : Val) (lg : Logger) (fs : List Fld) (w : W) (a : Action)
    (ht : lg.terminal l = some a) (id : Nat) (ctx : List Fld)
    (hmem : Item.leaf id true ctx ∈ check σ (checkEv σ μ l lg.core w).snap l lg.core [] []) :
    ∃ pre post, (fe.run σ μ lg l fs w).evs =
      pre ++ [.write id true (ctx ++ fs.map (Fld.resolve μ)), .sync id] ++ post ++ [.term a] := by
  rw [write_before_terminal fe hfe l ha hl σ μ lg fs w a ht]
  obtain ⟨i1, i2, hsplit⟩ := List.append_of_mem hmem
  rw [hsplit]
  have hgt : l > errorL := by unfold dpanicL errorL at *; lomega
  refine ⟨(checkEv σ μ l lg.core w).evs ++ i1.flatMap (writeItem μ l fs) ++
      (fs.map fun f => Ev.marshal id (f.resolve μ)), i2.flatMap (writeItem μ l fs), ?_⟩
  simp [List.flatMap_append, writeItem, hgt, List.append_assoc]

/-- ioCore.Write's sync threshold in the source is the one the model uses -/
theorem io_sync_matches_source : Gen.ioSyncAbove = errorL := by decide

/-- interpretation of the regenerated `switch ent.Level` rows of Logger.check -/
def rowsTerminal (rows : List (Int × String × Bool × String)) (lg : Logger) (l : Level) : Option Action :=
  match rows.find? (fun r => r.1 == l) with
  | none => none
  | some (_, dflt, devOnly, field) =>
    if devOnly && !lg.dev then none
    else
      let d : Action := if dflt == "WriteThenFatal" then .fatal else if dflt == "WriteThenGoexit" then .goexit else .panic
      let h : HookCfg := if field == "onFatal" then lg.onFatal else lg.onPanic
      some (override d h)

/-- the model's terminal switch is the one in the source (and it names only the three known defaults) -/
theorem terminal_matches_source (lg : Logger) (l : Level) :
    lg.terminal l = rowsTerminal Gen.terminalRows lg l ∧
    Gen.terminalRows.all (fun r => r.2.1 == "WriteThenPanic" || r.2.1 == "WriteThenFatal") = true ∧
    Gen.terminalRows.all (fun r => r.2.2.2 == "onPanic" || r.2.2.2 == "onFatal") = true := by
  refine ⟨?_, by decide, by decide⟩
  unfold Logger.terminal rowsTerminal Gen.terminalRows panicL fatalL dpanicL
  by_cases h4 : l = 4
  · subst h4; simp
  · by_cases h5 : l = 5
    · subst h5; simp
    · by_cases h3 : l = 3
      · subst h3; cases lg.dev <;> simp
      · have e4 : ((4 : Int) == l) = false := beq_false_of_ne (fun h => h4 h.symm)
        have e5 : ((5 : Int) == l) = false := beq_false_of_ne (fun h => h5 h.symm)
        have e3 : ((3 : Int) == l) = false := beq_false_of_ne (fun h => h3 h.symm)
        simp [h4, h5, h3, List.find?, e4, e5, e3]

/-- terminalHookOverride replaces exactly nil and WriteThenNoop -/
theorem override_matches_source : Gen.overrideDefaults = ["nil", "WriteThenNoop"] := by decide

/-- non-vacuity: Fatal through the gRPC adapter's Fatalln on a logger whose only core is a no-op and whose fatal
    hook is the no-op action -/
example :
    (Gen.frontEnds.filter (fun fe => fe.recv == "zapgrpc.Logger" && fe.name == "Fatalln" && fe.takes fatalL)).map
      (fun fe => (fe.run (fun _ => 0) (fun _ => 0) { core := .nop, onFatal := .noop } fatalL [] {}).evs) =
      [[.term .fatal]] := by decide

/-! ### failing sinks (Model/Deliver.ceWrite, tied by the `failterm` ops: every failing subset of ≤ 3 sinks × level × front end) -/

/-- the terminal action is taken whatever any sink returned: with a terminal hook set, `CheckedEntry.Write` does exactly
    what it does without one — every accepted sink written, the failure line — and THEN gives up control -/
theorem terminal_despite_sink_failures (c : Deliver.Core) :
    Deliver.ceWrite c true = Deliver.ceWrite c false ++ [Deliver.DEv.term] := by
  simp [Deliver.ceWrite]

/-- … and it is the last thing that happens, exactly once -/
theorem terminal_last_once (c : Deliver.Core) :
    (Deliver.ceWrite c true).getLast? = some Deliver.DEv.term ∧ (Deliver.ceWrite c true).count Deliver.DEv.term = 1 := by
  constructor
  · simp [Deliver.ceWrite]
  · simp only [Deliver.ceWrite]
    rw [List.count_append, List.count_append]
    have h1 : ∀ l : List Deliver.Sink, (l.map fun s => Deliver.DEv.wrote s.id).count Deliver.DEv.term = 0 := by
      intro l; induction l with
      | nil => rfl
      | cons a t ih => simp [List.count_cons, ih]
    rw [h1]
    split <;> simp

/-- before control is lost every sink under every accepting core has been handed the entry, failing or not -/
theorem failing_sinks_written_before_terminal (c : Deliver.Core) (s : Deliver.Sink)
    (h : s ∈ (Deliver.accepted c).flatMap Deliver.sinksOf) : Deliver.DEv.wrote s.id ∈ Deliver.ceWrite c false := by
  simp only [Deliver.ceWrite, List.mem_append, List.mem_map]
  exact Or.inl (Or.inl ⟨s, h, rfl⟩)

/-- the terminal decision does not read any sink outcome: flipping every write/sync error flag of an ioCore changes
    neither whether nor when the terminal action is taken relative to the writes -/
theorem terminal_ignores_outcomes (en : Bool) (sinks : List Deliver.Sink) :
    (Deliver.ceWrite (.io en sinks) true).filter (· ≠ Deliver.DEv.errLine) =
      (Deliver.ceWrite (.io en (sinks.map fun s => { s with writeErr := false, syncErr := false })) true).filter (· ≠ Deliver.DEv.errLine) := by
  cases en <;> simp [Deliver.ceWrite, Deliver.accepted, Deliver.sinksOf, List.filter_append, List.map_map, Function.comp_def,
    List.filter_map]
  all_goals (split <;> simp)

mutual
theorem syncedOf_clean (c : Deliver.Core) (h : ∀ s ∈ Deliver.sinksOf c, s.writeErr = false) :
    Deliver.syncedOf c = (Deliver.sinksOf c).map (·.id) := by
  cases c with
  | io en sinks =>
    have : sinks.all (fun s => !s.writeErr) = true := by
      simp only [List.all_eq_true, Bool.not_eq_true']
      exact fun s hs => h s (by simpa [Deliver.sinksOf] using hs)
    simp [Deliver.syncedOf, Deliver.sinksOf, this]
  | tee cs => simpa [Deliver.syncedOf, Deliver.sinksOf] using syncedOfL_clean cs (by simpa [Deliver.sinksOf] using h)
  | wrap c => simpa [Deliver.syncedOf, Deliver.sinksOf] using syncedOf_clean c (by simpa [Deliver.sinksOf] using h)
theorem syncedOfL_clean (cs : List Deliver.Core) (h : ∀ s ∈ Deliver.sinksOfL cs, s.writeErr = false) :
    Deliver.syncedOfL cs = (Deliver.sinksOfL cs).map (·.id) := by
  cases cs with
  | nil => simp [Deliver.syncedOfL, Deliver.sinksOfL]
  | cons c r =>
    simp only [Deliver.sinksOfL, List.mem_append] at h
    simp [Deliver.syncedOfL, Deliver.sinksOfL, syncedOf_clean c (fun s hs => h s (Or.inl hs)),
      syncedOfL_clean r (fun s hs => h s (Or.inr hs))]
end

/-- C06 "the built-in IO cores have synced their sinks before control is lost": when no write fails, every sink the
    entry was handed to has been synced when the terminal hook runs — whatever the composition -/
theorem clean_sinks_synced_before_terminal (c : Deliver.Core)
    (h : ∀ s ∈ (Deliver.accepted c).flatMap Deliver.sinksOf, s.writeErr = false) :
    Deliver.syncedAtTerminal c = ((Deliver.accepted c).flatMap Deliver.sinksOf).map (·.id) := by
  unfold Deliver.syncedAtTerminal
  generalize Deliver.accepted c = acs at h
  induction acs with
  | nil => simp
  | cons a r ih =>
    simp only [List.flatMap_cons, List.mem_append] at h
    simp [List.flatMap_cons, syncedOf_clean a (fun s hs => h s (Or.inl hs)), ih (fun s hs => h s (Or.inr hs))]

/-- and a failing sink only withholds the sync of ITS OWN io core: the sinks of every other accepting core are synced -/
theorem sync_withheld_only_by_own_core (en : Bool) (sinks : List Deliver.Sink) (r : List Deliver.Core)
    (h : ∀ s ∈ Deliver.sinksOfL r, s.writeErr = false) :
    ∀ s ∈ Deliver.sinksOfL r, s.id ∈ Deliver.syncedOfL (.io en sinks :: r) := by
  intro s hs
  simp only [Deliver.syncedOfL, List.mem_append]
  right; rw [syncedOfL_clean r h]; exact List.mem_map.mpr ⟨s, hs, rfl⟩

example : Deliver.syncedAtTerminal (.tee [.io true [⟨0, true, false⟩, ⟨1, false, false⟩], .io true [⟨2, false, true⟩]]) = [2] := by decide

example : Deliver.ceWrite (.tee [.io true [⟨0, true, false⟩], .io true [⟨1, false, false⟩]]) true =
    [.wrote 0, .wrote 1, .errLine, .term] := by decide

end ZapVerif.C06

/-! ## the terminal hook in `CheckedEntry.Write` IS the source (Go→GoMini translation, docs/TRANSLATOR.md)

From `Gen/TransCE.lean` (the body of `(*CheckedEntry).Write` read from zapcore/entry.go on this run; main theorem
`C10.CheckedEntry_Write_matches_source`): with a terminal hook set, `Write` makes exactly the calls it makes without
one — every core written, the failure report — and then calls `hook.OnWrite` exactly once, immediately before the
pool put, WHATEVER the cores returned.  This is the source-level content of `terminal_despite_sink_failures`
(`C10.CheckedEntry_Write_is_ceWrite` reads the trace as `Deliver.ceWrite`). -/
namespace ZapVerif.C06
open ZapVerif.GoMini ZapVerif.TransCE

theorem CheckedEntry_Write_hook_matches_source (cs : List (Nat × List Val)) (eo : List Val) (hook : Val)
    (time entry self fs : Val) (ev : List Val) (fuel : Nat) :
    ∃ pre : List Val,
      run X (fuel + 1) "Write" [fs] (ceFld false false eo [hook] (cs.map coreOf) time entry self ev) =
        .done [] (ceFld false true eo [hook] (cs.map coreOf) time entry self
          (ev ++ pre ++ [evHook [hook] self fs, evPut self])) ∧
      run X (fuel + 1) "Write" [fs] (ceFld false false eo [] (cs.map coreOf) time entry self ev) =
        .done [] (ceFld false true eo [] (cs.map coreOf) time entry self (ev ++ pre ++ [evPut self])) ∧
      (∀ e ∈ pre, e ≠ evHook [hook] self fs ∧ e ≠ evPut self) := by
  refine ⟨cs.map (fun c => evCore (coreOf c) entry fs) ++
    (if cs.flatMap (·.2) ≠ [] ∧ eo ≠ [] then [evErrLine eo time (cs.flatMap (·.2)), evErrSync eo] else []), ?_, ?_, ?_⟩
  · rw [C10.CheckedEntry_Write_matches_source]; simp [expected, List.append_assoc]
  · rw [C10.CheckedEntry_Write_matches_source]; simp [expected, List.append_assoc]
  · intro e he
    simp only [List.mem_append, List.mem_map] at he
    rcases he with ⟨c, _, rfl⟩ | he
    · simp [evCore, evHook, evPut, nm_coreWrite, nm_hook, nm_put]
    · split at he
      · simp only [List.mem_cons, List.not_mem_nil, or_false] at he
        rcases he with rfl | rfl <;> simp [evErrLine, evErrSync, evHook, evPut, nm_fprintf, nm_sync, nm_hook, nm_put]
      · cases he

end ZapVerif.C06

/-! ## `CheckedEntry.After` / `Should` ARE the source (table `Gen/TransCEAdd.lean`)

`Logger.check` installs the terminal behaviour with `ce = ce.After(ent, hook)`: on a nil entry (no core accepted the
level) a fresh entry is created — which is why Panic/Fatal terminate even when nothing is written — and in every case
the hook is stored in `after`, the field `CheckedEntry.Write` reads (`CheckedEntry_Write_hook_matches_source`). -/
namespace ZapVerif.C06
set_option linter.unusedSimpArgs false
open ZapVerif.GoMini

theorem After_matches_source (isnil dirty : Bool) (eo after cores : List Val) (entry self ent : Val) (hook : List Val)
    (fuel : Nat) :
    run TransCEAdd.X (fuel + 1) "After" [ent, .list hook] (TransCEAdd.ceFld isnil dirty eo after cores entry self) =
      .done [self] (if isnil then TransCEAdd.ceFld false false [] hook [] ent self
                    else TransCEAdd.ceFld false dirty eo hook cores entry self) := by
  refine run_of_fin TransCEAdd.X _ _ Gen.TransCEAdd.After [ent, .list hook] _ _ _ rfl rfl ?_
  show (exec TransCEAdd.X (fuel + 1) Gen.TransCEAdd.After_body ⟨[("p0", ent), ("p1", .list hook)], _⟩).fin = _
  rw [exec_succ]
  cases isnil <;> simp [Gen.TransCEAdd.After_body, TransCEAdd.X]

/-- `Should` (the deprecated spelling) is `After` -/
theorem Should_matches_source (isnil dirty : Bool) (eo after cores : List Val) (entry self ent : Val) (hook : List Val)
    (fuel : Nat) :
    run TransCEAdd.X (fuel + 2) "Should" [ent, .list hook] (TransCEAdd.ceFld isnil dirty eo after cores entry self) =
      .done [self] (if isnil then TransCEAdd.ceFld false false [] hook [] ent self
                    else TransCEAdd.ceFld false dirty eo hook cores entry self) := by
  refine run_of_fin TransCEAdd.X _ _ Gen.TransCEAdd.Should [ent, .list hook] _ _ _ rfl rfl ?_
  show (exec TransCEAdd.X (fuel + 2) Gen.TransCEAdd.Should_body ⟨[("p0", ent), ("p1", .list hook)], _⟩).fin = _
  rw [exec_succ]
  have h : ∀ σ : State, retK σ [.loc "l0"] "After"
      (exec TransCEAdd.X (fuel + 1) Gen.TransCEAdd.After_body
        ⟨[("p0", ent), ("p1", .list hook)], TransCEAdd.ceFld isnil dirty eo after cores entry self⟩) =
      .normal (({ σ with fld := (if isnil then TransCEAdd.ceFld false false [] hook [] ent self
                    else TransCEAdd.ceFld false dirty eo hook cores entry self) } : State).assign1 (.loc "l0") self) := by
    intro σ
    refine retK_of_fin1 σ _ _ _ _ _ ?_
    rw [exec_succ]
    cases isnil <;> simp [Gen.TransCEAdd.After_body, TransCEAdd.X]
  have hf : TransCEAdd.X.funs = Gen.TransCEAdd.funs := rfl
  cases isnil <;> simp [Gen.TransCEAdd.Should_body, hf, h]

end ZapVerif.C06

/-! ## `terminalHookOverride` and `Logger.check` ARE the source (table `Gen/TransLogger.lean`)

`Logger.check` is translated up to (and including) its early return for entries that no core writes; everything after
`ce.ErrorOutput = log.errorOutput` (error output, caller and stack annotation) is the recorded intrinsic
`Logger.annotate` (covered by C15).  For every level, core, development flag and `onPanic`/`onFatal` setting the
interpreted function returns: nil when the level is below DPanic and the core disables it (the core is not even
consulted); otherwise the core's `Check` result with the terminal hook of `TransLogger.terminal` installed by `After` —
which by `terminal_is_model` is `Cores.Logger.terminal`: Panic ⇒ panic (or the override), Fatal ⇒ exit (or the
override), DPanic ⇒ panic iff development, and a nil / no-op override never disarms it — even when no core accepted
the entry (the result is then a CheckedEntry without cores that exists only to run the hook). -/
namespace ZapVerif.C06
set_option linter.unusedSimpArgs false
open ZapVerif.GoMini ZapVerif.TransLogger ZapVerif.Gen.TransLogger

/-- `terminalHookOverride(default, override)`: a nil or `WriteThenNoop` override yields the default -/
theorem terminalHookOverride_matches_source (P : Par) (d o : List Val) (fld : Env) (fuel : Nat) :
    run (X P) (fuel + 1) "terminalHookOverride" [.list d, .list o] fld = .done [.list (ovr d o)] fld := by
  refine run_of_fin (X P) _ _ Gen.TransLogger.terminalHookOverride [.list d, .list o] _ _ _ rfl rfl ?_
  show (exec (X P) (fuel + 1) terminalHookOverride_body ⟨[("p0", .list d), ("p1", .list o)], fld⟩).fin = _
  rw [exec_succ]
  cases o with
  | nil => simp [terminalHookOverride_body, ovr]
  | cons a r =>
    have hpos : ¬ ((r.length : Int) + 1 = 0) := by omega
    cases hb : Val.beqs (a :: r) [.int 0] <;> simp [terminalHookOverride_body, ovr, hpos, hb] <;> simp_all

/-- what `Logger.check` returns and records -/
def checkSpec (P : Par) (l : Int) (msg name : Bytes) (core clock : Val) (dev : Bool) (onPanic onFatal : List Val) :
    Val × List Val :=
  if l < 3 ∧ P.cen core l = false then (.list [], [])
  else
    let ent : Val := .list [.bytes name, P.now clock, .int l, .bytes msg]
    let ce0 := (P.chk core ent).map fun cs => (cs, ([] : List Val))
    let ce1 := match terminal l dev onPanic onFatal with
      | none => ce0
      | some h => after ce0 h
    let evs := [Val.list [nm "Clock.Now", clock], Val.list [nm "Core.Check", core, ent, .list []]]
    if ce0.isNone then (ceV ce1, evs)
    else (P.ann (ceV ce1) ent, evs ++ [Val.list [nm "Logger.annotate", ceV ce1, ent]])

theorem Logger_check_matches_source (P : Par) (l : Int) (msg name : Bytes) (core clock : Val) (dev : Bool)
    (onPanic onFatal : List Val) (ev : List Val) (fuel : Nat) :
    run (X P) (fuel + 2) "Logger_check" [.int l, .bytes msg] (logFld core name clock dev onPanic onFatal ev) =
      .done [(checkSpec P l msg name core clock dev onPanic onFatal).1]
        (logFld core name clock dev onPanic onFatal (ev ++ (checkSpec P l msg name core clock dev onPanic onFatal).2)) := by
  refine run_of_fin (X P) _ _ Gen.TransLogger.Logger_check [.int l, .bytes msg] _ _ _ rfl rfl ?_
  show (exec (X P) (fuel + 2) Logger_check_body ⟨[("p0", .int l), ("p1", .bytes msg)], _⟩).fin = _
  rw [exec_succ]
  have hovr : ∀ (σ : State) (lv : LV) (d o : List Val) (fl : Env), retK σ [lv] "terminalHookOverride"
      (exec (X P) (fuel + 1) terminalHookOverride_body ⟨[("p0", .list d), ("p1", .list o)], fl⟩) =
      .normal (({ σ with fld := fl } : State).assign1 lv (.list (ovr d o))) := by
    intro σ lv d o fl
    refine retK_of_fin1 σ _ _ _ _ _ ?_
    rw [exec_succ]
    cases o with
    | nil => simp [terminalHookOverride_body, ovr]
    | cons a r =>
      have hpos : ¬ ((r.length : Int) + 1 = 0) := by omega
      cases hb : Val.beqs (a :: r) [.int 0] <;> simp [terminalHookOverride_body, ovr, hpos, hb] <;> simp_all
  by_cases hg : l < 3 ∧ P.cen core l = false
  · simp [Logger_check_body, checkSpec, hg, hg.1, hg.2]
  · have hpos : ∀ k : Nat, ¬ ((k : Int) + 1 = 0) := by intro k; omega
    have hcond : (l < 3 → P.cen core l = true) := by
      intro h; cases hc : P.cen core l
      · exact absurd ⟨h, hc⟩ hg
      · rfl
    cases hchk : P.chk core (Val.list [.bytes name, P.now clock, .int l, .bytes msg]) with
    | none =>
      by_cases h4 : l = 4
      · subst h4; simp [Logger_check_body, checkSpec, terminal, indexVal, hchk, hovr, after, nm_now, nm_chk]
      · by_cases h5 : l = 5
        · subst h5; simp [Logger_check_body, checkSpec, terminal, indexVal, hchk, hovr, after, nm_now, nm_chk]
        · by_cases h3 : l = 3
          · subst h3
            cases dev <;> simp [Logger_check_body, checkSpec, terminal, indexVal, hchk, hovr, after, nm_now, nm_chk]
          · by_cases hlt : l < 3
            · have hc := hcond hlt
              simp [Logger_check_body, checkSpec, terminal, indexVal, hchk, hovr, after, nm_now, nm_chk, h3, h4, h5, hlt, hc, hg]
            · simp [Logger_check_body, checkSpec, terminal, indexVal, hchk, hovr, after, nm_now, nm_chk, h3, h4, h5, hlt, hg]
    | some cs =>
      by_cases h4 : l = 4
      · subst h4; simp [Logger_check_body, checkSpec, terminal, indexVal, hchk, hovr, after, nm_now, nm_chk, nm_ann]
      · by_cases h5 : l = 5
        · subst h5; simp [Logger_check_body, checkSpec, terminal, indexVal, hchk, hovr, after, nm_now, nm_chk, nm_ann]
        · by_cases h3 : l = 3
          · subst h3
            cases dev <;> simp [Logger_check_body, checkSpec, terminal, indexVal, hchk, hovr, after, nm_now, nm_chk, nm_ann]
          · by_cases hlt : l < 3
            · have hc := hcond hlt
              simp [Logger_check_body, checkSpec, terminal, indexVal, hchk, hovr, after, nm_now, nm_chk, nm_ann, h3, h4, h5, hlt, hc, hg]
            · simp [Logger_check_body, checkSpec, terminal, indexVal, hchk, hovr, after, nm_now, nm_chk, nm_ann, h3, h4, h5, hlt, hg]

/-- the hook `Logger.check` installs is the model's `Logger.terminal` (hook values read as `HookCfg` / `Action`):
    `panic_always`, `fatal_always`, `dpanic_iff_dev` and the override theorems are about this function -/
theorem Logger_check_terminal_is_model (lg : Cores.Logger) (l : Int) :
    terminal l lg.dev (hookV lg.onPanic) (hookV lg.onFatal) = (lg.terminal l).map actV :=
  terminal_is_model lg l

/-- in particular: at Panic and Fatal level the result of `Logger.check` is never nil and always carries a hook,
    whatever the core answers and whatever `onPanic` / `onFatal` are set to -/
theorem Logger_check_panic_fatal_armed (P : Par) (l : Int) (hl : l = 4 ∨ l = 5) (msg name : Bytes) (core clock : Val)
    (dev : Bool) (onPanic onFatal : List Val) :
    ∃ h, terminal l dev onPanic onFatal = some h ∧ h ≠ [] ∧ ¬ (Val.beqs h [.int 0] = true) ∧
      ((P.chk core (.list [.bytes name, P.now clock, .int l, .bytes msg])).isNone →
        (checkSpec P l msg name core clock dev onPanic onFatal).1 = ceV (some ([], h))) := by
  have hov : ∀ (d : Int) (o : List Val), d = 2 ∨ d = 3 → ovr [.int d] o ≠ [] ∧ ¬ (Val.beqs (ovr [.int d] o) [.int 0] = true) := by
    intro d o hd
    unfold ovr
    split
    · rcases hd with rfl | rfl <;> simp
    · rename_i hne
      constructor
      · intro h; apply hne; left; simp [h]
      · intro h; apply hne; right; exact h
  rcases hl with rfl | rfl
  · refine ⟨ovr [.int 2] onPanic, by simp [terminal], (hov 2 _ (Or.inl rfl)).1, (hov 2 _ (Or.inl rfl)).2, ?_⟩
    intro hn
    cases hc : P.chk core (.list [.bytes name, P.now clock, .int 4, .bytes msg]) with
    | none => simp [checkSpec, terminal, hc, after]
    | some cs => rw [hc] at hn; cases hn
  · refine ⟨ovr [.int 3] onFatal, by simp [terminal], (hov 3 _ (Or.inr rfl)).1, (hov 3 _ (Or.inr rfl)).2, ?_⟩
    intro hn
    cases hc : P.chk core (.list [.bytes name, P.now clock, .int 5, .bytes msg]) with
    | none => simp [checkSpec, terminal, hc, after]
    | some cs => rw [hc] at hn; cases hn

end ZapVerif.C06

/-! ## the gRPC adapter's printers ARE the source (translator round 4, table `Gen/TransGrpc.lean`)

zapgrpc `sprintln`, `printer.Print` / `Printf` / `Println` and `Logger.Infoln` / `Warningln` / `Errorln`, translated
mechanically; the delegate's methods are recorded calls, `Enabled` and `fmt.Sprintln` parameters.  `Println` is skipped
only below DPanic on a disabled level: the `fatal` printer (`Fatalln`) always reaches the delegate's `Fatal`
(`printer_Println_fatal_never_skipped`) — the front-end side of "a fatal entry is never skipped". -/
set_option linter.unusedSimpArgs false
namespace ZapVerif.C06
open ZapVerif ZapVerif.GoMini ZapVerif.TransGrpc ZapVerif.Gen.TransGrpc

/-- `sprintln`: `fmt.Sprintln` without its last byte (never a slice panic: `Sprintln` ends in a newline) -/
theorem sprintln_exec_matches_source (P : Par) (args : List Val) (fl : Env) (fuel : Nat)
    (hne : P.sprintln args ≠ []) (hlen : ((P.sprintln args).length : Int) < 9223372036854775808) :
    (exec (X P) (fuel + 1) sprintln_body ⟨[("p0", .list args)], fl⟩).fin = some ([.bytes (P.sprintln args).dropLast], fl) := by
  rw [exec_succ]
  have hpos : 0 < (P.sprintln args).length := List.length_pos_iff.mpr hne
  have hw : wrap .int (((P.sprintln args).length : Int) - 1) = ((P.sprintln args).length : Int) - 1 := by
    rw [wrap_int_id] <;> omega
  have hc : (0 : Int) ≤ ((P.sprintln args).length : Int) - 1 ∧ ((P.sprintln args).length : Int) - 1 ≤ (P.sprintln args).length := by omega
  have ht : (((P.sprintln args).length : Int) - 1).toNat = (P.sprintln args).length - 1 := by omega
  have h1 : (1 : Int) ≤ ((P.sprintln args).length : Int) := by omega
  simp [sprintln_body, hw, hc, ht, h1, List.dropLast_eq_take]

/-- `printer.Print` / `Printf`: the delegate's function is called with exactly the arguments, whatever the level -/
theorem printer_Print_matches_source (P : Par) (args ev : List Val) (enab pr prf : Val) (l : Int) (fuel : Nat) :
    run (X P) (fuel + 1) "printer_Print" [.list args] (pEnv ev enab l pr prf) =
      .done [] (pEnv (ev ++ [.list [TransGrpc.nm "PrintFn.call", pr, .list args]]) enab l pr prf) := by
  apply run_of_fin (X P) _ _ Gen.TransGrpc.printer_Print _ _ _ _ rfl rfl
  rw [exec_succ]; simp [printer_Print_body, pEnv, nm_print]

theorem printer_Printf_matches_source (P : Par) (fmt : Bytes) (args ev : List Val) (enab pr prf : Val) (l : Int) (fuel : Nat) :
    run (X P) (fuel + 1) "printer_Printf" [.bytes fmt, .list args] (pEnv ev enab l pr prf) =
      .done [] (pEnv (ev ++ [.list [TransGrpc.nm "PrintfFn.call", prf, .bytes fmt, .list args]]) enab l pr prf) := by
  apply run_of_fin (X P) _ _ Gen.TransGrpc.printer_Printf _ _ _ _ rfl rfl
  rw [exec_succ]; simp [printer_Printf_body, pEnv, nm_printf]

/-- `printer.Println`: skipped ONLY for a level below DPanic that is not enabled — a printer at DPanic, Panic or Fatal
    (the `fatal` printer of the adapter) always reaches the delegate, with the `Sprintln` text minus its newline -/
theorem printer_Println_matches_source (P : Par) (args ev : List Val) (enab pr prf : Val) (l : Int) (fuel : Nat)
    (hne : P.sprintln args ≠ []) (hlen : ((P.sprintln args).length : Int) < 9223372036854775808) :
    run (X P) (fuel + 2) "printer_Println" [.list args] (pEnv ev enab l pr prf) =
      .done [] (pEnv (if l < 3 ∧ P.en enab l = false then ev
        else ev ++ [.list [TransGrpc.nm "PrintFn.call", pr, .bytes (P.sprintln args).dropLast]]) enab l pr prf) := by
  have hcall : ∀ σ : State, retK σ [.loc "l0"] "sprintln"
      (exec (X P) (fuel + 1) sprintln_body ⟨[("p0", .list args)], pEnv ev enab l pr prf⟩) = _ :=
    fun σ => retK_of_fin1 σ _ _ _ _ _ (sprintln_exec_matches_source P args _ fuel hne hlen)
  apply run_of_fin (X P) _ _ Gen.TransGrpc.printer_Println _ _ _ _ rfl rfl
  rw [exec_succ]
  simp only [pEnv] at hcall ⊢
  by_cases hl : l < 3
  · cases hc : P.en enab l
    · simp [printer_Println_body, hl, hc]
    · simp [printer_Println_body, hl, hc, hcall, nm_print]
  · simp [printer_Println_body, hl, hcall, nm_print]

/-- a printer at Fatal level is never skipped by `Println` (the gRPC `Fatalln`) -/
theorem printer_Println_fatal_never_skipped (P : Par) (args ev : List Val) (enab pr prf : Val) (l : Int) (fuel : Nat) (hl : 3 ≤ l)
    (hne : P.sprintln args ≠ []) (hlen : ((P.sprintln args).length : Int) < 9223372036854775808) :
    run (X P) (fuel + 2) "printer_Println" [.list args] (pEnv ev enab l pr prf) =
      .done [] (pEnv (ev ++ [.list [TransGrpc.nm "PrintFn.call", pr, .bytes (P.sprintln args).dropLast]]) enab l pr prf) := by
  rw [printer_Println_matches_source P args ev enab pr prf l fuel hne hlen]
  have : ¬ l < 3 := by omega
  simp [this]

/-- `Infoln` / `Warningln` / `Errorln`: the delegate's method of THAT level, iff that level is enabled -/
theorem Logger_ln_matches_source (P : Par) (args ev : List Val) (delegate en : Val) (fuel : Nat)
    (hne : P.sprintln args ≠ []) (hlen : ((P.sprintln args).length : Int) < 9223372036854775808) :
    run (X P) (fuel + 2) "Logger_Infoln" [.list args] (lEnv ev delegate en) =
      .done [] (lEnv (if P.en en 0 then ev ++ [.list [TransGrpc.nm "Sugar.Info", delegate, .bytes (P.sprintln args).dropLast]] else ev) delegate en) ∧
    run (X P) (fuel + 2) "Logger_Warningln" [.list args] (lEnv ev delegate en) =
      .done [] (lEnv (if P.en en 1 then ev ++ [.list [TransGrpc.nm "Sugar.Warn", delegate, .bytes (P.sprintln args).dropLast]] else ev) delegate en) ∧
    run (X P) (fuel + 2) "Logger_Errorln" [.list args] (lEnv ev delegate en) =
      .done [] (lEnv (if P.en en 2 then ev ++ [.list [TransGrpc.nm "Sugar.Error", delegate, .bytes (P.sprintln args).dropLast]] else ev) delegate en) := by
  have hcall : ∀ σ : State, retK σ [.loc "l0"] "sprintln"
      (exec (X P) (fuel + 1) sprintln_body ⟨[("p0", .list args)], lEnv ev delegate en⟩) = _ :=
    fun σ => retK_of_fin1 σ _ _ _ _ _ (sprintln_exec_matches_source P args _ fuel hne hlen)
  simp only [lEnv] at hcall
  refine ⟨?_, ?_, ?_⟩
  · apply run_of_fin (X P) _ _ Gen.TransGrpc.Logger_Infoln _ _ _ _ rfl rfl
    rw [exec_succ]
    cases hc : P.en en 0 <;> simp [Logger_Infoln_body, lEnv, hc, hcall, nm_info]
  · apply run_of_fin (X P) _ _ Gen.TransGrpc.Logger_Warningln _ _ _ _ rfl rfl
    rw [exec_succ]
    cases hc : P.en en 1 <;> simp [Logger_Warningln_body, lEnv, hc, hcall, nm_warn]
  · apply run_of_fin (X P) _ _ Gen.TransGrpc.Logger_Errorln _ _ _ _ rfl rfl
    rw [exec_succ]
    cases hc : P.en en 2 <;> simp [Logger_Errorln_body, lEnv, hc, hcall, nm_error]

end ZapVerif.C06
