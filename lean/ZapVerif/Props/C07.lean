import ZapVerif.Model.Derive
import ZapVerif.Model.Slices
import ZapVerif.Proofs.Derive
import ZapVerif.Gen.SliceOwn
/-! # C07 — logger context is exact and isolated across derived loggers

Pure semantics: a derivation path builds a core (`derive`) by the real per-wrapper `With` push-downs and lazy wrappers;
what any leaf emits for it is the leaf's own context, then the path's fields in order, then the call-site fields
(`path_fields`), under the dot-joined non-empty names (`path_name`). Isolation is functional in the model (a step only
appends a node, `step_keeps_nodes`); the state that IS shared between loggers — the once-cells of WithLazy — only ever
goes from "pending" to "evaluated" and then never changes (`once_cells_stable`). The two places where the real code
relies on Go slice / buffer ownership are proved as refinements over the heap model M11. -/
namespace ZapVerif.C07
open ZapVerif ZapVerif.Cores ZapVerif.Derive

/-- every wrapper forwards `With` to what it wraps and re-wraps (tee: every branch; lazy: the initialised core, and
    the result is no longer lazy) -/
theorem wrapper_with_structure (sn : Snap) (fs : List FldP) :
    (∀ cs, pushF sn (.tee cs) fs = .tee (pushFAll sn cs fs)) ∧
    (∀ c en, pushF sn (.incr c en) fs = .incr (pushF sn c fs) en) ∧
    (∀ c h, pushF sn (.hooked c h) fs = .hooked (pushF sn c fs) h) ∧
    (∀ c s p, pushF sn (.sampler c s p) fs = .sampler (pushF sn c fs) s p) ∧
    (∀ cell c pfs, pushF sn (.lazy cell c pfs) fs = pushF sn c (cellPairs sn cell pfs ++ fs)) ∧
    (∀ id en io ctx, pushF sn (.leaf id en io ctx) fs = .leaf id en io (ctx ++ fs.map (·.pick io))) := by
  simp [pushF]

/-- `With` commutes with every wrapper: checking the derived core is checking the original core with the fields
    added to whatever each accepting leaf emits — same leaves, same hooks, same order -/
theorem wrapper_with_commutes (σ : Store) (sn : Snap) (l : Level) (c : Core) (fs pend : List FldP) (ce : List Item) :
    check σ sn l (pushF sn c fs) pend ce = check σ sn l c (fs ++ pend) ce :=
  check_pushF σ sn l c fs pend ce

/-- a leaf emits its own context, then the pending fields in order -/
theorem leaf_emits (σ : Store) (sn : Snap) (l : Level) (id : Nat) (en : Enab) (io : Bool) (ctx : List Fld)
    (pend : List FldP) (h : en.on σ l = true) :
    check σ sn l (.leaf id en io ctx) pend [] = [.leaf id io (ctx ++ pend.map (·.pick io))] := by
  simp [check, h]

/-- and the written entry is that context followed by the call-site fields (resolved now for an encoder) -/
theorem write_appends_callsite (μ : Val) (l : Level) (fs : List Fld) (id : Nat) (ctx : List Fld) :
    (Ev.write id false (ctx ++ fs) ∈ writeItem μ l fs (.leaf id false ctx)) ∧
    (Ev.write id true (ctx ++ fs.map (Fld.resolve μ)) ∈ writeItem μ l fs (.leaf id true ctx)) := by
  simp [writeItem]

/-- exactness: the core built by ANY derivation path over ANY root core checks like the root core with the path's
    fields (in path order) pending — hence every leaf that accepts emits exactly own context ++ path fields ++ call site -/
theorem path_fields (σ : Store) (sn : Snap) (l : Level) (segs : List Seg) : ∀ (c : Core) (pend : List FldP) (ce : List Item),
    check σ sn l (derive sn c segs) pend ce = check σ sn l c (segPairs sn segs ++ pend) ce := by
  induction segs with
  | nil => intro c pend ce; rfl
  | cons s r ih =>
    intro c pend ce
    cases s with
    | eager fs =>
      simp only [derive, segPairs]
      rw [ih, check_pushF]; simp [List.append_assoc]
    | lazy cell pfs =>
      simp only [derive, segPairs]
      rw [ih, check_lazy]; simp [List.append_assoc]

/-- deriving changes neither which levels are enabled nor which leaves/hooks are reached -/
theorem path_same_destinations (σ : Store) (sn : Snap) (l : Level) (segs : List Seg) (c : Core) :
    leafIds (check σ sn l (derive sn c segs) [] []) = leafIds (check σ sn l c [] []) := by
  rw [path_fields, leafIds_check, leafIds_check]

/-- WithLazy = With of the fields as they were evaluated when the cell was first forced -/
theorem lazy_eq_with (σ : Store) (sn : Snap) (l : Level) (cell : Nat) (c : Core) (pfs : List Fld) (pend : List FldP)
    (ce : List Item) :
    check σ sn l (.lazy cell c pfs) pend ce = check σ sn l (pushF sn c (cellPairs sn cell pfs)) pend ce := by
  rw [check_lazy, check_pushF]

/-- evaluation happens at first use: forcing an un-initialised cell stores the pending fields resolved under the
    valuation of THAT moment -/
theorem lazy_evaluates_at_first_use (μ : Val) (cell : Nat) (c : Core) (pfs : List Fld) (w : W) (h : w.snap cell = none) :
    (forceCell μ cell c pfs w).snap cell = some (pfs.map (Fld.resolve μ)) := by
  simp [forceCell, h, Snap.set]

/-- … and only once: an initialised cell is never re-evaluated, by any later With, Check or log on any logger that
    shares it, under any later valuation -/
theorem once_cells_stable (σ : Store) (μ : Val) (w : W) (cell : Nat) (r : List Fld) (h : w.snap cell = some r) :
    (∀ c pfs, (forceCell μ cell c pfs w) = w) ∧
    (∀ c fs, (withEv μ c fs w).snap cell = some r) ∧
    (∀ l c, (checkEv σ μ l c w).snap cell = some r) ∧
    (∀ lg l fs, (Logger.log σ μ lg l fs w).snap cell = some r) := by
  refine ⟨?_, ?_, ?_, ?_⟩
  · intro c pfs; simp [forceCell, h]
  · intro c fs; exact withEv_keeps μ c fs w cell r h
  · intro l c; exact checkEv_keeps σ μ l c w cell r h
  · intro lg l fs; exact log_keeps σ μ lg l fs w cell r h

/-- no emission ever reads an un-initialised once-cell: by the time `Check` has run, every cell whose fields an
    accepting leaf emits is initialised; by the time `With` has run, every cell of the tree is. (So the default arm of
    `cellPairs` in the model is unreachable.) -/
theorem lazy_cells_initialised_before_read (σ : Store) (μ : Val) (l : Level) (c : Core) (fs : List Fld) (w : W) :
    readsOk σ (checkEv σ μ l c w).snap l c = true ∧ allForced (withEv μ c fs w).snap c = true :=
  ⟨checkEv_reads σ μ l c w, withEv_forces μ c fs w⟩

/-- the logger name is the dot-joined sequence of the non-empty names along the path -/
theorem path_name (segs : List (List UInt8)) :
    pathName [] segs = joinDots (segs.filter (· ≠ [])) := by
  have := foldl_named segs [] (by simp)
  simpa [pathName, joinDots] using this

/-- functional isolation in the machine: a step only appends; no existing node (parent, sibling, descendant) changes -/
theorem step_keeps_nodes (σ : Store) (s : St) (st : Step) (i : Nat) (hi : i < s.nodes.size) :
    (step σ s st).nodes[i]? = s.nodes[i]? := by
  cases st <;> simp only [step] <;> (try split) <;> simp [Array.getElem?_push, Nat.ne_of_lt hi]

/-! ## aliasing refinements (M11) -/
open ZapVerif.Slices

/-- observer.With appends through `ctx[:len:len]`: no view of any other live header — parent, siblings, descendants,
    whatever their capacities — changes -/
theorem observer_with_no_alias (h : Heap) (ctx t : Slice) (fields : List Nat) (ht : Live h t) :
    view (observerWith h ctx fields).1 t = view h t :=
  capped_append_no_alias h ctx t fields ht

/-- and the child sees the parent's context followed by its own fields -/
theorem observer_with_view (h : Heap) (ctx : Slice) (fields : List Nat) (hx : fields ≠ []) :
    view (observerWith h ctx fields).1 (observerWith h ctx fields).2 = view h ctx ++ fields :=
  capped_append_view h ctx fields hx

/-- without the cap a sibling derived earlier is overwritten -/
theorem uncapped_aliases :
    ∃ (h : Heap) (s : Slice),
      let (h1, t) := append h s [7]
      let (h2, _) := append h1 s [9]
      view h2 t ≠ view h1 t := by
  refine ⟨{ arr := fun _ => [1, 0], next := 1 }, { id := 0, len := 1, cap := 2 }, ?_⟩
  decide

/-- jsonEncoder.Clone: the clone holds the parent's bytes in a buffer of its own; cloning changes no live view, and
    whatever is appended to the clone afterwards (in place or not) changes no view that was live before the clone -/
theorem json_clone_no_alias (h : Heap) (buf t : Slice) (ht : Live h t) (xs : List Nat) :
    view (jsonClone h buf).1 (jsonClone h buf).2 = view h buf ∧
    view (jsonClone h buf).1 t = view h t ∧
    view (append (jsonClone h buf).1 (jsonClone h buf).2 xs).1 t = view h t := by
  have hne : t.id ≠ h.next := by unfold Live at ht; omega
  have hlive : Live (jsonClone h buf).1 t := by unfold Live at *; simp [jsonClone]; omega
  have h2 : view (jsonClone h buf).1 t = view h t := by simp [jsonClone, view, setArr, hne]
  refine ⟨?_, h2, ?_⟩
  · simp only [jsonClone, view, setArr, if_true]
    apply List.take_of_length_le; simp
  · rw [append_other _ _ _ _ hlive (by simpa [jsonClone] using hne), h2]

/-- the mutant that shares the header: a second clone's append overwrites the first clone's bytes -/
theorem json_clone_shared_aliases :
    ∃ (h : Heap) (buf : Slice),
      let (h0, c1) := jsonCloneShared h buf
      let (h0', c2) := jsonCloneShared h0 buf
      let (h1, c1') := append h0' c1 [7]
      let (h2, _) := append h1 c2 [9]
      view h2 c1' ≠ view h1 c1' := by
  refine ⟨{ arr := fun _ => [1, 0], next := 1 }, { id := 0, len := 1, cap := 2 }, ?_⟩
  decide

/-- non-vacuity: a three-step path (With, WithLazy forced with value 5, With) over a tee of an encoder and an observer -/
example :
    let sn : Snap := fun c => if c = 9 then some [{ key := 2, val := some 5 }] else none
    let a : FldP := ⟨{ key := 1 }, { key := 1 }⟩
    let b : FldP := ⟨{ key := 3 }, { key := 3 }⟩
    check (fun _ => 0) sn 0
      (derive sn (.tee [.leaf 1 (.fn fun _ => true) true [], .leaf 2 (.fn fun _ => true) false []])
        [.eager [a], .lazy 9 [{ key := 2, ref := some 0 }], .eager [b]]) [] [] =
      [.leaf 1 true [{ key := 1 }, { key := 2, val := some 5 }, { key := 3 }],
       .leaf 2 false [{ key := 1 }, { key := 2, ref := some 0 }, { key := 3 }]] := by decide

/-! ### slice ownership (regenerated table Gen/SliceOwn: every site in zap's sources where a slice may end up shared) -/

/-- The reviewed sites. Pattern A (an `append` to a field or slice parameter whose result goes elsewhere — the aliasing hazard
    behind "sibling loggers see each other's fields") does not occur at all; F (`x[:0]` reuse) occurs only on pooled objects
    that own their storage (Buffer.Reset, putSliceEncoder, CheckedEntry.reset); K (a slice parameter kept as it is) occurs
    in the array-field constructors and Binary/ByteString (the Field holds the caller's slice until it is encoded, as
    documented), in DictObject, in NewTee / NewMultiWriteSyncer (the variadic slice becomes the combinator), in NewLazyWith
    (by design: evaluated at first use) and in zaptest.WrapOptions. -/
def reviewedSliceSites : List (String × String × String × String) := [
  ("array.go", "Bools", "K", "bools()"),
  ("array.go", "ByteStrings", "K", "byteStringsArray()"),
  ("array.go", "Complex128s", "K", "complex128s()"),
  ("array.go", "Complex64s", "K", "complex64s()"),
  ("array.go", "Durations", "K", "durations()"),
  ("array.go", "Float32s", "K", "float32s()"),
  ("array.go", "Float64s", "K", "float64s()"),
  ("array.go", "Int16s", "K", "int16s()"),
  ("array.go", "Int32s", "K", "int32s()"),
  ("array.go", "Int64s", "K", "int64s()"),
  ("array.go", "Int8s", "K", "int8s()"),
  ("array.go", "Ints", "K", "ints()"),
  ("array.go", "Strings", "K", "stringArray()"),
  ("array.go", "Times", "K", "times()"),
  ("array.go", "Uint16s", "K", "uint16s()"),
  ("array.go", "Uint32s", "K", "uint32s()"),
  ("array.go", "Uint64s", "K", "uint64s()"),
  ("array.go", "Uint8s", "K", "uint8s()"),
  ("array.go", "Uintptrs", "K", "uintptrs()"),
  ("array.go", "Uints", "K", "uints()"),
  ("buffer/buffer.go", "*Buffer.Reset", "F", "b.bs[:0]"),
  ("field.go", "Binary", "K", "Interface: val"),
  ("field.go", "ByteString", "K", "Interface: val"),
  ("field.go", "DictObject", "K", "dictObject()"),
  ("field.go", "dictField", "K", "dictObject()"),
  ("zapcore/console_encoder.go", "putSliceEncoder", "F", "e.elems[:0]"),
  ("zapcore/entry.go", "*CheckedEntry.reset", "F", "ce.cores[:0]"),
  ("zapcore/lazy_with.go", "NewLazyWith", "K", "fields: fields"),
  ("zapcore/tee.go", "NewTee", "K", "multiCore()"),
  ("zapcore/write_syncer.go", "NewMultiWriteSyncer", "K", "multiWriteSyncer()"),
  ("zaptest/logger.go", "WrapOptions", "K", "opts.zapOptions = zapOpts")
]

/-- today's source has exactly the reviewed slice-sharing sites: a new `append(h.groups, g)`-style derivation, an in-place
    filter of a caller's slice, or a constructor that starts keeping its argument fails here until it is reviewed -/
theorem slice_ownership_as_reviewed : Gen.SliceOwn.rows = reviewedSliceSites := by decide

/-- no aliasing append anywhere in the sources -/
theorem no_aliasing_append : (Gen.SliceOwn.rows.filter fun r => r.2.2.1 == "A") = [] := by decide

end ZapVerif.C07
