import ZapVerif.Model.Derive
import ZapVerif.Model.Slices
import ZapVerif.Proofs.Derive
import ZapVerif.Gen.SliceOwn
import ZapVerif.Proofs.TransDerive
/-! # C07 — logger context is exact and isolated across derived loggers

Pure semantics: a derivation path builds a core (`derive`) by the real per-wrapper `With` push-downs and lazy wrappers;
what any leaf emits for it is the leaf's own context, then the path's fields in order, then the call-site fields
(`path_fields`), under the dot-joined non-empty names (`path_name`). Isolation is functional in the model (a step only
appends a node, `step_keeps_nodes`); the state that IS shared between loggers — the once-cells of WithLazy — only ever
goes from "pending" to "evaluated" and then never changes (`once_cells_stable`). The two places where the real code
relies on Go slice / buffer ownership are proved as refinements over the heap model M11. -/
namespace ZapVerif.C07
open ZapVerif ZapVerif.Cores ZapVerif.Derive

/-- every wrapper forwards `With` to what it wraps and re-wraps (tee: every branch; lazy: the initialised core, and
    the result is no longer lazy) -/
theorem wrapper_with_structure (sn : Snap) (fs : List FldP) :
    (∀ cs, pushF sn (.tee cs) fs = .tee (pushFAll sn cs fs)) ∧
    (∀ c en, pushF sn (.incr c en) fs = .incr (pushF sn c fs) en) ∧
    (∀ c h, pushF sn (.hooked c h) fs = .hooked (pushF sn c fs) h) ∧
    (∀ c s p, pushF sn (.sampler c s p) fs = .sampler (pushF sn c fs) s p) ∧
    (∀ cell c pfs, pushF sn (.lazy cell c pfs) fs = pushF sn c (cellPairs sn cell pfs ++ fs)) ∧
    (∀ id en io ctx, pushF sn (.leaf id en io ctx) fs = .leaf id en io (ctx ++ fs.map (·.pick io))) := by
  simp [pushF]

/-- `With` commutes with every wrapper: checking the derived core is checking the original core with the fields
    added to whatever each accepting leaf emits — same leaves, same hooks, same order -/
theorem wrapper_with_commutes (σ : Store) (sn : Snap) (l : Level) (c : Core) (fs pend : List FldP) (ce : List Item) :
    check σ sn l (pushF sn c fs) pend ce = check σ sn l c (fs ++ pend) ce :=
  check_pushF σ sn l c fs pend ce

/-- a leaf emits its own context, then the pending fields in order -/
theorem leaf_emits (σ : Store) (sn : Snap) (l : Level) (id : Nat) (en : Enab) (io : Bool) (ctx : List Fld)
    (pend : List FldP) (h : en.on σ l = true) :
    check σ sn l (.leaf id en io ctx) pend [] = [.leaf id io (ctx ++ pend.map (·.pick io))] := by
  simp [check, h]

/-- and the written entry is that context followed by the call-site fields (resolved now for an encoder) -/
theorem write_appends_callsite (μ : Val) (l : Level) (fs : List Fld) (id : Nat) (ctx : List Fld) :
    (Ev.write id false (ctx ++ fs) ∈ writeItem μ l fs (.leaf id false ctx)) ∧
    (Ev.write id true (ctx ++ fs.map (Fld.resolve μ)) ∈ writeItem μ l fs (.leaf id true ctx)) := by
  simp [writeItem]

/-- exactness: the core built by ANY derivation path over ANY root core checks like the root core with the path's
    fields (in path order) pending — hence every leaf that accepts emits exactly own context ++ path fields ++ call site -/
theorem path_fields (σ : Store) (sn : Snap) (l : Level) (segs : List Seg) : ∀ (c : Core) (pend : List FldP) (ce : List Item),
    check σ sn l (derive sn c segs) pend ce = check σ sn l c (segPairs sn segs ++ pend) ce := by
  induction segs with
  | nil => intro c pend ce; rfl
  | cons s r ih =>
    intro c pend ce
    cases s with
    | eager fs =>
      simp only [derive, segPairs]
      rw [ih, check_pushF]; simp [List.append_assoc]
    | lazy cell pfs =>
      simp only [derive, segPairs]
      rw [ih, check_lazy]; simp [List.append_assoc]

/-- deriving changes neither which levels are enabled nor which leaves/hooks are reached -/
theorem path_same_destinations (σ : Store) (sn : Snap) (l : Level) (segs : List Seg) (c : Core) :
    leafIds (check σ sn l (derive sn c segs) [] []) = leafIds (check σ sn l c [] []) := by
  rw [path_fields, leafIds_check, leafIds_check]

/-- WithLazy = With of the fields as they were evaluated when the cell was first forced -/
theorem lazy_eq_with (σ : Store) (sn : Snap) (l : Level) (cell : Nat) (c : Core) (pfs : List Fld) (pend : List FldP)
    (ce : List Item) :
    check σ sn l (.lazy cell c pfs) pend ce = check σ sn l (pushF sn c (cellPairs sn cell pfs)) pend ce := by
  rw [check_lazy, check_pushF]

/-- evaluation happens at first use: forcing an un-initialised cell stores the pending fields resolved under the
    valuation of THAT moment -/
theorem lazy_evaluates_at_first_use (μ : Val) (cell : Nat) (c : Core) (pfs : List Fld) (w : W) (h : w.snap cell = none) :
    (forceCell μ cell c pfs w).snap cell = some (pfs.map (Fld.resolve μ)) := by
  simp [forceCell, h, Snap.set]

/-- … and only once: an initialised cell is never re-evaluated, by any later With, Check or log on any logger that
    shares it, under any later valuation -/
theorem once_cells_stable (σ : Store) (μ : Val) (w : W) (cell : Nat) (r : List Fld) (h : w.snap cell = some r) :
    (∀ c pfs, (forceCell μ cell c pfs w) = w) ∧
    (∀ c fs, (withEv μ c fs w).snap cell = some r) ∧
    (∀ l c, (checkEv σ μ l c w).snap cell = some r) ∧
    (∀ lg l fs, (Logger.log σ μ lg l fs w).snap cell = some r) := by
  refine ⟨?_, ?_, ?_, ?_⟩
  · intro c pfs; simp [forceCell, h]
  · intro c fs; exact withEv_keeps μ c fs w cell r h
  · intro l c; exact checkEv_keeps σ μ l c w cell r h
  · intro lg l fs; exact log_keeps σ μ lg l fs w cell r h

/-- no emission ever reads an un-initialised once-cell: by the time `Check` has run, every cell whose fields an
    accepting leaf emits is initialised; by the time `With` has run, every cell of the tree is. (So the default arm of
    `cellPairs` in the model is unreachable.) -/
theorem lazy_cells_initialised_before_read (σ : Store) (μ : Val) (l : Level) (c : Core) (fs : List Fld) (w : W) :
    readsOk σ (checkEv σ μ l c w).snap l c = true ∧ allForced (withEv μ c fs w).snap c = true :=
  ⟨checkEv_reads σ μ l c w, withEv_forces μ c fs w⟩

/-- the logger name is the dot-joined sequence of the non-empty names along the path -/
theorem path_name (segs : List (List UInt8)) :
    pathName [] segs = joinDots (segs.filter (· ≠ [])) := by
  have := foldl_named segs [] (by simp)
  simpa [pathName, joinDots] using this

/-- functional isolation in the machine: a step only appends; no existing node (parent, sibling, descendant) changes -/
theorem step_keeps_nodes (σ : Store) (s : St) (st : Step) (i : Nat) (hi : i < s.nodes.size) :
    (step σ s st).nodes[i]? = s.nodes[i]? := by
  cases st <;> simp only [step] <;> (try split) <;> simp [Array.getElem?_push, Nat.ne_of_lt hi]

/-! ## aliasing refinements (M11) -/
open ZapVerif.Slices

/-- observer.With appends through `ctx[:len:len]`: no view of any other live header — parent, siblings, descendants,
    whatever their capacities — changes -/
theorem observer_with_no_alias (h : Heap) (ctx t : Slice) (fields : List Nat) (ht : Live h t) :
    view (observerWith h ctx fields).1 t = view h t :=
  capped_append_no_alias h ctx t fields ht

/-- and the child sees the parent's context followed by its own fields -/
theorem observer_with_view (h : Heap) (ctx : Slice) (fields : List Nat) (hx : fields ≠ []) :
    view (observerWith h ctx fields).1 (observerWith h ctx fields).2 = view h ctx ++ fields :=
  capped_append_view h ctx fields hx

/-- without the cap a sibling derived earlier is overwritten -/
theorem uncapped_aliases :
    ∃ (h : Heap) (s : Slice),
      let (h1, t) := append h s [7]
      let (h2, _) := append h1 s [9]
      view h2 t ≠ view h1 t := by
  refine ⟨{ arr := fun _ => [1, 0], next := 1 }, { id := 0, len := 1, cap := 2 }, ?_⟩
  decide

/-- jsonEncoder.Clone: the clone holds the parent's bytes in a buffer of its own; cloning changes no live view, and
    whatever is appended to the clone afterwards (in place or not) changes no view that was live before the clone -/
theorem json_clone_no_alias (h : Heap) (buf t : Slice) (ht : Live h t) (xs : List Nat) :
    view (jsonClone h buf).1 (jsonClone h buf).2 = view h buf ∧
    view (jsonClone h buf).1 t = view h t ∧
    view (append (jsonClone h buf).1 (jsonClone h buf).2 xs).1 t = view h t := by
  have hne : t.id ≠ h.next := by unfold Live at ht; omega
  have hlive : Live (jsonClone h buf).1 t := by unfold Live at *; simp [jsonClone]; omega
  have h2 : view (jsonClone h buf).1 t = view h t := by simp [jsonClone, view, setArr, hne]
  refine ⟨?_, h2, ?_⟩
  · simp only [jsonClone, view, setArr, if_true]
    apply List.take_of_length_le; simp
  · rw [append_other _ _ _ _ hlive (by simpa [jsonClone] using hne), h2]

/-- the mutant that shares the header: a second clone's append overwrites the first clone's bytes -/
theorem json_clone_shared_aliases :
    ∃ (h : Heap) (buf : Slice),
      let (h0, c1) := jsonCloneShared h buf
      let (h0', c2) := jsonCloneShared h0 buf
      let (h1, c1') := append h0' c1 [7]
      let (h2, _) := append h1 c2 [9]
      view h2 c1' ≠ view h1 c1' := by
  refine ⟨{ arr := fun _ => [1, 0], next := 1 }, { id := 0, len := 1, cap := 2 }, ?_⟩
  decide

/-- non-vacuity: a three-step path (With, WithLazy forced with value 5, With) over a tee of an encoder and an observer -/
example :
    let sn : Snap := fun c => if c = 9 then some [{ key := 2, val := some 5 }] else none
    let a : FldP := ⟨{ key := 1 }, { key := 1 }⟩
    let b : FldP := ⟨{ key := 3 }, { key := 3 }⟩
    check (fun _ => 0) sn 0
      (derive sn (.tee [.leaf 1 (.fn fun _ => true) true [], .leaf 2 (.fn fun _ => true) false []])
        [.eager [a], .lazy 9 [{ key := 2, ref := some 0 }], .eager [b]]) [] [] =
      [.leaf 1 true [{ key := 1 }, { key := 2, val := some 5 }, { key := 3 }],
       .leaf 2 false [{ key := 1 }, { key := 2, ref := some 0 }, { key := 3 }]] := by decide

/-! ### slice ownership (regenerated table Gen/SliceOwn: every site in zap's sources where a slice may end up shared) -/

/-- The reviewed sites. Pattern A (an `append` to a field or slice parameter whose result goes elsewhere — the aliasing hazard
    behind "sibling loggers see each other's fields") does not occur at all; F (`x[:0]` reuse) occurs only on pooled objects
    that own their storage (Buffer.Reset, putSliceEncoder, CheckedEntry.reset); K (a slice parameter kept as it is) occurs
    in the array-field constructors and Binary/ByteString (the Field holds the caller's slice until it is encoded, as
    documented), in DictObject, in NewTee / NewMultiWriteSyncer (the variadic slice becomes the combinator), in NewLazyWith
    (by design: evaluated at first use) and in zaptest.WrapOptions. -/
def reviewedSliceSites : List (String × String × String × String) := [
  ("array.go", "Bools", "K", "bools()"),
  ("array.go", "ByteStrings", "K", "byteStringsArray()"),
  ("array.go", "Complex128s", "K", "complex128s()"),
  ("array.go", "Complex64s", "K", "complex64s()"),
  ("array.go", "Durations", "K", "durations()"),
  ("array.go", "Float32s", "K", "float32s()"),
  ("array.go", "Float64s", "K", "float64s()"),
  ("array.go", "Int16s", "K", "int16s()"),
  ("array.go", "Int32s", "K", "int32s()"),
  ("array.go", "Int64s", "K", "int64s()"),
  ("array.go", "Int8s", "K", "int8s()"),
  ("array.go", "Ints", "K", "ints()"),
  ("array.go", "Strings", "K", "stringArray()"),
  ("array.go", "Times", "K", "times()"),
  ("array.go", "Uint16s", "K", "uint16s()"),
  ("array.go", "Uint32s", "K", "uint32s()"),
  ("array.go", "Uint64s", "K", "uint64s()"),
  ("array.go", "Uint8s", "K", "uint8s()"),
  ("array.go", "Uintptrs", "K", "uintptrs()"),
  ("array.go", "Uints", "K", "uints()"),
  ("buffer/buffer.go", "*Buffer.Reset", "F", "b.bs[:0]"),
  ("field.go", "Binary", "K", "Interface: val"),
  ("field.go", "ByteString", "K", "Interface: val"),
  ("field.go", "DictObject", "K", "dictObject()"),
  ("field.go", "dictField", "K", "dictObject()"),
  ("zapcore/console_encoder.go", "putSliceEncoder", "F", "e.elems[:0]"),
  ("zapcore/entry.go", "*CheckedEntry.reset", "F", "ce.cores[:0]"),
  ("zapcore/lazy_with.go", "NewLazyWith", "K", "fields: fields"),
  ("zapcore/tee.go", "NewTee", "K", "multiCore()"),
  ("zapcore/write_syncer.go", "NewMultiWriteSyncer", "K", "multiWriteSyncer()"),
  ("zaptest/logger.go", "WrapOptions", "K", "opts.zapOptions = zapOpts")
]

/-- today's source has exactly the reviewed slice-sharing sites: a new `append(h.groups, g)`-style derivation, an in-place
    filter of a caller's slice, or a constructor that starts keeping its argument fails here until it is reviewed -/
theorem slice_ownership_as_reviewed : Gen.SliceOwn.rows = reviewedSliceSites := by decide

/-- no aliasing append anywhere in the sources -/
theorem no_aliasing_append : (Gen.SliceOwn.rows.filter fun r => r.2.2.1 == "A") = [] := by decide

end ZapVerif.C07

/-! # logger.go's derivations and the cores' `With` methods ARE the source (translator round 4, table `Gen.TransDerive`)

`(*Logger).clone`, `Named`, `With`, `WithOptions`, `WithLazy`; `ioCore.clone/With`, `multiCore.With`, `sampler.With`,
`hooked.With`, `levelFilterCore.With`, `contextObserver.With`; `lazyWithCore.initOnce/With/Check/Enabled/Write/Sync`,
translated mechanically, are interpreted with `Core.With` of a sub-core, `Encoder.Clone`, `addFields`, `Option.apply`,
`Enabled`, `Check` and the errors of `Write` / `Sync` as parameters.  What is proved: a derived logger is a copy of EVERY
field with exactly the derived one replaced and the receiver is never written (`Logger_*_matches_source`); the name is
`Cores.named` (the function of `path_name`); every wrapper forwards `With` to what it wraps and re-wraps it with its own
other parts, a tee to every branch in order (`*_With_matches_source`), which are the clauses of `Cores.pushF`
(`With_results_are_pushF`, the function of `wrapper_with_structure` / `path_fields`); a lazy core evaluates
`originalCore.With(fields)` at first use and only once (`lazy_initOnce_matches_source`, `lazy_initOnce_idempotent` — the
source-level facts behind `lazy_evaluates_at_first_use`, `once_cells_stable`), `Check` on a disabled level forces nothing.
`contextObserver.With` is translated only in its capped form (`noFieldAppend`); `observer_with_no_alias` is about that form. -/
set_option linter.unusedSimpArgs false
namespace ZapVerif.C07
open ZapVerif ZapVerif.GoMini ZapVerif.TransDerive ZapVerif.Gen.TransDerive

/-- `(*Logger).clone`: a copy of EVERY field (`clone := *log`) -/
theorem Logger_clone_exec_matches_source (P : Par) (s o : LgSt) (self oself : Val) (ev : List Val) (fuel : Nat) :
    (exec (X P) (fuel + 1) Logger_clone_body ⟨[], lgEnv s self o oself ev⟩).fin = some ([oself], lgEnv s self s oself ev) := by
  rw [exec_succ]
  simp [Logger_clone_body, lgEnv]

theorem Logger_clone_matches_source (P : Par) (s o : LgSt) (self oself : Val) (ev : List Val) (fuel : Nat) :
    run (X P) (fuel + 1) "Logger_clone" [] (lgEnv s self o oself ev) = .done [oself] (lgEnv s self s oself ev) :=
  run_of_fin (X P) _ _ Gen.TransDerive.Logger_clone [] _ _ _ rfl rfl (Logger_clone_exec_matches_source P s o self oself ev fuel)

/-- `Named`: the empty name returns the receiver itself; otherwise the clone carries every field of the receiver and
    the name `Cores.named name s` (the receiver's name, a dot, the new segment — no dot after an empty name) -/
theorem Logger_Named_matches_source (P : Par) (s o : LgSt) (name seg : Bytes) (self oself : Val) (ev : List Val) (fuel : Nat)
    (hn : s.name = .bytes name) :
    run (X P) (fuel + 2) "Logger_Named" [.bytes seg] (lgEnv s self o oself ev) =
      if seg = [] then .done [self] (lgEnv s self o oself ev)
      else .done [oself] (lgEnv s self { s with name := .bytes (Cores.named name seg) } oself ev) := by
  obtain ⟨c0, c1, c2, c3, c4, c5, c6, c7, c8, c9⟩ := s
  simp only at hn
  subst hn
  have hcall : ∀ σ : State, retK σ [.blank] "Logger_clone"
      (exec (X P) (fuel + 1) Logger_clone_body ⟨[], lgEnv ⟨c0, c1, c2, c3, c4, .bytes name, c6, c7, c8, c9⟩ self o oself ev⟩) = _ :=
    fun σ => retK_of_fin1 σ _ _ _ _ _ (Logger_clone_exec_matches_source P _ o self oself ev fuel)
  simp only [lgEnv] at hcall
  cases seg with
  | nil =>
    simp only [if_true]
    apply run_of_fin (X P) _ _ Gen.TransDerive.Logger_Named [.bytes []] _ _ _ rfl rfl
    rw [exec_succ]
    simp [Logger_Named_body, lgEnv]
  | cons c cs =>
    simp only [reduceCtorEq, if_false]
    apply run_of_fin (X P) _ _ Gen.TransDerive.Logger_Named [.bytes (c :: cs)] _ _ _ rfl rfl
    rw [exec_succ]
    cases name with
    | nil => simp [Logger_Named_body, hcall, lgEnv, Cores.named]
    | cons d ds => simp [Logger_Named_body, hcall, lgEnv, Cores.named, joinB]


/-- `With`: no fields — the receiver itself; otherwise the clone with `core.With(fields)` as its core, every other field
    the receiver's; the receiver is not written -/
theorem Logger_With_matches_source (P : Par) (s o : LgSt) (fields : List Val) (self oself : Val) (ev : List Val) (fuel : Nat) :
    run (X P) (fuel + 2) "Logger_With" [.list fields] (lgEnv s self o oself ev) =
      if fields = [] then .done [self] (lgEnv s self o oself ev)
      else .done [oself] (lgEnv s self { s with core := P.coreWith s.core (.list fields) } oself ev) := by
  have hcall : ∀ σ : State, retK σ [.blank] "Logger_clone"
      (exec (X P) (fuel + 1) Logger_clone_body ⟨[], lgEnv s self o oself ev⟩) = _ :=
    fun σ => retK_of_fin1 σ _ _ _ _ _ (Logger_clone_exec_matches_source P _ o self oself ev fuel)
  simp only [lgEnv] at hcall
  cases fields with
  | nil =>
    simp only [if_true]
    apply run_of_fin (X P) _ _ Gen.TransDerive.Logger_With [.list []] _ _ _ rfl rfl
    rw [exec_succ]
    simp [Logger_With_body, lgEnv]
  | cons f fs =>
    simp only [reduceCtorEq, if_false]
    apply run_of_fin (X P) _ _ Gen.TransDerive.Logger_With [.list (f :: fs)] _ _ _ rfl rfl
    rw [exec_succ]
    have hp : ¬ ((fs.length : Int) + 1 = 0) := by omega
    simp [Logger_With_body, hcall, lgEnv, hp]

/-- `WithOptions`: the clone (a copy of every field), then every option applied to the clone IN ORDER; the receiver is
    not written.  (The primary object of the environment is the clone from the first statement on; `o.…` is the receiver.) -/
theorem Logger_WithOptions_exec_matches_source (P : Par) (s o : LgSt) (opts : List Val) (self oself : Val) (ev : List Val) (fuel : Nat) :
    (exec (X P) (fuel + 1) Logger_WithOptions_body ⟨[("p0", .list opts)], lgEnv s self o oself ev⟩).fin =
      some ([self], lgEnv (opts.foldl (fun st opt => P.applyOpt opt st) o) self o oself ev) := by
  rw [exec_succ]
  have hloop : ∀ (ys : List Val) (i : Nat) (st : LgSt) (t : Option Val),
      ∃ t', rangeRun (execS (X P) (exec (X P) fuel) Logger_WithOptions_loop0.rbody) .blank (.loc "l0") ys i
          ⟨[("p0", .list opts)] ++ (match t with | some v => [("l0", v)] | none => []), lgEnv st self o oself ev⟩ =
        .normal ⟨[("p0", .list opts)] ++ (match t' with | some v => [("l0", v)] | none => []),
          lgEnv (ys.foldl (fun st opt => P.applyOpt opt st) st) self o oself ev⟩ := by
    intro ys
    induction ys with
    | nil => intro i st t; exact ⟨t, by cases t <;> simp [rangeRun]⟩
    | cons y r ih =>
      intro i st t
      obtain ⟨t', h⟩ := ih (i + 1) (P.applyOpt y st) (some y)
      refine ⟨t', ?_⟩
      cases t <;>
        simpa [rangeRun, Logger_WithOptions_loop0, Stmt.rbody, State.assign1, Env.set, lgEnv, LgSt.toList] using h
  obtain ⟨t', h⟩ := hloop opts 0 o none
  have hL : Logger_WithOptions_loop0 = .range .blank (.loc "l0") (.loc "p0") Logger_WithOptions_loop0.rbody := rfl
  have hb : Logger_WithOptions_body = .seq Logger_WithOptions_body.hd (.seq Logger_WithOptions_loop0 (.ret [.fld "self"])) := rfl
  have h0 : execS (X P) (exec (X P) fuel) Logger_WithOptions_body.hd ⟨[("p0", .list opts)], lgEnv s self o oself ev⟩ =
      .normal ⟨[("p0", .list opts)], lgEnv o self o oself ev⟩ := by
    simp [Logger_WithOptions_body, Stmt.hd, lgEnv]
  rw [hb, execS_seq, h0, Out.andThen_normal, execS_seq, hL, execS_range]
  simp only [evalE_loc, Env.get, if_true, Res.out_ok]
  simp only [List.nil_append, List.cons_append] at h
  rw [h]
  cases t' <;> simp [lgEnv]

theorem Logger_WithOptions_matches_source (P : Par) (s o : LgSt) (opts : List Val) (self oself : Val) (ev : List Val) (fuel : Nat) :
    run (X P) (fuel + 1) "Logger_WithOptions" [.list opts] (lgEnv s self o oself ev) =
      .done [self] (lgEnv (opts.foldl (fun st opt => P.applyOpt opt st) o) self o oself ev) :=
  run_of_fin (X P) _ _ Gen.TransDerive.Logger_WithOptions [.list opts] _ _ _ rfl rfl
    (Logger_WithOptions_exec_matches_source P s o opts self oself ev fuel)


/-- the source text of the wrapper literal `func(core zapcore.Core) zapcore.Core { return zapcore.NewLazyWith(core, fields) }`,
    as the translation of `WithLazy` carries it into the closure value (read off the generated term: editing the text
    does not break the theorem, what the closure captures does) -/
def lazyText : Val :=
  match Logger_WithLazy_body.tl with
  | .ret [.call _ [_, _, _, _, _, _, _, _, _, _, .call _ [.call _ (.lit t :: _)]]] => t
  | _ => .list []

/-- `WithLazy`: no fields — the receiver itself; otherwise `WithOptions` of ONE option, `WrapCore` of the wrapper closure
    that captures exactly the fields (nothing is evaluated here: the core is not asked) -/
theorem Logger_WithLazy_matches_source (P : Par) (s o : LgSt) (fields : List Val) (self oself : Val) (ev : List Val) (fuel : Nat) :
    run (X P) (fuel + 1) "Logger_WithLazy" [.list fields] (lgEnv s self o oself ev) =
      .done [if fields = [] then self
             else .list (P.applyOpt (.list [TransDerive.nm "WrapCore", .list [lazyText, .list fields]]) s).toList]
        (lgEnv s self o oself ev) := by
  apply run_of_fin (X P) _ _ Gen.TransDerive.Logger_WithLazy [.list fields] _ _ _ rfl rfl
  rw [exec_succ]
  cases fields with
  | nil => simp [Logger_WithLazy_body, lgEnv]
  | cons f fs =>
    have hp : ¬ ((fs.length : Int) + 1 = 0) := by omega
    simp [Logger_WithLazy_body, lgEnv, hp, lazyText, Stmt.tl]


/-! ### the cores' `With` methods: every wrapper forwards `With` to what it wraps and re-wraps it with its OWN other parts -/

/-- `ioCore.clone`: same enabler, a CLONE of the encoder, same sink -/
theorem ioCore_clone_exec_matches_source (P : Par) (en enc out : Val) (fl0 : Env) (fuel : Nat) :
    (exec (X P) (fuel + 1) ioCore_clone_body ⟨[], ("en", en) :: ("enc", enc) :: ("out", out) :: fl0⟩).fin =
      some ([.list [en, P.encClone enc, out]], ("en", en) :: ("enc", enc) :: ("out", out) :: fl0) := by
  rw [exec_succ]; simp [ioCore_clone_body]

theorem ioCore_clone_matches_source (P : Par) (en enc out : Val) (fl0 : Env) (fuel : Nat) :
    run (X P) (fuel + 1) "ioCore_clone" [] (("en", en) :: ("enc", enc) :: ("out", out) :: fl0) =
      .done [.list [en, P.encClone enc, out]] (("en", en) :: ("enc", enc) :: ("out", out) :: fl0) :=
  run_of_fin (X P) _ _ Gen.TransDerive.ioCore_clone [] _ _ _ rfl rfl (ioCore_clone_exec_matches_source P en enc out fl0 fuel)

/-- `ioCore.With`: the fields are added to the CLONE's encoder; the receiver (its encoder included) is not written -/
theorem ioCore_With_matches_source (P : Par) (en enc out fields : Val) (fl0 : Env) (fuel : Nat) :
    run (X P) (fuel + 2) "ioCore_With" [fields] (("en", en) :: ("enc", enc) :: ("out", out) :: fl0) =
      .done [.list [.list [en, P.addFields (P.encClone enc) fields, out]]] (("en", en) :: ("enc", enc) :: ("out", out) :: fl0) := by
  have hcall : ∀ σ : State, retK σ [.loc "l0"] "ioCore_clone"
      (exec (X P) (fuel + 1) ioCore_clone_body ⟨[], ("en", en) :: ("enc", enc) :: ("out", out) :: fl0⟩) = _ :=
    fun σ => retK_of_fin1 σ _ _ _ _ _ (ioCore_clone_exec_matches_source P en enc out fl0 fuel)
  apply run_of_fin (X P) _ _ Gen.TransDerive.ioCore_With [fields] _ _ _ rfl rfl
  rw [exec_succ]
  simp [ioCore_With_body, hcall]

theorem sampler_With_matches_source (P : Par) (core counts tick first thereafter hook fields : Val) (fl0 : Env) (fuel : Nat) :
    run (X P) (fuel + 1) "sampler_With" [fields]
        (("core", core) :: ("counts", counts) :: ("tick", tick) :: ("first", first) :: ("thereafter", thereafter) :: ("hook", hook) :: fl0) =
      .done [.list [.list [P.coreWith core fields, counts, tick, first, thereafter, hook]]]
        (("core", core) :: ("counts", counts) :: ("tick", tick) :: ("first", first) :: ("thereafter", thereafter) :: ("hook", hook) :: fl0) := by
  apply run_of_fin (X P) _ _ Gen.TransDerive.sampler_With [fields] _ _ _ rfl rfl
  rw [exec_succ]; simp [sampler_With_body]

theorem hooked_With_matches_source (P : Par) (core funcs fields : Val) (fl0 : Env) (fuel : Nat) :
    run (X P) (fuel + 1) "hooked_With" [fields] (("core", core) :: ("funcs", funcs) :: fl0) =
      .done [.list [.list [P.coreWith core fields, funcs]]] (("core", core) :: ("funcs", funcs) :: fl0) := by
  apply run_of_fin (X P) _ _ Gen.TransDerive.hooked_With [fields] _ _ _ rfl rfl
  rw [exec_succ]; simp [hooked_With_body]

theorem levelFilterCore_With_matches_source (P : Par) (core level fields : Val) (fl0 : Env) (fuel : Nat) :
    run (X P) (fuel + 1) "levelFilterCore_With" [fields] (("core", core) :: ("level", level) :: fl0) =
      .done [.list [.list [P.coreWith core fields, level]]] (("core", core) :: ("level", level) :: fl0) := by
  apply run_of_fin (X P) _ _ Gen.TransDerive.levelFilterCore_With [fields] _ _ _ rfl rfl
  rw [exec_succ]; simp [levelFilterCore_With_body]

/-- `contextObserver.With`: same enabler, same log store, the receiver's context FOLLOWED BY the new fields — as a
    value; that the append cannot write into the receiver's backing array is the syntactic side condition of the whitelist
    entry (`noFieldAppend`: only the capped form `co.context[:len(co.context):len(co.context)]` is translated), and
    `observer_with_no_alias` is the theorem about that form -/
theorem contextObserver_With_matches_source (P : Par) (en logs : Val) (ctx fields : List Val) (fl0 : Env) (fuel : Nat) :
    run (X P) (fuel + 1) "contextObserver_With" [.list fields] (("en", en) :: ("logs", logs) :: ("context", .list ctx) :: fl0) =
      .done [.list [.list [en, logs, .list (ctx ++ fields)]]] (("en", en) :: ("logs", logs) :: ("context", .list ctx) :: fl0) := by
  apply run_of_fin (X P) _ _ Gen.TransDerive.contextObserver_With [.list fields] _ _ _ rfl rfl
  rw [exec_succ]; simp [contextObserver_With_body]

theorem take_succ_set {α : Type} (v : α) : ∀ (l : List α) (i : Nat), i < l.length → (l.set i v).take (i + 1) = l.take i ++ [v]
  | [], _, h => by simp at h
  | _ :: _, 0, _ => by simp
  | a :: l, i + 1, h => by simp [take_succ_set v l i (by simpa using h)]

/-- `multiCore.With`: a fresh slice of the same length holding `With(fields)` of EVERY branch, in order -/
theorem multiCore_With_matches_source (P : Par) (mc : List Val) (fields : Val) (fl0 : Env) (fuel : Nat) :
    run (X P) (fuel + 1) "multiCore_With" [fields] (("mc", .list mc) :: fl0) =
      .done [.list [.list (mc.map fun c => P.coreWith c fields)]] (("mc", .list mc) :: fl0) := by
  apply run_of_fin (X P) _ _ Gen.TransDerive.multiCore_With [fields] _ _ _ rfl rfl
  rw [exec_succ]
  have hloop : ∀ (ys : List Val) (i : Nat) (acc : List Val) (t : Option Val), mc.drop i = ys → acc.length = mc.length →
      ∃ t', rangeRun (execS (X P) (exec (X P) fuel) multiCore_With_loop0.rbody) (.loc "l1") .blank ys i
          ⟨[("p0", fields), ("l0", .list acc)] ++ (match t with | some v => [("l1", v)] | none => []), ("mc", .list mc) :: fl0⟩ =
        .normal ⟨[("p0", fields), ("l0", .list (acc.take i ++ ys.map (fun c => P.coreWith c fields) ++ acc.drop (i + ys.length)))] ++
          (match t' with | some v => [("l1", v)] | none => []), ("mc", .list mc) :: fl0⟩ := by
    intro ys
    induction ys with
    | nil => intro i acc t _ _; exact ⟨t, by cases t <;> simp [rangeRun]⟩
    | cons y r ih =>
      intro i acc t hd hl
      have hi : i < mc.length := by
        rcases Nat.lt_or_ge i mc.length with h | h
        · exact h
        · rw [List.drop_of_length_le h] at hd; cases hd
      have hy : mc[i]? = some y := by
        have := congrArg (fun l => l[0]?) hd; simpa using this
      have hd' : mc.drop (i + 1) = r := by
        have := congrArg (List.drop 1) hd; simpa [List.drop_drop, Nat.add_comm] using this
      obtain ⟨t', h⟩ := ih (i + 1) (acc.set i (P.coreWith y fields)) (some (.int i)) hd' (by simpa using hl)
      refine ⟨t', ?_⟩
      have hidx : indexVal (.list mc) (.int (i : Int)) = .ok y := by
        rw [indexVal_list _ i hi]
        simp [List.getElem?_eq_getElem hi] at hy
        simp [hy]
      have hset := ext_set P acc i (P.coreWith y fields) (by omega)
      have hfin : (acc.set i (P.coreWith y fields)).take (i + 1) ++ r.map (fun c => P.coreWith c fields) ++
            (acc.set i (P.coreWith y fields)).drop (i + 1 + r.length) =
          acc.take i ++ (P.coreWith y fields :: r.map (fun c => P.coreWith c fields)) ++ acc.drop (i + (r.length + 1)) := by
        have h1 : (acc.set i (P.coreWith y fields)).take (i + 1) = acc.take i ++ [P.coreWith y fields] :=
          take_succ_set _ acc i (by omega)
        have h2 : (acc.set i (P.coreWith y fields)).drop (i + 1 + r.length) = acc.drop (i + (r.length + 1)) := by
          rw [List.drop_set_of_lt (by omega)]; congr 1; omega
        rw [h1, h2]; simp
      cases t <;>
        simpa [rangeRun, multiCore_With_loop0, Stmt.rbody, State.assign1, Env.set, hidx, hset, hfin, List.map_cons] using h
  obtain ⟨t', h⟩ := hloop mc 0 (List.replicate mc.length (.list [])) none (by simp) (by simp)
  have hL : multiCore_With_loop0 = .range (.loc "l1") .blank (.fld "mc") multiCore_With_loop0.rbody := rfl
  have hmk := ext_makeCores P mc.length
  show (execS (X P) (exec (X P) fuel) multiCore_With_body ⟨[("p0", fields)], ("mc", .list mc) :: fl0⟩).fin = _
  have hb : multiCore_With_body = .seq multiCore_With_body.hd (.seq multiCore_With_loop0 multiCore_With_body.tl.tl) := rfl
  have h0 : execS (X P) (exec (X P) fuel) multiCore_With_body.hd ⟨[("p0", fields)], ("mc", .list mc) :: fl0⟩ =
      .normal ⟨[("p0", fields), ("l0", .list (List.replicate mc.length (.list [])))], ("mc", .list mc) :: fl0⟩ := by
    simp [multiCore_With_body, Stmt.hd, hmk]
  rw [hb, execS_seq, h0, Out.andThen_normal, execS_seq, hL, execS_range]
  simp only [evalE_fld, Env.get, if_true, Res.out_ok]
  simp only [List.append_nil, List.take_zero, List.nil_append, Nat.zero_add] at h
  rw [h]
  cases t' <;> simp [multiCore_With_body, Stmt.tl]


/-! ### `lazyWithCore`: evaluated at first use, once -/

/-- the fields of a `lazyWithCore`: the initialised core (nil before), the wrapped core, "the Once has fired", the
    pending fields, the trace -/
def lzEnv (core orig : Val) (done : Bool) (fields : Val) (ev : List Val) : Env :=
  [("core", core), ("orig", orig), ("done", .bool done), ("fields", fields), ("ev", .list ev)]

/-- what `initOnce` leaves in `core` -/
def lzCore (P : Par) (core orig : Val) (done : Bool) (fields : Val) : Val := if done then core else P.coreWith orig fields

/-- `initOnce`: the first call evaluates `originalCore.With(fields)` into `core`; every later call does nothing -/
theorem lazy_initOnce_exec_matches_source (P : Par) (core orig fields : Val) (done : Bool) (ev : List Val) (fuel : Nat) :
    (exec (X P) (fuel + 1) lazyWithCore_initOnce_body ⟨[], lzEnv core orig done fields ev⟩).fin =
      some ([], lzEnv (lzCore P core orig done fields) orig true fields ev) := by
  rw [exec_succ]
  cases done <;> simp [lazyWithCore_initOnce_body, lzEnv, lzCore]

theorem lazy_initOnce_matches_source (P : Par) (core orig fields : Val) (done : Bool) (ev : List Val) (fuel : Nat) :
    run (X P) (fuel + 1) "lazyWithCore_initOnce" [] (lzEnv core orig done fields ev) =
      .done [] (lzEnv (lzCore P core orig done fields) orig true fields ev) :=
  run_of_fin (X P) _ _ Gen.TransDerive.lazyWithCore_initOnce [] _ _ _ rfl rfl (lazy_initOnce_exec_matches_source P core orig fields done ev fuel)

/-- only once: a second `initOnce` changes nothing, whatever `Core.With` would answer now -/
theorem lazy_initOnce_idempotent (P P' : Par) (core orig fields : Val) (done : Bool) (ev : List Val) (fuel : Nat) :
    run (X P') (fuel + 1) "lazyWithCore_initOnce" [] (lzEnv (lzCore P core orig done fields) orig true fields ev) =
      .done [] (lzEnv (lzCore P core orig done fields) orig true fields ev) := by
  rw [lazy_initOnce_matches_source]; simp [lzCore]

/-- `With`: force, then `With` on the INITIALISED core (so the pending fields precede the new ones, and the result is
    not lazy) -/
theorem lazy_With_matches_source (P : Par) (core orig fields more : Val) (done : Bool) (ev : List Val) (fuel : Nat) :
    run (X P) (fuel + 2) "lazyWithCore_With" [more] (lzEnv core orig done fields ev) =
      .done [P.coreWith (lzCore P core orig done fields) more] (lzEnv (lzCore P core orig done fields) orig true fields ev) := by
  have hcall : ∀ σ : State, retK σ [] "lazyWithCore_initOnce"
      (exec (X P) (fuel + 1) lazyWithCore_initOnce_body ⟨[], lzEnv core orig done fields ev⟩) = _ :=
    fun σ => retK_of_fin0 σ _ _ _ (lazy_initOnce_exec_matches_source P core orig fields done ev fuel)
  apply run_of_fin (X P) _ _ Gen.TransDerive.lazyWithCore_With [more] _ _ _ rfl rfl
  rw [exec_succ]
  simp [lazyWithCore_With_body, hcall]
  simp [lzEnv]

/-- `Check`: the level question goes to the ORIGINAL core and a disabled level forces nothing; otherwise force, then
    `Check` on the initialised core -/
theorem lazy_Check_matches_source (P : Par) (core orig fields rest ce : Val) (l : Int) (done : Bool) (ev : List Val) (fuel : Nat) :
    run (X P) (fuel + 2) "lazyWithCore_Check" [.list [.int l, rest], ce] (lzEnv core orig done fields ev) =
      if P.cen orig l then
        .done [P.chk (lzCore P core orig done fields) (.list [.int l, rest]) ce] (lzEnv (lzCore P core orig done fields) orig true fields ev)
      else .done [ce] (lzEnv core orig done fields ev) := by
  have hcall : ∀ σ : State, retK σ [] "lazyWithCore_initOnce"
      (exec (X P) (fuel + 1) lazyWithCore_initOnce_body ⟨[], lzEnv core orig done fields ev⟩) = _ :=
    fun σ => retK_of_fin0 σ _ _ _ (lazy_initOnce_exec_matches_source P core orig fields done ev fuel)
  cases hc : P.cen orig l
  · simp only [Bool.false_eq_true, if_false]
    apply run_of_fin (X P) _ _ Gen.TransDerive.lazyWithCore_Check _ _ _ _ rfl rfl
    rw [exec_succ]
    simp [lazyWithCore_Check_body, lzEnv, hc]
  · simp only [if_true]
    apply run_of_fin (X P) _ _ Gen.TransDerive.lazyWithCore_Check _ _ _ _ rfl rfl
    rw [exec_succ]
    have hc' : P.cen orig l = true := hc
    simp only [lzEnv] at hcall ⊢
    simp [lazyWithCore_Check_body, hc', hcall]

theorem lazy_Enabled_matches_source (P : Par) (core orig fields : Val) (l : Int) (done : Bool) (ev : List Val) (fuel : Nat) :
    run (X P) (fuel + 1) "lazyWithCore_Enabled" [.int l] (lzEnv core orig done fields ev) =
      .done [.bool (P.cen orig l)] (lzEnv core orig done fields ev) := by
  apply run_of_fin (X P) _ _ Gen.TransDerive.lazyWithCore_Enabled _ _ _ _ rfl rfl
  rw [exec_succ]; simp [lazyWithCore_Enabled_body, lzEnv]

/-- `Write` / `Sync`: force, then the call on the initialised core (recorded), its error returned -/
theorem lazy_Write_matches_source (P : Par) (core orig fields e fs : Val) (done : Bool) (ev : List Val) (fuel : Nat) :
    run (X P) (fuel + 2) "lazyWithCore_Write" [e, fs] (lzEnv core orig done fields ev) =
      .done [.list (P.werr (lzCore P core orig done fields) e fs)]
        (lzEnv (lzCore P core orig done fields) orig true fields
          (ev ++ [.list [TransDerive.nm "Core.Write", lzCore P core orig done fields, e, fs]])) := by
  have hcall : ∀ σ : State, retK σ [] "lazyWithCore_initOnce"
      (exec (X P) (fuel + 1) lazyWithCore_initOnce_body ⟨[], lzEnv core orig done fields ev⟩) = _ :=
    fun σ => retK_of_fin0 σ _ _ _ (lazy_initOnce_exec_matches_source P core orig fields done ev fuel)
  apply run_of_fin (X P) _ _ Gen.TransDerive.lazyWithCore_Write _ _ _ _ rfl rfl
  rw [exec_succ]
  simp only [lzEnv] at hcall ⊢
  simp [lazyWithCore_Write_body, hcall, nm_write]

theorem lazy_Sync_matches_source (P : Par) (core orig fields : Val) (done : Bool) (ev : List Val) (fuel : Nat) :
    run (X P) (fuel + 2) "lazyWithCore_Sync" [] (lzEnv core orig done fields ev) =
      .done [.list (P.serr (lzCore P core orig done fields))]
        (lzEnv (lzCore P core orig done fields) orig true fields
          (ev ++ [.list [TransDerive.nm "Core.Sync", lzCore P core orig done fields]])) := by
  have hcall : ∀ σ : State, retK σ [] "lazyWithCore_initOnce"
      (exec (X P) (fuel + 1) lazyWithCore_initOnce_body ⟨[], lzEnv core orig done fields ev⟩) = _ :=
    fun σ => retK_of_fin0 σ _ _ _ (lazy_initOnce_exec_matches_source P core orig fields done ev fuel)
  apply run_of_fin (X P) _ _ Gen.TransDerive.lazyWithCore_Sync _ _ _ _ rfl rfl
  rw [exec_succ]
  simp only [lzEnv] at hcall ⊢
  simp [lazyWithCore_Sync_body, hcall, nm_sync]


/-! ### the translated `With` methods are the clauses of `Cores.pushF` -/

/-- an encoding of the model's cores as the values the translated methods build and are handed: the records of the
    wrappers (what the other parts `aux` are does not matter), the branch list of a tee, and for an `ioCore` leaf the
    encoder as a function of its context -/
structure WithLink (P : Par) (sn : Cores.Snap) where
  enc : Cores.Core → GoMini.Val
  fv : List Cores.FldP → GoMini.Val
  aux : Nat → GoMini.Val
  lvOf : Cores.Enab → GoMini.Val
  encoder : List Cores.Fld → GoMini.Val
  hooked : ∀ c h, enc (.hooked c h) = .list [.list [enc c, aux h]]
  incr : ∀ c en, enc (.incr c en) = .list [.list [enc c, lvOf en]]
  sampler : ∀ c s p, enc (.sampler c s p) = .list [.list [enc c, aux s, aux (s + 1), aux (s + 2), aux (s + 3), .bool p]]
  tee : ∀ cs, enc (.tee cs) = .list [.list (cs.map enc)]
  leaf : ∀ id en ctx, enc (.leaf id en true ctx) = .list [.list [lvOf en, encoder ctx, aux id]]
  /-- `addFields` on a clone of the encoder of a context gives the encoder of the extended context -/
  add : ∀ ctx fs, P.addFields (P.encClone (encoder ctx)) (fv fs) = encoder (ctx ++ fs.map (·.pick true))
  /-- the dynamic dispatch: `With` of an encoded sub-core is the encoding of its push-down -/
  cw : ∀ c fs, P.coreWith (enc c) (fv fs) = enc (Cores.pushF sn c fs)

theorem pushFAll_map (sn : Cores.Snap) (fs : List Cores.FldP) : ∀ cs, Cores.pushFAll sn cs fs = cs.map fun c => Cores.pushF sn c fs
  | [] => rfl
  | c :: cs => by simp [Cores.pushFAll, pushFAll_map sn fs cs]

/-- what the translated `hooked.With`, `levelFilterCore.With`, `sampler.With`, `multiCore.With` and `ioCore.With` return on
    encoded cores IS the encoding of `Cores.pushF` — the function `wrapper_with_structure`, `wrapper_with_commutes` and
    `path_fields` are stated over -/
theorem With_results_are_pushF (P : Par) (sn : Cores.Snap) (L : WithLink P sn) (fs : List Cores.FldP) :
    (∀ c h, GoMini.Val.list [.list [P.coreWith (L.enc c) (L.fv fs), L.aux h]] = L.enc (Cores.pushF sn (.hooked c h) fs)) ∧
    (∀ c s p, GoMini.Val.list [.list [P.coreWith (L.enc c) (L.fv fs), L.aux s, L.aux (s + 1), L.aux (s + 2), L.aux (s + 3), .bool p]] =
      L.enc (Cores.pushF sn (.sampler c s p) fs)) ∧
    (∀ cs, GoMini.Val.list [.list ((cs.map L.enc).map fun c => P.coreWith c (L.fv fs))] = L.enc (Cores.pushF sn (.tee cs) fs)) ∧
    (∀ c en, GoMini.Val.list [.list [P.coreWith (L.enc c) (L.fv fs), L.lvOf en]] = L.enc (Cores.pushF sn (.incr c en) fs)) ∧
    (∀ id en ctx, GoMini.Val.list [.list [L.lvOf en, P.addFields (P.encClone (L.encoder ctx)) (L.fv fs), L.aux id]] =
      L.enc (Cores.pushF sn (.leaf id en true ctx) fs)) := by
  refine ⟨?_, ?_, ?_, ?_, ?_⟩
  · intro c h; rw [L.cw]; simp [Cores.pushF, L.hooked]
  · intro c s p; rw [L.cw]; simp [Cores.pushF, L.sampler]
  · intro cs
    simp only [Cores.pushF, L.tee, pushFAll_map, List.map_map]
    congr 3
    apply List.map_congr_left
    intro c _; simp [L.cw]
  · intro c en; rw [L.cw]; simp [Cores.pushF, L.incr]
  · intro id en ctx; rw [L.add]; simp [Cores.pushF, L.leaf]

end ZapVerif.C07
