import ZapVerif.Proofs.PoolsStep
import ZapVerif.Gen.Pools
import ZapVerif.Proofs.TransJsonEnc
import ZapVerif.Props.C02
/-! # C08 — output is independent of logging history and of pooled-object reuse

Model: `Model/Pools.lean` — zap's seven pools as a heap machine in which `sync.Pool.Get` returns `New()` or ANY
object put before (an arbitrary oracle chooses), a GC drops any subset of any pool, and operations of any kind
(JSON and console `EncodeEntry`, With-clones, checked entries, error-array elements, stack captures, scratch
buffers, a console entry whose field panics) interleave freely with Writes that are still in flight.

What is proved (all for the code as it is, `Code.real`; every `leak_*` shows one switched-off statement breaks it):
* `pool_inv_preserved` — every operation (hence every put site) re-establishes the put-invariant of every pool and
  the ownership discipline of the buffers;
* `encode_independent_of_garbage`, `console_independent_of_heap`, `*_independent_of_garbage` — the result of an
  operation is the same for every pooled object satisfying the put-invariant as for a fresh one;
* `history_independent` — for every history and every behaviour of `sync.Pool`, every observable result equals
  the result of the pool-free run, in which each result is a function of its own operation only; the JSON line is
  `Enc.encodeEntry` of C01/C02, the console line is `Console.consoleLine` of C16;
* `buffer_owner`, `in_flight_undisturbed` — the buffer returned by `EncodeEntry` is in no pool and referenced by no
  pooled object, and its bytes stay intact until the sink has seen them, whatever else happens in between;
* `hook_reads_own_entry`, `hooked_entry_not_pooled` — a CheckedEntry is in no pool while its hook runs, so the hook reads
  the entry of its own call whatever is logged meanwhile (`leak_early_put`: not so if `putCheckedEntry` comes first);
* `core_encoder_unchanged_by_write`, `same_core_first_or_later` (+`_console`, `_child`) — the encoder a core holds is never
  changed by logging through it (`leak_receiver_mutated`), `receiver_encoder_never_mutated` over the source;
* `put_is_last_use`, `field_covered`, `source_matches_model_get`, `put_resets_cover_inv`, `put_sites`, `free_sites` — decided over `Gen/Pools.lean`, regenerated from the
  source on every run: a new field, a dropped reset, a new put site or a moved `Free` breaks the build.

Trusted: `sync.Pool` hands out an object to one user at a time (the oracle never returns an object that is
currently held); Get/Put-delimited sections of different goroutines are interleaved at the granularity of the
operations above (an object is exclusively owned between its Get and its Put). -/
namespace ZapVerif.C08
open ZapVerif ZapVerif.Pools ZapVerif.Json ZapVerif.Enc ZapVerif.Entry ZapVerif.PoolFacts

/-! ## 1. the put-invariant is re-established by every put site -/

/-- every operation keeps: pooled jsonEncoders reference no buffer, pooled slice encoders are empty, pooled
    Stacks have room, pooled/in-flight/live buffers are pairwise distinct and allocated, no fault happened -/
theorem pool_inv_preserved (orc : Orc) (h : H) (op : Op) (hi : Inv h) : Inv (step Code.real orc h op) :=
  (step_ok orc h (psOf h) op hi (rel_self h)).1

/-- … hence it holds after every history, for every behaviour of sync.Pool -/
theorem pool_inv_reachable (orc : Orc) (ops : List Op) : Inv (run Code.real orc H.empty ops) :=
  (run_ok orc ops _ _ inv_empty rel_empty).1

/-- `putJSONEncoder` puts back exactly `&jsonEncoder{}` -/
theorem putJSONEncoder_resets (h : H) (o : JsonObj) : (putJson Code.real h o).jsonPool.head? = some JsonObj.fresh := by
  unfold putJson; cases o.reflectBuf <;> rfl

/-- `putSliceEncoder` puts back an empty encoder -/
theorem putSliceEncoder_resets (h : H) (a : SliceObj) : (slicePut Code.real h a).slicePool.head? = some SliceObj.fresh := rfl

/-- `Stack.Free` puts back an object that still has room for a program counter -/
theorem stackFree_keeps_room (g : StackObj) (avail : List Nat) (full : Bool) (hg : g.PutInv) :
    ({ (captureFrom g avail full).1 with frames := none, pcs := none } : StackObj).PutInv :=
  (captureFrom_spec g avail full hg).2.2

/-! ## 2. the object obtained from the pool does not matter -/

theorem encodeEntryFrom_pure (orc : Orc) (h : H) (g : JsonObj) (p : Parent) (j : Job)
    (hg : g.PutInv) (hh : Owns h []) (hf : h.fault = false) :
    (encodeEntryFrom Code.real orc h g p j).1 = pureJson p j := by
  obtain ⟨b, hs0, sp0, n0, m0, _, _, _, _⟩ := cloneFrom_facts orc h g p [] hh hg hf
  obtain ⟨e, mb⟩ := encodeBody_spec orc p j hs0 sp0 n0 m0
  unfold encodeEntryFrom
  simp only [putJson_mem, e.sep'.buf, Option.getD_some, mb]

/-- JSON `EncodeEntry`: whatever object `_jsonPool.Get()` returned — any values in `EncoderConfig`, `spaced`,
    `openNamespaces`, `reflectEnc`, as long as `buf` and `reflectBuf` are nil — and whatever the buffer pool holds,
    the bytes are those produced with a fresh `&jsonEncoder{}` on an empty heap: `Enc.encodeEntry` of C01/C02 -/
theorem encode_independent_of_garbage (orc orc' : Orc) (h : H) (g : JsonObj) (p : Parent) (j : Job)
    (hg : g.PutInv) (hh : Owns h []) (hf : h.fault = false) :
    (encodeEntryFrom Code.real orc h g p j).1 = (encodeEntryFrom Code.real orc' H.empty JsonObj.fresh p j).1 ∧
    (encodeEntryFrom Code.real orc h g p j).1 =
      encodeEntry p.spaced (eraseO j.metaCalls) ⟨p.ctx, p.openNs⟩ (eraseO j.fields) (eraseO j.stack) j.ending := by
  rw [encodeEntryFrom_pure orc h g p j hg hh hf,
    encodeEntryFrom_pure orc' H.empty JsonObj.fresh p j ⟨rfl, rfl⟩ (by simp [Owns, H.empty]) rfl]
  exact ⟨rfl, rfl⟩

/-- the same at heap level: on EVERY heap satisfying the invariant (any garbage in any pool), with EVERY oracle, a
    JSON Write delivers `pureJson` -/
theorem json_independent_of_heap (orc : Orc) (h : H) (hi : Inv h) (p : Parent) (j : Job) :
    (step Code.real orc (step Code.real orc h (.encJson p j)) (.deliver 0)).out = Out.line (pureJson p j) :: h.out := by
  obtain ⟨i1, r1⟩ := step_ok orc h (psOf h) (.encJson p j) hi (rel_self h)
  obtain ⟨_, r2⟩ := step_ok orc _ _ (.deliver 0) i1 r1
  rw [r2.2.2.1]; simp [pstep, psOf]

/-- console `EncodeEntry` + `writeContext` on every heap satisfying the invariant: the pooled slice encoder, the
    pooled jsonEncoder used for the context and the three buffers involved are unobservable -/
theorem console_independent_of_heap (orc : Orc) (h : H) (hi : Inv h) (p : Parent) (j : CJob) :
    (step Code.real orc (step Code.real orc h (.encConsole p j)) (.deliver 0)).out = Out.line (pureConsole p j) :: h.out := by
  obtain ⟨i1, r1⟩ := step_ok orc h (psOf h) (.encConsole p j) hi (rel_self h)
  obtain ⟨_, r2⟩ := step_ok orc _ _ (.deliver 0) i1 r1
  rw [r2.2.2.1]; simp [pstep, psOf]

/-- `pureConsole` is the console line of C16 (`Console.consoleLine`) on the same inputs -/
theorem pureConsole_is_consoleLine (c : Cfg) (sepRaw : Bytes) (e : Ent) (k : Console.Cols) (ctx : List (List Field))
    (fields : List Field) (rfields : List RO) (cfgId : Nat) (hf : eraseO rfields = addFields fields) :
    pureConsole ⟨cfgId, true, (ctxEnc true ctx).buf, (ctxEnc true ctx).openNs⟩
      ⟨Console.columns c e k, if sepRaw.isEmpty then [9] else sepRaw,
       if !c.messageKey.isEmpty then some e.message else none, rfields,
       if !e.stack.isEmpty && !c.stacktraceKey.isEmpty then some e.stack else none, c.ending⟩ =
    Console.consoleLine c sepRaw e k ctx fields := by
  unfold pureConsole Console.consoleLine Console.contextBytes
  simp only [hf]
  by_cases hm : c.messageKey.isEmpty <;> by_cases hs : (!e.stack.isEmpty && !c.stacktraceKey.isEmpty) <;> simp [hm, hs]

/-- slice array encoder: the columns printed with any pooled (empty) encoder are those of a fresh one -/
theorem columns_independent_of_garbage (a : SliceObj) (cols : List Bytes) (ha : a.PutInv) :
    columnsFrom a cols = columnsFrom SliceObj.fresh cols := by
  unfold SliceObj.PutInv at ha; simp [columnsFrom, ha, SliceObj.fresh]

/-- CheckedEntry: `reset()` erases every field of whatever object the pool returned — cores, ErrorOutput, the
    after-hook and the dirty flag of an earlier entry included -/
theorem checkedEntry_independent_of_garbage (g : CEObj) :
    ceReset Code.real g = ceReset Code.real CEObj.fresh ∧ ceReset Code.real g = ⟨0, none, false, none, []⟩ := ⟨rfl, rfl⟩

/-- both errArrayElem pools: the only field is assigned before the element is used -/
theorem errElem_independent_of_garbage (g : ErrObj) (e : Nat) :
    ({ g with err := some e } : ErrObj) = { ErrObj.fresh with err := some e } := rfl

/-- Stack: with any pooled object (whatever `storage` holds, of whatever length ≥ 1) `Capture` yields the frames of
    the goroutine's stack — all of them (`Full`) or the first (`First`) — exactly as with a fresh object, and does
    not fail -/
theorem stack_independent_of_garbage (g : StackObj) (avail : List Nat) (full : Bool) (hg : g.PutInv) :
    (captureFrom g avail full).1.frames = (captureFrom StackObj.fresh avail full).1.frames ∧
    (captureFrom g avail full).1.frames = some (if full then avail else avail.take 1) ∧
    (captureFrom g avail full).2 = false := by
  have h1 := captureFrom_spec g avail full hg
  have h2 := captureFrom_spec StackObj.fresh avail full (by simp [StackObj.PutInv, StackObj.fresh])
  exact ⟨h1.2.1.trans h2.2.1.symm, h1.2.1, h1.1⟩

/-- buffer pool: `Pool.Get` hands out an empty buffer whatever the pooled one contained -/
theorem buffer_independent_of_garbage (orc : Orc) (h : H) (hp : PoolOK h) : (bufGet orc h).2.mem (bufGet orc h).1 = [] :=
  (bufGet_spec orc h hp).empty

/-! ## 3. histories -/

/-- **for every history of operations and every behaviour of sync.Pool** (which pooled object each Get returns,
    what each GC drops), every observable result — lines reaching sinks, With-clone contexts, what a CheckedEntry
    writes to, the error an array element encodes, the frames of a captured stack — equals the result of the
    pool-free run `prun`, where each is computed from its own operation alone -/
theorem history_independent (orc : Orc) (ops : List Op) :
    (run Code.real orc H.empty ops).out = (prun PS.empty ops).out :=
  (run_ok orc ops _ _ inv_empty rel_empty).2.2.2.1

/-- the statement of the property: the line of a JSON log call is the same first-in-process and after any history -/
theorem json_same_first_or_later (orc orc' : Orc) (hist : List Op) (p : Parent) (j : Job) :
    (run Code.real orc H.empty (hist ++ [.encJson p j, .deliver 0])).out.head? =
      (run Code.real orc' H.empty [.encJson p j, .deliver 0]).out.head? ∧
    (run Code.real orc H.empty (hist ++ [.encJson p j, .deliver 0])).out.head? = some (Out.line (pureJson p j)) := by
  rw [history_independent, history_independent, prun_append]
  simp [prun, pstep]

theorem console_same_first_or_later (orc orc' : Orc) (hist : List Op) (p : Parent) (j : CJob) :
    (run Code.real orc H.empty (hist ++ [.encConsole p j, .deliver 0])).out.head? =
      (run Code.real orc' H.empty [.encConsole p j, .deliver 0]).out.head? ∧
    (run Code.real orc H.empty (hist ++ [.encConsole p j, .deliver 0])).out.head? = some (Out.line (pureConsole p j)) := by
  rw [history_independent, history_independent, prun_append]
  simp [prun, pstep]

/-- the same for everything else that goes through a pool -/
theorem others_same_first_or_later (orc : Orc) (hist : List Op) :
    (∀ p fields, (run Code.real orc H.empty (hist ++ [.withClone p fields])).out.head? =
        some (Out.ctx (pureCtx p fields).buf (pureCtx p fields).openNs)) ∧
    (∀ ent cores after errOut, (run Code.real orc H.empty (hist ++ [.check ent cores after errOut true])).out.head? =
        some (Out.ce ent (cores.map some) after errOut false)) ∧
    (∀ z e, (run Code.real orc H.empty (hist ++ [.errElem z e])).out.head? = some (Out.err (some e))) ∧
    (∀ avail full, (run Code.real orc H.empty (hist ++ [.capture avail full])).out.head? =
        some (Out.stack (if full then avail else avail.take 1))) ∧
    (∀ s, (run Code.real orc H.empty (hist ++ [.scratch s])).out.head? = some (Out.line s)) := by
  refine ⟨?_, ?_, ?_, ?_, ?_⟩
  · intros; rw [history_independent, prun_append]; simp [prun, pstep, pstepWith]
  · intro ent cores after errOut; rw [history_independent, prun_append]; cases after <;> simp [prun, pstep]
  · intros; rw [history_independent, prun_append]; simp [prun, pstep]
  · intros; rw [history_independent, prun_append]; simp [prun, pstep]
  · intros; rw [history_independent, prun_append]; simp [prun, pstep]

/-! ## 4. buffer ownership -/

/-- after `EncodeEntry` returned, the buffer handed to `ioCore.Write` is in no pool and no pooled object
    references it (`putJSONEncoder` cleared `buf` and `reflectBuf` before `Put`), and it holds the line -/
theorem buffer_owner (orc : Orc) (h : H) (hi : Inv h) (p : Parent) (j : Job) :
    ∃ b, (step Code.real orc h (.encJson p j)).inflight.head? = some b ∧
      b ∉ (step Code.real orc h (.encJson p j)).bufPool ∧
      (∀ o ∈ (step Code.real orc h (.encJson p j)).jsonPool, o.buf ≠ some b ∧ o.reflectBuf ≠ some b) ∧
      (step Code.real orc h (.encJson p j)).mem b = pureJson p j := by
  obtain ⟨i1, r1⟩ := step_ok orc h (psOf h) (.encJson p j) hi (rel_self h)
  have hin : ∃ b rest, (step Code.real orc h (.encJson p j)).inflight = b :: rest := by
    have := r1.1
    simp only [pstep] at this
    cases hl : (step Code.real orc h (.encJson p j)).inflight with
    | nil => rw [hl] at this; simp at this
    | cons b rest => exact ⟨b, rest, rfl⟩
  obtain ⟨b, rest, hb⟩ := hin
  refine ⟨b, by rw [hb]; rfl, ?_, ?_, ?_⟩
  · have := i1.owns.1
    rw [hb] at this
    simp only [List.nodup_append, List.mem_append, List.mem_cons] at this
    intro hc; exact this.2.2 b hc b (Or.inl (Or.inl rfl)) rfl
  · intro o ho
    obtain ⟨h1, h2⟩ := i1.json o ho
    rw [h1, h2]; simp
  · have := r1.1
    simp only [pstep] at this
    rw [hb] at this
    simpa using (List.cons_eq_cons.mp this).1

/-- `ioCore.Write` frees the buffer only after the sink returned: the sink sees the bytes the buffer holds at
    that moment, and only then does the buffer enter the pool -/
theorem freed_after_sink (orc : Orc) (h : H) (b : Nat) (hb : h.inflight[0]? = some b) :
    (step Code.real orc h (.deliver 0)).out = Out.line (h.mem b) :: h.out ∧
    (step Code.real orc h (.deliver 0)).bufPool = b :: h.bufPool ∧
    (step Code.real orc h (.deliver 0)).inflight = h.inflight.eraseIdx 0 := by
  simp [step, hb, real_free, bufFree]

/-- between `EncodeEntry` and the return of the sink ANYTHING may happen — other loggers logging and being
    delivered (`nested`: they complete only their own Writes), a sink that logs re-entrantly, With-clones, checked
    entries, error arrays, stack captures, scratch buffers, panicking fields, GC cycles — after any history before
    it: the sink still receives exactly the line (`reentrant`/concurrent clause of the property) -/
theorem in_flight_undisturbed (orc : Orc) (hist mid : List Op) (p : Parent) (j : Job) (hm : nested 0 mid = true) :
    (run Code.real orc H.empty (hist ++ [.encJson p j] ++ mid ++ [.deliver 0])).out.head? =
      some (Out.line (pureJson p j)) := by
  rw [history_independent, prun_append, prun_append, prun_append]
  generalize prun PS.empty hist = s0
  have e := prun_nested mid 0 (prun s0 [.encJson p j]) [] (pureJson p j) s0.inflight rfl rfl hm
  generalize prun (prun s0 [.encJson p j]) mid = s1 at e
  simp [prun, pstep, e]

theorem in_flight_undisturbed_console (orc : Orc) (hist mid : List Op) (p : Parent) (j : CJob) (hm : nested 0 mid = true) :
    (run Code.real orc H.empty (hist ++ [.encConsole p j] ++ mid ++ [.deliver 0])).out.head? =
      some (Out.line (pureConsole p j)) := by
  rw [history_independent, prun_append, prun_append, prun_append]
  generalize prun PS.empty hist = s0
  have e := prun_nested mid 0 (prun s0 [.encConsole p j]) [] (pureConsole p j) s0.inflight rfl rfl hm
  generalize prun (prun s0 [.encConsole p j]) mid = s1 at e
  simp [prun, pstep, e]

/-! ## 4b. a CheckedEntry stays out of the pool until its hook has returned -/

/-- `CheckedEntry.Write` hands the entry to `hook.OnWrite(ce, fields)` and only afterwards to `putCheckedEntry`:
    whatever happens while the hook runs — the hook logging through other loggers (`hnested`: hooks entered in the
    meantime return in the meantime), other goroutines logging, checked entries written or dropped, GCs, for every
    behaviour of sync.Pool and after any history — the hook reads the entry of ITS log call -/
theorem hook_reads_own_entry (orc : Orc) (hist mid : List Op) (ent : Nat) (cores : List Nat) (a : Nat) (errOut : Option Nat)
    (hm : hnested 0 mid = true) :
    (run Code.real orc H.empty (hist ++ [.check ent cores (some a) errOut true] ++ mid ++ [.hookReturn 0])).out.head? =
      some (Out.hook ent (some a)) := by
  rw [history_independent, prun_append, prun_append, prun_append]
  generalize prun PS.empty hist = s0
  have e := prun_hnested mid 0 (prun s0 [.check ent cores (some a) errOut true]) [] (ent, some a) s0.inHook rfl rfl hm
  generalize prun (prun s0 [.check ent cores (some a) errOut true]) mid = s1 at e
  simp [prun, pstep, e]

/-- while a hook runs its entry is in no pool: `getCheckedEntry` can never hand it out -/
theorem hooked_entry_not_pooled (orc : Orc) (ops : List Op) :
    ∀ id ∈ (run Code.real orc H.empty ops).ceh.inHook, id ∉ (run Code.real orc H.empty ops).ceh.pool := by
  intro id hid hp
  have := (pool_inv_reachable orc ops).ce.1
  exact (List.nodup_append.mp this).2.2 id hp id hid rfl

/-- the call of `putCheckedEntry`, `putJSONEncoder` and `putSliceEncoder` is the last use of the object in its
    caller (regenerated from the source): no read of the argument follows on any path to the end of the function -/
theorem put_is_last_use :
    (Gen.Pools.putUses.map fun s => (s.fn, s.recv, s.deferred, s.usesAfter)) =
    [("zapcore.(consoleEncoder).EncodeEntry", "putSliceEncoder(arr)", false, 0),
     ("zapcore.(CheckedEntry).Write", "putCheckedEntry(ce)", false, 0),
     ("zapcore.(consoleEncoder).writeContext", "putJSONEncoder(context)", true, 0),
     ("zapcore.(jsonEncoder).EncodeEntry", "putJSONEncoder(final)", false, 0)] := by
  decide +kernel

/-! ## 4c. the encoder a core holds is never changed by logging through it -/

/-- **clone discipline.** The encoder held by a core (made by `With`, i.e. `Clone` + `addFields`) is long-lived state
    next to the pools.  No operation — a Write through that very core (JSON or console, with or without fields), a
    `With` deriving a child from it, writes through other cores, panicking fields, anything — changes what any
    existing core's encoder holds: its buffer bytes and its namespace counter read the same afterwards -/
theorem core_encoder_unchanged_by_write (orc : Orc) (h : H) (hi : Inv h) (op : Op) (k : Nat) (b : Bytes) (m : LiveMeta)
    (hb : liveAt (h.live.map h.mem) k = some b) (hm : liveAt h.liveMeta k = some m) :
    liveAt ((step Code.real orc h op).live.map (step Code.real orc h op).mem) k = some b ∧
    liveAt (step Code.real orc h op).liveMeta k = some m := by
  obtain ⟨_, r⟩ := step_ok orc h (psOf h) op hi (rel_self h)
  obtain ⟨a1, a2⟩ := pstep_live_stable (psOf h) op k b m hb hm
  rw [r.2.1, r.2.2.2.2]
  exact ⟨a1, a2⟩

/-- the statement of the property for histories through the SAME core: a JSON Write through a core made by `With`
    produces the line determined by how the core was made (`pureCtx p fields`) and the entry alone — whatever was
    logged before the core was made (`pre`) and whatever was logged since (`mid`: through this core — field-less
    entries, entries with fields, panicking fields —, through its children and siblings, through anything else) -/
theorem same_core_first_or_later (orc : Orc) (pre mid : List Op) (p : Parent) (fields : List RO) (j : Job) :
    (run Code.real orc H.empty
        (pre ++ [.withClone p fields] ++ mid ++ [.encJsonAt (prun PS.empty pre).live.length j, .deliver 0])).out.head? =
      some (Out.line (pureJson ⟨p.cfg, p.spaced, (pureCtx p fields).buf, (pureCtx p fields).openNs⟩ j)) := by
  rw [history_independent, prun_append, prun_append, prun_append]
  have hl := prun_len pre PS.empty rfl
  generalize prun PS.empty pre = s0 at *
  have := pparent_after s0 hl p fields mid
  have e : prun s0 [.withClone p fields] = pstepWith s0 p fields := rfl
  rw [e]
  generalize prun (pstepWith s0 p fields) mid = s1 at *
  simp [prun, pstep, this]

theorem same_core_first_or_later_console (orc : Orc) (pre mid : List Op) (p : Parent) (fields : List RO) (j : CJob) :
    (run Code.real orc H.empty
        (pre ++ [.withClone p fields] ++ mid ++ [.encConsoleAt (prun PS.empty pre).live.length j, .deliver 0])).out.head? =
      some (Out.line (pureConsole ⟨p.cfg, p.spaced, (pureCtx p fields).buf, (pureCtx p fields).openNs⟩ j)) := by
  rw [history_independent, prun_append, prun_append, prun_append]
  have hl := prun_len pre PS.empty rfl
  generalize prun PS.empty pre = s0 at *
  have := pparent_after s0 hl p fields mid
  have e : prun s0 [.withClone p fields] = pstepWith s0 p fields := rfl
  rw [e]
  generalize prun (pstepWith s0 p fields) mid = s1 at *
  simp [prun, pstep, this]

/-- … and a child derived from that core at any later time starts from the same context -/
theorem same_core_child_first_or_later (orc : Orc) (pre mid : List Op) (p : Parent) (fields extra : List RO) :
    (run Code.real orc H.empty
        (pre ++ [.withClone p fields] ++ mid ++ [.withAt (prun PS.empty pre).live.length extra])).out.head? =
      some (Out.ctx (pureCtx ⟨p.cfg, p.spaced, (pureCtx p fields).buf, (pureCtx p fields).openNs⟩ extra).buf
                    (pureCtx ⟨p.cfg, p.spaced, (pureCtx p fields).buf, (pureCtx p fields).openNs⟩ extra).openNs) := by
  rw [history_independent, prun_append, prun_append, prun_append]
  have hl := prun_len pre PS.empty rfl
  generalize prun PS.empty pre = s0 at *
  have := pparent_after s0 hl p fields mid
  have e : prun s0 [.withClone p fields] = pstepWith s0 p fields := rfl
  rw [e]
  generalize prun (pstepWith s0 p fields) mid = s1 at *
  simp [prun, pstep, pstepWith, this]

/-- the clone discipline in the source (regenerated): `jsonEncoder.EncodeEntry`/`Clone`/`clone`,
    `consoleEncoder.EncodeEntry`/`writeContext`/`Clone`/`addSeparatorIfNecessary` apply no mutating operation — field
    assignment, buffer write, mutating method, handing the receiver to other code — to their RECEIVER (they work on
    `final`, `context`, `clone`), and `ioCore.With`/`Check`/`Write`/`Sync`/`clone` call nothing but `EncodeEntry` and
    `Clone` on `c.enc` -/
theorem receiver_encoder_never_mutated :
    Gen.Pools.recvMutations =
    [("zapcore.jsonEncoder.EncodeEntry", ""), ("zapcore.jsonEncoder.Clone", ""), ("zapcore.jsonEncoder.clone", ""),
     ("zapcore.consoleEncoder.EncodeEntry", ""), ("zapcore.consoleEncoder.writeContext", ""),
     ("zapcore.consoleEncoder.Clone", ""), ("zapcore.consoleEncoder.addSeparatorIfNecessary", ""),
     ("zapcore.ioCore.With", ""), ("zapcore.ioCore.Check", ""), ("zapcore.ioCore.Write", ""), ("zapcore.ioCore.Sync", ""),
     ("zapcore.ioCore.clone", "")] := by
  decide +kernel

/-! ## 5. the source, as regenerated into `Gen/Pools.lean` -/

/-- every field of every pooled struct is assigned on every get path, or on every put path, or is one of the two
    fields proved unobservable: `Stack.storage`, scratch space that `runtime.Callers` overwrites before it is read and of
    which only the length matters (`stack_independent_of_garbage`, `StackObj.PutInv`), and `jsonEncoder.reflectEnc`,
    which `resetReflectBuf` assigns before every read whenever `reflectBuf` is nil — and `reflectBuf` is nil in every
    pooled encoder (`encode_independent_of_garbage` holds for every value of it).  Today only `storage` needs the
    exemption: `reflectEnc` is also reset on put. -/
theorem field_covered :
    ((Gen.Pools.table.flatMap fun p => p.uncovered.map fun f => (p.id, f)).all fun x =>
      [("internal/stacktrace._stackPool", "storage"), ("zapcore._jsonPool", "reflectEnc")].contains x) = true := by
  decide +kernel

/-- the pools of the tree are exactly the seven the model has, with these element types and fields -/
theorem pools_expected :
    (Gen.Pools.table.map fun p => (p.id, p.elem, p.fields, p.newSets)) =
    [("zap._errArrayElemPool", "errArrayElem", ["error"], []),
     ("buffer.Pool.p", "Buffer", ["bs", "pool"], ["bs"]),
     ("internal/stacktrace._stackPool", "Stack", ["pcs", "frames", "storage"], ["storage"]),
     ("zapcore._sliceEncoderPool", "sliceArrayEncoder", ["elems"], ["elems"]),
     ("zapcore._cePool", "CheckedEntry", ["Entry", "ErrorOutput", "dirty", "after", "cores"], ["cores"]),
     ("zapcore._errArrayElemPool", "errArrayElem", ["err"], []),
     ("zapcore._jsonPool", "jsonEncoder", ["EncoderConfig", "buf", "spaced", "openNamespaces", "reflectBuf", "reflectEnc"], [])] ∧
    Gen.Pools.bufferPoolOwners = ["internal/bufferpool: buffer.NewPool()"] := by
  decide +kernel

/-- the get paths assign exactly what `cloneFrom`, `bufGet`, `ceReset`, `errElem`, `captureFrom`, `columnsFrom`
    assign (field, right-hand side, on every path?) -/
theorem source_matches_model_get :
    (Gen.Pools.table.map fun p => (p.id, p.getFns, p.getSets.map fun a => (a.field, a.rhs, a.always))) =
    [("zap._errArrayElemPool", ["zap.(errArray).MarshalLogArray"], [("error", "errs[i]", true)]),
     ("buffer.Pool.p", ["buffer.(Pool).Get"], [("bs", "b.bs[:0]", true), ("pool", "p", true)]),
     ("internal/stacktrace._stackPool", ["internal/stacktrace.Capture"],
      [("frames", "runtime.CallersFrames(stack.pcs)", true),
       ("pcs", "stack.storage[:1] | stack.storage | pcs[:numFrames] | stack.pcs[:numFrames]", true),
       ("storage", "pcs", false)]),
     ("zapcore._sliceEncoderPool", ["zapcore.(consoleEncoder).EncodeEntry via getSliceEncoder", "zapcore.getSliceEncoder"],
      [("elems", "append(s.elems, v)", false)]),
     ("zapcore._cePool", ["zapcore.getCheckedEntry"],
      [("Entry", "Entry{}", true), ("ErrorOutput", "nil", true), ("after", "nil", true), ("cores", "ce.cores[:0]", true),
       ("dirty", "false", true)]),
     ("zapcore._errArrayElemPool", ["zapcore.newErrArrayElem"], [("err", "err", true)]),
     ("zapcore._jsonPool", ["zapcore.(jsonEncoder).clone"],
      [("EncoderConfig", "enc.EncoderConfig", true), ("buf", "bufferpool.Get()", true),
       ("openNamespaces", "enc.openNamespaces", true), ("spaced", "enc.spaced", true)])] := by
  decide +kernel

/-- what the put-invariant (`JsonObj.PutInv`, `SliceObj.PutInv`) needs from the put paths and is not re-established
    by the get path: `putJSONEncoder` clears `buf` and `reflectBuf`, `putSliceEncoder` truncates `elems` — on every path.
    (The other resets of the source — `EncoderConfig`, `spaced`, `openNamespaces`, `reflectEnc`, `err`, `pcs`, `frames` —
    only drop references or repeat what the get path assigns; the theorems above hold without them, so removing one
    of those is not reported.) -/
theorem put_resets_cover_inv :
    ([("zapcore._jsonPool", "buf", "nil"), ("zapcore._jsonPool", "reflectBuf", "nil"),
      ("zapcore._sliceEncoderPool", "elems", "e.elems[:0]")].all fun r =>
        match find Gen.Pools.table r.1 with
        | some p => p.putSets.any fun a => a.field == r.2.1 && a.rhs == r.2.2 && a.always
        | none => false) = true := by
  decide +kernel

/-- a put path does nothing but reset: every assignment before `Put` stores a zero value (`nil`, `0`, `false`) or
    truncates a slice to length 0 -/
theorem put_paths_only_reset :
    (Gen.Pools.table.all fun p => p.putSets.all fun a => ["nil", "0", "false", "e.elems[:0]"].contains a.rhs) = true := by
  decide +kernel

/-- on the way to `Put` exactly one other call is made through the object (`enc.reflectBuf.Free()`), and the put
    functions are called from exactly the sites the model has an operation for -/
theorem put_sites :
    (Gen.Pools.table.map fun p => (p.id, p.putCalls, p.putSites)) =
    [("zap._errArrayElemPool", [], ["zap.(errArray).MarshalLogArray (inline)"]),
     ("buffer.Pool.p", [],
      ["internal/stacktrace.Take", "zap.(Logger).check", "zapcore.(EntryCaller).FullPath", "zapcore.(EntryCaller).TrimmedPath",
       "zapcore.(consoleEncoder).writeContext", "zapcore.(ioCore).Write", "zapcore.putJSONEncoder"]),
     ("internal/stacktrace._stackPool", [], ["internal/stacktrace.Take", "zap.(Logger).check"]),
     ("zapcore._sliceEncoderPool", [], ["zapcore.(consoleEncoder).EncodeEntry"]),
     ("zapcore._cePool", [], ["zapcore.(CheckedEntry).Write"]),
     ("zapcore._errArrayElemPool", [], ["zapcore.(errArray).MarshalLogArray"]),
     ("zapcore._jsonPool", ["reflectBuf.Free"], ["zapcore.(consoleEncoder).writeContext", "zapcore.(jsonEncoder).EncodeEntry"])] := by
  decide +kernel

/-- every `Free`/`put` of a pooled object in the tree: one per object and function (no double free), and no read of
    the object follows it (`usesAfter = 0`; `defer x.Free()` runs last by construction) — in particular
    `ioCore.Write` frees after `c.out.Write(buf.Bytes())` and the path helpers free after `buf.String()` copied -/
theorem free_sites :
    (Gen.Pools.freeSites.map fun s => (s.fn, s.recv, s.deferred, s.usesAfter)) =
    [("zap.(Logger).check", "stack.Free", true, 0),
     ("zap.(Logger).check", "buffer.Free", true, 0),
     ("buffer.(Buffer).Free", "b.pool.put", false, 0),
     ("internal/stacktrace.Take", "stack.Free", true, 0),
     ("internal/stacktrace.Take", "buffer.Free", true, 0),
     ("zapcore.(consoleEncoder).writeContext", "context.buf.Free", true, 0),
     ("zapcore.(ioCore).Write", "buf.Free", false, 0),
     ("zapcore.(EntryCaller).FullPath", "buf.Free", false, 0),
     ("zapcore.(EntryCaller).TrimmedPath", "buf.Free", false, 0),
     ("zapcore.(errArray).MarshalLogArray", "el.Free", false, 0),
     ("zapcore.putJSONEncoder", "enc.reflectBuf.Free", false, 0)] := by
  decide +kernel

/-! ## 6. sensitivity: switching one statement off lets an earlier operation change a later output -/

def P0 : Parent := ⟨1, false, [], 0⟩
def lifo : Orc := fun _ => some 0          -- sync.Pool on one pinned goroutine: the last object put
def jPlain : Job := ⟨[], [RO.prim [97] (J.atom [49])], [], [10]⟩
def jRefl : Job := ⟨[], [RO.refl [97] (J.atom [49])], [], [10]⟩
def cjPlain (col : UInt8) : CJob := ⟨[[col]], [9], some [109], [], none, [10]⟩
def cjOpenNs : CJob := ⟨[], [9], none, [RO.ns [110]], none, [10]⟩
def last (h : H) : Option Out := h.out.head?

/-- `openNamespaces` neither copied by `clone` nor reset by `putJSONEncoder`: a console entry whose field panicked
    after `OpenNamespace` leaves a counter of 1 behind; the next JSON entry closes a namespace it never opened -/
theorem leak_openNamespaces :
    last (run { putResetsOpenNs := false, cloneSetsOpenNs := false } lifo H.empty [.ctxPanic P0 cjOpenNs, .encJson P0 jPlain, .deliver 0]) ≠
    last (run { putResetsOpenNs := false, cloneSetsOpenNs := false } lifo H.empty [.encJson P0 jPlain, .deliver 0]) := by
  decide +kernel

/-- `reflectBuf`/`reflectEnc` not cleared by `putJSONEncoder`: the freed reflection buffer is still referenced by the
    pooled encoder; when the buffer pool hands the same buffer out as the next entry's `buf`, resetting the
    "reflection buffer" wipes the line -/
theorem leak_reflectBuf :
    last (run { putResetsReflectBuf := false, putResetsReflectEnc := false } (fun t => if t = 4 then some 1 else some 0) H.empty
            [.encJson P0 jRefl, .deliver 0, .encJson P0 jRefl, .deliver 0]) ≠
    last (run { putResetsReflectBuf := false, putResetsReflectEnc := false } (fun t => if t = 4 then some 1 else some 0) H.empty
            [.encJson P0 jRefl, .deliver 0]) := by
  decide +kernel

/-- `elems` not truncated by `putSliceEncoder`: the previous entry's columns are printed again -/
theorem leak_elems :
    last (run { putTruncatesElems := false } lifo H.empty [.encConsole P0 (cjPlain 65), .deliver 0, .encConsole P0 (cjPlain 66), .deliver 0]) ≠
    last (run { putTruncatesElems := false } lifo H.empty [.encConsole P0 (cjPlain 66), .deliver 0]) := by
  decide +kernel

/-- `cores` not truncated by `reset`: the next entry is also written to the previous entry's cores -/
theorem leak_cores :
    last (run { resetTruncatesCores := false } lifo H.empty [.check 1 [7] none none true, .check 2 [9] none none true]) ≠
    last (run { resetTruncatesCores := false } lifo H.empty [.check 2 [9] none none true]) := by
  decide +kernel

/-- `after` not cleared by `reset`: the previous entry's hook (a panic/fatal hook) fires for the next entry -/
theorem leak_after :
    last (run { resetClearsAfter := false } lifo H.empty [.check 1 [7] (some 3) none true, .hookReturn 0, .check 2 [9] none none true]) ≠
    last (run { resetClearsAfter := false } lifo H.empty [.check 2 [9] none none true]) := by
  decide +kernel

/-- `ErrorOutput` not cleared by `reset`: a core-level entry reports its write error to another logger's error output -/
theorem leak_errorOutput :
    last (run { resetClearsErrOut := false } lifo H.empty [.check 1 [7] none (some 5) true, .check 2 [9] none none true]) ≠
    last (run { resetClearsErrOut := false } lifo H.empty [.check 2 [9] none none true]) := by
  decide +kernel

/-- the buffer freed before the sink has consumed it: anything that takes a buffer in between overwrites the line -/
theorem leak_early_free :
    last (run { freeAfterSink := false } lifo H.empty [.encJson P0 jPlain, .scratch [120], .deliver 0]) ≠
    last (run { freeAfterSink := false } lifo H.empty [.encJson P0 jPlain, .deliver 0]) := by
  decide +kernel

/-- `putCheckedEntry(ce)` before `hook.OnWrite(ce, fields)`: a log call made while the hook runs (by the hook itself, or by
    another goroutine) is handed the same entry, and the hook reads THAT call's entry -/
theorem leak_early_put :
    last (run { putAfterHook := false } lifo H.empty [.check 1 [7] (some 3) none true, .check 2 [9] none none true, .hookReturn 0]) ≠
    last (run { putAfterHook := false } lifo H.empty [.check 1 [7] (some 3) none true, .hookReturn 0]) := by
  decide +kernel

def Pns : Parent := ⟨1, true, [], 0⟩
def cjNoFields : CJob := ⟨[], [9], some [109], [], none, [10]⟩
def cjFields : CJob := ⟨[], [9], some [109], [RO.prim [115] (J.atom [50])], none, [10]⟩

/-- `writeContext` closing the namespaces of the RECEIVER for field-less entries (a "fast path" without a clone): the
    first field-less entry through a core whose context left a namespace open changes that core's encoder for good; every
    later entry with fields has them outside the namespace -/
theorem leak_receiver_mutated :
    last (run { contextOnClone := false } lifo H.empty
      [.withClone Pns [RO.ns [114], RO.prim [105] (J.atom [49])], .encConsoleAt 0 cjNoFields, .deliver 0, .encConsoleAt 0 cjFields, .deliver 0]) ≠
    last (run { contextOnClone := false } lifo H.empty
      [.withClone Pns [RO.ns [114], RO.prim [105] (J.atom [49])], .encConsoleAt 0 cjFields, .deliver 0]) := by
  decide +kernel

/-! ## 7. non-vacuity -/

-- pooled garbage really is reused in these runs: after one JSON entry with a reflected field the pools hold the
-- encoder and both buffers; the second entry takes all of them back out (LIFO oracle)
example : (run Code.real lifo H.empty [.encJson P0 jRefl, .deliver 0]).jsonPool.length = 1 ∧
          (run Code.real lifo H.empty [.encJson P0 jRefl, .deliver 0]).bufPool = [0, 1] ∧
          (run Code.real lifo H.empty [.encJson P0 jRefl, .deliver 0, .encJson P0 jRefl]).bufPool = [1] ∧
          (run Code.real lifo H.empty [.encJson P0 jRefl, .deliver 0, .encJson P0 jRefl]).next = 2 := by decide +kernel

-- … and the output is the same line both times
example : last (run Code.real lifo H.empty [.encJson P0 jRefl, .deliver 0, .encJson P0 jRefl, .deliver 0]) =
          some (Out.line [123, 34, 97, 34, 58, 49, 125, 10]) := by decide +kernel

-- the hostile oracle of `leak_reflectBuf` is harmless for the real code
example : last (run Code.real (fun t => if t = 4 then some 1 else some 0) H.empty
            [.encJson P0 jRefl, .deliver 0, .encJson P0 jRefl, .deliver 0]) = some (Out.line [123, 34, 97, 34, 58, 49, 125, 10]) := by
  decide +kernel

-- the hypotheses of `encode_independent_of_garbage` are satisfiable with real garbage: a stale config pointer, a
-- non-zero namespace counter, a stale reflection encoder, a dirty non-empty buffer pool
example : (⟨some 9, none, true, 5, none, some 3⟩ : JsonObj).PutInv ∧
          Owns { H.empty with next := 4, bufPool := [2, 0], mem := fun _ => [1, 2, 3] } [] := by
  refine ⟨⟨rfl, rfl⟩, ?_, ?_⟩
  · decide
  · intro x hx; simp at hx; rcases hx with rfl | rfl <;> decide

-- `nested` admits a re-entrant sink and interleaved Writes of other loggers
example : nested 0 [.encJson P0 jPlain, .scratch [1], .encConsole P0 (cjPlain 65), .deliver 1, .gc (fun _ => false), .deliver 0] = true := by
  decide

-- a hook that logs through two other loggers, one of them with a hook of its own, is `hnested`; the real code hands it its entry
example : hnested 0 [.check 2 [9] none none true, .check 3 [8] (some 4) none true, .gc (fun _ => true), .hookReturn 0] = true := by decide
example : last (run Code.real lifo H.empty [.check 1 [7] (some 3) none true, .check 2 [9] none none true, .hookReturn 0]) =
          some (Out.hook 1 (some 3)) := by decide +kernel

-- the real code: the same two histories through one console core with an open namespace give the same line
example : last (run Code.real lifo H.empty
      [.withClone Pns [RO.ns [114], RO.prim [105] (J.atom [49])], .encConsoleAt 0 cjNoFields, .deliver 0, .encConsoleAt 0 cjFields, .deliver 0]) =
    last (run Code.real lifo H.empty
      [.withClone Pns [RO.ns [114], RO.prim [105] (J.atom [49])], .encConsoleAt 0 cjFields, .deliver 0]) := by decide +kernel

-- a real (pooled) Stack satisfies the invariant after a deep capture grew it
example : ((captureFrom StackObj.fresh (List.replicate 100 7) true).1.storage.length = 128) := by decide +kernel

end ZapVerif.C08

/-! ## the pool discipline of the JSON encoder IS the source (table `Gen/TransJsonEnc.lean`)

`free_sites` and `put_is_last_use` above rest on a syntactic table of call sites.  Here the bodies of `clone`, `Clone`,
`putJSONEncoder` and `EncodeEntry` of zapcore/json_encoder.go, translated mechanically, are interpreted with the pools
as recorded intrinsics, and the ORDER of the recorded calls is a theorem:

* `clone`: one `_jsonPool.Get`, configuration / `spaced` / `openNamespaces` copied from the receiver, then one fresh
  buffer from the buffer pool; nothing of the receiver changes;
* `Clone`: `clone`, then the receiver's bytes are COPIED into the fresh buffer (the receiver's buffer is only read);
* `putJSONEncoder`: `reflectBuf.Free()` (only when there is one) BEFORE every field is reset, `_jsonPool.Put` last;
* `EncodeEntry`: the buffer is read before `putJSONEncoder(final)`, which is the last recorded call. -/
namespace ZapVerif.C08
set_option linter.unusedSimpArgs false
open ZapVerif ZapVerif.GoMini ZapVerif.TransJsonEnc ZapVerif.Gen.TransJsonEnc

theorem clone_exec_matches_source (P : Par) (cfg : List Val) (buf : Bytes) (sp : Bool) (ns : Int) (ocfg : List Val)
    (obuf : Bytes) (osp : Bool) (ons : Int) (oself : Val) (ev : List Val) (fuel : Nat) :
    (exec (X P) (fuel + 1) clone_body ⟨[], cloneFld cfg buf sp ns ocfg obuf osp ons oself ev⟩).fin =
      some ([oself], cloneFld cfg buf sp ns cfg [] sp ns oself
        (ev ++ [.list [TransJsonEnc.nm "jsonPool.Get"], .list [TransJsonEnc.nm "bufferpool.Get"]])) := by
  rw [exec_succ]
  simp [clone_body, nm_jget, nm_get]

theorem clone_matches_source (P : Par) (cfg : List Val) (buf : Bytes) (sp : Bool) (ns : Int) (ocfg : List Val)
    (obuf : Bytes) (osp : Bool) (ons : Int) (oself : Val) (ev : List Val) (fuel : Nat) :
    run (X P) (fuel + 1) "clone" [] (cloneFld cfg buf sp ns ocfg obuf osp ons oself ev) =
      .done [oself] (cloneFld cfg buf sp ns cfg [] sp ns oself
        (ev ++ [.list [TransJsonEnc.nm "jsonPool.Get"], .list [TransJsonEnc.nm "bufferpool.Get"]])) :=
  run_of_fin (X P) _ _ Gen.TransJsonEnc.clone [] _ _ _ rfl rfl
    (clone_exec_matches_source P cfg buf sp ns ocfg obuf osp ons oself ev fuel)

/-- `Clone`: the clone holds a COPY of the receiver's bytes in its own fresh buffer; the receiver is unchanged -/
theorem Clone_matches_source (P : Par) (cfg : List Val) (buf : Bytes) (sp : Bool) (ns : Int) (ocfg : List Val)
    (obuf : Bytes) (osp : Bool) (ons : Int) (oself : Val) (ev : List Val) (fuel : Nat) :
    run (X P) (fuel + 2) "Clone" [] (cloneFld cfg buf sp ns ocfg obuf osp ons oself ev) =
      .done [oself] (cloneFld cfg buf sp ns cfg buf sp ns oself
        (ev ++ [.list [TransJsonEnc.nm "jsonPool.Get"], .list [TransJsonEnc.nm "bufferpool.Get"]])) := by
  refine run_of_fin (X P) _ _ Gen.TransJsonEnc.Clone [] _ _ _ rfl rfl ?_
  show (exec (X P) (fuel + 2) Clone_body ⟨[], _⟩).fin = _
  have hcall : ∀ σ : State, retK σ [.blank] "clone"
      (exec (X P) (fuel + 1) clone_body ⟨[], cloneFld cfg buf sp ns ocfg obuf osp ons oself ev⟩) = _ :=
    fun σ => retK_of_fin1 σ _ _ _ _ _ (clone_exec_matches_source P cfg buf sp ns ocfg obuf osp ons oself ev fuel)
  rw [exec_succ]
  simp [Clone_body, hcall, State.assign1]

/-- `putJSONEncoder`: the scratch buffer is freed first (iff there is one), every field is reset, `Put` is last -/
theorem putJSONEncoder_matches_source (P : Par) (cfg bufp : List Val) (sp : Bool) (ns : Int) (rbuf renc : List Val)
    (self : Val) (ev : List Val) (fuel : Nat) :
    run (X P) (fuel + 1) "putJSONEncoder" [] (putFld cfg bufp sp ns rbuf renc self ev) =
      .done [] (putFld [] [] false 0 [] [] self
        (ev ++ (if rbuf.isEmpty then [] else [.list [TransJsonEnc.nm "Buffer.Free", .list rbuf]]) ++
          [.list [TransJsonEnc.nm "jsonPool.Put", self]])) := by
  refine run_of_fin (X P) _ _ Gen.TransJsonEnc.putJSONEncoder [] _ _ _ rfl rfl ?_
  show (exec (X P) (fuel + 1) putJSONEncoder_body ⟨[], _⟩).fin = _
  rw [exec_succ]
  cases rbuf with
  | nil => simp [putJSONEncoder_body, nm_jput]
  | cons a r =>
    have hpos : ¬ ((r.length : Int) + 1 = 0) := by omega
    simp [putJSONEncoder_body, nm_jput, nm_free, hpos]

/-- `EncodeEntry` (from `C02.EncodeEntry_matches_source`): the returned buffer is the clone's buffer as it was when
    `ret := final.buf` ran; the only pool-relevant calls are the clone at the start and `putJSONEncoder(final)`, which is
    the LAST recorded call — no use of `final` follows it -/
theorem EncodeEntry_put_is_last_use (P : Par) (c : ECfg) (e : EEnt) (fields : Val) (b0 : Bytes) (sp0 : Bool) (ns0 : Int)
    (rb0 re0 : List Val) (obuf : Bytes) (osp : Bool) (ons : Int) (self : Val) (ev : List Val) (fuel : Nat) :
    ∃ (line : Bytes) (fl : Env) (rb : List Val),
      run (X P) (fuel + 1) "EncodeEntry" [e.val, fields] (eeFld c b0 sp0 ns0 rb0 re0 obuf osp ons self ev) =
        .done [.bytes line, .list []] fl ∧
      fl.get "buf" = some (.bytes line) ∧ fl.get "o.buf" = some (.bytes obuf) ∧
      fl.get "ev" = some (.list (ev ++ [.list [TransJsonEnc.nm "jsonEncoder.clone", .bool osp, .int ons],
                                        .list [TransJsonEnc.nm "putJSONEncoder", .list rb, self]])) :=
  ⟨_, _, _, C02.EncodeEntry_matches_source P c e fields b0 sp0 ns0 rb0 re0 obuf osp ons self ev fuel, rfl, rfl, rfl⟩

end ZapVerif.C08
