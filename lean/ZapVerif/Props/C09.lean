import ZapVerif.Proofs.Publish
import ZapVerif.Proofs.Deadlock
import ZapVerif.Gen.SyncFacts
import ZapVerif.Gen.Delegates
/-! # C09 — the documented concurrent API is free of data races, deadlocks (and panics: sampled only)

Generic part (proved once over M10, `Model/Sync.lean`): a synchronisation *discipline* followed by all
accesses to a variable implies that no two conflicting accesses are unordered by happens-before.
Specific part: the regenerated table `Gen/SyncFacts.lean` lists every syntactic access to every field of
the shared types with its guard; `all_fields_disciplined` re-checks on every run that each field fits one
discipline class, and `class_sound` maps every class to its generic theorem.

Trusted (DESIGN §3): the happens-before relation `Sync.HB` is the rendering of the Go memory model; Go's
`sync.Mutex`/`RWMutex`/`Once`/`sync/atomic` implement `Sync.okStep`; the extractor's syntactic guards are
an approximation of the dynamic discipline (it over-approximates towards "unguarded"). -/
namespace ZapVerif.C09
open ZapVerif ZapVerif.Sync

/-! ## generic theorems -/

/-- soundness of the vector clock used by `lockset_ordered`: it never reports an ordering that is not in
    the inductive happens-before closure -/
theorem know_sound (e : Ev) (tr : List Ev) (k : Nat) (h : know tr e.tid k = true) :
    HB (e :: tr) k tr.length := Sync.know_sound e tr k h

/-- all accesses to x inside critical sections of one mutex ⇒ no data race on x -/
theorem lockset_drf (x : Var) (m : Lock) (tr : List Ev) (hwf : WF tr) (hg : Guarded x m tr) : DRF tr x :=
  Sync.lockset_drf x m tr hwf hg

/-- writes under the exclusive lock, reads under the exclusive or the read lock ⇒ no data race -/
theorem rw_lockset_drf (x : Var) (m : Lock) (tr : List Ev) (hwf : WF tr) (hg : RWGuarded x m tr) : DRF tr x :=
  Sync.rw_lockset_drf x m tr hwf hg

/-- only sync/atomic accesses ⇒ no data race (by definition of a conflict) -/
theorem atomic_only_drf (x : Var) (tr : List Ev) (h : AtomicOnly x tr) : DRF tr x :=
  Sync.atomic_only_drf x tr h

/-- written inside `Once.Do`, read there or after returning from a `Do` ⇒ no data race -/
theorem once_publish_drf (x : Var) (o : OnceId) (tr : List Ev) (hwf : WF tr) (hg : OnceGuarded x o tr) :
    DRF tr x := Sync.once_publish_drf x o tr hwf hg

/-- written by its constructor only, handed over after the last write ⇒ no data race -/
theorem immutable_after_publish_drf (x : Var) (c : Tid) (tr : List Ev) (h : PublishedBy x c tr) : DRF tr x :=
  Sync.immutable_after_publish_drf x c tr h

/-- touched by a single goroutine (a fresh clone under construction) ⇒ no data race -/
theorem owner_only_drf (x : Var) (c : Tid) (tr : List Ev) (h : OwnerOnly x c tr) : DRF tr x :=
  Sync.owner_only_drf x c tr h

/-- written under a mutex, read under it or after a later critical section of it ⇒ no data race -/
theorem lock_publish_drf (x : Var) (m : Lock) (tr : List Ev) (hwf : WF tr) (hg : LockPublished x m tr) :
    DRF tr x := Sync.lock_publish_drf x m tr hwf hg

/-- locks acquired in increasing rank, no other blocking operation inside a critical section ⇒ from every
    reachable state either some goroutine can step or all unfinished goroutines wait — holding no lock —
    at a blocking operation that is not a lock -/
theorem no_deadlock (ts : List Nat) (ready : Nat → Bool) (s0 : Deadlock.St) (sched : List Nat)
    (h0 : Deadlock.Init ts s0) :
    (∃ t ∈ ts, Deadlock.enabled ts ready (Deadlock.run s0 sched) t = true) ∨
    (∀ t ∈ ts, (Deadlock.run s0 sched).prog t ≠ [] →
      ∃ r, (Deadlock.run s0 sched).prog t = .wait :: r ∧ (Deadlock.run s0 sched).held t = []) :=
  Deadlock.progress ts ready _ (Deadlock.inv_run ts sched s0 (Deadlock.init_inv ts s0 h0))

/-! ## from the discipline classes of the generated table to the generic theorems -/

/-- what it means for the accesses to variable x in a trace to follow class c -/
def Follows (c : SyncFacts.Class) (x : Var) (tr : List Ev) : Prop :=
  match c with
  | .immutable => ∃ owner, PublishedBy x owner tr
  | .syncprim => AtomicOnly x tr
  | .atomic => AtomicOnly x tr
  | .mutex m => Guarded x m tr
  | .rwmutex m => RWGuarded x m tr
  | .once o => OnceGuarded x o tr
  | .lockPublish m => LockPublished x m tr

/-- every discipline class implies data-race freedom -/
theorem class_sound (c : SyncFacts.Class) (x : Var) (tr : List Ev) (hwf : WF tr) (h : Follows c x tr) :
    DRF tr x := by
  cases c with
  | immutable => obtain ⟨o, ho⟩ := h; exact Sync.immutable_after_publish_drf x o tr ho
  | syncprim => exact Sync.atomic_only_drf x tr h
  | atomic => exact Sync.atomic_only_drf x tr h
  | mutex m => exact Sync.lockset_drf x m tr hwf h
  | rwmutex m => exact Sync.rw_lockset_drf x m tr hwf h
  | once o => exact Sync.once_publish_drf x o tr hwf h
  | lockPublish m => exact Sync.lock_publish_drf x m tr hwf h

/-! ## obligations over the regenerated table (re-proved against today's source on every run) -/

/-- every field of every shared type fits one discipline class -/
theorem all_fields_disciplined : SyncFacts.allDisciplined Gen.SyncFacts.table = true := by decide +kernel

/-- option closures (the only writers of Logger/Handler/sampler fields) are applied to fresh objects only -/
theorem apply_sites_fresh : Gen.SyncFacts.applySites.all id = true := by decide +kernel

/-- the lock-protected wrappers (`zapcore.Lock`'s lockedWriteSyncer, BufferedWriteSyncer) call into the wrapped, not
    concurrency-safe WriteSyncer / bufio.Writer ONLY while holding their mutex — every call site of today's source
    (regenerated table Gen/Delegates; helpers that do not lock are guarded iff all their callers hold the lock) -/
theorem delegate_calls_guarded : Gen.Delegates.rows.all (fun r => r.2.2.2.2.1) = true := by decide

/-- … and the table is not vacuous: both Write and Sync of each wrapper reach the wrapped object through such a site -/
theorem delegate_surface :
    (["Write", "Sync"].all fun m => Gen.Delegates.rows.any fun r => r.1 == "lockedWriteSyncer" && r.2.1 == m && r.2.2.1 == "ws") = true ∧
    (Gen.Delegates.rows.any fun r => r.1 == "BufferedWriteSyncer" && r.2.2.1 == "WS" && r.2.2.2.1 == "Sync") = true ∧
    (Gen.Delegates.rows.any fun r => r.1 == "BufferedWriteSyncer" && r.2.2.1 == "writer" && r.2.2.2.1 == "Write") = true ∧
    (Gen.Delegates.rows.any fun r => r.1 == "BufferedWriteSyncer" && r.2.2.1 == "writer" && r.2.2.2.1 == "Flush") = true := by decide

/-- inside critical sections: only calls into the wrapped object, known non-blocking helpers, or (ObservedLogs.Filter)
    the caller's predicate — no channel operation, select, Wait, Sleep, second lock, or re-entry into the own object -/
theorem cs_calls_nonblocking :
    Gen.SyncFacts.csCalls.all (fun c => c.2 == 0 || c.2 == 1 || c.2 == 6) = true := by decide +kernel

/-! ## the lock order of nested wrappers -/

/-- a write through d nested lock-protected wrappers (BufferedWriteSyncer over Lock(sink) over …): wrapper i takes
    its own lock (rank b+i), calls the wrapped object, releases -/
def wrapProg : Nat → Nat → List Deadlock.Op
  | _, 0 => [.other]
  | b, d + 1 => .acq b :: (wrapProg (b + 1) d ++ [.rel b])

theorem okProg_wrap (d : Nat) : ∀ (b : Nat) (h : List Nat) (rest : List Deadlock.Op), (∀ x ∈ h, x < b) →
    Deadlock.okProg h (wrapProg b d ++ rest) = Deadlock.okProg h rest := by
  induction d with
  | zero => intro b h rest _; simp [wrapProg, Deadlock.okProg]
  | succ d ih =>
    intro b h rest hb
    have hall : h.all (· < b) = true := by simpa using hb
    have h1 : ∀ x ∈ b :: h, x < b + 1 := by
      intro x hx; rcases List.mem_cons.mp hx with rfl | hx
      · omega
      · have := hb x hx; omega
    simp only [wrapProg, List.cons_append, List.append_assoc, Deadlock.okProg, hall, Bool.true_and]
    rw [ih (b + 1) (b :: h) _ h1]
    simp [Deadlock.okProg]

/-- nested wrapper critical sections of any depth follow the lock-order discipline -/
theorem wrapper_programs_ordered (d : Nat) : Deadlock.okProg [] (wrapProg 0 d) = true := by
  have := okProg_wrap d 0 [] [] (by simp)
  simpa [Deadlock.okProg] using this

/-! ## non-vacuity and the shape of F8 -/

/-- two goroutines incrementing under one mutex: well-formed and guarded -/
example : WF [.rel 1 0, .wr 1 7, .rd 1 7, .acq 1 0, .rel 0 0, .wr 0 7, .rd 0 7, .acq 0 0] ∧
    Guarded 7 0 [.rel 1 0, .wr 1 7, .rd 1 7, .acq 1 0, .rel 0 0, .wr 0 7, .rd 0 7, .acq 0 0] := by
  constructor <;> simp [WF, Guarded, okStep, holder, readers, Ev.touches, Ev.tid]

/-- the pre-repair `lazyWithCore`: goroutine 0 wins `Once.Do` and replaces the embedded Core inside it; goroutine 1
    calls the promoted `Enabled` (a plain read of the field) before passing the once -/
def lazyUnrepaired : List Ev := [.rd 1 0, .onceEnd 0 0, .wr 0 0, .onceBegin 0 0]

theorem lazyUnrepaired_no_edge_into_read : ∀ i j, HB lazyUnrepaired i j → j ≠ 3 := by
  intro i j h
  induction h with
  | @po i j a b hlt ha hb ht =>
    intro hj; subst hj
    simp [lazyUnrepaired, evAt] at hb; subst hb
    have : i = 0 ∨ i = 1 ∨ i = 2 := by omega
    rcases this with rfl | rfl | rfl <;> simp [lazyUnrepaired, evAt] at ha <;> subst ha <;> simp [Ev.tid] at ht
  | @sw i j a b hlt ha hb hs =>
    intro hj; subst hj
    simp [lazyUnrepaired, evAt] at hb; subst hb
    have : i = 0 ∨ i = 1 ∨ i = 2 := by omega
    rcases this with rfl | rfl | rfl <;> simp [lazyUnrepaired, evAt] at ha <;> subst ha <;> simp [sw] at hs
  | trans _ _ _ ih2 => exact ih2

/-- F8 in the model: the trace is well-formed, violates the once discipline, and has a data race -/
theorem lazy_unrepaired_races : WF lazyUnrepaired ∧ ¬ OnceGuarded 0 0 lazyUnrepaired ∧ Race lazyUnrepaired 0 := by
  refine ⟨by simp [lazyUnrepaired, WF, okStep, onceSt], ?_, ?_⟩
  · simp [lazyUnrepaired, OnceGuarded, Ev.touches, Ev.tid, Ev.isWrite, onceSt, passed]
  · refine ⟨1, 3, .wr 0 0, .rd 1 0, by omega, by simp [lazyUnrepaired, evAt], by simp [lazyUnrepaired, evAt],
      by simp [conflict, Ev.touches, Ev.isWrite, Ev.isAtomic, Ev.tid], ?_⟩
    intro h; exact lazyUnrepaired_no_edge_into_read 1 3 h rfl

/-- the repaired shape (read only after passing the once) follows the discipline -/
example : OnceGuarded 0 0 [.rd 1 0, .onceRet 1 0, .onceEnd 0 0, .wr 0 0, .onceBegin 0 0] := by
  simp [OnceGuarded, Ev.touches, Ev.tid, Ev.isWrite, onceSt, passed]

end ZapVerif.C09
